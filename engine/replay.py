"""Counterexample handling: obtain the verifier's trace for a failed obligation, extract the harness
inputs, and replay them natively against the real code (same harness file compiled with clang
-DVERIF_NATIVE against $REPO's working tree, hooks OFF)."""
import json, os, re, subprocess, sys
import core

VERIF = core.VERIF


def trace_inputs(trace_json):
    """collect the last value assigned to every variable of a harness function (h_*) in byte form.
    returns {name: hexstring}"""
    vals = {}
    last = {}
    def enc(v):
        n = v.get("name")
        if n in ("integer", "boolean", "unknown", "bitvector") or "binary" in v:
            b = v.get("binary")
            if b is None:
                if n == "boolean":
                    return bytes([1 if v.get("data") in ("TRUE", "true", True) else 0])
                return None
            w = (len(b) + 7) // 8
            return int(b, 2).to_bytes(w, "little")
        if n == "pointer":
            d = str(v.get("data", ""))
            return (b"\0" * 8) if "NULL" in d else (b"\1" + b"\0" * 7)
        if n == "array":
            out = b""
            for e in v.get("elements", []):
                x = enc(e["value"])
                if x is None:
                    return None
                out += x
            return out
        if n == "struct":
            out = b""
            for m in v.get("members", []):
                x = enc(m["value"])
                if x is None:
                    return None
                out += x
            return out
        if n == "union":
            return enc(v.get("value", {})) if "value" in v else None
        return None
    for m in trace_json:
        if not (isinstance(m, dict) and "result" in m):
            continue
        for r in m["result"]:
            for st in r.get("trace", []):
                if st.get("stepType") != "assignment":
                    continue
                fn = st.get("sourceLocation", {}).get("function", "")
                if not fn.startswith("h_"):
                    continue
                lhs = st.get("lhs", "")
                if re.match(r"^return_value_nondet_in_[A-Za-z0-9_]+\.a$", lhs):
                    lhs = lhs[:-2]      # WITNESS_BUF: single-member struct copied member-wise
                if not re.match(r"^[A-Za-z_][A-Za-z0-9_]*$", lhs):
                    continue
                try:
                    b = enc(st.get("value", {}))
                except Exception:
                    b = None
                if b is not None:
                    if lhs.startswith("return_value_nondet_in_"):
                        # INPUT(T,name): the value the verifier chose for the input (the declaration shows up first with a zero value; the last binding is the call's result)
                        vals[lhs[len("return_value_nondet_in_"):]] = b.hex()
                    else:
                        last[lhs] = b.hex()
    for k, v in last.items():
        vals.setdefault("last." + k, v)
    return vals


def make_replay(u, wd, f, rec):
    if getattr(u, "script", None):
        rec["verifier_output"] = f.get("script_output", "")
        rec["reproduced"] = False
        return rec, False
    cmd = core.cbmc_cmd(u, ["--trace", "--property", f["id"]])
    rc, so, se, t = core.sh(cmd, max(u.timeout, 300), wd, u.mem_gb)
    txt = so.decode(errors="replace")
    # keep the verifier's own words: the violated property block and the tail of the trace
    rec["verifier_output"] = txt[-60000:]
    rec["trace_cmd"] = " ".join(cmd)
    inputs = {}
    try:
        cmdj = core.cbmc_cmd(u, ["--trace", "--property", f["id"], "--json-ui"])
        rc, so, se, t = core.sh(cmdj, max(u.timeout, 300), wd, u.mem_gb)
        inputs = trace_inputs(json.loads(so.decode(errors="replace")))
    except Exception as e:
        rec["input_extraction_error"] = repr(e)
    rec["inputs"] = inputs
    reproduced = False
    if u.replay and inputs:
        reproduced, out = native_replay(u, inputs, f["desc"], f["id"])
        rec["native_replay_output"] = out[-4000:]
    rec["reproduced"] = reproduced
    return rec, reproduced


def native_build(u, outdir):
    exe = os.path.join(outdir, "replay_" + u.name)
    cmd = ["clang", "-O1", "-w", "-g", "-fsanitize=address,undefined", "-fno-omit-frame-pointer", "-DVERIF_NATIVE=1", "-I" + os.path.join(VERIF, "contracts"), "-I" + os.path.join(VERIF, "harness"),
           "-I" + core.REPO, "-I" + os.path.join(core.REPO, "src"), "-I" + os.path.join(core.REPO, "include"),
           "-I" + os.path.join(core.REPO, "contrib")] + core.CFG_DEFS[u.cfg] + ["-D" + d for d in u.defs] + \
          ["-DVERIF_ENTRY=" + u.entry, os.path.join(VERIF, u.harness), os.path.join(VERIF, "harness", "native_main.c"),
           os.path.join(core.REPO, "src", "precomputed_ecmult.c"), os.path.join(core.REPO, "src", "precomputed_ecmult_gen.c"), "-o", exe]
    p = subprocess.run(cmd, capture_output=True, text=True)
    return (exe if p.returncode == 0 else None), p.stderr


def native_replay(u, inputs, desc, prop_id=""):
    outdir = os.path.join(core.BUILD, u.name)
    os.makedirs(outdir, exist_ok=True)
    exe, err = native_build(u, outdir)
    if not exe:
        return False, "native build failed: " + err[-2000:]
    inp = os.path.join(outdir, "replay_inputs.txt")
    with open(inp, "w") as fh:
        for k, v in inputs.items():
            fh.write("%s %s\n" % (k, v))
    try:
        p = subprocess.run([exe, inp], capture_output=True, text=True, timeout=120, env=dict(os.environ, ASAN_OPTIONS="detect_leaks=0", UBSAN_OPTIONS="print_stacktrace=0"))
    except subprocess.TimeoutExpired:
        return False, "native replay timed out"
    out = p.stdout + p.stderr
    # the native harness prints 'ASSERT-FAILED: <desc>' for each failing assertion
    rep = any(l.startswith("ASSERT-FAILED: ") and l[len("ASSERT-FAILED: "):].strip() == desc.strip() for l in out.splitlines())
    if not rep and prop_id and ".assertion." not in prop_id:
        # a generated safety obligation (bounds, pointer, shift, overflow, leak): the native build carries
        # ASan+UBSan, whose report on the same inputs is the reproduction
        rep = ("runtime error:" in out) or ("ERROR: AddressSanitizer" in out)
    return rep, out


def replay_file(path):
    rec = json.load(open(path))
    print("obligation:", rec.get("obligation"))
    print("unit:", rec.get("unit"), "reproduced natively at detection time:", rec.get("reproduced"))
    sys.path.insert(0, VERIF)
    import importlib.util, glob
    units = []
    for f in sorted(glob.glob(os.path.join(VERIF, "engine", "units", "*.py"))):
        spec = importlib.util.spec_from_file_location("units_" + os.path.basename(f)[:-3], f)
        m = importlib.util.module_from_spec(spec); spec.loader.exec_module(m); units += m.UNITS
    u = [x for x in units if x.name == rec.get("unit")]
    if u and u[0].replay and rec.get("inputs"):
        ok, out = native_replay(u[0], rec["inputs"], rec["obligation"], rec.get("obligation_id", ""))
        print(out[-3000:])
        print("REPRODUCED" if ok else "not reproduced natively")
        return 1 if ok else 0
    print(rec.get("verifier_output", "")[-3000:])
    return 0

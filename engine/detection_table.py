#!/usr/bin/env python3
"""Prints the markdown table 'which check catches which seeded change' from seeded/*/meta.json."""
import json, glob, os
V = os.path.dirname(os.path.dirname(os.path.abspath(__file__)))
print("| seeded change | property | what it is / what it needs to manifest | detected by (unit / obligation) | native replay |")
print("|---|---|---|---|---|")
for d in sorted(glob.glob(os.path.join(V, "seeded", "*"))):
    mp = os.path.join(d, "meta.json")
    if not os.path.exists(mp):
        continue
    m = json.load(open(mp))
    det = m.get("detected_by")
    if isinstance(det, list) and det:
        by = "; ".join("%s / \"%s\"" % (x["unit"], x["obligation"][:90]) for x in det[:2])
        rep = "reproduced" if any(x["native_replay"] == "reproduced" for x in det) else "no-failing-input-found (oracle unit / trace property)"
    else:
        by = str(det)[:200]; rep = "-"
    status = "" if m.get("detected", True) else " **(NOT detected)**"
    print("| %s%s | %s | %s Needs: %s | %s | %s |" % (m["id"], status, m["breaks_property"], m["change"][:160], m["needs_to_manifest"][:150], by, rep))

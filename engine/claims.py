"""Claims per property (kept next to the unit tables; gen_manifest.py turns this into MANIFEST.json)."""
TODO = "no check built yet in this build phase (planned in DESIGN.md section 5); listed here so that nothing unbuilt is claimed"
CLAIMS = {
 "C13": {"text": "Proof (all inputs, unbounded): for every NULL/non-NULL combination of the five arguments and every byte content, musig_partial_sign leaves the secnonce all-zero on every return path, writes no signature when it fails, rejects zeroed/used/garbage nonces with an illegal-argument callback, and succeeds only if the nonce's public key equals the keypair's in both coordinates. The statement is over one call; the at-most-once history claim follows from it by the two-line induction in DESIGN.md 5/C13.",
         "note": "assumed (frame-only) contracts: scalar_mul, musig_keyaggcoef; trusted: CBMC 6.11, its memcpy/memset models; nonce_gen side of the property is not yet under contract"},
}
NOT_APPLICABLE = {p: TODO for p in ["C01","C02","C03","C04","C05","C06","C07","C08","C09","C10","C11","C12","C14","C15","C16","C17","C18","C19","C20"]}
NOTES = "Technique family: contract-based deductive verification of the real C code with CBMC 6.11 (DESIGN.md). ./check <id> exits 0 (all obligations discharged), 1 (VIOLATION line), 2 (undecided: timeout/tool failure/vacuity guard; never reported as a violation). VERIF_REPO overrides /repo for scratch-tree experiments."

#!/bin/sh
# usage: engine/seedtest.sh <patch.diff> <property-id> [extra ./check args]
# applies the patch to a scratch worktree of /repo HEAD (never to /repo), runs the property's check
# against it and removes the worktree.  exit code = exit code of the check (1 = detected).
set -u
P=$(readlink -f "$1"); ID=$2; shift 2
WT=$(mktemp -d /tmp/seedtest_XXXXXX); rmdir "$WT"
git -C /repo worktree add -q "$WT" HEAD || exit 3
if ! git -C "$WT" apply "$P"; then echo "patch does not apply"; git -C /repo worktree remove --force "$WT"; exit 3; fi
cd "$(dirname "$0")/.." && TAG=$(basename "$WT"); VERIF_BUILD_TAG="$TAG" VERIF_REPO="$WT" ./check "$ID" --no-evidence "$@"
rc=$?
rm -rf "build/alt_$TAG"
git -C /repo worktree remove --force "$WT"
exit $rc

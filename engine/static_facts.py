#!/usr/bin/env python3
"""C20 supporting static fact: the library keeps no mutable static-lifetime state.

    engine/static_facts.py [--repo /repo] [--cfg W128|W64|W128S] [--json out.json] [--gb existing.gb]

Compiles the library translation unit (src/secp256k1.c with harness/cfg.h, plus the two
precomputed-table files) with goto-cc - no harness, the same front end every proof unit uses -
and reads `goto-instrument --show-symbol-table --json-ui`.  A symbol is REPORTED when it
  * has static lifetime, is an object (not a type, not a function), and
  * is declared in a file under <repo>/src or <repo>/include, and
  * its type is not const-qualified (arrays: element type; structs: the tag type).
Every reported symbol is then looked up in `--show-goto-functions`: if no instruction outside
__CPROVER_initialize assigns it (directly, through a member or an index), it is classified
`never-assigned` (writable only in the sense of the linker section; e.g. a `static const char *p`);
if its address is taken but only ever handed to const-qualified pointers (a const parameter, a
pointer-to-const variable) it is `address-taken(const only)` - a warning, exit 0; if the address reaches
a non-const pointer (a `static` scratch array filled by memcpy / scalar_get_b32, `unsigned char *p = arr`)
it is `ADDRESS-TO-NONCONST`; if it is assigned directly `WRITTEN`.

exit 0: no static-lifetime object of the library is written, or reachable through a non-const pointer, by library code
exit 1: at least one is                                                (mutable global state: C20 violated)
exit 2: tool failure
This is a syntactic fact about the goto program, not a proof obligation.  The
deciding C20 units are the CBMC units (results proved for arbitrary initial static state)."""
import argparse, json, os, re, subprocess, sys, tempfile

VERIF = os.path.dirname(os.path.dirname(os.path.abspath(__file__)))
CFG = {"W128": [], "W64": ["-DUSE_FORCE_WIDEMUL_INT64=1"], "W128S": ["-DUSE_FORCE_WIDEMUL_INT128_STRUCT=1"]}


def run(cmd, **kw):
    return subprocess.run(cmd, capture_output=True, text=True, **kw)


def is_const(t):
    """const-qualified object type: the qualifier sits on the type itself or, for arrays, on the element type"""
    if not isinstance(t, dict):
        return False
    ns = t.get("namedSub", {})
    if "#constant" in ns:
        return True
    if t.get("id") == "array" and t.get("sub"):
        return is_const(t["sub"][0])
    return False


def build(repo, cfg, wd):
    tu = os.path.join(wd, "lib_tu.c")
    with open(tu, "w") as f:
        # smallest table preset of harness/cfg.h: the set of symbols does not depend on the table sizes, and the
        # shipped 1 MB tables make the JSON symbol table take ~15 min
        f.write('#include "cfg.h"\n#include "src/secp256k1.c"\n#include "src/precomputed_ecmult.c"\n#include "src/precomputed_ecmult_gen.c"\n')
    gb = os.path.join(wd, "lib.gb")
    cmd = ["goto-cc", "-I" + os.path.join(VERIF, "harness"), "-I" + repo, "-I" + os.path.join(repo, "src"),
           "-I" + os.path.join(repo, "include")] + CFG[cfg] + ["-c", tu, "-o", gb]
    r = run(cmd)
    if r.returncode != 0:
        sys.stderr.write("goto-cc failed: " + r.stderr[-2000:] + "\n")
        sys.exit(2)
    return gb


def main():
    ap = argparse.ArgumentParser()
    ap.add_argument("--repo", default=os.environ.get("VERIF_REPO", "/repo"))
    ap.add_argument("--cfg", default="W128", choices=sorted(CFG))
    ap.add_argument("--json")
    ap.add_argument("--gb", help="use an existing goto binary instead of compiling the library TU")
    a = ap.parse_args()
    repo = os.path.realpath(a.repo)
    with tempfile.TemporaryDirectory(prefix="static_facts_") as wd:
        gb = a.gb or build(repo, a.cfg, wd)
        r = run(["goto-instrument", "--show-symbol-table", "--json-ui", gb])
        try:
            st = next(m["symbolTable"] for m in json.loads(r.stdout) if isinstance(m, dict) and "symbolTable" in m)
        except Exception as e:
            sys.stderr.write("cannot read symbol table: %r %s\n" % (e, r.stderr[-500:]))
            sys.exit(2)
        statics, reported = 0, []
        for name, s in st.items():
            if not s.get("isStaticLifetime") or s.get("isType") or s.get("isMacro"):
                continue
            if s.get("type", {}).get("id") == "code":
                continue
            f = os.path.realpath(s.get("location", {}).get("file", "")) if s.get("location", {}).get("file", "").startswith("/") else ""
            if not (f.startswith(os.path.join(repo, "src") + os.sep) or f.startswith(os.path.join(repo, "include") + os.sep)):
                continue
            statics += 1
            if not is_const(s["type"]):
                reported.append({"name": name, "type": s.get("prettyType", "?"), "file": os.path.relpath(f, repo),
                                 "line": s["location"].get("line", "?"), "function": s["location"].get("function", "")})
        # who writes / takes the address of the reported symbols?
        g = run(["goto-instrument", "--show-goto-functions", gb]).stdout
        cur = None
        writes = {x["name"]: [] for x in reported}
        addr = {x["name"]: [] for x in reported}      # functions taking the address
        escapes = {x["name"]: [] for x in reported}   # ... in a way that may let someone write through it

        def pointee_const(t):
            """pointer type whose pointee is const-qualified"""
            return isinstance(t, dict) and t.get("id") == "pointer" and bool(t.get("sub")) and "#constant" in t["sub"][0].get("namedSub", {})

        def param_types(fn):
            t = st.get(fn, {}).get("type", {})
            ps = t.get("namedSub", {}).get("parameters", {}).get("sub", []) if t.get("id") == "code" else []
            return [p_.get("namedSub", {}).get("type", {}) for p_ in ps]

        def split_args(txt):
            out_, depth, curarg = [], 0, ""
            for ch in txt:
                if ch in "([{":
                    depth += 1
                elif ch in ")]}":
                    depth -= 1
                if ch == "," and depth == 0:
                    out_.append(curarg); curarg = ""
                else:
                    curarg += ch
            out_.append(curarg)
            return out_

        for line in g.splitlines():
            m = re.match(r"^(\S+) /\* \S+ \*/$", line)
            if m:
                cur = m.group(1)
                continue
            if cur is None or cur.startswith("__CPROVER"):
                continue
            t = re.sub(r"^\d+: ", "", line.strip())
            for x in reported:
                n = x["name"]
                if n not in t:
                    continue
                if re.match(r"^ASSIGN " + re.escape(n) + r"(\b|\[|\.)", t):
                    writes[n].append(cur)
                if "address_of(" + n not in t:
                    continue
                addr[n].append(cur)
                # where does the address go?  const parameter / pointer-to-const variable: harmless; anything else: escapes
                ok = False
                mc = re.match(r"^CALL (?:(\S+) := )?([A-Za-z_][\w:$]*)\((.*)\)$", t)
                ma = re.match(r"^ASSIGN ([A-Za-z_][\w:$!@#]*) := ", t)
                if mc:
                    pts = param_types(mc.group(2))
                    args = split_args(mc.group(3))
                    ok = all(("address_of(" + n not in a_) or (i < len(pts) and pointee_const(pts[i])) for i, a_ in enumerate(args))
                elif ma:
                    ok = pointee_const(st.get(ma.group(1), {}).get("type", {}))
                if not ok:
                    escapes[n].append(cur)
        bad = 0
        for x in reported:
            x["written_by"] = sorted(set(writes[x["name"]]))
            x["address_taken_in"] = sorted(set(addr[x["name"]]))
            x["address_to_nonconst_in"] = sorted(set(escapes[x["name"]]))
            # audit 2 #10: only a direct write, or an address handed to a non-const pointer (memcpy destination,
            # `unsigned char *p = arr`, a non-const parameter) makes the object mutable state; an address that only
            # ever reaches const-qualified pointers is a warning
            x["class"] = "WRITTEN" if x["written_by"] else ("ADDRESS-TO-NONCONST" if x["address_to_nonconst_in"] else
                                                               ("address-taken(const only)" if x["address_taken_in"] else "never-assigned"))
            bad += bool(x["written_by"] or x["address_to_nonconst_in"])
        out = {"repo": repo, "cfg": a.cfg, "static_lifetime_objects_in_library": statics,
               "non_const": reported, "written": bad, "fact_holds": bad == 0}
        if a.json:
            json.dump(out, open(a.json, "w"), indent=1)
        print("static_facts: %d static-lifetime objects declared under %s/{src,include}; %d not const-qualified; %d written or exposed through a non-const pointer by library code"
              % (statics, repo, len(reported), bad))
        for x in reported:
            print("  %-14s %s  (%s:%s %s)%s%s" % (x["class"], x["name"], x["file"], x["line"], x["type"],
                  "  written by: " + ",".join(x["written_by"]) if x["written_by"] else "",
                  ("  address to non-const in: " + ",".join(x["address_to_nonconst_in"])) if x["address_to_nonconst_in"] else
                  ("  address taken (const only) in: " + ",".join(x["address_taken_in"]) if x["address_taken_in"] else "")))
        sys.exit(1 if bad else 0)


if __name__ == "__main__":
    main()

#!/usr/bin/env python3
"""Regenerates MANIFEST.json from engine/claims.py (one place to keep claims, notes and not_applicable current)."""
import json, os, sys, subprocess
sys.path.insert(0, os.path.dirname(os.path.abspath(__file__)))
import claims
V = os.path.dirname(os.path.dirname(os.path.abspath(__file__)))
hooks = subprocess.run(["git", "-C", "/repo", "log", "--format=%H %s"], capture_output=True, text=True).stdout.splitlines()
hook_commits = [l.split()[0] for l in hooks if " verif hook" in l]
checks = []
for pid, c in claims.CLAIMS.items():
    checks.append({
        "property_id": pid,
        "quick_cmd": "./check %s --tier quick" % pid,
        "thorough_cmd": "./check %s --tier thorough" % pid,
        "evidence_file": "/verif/evidence/%s.json" % pid,
        "replay_cmd_template": "./check %s --replay {path}" % pid,
        "engine": "cbmc-contracts",
        "level_claimed": {"category": "proof", "text": c["text"], "design_ref": c.get("design_ref", "DESIGN.md section 5, " + pid)},
        "level_note": c["note"],
        "technique": c.get("technique", "contract-based deductive verification: CBMC code contracts (goto-instrument --dfcc enforce/replace, loop contracts) on the real C code"),
    })
m = {
    "version": 1,
    "setup_cmd": "./engine/setup.sh",
    "hooks": {"guard": "SECP256K1_ZKP_VERIF",
              "enable": "goto-cc -DSECP256K1_ZKP_VERIF (verifier front end only). /repo currently contains NO code behind the guard: function contracts are attached by redeclaration in /verif and loop contracts are passed to goto-instrument with --loop-contracts-file; the two hook commits add and remove again a no-op macro, so src/ is byte-identical to the pinned tree except for the fix: commit",
              "baseline_off_cmd": "cmake --build /repo/_build && ctest --test-dir /repo/_build -j8 --timeout 900",
              "source_commits": hook_commits, "add_only": True},
    "engines": [{"name": "cbmc-contracts", "path": "/verif/check", "serves_properties": sorted(claims.CLAIMS),
                 "kind_free_text": "goto-cc -> goto-instrument --dfcc (function + loop contracts) -> cbmc, per proof unit; engine/core.py"}],
    "checks": checks,
    "notes": claims.NOTES,
    "not_applicable": [{"property_id": k, "reason": v} for k, v in claims.NOT_APPLICABLE.items()],
}
json.dump(m, open(os.path.join(V, "MANIFEST.json"), "w"), indent=1)
try:
    import jsonschema
except ImportError:
    jsonschema = None
if jsonschema: jsonschema.validate(m, json.load(open("/root/.vp/MANIFEST.schema.json")))
ids = {json.loads(l)["id"] for l in open(os.path.join(V, "properties.jsonl"))}
assert set(claims.CLAIMS) | set(claims.NOT_APPLICABLE) == ids and not (set(claims.CLAIMS) & set(claims.NOT_APPLICABLE)), "claims do not partition the properties"
print("MANIFEST.json written:", len(checks), "claimed,", len(claims.NOT_APPLICABLE), "not applicable")

#!/usr/bin/env python3
"""Proof-unit runner: goto-cc -> goto-instrument --dfcc -> cbmc, result classification,
evidence writing.  See DESIGN.md section 2.  No result is cached between runs: every
unit is recompiled from $REPO's current working tree."""
import json, os, re, subprocess, sys, time, shutil, hashlib, resource, threading
from concurrent.futures import ThreadPoolExecutor

VERIF = os.path.dirname(os.path.dirname(os.path.abspath(__file__)))
REPO = os.environ.get("VERIF_REPO", "/repo")
BUILD = os.path.join(VERIF, "build") if REPO == "/repo" else os.path.join(VERIF, "build", "alt_" + os.environ.get("VERIF_BUILD_TAG", str(os.getpid())))
GUARD = "SECP256K1_ZKP_VERIF"

CFG_DEFS = {
    # W128: the shipped data layout (5x52 field, 4x64 scalar, native __int128)
    "W128": [],
    # W64: 10x26 field, 8x32 scalar
    "W64": ["-DUSE_FORCE_WIDEMUL_INT64=1"],
    # W128S: 5x52/4x64 with the struct emulation of int128
    "W128S": ["-DUSE_FORCE_WIDEMUL_INT128_STRUCT=1"],
}

CHECK_FLAGS = ["--no-standard-checks", "--bounds-check", "--pointer-check", "--signed-overflow-check",
               "--undefined-shift-check", "--div-by-zero-check", "--pointer-overflow-check",
               "--conversion-check"]
# --conversion-check is dropped by units that set noconv (the repository relies on
# implementation-defined narrowing in a few places; see DESIGN 2.9)

TRUSTED_BASE = [
    "cbmc 6.11.0 C front end, goto-instrument DFCC contract instrumentation, bit-blasting, SAT back end (MiniSat unless stated)",
    "machine model: x86-64 LP64 little-endian, unsigned __int128 available, CHAR_BIT=8",
    "source semantics of /repo's C code (compiler, optimiser, linker, x86-64 inline asm outside)",
    "objects <= 2^52 bytes (--object-bits 12)",
    "CBMC built-in models of memcpy/memset/memmove/memcmp/malloc/free unless a unit replaces them by a contract",
]


_GUARDS = None


def guards_for(u):
    """Heavy callees with an oracle contract that the unit's entry does NOT reach on the pinned tree (engine/guards.json,
    written by engine/gen_guards.py): replaced by their contracts as well, so that a change which starts calling one of
    them is decided against the frame-only contract instead of timing out on a field inversion.  No effect on a tree
    without such a call."""
    global _GUARDS
    if _GUARDS is None:
        try:
            _GUARDS = json.load(open(os.path.join(VERIF, "engine", "guards.json")))
        except Exception:
            _GUARDS = {}
    have = set(u.replace) | set(u.enforce)
    return [g for g in _GUARDS.get(u.name, []) if g not in have]


class Unit:
    def __init__(self, name, props, harness, entry, cfg="W128", verify=False, enforce=(), replace=(),
                 assumed=(), loops=False, unwind=None, unwindset=(), flags=(), timeout=600, tier="quick",
                 bounded=None, functions=(), defs=(), branch=False, noconv=True, closed_by=None,
                 min_obl=1, note="", solver=None, mem_gb=12, nondet_static=False, slice_formula=False,
                 replay=None, extra_instrument=(), loop_contracts=None, object_bits=12, script=None):
        self.name = name; self.props = list(props); self.harness = harness; self.entry = entry
        self.cfg = cfg; self.verify = verify; self.enforce = list(enforce); self.replace = list(replace)
        self.assumed = list(assumed); self.loops = loops; self.unwind = unwind; self.unwindset = list(unwindset)
        self.flags = list(flags); self.timeout = timeout; self.tier = tier; self.bounded = bounded
        self.functions = list(functions) or list(enforce); self.defs = list(defs); self.branch = branch
        self.noconv = noconv; self.closed_by = closed_by; self.min_obl = min_obl; self.note = note
        self.solver = solver; self.mem_gb = mem_gb; self.nondet_static = nondet_static
        self.slice_formula = slice_formula; self.replay = replay; self.extra_instrument = list(extra_instrument)
        self.loop_contracts = loop_contracts or {}
        self.object_bits = object_bits or 12
        self.script = script    # supporting static fact: a command (list) run instead of the cbmc pipeline; exit 0 ok, 1 violated, else undecided
        if self.loop_contracts:
            self.loops = True


def _limits(mem_gb):
    def f():
        resource.setrlimit(resource.RLIMIT_AS, (mem_gb * 1024**3, mem_gb * 1024**3))
        try:
            resource.setrlimit(resource.RLIMIT_STACK, (resource.RLIM_INFINITY, resource.RLIM_INFINITY))
        except Exception:
            pass
        os.setsid()
    return f


def sh(cmd, timeout, cwd, mem_gb=12, out=None):
    t0 = time.time()
    try:
        p = subprocess.Popen(cmd, cwd=cwd, stdout=subprocess.PIPE if out is None else open(out, "wb"),
                             stderr=subprocess.PIPE, preexec_fn=_limits(mem_gb))
        try:
            so, se = p.communicate(timeout=timeout)
            rc = p.returncode
        except subprocess.TimeoutExpired:
            try:
                os.killpg(p.pid, 9)
            except Exception:
                p.kill()
            so, se = p.communicate()
            rc = -999
    except Exception as e:  # pragma: no cover
        return -998, b"", str(e).encode(), time.time() - t0
    return rc, so or b"", se or b"", time.time() - t0


def compile_cmd(u, wd):
    cmd = ["goto-cc", "-D" + GUARD, "-DVERIF_CBMC=1", "-I" + os.path.join(VERIF, "contracts"), "-I" + os.path.join(VERIF, "harness"),
           "-I" + REPO, "-I" + os.path.join(REPO, "src"), "-I" + os.path.join(REPO, "include"),
           "-I" + os.path.join(REPO, "contrib")]
    cmd += CFG_DEFS[u.cfg]
    if u.verify:
        cmd += ["-DVERIFY=1"]
    cmd += ["-D" + d for d in u.defs]
    cmd += ["--function", u.entry, os.path.join(VERIF, u.harness), "-o", os.path.join(wd, "u.gb")]
    return cmd


def instrument_cmds(u, wd, use_guards=True):
    cmds = []
    src = "u.gb"
    if u.branch:
        cmds.append(["goto-instrument", "--branch", "leak", src, "ub.gb"])
        src = "ub.gb"
    for extra in u.extra_instrument:
        cmds.append(["goto-instrument"] + extra + [src, "ux.gb"])
        src = "ux.gb"
    cmd = ["goto-instrument"]
    if u.loop_contracts:
        cmd += ["--loop-contracts-file", "loops.json"]
    cmd += ["--dfcc", u.entry]
    for f in u.enforce:
        cmd += ["--enforce-contract", f]
    for g in u.replace:
        cmd += ["--replace-call-with-contract", g]
    for g in (guards_for(u) if use_guards else []):
        cmd += ["--replace-call-with-contract", g]
    if u.loops:
        cmd += ["--apply-loop-contracts"]
    cmd += [src, "ui.gb"]
    cmds.append(cmd)
    return cmds



def write_loop_contracts(u, wd, src):
    """Loop contracts live in /verif (unit table), not in /repo: they are handed to goto-instrument through
    --loop-contracts-file, keyed by function and loop ordinal.  Local variable names used in the clauses are
    resolved against the goto binary's symbol table (fn::name for parameters, fn::<block>::name for locals);
    an ambiguous or unknown local name makes the unit undecided (exit 2), never a violation."""
    rc, so, se, t = sh(["goto-instrument", "--show-symbol-table", "--json-ui", src], 300, wd)
    syms = set()
    try:
        for m in json.loads(so.decode(errors="replace")):
            if isinstance(m, dict) and "symbolTable" in m:
                syms = set(m["symbolTable"].keys())
    except Exception as e:
        return "cannot read symbol table: %r" % e
    # loops may be named by ordinal (int) or - robust against edits elsewhere in the function - by a fragment
    # of the source line of the loop statement, e.g. "for (i = 0; i < n; i++)"
    loopinfo = {}
    if any(isinstance(k, str) for loops in u.loop_contracts.values() for k in loops):
        rc, so, se, t = sh(["goto-instrument", "--show-loops", src], 300, wd)
        for m in re.finditer(r"Loop (\S+)\.(\d+):\s*\n\s*file (\S+) line (\d+) function (\S+)", so.decode(errors="replace")):
            loopinfo.setdefault(m.group(1), []).append((int(m.group(2)), m.group(3), int(m.group(4))))
    funcs = []
    for fn, loops0 in u.loop_contracts.items():
        if fn not in syms:
            return "loop contract names unknown function %s" % fn
        loops = {}
        for key, c in loops0.items():
            if isinstance(key, str):
                hits = []
                for (lid, f, ln) in loopinfo.get(fn, []):
                    try:
                        line = open(f, errors="replace").read().splitlines()[ln - 1]
                    except Exception:
                        line = ""
                    if key in line:
                        hits.append(lid)
                if len(hits) != 1:
                    return "loop contract %s: source fragment %r matches %d loops" % (fn, key, len(hits))
                loops[hits[0]] = c
            else:
                loops[key] = c
        entries = []
        for lid, c in sorted(loops.items()):
            text = " ".join(str(c.get(k, "")) for k in ("assigns", "invariants", "decreases"))
            idents = set(re.findall(r"[A-Za-z_][A-Za-z0-9_]*", text))
            smap = dict(c.get("symbol_map", {}))
            for ident in sorted(idents):
                if ident in smap or ident.startswith("__CPROVER"):
                    continue
                cands = [x for x in syms if x.startswith(fn + "::") and x.endswith("::" + ident) and "$" not in x]
                if len(cands) == 1:
                    smap[ident] = cands[0]
                elif len(cands) > 1:
                    return "loop contract %s.%s: local name %s is ambiguous (%s); give symbol_map" % (fn, lid, ident, ", ".join(sorted(cands)))
            def pp(x):   # the clause parser has no preprocessor
                return re.sub(r"\bNULL\b", "((void*)0)", x)
            e = {"loop_id": str(lid), "invariants": pp(c["invariants"])}
            if c.get("assigns"):
                e["assigns"] = pp(c["assigns"])
            if c.get("decreases"):
                e["decreases"] = pp(c["decreases"])
            if smap:
                e["symbol_map"] = ";".join("%s,%s" % kv for kv in sorted(smap.items()))
            entries.append(e)
        funcs.append({fn: entries})
    json.dump({"functions": funcs}, open(os.path.join(wd, "loops.json"), "w"), indent=1)
    return None

def cbmc_cmd(u, extra=()):
    cmd = ["cbmc", "--object-bits", str(getattr(u, "object_bits", None) or 12)] + [f for f in CHECK_FLAGS if not (u.noconv and f == "--conversion-check")]
    if u.unwind is not None:
        cmd += ["--unwind", str(u.unwind), "--unwinding-assertions"]
    if u.unwindset:
        cmd += ["--unwindset", ",".join(u.unwindset)]
        if u.unwind is None:
            cmd += ["--unwinding-assertions"]
    if u.solver:
        cmd += ["--sat-solver", u.solver]
    if u.slice_formula:
        cmd += ["--slice-formula"]
    cmd += list(u.flags) + list(extra) + ["ui.gb"]
    return cmd


def parse_results(txt):
    """parse cbmc's plain-text result block (the JSON UI embeds a full trace per failed property,
    including the expected-to-fail REACH witnesses: hundreds of MB per unit)"""
    res, status, msgs = [], None, []
    if "** Results:" not in txt:
        if "VERIFICATION SUCCESSFUL" in txt:
            return [], "success", []
        return None, None, [txt[-800:]]
    body = txt[txt.index("** Results:"):]
    cur_file, cur_fn = "", ""
    for line in body.splitlines():
        m = re.match(r"^(\S.*) function (\S+)$", line)
        if m and not line.startswith("["):
            cur_file, cur_fn = m.group(1), m.group(2)
            continue
        m = re.match(r"^\[([^\]]+)\] (?:line (\d+) )?(.*): (SUCCESS|FAILURE|UNKNOWN|ERROR)$", line)
        if m:
            pid = m.group(1)
            cls = "assertion" if ".assertion." in pid else pid.split(".")[-2] if pid.count(".") >= 2 else ""
            res.append({"id": pid, "desc": m.group(3), "status": m.group(4), "file": cur_file, "function": cur_fn,
                        "line": m.group(2) or "", "class": cls})
    if "VERIFICATION SUCCESSFUL" in body:
        status = "success"
    elif "VERIFICATION FAILED" in body:
        status = "failure"
    for line in txt.splitlines():
        if "ignoring" in line and ("forall" in line or "exists" in line):
            msgs.append(line)
    return res, status, msgs


def run_unit(u, keep=False):
    """returns dict with keys: unit, state in {ok, fail, broken}, reason, results, times"""
    wd = os.path.join(BUILD, u.name)
    shutil.rmtree(wd, ignore_errors=True)
    os.makedirs(wd)
    r = {"unit": u.name, "state": "broken", "reason": "", "results": [], "t_cc": 0, "t_instr": 0, "t_cbmc": 0,
         "cmds": [], "wd": wd}
    if u.script:
        cmd = [x.replace("$REPO", REPO).replace("$VERIF", VERIF) for x in u.script]
        r["cmds"].append(" ".join(cmd))
        rc, so, se, t = sh(cmd, u.timeout, VERIF, u.mem_gb)
        r["t_cbmc"] = round(t, 2)
        out = (so + se).decode(errors="replace")
        open(os.path.join(wd, "script.out"), "w").write(out)
        desc = u.note or ("static fact " + u.name)
        if rc == 0:
            r.update(state="ok", n_obl=1, n_ok=1, reach=["(script unit: exit status is the verdict)"],
                     results=[{"id": u.name + ".script", "desc": desc, "status": "SUCCESS", "file": "", "function": "h_script", "line": "", "class": "assertion"}])
        elif rc == 1:
            f = {"id": u.name + ".script", "desc": desc, "status": "FAILURE", "file": "", "function": "h_script", "line": "", "class": "assertion", "script_output": out[-4000:]}
            r.update(state="fail", n_obl=1, n_ok=0, fails=[f], results=[f])
        else:
            r["reason"] = "script unit failed to run (rc=%d): %s" % (rc, out[-600:])
        return r
    c = compile_cmd(u, wd)
    r["cmds"].append(" ".join(c))
    rc, so, se, t = sh(c, 300, wd)
    r["t_cc"] = round(t, 2)
    if rc != 0:
        r["reason"] = "goto-cc failed: " + (se.decode(errors="replace")[-1500:])
        return r
    if u.loop_contracts:
        err = write_loop_contracts(u, wd, "ub.gb" if False else "u.gb")
        if err:
            r["reason"] = err
            return r
    for use_guards in (True, False):
        failed = None
        for c in instrument_cmds(u, wd, use_guards):
            r["cmds"].append(" ".join(c))
            rc, so, se, t = sh(c, 600, wd)
            r["t_instr"] = round(r["t_instr"] + t, 2)
            log = (so + se).decode(errors="replace")
            open(os.path.join(wd, "instrument.log"), "a").write(log)
            if rc != 0:
                failed = "goto-instrument failed (rc=%d): %s" % (rc, log[-1500:])
                break
        # a guard (engine/guards.json) names a function that this tree's translation unit no longer contains
        # (goto-cc drops unused static functions): instrument again without the guards, exactly the authored unit
        if failed and use_guards and guards_for(u) and "Function to replace" in failed:
            continue
        if failed:
            r["reason"] = failed
            return r
        break
    c = cbmc_cmd(u)
    r["cmds"].append(" ".join(c))
    outp = os.path.join(wd, "cbmc.out")
    rc, so, se, t = sh(c, u.timeout, wd, u.mem_gb, out=outp)
    r["t_cbmc"] = round(t, 2)
    if rc == -999:
        r["reason"] = "cbmc timeout after %ds" % u.timeout
        return r
    js = open(outp, "rb").read().decode(errors="replace")
    res, status, msgs = parse_results(js)
    if res is None or (not res and status is None):
        r["reason"] = "cbmc gave no result (rc=%d): %s %s" % (rc, js[-800:], se.decode(errors="replace")[-400:])
        return r
    r["results"] = res
    for m in msgs:
        if "ignoring" in m and ("forall" in m or "exists" in m):
            r["reason"] = "quantifier ignored by back end: " + m
            return r
    fails = [x for x in res if x["status"] == "FAILURE" and not x["desc"].startswith("REACH:")]
    # a failed unwinding assertion means "the authored unwind bound no longer covers this loop": the proof does not
    # apply any more (undecided), it is not evidence of a violated property - a correct refactoring that adds
    # iterations would otherwise raise a false alarm.  Other failed obligations found within the bound are real.
    unwind_fails = [x for x in fails if ".unwind." in (x["id"] or "") or x["desc"].startswith("unwinding assertion")]
    fails = [x for x in fails if x not in unwind_fails]
    reach = [x for x in res if x["desc"].startswith("REACH:")]
    vac = [x for x in reach if x["status"] != "FAILURE"]
    other = [x for x in res if x["status"] not in ("SUCCESS", "FAILURE")]
    nobl = len([x for x in res if not x["desc"].startswith("REACH:")])
    r["n_obl"] = nobl
    r["n_ok"] = len([x for x in res if x["status"] == "SUCCESS" and not x["desc"].startswith("REACH:")])
    r["reach"] = [x["desc"] for x in reach]
    if fails:
        r["state"] = "fail"
        r["fails"] = fails
        return r
    if unwind_fails:
        r["reason"] = "unwind bound exceeded (%s at %s:%s): the unit's loop closure no longer covers the code" % (unwind_fails[0]["desc"], unwind_fails[0]["function"], unwind_fails[0]["line"])
        return r
    if other:
        r["reason"] = "obligations with status %s: %s" % (other[0]["status"], other[0]["desc"])
        return r
    if not reach:
        r["reason"] = "unit has no REACH witness (vacuity guard missing)"
        return r
    if vac:
        r["reason"] = "vacuous: reachability witness not reachable: " + "; ".join(x["desc"] for x in vac)
        return r
    if nobl < u.min_obl:
        r["reason"] = "obligation count %d below authored minimum %d" % (nobl, u.min_obl)
        return r
    if u.loops:
        li = [x for x in res if "loop invariant" in x["desc"].lower() or "loop_invariant" in (x["id"] or "")]
        if not li:
            r["reason"] = "loop contracts requested but no loop-invariant obligations generated"
            return r
    r["state"] = "ok"
    if not keep:
        for f in ("u.gb", "ub.gb", "ux.gb", "ui.gb"):
            try:
                os.remove(os.path.join(wd, f))
            except OSError:
                pass
    return r


def trace_for(u, wd, prop_id, timeout):
    c = cbmc_cmd(u, ["--trace", "--property", prop_id])
    rc, so, se, t = sh(c, timeout, wd, u.mem_gb)
    return so.decode(errors="replace"), " ".join(c)


def load_known():
    known, fixed = [], []
    p = os.path.join(VERIF, "known_findings.txt")
    if os.path.exists(p):
        for l in open(p):
            l = l.strip()
            if not l or l.startswith("#"):
                continue
            if l.startswith("known:"):
                m = re.match(r"known:\s*property=(\S+)\s+unit=(\S+)\s+obligation=\"([^\"]*)\"\s*(.*)", l)
                if m:
                    known.append(m.groups())
            elif l.startswith("fixed:"):
                fixed.append(l)
    return known, fixed

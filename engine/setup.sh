#!/bin/sh
# Offline setup: nothing is fetched or cached; every check rebuilds from $VERIF_REPO (default /repo).
set -e
cd "$(dirname "$0")/.."
REPO=${VERIF_REPO:-/repo}
for t in goto-cc goto-instrument cbmc clang python3; do command -v $t >/dev/null || { echo "missing tool $t"; exit 1; }; done
cbmc --version | grep -q '^6\.' || { echo "cbmc 6.x expected"; exit 1; }
# every ENABLE_MODULE_* the library source tests must be switched on in harness/cfg.h
for m in $(grep -oh 'ENABLE_MODULE_[A-Z0-9_]*' $REPO/src/secp256k1.c | sort -u); do
  grep -q "define $m 1" harness/cfg.h || { echo "harness/cfg.h lacks $m"; exit 1; }
done
mkdir -p build evidence replay
chmod +x check
echo setup-ok

from core import Unit as U
def _gej_is(g, h):   # limb-wise equality of two secp256k1_gej (5x52 field representation)
    return " && ".join(["%s.%s.n[%d] == %s.%s.n[%d]" % (g, c, k, h, c, k) for c in "xyz" for k in range(5)] + ["%s.infinity == %s.infinity" % (g, h)])
UNITS = [
    U("C04.r3_combine_loop", ["C04"], "harness/C04/r3_combine_loop.c", "h_combine_loop",
      loop_contracts={"secp256k1_ec_pubkey_combine": {"; i < n; i++)": {   # fragment without the initialiser, so that an edited start index still finds the loop
          "assigns": "i, Q, Qj, g_illegal, verif_k_add_n, verif_k_hit, verif_k_chain, verif_k_cur",
          "invariants": "i <= n && g_illegal >= 0 && (unsigned long)g_illegal <= i && verif_k_add_n == i && verif_k_chain != 0 && (verif_k_gi < i ==> (pubnonces[verif_k_gi] != NULL && verif_k_hit != 0)) && "
                        "(verif_k_j1 < i ==> pubnonces[verif_k_j1] != NULL) && (verif_k_j2 < i ==> pubnonces[verif_k_j2] != NULL) && " + _gej_is("verif_k_cur", "Qj"),
          "decreases": "n - i"}}},
      replace=["secp256k1_gej_add_ge", "secp256k1_ge_set_gej"], assumed=["secp256k1_gej_add_ge", "secp256k1_ge_set_gej"],
      functions=["secp256k1_ec_pubkey_combine", "secp256k1_pubkey_load", "secp256k1_pubkey_save"], timeout=1800, min_obl=990, unwind=34, replay=False, tier="thorough",
      defs=["LOOP_NMAX=256"], slice_formula=True, object_bits=10,
      bounded="n<=256 (cap of the harness INPUT MODEL only: cbmc's array_set needs a fixed-size object; the loop itself is closed by a contract)",
      closed_by="loop contract over the n keys (engine-supplied, no /repo edit): additions so far == i, one accumulator thread (chain flag, logged current value == Qj), 'watched index < i => entry non-NULL and its value-keyed hit flag is set'; decreases clause",
      note="per-element wiring for every n: every ins[k] enters the sum by value, the point converted is the last sum; gej_add_ge / ge_set_gej are oracles with ghost logs; accumulator-range precondition of the oracle: C04.pubkey_combine_small"),
]

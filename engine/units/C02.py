from core import Unit as U
HASH = ["secp256k1_sha256_write", "secp256k1_sha256_finalize"]
UNITS = [
    U("C02.challenge_stream", ["X-example"], "harness/C02/challenge.c", "h_challenge", replace=HASH,
      functions=["secp256k1_schnorrsig_challenge", "secp256k1_schnorrsig_sha256_tagged", "secp256k1_scalar_set_b32"],
      timeout=300, min_obl=20, unwind=66,
      note="EXAMPLE of the stream-level idiom, not part of any claim: it demands that hashing goes through sha256_write/finalize, which is stricter than the property (a correct hand-rolled final block would fail it); C02.challenge_blocks is the claimed unit"),
    U("C02.challenge_blocks", ["C02", "C05"], "harness/C02/challenge_blocks.c", "h_challenge_blocks",
      functions=["secp256k1_schnorrsig_challenge", "secp256k1_sha256_write", "secp256k1_sha256_finalize", "secp256k1_sha256_initialize_midstate"],
      assumed=["SHA-256 compression function (harness stub verif_compress: havocs the state, logs its input blocks)"],
      timeout=600, min_obl=100, unwind=66, replay=True,
      note="real sha256_write/finalize; block-level FIPS 180-4 padding spec; msglen symbolic <= 100000"),
]

from core import Unit as U
HASH = ["secp256k1_sha256_write", "secp256k1_sha256_finalize"]
UNITS = [
    U("C02.challenge", ["C02"], "harness/C02/challenge.c", "h_challenge", replace=HASH,
      functions=["secp256k1_schnorrsig_challenge", "secp256k1_schnorrsig_sha256_tagged", "secp256k1_scalar_set_b32"],
      timeout=300, min_obl=20, unwind=66,
      note="hash stream contract (proved in C05.sha256_write/finalize) replaces the SHA calls; msglen symbolic up to 100000"),
]

from core import Unit as U
# UNBOUNDED units over the pointer-list APIs of the generator module (ghost-index idiom, engine-supplied loop contracts, no /repo edit).
def _lt_n(s):   # "<scalar> < group order", limb-wise (no function calls in loop invariants)
    return ("(%s[3] < 0xFFFFFFFFFFFFFFFFul || %s[2] < 0xFFFFFFFFFFFFFFFEul || (%s[2] == 0xFFFFFFFFFFFFFFFEul && (%s[1] < 0xBAAEDCE6AF48A03Bul || (%s[1] == 0xBAAEDCE6AF48A03Bul && %s[0] < 0xBFD25E8CD0364141ul))))" % ((s,) * 6))
_NN = "(verif_c08_gi < i ==> %s[verif_c08_gi] != NULL) && (verif_c08_j1 < i ==> %s[verif_c08_j1] != NULL) && (verif_c08_j2 < i ==> %s[verif_c08_j2] != NULL)"
_BS = dict(
      loop_contracts={"secp256k1_pedersen_blind_sum": {
          # both loops read "for (i = 0; i < n; i++) {", so they are named by ordinal (goto-instrument --show-loops: 0,1 = do{}while(0) of the
          # first two ARG_CHECKs, 2 = ARG_CHECK inside the NULL scan, 3 = NULL scan, 4 = ARG_CHECK(npositive <= n), 5 = summation)
          3: {"assigns": "i, g_illegal", "invariants": "i <= n && g_illegal == 0 && " + (_NN % (("blinds",) * 3)), "decreases": "n - i"},
          5: {"assigns": "i, x, overflow, acc, verif_c08_hit, verif_c08_add_n",
              "invariants": "i <= n && verif_c08_add_n == i && (verif_c08_gi < i ==> (verif_c08_hit != 0 && verif_c08_gi_ok != 0)) && " + _lt_n("acc.d"),
              "decreases": "n - i"}}},
      functions=["secp256k1_pedersen_blind_sum", "secp256k1_scalar_set_b32", "secp256k1_scalar_negate", "secp256k1_scalar_get_b32"],
      timeout=1200, min_obl=830, unwind=34, replay=False, tier="thorough",
      closed_by="loop contracts on both loops (engine-supplied, no /repo edit): NULL scan with ghost indices; summation with 'additions so far == i', 'watched index < i => it was below the group order and its value-keyed hit flag is set', accumulator < n; decreases clauses",
      note="n symbolic (<= 100000, cap of the harness input model only: end-aligned slice of a fixed heap array so that index >= n is out of bounds); scalar_add replaced by the range summary of the C05-proved leaf + value-keyed hit flag; the value of the sum is C08.blind_sum_value (bounded)")
_BS["note"] = _BS["note"].replace("<= 100000", "<= 256")
def _gej_is(g, h):   # limb-wise equality of two secp256k1_gej (5x52 field representation)
    return " && ".join(["%s.%s.n[%d] == %s.%s.n[%d]" % (g, c, k, h, c, k) for c in "xyz" for k in range(5)] + ["%s.infinity == %s.infinity" % (g, h)])
_T_ASS = "i, add, accj, verif_t_ld, verif_t_ldhit, verif_t_cur, verif_t_chain, verif_t_addb, verif_t_adda, verif_t_hitb, verif_t_hita"
UNITS = [
    U("C08.r3_blind_sum_loop", ["C08"], "harness/C08/r3_blind_sum_loop.c", "h_blind_sum_loop", replace=["secp256k1_scalar_add"], defs=["LOOP_NMAX=256"], slice_formula=True, object_bits=10,
      bounded="n<=256 (cap of the harness INPUT MODEL only: cbmc's array_set needs a fixed-size object - an exact-size malloc(n*8) list was measured: array_set is ineffective there, a 100000-entry fixed array runs out of memory; the loops themselves are closed by contracts)", **_BS),
    U("C08.r3_tally_loop", ["C08"], "harness/C08/r3_tally_loop.c", "h_tally_loop",
      replace=["secp256k1_pedersen_commitment_load", "secp256k1_gej_add_ge_var", "secp256k1_gej_neg"], assumed=["secp256k1_pedersen_commitment_load", "secp256k1_gej_add_ge_var", "secp256k1_gej_neg"],
      loop_contracts={"secp256k1_pedersen_verify_tally": {
          # ordinals (goto-instrument --show-loops): 0,1 = do{}while(0) of the two list ARG_CHECKs, 2/3 = ARG_CHECK inside / NULL scan of commits, 4/5 = same for ncommits,
          # 6 = sum of the negatives, 7 = sum of the positives (the source lines of the scans and sums are textually identical)
          3: {"assigns": "i, g_illegal", "invariants": "i <= pcnt && g_illegal == 0 && (verif_t_gp < i ==> commits[verif_t_gp] != NULL) && (verif_t_pj < i ==> commits[verif_t_pj] != NULL)", "decreases": "pcnt - i"},
          5: {"assigns": "i, g_illegal", "invariants": "i <= ncnt && g_illegal == 0 && (verif_t_gn < i ==> ncommits[verif_t_gn] != NULL) && (verif_t_nj < i ==> ncommits[verif_t_nj] != NULL)", "decreases": "ncnt - i"},
          6: {"assigns": _T_ASS, "invariants": "i <= ncnt && verif_t_chain != 0 && verif_t_addb == i && verif_t_adda == 0 && (verif_t_gn < i ==> verif_t_hitb != 0) && (accj.infinity == 0 || accj.infinity == 1) && " + _gej_is("verif_t_cur", "accj"), "decreases": "ncnt - i"},
          7: {"assigns": _T_ASS, "invariants": "i <= pcnt && verif_t_chain != 0 && verif_t_addb == ncnt && verif_t_adda == i && (verif_t_gn < ncnt ==> verif_t_hitb != 0) && (verif_t_gp < i ==> verif_t_hita != 0) && (accj.infinity == 0 || accj.infinity == 1) && " + _gej_is("verif_t_cur", "accj"), "decreases": "pcnt - i"}}},
      functions=["secp256k1_pedersen_verify_tally"], timeout=1800, min_obl=1660, unwind=34, replay=False, tier="thorough", defs=["LOOP_NMAX=256"], slice_formula=True, object_bits=10,
      bounded="pcnt,ncnt<=256 (cap of the harness INPUT MODEL only, see C08.r3_blind_sum_loop; the four loops are closed by contracts)",
      closed_by="loop contracts on the two NULL scans (ghost indices) and the two summation loops (engine-supplied, no /repo edit): additions so far == i, one accumulator thread (chain flag, logged current value == accj), 'watched index < i => its value-keyed hit flag is set'; decreases clauses",
      note="PINNED to the present algorithm (negatives added, one negation, positives added) like the bounded C08.verify_tally; commitment_load / gej_add_ge_var / gej_neg are oracles with ghost logs; the accumulator-range precondition of the oracles and the decode of a commitment are checked on the unwound loops of C08.verify_tally"),
    # C08.r3_bgbs_loop (blind_generator_blind_sum, do-while loop contract + NULL scan): harness and contracts were written but NOT RUN for lack of time; not listed.
]

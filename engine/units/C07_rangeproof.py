from core import Unit as U
HASH = ["secp256k1_sha256_write", "secp256k1_sha256_finalize"]
# EVERY callee that is not the real body (audit2 #11): oracle stubs, sha256 stream stubs, byte readers, gej_set_ge adapter
ORACLES = ["secp256k1_ge_set_xquad", "secp256k1_fe_impl_is_square_var", "secp256k1_gej_add_ge_var", "secp256k1_gej_add_var",
           "secp256k1_gej_double_var", "secp256k1_pedersen_ecmult_small", "secp256k1_borromean_verify",
           "secp256k1_sha256_write", "secp256k1_sha256_finalize", "secp256k1_scalar_set_b32", "secp256k1_fe_impl_set_b32_limit", "secp256k1_gej_set_ge"]
RW_ORACLES = ["secp256k1_pedersen_ecmult", "secp256k1_rangeproof_genrand", "secp256k1_scalar_mul", "secp256k1_scalar_inverse",
              "memcpy", "memset", "secp256k1_scalar_clear", "secp256k1_memclear_explicit"]
VLOOPS = ["secp256k1_rangeproof_verify_impl.0:33", "secp256k1_rangeproof_verify_impl.1:33", "secp256k1_rangeproof_verify_impl.2:33",
          "secp256k1_rangeproof_verify_impl.3:129", "secp256k1_rangeproof_pub_expand.0:20", "secp256k1_rangeproof_pub_expand.1:5",
          "secp256k1_rangeproof_pub_expand.2:33"]
RLOOPS = ["secp256k1_rangeproof_rewind_inner.2:5", "secp256k1_rangeproof_rewind_inner.3:33", "secp256k1_rangeproof_rewind_inner.4:129",
          "secp256k1_rangeproof_rewind_inner.5:33"]
FUNCS = ["secp256k1_rangeproof_verify_impl", "secp256k1_rangeproof_getheader_impl", "secp256k1_rangeproof_pub_expand",
         "secp256k1_pedersen_commitment_load", "secp256k1_generator_load", "secp256k1_rangeproof_serialize_point"]
CLOSED = "full unwinding to the code-enforced constants (32 rings, 4 per ring, 128 ring members, exp <= 18); unwinding assertions prove the bounds"
VLOOPS_B = ["secp256k1_rangeproof_verify_impl.0:3", "secp256k1_rangeproof_verify_impl.1:3", "secp256k1_rangeproof_verify_impl.2:3",
            "secp256k1_rangeproof_verify_impl.3:9", "secp256k1_rangeproof_pub_expand.0:20", "secp256k1_rangeproof_pub_expand.1:5",
            "secp256k1_rangeproof_pub_expand.2:3"]
RLOOPS_B = ["secp256k1_rangeproof_rewind_inner.2:33", "secp256k1_rangeproof_rewind_inner.3:5", "secp256k1_rangeproof_rewind_inner.4:3",
            "secp256k1_rangeproof_rewind_inner.5:129", "secp256k1_rangeproof_rewind_inner.6:33"]   # no loop contract: .2 is the message copy loop
MSGLOOP = {"secp256k1_rangeproof_rewind_inner": {"for (b = 0; b < 32 && offset < *mlen; b++)": {
          "assigns": "b, offset, __CPROVER_object_whole(m)", "invariants": "0 <= b && b <= 32 && offset <= *mlen", "decreases": "32 - b"}}}
UNITS = [
    U("C07.rangeproof_verify_m4", ["C07", "C10"], "harness/C07/rangeproof_api.c", "h_verify", defs=["MAXMAN=4"],
      assumed=ORACLES, functions=["secp256k1_rangeproof_verify"] + FUNCS,
      timeout=900, min_obl=300, unwind=34, unwindset=VLOOPS_B, bounded="mantissa <= 4 (2 rings, 8 ring members)",
      note="bounded quick stand-in of C07.rangeproof_verify"),
# UNREGISTERED (did not complete on the unchanged tree (memory); kept as text for a later attempt)
#     U("C07.rangeproof_rewind_m3", ["C07", "C09"], "harness/C07/rangeproof_api.c", "h_rewind", defs=["MAXMAN=3", "RP_REWIND_UNIT"],
#       replace=["secp256k1_rangeproof_genrand"], assumed=ORACLES + RW_ORACLES,
#       functions=["secp256k1_rangeproof_rewind", "secp256k1_rangeproof_rewind_inner", "secp256k1_rangeproof_ch32xor"] + FUNCS,
#       timeout=1500, min_obl=300, unwind=34, unwindset=VLOOPS_B + RLOOPS_B, bounded="mantissa <= 3 (2 rings, 6 ring members)", tier="thorough",
#       note="UNDECIDED at authoring time: cbmc exceeds the 12 GB limit (measured 15 GB with the limit lifted, 43 GB with 10 object bits) even for 2 rings; "
#            "message copy loop fully unwound (32 bytes per ring member), message buffer of every length <= 5000"),
    U("C07.rangeproof_info", ["C07", "C10"], "harness/C07/rangeproof_api.c", "h_info",
      functions=["secp256k1_rangeproof_info", "secp256k1_rangeproof_getheader_impl"], timeout=300, min_obl=50, unwind=20, replay=True,
      closed_by="full unwinding (exp <= 18, 8 length bytes)", note="all byte strings, plen <= 6000, every NULL/non-NULL combination"),
# UNREGISTERED (did not complete on the unchanged tree (memory); kept as text for a later attempt)
#     U("C07.rangeproof_verify", ["C07", "C10"], "harness/C07/rangeproof_api.c", "h_verify",
#       assumed=ORACLES, functions=["secp256k1_rangeproof_verify"] + FUNCS,
#       timeout=5400, min_obl=300, unwind=34, unwindset=VLOOPS, tier="thorough", closed_by=CLOSED, mem_gb=16,
#       note="NOT COMPLETED at authoring time (the 32-ring unwinding of the sibling C10.verify_gates ran > 2400 s); all byte strings, plen <= 6000 (exact object bounds), every NULL/non-NULL combination; byte readers stubbed (C10.leaf_*)"),
# UNREGISTERED (did not complete on the unchanged tree (memory); kept as text for a later attempt)
#     U("C07.rangeproof_rewind", ["C07", "C09"], "harness/C07/rangeproof_api.c", "h_rewind",
#       replace=["secp256k1_rangeproof_genrand", "secp256k1_rangeproof_ch32xor"], assumed=ORACLES + RW_ORACLES,
#       functions=["secp256k1_rangeproof_rewind", "secp256k1_rangeproof_rewind_inner"] + FUNCS,
#       loop_contracts={"secp256k1_rangeproof_rewind_inner": {"for (b = 0; b < 32 && offset < *mlen; b++)": {
#           "assigns": "b, offset, __CPROVER_object_whole(m)", "invariants": "0 <= b && b <= 32 && offset <= *mlen", "decreases": "32 - b"}}},
#       timeout=3600, min_obl=300, unwind=34, unwindset=VLOOPS + RLOOPS, tier="thorough", closed_by=CLOSED + "; message copy loop by loop contract (engine-supplied --loop-contracts-file, no /repo edit)",
#       note="UNDECIDED at authoring time (size; the DFCC loop contract on the message copy loop additionally fails its own assigns-inclusion check in cbmc 6.11); all byte strings, plen <= 6000, message buffer of every length <= 5000"),
]

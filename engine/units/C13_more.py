from core import Unit as U
PS_OR = ["secp256k1_scalar_mul", "secp256k1_musig_keyaggcoef"]
NG_OR = ["secp256k1_nonce_function_musig", "secp256k1_ecmult_gen", "secp256k1_ge_set_all_gej"]
# nonce_function_musig: its stream and k = digest mod n are asserted on the real body by C12.nonce_function (harness style), its FRAME is not
# enforced anywhere, so it is listed as assumed (audit #23)
NG_ASSUMED = ["secp256k1_ecmult_gen", "secp256k1_ge_set_all_gej", "secp256k1_nonce_function_musig"]
UNITS = [
    U("C13.psign_contract", ["C13"], "harness/C13/psign_contract.c", "h_psign_contract", enforce=["secp256k1_musig_partial_sign"],
      replace=PS_OR, assumed=PS_OR, functions=["secp256k1_musig_partial_sign"], timeout=600, min_obl=1158, replay=False,
      note="DFCC-enforced contract incl. assigns frame: partial_sign writes only *secnonce and *partial_sig"),
    U("C13.history_lemma", ["C13"], "harness/C13/history.c", "h_history",
      replace=["secp256k1_musig_partial_sign", "secp256k1_musig_nonce_gen", "secp256k1_musig_nonce_gen_counter"],
      functions=[], timeout=300, min_obl=291, replay=False,
      note="lemma harness over the three DFCC-enforced API contracts only (no library code executed): sign;sign, failed sign;sign, gen;sign;sign, failed gen;sign. The partial_sign contract is enforced in the quick tier (C13.psign_contract); the two nonce_gen contracts are enforced by THOROUGH-tier units (C13.nonce_gen_contract / _counter_contract, 190-200 s): the quick tier assumes them, their non-frame clauses are asserted on the real code by the quick units C13.nonce_gen / C13.nonce_gen_counter"),
    U("C13.nonce_gen_contract", ["C13"], "harness/C13/nonce_gen_contract.c", "h_nonce_gen_contract", enforce=["secp256k1_musig_nonce_gen"],
      replace=NG_OR, assumed=NG_ASSUMED, functions=["secp256k1_musig_nonce_gen", "secp256k1_musig_nonce_gen_internal"], timeout=2400, tier="thorough", min_obl=1661, replay=False, unwind=134,
      note="DFCC-enforced contract incl. assigns frame; nonce_function_musig replaced by its summary (stream proved in C12.nonce_function)"),
    U("C13.nonce_gen_counter_contract", ["C13"], "harness/C13/nonce_gen_contract.c", "h_nonce_gen_counter_contract", enforce=["secp256k1_musig_nonce_gen_counter"],
      replace=NG_OR, assumed=NG_ASSUMED, functions=["secp256k1_musig_nonce_gen_counter", "secp256k1_musig_nonce_gen_internal"], timeout=2400, tier="thorough", min_obl=1679, replay=False, unwind=134,
      note="DFCC-enforced contract incl. assigns frame"),
    U("C13.nonce_gen", ["C13", "C12"], "harness/C13/nonce_gen.c", "h_nonce_gen", replace=NG_OR, assumed=NG_ASSUMED,
      functions=["secp256k1_musig_nonce_gen", "secp256k1_musig_nonce_gen_internal", "secp256k1_musig_secnonce_save", "secp256k1_musig_secnonce_invalidate",
                 "secp256k1_memczero", "secp256k1_is_zero_array", "secp256k1_pubkey_load", "secp256k1_keyagg_cache_load", "secp256k1_eckey_pubkey_serialize33", "secp256k1_ge_to_bytes"],
      timeout=600, min_obl=1841, replay=False, unwind=134,
      note="harness-enforced API contract over NULL/non-NULL x arbitrary bytes of all eight pointer arguments"),
    U("C13.nonce_gen_counter", ["C13", "C12"], "harness/C13/nonce_gen.c", "h_nonce_gen_counter", replace=NG_OR, assumed=NG_ASSUMED,
      functions=["secp256k1_musig_nonce_gen_counter", "secp256k1_musig_nonce_gen_internal", "secp256k1_write_be64", "secp256k1_keypair_sec", "secp256k1_keypair_pub",
                 "secp256k1_musig_secnonce_save", "secp256k1_musig_secnonce_invalidate"],
      timeout=600, min_obl=1854, replay=False, unwind=134,
      note="harness-enforced API contract; carries the C12 counter-wiring clause (kills the measured 'low 32 bits' mutant)"),
]

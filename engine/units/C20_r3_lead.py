from core import Unit as U
# Round-3 (lead).  The C20 gate units cover the 19 entry points that carry an is_built gate.  The converse - an API function WITHOUT a gate
# never reaches secp256k1_ecmult_gen - was not checked.  The call graph of the pinned tree (goto-instrument --call-graph, recorded in DESIGN 15)
# gives four ungated API functions from which ecmult_gen is reachable: secp256k1_generator_generate (path-insensitively: only under blind32 != NULL),
# secp256k1_bppp_generators_create (through generator_generate), secp256k1_anti_exfil_sign and secp256k1_rangeproof_verify (gates inside callees).
# This unit re-runs the C08 generate harness for C20: generator_generate on a built or unbuilt context never calls ecmult_gen.
# Added after seeded change C20-2 (unblinded derivation rewritten as "blinded with factor 0") passed the C20 quick check unnoticed.
R = ["secp256k1_sha256_write", "secp256k1_sha256_finalize", "shallue_van_de_woestijne", "secp256k1_gej_add_ge", "secp256k1_gej_add_ge_var", "secp256k1_ecmult_gen", "secp256k1_ge_set_gej", "secp256k1_ge_set_gej_var"]
UNITS = [
    U("C20.generator_generate_any_ctx", ["C20"], "harness/C08/generate.c", "h_generate", replace=R, assumed=R,
      functions=["secp256k1_generator_generate", "secp256k1_generator_generate_internal"], timeout=900, min_obl=2800, unwind=34,
      note="same harness as C08.generate: for a context that is built or not, the ungated secp256k1_generator_generate never reaches ecmult_gen (obligation on the oracle's call counter)"),
]

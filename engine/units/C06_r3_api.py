from core import Unit as U
# C06 round 3: the API-level compositions the claim listed as "not built" (harness/C06/r3_api.c; idiom of
# C06.sign_inner / C06.api_*: two runs, independent secrets, only the bits the library declassifies are equal,
# heavy primitives redirected to call-counting arbitrary-result stubs whose own traces are the primitive units).
NOCHK = ["--no-bounds-check", "--no-pointer-check", "--no-signed-overflow-check", "--no-undefined-shift-check",
         "--no-div-by-zero-check"]
def R3(name, entry, functions, rc=None, **kw):
    kw.setdefault("timeout", 900)
    kw.setdefault("slice_formula", True)
    kw.setdefault("flags", NOCHK)
    kw.setdefault("min_obl", 3)
    kw.setdefault("tier", "thorough")   # 75-105 s wall each on the loaded machine (cc ~12 s, instrument ~50 s, cbmc 6-35 s)
    if rc:
        flat = []
        for k, v in rc.items():
            flat += ["--replace-calls", "%s:%s" % (k, v)]
        kw["extra_instrument"] = [flat]
    return U("C06." + name, ["C06"], "harness/C06/r3_api.c", entry, branch=True, functions=functions, **kw)
ALL = [
    R3("r3_adaptor_encrypt", "h_r3_adaptor_encrypt", ["secp256k1_ecdsa_adaptor_encrypt", "secp256k1_dleq_prove", "secp256k1_dleq_nonce", "secp256k1_dleq_pair", "secp256k1_ecdsa_adaptor_sig_serialize"],
       rc={"secp256k1_ecmult_gen": "r3_ecmult_gen", "secp256k1_ecmult_const": "r3_ecmult_const", "secp256k1_ge_set_all_gej": "r3_ge_set_all_gej_public",
           "secp256k1_scalar_inverse": "r3_scalar_inverse", "secp256k1_scalar_mul": "r3_scalar_mul", "nonce_function_ecdsa_adaptor_impl": "r3_nonce_ecdsa_adaptor_impl", "secp256k1_dleq_challenge": "r3_dleq_challenge",
           "secp256k1_eckey_pubkey_serialize33": "r3_pubkey_serialize33"},
       assumed=["secp256k1_dleq_challenge", "secp256k1_eckey_pubkey_serialize33"], timeout=1200, tier="thorough", min_obl=950,
       note="secret: seckey32 (validity never declassified), aux data, both nonces; declassified: R, R', DLEQ commitments (public table), DLEQ nonce verdict; "
            "nonce function return values public by convention; nonce_function_ecdsa_adaptor_impl: C06.r3_nonce_ecdsa_adaptor; dleq_challenge hashes public points only"),
    R3("r3_nonce_ecdsa_adaptor", "h_r3_nonce_ecdsa_adaptor", ["nonce_function_ecdsa_adaptor_impl"], unwind=70,
       bounded="(adaptor algo, aux), (DLEQ algo, no aux), (9-byte algo, aux); fixed lengths of the function's interface", note="real SHA-256; secret key32 and aux"),
    R3("r3_ellswift_xdh", "h_r3_ellswift_xdh", ["secp256k1_ellswift_xdh", "secp256k1_ecmult_const_xonly", "ellswift_xdh_hash_function_bip324_impl", "ellswift_xdh_hash_function_prefix_impl"],
       rc={"secp256k1_ecmult_const": "r3_ecmult_const", "secp256k1_fe_impl_inv": "r3_fe_inv", "secp256k1_ellswift_xswiftec_frac_var": "r3_xswiftec_frac_var"},
       assumed=["secp256k1_ellswift_xswiftec_frac_var"], min_obl=1290,
       note="secret: seckey32 (valid, zero, overflowing), shared x; both built-in hashes real (SHA-256 over the secret x), user hash stub; xswiftec_frac_var decodes the PUBLIC remote encoding (variable time by design)"),
    R3("r3_ellswift_create", "h_r3_ellswift_create", ["secp256k1_ellswift_create", "secp256k1_ec_pubkey_create_helper"],
       rc={"secp256k1_ecmult_gen": "r3_ecmult_gen", "secp256k1_ge_set_gej": "r3_ge_set_gej_public", "secp256k1_ellswift_elligatorswift_var": "r3_elligatorswift_var"},
       assumed=["secp256k1_ellswift_elligatorswift_var"],
       note="secret: seckey32 (validity masked by memczero), aux; declassified: public key (public table) and the hash state after the key went in - elligatorswift_var (variable time by design) sees only those"),
    R3("r3_sign_wrappers", "h_r3_sign_wrappers", ["secp256k1_ecdsa_sign", "secp256k1_ecdsa_sign_recoverable", "secp256k1_ecdsa_s2c_sign"],
       rc={"secp256k1_ecdsa_sign_inner": "r3_sign_inner"}, min_obl=920,
       note="sign_inner (C06.sign_inner) replaced by a stub with an independent SECRET verdict per run; s2c data hash real"),
    R3("r3_signer_commit", "h_r3_signer_commit", ["secp256k1_ecdsa_anti_exfil_signer_commit"], unwind=6,
       rc={"nonce_function_rfc6979_impl": "r3_rfc6979_impl", "secp256k1_ecmult_gen": "r3_ecmult_gen", "secp256k1_ge_set_gej": "r3_ge_set_gej_secret"},
       assumed=["nonce_function_rfc6979_impl"], bounded="retry loop <= 2 attempts", min_obl=160,
       note="declassified: is_nonce_valid per attempt; nonce bytes, nonce point, key and host commitment secret; rfc6979_impl assumed as in C06.sign_inner (parts: C06.rfc6979_*)"),
    R3("r3_nonce_gen_counter", "h_r3_nonce_gen_counter", ["secp256k1_musig_nonce_gen_counter", "secp256k1_musig_nonce_gen_internal", "secp256k1_keypair_sec", "secp256k1_keypair_pub"],
       rc={"secp256k1_nonce_function_musig": "r3_nonce_function_musig", "secp256k1_ecmult_gen": "r3_ecmult_gen", "secp256k1_ge_set_all_gej": "r3_ge_set_all_gej_public"},
       note="secret: keypair secret half, extra input; declassified: the two public nonces; keypair validity modelled public as in C06.api_keypair_tweak "
            "(the function branches on it without a declassify call: with defs=['R3_KEYPAIR_VALIDITY_SECRET'] this unit FAILS - reported); nonce hash: real in C06.api_musig_nonce_gen"),
]
# Admitted (pass on HEAD with all REACH witnesses, >= 2 mutants fail, 1 refactoring passes): see mutants/README.md.
ADMITTED = ["C06.r3_adaptor_encrypt", "C06.r3_ellswift_xdh", "C06.r3_sign_wrappers", "C06.r3_signer_commit"]
# NOT admitted when the time box ended (harness entries and mutant/refactor diffs exist, runs did not finish):
#   C06.r3_nonce_gen_counter: first run 229 s, every obligation SUCCESS but one REACH witness was mis-stated (g_illegal counts both
#       runs: fixed in the harness, not re-run); mutants C06_r3_nonce_gen_counter_*.diff not run.  With defs=["R3_KEYPAIR_VALIDITY_SECRET"]
#       the trace obligation is EXPECTED to fail (branch on the undeclassified verdict of nonce_gen_internal), not run either.
#   C06.r3_ellswift_create, C06.r3_nonce_ecdsa_adaptor: never run.
# adaptor_encrypt formulations: (1) real scalar_mul + real serialize33: > 900 s in propositional reduction (REACH witnesses on the
#   return value drag two 256-bit multiplications in); (2) scalar_mul stubbed, serialize33 real: 900 s timeout in the SAT solver
#   (fe_normalize_var decisions on symbolic public limbs); (3) both stubbed: 34 s.
UNITS = [u for u in ALL if u.name in ADMITTED]

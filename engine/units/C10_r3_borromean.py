from core import Unit as U
# UNBOUNDED units on secp256k1_borromean_verify: both loops (rings, members of a ring) closed by loop contracts supplied here
# (engine --loop-contracts-file, no /repo edit).  Harness: harness/C10/r3_borromean_gates.c; oracles: contracts/assumed_r3_borromean.h.
# Ghost names: r3_gk = the watched flat member index (chosen nondeterministically by the harness: a statement about it is a statement
# about every index); r3_start[i] / r3_ne[i] = harness tables "sum of the first i ring sizes" / "non-empty rings among the first i";
# r3_cfin / r3_kfin / r3_em_hit = flags written by the hash / ecmult oracle stubs.
BH = "harness/C10/r3_borromean_gates.c"
BORACLES = ["secp256k1_ecmult", "secp256k1_ge_set_gej_var", "secp256k1_sha256_write", "secp256k1_sha256_finalize"]   # call-site stubs
BFUNCS = ["secp256k1_borromean_verify", "secp256k1_borromean_hash", "secp256k1_eckey_pubkey_serialize33", "secp256k1_scalar_set_b32", "secp256k1_scalar_is_zero"]
GHOSTS = "r3_n4, __CPROVER_object_whole(r3_l4a), __CPROVER_object_whole(r3_l4b), r3_kfin, r3_kdup, r3_cfin, __CPROVER_object_whole(r3_cdig), r3_em_hit, r3_em_rinf"
LOCALS = "count, overflow, ens, rgej, rge, __CPROVER_object_whole(tmp), sha256_e0"
S_NZ = "(s[r3_gk].d[0] | s[r3_gk].d[1] | s[r3_gk].d[2] | s[r3_gk].d[3]) != 0"
# the gate statement: once the flat counter has passed the watched index, the scalar and key AT THAT INDEX were seen non-zero / finite
GATE = "(r3_gk < count ==> (" + S_NZ + " && pubs[r3_gk].infinity == 0))"
OUTER = "i <= nrings && count == r3_start[i] && sha256_e0.bytes == 33 * r3_ne[i] && r3_cfin == 0 && " + GATE
INNER = ("j <= rsizes[i] && count == r3_start[i] + j && sha256_e0.bytes == 33 * r3_ne[i] + ((j == rsizes[i] && j != 0) ? 33 : 0) && r3_cfin == 0 && " + GATE)
def loops(outer_extra="", inner_extra=""):
    return {"secp256k1_borromean_verify": {
        "for (i = 0; i < nrings; i++)": {"assigns": "i, j, " + LOCALS + ", " + GHOSTS, "invariants": OUTER + outer_extra, "decreases": "nrings - i"},
        "for (j = 0; j < rsizes[i]; j++)": {"assigns": "j, " + LOCALS + ", " + GHOSTS, "invariants": INNER + inner_extra, "decreases": "rsizes[i] - j"}}}
# NOT REGISTERED (eng_borro, 22:28): no 32-ring configuration completed within 900-1800 s on the loaded machine; see the notes below.
CANDIDATES = [
    U("C10.r3_borromean_gates", ["C10", "C11", "C16", "C07"], BH, "h_r3_borromean_gates",
      assumed=BORACLES, functions=BFUNCS, loop_contracts=loops(), timeout=1800, min_obl=100, unwind=34, tier="thorough",
      closed_by="loop contracts on the ring loop and the member loop (engine-supplied, no /repo edit): count = prefix sum + j, closing-hash stream length 33 per finished non-empty ring, "
                "ghost flat index: 'count has passed k ==> s[k] != 0 and pubs[k] finite', decreases clauses; harness table loops (32) unwound",
      note="every layout of 1..32 rings with 0..2^20 members each, exact-size arrays, every flat index, evalues NULL or not; ecmult / ge_set_gej_var / sha256 stream by call-site stubs"),
]

def loops_nd():
    L = loops()
    for c in L["secp256k1_borromean_verify"].values():
        del c["decreases"]
    return L
CANDIDATES += [
    U("C10.r3_x1", ["C10"], BH, "h_r3_borromean_gates", defs=["R3_MAXR=4"], assumed=BORACLES, functions=BFUNCS, loop_contracts=loops(), timeout=700, min_obl=100, unwind=34, tier="thorough"),
    U("C10.r3_x3", ["C10"], BH, "h_r3_borromean_gates", defs=["R3_PREFIX_INPUT"], assumed=BORACLES, functions=BFUNCS, loop_contracts=loops(), timeout=900, min_obl=100, unwind=34, tier="thorough"),
    U("C10.r3_x4", ["C10"], BH, "h_r3_borromean_gates", defs=["R3_PREFIX_INPUT", "R3_STUB_LEAVES"], assumed=BORACLES, functions=BFUNCS, loop_contracts=loops_nd(), timeout=900, min_obl=100, unwind=34, tier="thorough", slice_formula=True),
    U("C10.r3_x2", ["C10"], BH, "h_r3_borromean_gates", defs=["R3_STUB_LEAVES"], assumed=BORACLES, functions=BFUNCS, loop_contracts=loops_nd(), timeout=700, min_obl=100, unwind=34, tier="thorough", slice_formula=True),
]

UNITS = []
# What was measured (all with the harness as it is now unless stated):
#  r3_x1  R3_MAXR=4 (at most 4 rings, ring sizes 0..2^20, exact-size arrays, real leaves, decreases clauses): DECIDED in 206 s cbmc, 2921 obligations;
#         the only failures were two artefacts fixed since: "CAR size is less than __CPROVER_max_malloc_size" (__CPROVER_object_whole(evalues) with
#         evalues == NULL in the loop assigns; the loop-contract file has no conditional targets, so the harness now fixes evalues == NULL, R3_EV for the other shape)
#         and "Check that i is assignable" in r3_stub_sha256_finalize (loop counter of an un-annotated loop in a stub called inside a contract-carrying loop;
#         the stubs are loop-free now).  All loop-invariant, bounds and verdict obligations were SUCCESS in that run.  NOT re-run after the two fixes.
#  r3_borromean_gates (32 rings, sizes summed in the harness): timeout 1800 s (minisat), also > 15 min with cadical / --slice-formula.
#  r3_x2  32 rings + R3_STUB_LEAVES (scalar_set_b32, serialize33 stubbed), no decreases, --slice-formula: timeout 700 s.
#  r3_x3 / r3_x4  32 rings with R3_PREFIX_INPUT (ring sizes parametrised by their prefix sums, so "prefix <= total" is a comparison chain): timeout 900 s each.
# Reading: cost grows with R3_MAXR (the 33-entry ghost tables r3_start / r3_ne indexed by the havocked i), not with the leaves.  Next formulations to try:
#  (a) R3_MAXR=8/16 to find the knee and register the largest that fits as bounded="nrings <= N, ring sizes unbounded" (already covers the whitelist / surjection
#      call shape: ONE ring of any size - that is the shape the C11/C16 claims name as not covered);  (b) nrings == 1 unit with no tables at all
#      (count == j, sha256_e0.bytes == (j == rsizes[0] && j != 0 ? 33 : 0));  (c) replace the tables by two scalar ghosts fixed for the watched ring only.

from core import Unit as U
MULINV = ["secp256k1_scalar_mul", "secp256k1_scalar_inverse"]
GEN = ["secp256k1_ecmult_gen", "secp256k1_ge_set_gej"]
UNITS = [
    U("C01.sig_sign", ["C01"], "harness/C01/sig_sign.c", "h_sig_sign", replace=MULINV + GEN, assumed=MULINV + GEN,
      functions=["secp256k1_ecdsa_sig_sign", "secp256k1_fe_normalize", "secp256k1_fe_get_b32", "secp256k1_scalar_set_b32",
                 "secp256k1_scalar_add", "secp256k1_scalar_is_high", "secp256k1_scalar_cond_negate", "secp256k1_fe_is_odd", "secp256k1_scalar_is_zero"],
      timeout=600, min_obl=100, replay=False),
]

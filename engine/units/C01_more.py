from core import Unit as U
MULINV = ["secp256k1_scalar_mul", "secp256k1_scalar_inverse"]
GEN = ["secp256k1_ecmult_gen", "secp256k1_ge_set_gej"]
SIGN_INNER_REPL = ["secp256k1_ecdsa_sig_sign", "nonce_function_rfc6979_impl", "secp256k1_ec_commit_seckey"] + GEN
UNITS = [
    U("C01.sig_sign", ["C01"], "harness/C01/sig_sign.c", "h_sig_sign", replace=MULINV + GEN, assumed=MULINV + GEN,
      functions=["secp256k1_ecdsa_sig_sign", "secp256k1_fe_normalize", "secp256k1_fe_get_b32", "secp256k1_scalar_set_b32",
                 "secp256k1_scalar_add", "secp256k1_scalar_is_high", "secp256k1_scalar_cond_negate", "secp256k1_fe_is_odd", "secp256k1_scalar_is_zero"],
      timeout=600, min_obl=100, replay=False),
    U("C01.verify_api", ["C01"], "harness/C01/verify_api.c", "h_verify_api", replace=["secp256k1_ecdsa_sig_verify"],
      functions=["secp256k1_ecdsa_verify", "secp256k1_ecdsa_signature_load", "secp256k1_pubkey_load", "secp256k1_scalar_set_b32", "secp256k1_scalar_is_high", "secp256k1_ge_from_bytes"],
      timeout=600, min_obl=50, replay=False, note="secp256k1_ecdsa_sig_verify replaced by its verdict-oracle contract; its gates are proved by C01.sig_verify"),
    U("C01.normalize", ["C01"], "harness/C01/normalize.c", "h_normalize",
      functions=["secp256k1_ecdsa_signature_normalize", "secp256k1_ecdsa_signature_load", "secp256k1_ecdsa_signature_save", "secp256k1_scalar_is_high", "secp256k1_scalar_negate"],
      timeout=600, min_obl=50, replay=False),
    U("C01.sign_inner", ["C01"], "harness/C01/sign_inner.c", "h_sign_inner", replace=SIGN_INNER_REPL, assumed=GEN,
      loops=True, closed_by="loop contract on the nonce retry loop (hooks/C01_sign_inner_loop.diff); partial correctness",
      functions=["secp256k1_ecdsa_sign_inner", "secp256k1_scalar_set_b32_seckey", "secp256k1_scalar_set_b32", "secp256k1_scalar_cmov", "secp256k1_int_cmov", "nonce_function_rfc6979"],
      timeout=900, min_obl=100, replay=False,
      note="sig_sign and nonce_function_rfc6979_impl replaced by contracts proved in C01.sig_sign / C01.rfc6979; user nonce callback = stub writing only nonce32 and returning any int"),
]

from core import Unit as U
MULINV = ["secp256k1_scalar_mul", "secp256k1_scalar_inverse"]
GEN = ["secp256k1_ecmult_gen", "secp256k1_ge_set_gej"]
SIGN_INNER_REPL = ["secp256k1_ecdsa_sig_sign", "nonce_function_rfc6979_impl", "secp256k1_ec_commit_seckey"] + GEN
RFC_DRBG = ["secp256k1_rfc6979_hmac_sha256_initialize", "secp256k1_rfc6979_hmac_sha256_generate", "secp256k1_rfc6979_hmac_sha256_finalize"]
REC_ORACLES = ["secp256k1_ge_set_xo_var", "secp256k1_scalar_inverse_var", "secp256k1_scalar_mul", "secp256k1_ecmult", "secp256k1_ge_set_gej_var"]
# Loop contracts (engine-supplied, no /repo edit).  Ghost logs are single struct objects (assumed_C01.h / assumed_C15.h), so each is one target.
def sign_loop(ghost):
    """retry loop of secp256k1_ecdsa_sign_inner: everything the body may write; invariant: attempt counter == number of nonce-function calls"""
    return {"secp256k1_ecdsa_sign_inner": {"while (1)": {
        "assigns": "ret, count, non, __CPROVER_object_whole(nonce32), *r, *s; recid != NULL: *recid; s2c_opening != NULL: *s2c_opening; s2c_sha != NULL: *s2c_sha; " + ghost,
        "invariants": "count == verif_nonce_calls"}}}
SIGN_LOOP = sign_loop("verif_nonce_calls, g_nf, g_ss, g_cs")
RFC_LOOP = {"nonce_function_rfc6979_impl": {"for (i = 0;": {   # fragment kept short: a mutated loop condition must still find the loop (and then fail an obligation)
    "assigns": "i, rng, __CPROVER_object_upto(nonce32, 32), verif_rfc6979_generate_calls, g_rg",
    # counter+1 generate calls; after the LAST one (i == counter+1) nonce32 holds its 32 output bytes (ghost index g_nk2); earlier outputs may go anywhere
    "invariants": "(i == 0 || i - 1 <= counter) && verif_rfc6979_generate_calls == i && ((i != 0 && i - 1 == counter) ==> (g_rg.len == 32 && nonce32[g_nk2] == g_rg.out_byte))"}}}
UNITS = [
    U("C01.sig_sign", ["C01"], "harness/C01/sig_sign.c", "h_sig_sign", replace=MULINV + GEN, assumed=MULINV + GEN,
      functions=["secp256k1_ecdsa_sig_sign", "secp256k1_fe_normalize", "secp256k1_fe_get_b32", "secp256k1_scalar_set_b32",
                 "secp256k1_scalar_add", "secp256k1_scalar_is_high", "secp256k1_scalar_cond_negate", "secp256k1_fe_is_odd", "secp256k1_scalar_is_zero"],
      timeout=600, min_obl=1750, replay=False),
    U("C01.verify_api", ["C01"], "harness/C01/verify_api.c", "h_verify_api", replace=["secp256k1_ecdsa_sig_verify"],
      functions=["secp256k1_ecdsa_verify", "secp256k1_ecdsa_signature_load", "secp256k1_pubkey_load", "secp256k1_scalar_set_b32", "secp256k1_scalar_is_high", "secp256k1_ge_from_bytes"],
      timeout=600, min_obl=641, replay=False, note="secp256k1_ecdsa_sig_verify replaced by its verdict-oracle contract; its gates are proved by C01.sig_verify"),
    U("C01.normalize", ["C01"], "harness/C01/normalize.c", "h_normalize",
      functions=["secp256k1_ecdsa_signature_normalize", "secp256k1_ecdsa_signature_load", "secp256k1_ecdsa_signature_save", "secp256k1_scalar_is_high", "secp256k1_scalar_negate"],
      timeout=600, min_obl=550, replay=False),
    U("C01.sign_inner", ["C01"], "harness/C01/sign_inner.c", "h_sign_inner", replace=SIGN_INNER_REPL, assumed=GEN,
      loop_contracts=SIGN_LOOP, closed_by="loop contract on the nonce retry loop (engine-supplied --loop-contracts-file, no /repo edit); partial correctness, termination not claimed",
      functions=["secp256k1_ecdsa_sign_inner", "secp256k1_scalar_set_b32_seckey", "secp256k1_scalar_set_b32", "secp256k1_scalar_cmov", "secp256k1_int_cmov", "nonce_function_rfc6979"],
      timeout=900, min_obl=1013, replay=False,
      note="sig_sign and nonce_function_rfc6979_impl replaced by contracts proved in C01.sig_sign / C01.rfc6979; user nonce callback = stub writing only nonce32 and returning any int"),
    U("C01.rfc6979", ["C01", "C15"], "harness/C01/rfc6979.c", "h_rfc6979", replace=RFC_DRBG,
      loop_contracts=RFC_LOOP, closed_by="loop contract on the counter loop (engine-supplied --loop-contracts-file, no /repo edit); partial correctness",
      functions=["nonce_function_rfc6979_impl", "buffer_append", "secp256k1_scalar_set_b32", "secp256k1_scalar_get_b32"],
      timeout=600, min_obl=604, replay=False,
      note="DRBG object functions replaced by ghost-logging frame contracts (their bodies: C05 hash units)"),
    U("C01.sign_api", ["C01"], "harness/C01/sign_api.c", "h_sign", replace=SIGN_INNER_REPL, assumed=GEN,
      loop_contracts=SIGN_LOOP, closed_by="loop contract on the nonce retry loop (engine-supplied --loop-contracts-file, no /repo edit); partial correctness, termination not claimed",
      functions=["secp256k1_ecdsa_sign", "secp256k1_ecdsa_sign_inner", "secp256k1_ecdsa_signature_save", "secp256k1_ecmult_gen_context_is_built"],
      timeout=900, min_obl=1264, replay=False),
    U("C01.sign_recoverable", ["C01"], "harness/C01/sign_api.c", "h_sign_recoverable", defs=["UNIT_SIGN_RECOVERABLE"], replace=SIGN_INNER_REPL, assumed=GEN,
      loop_contracts=SIGN_LOOP, closed_by="loop contract on the nonce retry loop (engine-supplied --loop-contracts-file, no /repo edit); partial correctness, termination not claimed",
      functions=["secp256k1_ecdsa_sign_recoverable", "secp256k1_ecdsa_sign_inner", "secp256k1_ecdsa_recoverable_signature_save"],
      timeout=900, min_obl=1281, replay=False),
    U("C01.rec_parse", ["C01"], "harness/C01/rec_codec.c", "h_rec_parse",
      functions=["secp256k1_ecdsa_recoverable_signature_parse_compact", "secp256k1_ecdsa_recoverable_signature_serialize_compact", "secp256k1_ecdsa_recoverable_signature_convert",
                 "secp256k1_ecdsa_recoverable_signature_save", "secp256k1_ecdsa_recoverable_signature_load", "secp256k1_scalar_set_b32", "secp256k1_scalar_get_b32"],
      timeout=600, min_obl=617, replay=False),
    U("C01.rec_serialize", ["C01"], "harness/C01/rec_codec.c", "h_rec_ser",
      functions=["secp256k1_ecdsa_recoverable_signature_serialize_compact", "secp256k1_ecdsa_recoverable_signature_convert", "secp256k1_ecdsa_recoverable_signature_load"],
      timeout=600, min_obl=564, replay=False),
    U("C01.sig_recover", ["C01"], "harness/C01/sig_recover.c", "h_sig_recover", replace=REC_ORACLES, assumed=REC_ORACLES,
      functions=["secp256k1_ecdsa_sig_recover", "secp256k1_scalar_get_b32", "secp256k1_fe_set_b32_limit", "secp256k1_fe_cmp_var", "secp256k1_fe_add", "secp256k1_scalar_negate", "secp256k1_gej_set_ge"],
      timeout=600, min_obl=1753, replay=False),
    U("C01.recover_api", ["C01"], "harness/C01/recover_api.c", "h_recover_api", replace=["secp256k1_ecdsa_sig_recover"],
      functions=["secp256k1_ecdsa_recover", "secp256k1_ecdsa_recoverable_signature_load", "secp256k1_scalar_set_b32", "secp256k1_pubkey_save"],
      timeout=600, min_obl=723, replay=False, note="secp256k1_ecdsa_sig_recover replaced by its verdict-oracle contract; its gates are proved by C01.sig_recover"),
]

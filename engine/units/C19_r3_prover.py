from core import Unit as U
PROVER_ORACLES = ["secp256k1_fe_mul", "secp256k1_fe_sqr", "secp256k1_fe_inv_var", "secp256k1_scalar_mul", "secp256k1_scalar_sqr",
                  "secp256k1_scalar_inverse_var", "secp256k1_ecmult", "secp256k1_gej_add_var", "secp256k1_gej_add_ge_var"]
PROVER_FUNCS = ["secp256k1_bppp_rangeproof_norm_product_prove", "ecmult_x_cb", "ecmult_r_cb", "secp256k1_scalar_inner_product",
                "secp256k1_weighted_scalar_inner_product", "secp256k1_bppp_serialize_points", "secp256k1_ge_serialize_ext",
                "secp256k1_eckey_pubkey_serialize33", "secp256k1_ge_set_gej_var", "secp256k1_gej_set_ge", "secp256k1_ge_set_xy",
                "secp256k1_bppp_challenge_scalar", "secp256k1_bppp_log2", "secp256k1_is_power_of_two", "secp256k1_scalar_add",
                "secp256k1_scalar_get_b32", "secp256k1_fe_normalize_var", "secp256k1_fe_get_b32"]
def _uws(v):
    p = "secp256k1_bppp_rangeproof_norm_product_prove"
    return [p + ".0:%d" % (v.bit_length() + 0), p + ".1:%d" % (v // 2 + 1), p + ".2:%d" % (v // 2 + 1),
            "secp256k1_scalar_inner_product.0:%d" % (v // 2 + 1), "secp256k1_weighted_scalar_inner_product.0:%d" % (v // 2 + 1)]
# STATUS: NOT ADMITTED. Neither unit has produced a verdict yet (b2: > 9 min in symbolic execution, b4: > 25 min; loop ids checked with
# --show-loops: .0 = g folding loop, .1 = h folding loop, .2 = round loop, so the unwindset is right).  Suspects, untested: the generic
# cb(...) fallback in the multi_var model (function-pointer removal pulls in every callback of the TU), DFCC instrumentation of all real
# VERIFY-build field wrappers, symbolic-size heap arrays of VERIFY-build secp256k1_ge.  Next: drop the fallback, fixed-size vectors per
# (g_len,h_len) pair via defs, or a contract for ge_set_gej_var whose requires is its VERIFY precondition.
# MEASURED (r3, 23 Sep): C19.r3_prover_b4 (VLEN=4) did not leave symbolic execution within 25 min wall (1 GB, no memory
# growth) on a machine shared with ~20 other verifier jobs: UNDECIDED so far, not a failure.  C19.r3_prover_b2 = same harness, VLEN=2.
_NOT_ADMITTED = [
    U("C19.r3_prover_b2", ["C19", "C07"], "harness/C19/r3_prover.c", "h_prove", verify=True, defs=["VLEN=2"],
      bounded="g_len, h_len <= 2 (all 4 power-of-two length pairs, at most 1 round)", tier="thorough",
      replace=PROVER_ORACLES + ["secp256k1_sha256_write", "secp256k1_sha256_finalize"],
      assumed=PROVER_ORACLES + ["secp256k1_ecmult_multi_var (model with body: runs the callback for an arbitrary index below n, checks its outputs, arbitrary valid result with arbitrary infinity flag, arbitrary verdict)"],
      functions=PROVER_FUNCS, unwind=66, unwindset=_uws(2),
      timeout=1800, min_obl=100, replay=False, flags=["--no-malloc-may-fail"], extra_instrument=[["--add-library", "--no-malloc-may-fail"]],
      closed_by="full unwinding with unwinding assertions (round loop 2, folding / inner-product loops 2, clz 66)",
      note="same harness as r3_prover_b4 with vectors <= 2"),
    U("C19.r3_prover_b4", ["C19", "C07"], "harness/C19/r3_prover.c", "h_prove", verify=True, defs=["VLEN=4"],
      bounded="g_len, h_len <= 4 (all 9 power-of-two length pairs, up to 2 rounds)", tier="thorough",
      replace=PROVER_ORACLES + ["secp256k1_sha256_write", "secp256k1_sha256_finalize"],
      assumed=PROVER_ORACLES + ["secp256k1_ecmult_multi_var (model with body: runs the callback for an arbitrary index below n, checks its outputs, arbitrary valid result with arbitrary infinity flag, arbitrary verdict)"],
      functions=PROVER_FUNCS, unwind=66, unwindset=_uws(4),
      timeout=1800, min_obl=300, replay=False, flags=["--no-malloc-may-fail"], extra_instrument=[["--add-library", "--no-malloc-may-fail"]],
      closed_by="full unwinding with unwinding assertions (round loop 3, folding / inner-product loops 3, clz 66)",
      note="-DVERIFY: every VERIFY_CHECK of the prover and of the real group/field/scalar functions it calls is an obligation, for every oracle answer (Jacobian results with arbitrary infinity flags); exactly-sized proof / vector objects; the prover's documented contract (its VERIFY_CHECK block) is assumed"),
]

# lead: neither unit produced a verdict in the time box (symex stall) -> not registered; the prover stays "not decided" in the C19 claim.
UNITS = []

from core import Unit as U
FE_ORACLES = ["secp256k1_fe_mul", "secp256k1_fe_sqr", "secp256k1_fe_inv_var", "secp256k1_fe_sqrt", "secp256k1_fe_is_square_var", "secp256k1_ge_x_on_curve_var"]
# NOT ADMITTED (hence in PENDING, which ./check does not load): C18.r3_inv_var produced no verdict in two formulations.
#  1. value (mod p) logs computed with 320-bit arithmetic inside the oracle contracts: cbmc timeout 1200 s (SAT, 10 REACH rounds), load ~20
#  2. limb-copy logs, values evaluated once in the harness, 5 REACH witnesses: symex 3 min, 7 SAT rounds done, timeout 1200 s, load ~20
#  No obligation was seen to fail.  Next: let it run with timeout 3600 on an idle machine; split per c (8 units with c fixed); drop the
#  "a factor of t is +-w" value assertion (4 modular reductions) into a unit of its own.  Mutants prepared, NOT RUN against it:
#  mutants/C18_r3_inv_case_bit.diff, C18_r3_inv_missing_normalize.diff, C18_r3_inv_sign.diff; refactors/C18_r3_inv_final_mul_swapped.diff
PENDING = [
    U("C18.r3_inv_var", ["C18", "C07"], "harness/C18/r3_encoder.c", "h_r3_inv_var", defs=["U_R3_INV_VAR"], verify=True,
      replace=FE_ORACLES, assumed=FE_ORACLES,
      functions=["secp256k1_ellswift_xswiftec_inv_var", "secp256k1_fe_normalize_weak", "secp256k1_fe_add", "secp256k1_fe_negate_unchecked", "secp256k1_fe_mul_int_unchecked",
                 "secp256k1_fe_add_int", "secp256k1_fe_half", "secp256k1_fe_normalizes_to_zero_var", "secp256k1_fe_verify"],
      timeout=1200, tier="thorough", min_obl=1, replay=False,
      note="inverse map, all (x,u) valid field elements of any magnitude, all c in 0..7, -DVERIFY: every magnitude/normalisation/aliasing VERIFY_CHECK of the field layer is an obligation; gates and case split per the function's doc comment over oracle verdicts; the function's ALGEBRAIC self-checks (x on curve, s != 0, square root exists) are residue (paths stopped, REACH-witnessed), see harness header"),
]
UNITS = [
    U("C18.r3_search_loop", ["C18", "C07"], "harness/C18/r3_encoder.c", "h_r3_search", defs=["U_R3_SEARCH", "R3_SEARCH_LOOP"], verify=True,
      replace=["secp256k1_ellswift_prng", "secp256k1_ellswift_xswiftec_inv_var"], assumed=["secp256k1_ellswift_prng", "secp256k1_ellswift_xswiftec_inv_var"],
      functions=["secp256k1_ellswift_elligatorswift_var", "secp256k1_ellswift_xelligatorswift_var", "secp256k1_fe_set_b32_mod", "secp256k1_fe_normalizes_to_zero_var",
                 "secp256k1_fe_normalize_var", "secp256k1_fe_is_odd", "secp256k1_fe_negate_unchecked"],
      loop_contracts={"secp256k1_ellswift_xelligatorswift_var": {
          "while (1)": {"assigns": "branches_left, cnt, __CPROVER_object_whole(branch_hash), __CPROVER_object_upto(u32, 32), *t, g_r3_prng_n, g_r3_prng_cnt_ok, g_r3_prng_dst, __CPROVER_object_whole(g_r3_prng_out), g_r3_iv_n, g_r3_iv_c, g_r3_iv_ret, g_r3_iv_x, g_r3_iv_u, g_r3_iv_t, g_r3_resid",
                       "invariants": "0 <= branches_left && branches_left <= 64 && cnt == g_r3_prng_n && g_r3_prng_cnt_ok == 1"}}},
      timeout=1200, tier="thorough", min_obl=2000, replay=False,
      closed_by="loop contract on the while(1) search loop (engine-supplied --loop-contracts-file, no /repo edit), NO decreases clause: partial correctness",
      note="encoder search loop closed by a loop contract WITHOUT decreases clause: PARTIAL correctness only - termination is probabilistic (a draw succeeds with probability about 1/4) and not claimed; PRNG and inverse map are oracles (inverse map body: C18.r3_inv_var); pool index in bounds, counters consecutive, outputs from the successful draw, parity fix-up; -DVERIFY: a draw u = 0 (mod p) stops at the loop's own VERIFY_CHECK (the code does NOT remap it: 'such a low probability event that we do not bother'), proved to be the only way that check trips"),
]

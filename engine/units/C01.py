from core import Unit as U
ORACLES_V = ["secp256k1_scalar_inverse_var", "secp256k1_scalar_mul", "secp256k1_ecmult", "secp256k1_gej_eq_x_var"]
UNITS = [
    U("C01.sig_verify", ["C01"], "harness/C01/sig_verify.c", "h_sig_verify", replace=ORACLES_V, assumed=ORACLES_V,
      functions=["secp256k1_ecdsa_sig_verify", "secp256k1_scalar_get_b32", "secp256k1_fe_set_b32_limit", "secp256k1_fe_cmp_var", "secp256k1_fe_add", "secp256k1_gej_set_ge"],
      timeout=600, min_obl=1503, replay=False),
]

from core import Unit as U
# C05 part (c): hashing for all message lengths and all write splits.  See contracts/hash_spec.h for the layering.
ORACLE = ["sha256 compression function reached through hash_ctx->fn_sha256_compression (verif_compress: logging oracle, havocs s[0..7])"]
SHA = ["secp256k1_sha256_write", "secp256k1_sha256_finalize"]
UNITS = [
    U("C05.sha256_write", ["C05"], "harness/C05/hash_write.c", "h_write", assumed=ORACLE,
      functions=["secp256k1_sha256_write"], timeout=600, min_obl=50, unwind=130, replay=False,
      note="stream lemma: len fully symbolic (<= 2^48), bytes symbolic; compression abstracted by the logging oracle"),
    U("C05.sha256_write_contract", ["C05"], "harness/C05/hash_write.c", "h_write_c", assumed=ORACLE,
      enforce=["secp256k1_sha256_write"], functions=["secp256k1_sha256_write"], solver="cadical", timeout=600, min_obl=50, unwind=130, replay=False,
      note="the stream lemma as a DFCC-enforced contract (hash_spec.h), arbitrary initial log state; consumed by the lemma units"),
    U("C05.sha256_write_split", ["C05"], "harness/C05/hash_write.c", "h_write2", replace=["secp256k1_sha256_write"],
      functions=["secp256k1_sha256_write"], solver="cadical", timeout=600, min_obl=50, unwind=130, replay=False,
      note="two-write lemma over the enforced stream contract: write(a);write(b) has the stream postcondition of write(a||b), all la, lb, bytes"),
    U("C05.sha256_transform_loop", ["C05"], "harness/C05/hash_transform.c", "h_transform", replace=["secp256k1_sha256_transform_impl"],
      assumed=["secp256k1_sha256_transform_impl (one-block compression: frame s[0..7] + ghost call log)"], loops=True,
      functions=["secp256k1_sha256_transform"], timeout=300, min_obl=20, unwind=10, replay=False,
      closed_by="loop contract (hooks/C05_hash_transform_loop.diff): base, step, decreases",
      note="n_blocks symbolic (<= 2^40); needs the loop-contract hook in src/hash_impl.h"),
    U("C05.sha256_finalize", ["C05"], "harness/C05/hash_finalize.c", "h_finalize", assumed=ORACLE,
      functions=["secp256k1_sha256_finalize", "secp256k1_sha256_write", "secp256k1_write_be32"], timeout=600, min_obl=50, unwind=130, replay=False,
      note="padding lemma on the real finalize+write: bytes symbolic < 2^61; compression abstracted by the logging oracle"),
    U("C05.hmac_initialize", ["C05"], "harness/C05/hash_hmac.c", "h_hmac_init", replace=SHA,
      functions=["secp256k1_hmac_sha256_initialize", "secp256k1_sha256_initialize"], timeout=600, min_obl=50, unwind=66, replay=False,
      closed_by="full unwinding of the two 64-iteration xor loops (literal bound sizeof(rkey))",
      note="keylen symbolic (<= 2^40); SHA object replaced by the L3 stream contracts (justified by C05.sha256_write*/finalize)"),
    U("C05.hmac_write", ["C05"], "harness/C05/hash_hmac.c", "h_hmac_write", replace=SHA,
      functions=["secp256k1_hmac_sha256_write"], timeout=300, min_obl=20, unwind=66, replay=False, note="size symbolic"),
    U("C05.hmac_finalize", ["C05"], "harness/C05/hash_hmac.c", "h_hmac_finalize", replace=SHA,
      functions=["secp256k1_hmac_sha256_finalize"], timeout=300, min_obl=20, unwind=66, replay=False,
      note="inner/outer byte counters symbolic"),
]

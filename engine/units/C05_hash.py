from core import Unit as U
# C05 part (c): hashing for all message lengths and all write splits.  See contracts/hash_spec.h for the layering.
ORACLE = ["sha256 compression function reached through hash_ctx->fn_sha256_compression (verif_compress: logging oracle, havocs s[0..7])"]
SHA = ["secp256k1_sha256_write", "secp256k1_sha256_finalize"]
HMAC = ["secp256k1_hmac_sha256_initialize", "secp256k1_hmac_sha256_write", "secp256k1_hmac_sha256_finalize"]

# ---- loop contract of the output loop of secp256k1_rfc6979_hmac_sha256_generate (ghost names: contracts/hash_spec.h, L4) ----
def _le(x): return "__CPROVER_loop_entry(%s)" % x
def _keep(*xs): return " && ".join("%s == %s" % (x, _le(x)) for x in xs)
_DONE = "(%s - outlen)" % _le("outlen")
_F0 = _le("g_hfin_n")
RFC_GEN_LOOP = {
    "assigns": "outlen, out, __CPROVER_object_upto(rng->v, 32), __CPROVER_object_whole(out), g_hfin_n, g_hk_n, g_hk_len, g_hk_byte, "
               "g_hw_hit, g_hw_byte, g_hf_len, g_hf_cur, g_hf_prev, g_hf_prev2, g_hf_last",
    "invariants":
        # progress: whole 32-byte rounds done so far, one HMAC computation per round
        "outlen <= %s && (outlen == 0 || %s %% 32 == 0) && out == %s + %s" % (_le("outlen"), _DONE, _le("out"), _DONE) +
        " && g_hfin_n >= 0 && (unsigned long)g_hfin_n == (unsigned long)%s + (%s + 31) / 32" % (_F0, _DONE) +
        # V is the output of the most recent HMAC computation
        " && (g_hfin_n > %s ? rng->v[g_hdk] == g_hf_last : (%s))" % (_F0, _keep("rng->v[g_hdk]", "rng->v[g_hwpos & 31]", "g_hf_last")) +
        # output of the computation preceding the watched one
        " && ((g_hwe > %s && g_hwe == g_hfin_n) ? g_hf_prev == g_hf_last : ((g_hwe <= %s || g_hwe > g_hfin_n) ==> %s))" % (_F0, _F0, _keep("g_hf_prev")) +
        # the watched computation: not run by this loop (yet) - log untouched; run - key K, message = previous V (32 bytes), output copied out
        " && ((g_hwe < %s || g_hwe >= g_hfin_n) ? (%s)" % (_F0, _keep("g_hk_n", "g_hk_len", "g_hk_byte", "g_hw_hit", "g_hw_byte", "g_hf_len", "g_hf_cur")) +
        " : (g_hk_n == %s + 1 && g_hk_len == 32 && g_hk_byte == rng->k[g_hkk] && g_hf_len == 32" % _le("g_hk_n") +
        " && (g_hwpos < 32 ? (g_hw_hit == %s + 1 && (g_hwe == %s ? g_hw_byte == %s : (g_hwpos == g_hdk ==> g_hw_byte == g_hf_prev)))" % (_le("g_hw_hit"), _F0, _le("rng->v[g_hwpos & 31]")) +
        " : (%s))" % _keep("g_hw_hit", "g_hw_byte") +
        " && ((verif_oi < %s && verif_oi / 32 == (unsigned long)g_hwe - (unsigned long)%s && verif_oi %% 32 == g_hdk) ==> %s[verif_oi] == g_hf_cur)))" % (_le("outlen"), _F0, _le("out")),
    "decreases": "outlen",
}
FR = "harness/C05/hash_frames.c"
STUB = ["sha256 compression function (verif_compress_frame: arbitrary, reads blocks[0..64n), writes s[0..7])"]
UNITS = [
    U("C05.sha256_write", ["C05"], "harness/C05/hash_write.c", "h_write", assumed=ORACLE,
      functions=["secp256k1_sha256_write"], timeout=600, min_obl=1300, unwind=None, replay=False,
      note="no --unwind: all loops of the verified code have literal bounds; a data-dependent loop added to sha256_write makes the unit undecided (timeout), never a violation; stream lemma: len fully symbolic (<= 2^48), bytes symbolic; compression abstracted by the logging oracle"),
    U("C05.sha256_write_b256", ["C05"], "harness/C05/hash_write.c", "h_write", assumed=ORACLE, defs=["MAXLEN=256", "WRITE_BOUNDED"], bounded="len<=256",
      functions=["secp256k1_sha256_write"], timeout=600, min_obl=1300, unwind=66, replay=False,
      note="same harness with len <= 256 and --unwind 66: stays decidable (and passes) when sha256_write is restructured around a data-dependent loop, e.g. one block per compression call"),
    U("C05.sha256_write_contract", ["C05"], "harness/C05/hash_write.c", "h_write_c", assumed=ORACLE,
      enforce=["secp256k1_sha256_write"], functions=["secp256k1_sha256_write"], solver="cadical", timeout=600, min_obl=1400, unwind=None, replay=False,
      note="no --unwind: all loops of the verified code have literal bounds; a data-dependent loop added to sha256_write makes the unit undecided (timeout), never a violation; the stream lemma as a DFCC-enforced contract (hash_spec.h), arbitrary initial log state; consumed by the lemma units"),
    U("C05.sha256_write_split", ["C05"], "harness/C05/hash_write.c", "h_write2", replace=["secp256k1_sha256_write"],
      functions=["secp256k1_sha256_write"], solver="cadical", timeout=600, min_obl=200, unwind=130, replay=False,
      note="two-write lemma over the enforced stream contract: write(a);write(b) has the stream postcondition of write(a||b), all la, lb, bytes"),
    U("C05.sha256_transform_loop", ["C05"], "harness/C05/hash_transform.c", "h_transform", replace=["secp256k1_sha256_transform_impl"],
      assumed=["secp256k1_sha256_transform_impl (one-block compression: frame s[0..7] + ghost call log)"],
      loop_contracts={"secp256k1_sha256_transform": {"while (n_blocks--)": {
          "assigns": "n_blocks, blocks64, verif_tr_calls, verif_tr_ptr, verif_tr_state, __CPROVER_object_upto(state, 32)",
          "invariants": "n_blocks <= __CPROVER_loop_entry(n_blocks)"
                        " && blocks64 == __CPROVER_loop_entry(blocks64) + 64 * (__CPROVER_loop_entry(n_blocks) - n_blocks)"
                        " && verif_tr_calls == __CPROVER_loop_entry(verif_tr_calls) + (__CPROVER_loop_entry(n_blocks) - n_blocks)"
                        " && ((verif_tr_watch >= __CPROVER_loop_entry(verif_tr_calls) && verif_tr_watch < verif_tr_calls)"
                        " ? (verif_tr_ptr == __CPROVER_loop_entry(blocks64) + 64 * (verif_tr_watch - __CPROVER_loop_entry(verif_tr_calls)) && verif_tr_state == state)"
                        " : (verif_tr_ptr == __CPROVER_loop_entry(verif_tr_ptr) && verif_tr_state == __CPROVER_loop_entry(verif_tr_state)))",
          "decreases": "n_blocks"}}},
      functions=["secp256k1_sha256_transform"], timeout=300, min_obl=130, unwind=10, replay=False,
      closed_by="loop contract on the n_blocks loop (engine-supplied --loop-contracts-file, no /repo edit): base, step, decreases",
      note="n_blocks symbolic (<= 2^40)"),
    U("C05.sha256_finalize", ["C05"], "harness/C05/hash_finalize.c", "h_finalize", assumed=ORACLE,
      functions=["secp256k1_sha256_finalize", "secp256k1_sha256_write", "secp256k1_write_be32"], timeout=600, min_obl=1400, unwind=130, replay=False,
      note="padding lemma on the real finalize+write: bytes symbolic < 2^61; compression abstracted by the logging oracle"),
    U("C05.sha256_compose", ["C05"], "harness/C05/hash_finalize.c", "h_sha_compose", replace=["secp256k1_sha256_write"], solver="cadical",
      functions=["secp256k1_sha256_finalize", "secp256k1_sha256_write"], timeout=900, min_obl=250, unwind=130, replay=False,
      note="composition lemma: write(a);write(b);real finalize over the enforced stream contract = FIPS 180-4 padded message blocks, all |a|,|b|, midstate prefix 64m"),
    U("C05.hmac_initialize", ["C05"], "harness/C05/hash_hmac.c", "h_hmac_init", replace=SHA,
      functions=["secp256k1_hmac_sha256_initialize", "secp256k1_sha256_initialize"], timeout=600, min_obl=350, unwind=66, replay=False,
      closed_by="full unwinding of the two 64-iteration xor loops (literal bound sizeof(rkey))",
      note="keylen symbolic (<= 2^40); SHA object replaced by the L3 stream contracts (justified by C05.sha256_write*/finalize)"),
    U("C05.hmac_write", ["C05"], "harness/C05/hash_hmac.c", "h_hmac_write", replace=SHA,
      functions=["secp256k1_hmac_sha256_write"], timeout=300, min_obl=170, unwind=66, replay=False, note="size symbolic"),
    U("C05.hmac_finalize", ["C05"], "harness/C05/hash_hmac.c", "h_hmac_finalize", replace=SHA,
      functions=["secp256k1_hmac_sha256_finalize"], timeout=300, min_obl=240, unwind=66, replay=False,
      note="inner/outer byte counters symbolic"),
    U("C05.sha256_initialize_tagged", ["C05"], "harness/C05/hash_tagged.c", "h_tagged_init", replace=SHA,
      functions=["secp256k1_sha256_initialize_tagged", "secp256k1_sha256_initialize"], timeout=300, min_obl=300, unwind=66, replay=False,
      note="taglen symbolic (<= 2^40)"),
    U("C05.tagged_sha256", ["C05", "C20"], "harness/C05/hash_tagged.c", "h_tagged_sha256", replace=SHA,
      functions=["secp256k1_tagged_sha256", "secp256k1_sha256_initialize_tagged", "secp256k1_sha256_initialize", "secp256k1_sha256_clear"],
      timeout=300, min_obl=400, unwind=66, replay=False,
      note="API-level, NULL/non-NULL of every pointer argument, taglen and msglen symbolic (<= 2^40)"),
    U("C05.rfc6979_initialize", ["C05"], "harness/C05/hash_rfc6979.c", "h_rfc_init", replace=HMAC,
      functions=["secp256k1_rfc6979_hmac_sha256_initialize"], timeout=300, min_obl=230, unwind=66, replay=False,
      note="seed length symbolic (<= 2^40); HMAC replaced by the L4 logging contracts (justified by C05.hmac_*)"),
    U("C05.rfc6979_generate_b96", ["C05"], "harness/C05/hash_rfc6979.c", "h_rfc_gen", replace=HMAC, bounded="outlen<=96 (every call site in src/ passes 32)",
      functions=["secp256k1_rfc6979_hmac_sha256_generate"], timeout=600, min_obl=350, unwind=66, unwindset=["secp256k1_rfc6979_hmac_sha256_generate.0:4"], replay=False,
      note="round loop unwound 3 times + unwinding assertion; retry symbolic"),
    U("C05.rfc6979_generate", ["C05"], "harness/C05/hash_rfc6979.c", "h_rfc_gen", replace=HMAC, defs=["RFC_MAXOUT=((size_t)1<<34)"],
      loop_contracts={"secp256k1_rfc6979_hmac_sha256_generate": {"while (outlen > 0)": RFC_GEN_LOOP}},
      functions=["secp256k1_rfc6979_hmac_sha256_generate"], timeout=900, min_obl=550, unwind=66, replay=False,
      closed_by="loop contract on the output loop (engine-supplied --loop-contracts-file, no /repo edit): base, step, decreases",
      note="any outlen (<= 2^34 bytes: the ghost epoch counter is an int), retry symbolic"),
    U("C05.rfc6979_finalize", ["C05"], "harness/C05/hash_rfc6979.c", "h_rfc_finalize",
      functions=["secp256k1_rfc6979_hmac_sha256_finalize"], timeout=120, min_obl=35, unwind=66, replay=False,
      note="memory safety only: hash.h promises no effect of finalize (it may wipe the generator)"),
    U("C05.sha256_initialize", ["C05"], "harness/C05/hash_init.c", "h_sha_init",
      functions=["secp256k1_sha256_initialize", "secp256k1_sha256_initialize_midstate"], timeout=120, min_obl=110, unwind=66, replay=True),
    U("C05.sha256_vectors", ["C05"], "harness/C05/hash_compress.c", "h_sha_vectors", bounded="concrete vectors",
      functions=["secp256k1_sha256_transform_impl", "secp256k1_sha256_transform", "secp256k1_sha256_initialize", "secp256k1_sha256_write", "secp256k1_sha256_finalize"],
      timeout=600, min_obl=1300, unwind=66, replay=True,
      note="TEST, not a proof: NIST vectors 'abc', '', 448-bit message through the real code by symex of concrete inputs; pins IV, K table, rotations, byte order"),
    # MEASURED 2026-09-23: undecided (cbmc timeout after 1500 s, CaDiCaL, spec with the same 16-word rolling schedule; P11 was 900 s MiniSat,
    # textbook schedule).  The compression function therefore stays ASSUMED (oracle of contracts/hash_spec.h); the unit is kept out of the
    # table so that the thorough tier is not undecided by construction.  Harness entry h_compress_fips stays for a future per-round attempt.
    # U("C05.sha256_compress_fips", ["C05"], "harness/C05/hash_compress.c", "h_compress_fips", solver="cadical", tier="thorough",
    # functions=["secp256k1_sha256_transform_impl"], timeout=1500, min_obl=8, unwind=66, replay=True,
    # note="all 2^768 (state, block) inputs against a FIPS 180-4 spec with a 16-word rolling schedule; see report for the measured outcome"),
    # ---- enforcement of the contracts other units use instead of the hashing functions (audit item 22); see harness/C05/hash_frames.c
    U("C05.sha256_core_write", ["C05"], FR, "h_core_write", enforce=["secp256k1_sha256_write"], assumed=STUB,
      functions=["secp256k1_sha256_write"], timeout=300, min_obl=1300, unwind=None, replay=False,
      note="no --unwind: all loops of the verified code have literal bounds; a data-dependent loop added to sha256_write makes the unit undecided (timeout), never a violation; CORE contract (requires, frame *hash, bytes' = bytes + len) enforced on the real body, len symbolic"),
    U("C05.sha256_core_finalize", ["C05"], FR, "h_core_finalize", enforce=["secp256k1_sha256_finalize"], assumed=STUB,
      functions=["secp256k1_sha256_finalize", "secp256k1_sha256_write"], timeout=300, min_obl=1400, unwind=66, replay=False,
      note="CORE contract (frame *hash and out32[0..32) only, every byte count) enforced on the real body"),
    U("C05.hashlog_write_frame", ["C05"], FR, "h_hl_write", enforce=["hl_write"], assumed=STUB,
      functions=["secp256k1_sha256_write"], timeout=300, min_obl=1400, unwind=None, replay=False,
      note="no --unwind: all loops of the verified code have literal bounds; a data-dependent loop added to sha256_write makes the unit undecided (timeout), never a violation; contracts/hash_log.h secp256k1_sha256_write contract, verbatim, enforced on ghost bookkeeping + real function"),
    U("C05.hashlog_finalize_frame", ["C05"], FR, "h_hl_finalize", enforce=["hl_finalize"], assumed=STUB,
      functions=["secp256k1_sha256_finalize", "secp256k1_sha256_write"], timeout=300, min_obl=1700, unwind=66, replay=False,
      note="contracts/hash_log.h secp256k1_sha256_finalize contract, verbatim, enforced on real function + ghost bookkeeping"),
    U("C05.shas_write_frame", ["C05"], FR, "h_shas_write", enforce=["shas_write"], assumed=STUB,
      functions=["secp256k1_sha256_write"], timeout=300, min_obl=1400, unwind=None, replay=False, note="no --unwind: all loops of the verified code have literal bounds; a data-dependent loop added to sha256_write makes the unit undecided (timeout), never a violation; hash_spec.h L3 write contract, verbatim"),
    U("C05.shas_finalize_frame", ["C05"], FR, "h_shas_finalize", enforce=["shas_finalize"], assumed=STUB,
      functions=["secp256k1_sha256_finalize", "secp256k1_sha256_write"], timeout=300, min_obl=1500, unwind=66, replay=False, note="hash_spec.h L3 finalize contract, verbatim"),
    U("C05.hmacs_init_frame", ["C05"], FR, "h_hmacs_init", enforce=["hmacs_init"], replace=SHA,
      functions=["secp256k1_hmac_sha256_initialize"], timeout=300, min_obl=220, unwind=66, replay=False,
      note="hash_spec.h L4 contract, verbatim; SHA calls replaced by the CORE contracts enforced in C05.sha256_core_*"),
    U("C05.hmacs_write_frame", ["C05"], FR, "h_hmacs_write", enforce=["hmacs_write"], replace=SHA,
      functions=["secp256k1_hmac_sha256_write"], timeout=300, min_obl=85, unwind=66, replay=False, note="hash_spec.h L4 contract, verbatim"),
    U("C05.hmacs_finalize_frame", ["C05"], FR, "h_hmacs_finalize", enforce=["hmacs_finalize"], replace=SHA,
      functions=["secp256k1_hmac_sha256_finalize"], timeout=300, min_obl=150, unwind=66, replay=False, note="hash_spec.h L4 contract, verbatim"),
]

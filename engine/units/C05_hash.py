from core import Unit as U
# C05 part (c): hashing for all message lengths and all write splits.  See contracts/hash_spec.h for the layering.
ORACLE = ["sha256 compression function reached through hash_ctx->fn_sha256_compression (verif_compress: logging oracle, havocs s[0..7])"]
UNITS = [
    U("C05.sha256_write", ["C05"], "harness/C05/hash_write.c", "h_write", assumed=ORACLE,
      functions=["secp256k1_sha256_write"], timeout=600, min_obl=50, unwind=130, replay=False,
      note="stream lemma: len fully symbolic (<= 2^48), bytes symbolic; compression abstracted by the logging oracle"),
    U("C05.sha256_write_contract", ["C05"], "harness/C05/hash_write.c", "h_write_c", assumed=ORACLE,
      enforce=["secp256k1_sha256_write"], functions=["secp256k1_sha256_write"], timeout=600, min_obl=50, unwind=130, replay=False,
      note="the stream lemma as a DFCC-enforced contract (hash_spec.h), arbitrary initial log state; consumed by the lemma units"),
    U("C05.sha256_write_split", ["C05"], "harness/C05/hash_write.c", "h_write2", replace=["secp256k1_sha256_write"],
      functions=["secp256k1_sha256_write"], timeout=600, min_obl=50, unwind=130, replay=False,
      note="two-write lemma over the enforced stream contract: write(a);write(b) has the stream postcondition of write(a||b), all la, lb, bytes"),
]

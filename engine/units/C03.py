from core import Unit as U
DER = "harness/C03/der.c"
UNW = "full unwinding: every loop bound is a code-enforced constant (<= 8 length octets, 33-byte scans, 32-byte copies); unwinding assertions prove the bounds"
UNITS = [
    U("C03.der.read_len", ["C03", "C07"], DER, "h_read_len", functions=["secp256k1_der_read_len"],
      unwind=34, timeout=300, min_obl=10, replay=True, closed_by=UNW,
      note="result, *len and pointer advance equal the X.690 8.1.3/10.1 spec for every byte string, length <= 100000, exact object bounds"),
    U("C03.der.parse_integer", ["C03", "C07"], DER, "h_parse_integer",
      functions=["secp256k1_der_parse_integer", "secp256k1_der_read_len", "secp256k1_scalar_set_b32", "secp256k1_scalar_set_int"],
      unwind=82, timeout=300, min_obl=20, replay=True, closed_by=UNW,
      note="accept set, pointer advance and scalar value equal the X.690 8.3 INTEGER spec; kills the 0xFF-padding mutant"),
    U("C03.der.sig_parse", ["C03", "C07"], DER, "h_parse_der",
      functions=["secp256k1_ecdsa_signature_parse_der", "secp256k1_ecdsa_sig_parse", "secp256k1_der_parse_integer", "secp256k1_der_read_len",
                 "secp256k1_ecdsa_signature_save", "secp256k1_ecdsa_signature_load"],
      unwind=82, timeout=600, min_obl=40, replay=True, closed_by=UNW,
      note="API-level: accept <=> spec_der_sig accepts, for every input length <= 100000; reject => object all zero; NULL arguments"),
    U("C03.der.serialize", ["C03", "C20"], DER, "h_serialize_der",
      functions=["secp256k1_ecdsa_signature_serialize_der", "secp256k1_ecdsa_sig_serialize", "secp256k1_scalar_get_b32"],
      unwind=82, timeout=600, min_obl=40, replay=True, closed_by=UNW,
      note="needed size, too-small buffer untouched, bytes equal spec encoding; statics are arbitrary at entry (DFCC havoc) so the result cannot depend on static storage"),
    U("C03.der.roundtrip_ser_parse", ["C03"], DER, "h_rt_ser_parse",
      functions=["secp256k1_ecdsa_signature_serialize_der", "secp256k1_ecdsa_signature_parse_der"],
      unwind=82, timeout=600, min_obl=40, replay=True, closed_by=UNW,
      note="direct composition on the real code (stronger than a lemma over contracts)"),
    U("C03.der.roundtrip_parse_ser", ["C03"], DER, "h_rt_parse_ser",
      functions=["secp256k1_ecdsa_signature_serialize_der", "secp256k1_ecdsa_signature_parse_der"],
      unwind=82, timeout=600, min_obl=40, replay=True, closed_by=UNW),
]

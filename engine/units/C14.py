from core import Unit as U
HASH = ["secp256k1_sha256_write", "secp256k1_sha256_finalize"]
XQ = ["secp256k1_ge_set_xquad"]
UNITS = [
    U("C14.codec", ["C14", "C07"], "harness/C14/codec.c", "h_codec", replace=XQ, assumed=XQ,
      functions=["secp256k1_ecdsa_adaptor_sig_deserialize", "secp256k1_ecdsa_adaptor_sig_serialize", "secp256k1_eckey_pubkey_parse", "secp256k1_ge_set_xo_var",
                 "secp256k1_scalar_set_b32", "secp256k1_scalar_set_b32_seckey", "secp256k1_eckey_pubkey_serialize33"],
      timeout=600, min_obl=2289, unwind=40, replay=False, note="all 162-byte strings x all output-pointer patterns"),
    U("C14.dleq_verify", ["C14"], "harness/C14/dleq_verify.c", "h_dleq_verify", replace=HASH + ["secp256k1_ecmult", "secp256k1_gej_add_var", "secp256k1_ge_set_all_gej_var"],
      assumed=["secp256k1_ecmult", "secp256k1_gej_add_var", "secp256k1_ge_set_all_gej_var"],
      functions=["secp256k1_dleq_verify", "secp256k1_dleq_challenge", "secp256k1_dleq_hash_point", "secp256k1_nonce_function_dleq_sha256_tagged", "secp256k1_scalar_negate", "secp256k1_scalar_add"],
      timeout=600, min_obl=3327, unwind=40, replay=False, note="the three multiplications by operand value in any order, infinity gate, challenge hash at STREAM level (kept for cost, audit #31), scalar comparison; points of magnitude <= 4/3"),
    U("C14.verify", ["C14", "C07"], "harness/C14/verify.c", "h_verify",
      # gej_eq_x_var / gej_add_var / ge_set_gej are not called by the unchanged code; they are listed so that an edit which routes the final
      # comparison through another group primitive stays decidable (oracle) and then fails "accepts only through the adaptor equation"
      replace=XQ + ["secp256k1_dleq_verify", "secp256k1_scalar_inverse_var", "secp256k1_scalar_mul", "secp256k1_ecmult", "secp256k1_gej_add_ge_var", "secp256k1_gej_eq_x_var", "secp256k1_gej_add_var", "secp256k1_ge_set_gej"],
      assumed=XQ + ["secp256k1_scalar_inverse_var", "secp256k1_scalar_mul", "secp256k1_ecmult", "secp256k1_gej_add_ge_var"],
      functions=["secp256k1_ecdsa_adaptor_verify", "secp256k1_ecdsa_adaptor_sig_deserialize", "secp256k1_pubkey_load", "secp256k1_gej_neg", "secp256k1_scalar_set_b32"],
      timeout=600, min_obl=3615, unwind=40, replay=False, note="all 162-byte strings, messages, key objects; dleq_verify replaced by its verdict summary (gate proved in C14.dleq_verify)"),
    U("C14.decrypt", ["C14", "C07"], "harness/C14/decrec.c", "h_decrypt", replace=["secp256k1_scalar_inverse", "secp256k1_scalar_mul"], assumed=["secp256k1_scalar_inverse", "secp256k1_scalar_mul"],
      functions=["secp256k1_ecdsa_adaptor_decrypt", "secp256k1_ecdsa_adaptor_sig_deserialize", "secp256k1_scalar_is_high", "secp256k1_scalar_cond_negate", "secp256k1_ecdsa_signature_save", "secp256k1_memczero"],
      timeout=600, min_obl=2046, unwind=66, replay=False, note="all deckey / 162-byte strings; low-S for every input with real is_high/cond_negate around the inverse and product oracles"),
    U("C14.recover", ["C14", "C07"], "harness/C14/decrec.c", "h_recover",
      replace=["secp256k1_scalar_inverse", "secp256k1_scalar_mul", "secp256k1_ecmult_gen", "secp256k1_ge_set_gej"], assumed=["secp256k1_scalar_inverse", "secp256k1_scalar_mul", "secp256k1_ecmult_gen", "secp256k1_ge_set_gej"],
      functions=["secp256k1_ecdsa_adaptor_recover", "secp256k1_ecdsa_adaptor_sig_deserialize", "secp256k1_ecdsa_signature_load", "secp256k1_scalar_eq", "secp256k1_eckey_pubkey_serialize33", "secp256k1_pubkey_load"],
      timeout=600, min_obl=3100, unwind=66, replay=False, note="all signature objects with scalars < n, 162-byte strings, key objects"),
    U("C14.encrypt", ["C14"], "harness/C14/encrypt.c", "h_encrypt",
      replace=HASH + ["secp256k1_dleq_prove", "secp256k1_ecmult_const", "secp256k1_ecmult_gen", "secp256k1_ge_set_all_gej", "secp256k1_scalar_inverse", "secp256k1_scalar_mul"],
      assumed=["secp256k1_dleq_prove", "secp256k1_ecmult_const", "secp256k1_ecmult_gen", "secp256k1_ge_set_all_gej", "secp256k1_scalar_inverse", "secp256k1_scalar_mul"],
      functions=["secp256k1_ecdsa_adaptor_encrypt", "secp256k1_ecdsa_adaptor_sig_serialize", "nonce_function_ecdsa_adaptor_impl", "secp256k1_scalar_set_b32_seckey", "secp256k1_scalar_cmov", "secp256k1_memczero"],
      timeout=900, min_obl=3822, unwind=164, replay=False, note="failure zeroing and s' wiring; default or stubbed nonce function; dleq_prove is an oracle here"),
]

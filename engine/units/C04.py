from core import Unit as U
SK = "harness/C04/seckey.c"
UNITS = [
    U("C04.seckey_verify", ["C04"], SK, "h_seckey_verify", defs=["U_SECKEY_VERIFY"], functions=["secp256k1_ec_seckey_verify", "secp256k1_scalar_set_b32_seckey"],
      timeout=300, min_obl=5, replay=True, note="ret = (0 < key < n) for all 2^256 keys; NULL => illegal"),
    U("C04.seckey_negate", ["C04"], SK, "h_seckey_negate", defs=["U_SECKEY_NEGATE"], functions=["secp256k1_ec_seckey_negate", "secp256k1_scalar_negate", "secp256k1_scalar_cmov", "secp256k1_scalar_get_b32"],
      timeout=300, min_obl=5, replay=True, note="all 2^256 keys against the 320-bit spec"),
    U("C04.seckey_tweak_add", ["C04"], SK, "h_seckey_tweak_add", defs=["U_SECKEY_TWEAK_ADD"],
      functions=["secp256k1_ec_seckey_tweak_add", "secp256k1_ec_seckey_tweak_add_helper", "secp256k1_eckey_privkey_tweak_add", "secp256k1_scalar_add", "secp256k1_scalar_set_b32", "secp256k1_scalar_get_b32"],
      timeout=600, min_obl=5, replay=True, note="all 2^512 (key, tweak) pairs against the 320-bit spec"),
]

from core import Unit as U
CODEC = "harness/C16/codec.c"
VER = "harness/C16/verify.c"
VER_REPL = ["secp256k1_whitelist_compute_keys_and_message", "secp256k1_borromean_verify"]
VER_FUNCS = ["secp256k1_whitelist_verify", "secp256k1_scalar_set_b32", "secp256k1_scalar_is_zero"]
# loop contract of the scalar loop of whitelist_verify (engine-supplied, no /repo edit).  The ghost names are
# harness globals: a ring position, whether the scalar at that position is zero / >= n, and its parsed value.
WL_VERIFY_LOOP = {"secp256k1_whitelist_verify": {"for (i = 0; i < sig->n_keys; i++)": {
    "invariants": "i <= sig->n_keys && (verif_wl_bad ==> i <= verif_wl_gi) && (verif_wl_gi < i ==> (s[verif_wl_gi].d[0] == verif_wl_sx.d[0] && s[verif_wl_gi].d[1] == verif_wl_sx.d[1] && s[verif_wl_gi].d[2] == verif_wl_sx.d[2] && s[verif_wl_gi].d[3] == verif_wl_sx.d[3]))",
    "decreases": "sig->n_keys - i"}}}
UNITS = [
    U("C16.sig_parse", ["C16", "C07"], CODEC, "h_wl_parse", replace=["memcpy"], defs=["EL_CONTENT"],
      functions=["secp256k1_whitelist_signature_parse", "secp256k1_whitelist_signature_n_keys"], timeout=600, min_obl=20, unwind=10,
      note="all byte strings of length <= 9000; memcpy replaced by the bounds + ghost-index contract (DESIGN 2.4)"),
    U("C16.sig_serialize", ["C16", "C07"], CODEC, "h_wl_serialize", replace=["memcpy"], defs=["EL_CONTENT"],
      functions=["secp256k1_whitelist_signature_serialize"], timeout=600, min_obl=20, unwind=10,
      note="every valid object (n_keys <= 255) and every capacity <= 9000"),
    U("C16.sig_roundtrip", ["C16"], CODEC, "h_wl_roundtrip", replace=["memcpy"],
      functions=["secp256k1_whitelist_signature_parse", "secp256k1_whitelist_signature_serialize"], timeout=900, min_obl=20, unwind=10,
      note="serialize(parse(b)) == b for every accepted b (ghost byte index)"),
    U("C16.verify_gate_b15", ["C16", "C07"], VER, "h_wl_verify", replace=VER_REPL, assumed=["secp256k1_borromean_verify"], defs=["EL_BOUND=15"],
      functions=VER_FUNCS, timeout=900, min_obl=30, unwind=34, bounded="n_keys<=15",
      note="scalar loop unwound for signatures of at most 15 keys: gives a concrete counterexample (ring position, bytes) when a gate is broken"),
    U("C16.verify_gate", ["C16", "C07"], VER, "h_wl_verify", replace=VER_REPL, assumed=["secp256k1_borromean_verify"],
      loop_contracts=WL_VERIFY_LOOP, functions=VER_FUNCS, timeout=1800, min_obl=30, unwind=34, tier="thorough",
      closed_by="loop contract on the scalar loop (engine-supplied, no /repo edit): invariant with ghost ring position, decreases clause; be256 spec loop unwound",
      note="all n_keys 0..255 and any caller count; includes the obligation 'C16 whitelist_verify.nonempty'"),
]

from core import Unit as U
CODEC = "harness/C16/codec.c"
VER = "harness/C16/verify.c"
VER_REPL = ["secp256k1_whitelist_compute_keys_and_message", "secp256k1_borromean_verify"]
VER_FUNCS = ["secp256k1_whitelist_verify", "secp256k1_scalar_set_b32", "secp256k1_scalar_is_zero"]
# loop contract of the scalar loop of whitelist_verify (engine-supplied, no /repo edit).  The ghost names are
# harness globals: a ring position, whether the scalar at that position is zero / >= n, and its parsed value.
WL_VERIFY_LOOP = {"secp256k1_whitelist_verify": {"for (i = 0; i < sig->n_keys; i++)": {
    "assigns": "i, __CPROVER_object_whole(s)",
    "invariants": "i <= sig->n_keys && (verif_wl_bad ==> i <= verif_wl_gi) && (verif_wl_gi < i ==> (s[verif_wl_gi].d[0] == verif_wl_sx.d[0] && s[verif_wl_gi].d[1] == verif_wl_sx.d[1] && s[verif_wl_gi].d[2] == verif_wl_sx.d[2] && s[verif_wl_gi].d[3] == verif_wl_sx.d[3]))",
    "decreases": "sig->n_keys - i"}}}
KM = "harness/C16/keys_msg.c"
KM_REPL = ["secp256k1_sha256_write", "secp256k1_sha256_finalize", "secp256k1_gej_add_ge_var", "secp256k1_whitelist_tweak_pubkey"]
KM_FUNCS = ["secp256k1_whitelist_compute_keys_and_message", "secp256k1_pubkey_load", "secp256k1_eckey_pubkey_serialize33", "secp256k1_gej_set_ge"]
KM_LOOP = {"secp256k1_whitelist_compute_keys_and_message": {"for (i = 0; i < n_keys; i++)": {
    "assigns": "i, __CPROVER_object_whole(c), sha, __CPROVER_object_whole(keys), g_h_fresh, g_w_hit, g_w_byte, g_w_started, g_w_s0, g_w_s7, g_w_b0, g_illegal",
    "invariants": "0 <= i && i <= n_keys && 0 <= g_illegal && g_illegal <= 2 * i + 1 && sha.bytes == 33 + 66 * (unsigned long)i && g_fin_n == 0 && g_h_fresh == 0 && g_w_started == 1 && g_w_b0 == 0 && g_w_s0 == 0x6a09e667 && g_w_s7 == 0x5be0cd19 && (g_wpos < sha.bytes ==> (g_w_hit == 1 && g_w_byte == verif_wl_expect)) && (g_wpos >= sha.bytes ==> g_w_hit == 0)",
    "decreases": "n_keys - i"}}}
UNITS = [
    U("C16.sig_parse", ["C16", "C07"], CODEC, "h_wl_parse", assumed=["memcpy"], replace=["memcpy"], defs=["EL_MEMCPY_FAST"],
      functions=["secp256k1_whitelist_signature_parse", "secp256k1_whitelist_signature_n_keys"], timeout=600, min_obl=169, unwind=10,
      note="all byte strings of length <= 9000; memcpy replaced by the bounds + destination-relative watch contract"),
    U("C16.sig_parse_link", ["C16"], CODEC, "h_wl_parse", assumed=["memcpy"], replace=["memcpy"], defs=["EL_MEMCPY_FAST", "EL_CONTENT"],
      functions=["secp256k1_whitelist_signature_parse", "secp256k1_whitelist_signature_n_keys"], tier="thorough", timeout=1800, min_obl=169, unwind=10,
      note="all byte strings of length <= 9000; as sig_parse plus the REPRESENTATION LINK payload byte k -> data[k] that the verify/sign units (reading scalars from the object) rest on"),
    U("C16.sig_serialize", ["C16", "C07"], CODEC, "h_wl_serialize", assumed=["memcpy"], replace=["memcpy"], defs=["EL_MEMCPY_FAST"],
      functions=["secp256k1_whitelist_signature_serialize"], timeout=600, min_obl=168, unwind=10,
      note="every valid object (n_keys <= 255) and every capacity <= 9000"),
    U("C16.sig_roundtrip", ["C16"], CODEC, "h_wl_roundtrip", defs=["EL_MEMCPY_FAST"], assumed=["memcpy"], replace=["memcpy"],
      functions=["secp256k1_whitelist_signature_parse", "secp256k1_whitelist_signature_serialize"], timeout=900, min_obl=221, unwind=10,
      note="serialize(parse(b)) == b for every accepted b (ghost byte index)"),
    U("C16.keys_msg", ["C16", "C07"], KM, "h_wl_keys_msg", replace=KM_REPL, assumed=KM_REPL,
      loop_contracts=KM_LOOP, functions=KM_FUNCS, timeout=1800, min_obl=1575, unwind=34, tier="thorough",
      closed_by="loop contract over the key list (engine-supplied, no /repo edit): stream length 33 + 66 i and the watched stream byte as invariant, decreases clause",
      note="every list length 0..255; stream-level hash contract (hash_log.h); a key object with x = 0 makes pubkey_load report illegal use (tolerated here, see keys_msg_b2)"),
    U("C16.keys_msg_b2", ["C16", "C07"], KM, "h_wl_keys_msg", replace=KM_REPL, assumed=KM_REPL,
      defs=["KM_MAX=2", "KM_VALID_ALL"], functions=KM_FUNCS, timeout=900, min_obl=1502, unwind=34, unwindset=["secp256k1_whitelist_compute_keys_and_message.0:4"], bounded="n_keys<=2",
      note="unwound list of at most 2 pairs with ALL key objects valid: additionally no callback"),
    U("C16.keys_wiring_b2", ["C16", "C07"], KM, "h_wl_keys_msg", replace=KM_REPL, assumed=KM_REPL,
      defs=["KM_MAX=2", "KM_WIRING"], functions=KM_FUNCS, timeout=900, min_obl=1502, unwind=34, unwindset=["secp256k1_whitelist_compute_keys_and_message.0:4"], bounded="n_keys<=2",
      note="unwound list of at most 2 pairs with ALL key objects valid: ring key i = online_i + tweak(offline_i + W): operands of the two oracle additions and of the tweak by value, destination keys[i]"),
    U("C16.sign_key_gate", ["C16"], "harness/C16/tweaked_privkey.c", "h_wl_tweaked_privkey",
      replace=["secp256k1_ecmult_gen", "secp256k1_whitelist_hash_pubkey", "secp256k1_scalar_mul"],
      assumed=["secp256k1_ecmult_gen", "secp256k1_whitelist_hash_pubkey", "secp256k1_scalar_mul"],
      functions=["secp256k1_whitelist_compute_tweaked_privkey", "secp256k1_scalar_set_b32", "secp256k1_scalar_add", "secp256k1_scalar_is_zero"], timeout=600, min_obl=842, unwind=34,
      note="the signing-key computation of whitelist_sign for all (online, summed) 32-byte keys"),
    U("C16.sign_gate", ["C16"], "harness/C16/sign.c", "h_wl_sign",
      replace=["secp256k1_whitelist_compute_keys_and_message", "secp256k1_whitelist_compute_tweaked_privkey", "nonce_function_rfc6979", "secp256k1_borromean_sign"],
      assumed=["secp256k1_whitelist_compute_keys_and_message", "secp256k1_whitelist_compute_tweaked_privkey", "nonce_function_rfc6979", "secp256k1_borromean_sign"], bounded="signing path: n_keys<=1, <=4 nonce-function calls",
      unwindset=["secp256k1_whitelist_sign.0:3", "secp256k1_whitelist_sign.1:6"],
      functions=["secp256k1_whitelist_sign"], timeout=1800, min_obl=856, unwind=34, tier="thorough",
      note="argument gates for every n_keys and index; signing path bounded (the nonce retry loop has a `continue`: no CBMC loop contract); the signing-key gate itself is C16.sign_key_gate"),
    # the whitelist verifier's ring gates (s = 0, key at infinity at EVERY ring position) live in secp256k1_borromean_verify, which
    # the verify-gate units replace by an oracle: this is the rangeproof engineer's bounded unit C10.borromean_r1 (harness/C10/borromean.c,
    # single ring of 1..4 members - the whitelist/surjection call shape) listed under C16/C11 as well, so that `./check C16` sees a defect
    # such as seeded/C16-2 (infinity test on pubs[i] instead of pubs[count]).  compute_keys_and_message has NO infinity gate of its own.
    U("C16.borromean_ring_gates_r1", ["C16", "C11"], "harness/C10/borromean.c", "h_borromean_verify", defs=["MAXRINGS=1"],
      assumed=["secp256k1_ecmult", "secp256k1_ge_set_gej_var", "secp256k1_sha256_write", "secp256k1_sha256_finalize"], functions=["secp256k1_borromean_verify", "secp256k1_borromean_hash", "secp256k1_eckey_pubkey_serialize33"],
      timeout=900, min_obl=100, unwind=34, unwindset=["secp256k1_borromean_verify.0:5", "secp256k1_borromean_verify.1:2"],
      bounded="one ring of <= 4 members", note="same harness and settings as C10.borromean_r1 (owned by the rangeproof engineer); ring sizes up to 255/256 are NOT covered"),
    U("C16.verify_nonempty", ["C16"], "harness/C16/nonempty.c", "h_wl_nonempty", replace=VER_REPL, assumed=VER_REPL,
      functions=["secp256k1_whitelist_verify"], timeout=600, min_obl=541, unwind=34, replay=True,
      closed_by="n_keys = 0 makes the scalar loop run 0 times on every path that reaches it (unwinding assertion)",
      note="finding F1: passes since /repo commit 07da080; native replay constructs the forged e0 = SHA256(SHA256(ser33(W))) and runs the real function"),
    U("C16.verify_gate_b8", ["C16", "C07"], VER, "h_wl_verify", replace=VER_REPL, assumed=VER_REPL, defs=["EL_BOUND=8"],
      functions=VER_FUNCS, timeout=900, min_obl=565, unwind=34, bounded="n_keys<=8",
      note="scalar loop unwound for signatures of at most 8 keys: gives a concrete counterexample (ring position, bytes) when a gate is broken"),
    U("C16.verify_gate", ["C16", "C07"], VER, "h_wl_verify", replace=VER_REPL, assumed=VER_REPL,
      loop_contracts=WL_VERIFY_LOOP, functions=VER_FUNCS, timeout=1800, min_obl=602, unwind=34, tier="thorough",
      closed_by="loop contract on the scalar loop (engine-supplied, no /repo edit): invariant with ghost ring position, decreases clause; be256 spec loop unwound",
      note="all n_keys 0..255 and any caller count; includes the obligation 'C16 whitelist_verify.nonempty'"),
]

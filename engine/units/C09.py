from core import Unit as U
UNITS = []
for k in (5,18):
    UNITS.append(U("C09.proveparams_e%d" % k, ["C09"], "harness/C09/proveparams.c", "h_proveparams", verify=True, defs=["EXPCASE=%d" % k],
      functions=["secp256k1_range_proveparams", "secp256k1_clz64_var"], timeout=400, min_obl=20, unwind=66))

from core import Unit as U
# EVERY callee that is not the real body (audit2 #11): genrand and pub_expand by DFCC contract, the others by call-site stubs
SORACLES = ["secp256k1_rangeproof_genrand", "secp256k1_rangeproof_pub_expand", "secp256k1_pedersen_ecmult", "secp256k1_ge_set_gej_var",
            "secp256k1_fe_impl_is_square_var", "secp256k1_borromean_sign", "secp256k1_sha256_write", "secp256k1_sha256_finalize",
            "secp256k1_scalar_get_b32", "memcpy"]
SLOOPS = ["secp256k1_range_proveparams.0:20", "secp256k1_range_proveparams.1:20", "secp256k1_range_proveparams.2:33",
          "secp256k1_rangeproof_sign_impl.2:33", "secp256k1_rangeproof_sign_impl.3:5", "secp256k1_rangeproof_sign_impl.4:33",
          "secp256k1_rangeproof_sign_impl.5:129", "secp256k1_clz64_var.0:65"]
SFUNCS = ["secp256k1_rangeproof_sign_impl", "secp256k1_range_proveparams", "secp256k1_rangeproof_serialize_point", "secp256k1_rangeproof_max_size"]
SLOOPS_B = ["secp256k1_range_proveparams.0:20", "secp256k1_range_proveparams.1:20", "secp256k1_range_proveparams.2:3",
            "secp256k1_rangeproof_sign_impl.2:3", "secp256k1_rangeproof_sign_impl.3:5", "secp256k1_rangeproof_sign_impl.4:3",
            "secp256k1_rangeproof_sign_impl.5:9", "secp256k1_clz64_var.0:65"]
CLOSED = "full unwinding to the code-enforced constants (exp <= 18, 32 rings, 128 ring members, clz <= 64); unwinding assertions prove the bounds"
UNITS = [
    U("C09.proveparams", ["C09"], "harness/C09/proveparams.c", "h_proveparams",
      functions=["secp256k1_range_proveparams", "secp256k1_clz64_var"], timeout=900, min_obl=300, unwind=66, replay=True, solver="cadical",
      closed_by="full unwinding to the code-enforced constants (exp <= 18, rings <= 32, clz <= 64); unwinding assertions prove the bounds",
      note="pure 64-bit function; all (value, min_value, exp in [-1,18], min_bits in [0,64]) with min_value <= value; built without -DVERIFY (see harness comment); product/quotient relations (no 64-bit overflow of v*10^exp, range below 2^64) are NOT in this unit"),
    U("C09.sign_gates_m4", ["C09", "C08"], "harness/C09/sign_impl.c", "h_sign_gates", defs=["MAXMAN=4"],
      replace=["secp256k1_rangeproof_pub_expand", "secp256k1_rangeproof_genrand"], assumed=SORACLES, functions=SFUNCS,
      timeout=900, min_obl=300, unwind=34, unwindset=SLOOPS_B, bounded="value - min_value < 16 and min_bits <= 4 (2 rings, 8 ring members)",
      note="bounded quick stand-in of C09.sign_gates"),
# UNREGISTERED (did not complete on the unchanged tree: 32-ring unwinding, cbmc rc=6 (memory); kept as text for a later attempt)
#     U("C09.sign_gates", ["C09", "C08"], "harness/C09/sign_impl.c", "h_sign_gates",
#       replace=["secp256k1_rangeproof_pub_expand", "secp256k1_rangeproof_genrand"], assumed=SORACLES, functions=SFUNCS,
#       timeout=2400, min_obl=300, unwind=34, unwindset=SLOOPS, closed_by=CLOSED, tier="thorough",
#       note="every (value, min_value, exp, min_bits, blind, message length <= 10000, buffer size <= 6000)"),
]
UNITS.append(U("C09.sign_header_m4", ["C09"], "harness/C09/sign_impl.c", "h_sign_header", defs=["MAXMAN=4"],
      replace=["secp256k1_rangeproof_pub_expand", "secp256k1_rangeproof_genrand"], assumed=SORACLES, functions=SFUNCS + ["secp256k1_rangeproof_getheader_impl"],
      timeout=900, min_obl=300, unwind=34, unwindset=SLOOPS_B, solver="cadical", bounded="value - min_value < 16 and min_bits <= 4",
      note="header round trip sign_impl -> real getheader_impl (bytes captured when the random stream is seeded), bounded stand-in"))
# UNREGISTERED (did not complete on the unchanged tree: 32-ring unwinding, cbmc rc=6 (memory); kept as text for a later attempt)
# UNITS.append(U("C09.sign_header", ["C09"], "harness/C09/sign_impl.c", "h_sign_header",
#       replace=["secp256k1_rangeproof_pub_expand", "secp256k1_rangeproof_genrand"], assumed=SORACLES, functions=SFUNCS + ["secp256k1_rangeproof_getheader_impl"],
#       timeout=5400, min_obl=300, unwind=34, unwindset=SLOOPS, solver="cadical", tier="thorough", mem_gb=16,
#       note="header round trip for all parameters; NOT COMPLETED at authoring time: the product/quotient relations behind 'getheader accepts' and min' <= value <= max' are beyond the SAT back end (see C09 claim text)"))
# UNREGISTERED (retried with MiniSat, object_bits=10, slice_formula=True: cbmc timeout after 3600 s at 10.7 GB; needs loop contracts on the three ring loops of sign_impl)
# UNITS.append(U("C09.sign_gates", ["C09", "C08"], "harness/C09/sign_impl.c", "h_sign_gates",
#       replace=["secp256k1_rangeproof_pub_expand", "secp256k1_rangeproof_genrand"], assumed=SORACLES, functions=SFUNCS,
#       timeout=3600, min_obl=300, unwind=34, unwindset=SLOOPS, closed_by=CLOSED, tier="thorough", slice_formula=True, object_bits=10,
#       note="every (value, min_value, exp, min_bits, blind, message length <= 10000, buffer size <= 6000); MiniSat, 10 object bits, formula slicing"))

from core import Unit as U
UNITS = [
    U("C09.proveparams", ["C09"], "harness/C09/proveparams.c", "h_proveparams",
      functions=["secp256k1_range_proveparams", "secp256k1_clz64_var"], timeout=600, min_obl=20, unwind=66, replay=True, solver="cadical",
      closed_by="full unwinding to the code-enforced constants (exp <= 18, rings <= 32, clz <= 64); unwinding assertions prove the bounds",
      note="pure 64-bit function; all (value, min_value, exp in [-1,18], min_bits in [0,64]) with min_value <= value"),
]

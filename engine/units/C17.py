from core import Unit as U
HASH = ["secp256k1_sha256_write", "secp256k1_sha256_finalize", "secp256k1_schnorrsig_sha256_tagged_aggregation"]
UNITS = [
    U("C17.aggverify", ["C17"], "harness/C17/aggverify.c", "h_aggverify",
      replace=HASH + ["secp256k1_ge_set_xo_var", "secp256k1_schnorrsig_challenge", "secp256k1_ecmult", "secp256k1_ecmult_gen", "secp256k1_gej_add_ge_var", "secp256k1_gej_add_var"],
      assumed=["secp256k1_ge_set_xo_var", "secp256k1_ecmult", "secp256k1_ecmult_gen", "secp256k1_gej_add_ge_var", "secp256k1_gej_add_var"],
      functions=["secp256k1_schnorrsig_aggverify", "secp256k1_xonly_pubkey_load", "secp256k1_fe_set_b32_limit", "secp256k1_fe_get_b32", "secp256k1_scalar_set_b32",
                 "secp256k1_gej_set_ge", "secp256k1_gej_neg", "secp256k1_gej_is_infinity"],
      loops=True, unwind=66, timeout=900, min_obl=100, replay=False, solver="cadical", closed_by="loop contract (hooks/C17_halfagg_loops.diff)",
      note="n unbounded (<= 2^40 only so that object sizes fit); needs hooks/C17_halfagg_loops.diff in /repo"),
    U("C17.inc_aggregate", ["C17"], "harness/C17/inc_aggregate.c", "h_inc_aggregate",
      replace=HASH + ["secp256k1_scalar_mul"], assumed=["secp256k1_scalar_mul"],
      functions=["secp256k1_schnorrsig_inc_aggregate", "secp256k1_schnorrsig_aggregate", "secp256k1_xonly_pubkey_serialize", "secp256k1_scalar_set_b32", "secp256k1_scalar_add", "secp256k1_scalar_get_b32"],
      loops=True, unwind=66, timeout=900, min_obl=100, replay=False, solver="cadical", closed_by="loop contracts (hooks/C17_halfagg_loops.diff)",
      note="n_before, n_new unbounded (<= 2^40 each only so that object sizes fit); needs hooks/C17_halfagg_loops.diff in /repo"),
]

from core import Unit as U
HASH = ["secp256k1_sha256_write", "secp256k1_sha256_finalize", "secp256k1_schnorrsig_sha256_tagged_aggregation"]
GUARD = ["secp256k1_ge_set_gej", "secp256k1_ge_set_gej_var", "secp256k1_gej_eq_x_var", "secp256k1_scalar_inverse", "secp256k1_scalar_inverse_var"]   # not called by the present code: a change that starts calling them meets the frame-only oracle contract (contracts/assumed.h) instead of a field inversion body (which would only time out)
UNITS = [
    U("C17.aggverify_b2", ["C17"], "harness/C17/aggverify.c", "h_aggverify", defs=["C17_NBOUND=2"], bounded="n<=2",
      replace=HASH + ["secp256k1_ge_set_xo_var", "secp256k1_schnorrsig_challenge", "secp256k1_ecmult", "secp256k1_ecmult_gen", "secp256k1_gej_add_ge_var", "secp256k1_gej_add_var"] + GUARD,
      assumed=["secp256k1_ge_set_xo_var", "secp256k1_ecmult", "secp256k1_ecmult_gen", "secp256k1_gej_add_ge_var", "secp256k1_gej_add_var"],
      functions=["secp256k1_schnorrsig_aggverify"], unwind=66, unwindset=["secp256k1_schnorrsig_aggverify.0:3"], timeout=900, min_obl=3500, replay=False, solver="cadical", slice_formula=True,
      note="bounded stand-in of C17.aggverify: same harness and contracts, loop unwound for n <= 2 (works on /repo without the loop-contract hook)"),
    U("C17.aggverify_b3", ["C17"], "harness/C17/aggverify.c", "h_aggverify", defs=["C17_NBOUND=3"], bounded="n<=3",
      replace=HASH + ["secp256k1_ge_set_xo_var", "secp256k1_schnorrsig_challenge", "secp256k1_ecmult", "secp256k1_ecmult_gen", "secp256k1_gej_add_ge_var", "secp256k1_gej_add_var"] + GUARD,
      assumed=["secp256k1_ge_set_xo_var", "secp256k1_ecmult", "secp256k1_ecmult_gen", "secp256k1_gej_add_ge_var", "secp256k1_gej_add_var"],
      functions=["secp256k1_schnorrsig_aggverify"], unwind=66, unwindset=["secp256k1_schnorrsig_aggverify.0:4"], timeout=1800, tier="thorough", min_obl=3500, replay=False, solver="cadical", slice_formula=True,
      note="bounded stand-in of C17.aggverify: same harness and contracts, loop unwound for n <= 3 (works on /repo without the loop-contract hook)"),
    U("C17.inc_aggregate_b2", ["C17"], "harness/C17/inc_aggregate.c", "h_inc_aggregate", defs=["C17_NBOUND=2"], bounded="n_before+n_new<=2",
      replace=HASH + ["secp256k1_scalar_mul"], assumed=["secp256k1_scalar_mul"],
      functions=["secp256k1_schnorrsig_inc_aggregate", "secp256k1_schnorrsig_aggregate"], unwind=66,
      unwindset=["secp256k1_schnorrsig_inc_aggregate.0:3", "secp256k1_schnorrsig_inc_aggregate.1:3", "secp256k1_schnorrsig_inc_aggregate.2:3"], timeout=900, min_obl=1800, replay=False, solver="cadical", slice_formula=True,
      note="bounded stand-in of C17.inc_aggregate: same harness and contracts, loops unwound for n_before + n_new <= 2 (fixed-capacity objects)"),
    U("C17.inc_aggregate_b3", ["C17"], "harness/C17/inc_aggregate.c", "h_inc_aggregate", defs=["C17_NBOUND=3"], bounded="n_before+n_new<=3",
      replace=HASH + ["secp256k1_scalar_mul"], assumed=["secp256k1_scalar_mul"],
      functions=["secp256k1_schnorrsig_inc_aggregate", "secp256k1_schnorrsig_aggregate"], unwind=66,
      unwindset=["secp256k1_schnorrsig_inc_aggregate.0:4", "secp256k1_schnorrsig_inc_aggregate.1:4", "secp256k1_schnorrsig_inc_aggregate.2:4"], timeout=1200, tier="thorough", min_obl=100, replay=False, solver="cadical", slice_formula=True,
      note="bounded stand-in of C17.inc_aggregate: same harness and contracts, loops unwound for n_before + n_new <= 3 (fixed-capacity objects)"),
    U("C17.aggverify_early", ["C17"], "harness/C17/aggverify.c", "h_aggverify", defs=["C17_EARLY"],
      replace=HASH + ["secp256k1_ge_set_xo_var", "secp256k1_schnorrsig_challenge", "secp256k1_ecmult", "secp256k1_ecmult_gen", "secp256k1_gej_add_ge_var", "secp256k1_gej_add_var"],
      functions=["secp256k1_schnorrsig_aggverify"], unwind=66, unwindset=["secp256k1_schnorrsig_aggverify.0:1"], timeout=600, min_obl=2300, replay=False, solver="cadical", slice_formula=True,
      note="length / NULL gates for EVERY n and every length (exact-size objects): inputs restricted to those the specification rejects before the loop; entering the loop fails the unwinding assertion"),
    U("C17.inc_aggregate_early", ["C17"], "harness/C17/inc_aggregate.c", "h_inc_aggregate", defs=["C17_EARLY"],
      replace=HASH + ["secp256k1_scalar_mul"],
      functions=["secp256k1_schnorrsig_inc_aggregate", "secp256k1_schnorrsig_aggregate"], unwind=66,
      unwindset=["secp256k1_schnorrsig_inc_aggregate.0:1", "secp256k1_schnorrsig_inc_aggregate.1:1", "secp256k1_schnorrsig_inc_aggregate.2:1"], timeout=600, min_obl=100, replay=False, solver="cadical", slice_formula=True,
      note="count-overflow / NULL / buffer-too-small gates for EVERY n_before, n_new, length (exact-size objects): inputs restricted to those the specification rejects before the first loop; entering a loop fails the unwinding assertion"),
    U("C17.aggverify_loop", ["C17"], "harness/C17/aggverify.c", "h_aggverify", defs=["C17_LOOP"],
      replace=HASH + ["secp256k1_ge_set_xo_var", "secp256k1_schnorrsig_challenge", "secp256k1_ecmult", "secp256k1_ecmult_gen", "secp256k1_gej_add_ge_var", "secp256k1_gej_add_var"] + GUARD,
      assumed=["secp256k1_ge_set_xo_var", "secp256k1_ecmult", "secp256k1_ecmult_gen", "secp256k1_gej_add_ge_var", "secp256k1_gej_add_var"],
      functions=["secp256k1_schnorrsig_aggverify"],
      loop_contracts={"secp256k1_schnorrsig_aggverify": {"for (i = 0; i < n; ++i)": {
          "assigns": "i, rhs, hash, g_illegal, g_error, verif_c17_whit, verif_c17_bad, c17_fin_hit, __CPROVER_object_whole(c17_dig), c17_xo_hit, c17_xo_rej, c17_xo_anyrej, c17_ch_hit, c17_e, "
                     "c17_em_e_hit, c17_em_z_hit, c17_eP, c17_zT, c17_zT_kind, c17_T_hit, c17_T, c17_cmp_hit, c17_cmp_inf, c17_acc_z, c17_acc_plain",
          "invariants": "i <= n && g_illegal == 0 && g_error == 0 && hash.bytes == 64 + 96 * (unsigned long)i && verif_c17_bad == 0 && c17_xo_rej == 0 && c17_xo_anyrej == 0 && c17_cmp_hit == 0 && "
                        "((verif_c17_wpos >= 64 && verif_c17_wpos < 64 + 96 * (unsigned long)i) ==> verif_c17_whit != 0) && "
                        "(verif_c17_gk < i ==> (c17_r_ok != 0 && c17_xo_hit != 0 && c17_ch_hit != 0 && c17_fin_hit != 0 && "
                        "(c17_pk_canon != 0 ==> (c17_em_e_hit != 0 && c17_T_hit != 0 && (verif_c17_gk != 0 ? (c17_em_z_hit != 0 && c17_acc_z != 0) : c17_acc_plain != 0)))))",
          "decreases": "n - i"}}},
      unwind=66, timeout=3600, tier="thorough", min_obl=2400, replay=False, slice_formula=True, object_bits=10,   # MiniSat: CaDiCaL exhausts 33 GB on this instance, MiniSat needs 1 GB / 12 s
      closed_by="loop contract over the n signatures (engine-supplied, no /repo edit): invariant = stream length, no wrong byte / rejected lift so far, and 'watched index < i => its hit flags are set'",
      note="n symbolic <= 2^20, exact-size objects; the invariant is specific to the code's form (T_0 enters the sum unmultiplied)"),
    U("C17.inc_aggregate_loop", ["C17"], "harness/C17/inc_aggregate.c", "h_inc_aggregate", defs=["C17_LOOP"],
      replace=HASH + ["secp256k1_scalar_mul"], assumed=["secp256k1_scalar_mul"],
      functions=["secp256k1_schnorrsig_inc_aggregate", "secp256k1_schnorrsig_aggregate"],
      loop_contracts={"secp256k1_schnorrsig_inc_aggregate": {
          "for (i = 0; i < n_before; ++i)": {"assigns": "i, hash, g_illegal, g_error, verif_c17_whit, verif_c17_bad",
              "invariants": "i <= n_before && g_illegal == 0 && g_error == 0 && hash.bytes == 64 + 96 * (unsigned long)i && verif_c17_bad == 0 && ((verif_c17_wpos >= 64 && verif_c17_wpos < 64 + 96 * (unsigned long)i) ==> verif_c17_whit != 0)", "decreases": "n_before - i"},
          7: {"assigns": "i, hash, s, g_illegal, g_error, verif_c17_whit, verif_c17_bad, c17_fin_hit, __CPROVER_object_whole(c17_dig), c17_mul_hit, c17_mul_one_hit",
              "invariants": "n_before <= i && i <= n && g_illegal == 0 && g_error == 0 && hash.bytes == 64 + 96 * (unsigned long)i && verif_c17_bad == 0 && ((verif_c17_wpos >= 64 && verif_c17_wpos < 64 + 96 * (unsigned long)i) ==> verif_c17_whit != 0) && "
                            "((verif_c17_gk < i - n_before) ==> (c17_fin_hit != 0 && ((n_before != 0 || verif_c17_gk != 0) ==> c17_mul_hit != 0)))", "decreases": "n - i"},
          8: {"assigns": "i, __CPROVER_object_whole(aggsig)",
              "invariants": "n_before <= i && i <= n && (verif_c17_gb < 32 * i ==> aggsig[verif_c17_gb] == verif_c17_gb_exp)", "decreases": "n - i"}}},
      unwind=66, timeout=3600, tier="thorough", min_obl=2400, replay=False, slice_formula=True, object_bits=10,
      closed_by="loop contracts on the three loops (engine-supplied, no /repo edit; loops 7/8 = the two 'for (i = n_before; i < n; ++i)' loops in source order)",
      note="n_before, n_new symbolic <= 2^20 each, exact-size objects; MiniSat"),
]

# History: the first loop-contract attempt (sticky order flags, CaDiCaL, --object-bits 12, no slicing) ran out of memory; what closed it:
# value-keyed hit flags with "watched index < i => hits set" invariants, explicit loop assigns clauses naming the ghost variables,
# expression-only helper functions inside contract clauses, --slice-formula, --object-bits 10 and MiniSat (CaDiCaL exhausts 33 GB on
# the same instance that MiniSat solves in 12 s / 1 GB).

from core import Unit as U
UNITS = [
    U("C13.psign", ["C13", "C12"], "harness/C13/psign.c", "h_psign",
      replace=["secp256k1_scalar_mul", "secp256k1_musig_keyaggcoef"],
      assumed=["secp256k1_scalar_mul", "secp256k1_musig_keyaggcoef"],
      functions=["secp256k1_musig_partial_sign", "secp256k1_musig_secnonce_load", "secp256k1_keypair_load",
                 "secp256k1_keyagg_cache_load", "secp256k1_musig_session_load", "secp256k1_musig_partial_sig_save",
                 "secp256k1_memzero_explicit", "secp256k1_fe_equal", "secp256k1_ge_from_bytes"],
      timeout=600, min_obl=500, replay=True,
      note="harness-enforced API contract over NULL/non-NULL x arbitrary bytes of all five arguments"),
]

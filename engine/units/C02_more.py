from core import Unit as U
HASH = ["secp256k1_sha256_write", "secp256k1_sha256_finalize"]
UNITS = [
    U("C02.midstates", ["C02", "C12", "C14", "C15", "C17", "C18", "C19"], "harness/C02/midstates.c", "h_midstates",
      functions=["secp256k1_sha256_initialize_tagged", "secp256k1_sha256_write", "secp256k1_sha256_finalize", "secp256k1_sha256_transform_impl",
                 "secp256k1_nonce_function_bip340_sha256_tagged", "secp256k1_nonce_function_bip340_sha256_tagged_aux", "secp256k1_schnorrsig_sha256_tagged",
                 "secp256k1_schnorrsig_sha256_tagged_aggregation"],
      timeout=600, min_obl=15, unwind=66, replay=True,
      note="18 tagged midstates + ZERO_MASK evaluated concretely through the real SHA-256 code"),
]

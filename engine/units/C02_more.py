from core import Unit as U
HASH = ["secp256k1_sha256_write", "secp256k1_sha256_finalize"]
UNITS = [
    U("C02.midstates", ["C02", "C12", "C14", "C15", "C17", "C18", "C19"], "harness/C02/midstates.c", "h_midstates",
      functions=["secp256k1_sha256_initialize_tagged", "secp256k1_sha256_write", "secp256k1_sha256_finalize", "secp256k1_sha256_transform_impl",
                 "secp256k1_nonce_function_bip340_sha256_tagged", "secp256k1_nonce_function_bip340_sha256_tagged_aux", "secp256k1_schnorrsig_sha256_tagged",
                 "secp256k1_schnorrsig_sha256_tagged_aggregation"],
      timeout=600, min_obl=15, unwind=66, replay=True,
      note="18 tagged midstates + ZERO_MASK evaluated concretely through the real SHA-256 code"),
    U("C02.nonce", ["C02"], "harness/C02/nonce.c", "h_nonce", replace=HASH,
      functions=["nonce_function_bip340_impl", "secp256k1_nonce_function_bip340_sha256_tagged", "secp256k1_nonce_function_bip340_sha256_tagged_aux",
                 "secp256k1_sha256_initialize_tagged", "secp256k1_memcmp_var"],
      timeout=600, min_obl=20, unwind=66,
      note="hash stream contracts (hash_log.h + second finalize watch, ghost-only extension in assumed_C02.h); msglen <= 100000, algolen <= 200 symbolic"),
    U("C02.verify", ["C02"], "harness/C02/verify.c", "h_verify",
      replace=["secp256k1_ecmult", "secp256k1_ge_set_gej_var", "secp256k1_schnorrsig_challenge"],
      assumed=["secp256k1_ecmult", "secp256k1_ge_set_gej_var"],
      functions=["secp256k1_schnorrsig_verify", "secp256k1_fe_set_b32_limit", "secp256k1_scalar_set_b32", "secp256k1_xonly_pubkey_load", "secp256k1_pubkey_load",
                 "secp256k1_fe_get_b32", "secp256k1_scalar_negate", "secp256k1_gej_set_ge", "secp256k1_fe_normalize_var", "secp256k1_fe_equal"],
      timeout=600, min_obl=100, unwind=66, replay=False,
      note="challenge replaced by its ghost-logging contract (body proved in C02.challenge)"),
]

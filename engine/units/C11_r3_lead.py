from core import Unit as U
# Round-3 (lead): quick-tier copy of the generate gate unit on a smaller bound, so that the accept-side clause
# ("generation with the matching blinding keys yields a proof ... all blinding keys including 0": a refusal has a
# documented cause) is checked on every change.  Added after seeded change C11-2 (generate switched to
# scalar_set_b32_seckey, refusing an all-zero blinding key) passed the quick tier unnoticed.
CB = "secp256k1_count_bits_set"
REPL = [CB, "secp256k1_surjection_compute_public_keys", "secp256k1_surjection_genmessage", "secp256k1_surjection_genrand", "secp256k1_borromean_sign"]
UNITS = [
    U("C11.generate_gate_b2", ["C11"], "harness/C11/generate.c", "h_sjp_generate", bounded="n_inputs<=2, n_tags<=6", defs=["GB=2"],
      replace=REPL, assumed=REPL,
      unwindset=["secp256k1_surjectionproof_generate.0:8", "secp256k1_surjectionproof_generate.1:4"],
      functions=["secp256k1_surjectionproof_generate", "secp256k1_scalar_set_b32", "secp256k1_scalar_negate", "secp256k1_scalar_add", "secp256k1_scalar_get_b32", "secp256k1_memcmp_var"],
      timeout=900, min_obl=700, unwind=66, tier="quick",
      note="same harness as C11.generate_gate_b8 with at most 2 inputs / 6 tags: refusal gates, refusal ONLY for a documented cause (a zero blinding key is accepted), wiring of the ring signature"),
]

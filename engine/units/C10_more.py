from core import Unit as U
HASH = ["secp256k1_sha256_write", "secp256k1_sha256_finalize"]
# EVERY callee that is not the real body in these units (audit2 #11): oracles as call-site stubs (assumed_rangeproof.h part B),
# the hash_log.h stream contracts transliterated as stubs, the byte readers (real function at the watched position only),
# the gej_set_ge frame stub, and pub_expand (DFCC contract; its body is only checked by BOUNDED units so far)
VORACLES = ["secp256k1_ge_set_xquad", "secp256k1_fe_impl_is_square_var", "secp256k1_gej_add_ge_var",
            "secp256k1_pedersen_ecmult_small", "secp256k1_borromean_verify",
            "secp256k1_sha256_write", "secp256k1_sha256_finalize", "secp256k1_scalar_set_b32", "secp256k1_fe_impl_set_b32_limit",
            "secp256k1_gej_set_ge", "secp256k1_rangeproof_pub_expand"]
VFUNCS = ["secp256k1_rangeproof_verify_impl", "secp256k1_rangeproof_getheader_impl", "secp256k1_ge_neg", "secp256k1_gej_neg", "secp256k1_rangeproof_serialize_point"]
VLOOPS_B = ["secp256k1_rangeproof_verify_impl.0:3", "secp256k1_rangeproof_verify_impl.1:3", "secp256k1_rangeproof_verify_impl.2:3",
            "secp256k1_rangeproof_verify_impl.3:9"]
VLOOPS = ["secp256k1_rangeproof_verify_impl.0:33", "secp256k1_rangeproof_verify_impl.1:33", "secp256k1_rangeproof_verify_impl.2:33",
          "secp256k1_rangeproof_verify_impl.3:129"]
BORACLES = ["secp256k1_ecmult", "secp256k1_ge_set_gej_var", "secp256k1_sha256_write", "secp256k1_sha256_finalize"]   # call-site stubs
BFUNCS = ["secp256k1_borromean_verify", "secp256k1_borromean_hash", "secp256k1_eckey_pubkey_serialize33"]
UNITS = [
    U("C10.leaf_scalar_set_b32", ["C10", "C07"], "harness/C10/leaf.c", "h_leaf_scalar_set_b32", enforce=["secp256k1_scalar_set_b32"],
      timeout=300, min_obl=10, note="proved leaf contract: overflow = (be256 >= n), r = be256 mod n, frame = {r, overflow}"),
    U("C10.leaf_fe_set_b32_limit", ["C10", "C07"], "harness/C10/leaf.c", "h_leaf_fe_set_b32_limit", enforce=["secp256k1_fe_impl_set_b32_limit"],
      timeout=300, min_obl=10, note="proved leaf contract: ret = (be256 < p), r = be256 when ret, limbs in range always"),
    U("C10.verify_gates_m4", ["C10", "C07"], "harness/C10/verify_impl.c", "h_verify_gates", defs=["MAXMAN=4"],
      replace=["secp256k1_rangeproof_pub_expand"], assumed=VORACLES, functions=VFUNCS,
      timeout=900, min_obl=100, unwind=34, unwindset=VLOOPS_B, bounded="mantissa <= 4 (2 rings, 8 ring members)",
      note="bounded quick stand-in of C10.verify_gates: same harness, headers with mantissa > 4 assumed away"),
    U("C10.verify_binding_m4", ["C10"], "harness/C10/verify_impl.c", "h_verify_binding", defs=["MAXMAN=4"],
      replace=["secp256k1_rangeproof_pub_expand"], assumed=VORACLES, functions=VFUNCS,
      timeout=900, min_obl=100, unwind=34, unwindset=VLOOPS_B, bounded="mantissa <= 4 (2 rings, 8 ring members)",
      note="bounded quick stand-in of C10.verify_binding"),
# UNREGISTERED (did not complete on the unchanged tree: 32-ring unwinding exceeds time/memory; kept as text for a later attempt)
#     U("C10.verify_gates", ["C10", "C07"], "harness/C10/verify_impl.c", "h_verify_gates",
#       replace=["secp256k1_rangeproof_pub_expand"], assumed=VORACLES, functions=VFUNCS,
#       timeout=5400, min_obl=100, unwind=34, unwindset=VLOOPS, tier="thorough", mem_gb=16,
#       closed_by="full unwinding to the code-enforced constants (32 rings, 128 ring members); unwinding assertions prove the bounds",
#       note="nonce == NULL; all proof byte strings of length <= 6000; pub_expand by call-site contract; oracles and byte readers by call-site stubs (assumed_rangeproof.h part B; readers proved in C10.leaf_*)"),
# UNREGISTERED (did not complete on the unchanged tree: 32-ring unwinding exceeds time/memory; kept as text for a later attempt)
#     U("C10.verify_binding", ["C10"], "harness/C10/verify_impl.c", "h_verify_binding",
#       replace=["secp256k1_rangeproof_pub_expand"], assumed=VORACLES, functions=VFUNCS,
#       timeout=5400, min_obl=100, unwind=34, unwindset=VLOOPS, tier="thorough", mem_gb=16,
#       closed_by="full unwinding to the code-enforced constants (32 rings, 128 ring members)",
#       note="hash stream contract: every position of the binding hash, every extra_commit length <= 100000"),
    U("C10.borromean_r1", ["C10", "C07"], "harness/C10/borromean.c", "h_borromean_verify", defs=["MAXRINGS=1"],
      assumed=BORACLES, functions=BFUNCS, timeout=900, min_obl=100, unwind=34, unwindset=["secp256k1_borromean_verify.0:5", "secp256k1_borromean_verify.1:2"],
      bounded="nrings = 1 (<= 4 ring members)", note="bounded quick stand-in of C10.borromean; ring sizes 1..4; calls identified by operand values / hash content"),
    U("C10.borromean_chain_r1", ["C10"], "harness/C10/borromean.c", "h_borromean_chain", defs=["MAXRINGS=1"],
      assumed=BORACLES, functions=BFUNCS, timeout=900, min_obl=100, unwind=34, unwindset=["secp256k1_borromean_verify.0:5", "secp256k1_borromean_verify.1:2"],
      bounded="nrings = 1 (<= 4 ring members)", note="e part of a later challenge hash = compressed R of the previous member (value chain ecmult -> ge_set_gej_var -> hash)"),
    U("C10.borromean_r2", ["C10", "C07"], "harness/C10/borromean.c", "h_borromean_verify", defs=["MAXRINGS=2"],
      assumed=BORACLES, functions=BFUNCS, timeout=1800, min_obl=100, unwind=34, unwindset=["secp256k1_borromean_verify.0:5", "secp256k1_borromean_verify.1:3"],
      bounded="nrings <= 2 (<= 8 ring members)", tier="thorough", note="bounded stand-in of C10.borromean (thorough tier)"),
# UNREGISTERED (did not complete on the unchanged tree: 32-ring unwinding exceeds time/memory; kept as text for a later attempt)
#     U("C10.borromean", ["C10", "C07"], "harness/C10/borromean.c", "h_borromean_verify",
#       assumed=BORACLES, functions=BFUNCS, timeout=5400, min_obl=100, unwind=34, unwindset=["secp256k1_borromean_verify.0:5", "secp256k1_borromean_verify.1:33", "h_borromean_verify.2:129"],
#       tier="thorough", mem_gb=16, closed_by="full unwinding to 32 rings x 4 members (the layouts the range-proof verifier produces)", note="NOT COMPLETED at authoring time (size)"),
]

from core import Unit as U
HASH = ["secp256k1_sha256_write", "secp256k1_sha256_finalize"]
VORACLES = ["secp256k1_ge_set_xquad", "secp256k1_fe_impl_is_square_var", "secp256k1_gej_add_ge_var",
            "secp256k1_pedersen_ecmult_small", "secp256k1_borromean_verify"]   # call-site stubs (assumed_rangeproof.h part B)
VLOOPS = ["secp256k1_rangeproof_verify_impl.0:33", "secp256k1_rangeproof_verify_impl.1:33", "secp256k1_rangeproof_verify_impl.2:33",
          "secp256k1_rangeproof_verify_impl.3:129"]
UNITS = [
    U("C10.leaf_scalar_set_b32", ["C10", "C07"], "harness/C10/leaf.c", "h_leaf_scalar_set_b32", enforce=["secp256k1_scalar_set_b32"],
      timeout=300, min_obl=10, note="proved leaf contract: overflow = (be256 >= n), r = be256 mod n, frame = {r, overflow}"),
    U("C10.leaf_fe_set_b32_limit", ["C10", "C07"], "harness/C10/leaf.c", "h_leaf_fe_set_b32_limit", enforce=["secp256k1_fe_impl_set_b32_limit"],
      timeout=300, min_obl=10, note="proved leaf contract: ret = (be256 < p), r = be256 when ret, limbs in range always"),
    U("C10.verify_gates", ["C10", "C07"], "harness/C10/verify_impl.c", "h_verify_gates",
      replace=["secp256k1_rangeproof_pub_expand"], assumed=VORACLES,
      functions=["secp256k1_rangeproof_verify_impl", "secp256k1_rangeproof_getheader_impl", "secp256k1_ge_neg", "secp256k1_gej_neg", "secp256k1_gej_set_ge"],
      timeout=2400, min_obl=100, unwind=34, unwindset=VLOOPS,
      closed_by="full unwinding to the code-enforced constants (32 rings, 128 ring members); unwinding assertions prove the bounds",
      note="nonce == NULL; all proof byte strings of length <= 6000; pub_expand by call-site contract; scalar/field byte readers by proved leaf contracts"),
    U("C10.verify_binding", ["C10"], "harness/C10/verify_impl.c", "h_verify_binding",
      replace=["secp256k1_rangeproof_pub_expand"], assumed=VORACLES,
      functions=["secp256k1_rangeproof_verify_impl", "secp256k1_rangeproof_serialize_point"],
      timeout=2400, min_obl=100, unwind=34, unwindset=VLOOPS,
      closed_by="full unwinding to the code-enforced constants (32 rings, 128 ring members)",
      note="hash stream contract: every position of the binding hash, every extra_commit length <= 100000"),
]

from core import Unit as U
HASH = ["secp256k1_sha256_write", "secp256k1_sha256_finalize"]
# EVERY callee that is not the real body in these units (audit2 #11): oracles as call-site stubs (assumed_rangeproof.h part B),
# the hash_log.h stream contracts transliterated as stubs, the byte readers (real function at the watched position only),
# the gej_set_ge frame stub, and pub_expand (DFCC contract; its body is only checked by BOUNDED units so far)
VORACLES = ["secp256k1_ge_set_xquad", "secp256k1_fe_impl_is_square_var", "secp256k1_gej_add_ge_var",
            "secp256k1_pedersen_ecmult_small", "secp256k1_borromean_verify",
            "secp256k1_sha256_write", "secp256k1_sha256_finalize", "secp256k1_scalar_set_b32", "secp256k1_fe_impl_set_b32_limit",
            "secp256k1_gej_set_ge", "secp256k1_rangeproof_pub_expand"]
VFUNCS = ["secp256k1_rangeproof_verify_impl", "secp256k1_rangeproof_getheader_impl", "secp256k1_ge_neg", "secp256k1_gej_neg", "secp256k1_rangeproof_serialize_point"]
VLOOPS_B = ["secp256k1_rangeproof_verify_impl.0:3", "secp256k1_rangeproof_verify_impl.1:3", "secp256k1_rangeproof_verify_impl.2:3",
            "secp256k1_rangeproof_verify_impl.3:9"]
VLOOPS = ["secp256k1_rangeproof_verify_impl.0:33", "secp256k1_rangeproof_verify_impl.1:33", "secp256k1_rangeproof_verify_impl.2:33",
          "secp256k1_rangeproof_verify_impl.3:129"]
BORACLES = ["secp256k1_ecmult", "secp256k1_ge_set_gej_var", "secp256k1_sha256_write", "secp256k1_sha256_finalize"]   # call-site stubs
BFUNCS = ["secp256k1_borromean_verify", "secp256k1_borromean_hash", "secp256k1_eckey_pubkey_serialize33"]
UNITS = [
    U("C10.leaf_scalar_set_b32", ["C10", "C07"], "harness/C10/leaf.c", "h_leaf_scalar_set_b32", enforce=["secp256k1_scalar_set_b32"],
      timeout=300, min_obl=10, note="proved leaf contract: overflow = (be256 >= n), r = be256 mod n, frame = {r, overflow}"),
    U("C10.leaf_fe_set_b32_limit", ["C10", "C07"], "harness/C10/leaf.c", "h_leaf_fe_set_b32_limit", enforce=["secp256k1_fe_impl_set_b32_limit"],
      timeout=300, min_obl=10, note="proved leaf contract: ret = (be256 < p), r = be256 when ret, limbs in range always"),
    U("C10.verify_gates_m4", ["C10", "C07"], "harness/C10/verify_impl.c", "h_verify_gates", defs=["MAXMAN=4"],
      replace=["secp256k1_rangeproof_pub_expand"], assumed=VORACLES, functions=VFUNCS,
      timeout=900, min_obl=100, unwind=34, unwindset=VLOOPS_B, bounded="mantissa <= 4 (2 rings, 8 ring members)",
      note="bounded quick stand-in of C10.verify_gates: same harness, headers with mantissa > 4 assumed away"),
    U("C10.verify_binding_m4", ["C10"], "harness/C10/verify_impl.c", "h_verify_binding", defs=["MAXMAN=4"],
      replace=["secp256k1_rangeproof_pub_expand"], assumed=VORACLES, functions=VFUNCS,
      timeout=900, min_obl=100, unwind=34, unwindset=VLOOPS_B, bounded="mantissa <= 4 (2 rings, 8 ring members)",
      note="bounded quick stand-in of C10.verify_binding"),
# UNREGISTERED (did not complete on the unchanged tree: 32-ring unwinding exceeds time/memory; kept as text for a later attempt)
#     U("C10.verify_gates", ["C10", "C07"], "harness/C10/verify_impl.c", "h_verify_gates",
#       replace=["secp256k1_rangeproof_pub_expand"], assumed=VORACLES, functions=VFUNCS,
#       timeout=5400, min_obl=100, unwind=34, unwindset=VLOOPS, tier="thorough", mem_gb=16,
#       closed_by="full unwinding to the code-enforced constants (32 rings, 128 ring members); unwinding assertions prove the bounds",
#       note="nonce == NULL; all proof byte strings of length <= 6000; pub_expand by call-site contract; oracles and byte readers by call-site stubs (assumed_rangeproof.h part B; readers proved in C10.leaf_*)"),
# UNREGISTERED (did not complete on the unchanged tree: 32-ring unwinding exceeds time/memory; kept as text for a later attempt)
#     U("C10.verify_binding", ["C10"], "harness/C10/verify_impl.c", "h_verify_binding",
#       replace=["secp256k1_rangeproof_pub_expand"], assumed=VORACLES, functions=VFUNCS,
#       timeout=5400, min_obl=100, unwind=34, unwindset=VLOOPS, tier="thorough", mem_gb=16,
#       closed_by="full unwinding to the code-enforced constants (32 rings, 128 ring members)",
#       note="hash stream contract: every position of the binding hash, every extra_commit length <= 100000"),
    U("C10.borromean_r1", ["C10", "C07"], "harness/C10/borromean.c", "h_borromean_verify", defs=["MAXRINGS=1"],
      assumed=BORACLES, functions=BFUNCS, timeout=900, min_obl=100, unwind=34, unwindset=["secp256k1_borromean_verify.0:5", "secp256k1_borromean_verify.1:2"],
      bounded="nrings = 1 (<= 4 ring members)", note="bounded quick stand-in of C10.borromean; ring sizes 1..4; calls identified by operand values / hash content"),
    U("C10.borromean_chain_r1", ["C10"], "harness/C10/borromean.c", "h_borromean_chain", defs=["MAXRINGS=1"],
      assumed=BORACLES, functions=BFUNCS, timeout=900, min_obl=100, unwind=34, unwindset=["secp256k1_borromean_verify.0:5", "secp256k1_borromean_verify.1:2"],
      bounded="nrings = 1 (<= 4 ring members)", note="e part of a later challenge hash = compressed R of the previous member (value chain ecmult -> ge_set_gej_var -> hash)"),
    U("C10.borromean_r2", ["C10", "C07"], "harness/C10/borromean.c", "h_borromean_verify", defs=["MAXRINGS=2"],
      assumed=BORACLES, functions=BFUNCS, timeout=1800, min_obl=100, unwind=34, unwindset=["secp256k1_borromean_verify.0:5", "secp256k1_borromean_verify.1:3"],
      bounded="nrings <= 2 (<= 8 ring members)", tier="thorough", note="bounded stand-in of C10.borromean (thorough tier)"),
# UNREGISTERED (did not complete on the unchanged tree: 32-ring unwinding exceeds time/memory; kept as text for a later attempt)
#     U("C10.borromean", ["C10", "C07"], "harness/C10/borromean.c", "h_borromean_verify",
#       assumed=BORACLES, functions=BFUNCS, timeout=5400, min_obl=100, unwind=34, unwindset=["secp256k1_borromean_verify.0:5", "secp256k1_borromean_verify.1:33", "h_borromean_verify.2:129"],
#       tier="thorough", mem_gb=16, closed_by="full unwinding to 32 rings x 4 members (the layouts the range-proof verifier produces)", note="NOT COMPLETED at authoring time (size)"),
]

# ---- verify_impl for EVERY header: digit loop and ring-scalar loop closed by loop contracts (engine-supplied, no /repo edit) ----
ACCJ_OK = "accj.x.n[0] <= 36028797018963960ul && accj.x.n[1] <= 36028797018963960ul && accj.x.n[2] <= 36028797018963960ul && accj.x.n[3] <= 36028797018963960ul && accj.x.n[4] <= 2251799813685240ul && accj.y.n[0] <= 36028797018963960ul && accj.y.n[1] <= 36028797018963960ul && accj.y.n[2] <= 36028797018963960ul && accj.y.n[3] <= 36028797018963960ul && accj.y.n[4] <= 2251799813685240ul && accj.z.n[0] <= 9007199254740990ul && accj.z.n[1] <= 9007199254740990ul && accj.z.n[2] <= 9007199254740990ul && accj.z.n[3] <= 9007199254740990ul && accj.z.n[4] <= 562949953421310ul && (accj.infinity == 0 || accj.infinity == 1)"
RPL_GHOSTS = "rpl_fl_hit, rpl_fl_now, rpl_fl_all, rpl_xq_hit, rpl_xq_v, rpl_xq_all, rpl_xq_r, rpl_ag_hit, rpl_ag_same, rpl_ag_negd, rpl_ag_last_inf, rpl_ag_last_is_commit"
VERIFY_LOOPS = {"secp256k1_rangeproof_verify_impl": {
    2: {"assigns": "i, offset, npub, accj, c, sha256_m, __CPROVER_object_whole(pubs), g_h_fresh, g_w_hit, g_w_byte, g_w_started, g_w_s0, g_w_s7, g_w_b0, " + RPL_GHOSTS,
        "invariants": "i <= rings - 1 && offset == __CPROVER_loop_entry(offset) + 32 * i && npub == 4 * i && sha256_m.bytes == __CPROVER_loop_entry(sha256_m.bytes) + 33 * i && " + ACCJ_OK + " && "
                      "rpl_fl_all == 1 && rpl_xq_all == 1 && "
                      "(g_rp_k >= i ==> (rpl_fl_hit == 0 && rpl_fl_now == 0 && rpl_xq_hit == 0 && rpl_ag_hit == 0)) && "
                      "(g_rp_k < i ==> (rpl_fl_hit == 1 && rpl_fl_wv == 1 && rpl_xq_hit == 1 && rpl_xq_v == 1 && rpl_ag_hit == 1 && (signs[g_rp_k] != 0 ? rpl_ag_negd != 0 : rpl_ag_same != 0)))",
        "decreases": "rings - 1 - i"},
    3: {"assigns": "i, offset, overflow, __CPROVER_object_whole(s), rpl_sb_hit, rpl_sb_any",
        "invariants": "i <= npub && offset == __CPROVER_loop_entry(offset) + 32 * i && rpl_sb_any == 0 && "
                      "(g_rp_k < i ==> (rpl_sb_hit == 1 && rpl_sb_wovf == 0 && s[g_rp_k].d[0] == rpl_sb_wr.d[0] && s[g_rp_k].d[1] == rpl_sb_wr.d[1] && s[g_rp_k].d[2] == rpl_sb_wr.d[2] && s[g_rp_k].d[3] == rpl_sb_wr.d[3]))",
        "decreases": "npub - i"}}}
UNITS.append(U("C10.verify_gates_all", ["C10", "C07"], "harness/C10/verify_loops.c", "h_verify_loops",
      replace=["secp256k1_rangeproof_pub_expand", "secp256k1_rangeproof_genrand", "secp256k1_rangeproof_ch32xor"],
      assumed=VORACLES + ["secp256k1_rangeproof_genrand", "secp256k1_rangeproof_ch32xor", "secp256k1_pedersen_ecmult", "secp256k1_scalar_mul", "secp256k1_scalar_inverse",
                          "secp256k1_scalar_clear", "secp256k1_memclear_explicit", "memset", "memcpy"],   # the last nine only occur in the rewind branch, dead with nonce == NULL; stubbed to keep goto-instrument's inlining small
      functions=VFUNCS, loop_contracts=VERIFY_LOOPS,
      timeout=3600, min_obl=100, unwind=34, unwindset=["secp256k1_rangeproof_verify_impl.0:33", "secp256k1_rangeproof_verify_impl.1:33"],
      tier="thorough", slice_formula=True, object_bits=10,
      closed_by="loop contracts on the digit loop and the ring-scalar loop (engine-supplied --loop-contracts-file, no /repo edit; invariants: offsets, representation range of the accumulator, "
                "'watched index < i => its range check, lift verdict and accumulation were seen and positive'); the ring-size and sign-bit loops are unwound to their code-enforced bound (32)",
      note="EVERY header (mantissa 0..64, 32 rings, 128 ring members), all proof byte strings of length <= 6000; MiniSat, 10 object bits, formula slicing"))

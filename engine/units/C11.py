from core import Unit as U
UNITS = [
    U("C11.parse", ["C11", "C07"], "harness/C11/parse.c", "h_sjp_parse", replace=["memcpy"],
      functions=["secp256k1_surjectionproof_parse", "secp256k1_count_bits_set"], timeout=600, min_obl=20, unwind=34,
      closed_by="full unwinding: bitmap is at most 32 bytes (n_inputs <= 256 is checked first); unwinding assertions prove the bound",
      note="accept set equals the canonical-encoding spec for all byte strings of length <= 9000; memcpy replaced by the bounds+ghost-index contract"),
]

from core import Unit as U
CB = "secp256k1_count_bits_set"
VER = "harness/C11/verify.c"
VER_REPL = [CB, "secp256k1_surjection_compute_public_keys", "secp256k1_surjection_genmessage", "secp256k1_borromean_verify"]
VER_FUNCS = ["secp256k1_surjectionproof_verify", "secp256k1_surjectionproof_n_used_inputs", "secp256k1_surjectionproof_n_total_inputs", "secp256k1_scalar_set_b32"]
SJ_VERIFY_LOOP = {"secp256k1_surjectionproof_verify": {"for (i = 0; i < n_used_pubkeys; i++)": {
    "assigns": "i, __CPROVER_object_whole(borromean_s)",
    "invariants": "i <= n_used_pubkeys && (verif_sj_bad ==> i <= verif_sj_gi) && (verif_sj_gi < i ==> (borromean_s[verif_sj_gi].d[0] == verif_sj_sx.d[0] && borromean_s[verif_sj_gi].d[1] == verif_sj_sx.d[1] && borromean_s[verif_sj_gi].d[2] == verif_sj_sx.d[2] && borromean_s[verif_sj_gi].d[3] == verif_sj_sx.d[3]))",
    "decreases": "n_used_pubkeys - i"}}}
def _limbs(a, b, fes):
    return " && ".join("%s.%s.n[%d] == %s.%s.n[%d]" % (a, f, k, b, f, k) for f in fes for k in range(5)) + " && %s.infinity == %s.infinity" % (a, b)
PK_WATCH = "(g_el_i < j ==> (g_aj_seen == 1 && pubkeys[g_el_i].x.n[0] == g_aj_r.x.n[0] && pubkeys[g_el_i].y.n[0] == g_aj_r.y.n[0]))"
def pk_loop(ring):
    return {"secp256k1_surjection_compute_public_keys": {"for (i = 0; i < n_input_tags; i++)": {
        "assigns": "i, j, __CPROVER_object_whole(pubkeys), " + ("*ring_input_index, " if ring else "") + "g_aj_n, g_aj_roff, g_aj_a, g_aj_r, g_aj_b, g_aj_seen",
        "invariants": "i <= n_input_tags && j == verif_sj_rank[i] && g_aj_n == j && j <= n_pubkeys && " + PK_WATCH + " && (g_el_i >= j ==> g_aj_seen == 0)"
            + (" && ((input_index < i && ((used_tags[input_index / 8] >> (input_index % 8)) & 1)) ==> *ring_input_index == verif_sj_rank[input_index])" if ring else ""),
        "decreases": "n_input_tags - i"}}}
HASH = ["secp256k1_sha256_write", "secp256k1_sha256_finalize"]
GM_LOOP = {"secp256k1_surjection_genmessage": {"for (i = 0; i < n_input_tags; i++)": {
    "assigns": "i, __CPROVER_object_whole(pk_ser), sha256_en, g_h_fresh, g_w_hit, g_w_byte, g_w_started, g_w_s0, g_w_s7, g_w_b0",
    "invariants": "i <= n_input_tags && sha256_en.bytes == 33 * (unsigned long)i && g_fin_n == 0 && (i == 0 ==> (g_h_fresh == 1 && g_w_started == 0 && g_w_hit == 0 && sha256_en.s[0] == 0x6a09e667 && sha256_en.s[7] == 0x5be0cd19)) && (i > 0 ==> (g_h_fresh == 0 && g_w_started == 1 && g_w_b0 == 0 && g_w_s0 == 0x6a09e667 && g_w_s7 == 0x5be0cd19)) && (g_wpos < sha256_en.bytes ==> (g_w_hit == 1 && g_w_byte == verif_sj_expect)) && (g_wpos >= sha256_en.bytes ==> g_w_hit == 0)",
    "decreases": "n_input_tags - i"}}}
UNITS = [
    U("C11.parse", ["C11", "C07"], "harness/C11/parse.c", "h_sjp_parse", defs=["EL_MEMCPY_FAST"], assumed=["memcpy", CB], replace=["memcpy", CB],
      functions=["secp256k1_surjectionproof_parse"], timeout=900, min_obl=252, unwind=34,
      closed_by="no loop left in the function under contract (count_bits_set replaced by its proved contract); spec loops unwound",
      note="accept set equals the canonical-encoding spec for all byte strings of length <= 9000; memcpy replaced by the bounds + destination-relative watch contract"),
    U("C11.parse_content", ["C11"], "harness/C11/parse.c", "h_sjp_parse", assumed=["memcpy", CB], replace=["memcpy", CB], defs=["EL_MEMCPY_FAST", "EL_CONTENT"], tier="thorough",
      functions=["secp256k1_surjectionproof_parse"], timeout=3600, min_obl=230, unwind=34,
      note="as C11.parse plus the REPRESENTATION LINK (wire byte k of bitmap / signature -> used_inputs[k] / data[k]) that the verify/generate units, which read e0 and scalars from the object, rest on"),
    U("C11.count_bits", ["C11", "C07"], "harness/C11/count_bits.c", "h_count_bits", enforce=[CB], tier="thorough", solver="cadical",
      functions=[CB], timeout=1800, min_obl=40, unwind=34,
      closed_by="full unwinding: count <= 32 (callers pass ceil(n_inputs/8), n_inputs <= 256)",
      note="population-count equivalence is a hard SAT instance (140-220 s)"),
    U("C11.serialize", ["C11", "C07"], "harness/C11/serialize.c", "h_sjp_serialize", defs=["EL_MEMCPY_FAST"], assumed=["memcpy", CB], replace=["memcpy", CB],
      functions=["secp256k1_surjectionproof_serialize", "secp256k1_surjectionproof_serialized_size", "secp256k1_surjectionproof_n_total_inputs", "secp256k1_surjectionproof_n_used_inputs"],
      timeout=900, min_obl=251, unwind=34, note="every valid proof object and every capacity <= 9000"),
    U("C11.roundtrip", ["C11"], "harness/C11/serialize.c", "h_sjp_roundtrip", assumed=["memcpy", CB], replace=["memcpy", CB], defs=["EL_MEMCPY_FAST", "EL_MEMCPY_EXACT32"], tier="thorough",
      functions=["secp256k1_surjectionproof_parse", "secp256k1_surjectionproof_serialize"], timeout=7200, min_obl=314, unwind=34,
      note="serialize(parse(b)) == b for every accepted b of length <= 9000 (1070 s measured)"),
    U("C11.compute_pubkeys_noring", ["C11", "C07"], "harness/C11/pubkeys.c", "h_sjp_pubkeys", replace=["secp256k1_gej_add_ge_var"], assumed=["secp256k1_gej_add_ge_var"],
      loop_contracts=pk_loop(False), functions=["secp256k1_surjection_compute_public_keys", "secp256k1_generator_load", "secp256k1_ge_neg", "secp256k1_gej_set_ge"],
      timeout=7200, min_obl=847, unwind=258, tier="thorough", closed_by="loop contract over the n tags (engine-supplied, no /repo edit)",
      note="the verifier's call: ring_input_index = NULL"),
    U("C11.compute_pubkeys", ["C11", "C07"], "harness/C11/pubkeys.c", "h_sjp_pubkeys", replace=["secp256k1_gej_add_ge_var"], assumed=["secp256k1_gej_add_ge_var"], defs=["PK_RING"],
      loop_contracts=pk_loop(True), functions=["secp256k1_surjection_compute_public_keys", "secp256k1_generator_load", "secp256k1_ge_neg", "secp256k1_gej_set_ge"],
      timeout=7200, min_obl=895, unwind=258, tier="thorough",
      closed_by="loop contract over the n tags (engine-supplied, no /repo edit): ring position = prefix bit count (harness table), decreases clause; harness table loops unwound",
      note="every n <= 256, every padding-free bitmap; pubkeys is an exact-size heap object so any write beyond n_used is a bounds violation"),
    U("C11.genmessage", ["C11", "C07"], "harness/C11/genmessage.c", "h_sjp_genmessage", replace=HASH, assumed=HASH,
      loop_contracts=GM_LOOP, functions=["secp256k1_surjection_genmessage"], timeout=1800, min_obl=1600, unwind=34,
      closed_by="loop contract over the n tags (engine-supplied, no /repo edit): stream length 33 i and the watched stream byte as invariant, decreases clause",
      note="every list length 0..256; stream-level hash contract (hash_log.h)"),
    U("C11.generate_gate_b8", ["C11"], "harness/C11/generate.c", "h_sjp_generate", bounded="n_inputs<=8, n_tags<=12",
      replace=[CB, "secp256k1_surjection_compute_public_keys", "secp256k1_surjection_genmessage", "secp256k1_surjection_genrand", "secp256k1_borromean_sign"],
      assumed=[CB, "secp256k1_surjection_compute_public_keys", "secp256k1_surjection_genmessage", "secp256k1_surjection_genrand", "secp256k1_borromean_sign"],
      unwindset=["secp256k1_surjectionproof_generate.0:14", "secp256k1_surjectionproof_generate.1:10"],
      functions=["secp256k1_surjectionproof_generate", "secp256k1_scalar_set_b32", "secp256k1_scalar_negate", "secp256k1_scalar_add", "secp256k1_scalar_get_b32", "secp256k1_memcmp_var"],
      timeout=1800, min_obl=1166, unwind=66, tier="thorough",
      note="gates and wiring of proof generation with the tag scan and the scalar write-back loop unwound"),
    U("C11.verify_gate_b8", ["C11", "C07"], VER, "h_sjp_verify", replace=VER_REPL, assumed=VER_REPL, defs=["EL_BOUND=8"],
      functions=VER_FUNCS, timeout=900, min_obl=679, unwind=34, bounded="n_inputs<=8",
      note="scalar loop unwound for proofs over at most 8 inputs: concrete counterexample (ring position, bytes) when a gate is broken"),
    U("C11.verify_gate", ["C11", "C07"], VER, "h_sjp_verify", replace=VER_REPL, assumed=VER_REPL,
      loop_contracts=SJ_VERIFY_LOOP, functions=VER_FUNCS, timeout=1800, min_obl=671, unwind=34, tier="thorough",
      closed_by="loop contract on the scalar loop (engine-supplied, no /repo edit): invariant with ghost ring position, decreases clause",
      note="every valid proof object (n_inputs <= 256, up to 256 used inputs) and any tag count"),
]

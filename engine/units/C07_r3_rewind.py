from core import Unit as U
# r3: the rewind path of the range-proof verifier, modular (contracts/assumed_r3_rewind.h; harnesses harness/C07/r3_*.c)
H = "harness/C07/r3_rewind.c"
# callees of rewind_inner that are not their real bodies in C07.r3_rewind_inner
RI_STUBS = ["secp256k1_scalar_mul", "secp256k1_scalar_inverse", "memcpy", "memset", "secp256k1_scalar_clear", "secp256k1_memclear_explicit"]
MSG_FRAME = "__CPROVER_object_upto(m, *mlen)"
RI_LOOPS = {"secp256k1_rangeproof_rewind_inner": {
    "for (i = 0; i < rings; i++) {": {
        "assigns": "i, j, b, npub, offset, stmp, __CPROVER_object_whole(tmp), " + MSG_FRAME,
        "invariants": "i <= rings && npub <= 4 * i && offset <= *mlen",
        "decreases": "rings - i"},
    "for (j = 0; j < rsizes[i]; j++) {": {
        "assigns": "j, b, npub, offset, stmp, __CPROVER_object_whole(tmp), " + MSG_FRAME,
        "invariants": "j <= rsizes[i] && npub == __CPROVER_loop_entry(npub) + j && offset <= *mlen",
        "decreases": "rsizes[i] - j"},
    "for (b = 0; b < 32 && offset < *mlen; b++)": {
        "assigns": "b, offset, " + MSG_FRAME,
        "invariants": "0 <= b && b <= 32 && offset <= *mlen",
        "decreases": "32 - b"}}}
W = "secp256k1_rangeproof_rewind_inner_wrapped_for_contract_checking"   # DFCC's name for the enforced body
def RI_UNWIND(r):   # loops of rewind_inner: .0 value bytes (8), .1 candidates (2), .2 message bytes (32), .3 ring members (<= 4), .4 rings, .5/.6 wipes (128/32)
    return [W + ".0:9", W + ".1:3", W + ".2:33", W + ".3:5", W + ".4:%d" % (r + 1), W + ".5:129", W + ".6:33"]
_ALL = [
    U("C07.r3_rewind_inner_r2", ["C07", "C09", "C10"], H, "h_rewind_inner", defs=["R3_UNIT_REWIND_INNER", "R3_MAXRINGS=2"],
      enforce=["secp256k1_rangeproof_rewind_inner"], replace=["secp256k1_rangeproof_genrand", "secp256k1_rangeproof_ch32xor"],
      assumed=RI_STUBS + ["secp256k1_rangeproof_genrand", "secp256k1_rangeproof_ch32xor"],
      functions=["secp256k1_rangeproof_rewind_inner", "secp256k1_rangeproof_recover_x", "secp256k1_rangeproof_recover_k"],
      unwind=34, unwindset=RI_UNWIND(2), timeout=1500, min_obl=100, tier="thorough", bounded="rings <= 2 (<= 8 ring members, message <= 192 bytes of a buffer of any length <= 5000)",
      note="contract of rewind_inner (frame {*blind,*v,*mlen,m[0..*mlen)}, *mlen' <= *mlen, seed arguments) ENFORCED on the real body: ring sizes 1..4, exact-size "
           "s/ev/rsizes/proof/message heap objects, every *mlen <= 5000, every NULL/non-NULL m, mlen; genrand and ch32xor by contract. "
           "UNBOUNDED formulations tried and undecided: (1) loop contracts on the three nested message loops (engine-supplied): goto-instrument 6.11 does not finish "
           "'Wrapping ... in CHECK mode' within 600 s / 3.5 GB as soon as ONE loop of the enforced function carries a contract; (2) full unwinding to 32 rings x 4 x 32 bytes: "
           "symex alone exceeds 900 s"),
    U("C07.r3_rewind_inner_r1", ["C07", "C09", "C10"], H, "h_rewind_inner", defs=["R3_UNIT_REWIND_INNER", "R3_MAXRINGS=1", "R3_MAXM=200"],
      enforce=["secp256k1_rangeproof_rewind_inner"], replace=["secp256k1_rangeproof_genrand", "secp256k1_rangeproof_ch32xor"],
      assumed=RI_STUBS + ["secp256k1_rangeproof_genrand", "secp256k1_rangeproof_ch32xor"],
      functions=["secp256k1_rangeproof_rewind_inner", "secp256k1_rangeproof_recover_x", "secp256k1_rangeproof_recover_k"],
      unwind=34, unwindset=RI_UNWIND(1), timeout=420, min_obl=100, tier="thorough", slice_formula=True, object_bits=10,
      bounded="rings = 1 (<= 4 ring members), message buffer <= 200 bytes",
      note="smallest bounded stand-in of the rewind_inner contract enforcement"),
]

# lead: C07.r3_rewind_inner_r2 is UNDECIDED (cbmc exceeds 12 GB during propositional reduction after 754 s) -> not registered; r1 (one ring) passes and is a bounded stand-in.
UNITS = [u for u in _ALL if u.name != "C07.r3_rewind_inner_r2"]

from core import Unit as U
PARSE = "harness/C08/parse.c"
UNITS = [
    U("C08.commitment_parse", ["C08", "C07"], PARSE, "h_commit_parse", replace=["secp256k1_ge_x_on_curve_var"], assumed=["secp256k1_ge_x_on_curve_var"],
      functions=["secp256k1_pedersen_commitment_parse", "secp256k1_pedersen_commitment_serialize", "secp256k1_fe_set_b32_limit"], timeout=600, min_obl=20, unwind=34,
      note="all 33-byte strings; the curve-membership verdict is an oracle whose argument and answer are logged"),
    U("C08.generator_parse", ["C08", "C07"], PARSE, "h_gen_parse", replace=["secp256k1_ge_set_xquad", "secp256k1_fe_impl_is_square_var"],
      assumed=["secp256k1_ge_set_xquad", "secp256k1_fe_impl_is_square_var"],
      functions=["secp256k1_generator_parse", "secp256k1_generator_serialize", "secp256k1_generator_save", "secp256k1_generator_load", "secp256k1_ge_neg"], timeout=600, min_obl=20, unwind=34,
      note="all 33-byte strings; square root and quadratic-residue verdicts are oracles with logged arguments"),
    U("C08.generator_serialize", ["C08", "C07"], PARSE, "h_gen_serialize", replace=["secp256k1_fe_impl_is_square_var"], assumed=["secp256k1_fe_impl_is_square_var"],
      functions=["secp256k1_generator_serialize", "secp256k1_generator_load"], timeout=600, min_obl=20, unwind=34,
      note="every 64-byte generator object"),
    U("C08.commit_gate", ["C08"], "harness/C08/commit.c", "h_commit",
      replace=["secp256k1_pedersen_ecmult", "secp256k1_ge_set_gej", "secp256k1_fe_impl_is_square_var"],
      assumed=["secp256k1_pedersen_ecmult", "secp256k1_ge_set_gej", "secp256k1_fe_impl_is_square_var"],
      functions=["secp256k1_pedersen_commit", "secp256k1_generator_load", "secp256k1_pedersen_commitment_save", "secp256k1_scalar_set_b32"], timeout=600, min_obl=20, unwind=34,
      note="all (blind, value, generator object, NULL pattern); bG+vH is an oracle whose arguments and result are logged"),
    U("C08.blind_sum", ["C08"], "harness/C08/blind_sum.c", "h_blind_sum", bounded="n<=4",
      functions=["secp256k1_pedersen_blind_sum", "secp256k1_scalar_set_b32", "secp256k1_scalar_negate", "secp256k1_scalar_add", "secp256k1_scalar_get_b32"], timeout=900, min_obl=20, unwind=34,
      note="gates and value formula on lists of at most 4 blinding factors (pointer list: bounded stand-in)"),
]

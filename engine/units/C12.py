from core import Unit as U
HASH = ["secp256k1_sha256_write", "secp256k1_sha256_finalize"]
XQ = ["secp256k1_ge_set_xquad"]
ADAPT_FN = ["secp256k1_musig_adapt", "secp256k1_musig_extract_adaptor", "secp256k1_scalar_set_b32", "secp256k1_scalar_get_b32",
            "secp256k1_scalar_add", "secp256k1_scalar_negate"]
UNITS = [
    U("C12.adapt", ["C12"], "harness/C12/adapt.c", "h_adapt", functions=ADAPT_FN, timeout=300, min_obl=100, replay=False, unwind=34, solver="cadical",
      note="pure scalar arithmetic, no oracle: value-level contract of musig_adapt for all 2^512 (s,t), both parities, NULL/alias combinations"),
    U("C12.extract", ["C12"], "harness/C12/adapt.c", "h_extract", functions=ADAPT_FN, timeout=300, min_obl=100, replay=False, unwind=34, solver="cadical",
      note="pure scalar arithmetic, no oracle: value-level contract of musig_extract_adaptor for all inputs"),
    U("C12.tweak", ["C12"], "harness/C12/tweak.c", "h_tweak", replace=["secp256k1_ecmult", "secp256k1_ge_set_gej"], assumed=["secp256k1_ecmult", "secp256k1_ge_set_gej"],
      functions=["secp256k1_musig_pubkey_tweak_add_internal", "secp256k1_musig_pubkey_ec_tweak_add", "secp256k1_musig_pubkey_xonly_tweak_add", "secp256k1_keyagg_cache_load",
                 "secp256k1_keyagg_cache_save", "secp256k1_eckey_pubkey_tweak_add", "secp256k1_extrakeys_ge_even_y", "secp256k1_scalar_add", "secp256k1_scalar_negate"],
      timeout=600, min_obl=300, unwind=66, replay=False, solver="cadical",
      note="BIP-327 ApplyTweak bookkeeping for every cache content, tweak, plain/x-only"),
    U("C12.pubnonce_parse", ["C12", "C07"], "harness/C12/codecs.c", "h_pubnonce_parse", replace=XQ, assumed=XQ,
      functions=["secp256k1_musig_pubnonce_parse", "secp256k1_musig_pubnonce_serialize", "secp256k1_musig_pubnonce_save", "secp256k1_musig_pubnonce_load", "secp256k1_eckey_pubkey_parse", "secp256k1_ge_set_xo_var"],
      timeout=600, min_obl=300, unwind=68, replay=False, note="all 66-byte strings; accept set, infinity rejected, round trip"),
    U("C12.aggnonce_parse", ["C12", "C07"], "harness/C12/codecs.c", "h_aggnonce_parse", replace=XQ, assumed=XQ,
      functions=["secp256k1_musig_aggnonce_parse", "secp256k1_musig_aggnonce_serialize", "secp256k1_musig_aggnonce_save", "secp256k1_musig_aggnonce_load", "secp256k1_musig_ge_parse_ext",
                 "secp256k1_musig_ge_serialize_ext", "secp256k1_ge_to_bytes_ext", "secp256k1_ge_from_bytes_ext"],
      timeout=600, min_obl=300, unwind=68, replay=False, note="all 66-byte strings; infinity components accepted and round-tripped"),
    U("C12.nonce_serialize", ["C12", "C07"], "harness/C12/codecs.c", "h_nonce_serialize", functions=["secp256k1_musig_pubnonce_serialize", "secp256k1_musig_aggnonce_serialize"],
      timeout=600, min_obl=300, unwind=68, replay=False, note="arbitrary object bytes: wrong magic => illegal callback"),
    U("C12.partial_sig_codec", ["C12", "C07"], "harness/C12/codecs.c", "h_partial_sig_codec",
      functions=["secp256k1_musig_partial_sig_parse", "secp256k1_musig_partial_sig_serialize", "secp256k1_musig_partial_sig_save"],
      timeout=600, min_obl=100, unwind=40, replay=False, note="all 32-byte strings / arbitrary object bytes"),
    U("C12.cache_session_codec", ["C12"], "harness/C12/codecs.c", "h_cache_session_codec",
      functions=["secp256k1_keyagg_cache_load", "secp256k1_keyagg_cache_save", "secp256k1_musig_session_load", "secp256k1_musig_session_save"],
      timeout=600, min_obl=100, unwind=68, replay=False, note="static helpers: save(load(bytes)) == bytes on valid objects, magic gate"),
    U("C12.nonce_function", ["C12", "C13"], "harness/C12/nonce_function.c", "h_nonce_function", replace=HASH,
      functions=["secp256k1_nonce_function_musig", "secp256k1_nonce_function_musig_helper", "secp256k1_nonce_function_musig_sha256_tagged",
                 "secp256k1_nonce_function_musig_sha256_tagged_aux", "secp256k1_scalar_set_b32"],
      timeout=300, min_obl=20, unwind=34, replay=False,
      note="hash stream contracts (proved in C05.sha256_write/finalize) replace the SHA calls; every optional input present/absent; midstates: C02.midstates"),
]
for _n, _e, _t in (("C12.adapt_inverse_lemma_range", "h_inverse_lemma_range", "results < n"), ("C12.adapt_inverse_lemma_ea", "h_inverse_lemma_ea", "extract(adapt(s,t,par),s,par) == t"),
                   ("C12.adapt_inverse_lemma_ae", "h_inverse_lemma_ae", "adapt(s,extract(sig,s,par),par) == sig"),
                   ("C12.extract_form_lemma", "h_extract_form_lemma", "the sum form used in C12.extract equals the difference sig.s - pre.s / pre.s - sig.s")):
    UNITS.append(U(_n, ["C12"], "harness/C12/adapt.c", _e, functions=[], timeout=300, min_obl=1, replay=False, solver="cadical",
                   note="lemma over the value-level contracts of C12.adapt and C12.extract (320-bit arithmetic, all s,t < n, both parities): " + _t))

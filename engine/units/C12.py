from core import Unit as U
HASH = ["secp256k1_sha256_write", "secp256k1_sha256_finalize"]
ADAPT_FN = ["secp256k1_musig_adapt", "secp256k1_musig_extract_adaptor", "secp256k1_scalar_set_b32", "secp256k1_scalar_get_b32",
            "secp256k1_scalar_add", "secp256k1_scalar_negate"]
UNITS = [
    U("C12.adapt", ["C12"], "harness/C12/adapt.c", "h_adapt", functions=ADAPT_FN, timeout=300, min_obl=100, replay=False, unwind=34, solver="cadical",
      note="pure scalar arithmetic, no oracle: value-level contract of musig_adapt for all 2^512 (s,t), both parities, NULL/alias combinations"),
    U("C12.extract", ["C12"], "harness/C12/adapt.c", "h_extract", functions=ADAPT_FN, timeout=300, min_obl=100, replay=False, unwind=34, solver="cadical",
      note="pure scalar arithmetic, no oracle: value-level contract of musig_extract_adaptor for all inputs"),
]
for _n, _e, _t in (("C12.adapt_inverse_lemma_range", "h_inverse_lemma_range", "results < n"), ("C12.adapt_inverse_lemma_ea", "h_inverse_lemma_ea", "extract(adapt(s,t,par),s,par) == t"),
                   ("C12.adapt_inverse_lemma_ae", "h_inverse_lemma_ae", "adapt(s,extract(sig,s,par),par) == sig"),
                   ("C12.extract_form_lemma", "h_extract_form_lemma", "the sum form used in C12.extract equals the difference sig.s - pre.s / pre.s - sig.s")):
    UNITS.append(U(_n, ["C12"], "harness/C12/adapt.c", _e, functions=[], timeout=300, min_obl=1, replay=False, solver="cadical",
                   note="lemma over the value-level contracts of C12.adapt and C12.extract (320-bit arithmetic, all s,t < n, both parities): " + _t))

from core import Unit as U
HASH = ["secp256k1_sha256_write", "secp256k1_sha256_finalize"]
UNITS = [
    U("C12.adapt_extract", ["C12"], "harness/C12/adapt.c", "h_adapt_extract",
      functions=["secp256k1_musig_adapt", "secp256k1_musig_extract_adaptor", "secp256k1_scalar_set_b32", "secp256k1_scalar_get_b32",
                 "secp256k1_scalar_add", "secp256k1_scalar_negate"],
      timeout=600, min_obl=100, replay=False, unwind=34,
      note="pure scalar arithmetic, no oracle: extract(adapt(s,t,par),s,par) == t for all 2^512 (s,t), both parities, NULL/alias combinations"),
    U("C12.extract_adapt", ["C12"], "harness/C12/adapt.c", "h_extract_adapt",
      functions=["secp256k1_musig_adapt", "secp256k1_musig_extract_adaptor", "secp256k1_scalar_set_b32", "secp256k1_scalar_get_b32",
                 "secp256k1_scalar_add", "secp256k1_scalar_negate"],
      timeout=600, min_obl=100, replay=False, unwind=34,
      note="pure scalar arithmetic, no oracle: adapt(s, extract(sig,s,par), par) == sig for all inputs"),
]

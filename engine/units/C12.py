from core import Unit as U
HASH = ["secp256k1_sha256_write", "secp256k1_sha256_finalize"]
XQ = ["secp256k1_ge_set_xquad"]
# "session_i.s_part < n" written limb-wise (no function calls in loop invariants)
_S = "session_i.s_part.d"
SCALAR_LT_N = ("(%s[3] < 0xFFFFFFFFFFFFFFFFul || %s[2] < 0xFFFFFFFFFFFFFFFEul || (%s[2] == 0xFFFFFFFFFFFFFFFEul && (%s[1] < 0xBAAEDCE6AF48A03Bul || (%s[1] == 0xBAAEDCE6AF48A03Bul && %s[0] < 0xBFD25E8CD0364141ul))))" % ((_S,) * 6))
ADAPT_FN = ["secp256k1_musig_adapt", "secp256k1_musig_extract_adaptor", "secp256k1_scalar_set_b32", "secp256k1_scalar_get_b32",
            "secp256k1_scalar_add", "secp256k1_scalar_negate"]
# NOT LISTED (undecided at authoring time, see report): an unbounded-n variant of partial_sig_agg with engine-supplied loop contracts
# (harness entry h_psig_agg_gates in harness/C12/psig_agg.c).  The NULL-scan loop closes; the summation loop's step case needs
# "every entry is non-NULL" for the havocked index, which the ghost-index instantiation of the first loop does not provide.
UNITS = [
    U("C12.adapt", ["C12"], "harness/C12/adapt.c", "h_adapt", functions=ADAPT_FN, timeout=300, min_obl=590, replay=False, unwind=34, solver="cadical",
      note="pure scalar arithmetic, no oracle: value-level contract of musig_adapt for all 2^512 (s,t), both parities, NULL/alias combinations"),
    U("C12.extract", ["C12"], "harness/C12/adapt.c", "h_extract", functions=ADAPT_FN, timeout=300, min_obl=565, replay=False, unwind=34, solver="cadical",
      note="pure scalar arithmetic, no oracle: value-level contract of musig_extract_adaptor for all inputs"),
    U("C12.tweak", ["C12"], "harness/C12/tweak.c", "h_tweak", replace=["secp256k1_ecmult", "secp256k1_ge_set_gej"], assumed=["secp256k1_ecmult", "secp256k1_ge_set_gej"],
      functions=["secp256k1_musig_pubkey_tweak_add_internal", "secp256k1_musig_pubkey_ec_tweak_add", "secp256k1_musig_pubkey_xonly_tweak_add", "secp256k1_keyagg_cache_load",
                 "secp256k1_keyagg_cache_save", "secp256k1_eckey_pubkey_tweak_add", "secp256k1_extrakeys_ge_even_y", "secp256k1_scalar_add", "secp256k1_scalar_negate"],
      timeout=600, min_obl=1463, unwind=66, replay=False, solver="cadical",
      note="BIP-327 ApplyTweak bookkeeping for every cache content, tweak, plain/x-only"),
    U("C12.pubnonce_parse", ["C12", "C07"], "harness/C12/codecs.c", "h_pubnonce_parse", replace=XQ, assumed=XQ,
      functions=["secp256k1_musig_pubnonce_parse", "secp256k1_musig_pubnonce_serialize", "secp256k1_musig_pubnonce_save", "secp256k1_musig_pubnonce_load", "secp256k1_eckey_pubkey_parse", "secp256k1_ge_set_xo_var"],
      timeout=600, min_obl=2407, unwind=68, replay=False, note="all 66-byte strings; accept set, infinity rejected, round trip"),
    U("C12.aggnonce_parse", ["C12", "C07"], "harness/C12/codecs.c", "h_aggnonce_parse", replace=XQ, assumed=XQ,
      functions=["secp256k1_musig_aggnonce_parse", "secp256k1_musig_aggnonce_serialize", "secp256k1_musig_aggnonce_save", "secp256k1_musig_aggnonce_load", "secp256k1_musig_ge_parse_ext",
                 "secp256k1_musig_ge_serialize_ext", "secp256k1_ge_to_bytes_ext", "secp256k1_ge_from_bytes_ext"],
      timeout=600, min_obl=2407, unwind=68, replay=False, note="all 66-byte strings; infinity components accepted and round-tripped"),
    U("C12.nonce_serialize", ["C12", "C07"], "harness/C12/codecs.c", "h_nonce_serialize", functions=["secp256k1_musig_pubnonce_serialize", "secp256k1_musig_aggnonce_serialize"],
      timeout=600, min_obl=887, unwind=68, replay=False, note="arbitrary object bytes: wrong magic => illegal callback"),
    U("C12.partial_sig_codec", ["C12", "C07"], "harness/C12/codecs.c", "h_partial_sig_codec",
      functions=["secp256k1_musig_partial_sig_parse", "secp256k1_musig_partial_sig_serialize", "secp256k1_musig_partial_sig_save"],
      timeout=600, min_obl=479, unwind=40, replay=False, note="all 32-byte strings / arbitrary object bytes"),
    U("C12.cache_session_codec", ["C12"], "harness/C12/codecs.c", "h_cache_session_codec",
      functions=["secp256k1_keyagg_cache_load", "secp256k1_keyagg_cache_save", "secp256k1_musig_session_load", "secp256k1_musig_session_save"],
      timeout=600, min_obl=885, unwind=68, replay=False, note="static helpers: save(load(bytes)) == bytes on valid objects, magic gate"),
    U("C12.nonce_process", ["C12"], "harness/C12/nonce_process.c", "h_nonce_process",
      replace=HASH + ["secp256k1_schnorrsig_challenge", "secp256k1_ecmult", "secp256k1_gej_add_ge_var", "secp256k1_ge_set_gej", "secp256k1_scalar_mul"],
      assumed=["secp256k1_ecmult", "secp256k1_gej_add_ge_var", "secp256k1_ge_set_gej", "secp256k1_scalar_mul", "secp256k1_schnorrsig_challenge"] + HASH,   # challenge / hash stream summaries: proved at value level elsewhere (C02, C05), frames not enforced here
      functions=["secp256k1_musig_nonce_process", "secp256k1_musig_nonce_process_internal", "secp256k1_musig_compute_noncehash", "secp256k1_effective_nonce", "secp256k1_musig_ge_serialize_ext",
                 "secp256k1_musig_aggnonce_load", "secp256k1_keyagg_cache_load", "secp256k1_musig_session_save", "secp256k1_pubkey_load"],
      timeout=1800, min_obl=4000, unwind=68, replay=False,
      note="(QUICK tier although ~140-260 s cbmc depending on load: it carries the session-value clauses of C12) session values for every aggnonce (incl. infinity components), cache, message, adaptor present/absent"),
    U("C12.partial_sig_verify", ["C12", "C07"], "harness/C12/psig_verify.c", "h_psig_verify",
      # ecmult_multi_var is not called by the unchanged code: listed so that a refactoring to the multi-multiplication stays decidable
      replace=["secp256k1_ecmult", "secp256k1_ecmult_multi_var", "secp256k1_gej_add_var", "secp256k1_scalar_mul", "secp256k1_musig_keyaggcoef", "secp256k1_effective_nonce"],
      assumed=["secp256k1_ecmult", "secp256k1_gej_add_var", "secp256k1_scalar_mul", "secp256k1_musig_keyaggcoef", "secp256k1_effective_nonce"],   # effective_nonce: body exercised in C12.nonce_process, frame not enforced (audit #23)
      functions=["secp256k1_musig_partial_sig_verify", "secp256k1_musig_session_load", "secp256k1_musig_pubnonce_load", "secp256k1_pubkey_load", "secp256k1_keyagg_cache_load",
                 "secp256k1_musig_partial_sig_load", "secp256k1_gej_neg", "secp256k1_scalar_negate"],
      timeout=900, min_obl=2123, unwind=68, replay=False,
      note="verification equation wiring for arbitrary object contents; verdict = infinity verdict of the oracle sum"),
    U("C12.keyaggcoef", ["C12"], "harness/C12/keyagg.c", "h_keyaggcoef", replace=HASH,
      functions=["secp256k1_musig_keyaggcoef_internal", "secp256k1_ge_eq_var", "secp256k1_fe_equal", "secp256k1_eckey_pubkey_serialize33"],
      timeout=600, min_obl=1873, unwind=40, replay=False, note="second-key rule and coefficient hash layout; also proves the pk-preservation clause of the keyaggcoef summary contract"),
    U("C12.keyagg_callback", ["C12"], "harness/C12/keyagg.c", "h_keyagg_callback", defs=["KEYAGG_CALLBACK_ENTRY"], replace=["secp256k1_musig_keyaggcoef_internal"], assumed=["secp256k1_musig_keyaggcoef_internal"],   # value clauses asserted by C12.keyaggcoef, frame not enforced (audit #23)
      functions=["secp256k1_musig_pubkey_agg_callback", "secp256k1_pubkey_load"], timeout=600, min_obl=422, unwind=70, replay=False,
      note="per-key callback wiring (point idx, list hash, second key)"),
    U("C12.pubkey_agg", ["C12"], "harness/C12/keyagg.c", "h_pubkey_agg", replace=HASH + ["secp256k1_ecmult_multi_var", "secp256k1_ge_set_gej"],
      assumed=["secp256k1_ecmult_multi_var", "secp256k1_ge_set_gej"],
      functions=["secp256k1_musig_pubkey_agg", "secp256k1_musig_compute_pks_hash", "secp256k1_ec_pubkey_serialize", "secp256k1_keyagg_cache_save", "secp256k1_xonly_pubkey_save"],
      timeout=900, min_obl=2454, unwind=70, replay=False, bounded="n_pubkeys<=3",
      unwindset=["secp256k1_musig_pubkey_agg.0:4", "secp256k1_musig_pubkey_agg.1:4", "secp256k1_musig_compute_pks_hash.0:4"],
      note="BOUNDED stand-in (three loops over the caller-supplied key count unwound for n <= 3); all pointer/duplicate patterns"),
    U("C12.partial_sig_agg", ["C12"], "harness/C12/psig_agg.c", "h_psig_agg",
      functions=["secp256k1_musig_partial_sig_agg", "secp256k1_musig_partial_sig_load", "secp256k1_musig_session_load", "secp256k1_scalar_add"],
      timeout=900, min_obl=638, unwind=40, replay=False, bounded="n_sigs<=3", solver="cadical",
      unwindset=["secp256k1_musig_partial_sig_agg.0:4", "secp256k1_musig_partial_sig_agg.1:4"],
      note="BOUNDED stand-in (loops over the caller-supplied count unwound for n <= 3); real scalar arithmetic, no oracle"),
    U("C12.nonce_agg", ["C12"], "harness/C12/nonce_agg.c", "h_nonce_agg", replace=["secp256k1_gej_add_ge_var", "secp256k1_ge_set_all_gej_var"], assumed=["secp256k1_gej_add_ge_var", "secp256k1_ge_set_all_gej_var"],
      functions=["secp256k1_musig_nonce_agg", "secp256k1_musig_sum_pubnonces", "secp256k1_musig_pubnonce_load", "secp256k1_musig_aggnonce_save", "secp256k1_ge_to_bytes_ext"],
      timeout=600, min_obl=1527, unwind=70, replay=False, bounded="n_pubnonces<=2",
      unwindset=["secp256k1_musig_nonce_agg.0:3", "secp256k1_musig_sum_pubnonces.0:3", "secp256k1_musig_sum_pubnonces.1:3"],
      note="BOUNDED stand-in (n <= 2); infinity sums are encoded, not rejected"),
    U("C12.partial_sign_value", ["C12"], "harness/C12/psign_value.c", "h_psign_value",
      replace=["secp256k1_scalar_mul", "secp256k1_musig_keyaggcoef"], assumed=["secp256k1_scalar_mul", "secp256k1_musig_keyaggcoef"],
      functions=["secp256k1_musig_partial_sign", "secp256k1_scalar_add", "secp256k1_scalar_negate", "secp256k1_musig_partial_sig_save"],
      timeout=900, min_obl=1500, replay=False, solver="cadical",
      note="value of the partial signature over logged oracles (audit #27); sign conventions; coefficient tied to the cache content"),
    U("C12.nonce_function", ["C12", "C13"], "harness/C12/nonce_function.c", "h_nonce_function", replace=HASH,
      functions=["secp256k1_nonce_function_musig", "secp256k1_nonce_function_musig_helper", "secp256k1_nonce_function_musig_sha256_tagged",
                 "secp256k1_nonce_function_musig_sha256_tagged_aux", "secp256k1_scalar_set_b32"],
      timeout=300, min_obl=998, unwind=34, replay=False,
      note="STREAM-level hash contracts replace the SHA calls (kept for cost; pins midstate + sha256_write/finalize usage, audit #31); every optional input present/absent; midstates: C02.midstates"),
]
for _n, _e, _t in (("C12.adapt_inverse_lemma_range", "h_inverse_lemma_range", "results < n"), ("C12.adapt_inverse_lemma_ea", "h_inverse_lemma_ea", "extract(adapt(s,t,par),s,par) == t"),
                   ("C12.adapt_inverse_lemma_ae", "h_inverse_lemma_ae", "adapt(s,extract(sig,s,par),par) == sig"),
                   ("C12.extract_form_lemma", "h_extract_form_lemma", "the sum form used in C12.extract equals the difference sig.s - pre.s / pre.s - sig.s")):
    UNITS.append(U(_n, ["C12"], "harness/C12/adapt.c", _e, functions=[], timeout=300, min_obl=1, replay=False, solver="cadical",
                   note="lemma over the value-level contracts of C12.adapt and C12.extract (320-bit arithmetic, all s,t < n, both parities): " + _t))

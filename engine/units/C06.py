from core import Unit as U
# C06: self-composition on the branch-decision trace (goto-instrument --branch leak); see harness/C06/ct.h.
# The usual memory-safety/overflow checks of these functions belong to C05/C07; they are switched off here
# (NOCHK) in units whose arithmetic would otherwise be dragged into the solver - the C06 obligation is the
# trace equality only.  slice_formula drops all arithmetic that cannot reach a branch condition.
# GAP (audit 2 #28): the C06 units are the only units that execute the bodies of ecmult_gen, ecmult_const and
# modinv64 at all (everywhere else they are replaced by contracts), and they do so with the safety checks off:
# memory safety / signed overflow / shift checks of those three bodies are discharged by NO unit of the framework.
NOCHK = ["--no-bounds-check", "--no-pointer-check", "--no-signed-overflow-check", "--no-undefined-shift-check",
         "--no-div-by-zero-check"]
def CT(name, harness, entry, functions, object_bits=None, **kw):
    kw.setdefault("timeout", 600)
    kw.setdefault("slice_formula", True)
    kw.setdefault("flags", NOCHK)
    kw.setdefault("min_obl", 2)
    return U("C06." + name, ["C06"], "harness/C06/" + harness, entry, branch=True, functions=functions, object_bits=object_bits, **kw)
LEN = dict(unwind=194, bounded="public len <= 192 (harness assume; every call site in src/ passes a constant <= 162)", closed_by="public len <= 192 fully unwound, unwinding assertions prove the bound (all call sites in src/ pass constants <= 162)")
SCALAR_BASIC = ["secp256k1_scalar_" + f for f in "cmov cond_negate negate add cadd_bit half set_b32 set_b32_seckey get_b32 is_zero is_one is_even is_high eq check_overflow reduce get_bits_limb32 clear".split()]
FE_BASIC = ["secp256k1_fe_" + f for f in "cmov storage_cmov normalize normalize_weak normalizes_to_zero negate add mul_int add_int half to_storage from_storage is_odd is_zero equal get_b32 set_b32_mod set_b32_limit clear".split()]
GROUP_BASIC = ["secp256k1_ge_storage_cmov", "secp256k1_gej_cmov"]
MOD = ["--replace-calls", "secp256k1_gej_add_ge:ct_havoc_gej_add_ge", "--replace-calls", "secp256k1_gej_double:ct_havoc_gej_double"]
ODD = ["--replace-calls", "secp256k1_ecmult_const_odd_multiples_table_globalz:ct_stub_odd_multiples_table_globalz"]
def API(name, entry, functions, rc=None, **kw):
    if rc:
        flat = []
        for k, v in rc.items():
            flat += ["--replace-calls", "%s:%s" % (k, v)]
        kw["extra_instrument"] = [flat]
    return CT(name, "api.c", entry, functions, **kw)
UNITS = [
    CT("memczero", "util.c", "h_ct_memczero", ["secp256k1_memczero"], note="secret: flag, buffer; public: len", **LEN),
    CT("is_zero_array", "util.c", "h_ct_is_zero_array", ["secp256k1_is_zero_array"], note="secret: contents; public: len", **LEN),
    CT("int_cmov", "util.c", "h_ct_int_cmov", ["secp256k1_int_cmov"]),
    CT("scalar_basic", "scalar.c", "h_ct_scalar_basic", SCALAR_BASIC, min_obl=20),
    CT("scalar_mul", "scalar.c", "h_ct_scalar_mul", ["secp256k1_scalar_mul", "secp256k1_scalar_sqr", "secp256k1_scalar_mul_512", "secp256k1_scalar_sqr_512", "secp256k1_scalar_reduce_512"]),
    CT("scalar_inverse", "scalar.c", "h_ct_scalar_inverse", ["secp256k1_scalar_inverse", "secp256k1_modinv64", "secp256k1_modinv64_divsteps_59", "secp256k1_modinv64_update_de_62", "secp256k1_modinv64_update_fg_62", "secp256k1_modinv64_normalize_62"],
       note="safety checks of the modinv64 body are OFF here and discharged nowhere (see GAP above)"),
    CT("scalar_split_lambda", "scalar.c", "h_ct_scalar_split_lambda", ["secp256k1_scalar_split_lambda", "secp256k1_scalar_mul_shift_var"]),
    CT("fe_basic", "field.c", "h_ct_fe_basic", FE_BASIC, min_obl=20),
    CT("fe_mul", "field.c", "h_ct_fe_mul", ["secp256k1_fe_mul", "secp256k1_fe_sqr", "secp256k1_fe_mul_inner", "secp256k1_fe_sqr_inner"]),
    CT("fe_inv", "field.c", "h_ct_fe_inv", ["secp256k1_fe_inv", "secp256k1_modinv64"]),
    CT("fe_sqrt", "field.c", "h_ct_fe_sqrt", ["secp256k1_fe_sqrt"]),
    CT("group_cmov", "group.c", "h_ct_group_cmov", GROUP_BASIC, min_obl=10),
    CT("ge_set_gej", "group.c", "h_ct_ge_set_gej", ["secp256k1_ge_set_gej"]),
    CT("gej_add_ge", "group.c", "h_ct_gej_add_ge", ["secp256k1_gej_add_ge"]),
    CT("gej_double", "group.c", "h_ct_gej_double", ["secp256k1_gej_double"]),
    # --- multipliers and table scans (small table preset of harness/cfg.h unless VERIF_BIG_TABLES) ---
    # modular (quick): gej_add_ge / gej_double calls redirected to arbitrary-point stubs (their own trace
    # independence is C06.gej_add_ge / C06.gej_double); whole (thorough): every callee real.
    CT("ecmult_gen", "ecmult.c", "h_ct_ecmult_gen", ["secp256k1_ecmult_gen"], min_obl=3, extra_instrument=[MOD],
       note="modular; COMB 2x5 preset (26 outer iterations, doubling path exercised)"),
    CT("ecmult_gen_scan", "ecmult.c", "h_ct_ecmult_gen_scan", ["secp256k1_ecmult_gen"], min_obl=6,
       extra_instrument=[MOD + ["--replace-calls", "secp256k1_fe_storage_cmov:ct_log_fe_storage_cmov"]],
       note="address log: fe_storage_cmov calls redirected to a logging wrapper with the same data effect; modular; COMB 2x5 preset"),
    CT("const_table_get", "ecmult.c", "h_ct_const_table_get", ["ECMULT_CONST_TABLE_GET_GE"], min_obl=6,
       extra_instrument=[["--replace-calls", "secp256k1_fe_impl_cmov:ct_log_fe_cmov"]],
       note="macro instantiated on a harness-owned public table; fe_cmov calls redirected to a logging wrapper"),
    CT("ecmult_const", "ecmult.c", "h_ct_ecmult_const", ["secp256k1_ecmult_const"], min_obl=3, defs=["CT_LOG_FE_CMOV", "CT_MODULAR"],
       extra_instrument=[MOD + ["--replace-calls", "secp256k1_fe_impl_cmov:ct_log_fe_cmov"] + ODD],
       assumed=["secp256k1_ecmult_const_odd_multiples_table_globalz"],
       note="modular; public point; the variable-time-in-the-point precomputation is replaced by 'same arbitrary table in both runs' (it receives public data only)"),
    CT("ecmult_gen_whole", "ecmult.c", "h_ct_ecmult_gen", ["secp256k1_ecmult_gen"], min_obl=3, tier="thorough", timeout=1800, object_bits=16,
       note="every callee real; COMB 2x5 preset; safety checks of the body are OFF here and discharged nowhere (see GAP above)"),
    CT("ecmult_gen_whole_big", "ecmult.c", "h_ct_ecmult_gen", ["secp256k1_ecmult_gen"], min_obl=3, defs=["VERIF_BIG_TABLES"], tier="thorough", timeout=1800, object_bits=16,
       note="every callee real; shipped COMB 43x6"),
    CT("ecmult_gen_scan_big", "ecmult.c", "h_ct_ecmult_gen_scan", ["secp256k1_ecmult_gen"], min_obl=6, defs=["VERIF_BIG_TABLES"], tier="thorough", timeout=1800, object_bits=16,
       extra_instrument=[MOD + ["--replace-calls", "secp256k1_fe_storage_cmov:ct_log_fe_storage_cmov"]], note="modular; shipped COMB 43x6"),
    CT("ecmult_const_whole", "ecmult.c", "h_ct_ecmult_const", ["secp256k1_ecmult_const"], min_obl=3, tier="thorough", timeout=1800, object_bits=16,
       extra_instrument=[ODD], assumed=["secp256k1_ecmult_const_odd_multiples_table_globalz"],
       note="every constant-time callee real; public point; precomputation as in C06.ecmult_const; safety checks of the body are OFF here and discharged nowhere (see GAP above)"),
    # --- hashing over secret data ---
    CT("sha256_write", "sha256.c", "h_ct_sha256_write", ["secp256k1_sha256_write", "secp256k1_sha256_transform", "secp256k1_sha256_transform_impl"],
       unwind=6, bounded="public len <= 200 (harness assume; <= 3 direct blocks)",
       note="secret: data, state, buffer; public: len, byte counter (both symbolic)"),
    CT("sha256_finalize", "sha256.c", "h_ct_sha256_finalize", ["secp256k1_sha256_finalize", "secp256k1_sha256_write"], unwind=10,
       tier="thorough", timeout=1200, note="secret: state, buffer; public: byte counter (fully symbolic, < 2^60)"),
    CT("sha256_finalize_res", "sha256.c", "h_ct_sha256_finalize_res", ["secp256k1_sha256_finalize", "secp256k1_sha256_write"], unwind=66,
       bounded="byte counter in 0..63 (all residues mod 64); unbounded unit C06.sha256_finalize is in the thorough tier",
       note="secret: state, buffer"),
    CT("hmac", "sha256.c", "h_ct_hmac", ["secp256k1_hmac_sha256_initialize", "secp256k1_hmac_sha256_write", "secp256k1_hmac_sha256_finalize"], unwind=66,
       bounded="key lengths 32 and 100, message length 32 (the lengths used in src/)", note="concrete public lengths"),
    CT("rfc6979_64", "sha256.c", "h_ct_rfc6979", ["secp256k1_rfc6979_hmac_sha256_initialize", "secp256k1_rfc6979_hmac_sha256_generate"], unwind=66, defs=["KEYLEN=64"], bounded="64 bytes of key material, two generate(32) calls",
       note="64 bytes of key material (ecmult_gen_blind, nonce function without extra data)"),
    CT("rfc6979_112", "sha256.c", "h_ct_rfc6979", ["secp256k1_rfc6979_hmac_sha256_initialize", "secp256k1_rfc6979_hmac_sha256_generate"], unwind=66, defs=["KEYLEN=112"], bounded="112 bytes of key material, two generate(32) calls",
       tier="thorough", note="112 bytes of key material (nonce function with extra data and algo16)"),
    # --- API level, with declassification points ---
    CT("sign_inner", "sign.c", "h_ct_sign_inner", ["secp256k1_ecdsa_sign_inner"], unwind=34, min_obl=4,
       extra_instrument=[["--replace-calls", "nonce_function_rfc6979_impl:ct_stub_rfc6979", "--replace-calls", "secp256k1_ecdsa_sig_sign:ct_stub_sig_sign",
                          "--replace-calls", "secp256k1_ecmult_gen:ct_stub_ecmult_gen", "--replace-calls", "secp256k1_ge_set_gej:ct_stub_ge_set_gej",
                          "--replace-calls", "secp256k1_ec_commit_seckey:ct_stub_commit_seckey"]],
       bounded="retry loop <= 2 attempts",
       assumed=["nonce_function_rfc6979_impl"],
       note="two runs, independent secret keys (valid or not) AND independent nonce bytes; only the declassified bits are equal (nonce validity, nonce-function return value, sig_sign / commit verdicts). Replaced callees: sig_sign (C06.sig_sign), ec_commit_seckey (C06.commit_seckey), ecmult_gen (C06.ecmult_gen*), ge_set_gej (C06.ge_set_gej); rfc6979_impl assumed (its parts: C06.rfc6979_*, fixed lengths). Seeded defect C06-1"),
    CT("sig_sign", "sign.c", "h_ct_sig_sign", ["secp256k1_ecdsa_sig_sign"],
       extra_instrument=[["--replace-calls", "secp256k1_ecmult_gen:ct_stub_ecmult_gen", "--replace-calls", "secp256k1_ge_set_gej:ct_stub_ge_set_gej_any"]],
       note="modular: ecmult_gen / ge_set_gej return arbitrary points (own units); scalar_inverse, scalar_mul, cond_negate real"),
    CT("commit_seckey", "sign.c", "h_ct_commit_seckey", ["secp256k1_ec_commit_seckey", "secp256k1_ec_commit_tweak", "secp256k1_ec_seckey_tweak_add_helper"], unwind=10, bounded="hash byte counter 64, data length 32 (the s2c caller's values)",
       note="secret: tweaked scalar, point coordinates, hash state, data; public: infinity flag, block-aligned byte counter"),
    # --- API-level compositions (harness/C06/api.c): two runs, independent secrets, only the bits the library declassifies are equal ---
    API("api_seckey", "h_api_seckey", ["secp256k1_ec_seckey_verify", "secp256k1_ec_seckey_negate", "secp256k1_ec_seckey_tweak_add", "secp256k1_ec_seckey_tweak_mul"],
        note="everything real, nothing assumed; key and tweak both secret"),
    API("api_keygen", "h_api_keygen", ["secp256k1_ec_pubkey_create", "secp256k1_keypair_create", "secp256k1_ec_pubkey_create_helper"],
        rc={"secp256k1_ecmult_gen": "api_ecmult_gen", "secp256k1_ge_set_gej": "api_ge_set_gej_secret"},
        note="ecmult_gen (C06.ecmult_gen*) and ge_set_gej (C06.ge_set_gej) replaced by arbitrary-result stubs"),
    API("api_keypair_tweak", "h_api_keypair_tweak", ["secp256k1_keypair_xonly_tweak_add", "secp256k1_keypair_load"],
        rc={"secp256k1_ec_seckey_tweak_add_helper": "api_seckey_tweak_add_helper", "secp256k1_ec_pubkey_tweak_add_helper": "api_pubkey_tweak_add_helper"},
        assumed=["secp256k1_ec_pubkey_tweak_add_helper"],
        note="declassified: stored-key validity, combined tweak verdict (handed out equal by the stubs); seckey_tweak_add_helper is real in C06.api_seckey; pubkey_tweak_add_helper sees public data only"),
    API("api_schnorrsig_sign", "h_api_schnorrsig_sign", ["secp256k1_schnorrsig_sign_internal", "secp256k1_keypair_load"],
        rc={"nonce_function_bip340_impl": "api_nonce_bip340_impl", "secp256k1_ecmult_gen": "api_ecmult_gen", "secp256k1_ge_set_gej": "api_ge_set_gej_public",
            "secp256k1_schnorrsig_challenge": "api_challenge"},
        assumed=["secp256k1_schnorrsig_challenge"], timeout=900,
        note="declassified: key validity, nonce point r (public table), nonce function return value; nonce bytes independent per run; nonce_function_bip340_impl: C06.nonce_bip340; challenge hash sees public data only"),
    API("nonce_bip340", "h_api_nonce_bip340", ["nonce_function_bip340_impl"], unwind=70, bounded="message length 32; (BIP-340 algo, aux), (BIP-340 algo, no aux), (9-byte algo, aux)", note="real SHA-256; secret key32 and aux"),
    API("api_ecdh", "h_api_ecdh", ["secp256k1_ecdh", "ecdh_hash_function_sha256_impl"],
        rc={"secp256k1_ecmult_const": "api_ecmult_const", "secp256k1_ge_set_gej": "api_ge_set_gej_secret"},
        note="public point, secret scalar; ecmult_const (C06.ecmult_const*) and ge_set_gej (C06.ge_set_gej) replaced; default hash real, user hash stub"),
    API("api_musig_partial_sign", "h_api_musig_partial_sign", ["secp256k1_musig_partial_sign", "secp256k1_musig_secnonce_load", "secp256k1_keypair_load"],
        rc={"secp256k1_musig_keyaggcoef": "api_keyaggcoef"}, assumed=["secp256k1_musig_keyaggcoef"],
        note="declassified: nonce-scalars-all-zero bit, key validity; keyaggcoef sees public data only"),
    API("api_musig_nonce_gen", "h_api_musig_nonce_gen", ["secp256k1_musig_nonce_gen", "secp256k1_musig_nonce_gen_internal", "secp256k1_nonce_function_musig"],
        rc={"secp256k1_ecmult_gen": "api_ecmult_gen", "secp256k1_ge_set_all_gej": "api_ge_set_all_gej_public"},
        unwind=140, bounded="all optional arguments present", timeout=2400, tier="thorough",
        note="declassified: secrand-all-zero bit, the two public nonces (public table); nonce hash real; ge_set_all_gej: C06.ge_set_all_gej"),
    API("api_musig_nonce_gen_min", "h_api_musig_nonce_gen", ["secp256k1_musig_nonce_gen", "secp256k1_musig_nonce_gen_internal", "secp256k1_nonce_function_musig"],
        rc={"secp256k1_ecmult_gen": "api_ecmult_gen", "secp256k1_ge_set_all_gej": "api_ge_set_all_gej_public"},
        unwind=140, bounded="no optional argument present", defs=["NONCE_GEN_MINIMAL"], timeout=600,
        note="as C06.api_musig_nonce_gen, seckey/msg/cache/extra all NULL"),
    API("ge_set_all_gej", "h_api_ge_set_all_gej", ["secp256k1_ge_set_all_gej", "secp256k1_ge_set_gej_zinv"], bounded="n = 2 points"),
    API("api_adaptor", "h_api_adaptor", ["secp256k1_ecdsa_adaptor_decrypt", "secp256k1_musig_adapt", "secp256k1_musig_extract_adaptor"],
        note="everything real; public: adaptor signature, pre-signature, nonce parity"),
    API("api_randomize", "h_api_randomize", ["secp256k1_context_randomize", "secp256k1_ecmult_gen_blind"],
        rc={"secp256k1_ecmult_gen": "api_ecmult_gen", "secp256k1_ge_set_gej": "api_ge_set_gej_secret"}, unwind=300,
        note="secret: seed and previous blinding state; rfc6979/HMAC/SHA real; ecmult_gen and ge_set_gej replaced"),
]
# --- alternative limb configuration (10x26 field, 8x32 scalar, modinv32): same harnesses, thorough tier ---
for _n, _h, _e, _f in [("scalar_basic", "scalar.c", "h_ct_scalar_basic", SCALAR_BASIC), ("scalar_mul", "scalar.c", "h_ct_scalar_mul", ["secp256k1_scalar_mul", "secp256k1_scalar_sqr"]),
                       ("scalar_inverse", "scalar.c", "h_ct_scalar_inverse", ["secp256k1_scalar_inverse", "secp256k1_modinv32"]),
                       ("scalar_split_lambda", "scalar.c", "h_ct_scalar_split_lambda", ["secp256k1_scalar_split_lambda"]),
                       ("fe_basic", "field.c", "h_ct_fe_basic", FE_BASIC), ("fe_mul", "field.c", "h_ct_fe_mul", ["secp256k1_fe_mul", "secp256k1_fe_sqr"]),
                       ("fe_inv", "field.c", "h_ct_fe_inv", ["secp256k1_fe_inv", "secp256k1_modinv32"]), ("fe_sqrt", "field.c", "h_ct_fe_sqrt", ["secp256k1_fe_sqrt"]),
                       ("group_cmov", "group.c", "h_ct_group_cmov", GROUP_BASIC), ("ge_set_gej", "group.c", "h_ct_ge_set_gej", ["secp256k1_ge_set_gej"]),
                       ("gej_add_ge", "group.c", "h_ct_gej_add_ge", ["secp256k1_gej_add_ge"]), ("gej_double", "group.c", "h_ct_gej_double", ["secp256k1_gej_double"])]:
    _u = CT(_n + ".W64", _h, _e, _f, cfg="W64", tier="thorough", timeout=1200, note="USE_FORCE_WIDEMUL_INT64: 10x26 field, 8x32 scalar, modinv32")
    UNITS.append(_u)

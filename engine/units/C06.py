from core import Unit as U
# C06: self-composition on the branch-decision trace (goto-instrument --branch leak), see harness/C06/ct.h
NOCHK = ["--no-bounds-check", "--no-pointer-check", "--no-signed-overflow-check", "--no-undefined-shift-check",
         "--no-div-by-zero-check"]
def CT(name, harness, entry, functions, **kw):
    kw.setdefault("timeout", 300)
    return U("C06." + name, ["C06"], "harness/C06/" + harness, entry, branch=True, functions=functions, **kw)
UNITS = [
    CT("util", "util.c", "h_ct_util", ["secp256k1_memczero", "secp256k1_is_zero_array", "secp256k1_int_cmov"],
       unwind=194, min_obl=100, defs=["CT_MAX=256"], closed_by="public len <= 192 unwound (all call sites use constants <= 162)",
       note="secret: flag, buffer contents; public: len"),
]

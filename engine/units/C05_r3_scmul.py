"""C05 r3 (eng_scalar): value of scalar_mul_512 / sqr_512 / reduce_512 / scalar_mul, compositional (see contracts/assumed_r3_scmul.h)."""
from core import Unit as U

UNITS = []
PENDING = []   # written, NOT admitted (undecided or not run in the time box) - not registered; move to UNITS to try them
UFM = ["secp256k1_u128_mul", "secp256k1_u128_accum_mul"]
M5 = "harness/C05/r3_scmul512.c"
PENDING.append(U("C05.r3_mul512_chain", ["C05"], M5, "h_r3_mul512_chain", replace=UFM, assumed=[], functions=["secp256k1_scalar_mul_512"],
               tier="thorough", timeout=1800, replay=False,
               note="piece 1 of 2 of 'l == sum umul(a_i,b_j) 2^(64(i+j))': real code == column carry chain r3_chain of the 16 UF products; composes with C05.r3_chain_lemma_mul (same r3_chain, same column table)"))
PENDING.append(U("C05.r3_sqr512_chain", ["C05"], M5, "h_r3_sqr512_chain", replace=UFM, assumed=[], functions=["secp256k1_scalar_sqr_512"],
               tier="thorough", timeout=1800, replay=False,
               note="piece 1 of 2 for sqr_512 (addends umul(a_i,a_j), i<j twice); composes with C05.r3_chain_lemma_mul"))
UNITS.append(U("C05.r3_chain_lemma_mul", ["C05"], M5, "h_r3_chain_lemma_mul", functions=[], tier="thorough", timeout=1800, replay=False, min_obl=85,
               note="piece 2 of 2, pure lemma without library code: column chain of 16 free 128-bit addends (columns 1,2,3,4,3,2,1) == their direct sum"))
R5 = "harness/C05/r3_screduce512.c"
UNITS.append(U("C05.r3_reduce512_chain", ["C05"], R5, "h_r3_reduce512_chain", replace=UFM, assumed=[], functions=["secp256k1_scalar_reduce_512", "secp256k1_scalar_reduce", "secp256k1_scalar_check_overflow"],
               tier="thorough", timeout=5400, replay=False, min_obl=1000,
               note="piece 1 of 2 of 'r == l mod n': real code == three column-chain folds + conditional subtraction; composes with C05.r3_chain_lemma_s1/_s2/_s3"))
for _s, _n in (("s1", 16), ("s2", 13), ("s3", 7)):
    UNITS.append(U("C05.r3_chain_lemma_" + _s, ["C05"], R5, "h_r3_chain_lemma_" + _s, functions=[], tier="thorough", timeout=1800, replay=False, min_obl=85,
                   note="piece 2 of 2, pure lemma without library code: column chain of the fold-%s addend table (%d free addends) == direct sum" % (_s[1], _n)))
UNITS.append(U("C05.r3_umul_model", ["C05"], R5, "h_r3_umul_model", functions=["secp256k1_u128_mul", "secp256k1_u128_accum_mul"], tier="thorough", timeout=900, replay=False, min_obl=30,
               note="the range axioms (B0),(B1),(E2) of the uninterpreted multiplier, checked on the real multiplier bodies"))
UNITS.append(U("C05.r3_scmul_compose", ["C05"], "harness/C05/r3_scmul_compose.c", "h_r3_scmul_compose", verify=True,
               replace=["secp256k1_scalar_mul_512", "secp256k1_scalar_sqr_512", "secp256k1_scalar_reduce_512"], assumed=[],
               functions=["secp256k1_scalar_mul", "secp256k1_scalar_sqr"], tier="thorough", timeout=600, min_obl=400, replay=False,
               note="scalar_mul = reduce_512 o mul_512 (scalar_sqr = reduce_512 o sqr_512): wiring only; the callee values are C05.r3_mul512_chain / r3_sqr512_chain / r3_reduce512_chain + chain lemmas, 'reduced result' is C05.sc_reduce_512"))
# ---- the cut through a model of the macro sequence (harness/C05/r3_scmodel.c)
MD = "harness/C05/r3_scmodel.c"
STEPS = ["r3m_muladd", "r3m_muladd_fast", "r3m_sumadd", "r3m_sumadd_fast"]
PENDING.append(U("C05.r3_mul512_model", ["C05"], MD, "h_r3_mul512_model", replace=UFM, assumed=[], functions=["secp256k1_scalar_mul_512"], tier="thorough", timeout=1800, replay=False,
               note="A: real scalar_mul_512 == model (transcribed macro sequence), limb for limb"))
PENDING.append(U("C05.r3_mul512_model_chain", ["C05"], MD, "h_r3_mul512_model_chain", replace=STEPS, assumed=[], functions=[], tier="thorough", timeout=1800, replay=False,
               note="B: model == column chain; model steps replaced by their value contracts (proved in C05.r3_model_steps)"))
PENDING.append(U("C05.r3_model_steps", ["C05"], MD, "h_r3_model_steps", functions=[], tier="thorough", timeout=900, replay=False,
               note="C: step contracts of the model (muladd / muladd_fast / sumadd / sumadd_fast add exactly x to the value of (c0,c1,c2))"))
PENDING.append(U("C05.r3_reduce512_model", ["C05"], MD, "h_r3_reduce512_model", replace=UFM, assumed=[], functions=["secp256k1_scalar_reduce_512", "secp256k1_scalar_reduce", "secp256k1_scalar_check_overflow"], tier="thorough", timeout=1800, replay=False,
               note="A: real scalar_reduce_512 == cs(model)"))
PENDING.append(U("C05.r3_reduce512_model_chain", ["C05"], MD, "h_r3_reduce512_model_chain", replace=STEPS, assumed=[], functions=[], tier="thorough", timeout=1800, replay=False,
               note="B: reduce model == three column chains; model steps replaced by their value contracts"))

# ---- what was tried / measured (22:10, machine load average ~30 on 16 cores, MiniSat unless stated)
# ADMITTED: C05.r3_reduce512_chain (1242 s), C05.r3_chain_lemma_mul (52 s), _s1 (67 s), _s2 (41 s), _s3 (7 s), C05.r3_umul_model (68 s), C05.r3_scmul_compose (16-20 s).
# The key change against the monolithic h_sc_reduce_512_value (undecided at 3600 s): (i) the multiplier is a PURE uninterpreted function with range
# axioms (no exact constant multipliers inside the formula: code side and spec side share products by congruence), (ii) the spec is the column
# carry chain r3_chain with the addends in the code's column order, (iii) the wide-sum form is a separate code-free lemma per addend table.
# PENDING C05.r3_mul512_chain (same formulation for scalar_mul_512): killed after 20 min of SAT in the all-properties run.  Per property on the same
#   goto binary (cbmc --property): limb 0: 36 s, limb 1: 55 s, limb 2: 52 s, limb 3: 170 s, limb 4: > 300 s (kissat 4.0.1 on the DIMACS: UNSAT in 151 s),
#   final carry == 0: 60 s.  So it very likely closes with a 1-2 h budget or with kissat; it was not re-run to completion in the time box.
# PENDING C05.r3_mul512_model (real code == transcribed macro model, meant as the cheap half of a real cut: model steps under contract): still
#   undecided after 22 min -> the 'isomorphic miter' is NOT cheap for MiniSat; r3_model_steps / r3_mul512_model_chain / r3_reduce512_model(_chain) /
#   r3_sqr512_chain were written but never run.
#   C05.r3_model_steps was run once and FAILS as written ("model step muladd: value += x"): the precondition R3_PRE_FULL must also demand
#   hi64(x) <= 2^64-2 (what the macro's comment 'at most 0xFFFFFFFFFFFFFFFE' relies on; true for products by (B0), false for a free 128-bit x). Fix before use.
# MUTANTS on C05.r3_reduce512_chain: C05_r3_screduce_wrong_limb.diff -> exit 1 (main obligation "r == cs(chain3(chain2(chain1(l))))", cbmc 28 s);
#   C05_r3_screduce_final_carry_dropped.diff -> NO RESULT in 1500 s (the SAT search for an input with final carry 1 under the mutant did not finish;
#   on the unchanged tree the REACH witness "third fold carries out of 2^256" IS found, and the proved obligation pins r for those inputs, so the
#   mutant cannot pass - but the failing run was not observed in the time box); C05_r3_screduce_p4_no_m6.diff -> exit 1 (same main obligation, cbmc 342 s).
# Note on the spec-only obligations of h_r3_reduce512_chain ("fold fits 385 / 258 bits", "< 2n"): the range axioms of umul enter only through the
#   contract instances at the CODE's multiplier calls; the spec's products coincide with them on the unchanged tree.  If the code stops calling
#   umul on some (h_i, NC_j) these spec obligations fail too (observed on the wrong_limb mutant) - a sound alarm, never a silent pass.

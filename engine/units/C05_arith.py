"""C05 parts (a) and (b): arithmetic kernel.  One entry per (harness entry, cfg)."""
from core import Unit as U

UNITS = []

def fam(name, harness, entry, functions, quick=True, min_obl=1, timeout=300, variants=("W128", "W128V", "W64", "W64V"), **kw):
    """register <name> for W128 (quick), and the thorough variants: +VERIFY, W64, W64+VERIFY, (W128S)"""
    for v in variants:
        cfg = {"W128": "W128", "W128V": "W128", "W64": "W64", "W64V": "W64", "W128S": "W128S", "W128SV": "W128S"}[v]
        verify = v.endswith("V")
        suffix = "" if v == "W128" else "." + v
        tier = "quick" if (v == "W128" and quick) else "thorough"
        UNITS.append(U("C05." + name + suffix, ["C05"], harness, entry, cfg=cfg, verify=verify, tier=tier,
                       functions=functions, min_obl=min_obl, timeout=timeout, replay=False, **kw))

FE = "harness/C05/arith_fe.c"
fam("fe_normalize", FE, "h_fe_normalize", ["secp256k1_fe_impl_normalize"])
fam("fe_normalize_var", FE, "h_fe_normalize_var", ["secp256k1_fe_impl_normalize_var"])
fam("fe_normalize_weak", FE, "h_fe_normalize_weak", ["secp256k1_fe_impl_normalize_weak"])
fam("fe_ntz", FE, "h_fe_ntz", ["secp256k1_fe_impl_normalizes_to_zero", "secp256k1_fe_impl_normalizes_to_zero_var"])
fam("fe_small", FE, "h_fe_small", ["secp256k1_fe_impl_set_int", "secp256k1_fe_impl_add_int", "secp256k1_fe_impl_is_zero", "secp256k1_fe_impl_is_odd", "secp256k1_fe_impl_cmov"])
fam("fe_cmp", FE, "h_fe_cmp", ["secp256k1_fe_impl_cmp_var"])
fam("fe_b32", FE, "h_fe_b32", ["secp256k1_fe_impl_set_b32_mod", "secp256k1_fe_impl_set_b32_limit", "secp256k1_fe_impl_get_b32"])
fam("fe_storage", FE, "h_fe_storage", ["secp256k1_fe_impl_to_storage", "secp256k1_fe_impl_from_storage", "secp256k1_fe_storage_cmov"])
fam("fe_negate", FE, "h_fe_negate", ["secp256k1_fe_impl_negate_unchecked"])
fam("fe_add", FE, "h_fe_add", ["secp256k1_fe_impl_add"])
fam("fe_mul_int", FE, "h_fe_mul_int", ["secp256k1_fe_impl_mul_int_unchecked"])
fam("fe_half", FE, "h_fe_half", ["secp256k1_fe_impl_half"])

"""C05 parts (a) and (b): arithmetic kernel.  One entry per (harness entry, cfg)."""
from core import Unit as U

UNITS = []

def fam(name, harness, entry, functions, quick=True, min_obl=1, timeout=300, variants=("W128", "W128V", "W64", "W64V"), w64_defs=(), **kw):
    """register <name> for W128 (quick), and the thorough variants: +VERIFY, W64, W64+VERIFY, (W128S)"""
    for v in variants:
        cfg = {"W128": "W128", "W128V": "W128", "W64": "W64", "W64V": "W64", "W128S": "W128S", "W128SV": "W128S"}[v]
        verify = v.endswith("V")
        suffix = "" if v == "W128" else "." + v
        tier = "quick" if (v == "W128" and quick) else "thorough"
        UNITS.append(U("C05." + name + suffix, ["C05"], harness, entry, cfg=cfg, verify=verify, tier=tier,
                       functions=functions, min_obl=min_obl, timeout=timeout, replay=False, defs=list(w64_defs) if cfg == "W64" else [], **kw))

FE = "harness/C05/arith_fe.c"
# FINDING (10x26 only): at magnitude 32 the normalize family wraps a uint32 in its first carry pass (native reproducer in the
# report).  The W64 units therefore prove magnitudes 0..31; C05.fe_normalize_m32.W64 is the failing obligation at 32.
M31 = ["FE_MAXMAG=31"]
fam("fe_normalize", FE, "h_fe_normalize", ["secp256k1_fe_impl_normalize"], w64_defs=M31)
fam("fe_normalize_var", FE, "h_fe_normalize_var", ["secp256k1_fe_impl_normalize_var"], w64_defs=M31)
fam("fe_normalize_weak", FE, "h_fe_normalize_weak", ["secp256k1_fe_impl_normalize_weak"], w64_defs=M31)
fam("fe_ntz", FE, "h_fe_ntz", ["secp256k1_fe_impl_normalizes_to_zero", "secp256k1_fe_impl_normalizes_to_zero_var"], w64_defs=M31)
# known finding F2: one failing unit per function, tier thorough, obligation names tagged "[10x26,m=32]"
M32 = ["FE_M32_FINDING=1"]
for _n, _e, _f in (("fe_normalize", "h_fe_normalize", ["secp256k1_fe_impl_normalize"]), ("fe_normalize_var", "h_fe_normalize_var", ["secp256k1_fe_impl_normalize_var"]),
                   ("fe_normalize_weak", "h_fe_normalize_weak", ["secp256k1_fe_impl_normalize_weak"]),
                   ("fe_ntz", "h_fe_ntz", ["secp256k1_fe_impl_normalizes_to_zero", "secp256k1_fe_impl_normalizes_to_zero_var"])):
    UNITS.append(U("C05.%s_m32.W64" % _n, ["C05"], FE, _e, cfg="W64", tier="thorough", defs=M32, functions=_f, replay=False,
                   note="KNOWN FINDING F2 - expected to fail: 10x26 normalize family at magnitude 32 (uint32 wrap in t0 += x*0x3D1 / t1 += x<<6)"))
fam("fe_small", FE, "h_fe_small", ["secp256k1_fe_impl_set_int", "secp256k1_fe_impl_add_int", "secp256k1_fe_impl_is_zero", "secp256k1_fe_impl_is_odd", "secp256k1_fe_impl_cmov"])
fam("fe_cmp", FE, "h_fe_cmp", ["secp256k1_fe_impl_cmp_var"])
fam("fe_b32", FE, "h_fe_b32", ["secp256k1_fe_impl_set_b32_mod", "secp256k1_fe_impl_set_b32_limit", "secp256k1_fe_impl_get_b32"])
fam("fe_storage", FE, "h_fe_storage", ["secp256k1_fe_impl_to_storage", "secp256k1_fe_impl_from_storage", "secp256k1_fe_storage_cmov"])
fam("fe_negate", FE, "h_fe_negate", ["secp256k1_fe_impl_negate_unchecked"], timeout=900)
fam("fe_add", FE, "h_fe_add", ["secp256k1_fe_impl_add"], timeout=900)
fam("fe_mul_int", FE, "h_fe_mul_int", ["secp256k1_fe_impl_mul_int_unchecked"], timeout=900)
fam("fe_half", FE, "h_fe_half", ["secp256k1_fe_impl_half"])

SC = "harness/C05/arith_scalar.c"
SCV = ("W128", "W128V", "W128S", "W64", "W64V")
fam("sc_add", SC, "h_sc_add", ["secp256k1_scalar_add", "secp256k1_scalar_reduce", "secp256k1_scalar_check_overflow"], variants=SCV)
fam("sc_neg", SC, "h_sc_neg", ["secp256k1_scalar_negate", "secp256k1_scalar_cond_negate", "secp256k1_scalar_half", "secp256k1_scalar_is_high"], variants=SCV)
fam("sc_b32", SC, "h_sc_b32", ["secp256k1_scalar_set_b32", "secp256k1_scalar_get_b32", "secp256k1_scalar_set_b32_seckey"], variants=SCV)
fam("sc_small", SC, "h_sc_small", ["secp256k1_scalar_set_int", "secp256k1_scalar_set_u64", "secp256k1_scalar_is_zero", "secp256k1_scalar_is_one", "secp256k1_scalar_is_even", "secp256k1_scalar_eq", "secp256k1_scalar_cmov", "secp256k1_scalar_split_128", "secp256k1_scalar_clear"], variants=SCV)
fam("sc_bits", SC, "h_sc_bits", ["secp256k1_scalar_get_bits_limb32", "secp256k1_scalar_get_bits_var", "secp256k1_scalar_cadd_bit"], variants=SCV)

I128 = "harness/C05/arith_int128.c"
I128F = ["secp256k1_u128_load", "secp256k1_u128_from_u64", "secp256k1_u128_to_u64", "secp256k1_u128_hi_u64", "secp256k1_u128_accum_u64", "secp256k1_u128_rshift", "secp256k1_u128_check_bits"]
I128G = ["secp256k1_i128_load", "secp256k1_i128_from_i64", "secp256k1_i128_to_i64", "secp256k1_i128_to_u64", "secp256k1_i128_eq_var", "secp256k1_i128_check_pow2", "secp256k1_i128_rshift"]
fam("u128", I128, "h_u128", I128F, variants=("W128", "W128S", "W128SV"))
fam("i128", I128, "h_i128", I128G, variants=("W128", "W128S", "W128SV"))
# (tried, undecided: struct-mode secp256k1_u128_mul / umul128 (32x32 decomposition) against the 128-bit product with one operand < 2^32:
#  h_u128_mul_bounded, cfg W128S, 900 s timeout without result - not listed; in W128S the multiplier is covered only through the UF contract)

UT = "harness/C05/arith_util.c"
UBF = ["secp256k1_clz64_var", "secp256k1_ctz64_var", "secp256k1_ctz64_var_debruijn", "secp256k1_ctz32_var", "secp256k1_ctz32_var_debruijn", "secp256k1_rotr32", "secp256k1_sign_and_abs64", "secp256k1_int_cmov"]
fam("util_bits", UT, "h_util_bits", UBF, variants=("W128", "W128V"), unwind=70, closed_by="case split on the result; clz fallback loop fully unwound (64) with unwinding assertion")
UNITS.append(U("C05.util_bits.builtin_clz", ["C05"], UT, "h_util_bits", defs=["HAVE_BUILTIN_CLZLL=1"], unwind=70, functions=UBF, tier="thorough", replay=False,
               note="clz64_var through __builtin_clzll (what configure selects on gcc/clang)"))
fam("util_endian", UT, "h_util_endian", ["secp256k1_read_be32", "secp256k1_read_be64", "secp256k1_write_be32", "secp256k1_write_be64"], variants=("W128",))
UTL = ["secp256k1_memczero", "secp256k1_is_zero_array", "secp256k1_memcmp_var"]
# any length: loop contracts supplied by the engine (--loop-contracts-file), no /repo edit; ghost globals verif_gi / verif_allzero live in the harness
UNITS.append(U("C05.util_loops", ["C05"], UT, "h_util_loops", defs=["UTIL_LC=1", "UTIL_PART=3"], functions=UTL[1:], timeout=600, replay=False, tier="quick",
               loop_contracts={
                   "secp256k1_is_zero_array": {"for (i = 0; i < len; i++)": {
                       "assigns": "i, acc",
                       "invariants": "i <= len && (verif_gi < i ==> (acc == 0 ==> s[verif_gi] == 0)) && (verif_allzero ==> acc == 0)",
                       "decreases": "len - i"}},
                   "secp256k1_memcmp_var": {"for (i = 0; i < n; i++)": {
                       "assigns": "i",
                       "invariants": "i <= n && (verif_gi < i ==> p1[verif_gi] == p2[verif_gi])",
                       "decreases": "n - i"}}},
               closed_by="loop contracts (engine-supplied, ghost-index invariants, decreases clauses) on is_zero_array and memcmp_var",
               note="len symbolic up to 2^40. memczero: a whole-object havoc of a symbolic-size buffer did not get through SSA conversion in 10 min, see util_memczero_b192"))
# bounded stand-ins on the unchanged tree
UNITS.append(U("C05.util_loops_b24", ["C05"], UT, "h_util_loops", unwind=26, bounded="len<=24", functions=UTL, timeout=600, replay=False))
UNITS.append(U("C05.util_memczero_b192", ["C05"], UT, "h_util_loops", defs=["UTIL_PART=4", "UTIL_LEN_MAX=192", "UTIL_FIXEDBUF=1"], unwind=194, bounded="len<=192 (every call site in src/ passes a constant <= 162)", functions=UTL[:1], timeout=900, replay=False))

# ---- part (b): multiplication-bearing code with -DVERIFY, 64x64 multiplier = uninterpreted function
FM = "harness/C05/arith_femul.c"
UF = ["secp256k1_u128_mul", "secp256k1_u128_accum_mul"]
UNITS.append(U("C05.fe_mul_inner", ["C05"], FM, "h_fe_mul_inner", verify=True, replace=UF, assumed=[], functions=["secp256k1_fe_mul_inner"],
               timeout=600, tier="quick", min_obl=300, replay=False, note="UF multiplier; congruence r = a b mod p is assumed residue"))
UNITS.append(U("C05.fe_sqr_inner", ["C05"], FM, "h_fe_sqr_inner", verify=True, replace=UF, assumed=[], functions=["secp256k1_fe_sqr_inner"],
               timeout=600, tier="quick", min_obl=200, replay=False, note="UF multiplier; congruence r = a^2 mod p is assumed residue"))
UNITS.append(U("C05.umul_axioms", ["C05"], FM, "h_umul_axioms", functions=UF, timeout=600, tier="quick", replay=False,
               note="bit-length axioms (B) of the UF multiplier contract, on the real multiplier"))
# W128S: only the 64x64 primitive secp256k1_umul128 is the UF (assumed: its bit-length axioms are not proved for the 32x32 decomposition);
# the struct-mode u128_mul / u128_accum_mul / accum_u64 / rshift carry code is REAL in these units
UFS = ["secp256k1_umul128"]
UNITS.append(U("C05.fe_mul_inner.W128S", ["C05"], FM, "h_fe_mul_inner", cfg="W128S", verify=True, replace=UFS, assumed=UFS, functions=["secp256k1_fe_mul_inner", "secp256k1_u128_mul", "secp256k1_u128_accum_mul"], timeout=3000, tier="thorough", replay=False))
UNITS.append(U("C05.fe_sqr_inner.W128S", ["C05"], FM, "h_fe_sqr_inner", cfg="W128S", verify=True, replace=UFS, assumed=UFS, functions=["secp256k1_fe_sqr_inner", "secp256k1_u128_mul", "secp256k1_u128_accum_mul"], timeout=3000, tier="thorough", replay=False))
UNITS.append(U("C05.fe_mul_inner.W64", ["C05"], FM, "h_fe_mul_inner", cfg="W64", verify=True, functions=["secp256k1_fe_mul_inner"], timeout=1500, tier="thorough", replay=False,
               note="10x26: native 32x32->64 products, no UF"))
UNITS.append(U("C05.fe_sqr_inner.W64", ["C05"], FM, "h_fe_sqr_inner", cfg="W64", verify=True, functions=["secp256k1_fe_sqr_inner"], timeout=1500, tier="thorough", replay=False))

# ---- part (b): group_impl.h magnitude bookkeeping with -DVERIFY
GR = "harness/C05/arith_group.c"
GREP = ["secp256k1_fe_mul", "secp256k1_fe_sqr", "secp256k1_fe_inv", "secp256k1_fe_inv_var", "secp256k1_fe_sqrt"]
GASS = ["secp256k1_fe_inv", "secp256k1_fe_inv_var", "secp256k1_fe_sqrt"]   # fe_mul/fe_sqr magnitude contracts are proved by C05.fe_mul_contract / fe_sqr_contract
def grp(name, entry, functions, tier="quick", timeout=900, cfgs=("W128",), **kw):
    for cfg in cfgs:
        UNITS.append(U("C05." + name + ("" if cfg == "W128" else "." + cfg), ["C05"], GR, entry, cfg=cfg, verify=True, replace=GREP, assumed=GASS,
                       functions=functions, tier=tier if cfg == "W128" else "thorough", timeout=timeout, replay=False, **kw))
grp("gej_double", "h_gej_double", ["secp256k1_gej_double", "secp256k1_gej_double_var"], cfgs=("W128", "W64"))
grp("gej_add_var", "h_gej_add_var", ["secp256k1_gej_add_var"], cfgs=("W128", "W64"))
grp("gej_add_ge_var", "h_gej_add_ge_var", ["secp256k1_gej_add_ge_var"], cfgs=("W128", "W64"))
grp("gej_add_zinv_var", "h_gej_add_zinv_var", ["secp256k1_gej_add_zinv_var"], cfgs=("W128", "W64"))
grp("gej_add_ge", "h_gej_add_ge", ["secp256k1_gej_add_ge"], cfgs=("W128", "W64"))
grp("group_small", "h_group_small", ["secp256k1_ge_neg", "secp256k1_gej_neg", "secp256k1_gej_set_ge", "secp256k1_gej_set_infinity", "secp256k1_ge_set_infinity", "secp256k1_gej_cmov", "secp256k1_ge_set_xy", "secp256k1_ge_mul_lambda"], cfgs=("W128", "W64"))
grp("ge_set_gej", "h_ge_set_gej", ["secp256k1_ge_set_gej", "secp256k1_ge_set_gej_var", "secp256k1_ge_set_gej_zinv", "secp256k1_ge_set_ge_zinv", "secp256k1_gej_rescale"], cfgs=("W128", "W64"))
grp("ge_storage", "h_ge_storage", ["secp256k1_ge_to_storage", "secp256k1_ge_from_storage", "secp256k1_ge_storage_cmov"], cfgs=("W128", "W64"))
grp("ge_predicates", "h_ge_predicates", ["secp256k1_ge_is_valid_var", "secp256k1_ge_eq_var", "secp256k1_gej_eq_var", "secp256k1_gej_eq_ge_var", "secp256k1_gej_eq_x_var", "secp256k1_ge_set_xquad", "secp256k1_ge_set_xo_var", "secp256k1_fe_equal"], cfgs=("W128", "W64"))

# ---- part (b): scalar 512-bit product / reduction carry macros
SM = "harness/C05/arith_scmul.c"
UNITS.append(U("C05.sc_mul_512", ["C05"], SM, "h_sc_mul_512", verify=True, replace=UF, functions=["secp256k1_scalar_mul_512", "secp256k1_scalar_sqr_512"],
               tier="quick", timeout=900, replay=False, note="UF multiplier bounded by (2^64-1)^2"))
UNITS.append(U("C05.sc_reduce_512", ["C05"], SM, "h_sc_reduce_512", verify=True, functions=["secp256k1_scalar_reduce_512"],
               tier="quick", timeout=900, replay=False, note="real multiplications by the constant limbs of 2^256-n"))
UNITS.append(U("C05.sc_mul_512.W128S", ["C05"], SM, "h_sc_mul_512", cfg="W128S", verify=True, replace=["secp256k1_umul128"], assumed=["secp256k1_umul128"],
               functions=["secp256k1_scalar_mul_512", "secp256k1_scalar_sqr_512", "secp256k1_u128_mul"], tier="thorough", timeout=1500, replay=False, note="struct int128: only umul128 is the UF"))
UNITS.append(U("C05.sc_reduce_512.W128S", ["C05"], SM, "h_sc_reduce_512", cfg="W128S", verify=True, replace=["secp256k1_umul128"], assumed=["secp256k1_umul128"],
               functions=["secp256k1_scalar_reduce_512", "secp256k1_u128_mul", "secp256k1_u128_accum_mul"], tier="thorough", timeout=1500, replay=False, note="struct int128: umul128 = UF, exact for the constant limbs of 2^256-n"))
UNITS.append(U("C05.sc_mul_512.W64", ["C05"], SM, "h_sc_mul_512", cfg="W64", verify=True, functions=["secp256k1_scalar_mul_512", "secp256k1_scalar_sqr_512"],
               tier="thorough", timeout=1500, replay=False, note="8x32: native 32x32->64 products"))
UNITS.append(U("C05.sc_reduce_512.W64", ["C05"], SM, "h_sc_reduce_512", cfg="W64", verify=True, functions=["secp256k1_scalar_reduce_512"],
               tier="thorough", timeout=1500, replay=False))
fam("fe_signed", FE, "h_fe_signed", ["secp256k1_fe_to_signed62", "secp256k1_fe_from_signed62", "secp256k1_scalar_to_signed62", "secp256k1_scalar_from_signed62", "secp256k1_fe_impl_get_bounds"], quick=False)
# VALUE of scalar_reduce_512 (h_sc_reduce_512_value: r == l mod n via three limb-wise folds): tried on the full 512-bit input with MiniSat
# (1670 s) and CaDiCaL (3600 s) and with only one non-zero high limb (-DRV_HI_LIMBS=1, CaDiCaL 1200 s): undecided every time -> not listed,
# the value stays assumed residue.
# VALUE of scalar_mul_512 relative to the uninterpreted multiplier (h_sc_mul_512_value: l == sum umul(a_i,b_j) 2^(64(i+j))): tried, MiniSat 1660 s and
# CaDiCaL 3600 s, undecided -> not listed; the value of the 512-bit product stays assumed residue.
UNITS.append(U("C05.fe_mul_contract", ["C05"], FM, "h_fe_mul_contract", verify=True, enforce=["secp256k1_fe_mul"], replace=UF, functions=["secp256k1_fe_mul", "secp256k1_fe_impl_mul", "secp256k1_fe_mul_inner"],
               timeout=900, tier="quick", replay=False, note="magnitude contract used by the group units, enforced on the real wrapper"))
UNITS.append(U("C05.fe_sqr_contract", ["C05"], FM, "h_fe_sqr_contract", verify=True, enforce=["secp256k1_fe_sqr"], replace=UF, functions=["secp256k1_fe_sqr", "secp256k1_fe_impl_sqr", "secp256k1_fe_sqr_inner"],
               timeout=900, tier="quick", replay=False))
UNITS.append(U("C05.sc_mul_shift", ["C05"], SM, "h_sc_mul_shift", verify=True, replace=UF, functions=["secp256k1_scalar_mul_shift_var"],
               tier="thorough", timeout=1800, replay=False, note="index/shift safety and VERIFY_CHECKs for every shift in [257,512] (the library uses 384); shift = 256 and the rounded value are residue"))
UNITS.append(U("C05.sc_mul_shift_value", ["C05"], "harness/C05/arith_mulshift_value.c", "h_sc_mul_shift_value", replace=["secp256k1_scalar_mul_512"],
               assumed=["secp256k1_scalar_mul_512 (value of the 512-bit product; logged only)"], functions=["secp256k1_scalar_mul_shift_var", "secp256k1_scalar_cadd_bit"],
               tier="quick", timeout=600, min_obl=100, unwind=10, replay=False,
               note="rounded value of mul_shift_var for every product and every shift in [257,512]; the product is an oracle"))
UNITS.append(U("C05.fe_mul_contract.W64", ["C05"], FM, "h_fe_mul_contract", cfg="W64", verify=True, enforce=["secp256k1_fe_mul"], functions=["secp256k1_fe_mul", "secp256k1_fe_impl_mul", "secp256k1_fe_mul_inner"],
               timeout=1500, tier="thorough", replay=False, note="10x26: native products, nothing replaced"))
UNITS.append(U("C05.fe_sqr_contract.W64", ["C05"], FM, "h_fe_sqr_contract", cfg="W64", verify=True, enforce=["secp256k1_fe_sqr"], functions=["secp256k1_fe_sqr", "secp256k1_fe_impl_sqr", "secp256k1_fe_sqr_inner"],
               timeout=1500, tier="thorough", replay=False))

# obligation counts observed at authoring time (vacuity guard: a run must produce at least 70% of them)
OBSERVED = {
    "C05.fe_add": 115,
    "C05.fe_add.W128V": 325,
    "C05.fe_add.W64": 192,
    "C05.fe_add.W64V": 522,
    "C05.fe_b32": 1381,
    "C05.fe_b32.W128V": 1598,
    "C05.fe_b32.W64": 1488,
    "C05.fe_b32.W64V": 1825,
    "C05.fe_cmp": 62,
    "C05.fe_cmp.W128V": 250,
    "C05.fe_cmp.W64": 59,
    "C05.fe_cmp.W64V": 367,
    "C05.fe_half": 90,
    "C05.fe_half.W128V": 281,
    "C05.fe_half.W64": 132,
    "C05.fe_half.W64V": 443,
    "C05.fe_mul_contract": 1032,
    "C05.fe_mul_contract.W64": 3402,
    "C05.fe_mul_inner": 875,
    "C05.fe_mul_inner.W128S": 955,
    "C05.fe_mul_inner.W64": 3054,
    "C05.fe_mul_int": 90,
    "C05.fe_mul_int.W128V": 288,
    "C05.fe_mul_int.W64": 130,
    "C05.fe_mul_int.W64V": 448,
    "C05.fe_negate": 119,
    "C05.fe_negate.W128V": 313,
    "C05.fe_negate.W64": 196,
    "C05.fe_negate.W64V": 511,
    "C05.fe_normalize": 106,
    "C05.fe_normalize.W128V": 296,
    "C05.fe_normalize.W64": 148,
    "C05.fe_normalize.W64V": 458,
    "C05.fe_normalize_m32.W64": 148,
    "C05.fe_normalize_var": 105,
    "C05.fe_normalize_var.W128V": 295,
    "C05.fe_normalize_var.W64": 147,
    "C05.fe_normalize_var.W64V": 457,
    "C05.fe_normalize_var_m32.W64": 147,
    "C05.fe_normalize_weak": 89,
    "C05.fe_normalize_weak.W128V": 272,
    "C05.fe_normalize_weak.W64": 131,
    "C05.fe_normalize_weak.W64V": 434,
    "C05.fe_normalize_weak_m32.W64": 131,
    "C05.fe_ntz": 62,
    "C05.fe_ntz.W128V": 238,
    "C05.fe_ntz.W64": 69,
    "C05.fe_ntz.W64V": 365,
    "C05.fe_ntz_m32.W64": 69,
    "C05.fe_signed": 339,
    "C05.fe_signed.W128V": 539,
    "C05.fe_signed.W64": 527,
    "C05.fe_signed.W64V": 851,
    "C05.fe_small": 269,
    "C05.fe_small.W128V": 524,
    "C05.fe_small.W64": 441,
    "C05.fe_small.W64V": 816,
    "C05.fe_sqr_contract": 666,
    "C05.fe_sqr_contract.W64": 2076,
    "C05.fe_sqr_inner": 506,
    "C05.fe_sqr_inner.W128S": 586,
    "C05.fe_sqr_inner.W64": 1725,
    "C05.fe_storage": 279,
    "C05.fe_storage.W128V": 475,
    "C05.fe_storage.W64": 480,
    "C05.fe_storage.W64V": 796,
    "C05.ge_predicates": 1347,
    "C05.ge_predicates.W64": 1845,
    "C05.ge_set_gej": 697,
    "C05.ge_set_gej.W64": 859,
    "C05.ge_storage": 641,
    "C05.ge_storage.W64": 1007,
    "C05.gej_add_ge": 960,
    "C05.gej_add_ge.W64": 1398,
    "C05.gej_add_ge_var": 1039,
    "C05.gej_add_ge_var.W64": 1487,
    "C05.gej_add_var": 965,
    "C05.gej_add_var.W64": 1413,
    "C05.gej_add_zinv_var": 993,
    "C05.gej_add_zinv_var.W64": 1441,
    "C05.gej_double": 884,
    "C05.gej_double.W64": 1327,
    "C05.group_small": 916,
    "C05.group_small.W64": 1274,
    "C05.i128": 88,
    "C05.i128.W128S": 176,
    "C05.i128.W128SV": 201,
    "C05.sc_add": 210,
    "C05.sc_add.W128S": 266,
    "C05.sc_add.W128V": 223,
    "C05.sc_add.W64": 332,
    "C05.sc_add.W64V": 345,
    "C05.sc_b32": 528,
    "C05.sc_b32.W128S": 584,
    "C05.sc_b32.W128V": 541,
    "C05.sc_b32.W64": 550,
    "C05.sc_b32.W64V": 563,
    "C05.sc_bits": 140,
    "C05.sc_bits.W128S": 196,
    "C05.sc_bits.W128V": 169,
    "C05.sc_bits.W64": 174,
    "C05.sc_bits.W64V": 201,
    "C05.sc_mul_512": 668,
    "C05.sc_mul_512.W64": 1807,
    "C05.sc_mul_shift": 595,
    "C05.sc_neg": 267,
    "C05.sc_neg.W128S": 323,
    "C05.sc_neg.W128V": 297,
    "C05.sc_neg.W64": 421,
    "C05.sc_neg.W64V": 455,
    "C05.sc_reduce_512": 299,
    "C05.sc_reduce_512.W64": 441,
    "C05.sc_small": 313,
    "C05.sc_small.W128S": 313,
    "C05.sc_small.W128V": 336,
    "C05.sc_small.W64": 543,
    "C05.sc_small.W64V": 570,
    "C05.u128": 80,
    "C05.u128.W128S": 169,
    "C05.u128.W128SV": 182,
    "C05.umul_axioms": 36,
    "C05.util_bits": 80,
    "C05.util_bits.W128V": 105,
    "C05.util_bits.builtin_clz": 79,
    "C05.util_endian": 417,
    "C05.util_loops": 339,
    "C05.util_loops_b24": 239,
    "C05.util_memczero_b192": 37,
}
for _u in UNITS:
    if _u.name in OBSERVED:
        _u.min_obl = max(_u.min_obl, int(0.7 * OBSERVED[_u.name]))
UNITS.append(U("C05.spec_lemmas", ["C05"], FE, "h_spec_lemmas", functions=[], tier="quick", timeout=300, replay=False,
               note="lemma harness: contracts/pre.h scalar_ok / fe_canon / fe_mag (limb-wise transcriptions) equal their value-level meaning for every bit pattern"))
OBSERVED.update({"C05.spec_lemmas": 165, "C05.sc_mul_512.W128S": 675, "C05.sc_reduce_512.W128S": 397, "C05.fe_mul_inner.W128S": 941, "C05.fe_sqr_inner.W128S": 572})
for _u in UNITS:
    if _u.name in OBSERVED:
        _u.min_obl = max(1, int(0.7 * OBSERVED[_u.name]))

# ---- STRETCH (not registered): stepwise congruence r == a b (mod p) of fe_mul_inner relative to the uninterpreted multiplier, harness/C05/arith_fecong.c.
# Status after the 2.5 h time box (CaDiCaL):
#   h_fe_mul_cong_steps (-DCONG_OBL=1): PASSES, 1567 obligations, 764 s - every bracket of the function's comment invariants equals the rule book
#                                       of the harness-side witness run, the collected columns are the schoolbook column sums, K < 2^330;
#   h_fe_mul_cong_miter (verify=True, replace u128_mul/u128_accum_mul): real output limb == witness limb - UNDECIDED at 1800 s (twice);
#   h_fe_mul_cong_rule: the four bookkeeping rules change G(e) = sum e_k 2^(52k) as stated - UNDECIDED at 1800 s (704-bit adder miters).
# Earlier formulation (640-bit invariants Added == bracket + K p with havoc between cut points): only invariant 1 of 13 closed in 150 s per step;
# z3 and cvc5 back ends (cbmc --z3 / --cvc5) did not close a single step in 200-300 s either.
# Without the miter the passing steps unit says nothing about the real code, so NONE of the three is listed; r == a b (mod p) stays assumed residue.

from core import Unit as U
H = "harness/C07/misc_parsers.c"
XO = ["secp256k1_ge_set_xo_var"]
UNITS = [
    U("C07.ec_pubkey_parse", ["C07"], H, "h_ec_pubkey_parse", replace=XO + ["secp256k1_ge_is_valid_var"], assumed=XO + ["secp256k1_ge_is_valid_var"],
      functions=["secp256k1_ec_pubkey_parse", "secp256k1_eckey_pubkey_parse", "secp256k1_fe_impl_set_b32_limit", "secp256k1_ge_set_xy", "secp256k1_pubkey_save", "secp256k1_ge_to_bytes", "secp256k1_ge_to_storage"],
      unwind=70, timeout=600, min_obl=100, replay=True, note="every inputlen 0..100, input object of exactly inputlen bytes"),
    U("C07.ecdsa_s2c_opening_parse", ["C07"], H, "h_s2c_opening_parse", replace=XO + ["secp256k1_ge_is_valid_var"], assumed=XO + ["secp256k1_ge_is_valid_var"],
      functions=["secp256k1_ecdsa_s2c_opening_parse", "secp256k1_ec_pubkey_parse", "secp256k1_eckey_pubkey_parse"], unwind=70, timeout=600, min_obl=100, replay=True),
    U("C07.xonly_pubkey_parse", ["C07"], H, "h_xonly_pubkey_parse", replace=XO, assumed=XO,
      functions=["secp256k1_xonly_pubkey_parse", "secp256k1_xonly_pubkey_save", "secp256k1_fe_impl_set_b32_limit"], unwind=70, timeout=600, min_obl=100, replay=True),
    U("C07.ecdsa_signature_parse_compact", ["C07"], H, "h_sig_parse_compact",
      functions=["secp256k1_ecdsa_signature_parse_compact", "secp256k1_scalar_set_b32", "secp256k1_ecdsa_signature_save"], unwind=70, timeout=600, min_obl=50, replay=True),
    U("C07.ecdsa_recoverable_signature_parse_compact", ["C07"], H, "h_recsig_parse_compact",
      functions=["secp256k1_ecdsa_recoverable_signature_parse_compact", "secp256k1_scalar_set_b32", "secp256k1_ecdsa_recoverable_signature_save"], unwind=70, timeout=600, min_obl=50, replay=True),
    U("C07.pedersen_commitment_parse", ["C07"], H, "h_pedersen_commitment_parse", replace=["secp256k1_ge_x_on_curve_var"], assumed=["secp256k1_ge_x_on_curve_var"],
      functions=["secp256k1_pedersen_commitment_parse", "secp256k1_fe_impl_set_b32_limit"], unwind=70, timeout=600, min_obl=50, replay=True),
    U("C07.generator_parse", ["C07", "C19"], H, "h_generator_parse", replace=["secp256k1_ge_set_xquad"], assumed=["secp256k1_ge_set_xquad"],
      functions=["secp256k1_generator_parse", "secp256k1_generator_save", "secp256k1_ge_neg", "secp256k1_fe_impl_set_b32_limit"], unwind=70, timeout=600, min_obl=100, replay=True,
      note="also discharges the contract of secp256k1_generator_parse used by C19.gens_parse (frame, 0/1, no callback) for non-NULL arguments"),
    U("C07.ellswift_decode", ["C07"], H, "h_ellswift_decode", replace=["secp256k1_ellswift_swiftec_var"], assumed=["secp256k1_ellswift_swiftec_var"],
      functions=["secp256k1_ellswift_decode", "secp256k1_fe_impl_set_b32_mod", "secp256k1_fe_impl_normalize_var", "secp256k1_pubkey_save"], unwind=70, timeout=600, min_obl=100, replay=True),
    U("C07.ellswift_xdh", ["C07", "C18"], H, "h_ellswift_xdh",
      replace=["secp256k1_ellswift_xswiftec_frac_var", "secp256k1_ecmult_const_xonly", "secp256k1_sha256_write", "secp256k1_sha256_finalize"],
      assumed=["secp256k1_ellswift_xswiftec_frac_var", "secp256k1_ecmult_const_xonly"],
      functions=["secp256k1_ellswift_xdh", "ellswift_xdh_hash_function_bip324_impl", "ellswift_xdh_hash_function_prefix_impl", "secp256k1_scalar_set_b32", "secp256k1_scalar_cmov"],
      unwind=70, timeout=900, min_obl=100, replay=False, note="hash callback: BIP324, prefix, a user stub, or NULL"),
]

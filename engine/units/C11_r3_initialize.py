from core import Unit as U
# C11/C07 r3 (eng_ells_b): secp256k1_surjectionproof_initialize under contract (harness/C11/r3_initialize.c).
INIT = "secp256k1_surjectionproof_initialize"
NEXT = "secp256k1_surjectionproof_csprng_next"
H = "harness/C11/r3_initialize.c"
# number of set bits of the 32-byte bitmap, written out (the clause parser has no preprocessor and no spec functions)
POP = "(" + " + ".join("((proof->used_inputs[%d] >> %d) & 1)" % (k, b) for k in range(32) for b in range(8)) + ")"
# "a matching input has been recorded": its index is in range, selected, and its tag equals the output tag at the ghost byte
HAS = ("(has_output_tag == 0 || (has_output_tag == 1 && *input_index < n_input_tags"
       " && ((proof->used_inputs[*input_index / 8] >> (*input_index % 8)) & 1) == 1"
       " && fixed_input_tags[*input_index].data[verif_sj_gk] == fixed_output_tag->data[verif_sj_gk]))")
# no bit at the ghost position when it is not the position of an input
PAD = "(verif_sj_gbit >= n_input_tags ==> ((proof->used_inputs[verif_sj_gbit / 8] >> (verif_sj_gbit % 8)) & 1) == 0)"
COMMON = "csprng.state_i <= 32 && proof->n_inputs == n_input_tags"
INIT_LOOPS = {INIT: {
    # the iteration loop `while (1)` at function level: ordinal from `goto-instrument --show-loops` (its source line is a
    # substring of the inner loop's line, so it cannot be named by a fragment); the eight ARG_CHECK do-while(0) are not loops
    0: {
        "assigns": "n_iterations, *input_index, csprng, __CPROVER_object_whole(proof)",
        "invariants": "(n_iterations == 0 || n_iterations < n_max_iterations) && " + COMMON,
        "decreases": "n_max_iterations - n_iterations"},
    "for (i = 0; i < n_input_tags_to_use; i++)": {
        "assigns": "i, has_output_tag, *input_index, csprng, __CPROVER_object_whole(proof)",
        "invariants": "i <= n_input_tags_to_use && " + POP + " == i && " + HAS + " && " + PAD + " && " + COMMON,
        "decreases": "n_input_tags_to_use - i"},
    # redraw until a position that is not yet selected: no decreases clause (terminates with probability 1 only)
    "            while (1) {": {
        "assigns": "has_output_tag, *input_index, csprng, __CPROVER_object_whole(proof)",
        "invariants": "i < n_input_tags_to_use && " + POP + " == i && " + HAS + " && " + PAD + " && " + COMMON},
}}
NEXT_LOOPS = {NEXT: {
    "while (1) {": {
        "assigns": "__CPROVER_object_whole(csprng)",
        "invariants": "csprng->state_i <= 32"},
}}
SHA = ["secp256k1_sha256_write", "secp256k1_sha256_finalize"]
# PENDING (eng_ells_b, 21:50): C11.r3_initialize is written (harness h_sjp_initialize, oracle contract, three loop contracts below) but
# NOT ADMITTED and therefore NOT in UNITS.  What was tried: one run on the unchanged tree (all five pointer arguments NULL-or-object through
# conditional expressions, proof object nondet, POP = 256-term bit count in two invariants): goto-cc 11 s, goto-instrument accepted all three
# loop contracts (the loops.json was generated, ordinal 0 = the iteration loop), then cbmc spent > 9 min in symbolic execution (640 MB, no
# "Runtime Symex" line yet) on a machine with load 20 when it was stopped for the time box; no verdict, no failed obligation seen.
# Next steps for whoever continues: (a) let it run (the sibling loop-contract units C11.compute_pubkeys* need up to an hour);
# (b) one call site with constant pointers for the legal path and a second one for the NULL patterns (harness/C11/parse.c idiom: a conditional
# pointer costs ~7x); (c) assigns `__CPROVER_object_upto(proof->used_inputs, 32)` instead of the whole 8 KiB proof object;
# (d) if the bit-count step is the hard part, fall back to "at least one bit / the matching input's bit is set" (drop POP) and say so.
# Mutants prepared for it (not run): mutants/C11_r3_init_*.diff.
PENDING = [
    U("C11.r3_initialize", ["C11", "C07"], H, "h_sjp_initialize", replace=[NEXT], assumed=[],
      loop_contracts=INIT_LOOPS, functions=[INIT, "secp256k1_surjectionproof_csprng_init", "secp256k1_memcmp_var"],
      timeout=3600, min_obl=100, unwind=34, tier="thorough",
      closed_by="loop contracts (engine-supplied, no /repo edit) on the iteration loop (count < n_max_iterations, decreases), the subset loop "
                "(bit count of the bitmap == i, recorded match is selected and byte-equal, decreases) and the redraw loop (same invariant, partial "
                "correctness: it terminates with probability 1 only); memcmp_var's 32-byte loop unwound",
      note="every NULL pattern, every n_input_tags < 2^40 (exact-size tag list), every subset size, iteration limit, seed and tag content; "
           "csprng_next replaced by the frame-only oracle (arbitrary value < rand_max, contracts/assumed_r3_surj_init.h) that C11.r3_csprng_next "
           "proves on the real body; termination and the distribution of the subset are not decided"),
]
UNITS = [
    U("C11.r3_csprng_next", ["C11", "C07"], H, "h_sjp_csprng_next", enforce=[NEXT], replace=SHA, assumed=SHA, defs=["R3_SURJ_SHA_STUBS"],
      loop_contracts=NEXT_LOOPS, functions=[NEXT], timeout=900, min_obl=195, unwind=34,
      closed_by="loop contract on the rejection loop (byte position <= 32; partial correctness: terminates with probability 1 only)",
      note="the oracle contract used by C11.r3_initialize enforced on the real generator: result < rand_max for rand_max 1..65536, state reads "
           "inside the 32 bytes, position <= 32; sha256_write/_finalize are frame-only stubs (hash object / 32 output bytes overwritten)"),
]

from core import Unit as U
UNITS = [
    U("C10.getheader", ["C10", "C09", "C07"], "harness/C10/getheader.c", "h_getheader",
      functions=["secp256k1_rangeproof_getheader_impl"], timeout=300, min_obl=20, replay=True, unwind=20,
      closed_by="full unwinding to the code-enforced constant (exp <= 18, 8 length bytes); unwinding assertions prove the bound",
      note="accept set and every output equal an independent 128-bit spec for all byte strings, plen <= 6000"),
]

from core import Unit as U
HASH = ["secp256k1_sha256_write", "secp256k1_sha256_finalize"]
GEN = ["secp256k1_ecmult_gen", "secp256k1_ge_set_gej"]
S2C_REPL = ["secp256k1_ecdsa_sig_sign", "nonce_function_rfc6979_impl", "secp256k1_ec_commit_seckey"] + GEN
# Retry loop of secp256k1_ecdsa_sign_inner in sign-to-contract mode.  *s2c_sha (the caller's tagged hash object) is always in the assigns clause;
# the invariant keeps its identifying fields at their loop-entry values UNTIL the first commitment attempt (g_cs.used is the sticky "an
# ec_commit_seckey call was made" flag of the contract log).  So the first commitment attempt is proved to start from the midstate
# (unsuppressed obligation), and only a later attempt - possible only after a core-signer failure, finding F3 - sees an unconstrained object.
SIGN_LOOP_S2C = {"secp256k1_ecdsa_sign_inner": {"while (1)": {
    "assigns": "ret, count, non, __CPROVER_object_whole(nonce32), *r, *s; recid != NULL: *recid; s2c_opening != NULL: *s2c_opening; s2c_sha != NULL: *s2c_sha; verif_nonce_calls, g_nf, g_ss, g_cs, g_genl, g_sgl",
    "invariants": "count == verif_nonce_calls && (g_cs.used == 0 || g_cs.used == 1) && ((g_cs.used == 0 && s2c_sha != NULL) ==> "
                  "(s2c_sha->s[0] == __CPROVER_loop_entry(s2c_sha->s[0]) && s2c_sha->s[7] == __CPROVER_loop_entry(s2c_sha->s[7]) && s2c_sha->bytes == __CPROVER_loop_entry(s2c_sha->bytes)))"}}}
# signer_commit: "once a nonce was accepted, k is a non-zero reduced scalar whose byte g_nk is the byte logged by the most recent RFC 6979 call"
SIGNER_LOOP = {"secp256k1_ecdsa_anti_exfil_signer_commit": {"while (!is_nonce_valid)": {
    "assigns": "count, is_nonce_valid, k, __CPROVER_object_whole(nonce32); verif_nonce_calls, g_nf",
    "invariants": "count == verif_nonce_calls && (is_nonce_valid == 0 || (is_nonce_valid == 1 && "
                  "(k.d[3] < 0xFFFFFFFFFFFFFFFFULL || (k.d[2] < 0xFFFFFFFFFFFFFFFEULL || (k.d[2] == 0xFFFFFFFFFFFFFFFEULL && (k.d[1] < 0xBAAEDCE6AF48A03BULL || (k.d[1] == 0xBAAEDCE6AF48A03BULL && k.d[0] < 0xBFD25E8CD0364141ULL))))) && "
                  "(k.d[0] | k.d[1] | k.d[2] | k.d[3]) != 0 && (unsigned char)(k.d[3 - g_nk / 8] >> (8 * (7 - g_nk % 8))) == g_nf.out_byte))"}}}
UNITS = [
    U("C15.ec_commit_tweak", ["C15"], "harness/C15/ec_commit.c", "h_ec_commit_tweak", defs=["UNIT_TWEAK"], replace=HASH, unwind=66,
      functions=["secp256k1_ec_commit_tweak", "secp256k1_ec_commit_pubkey_serialize_const", "secp256k1_fe_normalize", "secp256k1_fe_get_b32"],
      timeout=600, min_obl=1135, replay=False, note="hash stream contracts (proved in C05.sha256_write/finalize) replace the SHA calls; data_size symbolic up to 100000"),
    U("C15.ec_commit_seckey", ["C15"], "harness/C15/ec_commit.c", "h_ec_commit_seckey", defs=["UNIT_SECKEY"], replace=HASH, unwind=66,
      functions=["secp256k1_ec_commit_seckey", "secp256k1_ec_commit_tweak", "secp256k1_ec_seckey_tweak_add_helper", "secp256k1_eckey_privkey_tweak_add", "secp256k1_scalar_set_b32", "secp256k1_scalar_add"],
      timeout=600, min_obl=1393, replay=False),
    U("C15.ec_commit", ["C15"], "harness/C15/ec_commit.c", "h_ec_commit", defs=["UNIT_POINT"], replace=HASH + ["secp256k1_ecmult", "secp256k1_ge_set_gej"],
      assumed=["secp256k1_ecmult", "secp256k1_ge_set_gej"], unwind=66,
      functions=["secp256k1_ec_commit", "secp256k1_ec_commit_tweak", "secp256k1_ec_pubkey_tweak_add_helper", "secp256k1_eckey_pubkey_tweak_add", "secp256k1_gej_set_ge"],
      timeout=600, min_obl=1826, replay=False),
    U("C15.verify_commit", ["C15"], "harness/C15/verify_commit.c", "h_verify_commit", replace=["secp256k1_ec_commit"],
      functions=["secp256k1_ecdsa_s2c_verify_commit", "secp256k1_ecdsa_s2c_opening_load", "secp256k1_pubkey_load", "secp256k1_s2c_ecdsa_point_sha256_tagged",
                 "secp256k1_ecdsa_signature_load", "secp256k1_fe_normalize", "secp256k1_fe_get_b32", "secp256k1_scalar_set_b32", "secp256k1_scalar_eq"],
      timeout=600, min_obl=1327, replay=False, note="secp256k1_ec_commit replaced by its logging contract (hash wiring / tweak gate proved by C15.ec_commit*)"),
    U("C15.host_verify_sem", ["C15"], "harness/C15/host_verify_sem.c", "h_host_verify_sem", replace=["secp256k1_ecdsa_s2c_verify_commit", "secp256k1_ecdsa_sig_verify"],
      functions=["secp256k1_anti_exfil_host_verify", "secp256k1_ecdsa_verify"], timeout=300, min_obl=300, replay=False,
      note="semantic form of host_verify = verify_commit AND ecdsa_verify: independent of whether ecdsa_verify is called or inlined"),
    U("C15.host_verify_structural", ["X-structural"], "harness/C15/host_verify.c", "h_host_verify", replace=["secp256k1_ecdsa_s2c_verify_commit", "secp256k1_ecdsa_verify"],
      functions=["secp256k1_anti_exfil_host_verify"], timeout=300, min_obl=130, replay=False,
      note="lemma over the verdict-oracle contracts of the two callees (gates: C15.verify_commit, C01.verify_api)"),
    U("C15.host_commit", ["C15"], "harness/C15/host_commit.c", "h_host_commit", replace=HASH, unwind=66,
      functions=["secp256k1_ecdsa_anti_exfil_host_commit", "secp256k1_s2c_ecdsa_data_sha256_tagged"], timeout=300, min_obl=524, replay=False),
    U("C15.s2c_sign", ["C15"], "harness/C15/s2c_sign.c", "h_s2c_sign", replace=HASH + S2C_REPL, assumed=GEN, unwind=66,
      loop_contracts=SIGN_LOOP_S2C, closed_by="loop contract on the nonce retry loop (engine-supplied --loop-contracts-file, no /repo edit); partial correctness, termination not claimed",
      functions=["secp256k1_ecdsa_s2c_sign", "secp256k1_anti_exfil_sign", "secp256k1_ecdsa_sign_inner", "secp256k1_s2c_ecdsa_data_sha256_tagged", "secp256k1_s2c_ecdsa_point_sha256_tagged",
                 "secp256k1_ecdsa_s2c_opening_save", "secp256k1_scalar_set_b32_seckey", "secp256k1_ecdsa_signature_save"],
      timeout=1800, min_obl=1925, replay=False,
      note="full argument space (every pointer NULL or object, built or unbuilt context, anti_exfil_sign entry); measured 110-150 s of cbmc on a loaded machine - kept in the quick tier because it is the central C15 wiring unit"),
    U("C15.signer_commit", ["C15"], "harness/C15/signer_commit.c", "h_signer_commit", replace=["nonce_function_rfc6979_impl"] + GEN, assumed=GEN,
      extra_instrument=[["--remove-function-pointers"]],   # cbmc 6.11: a call through the const function pointer secp256k1_nonce_function_default inside the loop hides the loop from --loop-contracts-file
      loop_contracts=SIGNER_LOOP, closed_by="loop contract on the nonce loop (engine-supplied, no /repo edit): attempt counter == number of RFC 6979 calls, and an accepted k is a non-zero reduced scalar equal to the last RFC 6979 output; partial correctness",
      functions=["secp256k1_ecdsa_anti_exfil_signer_commit", "nonce_function_rfc6979", "secp256k1_scalar_set_b32_seckey", "secp256k1_ecdsa_s2c_opening_save"],
      timeout=900, min_obl=996, replay=False),
    U("C15.opening_codec", ["C15"], "harness/C15/opening_codec.c", "h_opening_codec", replace=["secp256k1_ec_pubkey_parse", "secp256k1_ec_pubkey_serialize"],
      functions=["secp256k1_ecdsa_s2c_opening_parse", "secp256k1_ecdsa_s2c_opening_serialize"], timeout=300, min_obl=191, replay=False,
      note="pass-through lemma: the opening codec is the compressed public-key codec, whose specification is proved by the C03 pubkey units"),
]

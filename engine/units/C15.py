from core import Unit as U
HASH = ["secp256k1_sha256_write", "secp256k1_sha256_finalize"]
UNITS = [
    U("C15.ec_commit_tweak", ["C15"], "harness/C15/ec_commit.c", "h_ec_commit_tweak", defs=["UNIT_TWEAK"], replace=HASH, unwind=66,
      functions=["secp256k1_ec_commit_tweak", "secp256k1_ec_commit_pubkey_serialize_const", "secp256k1_fe_normalize", "secp256k1_fe_get_b32"],
      timeout=600, min_obl=50, replay=False, note="hash stream contracts (proved in C05.sha256_write/finalize) replace the SHA calls; data_size symbolic up to 100000"),
    U("C15.ec_commit_seckey", ["C15"], "harness/C15/ec_commit.c", "h_ec_commit_seckey", defs=["UNIT_SECKEY"], replace=HASH, unwind=66,
      functions=["secp256k1_ec_commit_seckey", "secp256k1_ec_commit_tweak", "secp256k1_ec_seckey_tweak_add_helper", "secp256k1_eckey_privkey_tweak_add", "secp256k1_scalar_set_b32", "secp256k1_scalar_add"],
      timeout=600, min_obl=50, replay=False),
    U("C15.ec_commit", ["C15"], "harness/C15/ec_commit.c", "h_ec_commit", defs=["UNIT_POINT"], replace=HASH + ["secp256k1_ecmult", "secp256k1_ge_set_gej"],
      assumed=["secp256k1_ecmult", "secp256k1_ge_set_gej"], unwind=66,
      functions=["secp256k1_ec_commit", "secp256k1_ec_commit_tweak", "secp256k1_ec_pubkey_tweak_add_helper", "secp256k1_eckey_pubkey_tweak_add", "secp256k1_gej_set_ge"],
      timeout=600, min_obl=50, replay=False),
    U("C15.verify_commit", ["C15"], "harness/C15/verify_commit.c", "h_verify_commit", replace=["secp256k1_ec_commit"],
      functions=["secp256k1_ecdsa_s2c_verify_commit", "secp256k1_ecdsa_s2c_opening_load", "secp256k1_pubkey_load", "secp256k1_s2c_ecdsa_point_sha256_tagged",
                 "secp256k1_ecdsa_signature_load", "secp256k1_fe_normalize", "secp256k1_fe_get_b32", "secp256k1_scalar_set_b32", "secp256k1_scalar_eq"],
      timeout=600, min_obl=50, replay=False, note="secp256k1_ec_commit replaced by its logging contract (hash wiring / tweak gate proved by C15.ec_commit*)"),
    U("C15.host_verify", ["C15"], "harness/C15/host_verify.c", "h_host_verify", replace=["secp256k1_ecdsa_s2c_verify_commit", "secp256k1_ecdsa_verify"],
      functions=["secp256k1_anti_exfil_host_verify"], timeout=300, min_obl=10, replay=False,
      note="lemma over the verdict-oracle contracts of the two callees (gates: C15.verify_commit, C01.verify_api)"),
    U("C15.host_commit", ["C15"], "harness/C15/host_commit.c", "h_host_commit", replace=HASH, unwind=66,
      functions=["secp256k1_ecdsa_anti_exfil_host_commit", "secp256k1_s2c_ecdsa_data_sha256_tagged"], timeout=300, min_obl=20, replay=False),
]

from core import Unit as U
HASH = ["secp256k1_sha256_write", "secp256k1_sha256_finalize"]
CTXDEF = ["USE_EXTERNAL_DEFAULT_CALLBACKS"]
def CX(name, entry, functions, **kw):
    kw.setdefault("timeout", 600); kw.setdefault("unwind", 70); kw.setdefault("min_obl", 5)
    return U("C20." + name, ["C20"], "harness/C20/ctx.c", entry, defs=CTXDEF, functions=functions, **kw)
UNITS = [
    CX("ctx_size", "h_ctx_size", ["secp256k1_context_preallocated_size", "secp256k1_context_preallocated_clone_size"]),
    CX("ctx_create", "h_ctx_create", ["secp256k1_context_create", "secp256k1_context_preallocated_create", "secp256k1_selftest", "secp256k1_ecmult_gen_context_build", "checked_malloc"],
       note="malloc/free counted by wrappers; default callbacks external (USE_EXTERNAL_DEFAULT_CALLBACKS)"),
    CX("ctx_clone", "h_ctx_clone", ["secp256k1_context_clone", "secp256k1_context_preallocated_clone"]),
    CX("ctx_destroy", "h_ctx_destroy", ["secp256k1_context_destroy", "secp256k1_context_preallocated_destroy"]),
    CX("ctx_randomize", "h_ctx_randomize", ["secp256k1_context_randomize", "secp256k1_ecmult_gen_blind"],
       replace=HASH + ["secp256k1_ecmult_gen", "secp256k1_ge_set_gej"], assumed=["secp256k1_ecmult_gen", "secp256k1_ge_set_gej"],
       note="hash stream contracts (C05) and frame contracts of ecmult_gen / ge_set_gej replace the calls; the frame 'writes only ecmult_gen_ctx' is over the real blind code"),
    CX("ctx_setters", "h_ctx_setters", ["secp256k1_context_set_illegal_callback", "secp256k1_context_set_error_callback", "secp256k1_context_set_sha256_compression", "secp256k1_selftest_sha256"]),
]

from core import Unit as U
HASH = ["secp256k1_sha256_write", "secp256k1_sha256_finalize"]
CTXDEF = ["USE_EXTERNAL_DEFAULT_CALLBACKS"]
SELFTEST = ["--replace-calls", "secp256k1_selftest_sha256:verif_selftest_stub"]
GATE_STUB = [["--replace-calls", "secp256k1_ecmult_gen:gate_stub_ecmult_gen", "--replace-calls", "nonce_function_rfc6979_impl:gate_stub_rfc6979"]]
GATE_LEAVES = HASH + ["secp256k1_ecmult", "secp256k1_ecmult_const", "secp256k1_ge_set_gej", "secp256k1_ge_set_gej_var", "secp256k1_scalar_inverse", "secp256k1_scalar_inverse_var", "secp256k1_scalar_mul"]
ORV = ["secp256k1_scalar_inverse_var", "secp256k1_scalar_mul", "secp256k1_ecmult", "secp256k1_gej_eq_x_var"]
def CX(name, entry, functions, **kw):
    kw.setdefault("timeout", 600); kw.setdefault("unwind", 70); kw.setdefault("min_obl", 5)
    return U("C20." + name, ["C20"], "harness/C20/ctx.c", entry, defs=CTXDEF, functions=functions, **kw)
UNITS = [
    CX("ctx_size", "h_ctx_size", ["secp256k1_context_preallocated_size", "secp256k1_context_preallocated_clone_size"]),
    CX("ctx_create", "h_ctx_create", ["secp256k1_context_create", "secp256k1_context_preallocated_create", "secp256k1_selftest", "secp256k1_ecmult_gen_context_build", "checked_malloc"],
       extra_instrument=[SELFTEST], assumed=["secp256k1_selftest_sha256"], unwind=300,
       note="malloc/free counted by wrappers; default callbacks external (USE_EXTERNAL_DEFAULT_CALLBACKS); self test of the built-in compression assumed to pass (see harness)"),
    CX("ctx_clone", "h_ctx_clone", ["secp256k1_context_clone", "secp256k1_context_preallocated_clone"]),
    CX("ctx_destroy", "h_ctx_destroy", ["secp256k1_context_destroy", "secp256k1_context_preallocated_destroy"]),
    CX("ctx_randomize", "h_ctx_randomize", ["secp256k1_context_randomize", "secp256k1_ecmult_gen_blind"],
       replace=HASH + ["secp256k1_ecmult_gen", "secp256k1_ge_set_gej"], assumed=["secp256k1_ecmult_gen", "secp256k1_ge_set_gej"],
       unwind=300,
       note="hash stream contracts (C05) and frame contracts of ecmult_gen / ge_set_gej replace the calls; the frame 'writes only ecmult_gen_ctx' is over the real blind code"),
    CX("ctx_setters", "h_ctx_setters", ["secp256k1_context_set_illegal_callback", "secp256k1_context_set_error_callback", "secp256k1_context_set_sha256_compression"],
       extra_instrument=[SELFTEST], assumed=["secp256k1_selftest_sha256"],
       note="self test replaced by a stub with arbitrary verdict for a user candidate (DFCC havocs the non-const static pointer the real one reads through)"),
    # (ii) static-context gates: all 19 entry points that need ecmult_gen
    U("C20.gate_core", ["C20"], "harness/C20/gates.c", "h_gate_core", replace=GATE_LEAVES, extra_instrument=GATE_STUB, unwind=70, timeout=600, min_obl=20,
      functions=["secp256k1_ec_pubkey_create", "secp256k1_ecdsa_sign", "secp256k1_ecdsa_sign_recoverable", "secp256k1_keypair_create", "secp256k1_schnorrsig_sign32", "secp256k1_schnorrsig_sign_custom", "secp256k1_ellswift_create"]),
    U("C20.gate_musig", ["C20"], "harness/C20/gates.c", "h_gate_musig", replace=GATE_LEAVES, extra_instrument=GATE_STUB, unwind=200, timeout=600, min_obl=10,
      functions=["secp256k1_musig_nonce_gen", "secp256k1_musig_nonce_gen_counter"]),
    U("C20.gate_zkp1", ["C20"], "harness/C20/gates.c", "h_gate_zkp1", replace=GATE_LEAVES, extra_instrument=GATE_STUB, unwind=70, timeout=600, min_obl=15,
      functions=["secp256k1_ecdsa_s2c_sign", "secp256k1_ecdsa_anti_exfil_signer_commit", "secp256k1_ecdsa_adaptor_encrypt", "secp256k1_ecdsa_adaptor_recover", "secp256k1_generator_generate_blinded", "secp256k1_pedersen_commit"]),
    U("C20.gate_zkp2", ["C20"], "harness/C20/gates.c", "h_gate_zkp2", replace=GATE_LEAVES, extra_instrument=GATE_STUB, unwind=70, timeout=600, min_obl=15,
      functions=["secp256k1_rangeproof_sign", "secp256k1_rangeproof_rewind", "secp256k1_surjectionproof_generate", "secp256k1_whitelist_sign", "secp256k1_schnorrsig_aggverify"]),
    # (iii) results under arbitrary initial static state
    U("C20.static_state_compact", ["C20"], "harness/C20/state.c", "h_static_state_compact", unwind=70, timeout=300, min_obl=3, replay=True,
      functions=["secp256k1_ecdsa_signature_parse_compact", "secp256k1_ecdsa_signature_serialize_compact"],
      note="DFCC havocs every static-lifetime object at entry: the functional postcondition holds for every prior static state (DER: C03.der.serialize, tagged C20)"),
    # (iv) const-context frames
    U("C20.frame_ecdsa_verify", ["C20"], "harness/C20/frames.c", "h_frame_ecdsa_verify", unwind=70, timeout=600, min_obl=20,
      replace=ORV, assumed=ORV, functions=["secp256k1_ecdsa_verify"]),
    U("C20.frame_pubkey_parse", ["C20"], "harness/C20/frames.c", "h_frame_pubkey_parse", unwind=72, timeout=900, min_obl=20, slice_formula=True,
      replace=["secp256k1_ge_set_xo_var", "secp256k1_ge_is_valid_var"], assumed=["secp256k1_ge_is_valid_var"], functions=["secp256k1_ec_pubkey_parse", "secp256k1_eckey_pubkey_parse"]),
    U("C20.frame_pubkey_serialize", ["C20"], "harness/C20/frames.c", "h_frame_pubkey_serialize", unwind=82, timeout=600, min_obl=20, slice_formula=True,
      functions=["secp256k1_ec_pubkey_serialize"]),
    U("C20.frame_schnorrsig_verify", ["C20"], "harness/C20/frames.c", "h_frame_schnorrsig_verify", unwind=70, timeout=900, min_obl=20, slice_formula=True,
      replace=HASH + ["secp256k1_ecmult", "secp256k1_ge_set_gej_var"], assumed=["secp256k1_ecmult", "secp256k1_ge_set_gej_var"], functions=["secp256k1_schnorrsig_verify"]),
    # results under arbitrary static state: tagged hash (seeded defect C20-1)
    U("C20.tagged_sha256", ["C20"], "harness/C20/tagged.c", "h_tagged_sha256", unwind=70, timeout=900, min_obl=6,
      functions=["secp256k1_tagged_sha256", "secp256k1_sha256_initialize_tagged", "secp256k1_sha256_write", "secp256k1_sha256_finalize"],
      bounded="tag length 13, message length 32 (contents arbitrary)",
      note="behavioural: f(tag,msg) ; f(other) ; f(tag,msg) give equal digests under arbitrary initial statics; compression function uninterpreted; nothing about the internal structure is pinned"),
    U("C20.static_facts", ["C20"], "engine/static_facts.py", "script", script=["python3", "$VERIF/engine/static_facts.py", "--repo", "$REPO"], timeout=600,
      functions=["(every function of the library TU: symbol table and goto program scan)"],
      note="C20 supporting static fact: no static-lifetime object declared under src/ or include/ is written by library code, nor has its address passed to a non-const pointer (address-taken otherwise: warning) (goto-instrument symbol table + goto program scan; not a cbmc obligation)"),
]

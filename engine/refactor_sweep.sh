#!/bin/sh
# usage: engine/refactor_sweep.sh [files...]: every refactors/<Cxx>_*.diff against property <Cxx>; prints rc per file
cd "$(dirname "$0")/.."
F="$@"; [ -z "$F" ] && F=$(ls refactors/*.diff)
for f in $F; do
  P=$(basename $f | cut -d_ -f1)
  ./engine/seedtest.sh $f $P --jobs ${JOBS:-6} > /tmp/refsweep_$(basename $f).log 2>&1; rc=$?
  echo "$(basename $f) property=$P rc=$rc $( [ $rc = 1 ] && echo FALSE-ALARM: $(grep -m1 '^VIOLATION' /tmp/refsweep_$(basename $f).log | sed 's/.*obligation=//' | cut -c1-140))"
done

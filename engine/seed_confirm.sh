#!/bin/sh
# usage: engine/seed_confirm.sh <name> <srcdir with patch.diff demo.c build.sh notes.md>
# Confirms a seeded change independently: applies to a fresh worktree of /repo HEAD, builds, runs the
# full test suite, runs the demonstration with and without the change.  Prints a JSON summary line.
set -u
NAME=$1; SRC=$(readlink -f "$2")
WT=/tmp/confirm_$NAME
git -C /repo worktree remove --force "$WT" 2>/dev/null
git -C /repo worktree add -q "$WT" HEAD || exit 3
cd "$WT"
git apply "$SRC/patch.diff" || { echo "{\"name\":\"$NAME\",\"applies\":false}"; git -C /repo worktree remove --force "$WT"; exit 3; }
cmake -G Ninja -S . -B _build -DCMAKE_BUILD_TYPE=RelWithDebInfo -DCMAKE_C_FLAGS=-Wno-error >/dev/null 2>&1
cmake --build _build -j${JOBS:-6} >_build/build.log 2>&1; BRC=$?
TESTS=$(ctest --test-dir _build -j${JOBS:-6} --timeout 900 2>&1 | grep -E "tests passed|tests failed" | tail -1)
sh "$SRC/build.sh" "$WT" >/tmp/confirm_$NAME.with.log 2>&1; WITH=$?
git apply -R "$SRC/patch.diff"
if [ -d _build ] && grep -q "_build" "$SRC/build.sh"; then cmake --build _build -j${JOBS:-6} >/dev/null 2>&1; fi
sh "$SRC/build.sh" "$WT" >/tmp/confirm_$NAME.without.log 2>&1; WITHOUT=$?
echo "{\"name\":\"$NAME\",\"applies\":true,\"build_rc\":$BRC,\"tests\":\"$TESTS\",\"demo_with_patch_rc\":$WITH,\"demo_without_patch_rc\":$WITHOUT}"
cd /; git -C /repo worktree remove --force "$WT"

#!/bin/sh
# runs every seeded change in /verif/seeded against its property's quick check (scratch worktrees only)
# usage: engine/seed_sweep.sh [ids...]   -> one line per seed: <id> rc=<0|1|2>
cd "$(dirname "$0")/.."
IDS="$@"; [ -z "$IDS" ] && IDS=$(ls seeded)
for s in $IDS; do
  P=$(python3 -c "import json;print(json.load(open('seeded/$s/meta.json'))['breaks_property'])")
  ./engine/seedtest.sh seeded/$s/patch.diff $P --jobs ${JOBS:-6} > /tmp/seedsweep_$s.log 2>&1; rc=$?
  echo "$s property=$P rc=$rc $(grep -c '^VIOLATION' /tmp/seedsweep_$s.log) violations; $(grep -m1 '^VIOLATION' /tmp/seedsweep_$s.log | sed 's/.*obligation=//' | cut -c1-120)"
done

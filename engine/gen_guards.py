#!/usr/bin/env python3
"""Computes engine/guards.json: per unit, the HEAVY callees that (a) have an oracle contract declared in the
unit's translation unit, (b) are NOT reachable from the unit's entry point on the tree this is run against
(the pinned tree), and (c) are not already replaced / enforced / under proof in the unit.

core.py adds them to the unit's --replace-call-with-contract list.  On the tree they were computed for this
changes nothing (there is no call site to replace).  On a changed tree that STARTS calling one of them
(e.g. an 'optimised' comparison through ge_set_gej_var + gej_eq_x_var, i.e. a field inversion) the call meets
the frame-only oracle contract instead of pulling the real body into the SAT problem, where it could only
time out (undecided).  Replacing a callee by its over-approximating contract is the same modular step as every
other replacement in the unit table.

usage: python3 engine/gen_guards.py [--jobs N] [unit-name-prefix ...]    (run against /repo HEAD)"""
import sys, os, re, json, glob, importlib.util, tempfile, shutil, subprocess
from concurrent.futures import ThreadPoolExecutor
sys.path.insert(0, os.path.dirname(os.path.abspath(__file__)))
import core

HEAVY = [
    "secp256k1_scalar_inverse", "secp256k1_scalar_inverse_var", "secp256k1_scalar_mul", "secp256k1_scalar_sqr",
    "secp256k1_fe_impl_inv", "secp256k1_fe_impl_inv_var", "secp256k1_fe_inv", "secp256k1_fe_inv_var",
    "secp256k1_fe_sqrt", "secp256k1_fe_impl_is_square_var", "secp256k1_fe_is_square_var",
    "secp256k1_ge_set_gej", "secp256k1_ge_set_gej_var", "secp256k1_ge_set_all_gej_var", "secp256k1_ge_set_all_gej",
    "secp256k1_ge_set_xo_var", "secp256k1_ge_set_xquad", "secp256k1_gej_eq_x_var",
    "secp256k1_ecmult", "secp256k1_ecmult_gen", "secp256k1_ecmult_const", "secp256k1_ecmult_const_xonly", "secp256k1_ecmult_multi_var",
    "secp256k1_modinv64", "secp256k1_modinv64_var", "secp256k1_jacobi64_maybe_var",
]


def load_units():
    units = []
    for f in sorted(glob.glob(os.path.join(core.VERIF, "engine", "units", "*.py"))):
        try:
            spec = importlib.util.spec_from_file_location("units_" + os.path.basename(f)[:-3], f)
            m = importlib.util.module_from_spec(spec); spec.loader.exec_module(m)
            units += m.UNITS
        except Exception as e:
            print("skip table", f, e, file=sys.stderr)
    return units


def one(u):
    if u.script or u.branch or u.tier != "quick":
        return u.name, None
    wd = tempfile.mkdtemp(prefix="guard_")
    try:
        rc, so, se, t = core.sh(core.compile_cmd(u, wd), 300, wd)
        if rc != 0:
            return u.name, None
        rc, so, se, t = core.sh(["goto-instrument", "--list-symbols", "u.gb"], 120, wd)
        syms = so.decode(errors="replace")
        contracts = set(re.findall(r"^contract::(\S+)", syms, re.M))
        defined = set(re.findall(r"^(secp256k1_\w+) ", syms, re.M))     # goto-cc drops unused static functions: DFCC aborts on a replace target without a function symbol
        rc, so, se, t = core.sh(["goto-instrument", "--reachable-call-graph", "u.gb"], 120, wd)
        reach = set()
        for m in re.finditer(r"^(\S+) -> (\S+)", so.decode(errors="replace"), re.M):
            reach.add(m.group(1)); reach.add(m.group(2))
        if not reach:
            return u.name, None
        have = set(u.replace) | set(u.enforce) | set(u.functions)
        g = [f for f in HEAVY if f in contracts and f in defined and f not in reach and f not in have]
        return u.name, g
    finally:
        shutil.rmtree(wd, ignore_errors=True)


def main():
    args = sys.argv[1:]
    jobs = 8
    if args and args[0] == "--jobs":
        jobs = int(args[1]); args = args[2:]
    units = [u for u in load_units() if not args or any(u.name.startswith(a) for a in args)]
    path = os.path.join(core.VERIF, "engine", "guards.json")
    out = json.load(open(path)) if os.path.exists(path) else {}
    with ThreadPoolExecutor(jobs) as ex:
        for name, g in ex.map(one, units):
            if g:
                out[name] = g
            elif g is not None:
                out.pop(name, None)
            print(name, g, flush=True)
    json.dump(out, open(path, "w"), indent=0, sort_keys=True)


if __name__ == "__main__":
    main()

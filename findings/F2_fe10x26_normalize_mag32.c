/* Finding F2 (C05, 10x26 field only = USE_FORCE_WIDEMUL_INT64 / 32-bit builds):
 * secp256k1_fe_impl_normalize (and _weak/_var/_normalizes_to_zero*) wrap a uint32 limb for inputs of the
 * documented maximum magnitude 32 whose low limbs are within ~2^20 of the permitted bound, and return
 * a value NOT congruent to the input mod p.
 * build: gcc -I/repo F2_fe10x26_normalize_mag32.c -o f2 && ./f2     (prints MISMATCH for m=32) */
#define USE_FORCE_WIDEMUL_INT64 1
#define SECP256K1_BUILD
#define ECMULT_WINDOW_SIZE 15
#define COMB_BLOCKS 43
#define COMB_TEETH 6
#include <stdio.h>
#include "src/util.h"
#include "src/field_impl.h"
typedef unsigned __int128 u128;
/* value mod p of a 10x26 element, computed independently with 128-bit arithmetic: fold limb by limb */
static void val_mod_p(const secp256k1_fe *a, uint64_t out[4]) {
    /* accumulate sum n[i] * 2^(26 i) into a 320-bit little-endian number, then reduce by p = 2^256 - 0x1000003D1 */
    uint64_t w[6] = {0,0,0,0,0,0}; int i, k;
    for (i = 0; i < 10; i++) {
        int bit = 26 * i; u128 v = (u128)a->n[i] << (bit % 64); int idx = bit / 64; u128 c = v;
        for (k = idx; k < 6 && c; k++) { u128 s = (u128)w[k] + (uint64_t)c; w[k] = (uint64_t)s; c = (c >> 64) + (s >> 64); }
    }
    for (k = 0; k < 4; k++) {   /* a few folds of the part above 2^256 */
        u128 hi_lo = w[4], hi_hi = w[5]; u128 c; uint64_t t[6] = {w[0], w[1], w[2], w[3], 0, 0};
        u128 m0 = hi_lo * 0x1000003D1ULL, m1 = hi_hi * 0x1000003D1ULL;
        u128 s = (u128)t[0] + (uint64_t)m0; t[0] = (uint64_t)s; c = (s >> 64) + (m0 >> 64);
        s = (u128)t[1] + (uint64_t)c + (uint64_t)m1; t[1] = (uint64_t)s; c = (c >> 64) + (s >> 64) + (m1 >> 64);
        s = (u128)t[2] + (uint64_t)c; t[2] = (uint64_t)s; c = (c >> 64) + (s >> 64);
        s = (u128)t[3] + (uint64_t)c; t[3] = (uint64_t)s; c = (c >> 64) + (s >> 64);
        t[4] = (uint64_t)c; t[5] = 0;
        for (i = 0; i < 6; i++) w[i] = t[i];
    }
    /* final conditional subtraction of p */
    { int ge = (w[3] == ~0ULL && w[2] == ~0ULL && w[1] == ~0ULL && w[0] >= 0xFFFFFFFEFFFFFC2FULL);
      if (ge) { w[0] -= 0xFFFFFFFEFFFFFC2FULL; w[1] = w[2] = w[3] = 0; } }
    for (i = 0; i < 4; i++) out[i] = w[i];
}
int main(void) {
    int m, bad = 0;
    for (m = 30; m <= 32; m++) {
        secp256k1_fe a, r; uint64_t va[4], vr[4];
        secp256k1_fe_impl_get_bounds(&a, m);       /* the library's own "largest element of magnitude m" */
        r = a; secp256k1_fe_impl_normalize(&r);
        val_mod_p(&a, va); val_mod_p(&r, vr);
        if (va[0] != vr[0] || va[1] != vr[1] || va[2] != vr[2] || va[3] != vr[3]) { printf("MISMATCH m=%d: normalize changed the value mod p\n", m); bad++; }
        else printf("ok m=%d\n", m);
    }
    return bad ? 1 : 0;
}

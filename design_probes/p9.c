#include "cfg.h"
#include "/repo/src/secp256k1.c"
static uint32_t rr(uint32_t x, unsigned n) { return (x >> n) | (x << (32 - n)); }
static const uint32_t SK[64]={0x428a2f98,0x71374491,0xb5c0fbcf,0xe9b5dba5,0x3956c25b,0x59f111f1,0x923f82a4,0xab1c5ed5,0xd807aa98,0x12835b01,0x243185be,0x550c7dc3,0x72be5d74,0x80deb1fe,0x9bdc06a7,0xc19bf174,0xe49b69c1,0xefbe4786,0x0fc19dc6,0x240ca1cc,0x2de92c6f,0x4a7484aa,0x5cb0a9dc,0x76f988da,0x983e5152,0xa831c66d,0xb00327c8,0xbf597fc7,0xc6e00bf3,0xd5a79147,0x06ca6351,0x14292967,0x27b70a85,0x2e1b2138,0x4d2c6dfc,0x53380d13,0x650a7354,0x766a0abb,0x81c2c92e,0x92722c85,0xa2bfe8a1,0xa81a664b,0xc24b8b70,0xc76c51a3,0xd192e819,0xd6990624,0xf40e3585,0x106aa070,0x19a4c116,0x1e376c08,0x2748774c,0x34b0bcb5,0x391c0cb3,0x4ed8aa4a,0x5b9cca4f,0x682e6ff3,0x748f82ee,0x78a5636f,0x84c87814,0x8cc70208,0x90befffa,0xa4506ceb,0xbef9a3f7,0xc67178f2};
static void spec_compress(uint32_t h[8], const unsigned char *blk) {
    uint32_t w[64], a,b,c,d,e,f,g,hh; int i;
    for (i=0;i<16;i++) w[i]=(uint32_t)blk[4*i]<<24|(uint32_t)blk[4*i+1]<<16|(uint32_t)blk[4*i+2]<<8|blk[4*i+3];
    for (i=16;i<64;i++){uint32_t s0=rr(w[i-15],7)^rr(w[i-15],18)^(w[i-15]>>3),s1=rr(w[i-2],17)^rr(w[i-2],19)^(w[i-2]>>10);w[i]=w[i-16]+s0+w[i-7]+s1;}
    a=h[0];b=h[1];c=h[2];d=h[3];e=h[4];f=h[5];g=h[6];hh=h[7];
    for (i=0;i<64;i++){uint32_t S1=rr(e,6)^rr(e,11)^rr(e,25),ch=(e&f)^(~e&g),t1=hh+S1+ch+SK[i]+w[i],S0=rr(a,2)^rr(a,13)^rr(a,22),mj=(a&b)^(a&c)^(b&c),t2=S0+mj;hh=g;g=f;f=e;e=d+t1;d=c;c=b;b=a;a=t1+t2;}
    h[0]+=a;h[1]+=b;h[2]+=c;h[3]+=d;h[4]+=e;h[5]+=f;h[6]+=g;h[7]+=hh;
}
void h_sha(void) {
    uint32_t s1[8], s2[8]; unsigned char blk[64]; int i;
    for (i=0;i<8;i++) s2[i]=s1[i];
    secp256k1_sha256_transform_impl(s1, blk);
    spec_compress(s2, blk);
    for (i=0;i<8;i++) __CPROVER_assert(s1[i]==s2[i], "compression equals FIPS 180-4");
}

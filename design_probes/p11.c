#include "cfg.h"
#include <stddef.h>
extern size_t verif_gi;
static int secp256k1_is_zero_array(const unsigned char *s, size_t len)
__CPROVER_requires(len <= 100000 && __CPROVER_is_fresh(s, len))
__CPROVER_assigns()
__CPROVER_ensures(__CPROVER_return_value == 0 || __CPROVER_return_value == 1)
__CPROVER_ensures((__CPROVER_return_value == 1 && verif_gi < len) ==> s[verif_gi] == 0)
;
#include "/tmp/probe/mut/src/secp256k1.c"
size_t verif_gi;
void h_z(void) { const unsigned char *s; size_t len; secp256k1_is_zero_array(s, len); }

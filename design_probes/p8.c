#include "cfg.h"
#include <stddef.h>
#define SECP256K1_BUILD
#include "ROOT/include/secp256k1.h"
#include "ROOT/src/util.h"
#include "ROOT/src/scalar.h"
static int secp256k1_ecdsa_sig_serialize(unsigned char *sig, size_t *size, const secp256k1_scalar* ar, const secp256k1_scalar* as)
__CPROVER_requires(__CPROVER_is_fresh(size, sizeof(*size)) && *size <= 80)
__CPROVER_requires(__CPROVER_is_fresh(sig, *size))
__CPROVER_requires(__CPROVER_is_fresh(ar, sizeof(*ar)) && __CPROVER_is_fresh(as, sizeof(*as)))
__CPROVER_assigns(*size, __CPROVER_object_whole(sig))
__CPROVER_ensures(__CPROVER_return_value == 0 || __CPROVER_return_value == 1)
__CPROVER_ensures(*size >= 8 && *size <= 72)
__CPROVER_ensures((__CPROVER_return_value == 1) == (__CPROVER_old(*size) >= *size))
;
#include "ROOT/src/secp256k1.c"
void abort(void) { __CPROVER_assert(0, "abort reached"); __CPROVER_assume(0); }
void h_ser(void) {
    unsigned char *sig; size_t *size; const secp256k1_scalar *ar, *as;
    secp256k1_ecdsa_sig_serialize(sig, size, ar, as);
}

#include "cfg.h"
#include <stddef.h>
#define SECP256K1_BUILD
#include "/repo/include/secp256k1.h"
#include "/repo/src/util.h"
#include "/repo/src/scalar.h"
#include "/repo/src/field.h"
#include "/repo/src/group.h"
#include "/repo/src/ecmult.h"
/* ghost verdict log for the x-comparison oracle */
int g_cnt; secp256k1_fe g_x0, g_x1; int g_r0, g_r1; int g_inf;
static int secp256k1_gej_eq_x_var(const secp256k1_fe *x, const secp256k1_gej *a)
__CPROVER_requires(__CPROVER_r_ok(x, sizeof(*x)) && __CPROVER_r_ok(a, sizeof(*a)))
__CPROVER_assigns(g_cnt, g_x0, g_x1, g_r0, g_r1)
__CPROVER_ensures(__CPROVER_return_value == 0 || __CPROVER_return_value == 1)
__CPROVER_ensures(g_cnt == __CPROVER_old(g_cnt) + 1)
__CPROVER_ensures(__CPROVER_old(g_cnt) == 0 ==> (g_x0.n[0]==x->n[0] && g_x0.n[1]==x->n[1] && g_x0.n[2]==x->n[2] && g_x0.n[3]==x->n[3] && g_x0.n[4]==x->n[4] && g_r0 == __CPROVER_return_value))
__CPROVER_ensures(__CPROVER_old(g_cnt) == 1 ==> (g_x1.n[0]==x->n[0] && g_x1.n[1]==x->n[1] && g_x1.n[2]==x->n[2] && g_x1.n[3]==x->n[3] && g_x1.n[4]==x->n[4] && g_r1 == __CPROVER_return_value && g_r0 == __CPROVER_old(g_r0) && g_x0.n[0]==__CPROVER_old(g_x0.n[0]) && g_x0.n[1]==__CPROVER_old(g_x0.n[1]) && g_x0.n[2]==__CPROVER_old(g_x0.n[2]) && g_x0.n[3]==__CPROVER_old(g_x0.n[3]) && g_x0.n[4]==__CPROVER_old(g_x0.n[4])))
;
static void secp256k1_scalar_inverse_var(secp256k1_scalar *r, const secp256k1_scalar *x)
__CPROVER_requires(__CPROVER_w_ok(r, sizeof(*r))) __CPROVER_assigns(*r);
static void secp256k1_scalar_mul(secp256k1_scalar *r, const secp256k1_scalar *a, const secp256k1_scalar *b)
__CPROVER_requires(__CPROVER_w_ok(r, sizeof(*r))) __CPROVER_assigns(*r);
static void secp256k1_ecmult(secp256k1_gej *r, const secp256k1_gej *a, const secp256k1_scalar *na, const secp256k1_scalar *ng)
__CPROVER_requires(__CPROVER_w_ok(r, sizeof(*r))) __CPROVER_assigns(*r)
__CPROVER_ensures(r->infinity == 0 || r->infinity == 1);
#include "/repo/src/secp256k1.c"
void abort(void) { __CPROVER_assert(0, "abort reached"); __CPROVER_assume(0); }
typedef unsigned __CPROVER_bitvector[320] wide;
#define W(x) ((wide)(x))
static wide sval(const secp256k1_scalar *a){ return W(a->d[0]) | (W(a->d[1])<<64) | (W(a->d[2])<<128) | (W(a->d[3])<<192); }
static wide fval(const secp256k1_fe *a){ return W(a->n[0]) + (W(a->n[1])<<52) + (W(a->n[2])<<104) + (W(a->n[3])<<156) + (W(a->n[4])<<208); }
static wide N_(void){ return (W(0xFFFFFFFFFFFFFFFFULL)<<192)|(W(0xFFFFFFFFFFFFFFFEULL)<<128)|(W(0xBAAEDCE6AF48A03BULL)<<64)|W(0xBFD25E8CD0364141ULL); }
static wide P_(void){ return (W(1)<<256) - W(0x1000003D1ULL); }
void h_sv(void) {
    secp256k1_scalar r, s, m; secp256k1_ge q; int ret; wide rv, n = N_(), p = P_();
    __CPROVER_assume(sval(&r) < n && sval(&s) < n && sval(&m) < n);
    g_cnt = 0; rv = sval(&r);
    ret = secp256k1_ecdsa_sig_verify(&r, &s, &q, &m);
    __CPROVER_assert(ret == 0 || ret == 1, "bool");
    if (rv == 0 || sval(&s) == 0) __CPROVER_assert(ret == 0 && g_cnt == 0, "C01: zero r or s rejected before any curve work");
    if (g_cnt >= 1) __CPROVER_assert(fval(&g_x0) == rv, "C01: first x comparison is against r");
    if (g_cnt >= 2) __CPROVER_assert(fval(&g_x1) == rv + n && rv + n < p && g_r0 == 0, "C01: second comparison is against r+n, only when r+n<p and first failed");
    if (ret == 1) __CPROVER_assert((g_cnt == 1 && g_r0 == 1) || (g_cnt == 2 && g_r1 == 1), "C01: accept only on a positive verdict");
    if (ret == 0 && g_cnt == 1) __CPROVER_assert(g_r0 == 0 && rv + n >= p, "C01: single-comparison reject only when r+n>=p");
    if (ret == 0 && g_cnt == 2) __CPROVER_assert(g_r1 == 0, "C01: double-comparison reject");
    __CPROVER_assert(g_cnt <= 2, "at most two comparisons");
}

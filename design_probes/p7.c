#include "cfg.h"
#include "/repo/src/secp256k1.c"
unsigned long g_trace; unsigned g_nbr;
void leak(const char *id) { g_trace = g_trace * 1000003UL + (unsigned long)id + 1; g_nbr++; }
int nondet_int(void);
void h_ct(void) {
    secp256k1_scalar a, b; int flag = nondet_int();
    unsigned long t1;
    __CPROVER_assume(flag == 0 || flag == 1);
    g_trace = 0; g_nbr = 0;
    secp256k1_scalar_cond_negate(&a, flag);
    t1 = g_trace;
    g_trace = 0;
    secp256k1_scalar_cond_negate(&b, flag);
    __CPROVER_assert(t1 == g_trace, "branch trace independent of secret scalar");
}

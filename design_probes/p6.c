#include "cfg.h"
#include <stddef.h>
#define SECP256K1_BUILD
#define SECP256K1_BUILD
#include "/repo/include/secp256k1.h"
#include "/repo/include/secp256k1_extrakeys.h"
#include "/repo/include/secp256k1_musig.h"
/* pull in type definitions first */

#include "/repo/src/util.h"
#include "/repo/src/scalar.h"
#include "/repo/src/group.h"
#include "/repo/src/hash.h"
#include "/repo/src/modules/musig/keyagg.h"

static void secp256k1_scalar_mul(secp256k1_scalar *r, const secp256k1_scalar *a, const secp256k1_scalar *b)
__CPROVER_requires(__CPROVER_w_ok(r, sizeof(*r)) && __CPROVER_r_ok(a, sizeof(*a)) && __CPROVER_r_ok(b, sizeof(*b)))
__CPROVER_assigns(*r)
;
static void secp256k1_musig_keyaggcoef(const secp256k1_hash_ctx *hash_ctx, secp256k1_scalar *r, const secp256k1_keyagg_cache_internal *cache_i, secp256k1_ge *pk)
__CPROVER_requires(__CPROVER_w_ok(r, sizeof(*r)) && __CPROVER_r_ok(cache_i, sizeof(*cache_i)) && __CPROVER_rw_ok(pk, sizeof(*pk)))
__CPROVER_assigns(*r, *pk)
;
static int secp256k1_keypair_load(const secp256k1_context* ctx, secp256k1_scalar *sk, secp256k1_ge *pk, const secp256k1_keypair *keypair)
__CPROVER_requires(__CPROVER_w_ok(pk, sizeof(*pk)) && __CPROVER_r_ok(keypair, sizeof(*keypair)) && (sk == NULL || __CPROVER_w_ok(sk, sizeof(*sk))))
__CPROVER_assigns(*pk; sk != NULL: *sk)
__CPROVER_ensures(__CPROVER_return_value == 0 || __CPROVER_return_value == 1)
;
#include "/repo/src/secp256k1.c"

void abort(void) { __CPROVER_assert(0, "abort reached"); __CPROVER_assume(0); }
static int g_illegal;
static void cb_illegal(const char *s, void *d) { g_illegal++; }
size_t nondet_size(void); _Bool nondet_bool(void);
size_t g_k;

void h_psign(void) {
    secp256k1_context ctx;
    secp256k1_musig_partial_sig psig, psig0;
    secp256k1_musig_secnonce sn;
    secp256k1_keypair kp;
    secp256k1_musig_keyagg_cache cache;
    secp256k1_musig_session sess;
    int ret;
    secp256k1_musig_partial_sig *p_psig = nondet_bool() ? &psig : NULL;
    secp256k1_musig_secnonce *p_sn = nondet_bool() ? &sn : NULL;
    secp256k1_keypair *p_kp = nondet_bool() ? &kp : NULL;
    secp256k1_musig_keyagg_cache *p_cache = nondet_bool() ? &cache : NULL;
    secp256k1_musig_session *p_sess = nondet_bool() ? &sess : NULL;
    g_illegal = 0; g_k = nondet_size();
    __CPROVER_assume(g_k < sizeof(sn.data));
    ctx.illegal_callback.fn = cb_illegal;
    psig0 = psig;
    ret = secp256k1_musig_partial_sign(&ctx, p_psig, p_sn, p_kp, p_cache, p_sess);
    __CPROVER_assert(ret == 0 || ret == 1, "ret bool");
    if (p_sn != NULL) __CPROVER_assert(sn.data[g_k] == 0, "C13: secnonce wiped on every return");
    if (ret == 0 && g_k < sizeof(psig.data)) __CPROVER_assert(psig.data[g_k] == psig0.data[g_k], "C13: no signature written on failure");
    __CPROVER_assert(ret == 0 || g_illegal == 0, "success implies no illegal callback");
}

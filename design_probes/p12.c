#include "cfg.h"
#include "/repo/src/secp256k1.c"
void abort(void) { __CPROVER_assert(0, "abort reached"); __CPROVER_assume(0); }
typedef unsigned __int128 u128;
size_t nondet_size(void);
void h_hdr(void) {
    size_t plen = nondet_size(), offset = 0, off_spec; unsigned char *proof;
    int exp, mantissa, ret; uint64_t scale, minv, maxv;
    /* spec */
    int s_ok = 1, s_exp = -1, s_man = 0, i; u128 s_max = 0, s_scale = 1; uint64_t s_min = 0; unsigned char h;
    __CPROVER_assume(plen <= 6000);
    proof = malloc(plen); __CPROVER_assume(proof != NULL);
    ret = secp256k1_rangeproof_getheader_impl(&offset, &exp, &mantissa, &scale, &minv, &maxv, proof, plen);
    if (plen < 65) s_ok = 0;
    else {
        h = proof[0]; off_spec = 1;
        if (h & 128) s_ok = 0;
        else {
            if (h & 64) {
                s_exp = h & 31; s_man = proof[1] + 1; off_spec = 2;
                if (s_exp > 18 || s_man > 64) s_ok = 0;
                else {
                    s_max = (s_man == 64) ? (u128)UINT64_MAX : (((u128)1 << s_man) - 1);
                    for (i = 0; i < 18; i++) if (i < s_exp) { s_max *= 10; s_scale *= 10; }
                    if (s_max > UINT64_MAX) s_ok = 0;
                }
            }
            if (s_ok && (h & 32)) {
                if (plen - off_spec < 8) s_ok = 0;
                else { for (i = 0; i < 8; i++) s_min = (s_min << 8) | proof[off_spec + i]; off_spec += 8; }
            }
            if (s_ok && s_max + s_min > UINT64_MAX) s_ok = 0;
        }
    }
    __CPROVER_assert(ret == s_ok, "C10 getheader: accept set equals spec");
    if (ret) {
        __CPROVER_assert(exp == s_exp && mantissa == s_man && offset == off_spec, "C10 getheader: exp/mantissa/offset");
        __CPROVER_assert(minv == s_min && maxv == (uint64_t)(s_max + s_min) && scale == (uint64_t)s_scale, "C10 getheader: min/max/scale");
        __CPROVER_assert(maxv >= minv && exp <= 18 && mantissa <= 64, "C10 getheader: range sane");
    }
}

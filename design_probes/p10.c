#include "cfg.h"
#include "/repo/src/secp256k1.c"
typedef unsigned __CPROVER_bitvector[320] wide;
#define W(x) ((wide)(x))
static wide sval(const secp256k1_scalar *a){ return W(a->d[0]) | (W(a->d[1])<<64) | (W(a->d[2])<<128) | (W(a->d[3])<<192); }
static wide fval(const secp256k1_fe *a){ return W(a->n[0]) + (W(a->n[1])<<52) + (W(a->n[2])<<104) + (W(a->n[3])<<156) + (W(a->n[4])<<208); }
static wide N_(void){ return (W(0xFFFFFFFFFFFFFFFFULL)<<192)|(W(0xFFFFFFFFFFFFFFFEULL)<<128)|(W(0xBAAEDCE6AF48A03BULL)<<64)|W(0xBFD25E8CD0364141ULL); }
static wide P_(void){ return (W(1)<<256) - W(0x1000003D1ULL); }
int nondet_int(void);
void h_scalar(void) {
    secp256k1_scalar a, b, r; int ov; wide s, n = N_();
    __CPROVER_assume(sval(&a) < n && sval(&b) < n);
    ov = secp256k1_scalar_add(&r, &a, &b);
    s = sval(&a) + sval(&b);
    __CPROVER_assert(sval(&r) == (s >= n ? s - n : s), "scalar_add == (a+b) mod n");
    __CPROVER_assert(ov == (s >= n), "scalar_add overflow flag");
    secp256k1_scalar_negate(&r, &a);
    __CPROVER_assert(sval(&r) == (sval(&a) == 0 ? 0 : n - sval(&a)), "scalar_negate == -a mod n");
    __CPROVER_assert(secp256k1_scalar_is_high(&a) == (sval(&a) > (n >> 1)), "is_high == a > n/2");
}
void h_fe(void) {
    secp256k1_fe a, r; int m = nondet_int(); wide vin, vout, p = P_(), k; int i;
    __CPROVER_assume(m >= 0 && m <= 32);
    for (i = 0; i < 4; i++) __CPROVER_assume(a.n[i] <= 0xFFFFFFFFFFFFFULL * 2 * (uint64_t)m);
    __CPROVER_assume(a.n[4] <= 0x0FFFFFFFFFFFFULL * 2 * (uint64_t)m);
    r = a; vin = fval(&a);
    secp256k1_fe_impl_normalize(&r);
    vout = fval(&r);
    __CPROVER_assert((r.n[0]>>52)==0 && (r.n[1]>>52)==0 && (r.n[2]>>52)==0 && (r.n[3]>>52)==0 && (r.n[4]>>48)==0 && vout < p, "normalize output canonical");
    k = (vin - vout) >> 256; if (vin != vout) k = k + 1;
    __CPROVER_assert(vin >= vout && vin - vout == k * p && k < 80, "normalize preserves value mod p");
}

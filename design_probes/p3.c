#include "cfg.h"
#include <stdint.h>
#include <stddef.h>
typedef unsigned __int128 u128;
u128 __CPROVER_uninterpreted_umul(uint64_t a, uint64_t b);
#define RC 0x1000003D10ULL
#define EXACT(a,b) ((a)==RC || (a)==(RC<<12) || (b)==RC || (b)==(RC>>4))
static void secp256k1_u128_mul(u128 *r, uint64_t a, uint64_t b)
__CPROVER_requires(__CPROVER_w_ok(r, sizeof(*r)))
__CPROVER_assigns(*r)
__CPROVER_ensures(*r == (EXACT(a,b) ? (u128)a*b : __CPROVER_uninterpreted_umul(a,b)))
__CPROVER_ensures((a>>56)==0 && (b>>56)==0 ==> (*r>>112)==0)
__CPROVER_ensures((a>>56)==0 && (b>>52)==0 ==> (*r>>108)==0)
__CPROVER_ensures((a>>52)==0 && (b>>56)==0 ==> (*r>>108)==0)
__CPROVER_ensures((a>>52)==0 && (b>>52)==0 ==> (*r>>104)==0)
;
static void secp256k1_u128_accum_mul(u128 *r, uint64_t a, uint64_t b)
__CPROVER_requires(__CPROVER_w_ok(r, sizeof(*r)))
__CPROVER_assigns(*r)
__CPROVER_ensures(*r == __CPROVER_old(*r) + (EXACT(a,b) ? (u128)a*b : __CPROVER_uninterpreted_umul(a,b)))
__CPROVER_ensures((a>>56)==0 && (b>>56)==0 ==> ((__CPROVER_uninterpreted_umul(a,b))>>112)==0)
__CPROVER_ensures((a>>56)==0 && (b>>52)==0 ==> ((__CPROVER_uninterpreted_umul(a,b))>>108)==0)
__CPROVER_ensures((a>>52)==0 && (b>>56)==0 ==> ((__CPROVER_uninterpreted_umul(a,b))>>108)==0)
__CPROVER_ensures((a>>52)==0 && (b>>52)==0 ==> ((__CPROVER_uninterpreted_umul(a,b))>>104)==0)
;
#define VERIFY 1
#include "/repo/src/secp256k1.c"

void abort(void) { __CPROVER_assert(0, "abort reached"); __CPROVER_assume(0); }

typedef unsigned __CPROVER_bitvector[640] wide;
#define W(x) ((wide)(x))
static wide val5(const uint64_t *n) { return W(n[0]) + (W(n[1])<<52) + (W(n[2])<<104) + (W(n[3])<<156) + (W(n[4])<<208); }

void h_mul(void) {
    uint64_t a[5], b[5], r[5];
    int i, j;
    wide S = 0, pv, rv, lo, hi, diff, k;
    for (i = 0; i < 4; i++) { __CPROVER_assume((a[i]>>56)==0); __CPROVER_assume((b[i]>>56)==0); }
    __CPROVER_assume((a[4]>>52)==0); __CPROVER_assume((b[4]>>52)==0);
    secp256k1_fe_mul_inner(r, a, b);
    for (i = 0; i < 5; i++) for (j = 0; j < 5; j++) S += W(EXACT(a[i],b[j]) ? (u128)a[i]*b[j] : __CPROVER_uninterpreted_umul(a[i], b[j])) << (52*(i+j));
    /* fold S mod p using 2^256 == 0x1000003D1 */
    pv = (W(1)<<256) - W(0x1000003D1ULL);
    lo = S & ((W(1)<<256)-1); hi = S >> 256; S = lo + hi * W(0x1000003D1ULL);
    lo = S & ((W(1)<<256)-1); hi = S >> 256; S = lo + hi * W(0x1000003D1ULL);
    rv = val5(r);
    /* S < 2^257ish, rv < 2^257: compare mod p with small k */
    __CPROVER_assert((r[0]>>52)==0 && (r[1]>>52)==0 && (r[2]>>52)==0 && (r[3]>>52)==0 && (r[4]>>49)==0, "mul output limbs magnitude 1");
    __CPROVER_assert(S == rv || S == rv + pv || S == rv + 2*pv || S + pv == rv || S + 2*pv == rv || S+3*pv==rv || S==rv+3*pv, "mul result congruent to product mod p");
}

#include "cfg.h"
#include <stddef.h>
extern size_t g_idx;
void *memcpy(void *dst, const void *src, size_t n)
__CPROVER_requires(__CPROVER_r_ok(src, n) && __CPROVER_w_ok(dst, n))
__CPROVER_assigns(__CPROVER_object_upto(dst, n))
__CPROVER_ensures(__CPROVER_return_value == dst)
__CPROVER_ensures(g_idx < n ==> ((unsigned char*)dst)[g_idx] == ((const unsigned char*)src)[g_idx])
;
#include "/repo/src/secp256k1.c"
size_t g_idx;
void abort(void) { __CPROVER_assert(0, "abort reached"); __CPROVER_assume(0); }
static int g_illegal;
static void cb_illegal(const char *s, void *d) { g_illegal++; }
size_t nondet_size(void);
void h_parse(void) {
    secp256k1_context ctx;
    secp256k1_surjectionproof proof;
    size_t inputlen = nondet_size();
    unsigned char *input;
    int ret;
    g_idx = nondet_size();
    __CPROVER_assume(inputlen <= 9000);
    input = malloc(inputlen);
    __CPROVER_assume(input != NULL);
    ctx.illegal_callback.fn = cb_illegal;
    ret = secp256k1_surjectionproof_parse(&ctx, &proof, input, inputlen);
    __CPROVER_assert(ret == 0 || ret == 1, "ret bool");
    __CPROVER_assert(g_illegal == 0, "no illegal callback");
    if (ret) {
        size_t nb = (proof.n_inputs + 7) / 8;
        __CPROVER_assert(proof.n_inputs <= 256, "n_inputs bound");
        __CPROVER_assert(proof.n_inputs == input[0] + 256u*input[1], "n_inputs value");
        if (g_idx < nb) __CPROVER_assert(proof.used_inputs[g_idx] == input[2+g_idx], "bitmap copied");
        if (g_idx < inputlen - 2 - nb) __CPROVER_assert(proof.data[g_idx] == input[2+nb+g_idx], "data copied");
    }
}

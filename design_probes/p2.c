#include "cfg.h"
#include <stddef.h>
/* contract by redeclaration, before the real definition */
static int secp256k1_der_read_len(size_t *len, const unsigned char **sigp, const unsigned char *sigend)
__CPROVER_requires(__CPROVER_is_fresh(len, sizeof(*len)))
__CPROVER_requires(__CPROVER_is_fresh(sigp, sizeof(*sigp)))
__CPROVER_requires(__CPROVER_same_object(*sigp, sigend) && __CPROVER_POINTER_OFFSET(*sigp) <= __CPROVER_POINTER_OFFSET(sigend) && __CPROVER_r_ok(*sigp, sigend - *sigp))
__CPROVER_assigns(*len, *sigp)
__CPROVER_ensures(__CPROVER_same_object(*sigp, sigend) && __CPROVER_POINTER_OFFSET(*sigp) <= __CPROVER_POINTER_OFFSET(sigend))
__CPROVER_ensures(__CPROVER_return_value == 0 || __CPROVER_return_value == 1)
__CPROVER_ensures(__CPROVER_return_value == 1 ==> *len <= (size_t)(sigend - *sigp))
;
#include "/repo/src/secp256k1.c"

size_t nondet_size(void);
void h_read_len(void) {
    unsigned char buf[80];
    size_t n = nondet_size();
    size_t off = nondet_size();
    size_t len;
    const unsigned char *p;
    __CPROVER_assume(n <= 80 && off <= n);
    p = buf + off;
    secp256k1_der_read_len(&len, &p, buf + n);
}

/* Forge a whitelist signature for an EMPTY key list from public data only. */
#include <stdio.h>
#include <string.h>
#include <secp256k1.h>
#include <secp256k1_whitelist.h>
int main(void) {
    secp256k1_context *ctx = secp256k1_context_create(SECP256K1_CONTEXT_NONE);
    unsigned char sk[32] = {0}; sk[31] = 7;
    secp256k1_pubkey sub, dummy_on[1], dummy_off[1];
    unsigned char ser[33]; size_t sl = 33;
    unsigned char msg32[32], e0[32], in[33];
    secp256k1_whitelist_signature sig;
    secp256k1_ec_pubkey_create(ctx, &sub, sk);
    dummy_on[0] = sub; dummy_off[0] = sub;
    /* msg32 = SHA256(ser33(sub_pubkey)) ; e0 = SHA256(msg32) (ring of size 0 contributes nothing) */
    secp256k1_ec_pubkey_serialize(ctx, ser, &sl, &sub, SECP256K1_EC_COMPRESSED);
    /* plain SHA256 via tagged hash is not plain; implement with the library's internal? use a tiny sha256 */
    extern void sha256(const unsigned char*, size_t, unsigned char*);
    sha256(ser, 33, msg32);
    sha256(msg32, 32, e0);
    in[0] = 0; memcpy(in + 1, e0, 32);
    printf("parse=%d\n", secp256k1_whitelist_signature_parse(ctx, &sig, in, 33));
    printf("verify(empty list)=%d\n", secp256k1_whitelist_verify(ctx, &sig, dummy_on, dummy_off, 0, &sub));
    return 0;
}

/* C06: SHA-256 / HMAC / RFC6979 over secret data.  Secret and independent between runs: message bytes,
 * chaining state, buffer, keys.  Public and equal in both runs: lengths and the byte counter. */
#include "pre.h"
#include "src/secp256k1.c"
#include "post.h"
#include "ct.h"
#define DLEN 200

void h_ct_sha256_write(void) {
    INPUT(secp256k1_sha256, w1); INPUT(secp256k1_sha256, w2);
    INPUT_ARR(unsigned char, wd1, DLEN); INPUT_ARR(unsigned char, wd2, DLEN);
    INPUT(size_t, len); INPUT(uint64_t, bytes);
    secp256k1_hash_ctx hc;
    CT_CANARY()
    hc.fn_sha256_compression = secp256k1_sha256_transform;
    __CPROVER_assume(len <= DLEN && bytes < ((uint64_t)1 << 60));   /* public */
    w1.bytes = bytes; w2.bytes = bytes;
    CT2("C06 sha256_write: branch trace independent of data, chaining state and buffer (public length and counter)",
        secp256k1_sha256_write(&hc, &w1, wd1, len), secp256k1_sha256_write(&hc, &w2, wd2, len));
    if (len == 200 && (bytes & 63) == 17 && wd1[0] != wd2[0]) REACH("sha256_write: buffer completion, three direct blocks, tail");
    if (len == 0) REACH("sha256_write: empty write");
}

/* finalize: the byte counter is public.  h_ct_sha256_finalize keeps it fully symbolic (expensive: the
 * memcpy lengths are symbolic); h_ct_sha256_finalize_res enumerates the 64 residues with concrete
 * counters 0..63 (cheap stand-in for the quick tier). */
void h_ct_sha256_finalize(void) {
    INPUT(secp256k1_sha256, f1); INPUT(secp256k1_sha256, f2);
    INPUT(uint64_t, bytes);
    unsigned char o1[32], o2[32];
    secp256k1_hash_ctx hc;
    int differ;
    CT_CANARY()
    hc.fn_sha256_compression = secp256k1_sha256_transform;
    __CPROVER_assume(bytes < ((uint64_t)1 << 60));
    f1.bytes = bytes; f2.bytes = bytes;
    differ = f1.s[0] != f2.s[0] && f1.buf[0] != f2.buf[0];
    CT2("C06 sha256_finalize: branch trace independent of chaining state and buffer (public counter)",
        secp256k1_sha256_finalize(&hc, &f1, o1), secp256k1_sha256_finalize(&hc, &f2, o2));
    if ((bytes & 63) == 60 && differ) REACH("sha256_finalize: padding spills into a second block");
    if ((bytes & 63) == 3) REACH("sha256_finalize: single padding block");
}

void h_ct_sha256_finalize_res(void) {
    INPUT(secp256k1_sha256, r1); INPUT(secp256k1_sha256, r2);
    unsigned char o1[32], o2[32];
    secp256k1_hash_ctx hc;
    unsigned lo; int differ;
    CT_CANARY()
    hc.fn_sha256_compression = secp256k1_sha256_transform;
    differ = r1.s[0] != r2.s[0] && r1.buf[0] != r2.buf[0];
    for (lo = 0; lo < 64; lo++) {
        secp256k1_sha256 x = r1, y = r2;
        x.bytes = lo; y.bytes = lo;
        CT2("C06 sha256_finalize (counter 0..63): branch trace independent of chaining state and buffer",
            secp256k1_sha256_finalize(&hc, &x, o1), secp256k1_sha256_finalize(&hc, &y, o2));
        if (lo == 63 && ct_n1 > 64) REACH("sha256_finalize: the recorded trace covers at least one compression");
    }
    if (differ) REACH("sha256_finalize: all 64 residues done, different states");
}

/* HMAC and the RFC6979 generator: all lengths are PUBLIC constants at every call site in src/ (hmac keys
 * are 32 bytes inside rfc6979; rfc6979 key material is 64 bytes in ecmult_gen_blind and 64/80/96/112 in
 * the nonce functions), so the harness uses concrete lengths; KEYLEN selects the rfc6979 one. */
void h_ct_hmac(void) {
    INPUT_ARR(unsigned char, hk1, 128); INPUT_ARR(unsigned char, hk2, 128);
    INPUT_ARR(unsigned char, hm1, 32); INPUT_ARR(unsigned char, hm2, 32);
    secp256k1_hmac_sha256 h1, h2; unsigned char o1[32], o2[32];
    secp256k1_hash_ctx hc;
    CT_CANARY()
    hc.fn_sha256_compression = secp256k1_sha256_transform;
    CT2("C06 hmac_sha256 initialize/write/finalize, 32-byte key: branch trace independent of key and message",
        (secp256k1_hmac_sha256_initialize(&hc, &h1, hk1, 32), secp256k1_hmac_sha256_write(&hc, &h1, hm1, 32), secp256k1_hmac_sha256_finalize(&hc, &h1, o1)),
        (secp256k1_hmac_sha256_initialize(&hc, &h2, hk2, 32), secp256k1_hmac_sha256_write(&hc, &h2, hm2, 32), secp256k1_hmac_sha256_finalize(&hc, &h2, o2)));
    if (hk1[0] != hk2[0] && hm1[0] != hm2[0]) REACH("hmac with a short key");
    CT2("C06 hmac_sha256 initialize/write/finalize, 100-byte key (hashed first): branch trace independent of key and message",
        (secp256k1_hmac_sha256_initialize(&hc, &h1, hk1, 100), secp256k1_hmac_sha256_write(&hc, &h1, hm1, 32), secp256k1_hmac_sha256_finalize(&hc, &h1, o1)),
        (secp256k1_hmac_sha256_initialize(&hc, &h2, hk2, 100), secp256k1_hmac_sha256_write(&hc, &h2, hm2, 32), secp256k1_hmac_sha256_finalize(&hc, &h2, o2)));
    REACH("hmac with a key longer than a block");
}

#ifndef KEYLEN
#define KEYLEN 64
#endif
void h_ct_rfc6979(void) {
    INPUT_ARR(unsigned char, rk1, 128); INPUT_ARR(unsigned char, rk2, 128);
    secp256k1_rfc6979_hmac_sha256 r1, r2; unsigned char o1[32], o2[32];
    secp256k1_hash_ctx hc;
    CT_CANARY()
    hc.fn_sha256_compression = secp256k1_sha256_transform;
    CT2("C06 rfc6979 initialize + two generate(32) calls: branch trace independent of the key material (public lengths)",
        (secp256k1_rfc6979_hmac_sha256_initialize(&hc, &r1, rk1, KEYLEN), secp256k1_rfc6979_hmac_sha256_generate(&hc, &r1, o1, 32), secp256k1_rfc6979_hmac_sha256_generate(&hc, &r1, o1, 32)),
        (secp256k1_rfc6979_hmac_sha256_initialize(&hc, &r2, rk2, KEYLEN), secp256k1_rfc6979_hmac_sha256_generate(&hc, &r2, o2, 32), secp256k1_rfc6979_hmac_sha256_generate(&hc, &r2, o2, 32)));
    if (rk1[0] != rk2[0]) REACH("rfc6979 with different key material");
}

/* C06: group-level constant-time primitives (only functions the project documents or uses as constant-time:
 * the two cmovs here, ge_set_gej, gej_add_ge, gej_double below; audit 2 #27).  Secret and independent between the two runs: all
 * coordinates, the infinity flag of the Jacobian accumulator, the cmov flag.  The only assumption is
 * the representation invariant infinity in {0,1}. */
#include "pre.h"
#include "src/secp256k1.c"
#include "post.h"
#include "ct.h"

typedef struct { secp256k1_gej a, r; secp256k1_ge b, g; secp256k1_ge_storage sa, sr; secp256k1_fe s; int flag; } gsec;
#define GSEC_OK(x) (((x).flag == 0 || (x).flag == 1) && ((x).a.infinity == 0 || (x).a.infinity == 1) && ((x).r.infinity == 0 || (x).r.infinity == 1) && \
                    ((x).b.infinity == 0 || (x).b.infinity == 1) && ((x).g.infinity == 0 || (x).g.infinity == 1))

void h_ct_group_cmov(void) {
    INPUT(gsec, s1); INPUT(gsec, s2);
    gsec x, y;
    CT_CANARY()
    __CPROVER_assume(GSEC_OK(s1) && GSEC_OK(s2));
    x = s1; y = s2;
    CT2("C06 ge_storage_cmov: trace independent of flag and operands", secp256k1_ge_storage_cmov(&x.sr, &x.sa, x.flag), secp256k1_ge_storage_cmov(&y.sr, &y.sa, y.flag));
    if (s1.flag != s2.flag) REACH("ge_storage_cmov with different flags");
    CT2("C06 gej_cmov: trace independent of flag and operands", secp256k1_gej_cmov(&x.r, &x.a, x.flag), secp256k1_gej_cmov(&y.r, &y.a, y.flag));
}

void h_ct_ge_set_gej(void) {
    INPUT(gsec, j1); INPUT(gsec, j2);
    CT_CANARY()
    __CPROVER_assume(GSEC_OK(j1) && GSEC_OK(j2));
    CT2("C06 ge_set_gej: trace independent of the point (including its infinity flag)", secp256k1_ge_set_gej(&j1.g, &j1.a), secp256k1_ge_set_gej(&j2.g, &j2.a));
    if (j1.a.infinity != j2.a.infinity) REACH("ge_set_gej on infinity and on a finite point");
}

void h_ct_gej_add_ge(void) {
    INPUT(gsec, a1); INPUT(gsec, a2);
    CT_CANARY()
    __CPROVER_assume(GSEC_OK(a1) && GSEC_OK(a2));
    CT2("C06 gej_add_ge: trace independent of both points (including a's infinity flag)", secp256k1_gej_add_ge(&a1.r, &a1.a, &a1.b), secp256k1_gej_add_ge(&a2.r, &a2.a, &a2.b));
    if (a1.a.infinity != a2.a.infinity) REACH("gej_add_ge with infinite and finite accumulator");
}

void h_ct_gej_double(void) {
    INPUT(gsec, d1); INPUT(gsec, d2);
    CT_CANARY()
    __CPROVER_assume(GSEC_OK(d1) && GSEC_OK(d2));
    CT2("C06 gej_double: trace independent of the point (including its infinity flag)", secp256k1_gej_double(&d1.r, &d1.a), secp256k1_gej_double(&d2.r, &d2.a));
    if (d1.a.infinity != d2.a.infinity) REACH("gej_double on infinity and on a finite point");
}

/* C06: the constant-time multipliers and their table scans.
 *
 * Table preset: harness/cfg.h selects COMB 2x5 (ECMULT_GEN_KB=2 preset; 26 outer iterations, 2 blocks
 * of 16 entries) unless the unit defines VERIF_BIG_TABLES (shipped 43x6: 1 outer iteration, 43 blocks
 * of 32 entries).  The table is `extern const` without a definition here: its content is arbitrary.
 *
 * ADDRESSES.  CBMC has no hook for the addresses a program dereferences, so the branch-trace units
 * cannot see a secret-dependent table index.  The *_scan units add what can honestly be proved: the
 * calls to the LOWEST cmov primitive through which the scan loops read the tables (fe_storage_cmov for
 * ecmult_gen, fe_cmov for ecmult_const) are redirected (goto-instrument --replace-calls, no source edit)
 * to a logging wrapper with the same data effect; the wrapper records which table entry each call
 * addresses.  Obligations: (a) the sequence of entries addressed and the number of reads are the same in
 * two runs with independent secrets, (b) every table entry is addressed at least once per scan of its
 * block (uniform scan).  No absolute call counts are pinned (audit 2 #6): how many primitive cmovs a
 * scan uses per entry is the code's business.
 * NOT covered: a table read that does not go through the cmov primitive (a direct `table[b][secret]`
 * in straight-line code, next to an intact scan, would pass). */
#include "pre.h"
#include "src/secp256k1.c"
#include "post.h"
#include "ct.h"

/* ------------------------------------------------------------------ address log */
/* Ghost-index form: ct_al_pos is a read number chosen once by the harness (nondeterministic, never
 * assigned afterwards); each run remembers the entry addressed by its read number ct_al_pos.  Equality
 * of the two remembered entries for every ct_al_pos, plus equal read counts, is equality of the whole
 * address sequences.  ct_al_watch is likewise a ghost table entry whose reads are counted. */
unsigned ct_al_pos;                /* ghost: watched read number */
size_t ct_al_at, ct_al_at1;        /* entry addressed by read number ct_al_pos in this run / in run 1 */
unsigned ct_al_n, ct_al_n1;        /* reads so far in this run / in run 1 */
size_t ct_al_watch;                /* ghost: watched table entry */
unsigned ct_al_hits, ct_al_hits1;  /* reads of the watched entry in this run / in run 1 */
unsigned ct_al_foreign;            /* reads whose source is not in the table (both runs) */
#define AL_RESET() { ct_al_n = 0; ct_al_n1 = 0; ct_al_at = 0; ct_al_at1 = 0; ct_al_hits = 0; ct_al_hits1 = 0; ct_al_foreign = 0; }
#define AL_NEXT()  { ct_al_n1 = ct_al_n; ct_al_n = 0; ct_al_at1 = ct_al_at; ct_al_at = 0; ct_al_hits1 = ct_al_hits; ct_al_hits = 0; }
#define AL_SAME_SEQ (ct_al_n == ct_al_n1 && ct_al_at == ct_al_at1)
static void ct_al_log(size_t entry, int foreign) {
    ct_al_at = (ct_al_n == ct_al_pos) ? entry : ct_al_at;
    ct_al_hits += (unsigned)(!foreign & (entry == ct_al_watch));
    ct_al_foreign += (unsigned)(foreign != 0);
    ct_al_n++;
}

/* Modular variants: gej_add_ge / gej_double are proved trace-independent of ALL their inputs in
 * C06.gej_add_ge / C06.gej_double; here their calls are redirected to stubs that return an arbitrary
 * point (every value the real function could produce and more), which removes their arithmetic from
 * symbolic execution.  The *_whole units (thorough tier) run the real callees. */
secp256k1_gej nondet_gej(void);
void ct_havoc_gej_add_ge(secp256k1_gej *r, const secp256k1_gej *a, const secp256k1_ge *b) { secp256k1_gej t = nondet_gej(); (void)a; (void)b; t.infinity &= 1; *r = t; }
void ct_havoc_gej_double(secp256k1_gej *r, const secp256k1_gej *a) { secp256k1_gej t = nondet_gej(); (void)a; t.infinity &= 1; *r = t; }

/* replaces secp256k1_fe_storage_cmov in the *_gen_scan units: copy of the 4x64 mask body (branch-free; the real
 * one is proved in C06.fe_basic), plus the log.  Both coordinates of table entry e log as entry e. */
void ct_log_fe_storage_cmov(secp256k1_fe_storage *r, const secp256k1_fe_storage *a, int flag) {
    uint64_t mask0, mask1; volatile int vflag = flag;
    int in_table = __CPROVER_POINTER_OBJECT(a) == __CPROVER_POINTER_OBJECT(&secp256k1_ecmult_gen_prec_table[0][0]);
    size_t off = (size_t)__CPROVER_POINTER_OFFSET(a);
    ct_al_log(in_table ? off / sizeof(secp256k1_ge_storage) : ((size_t)1 << 32) + off, !in_table);
    mask0 = vflag + ~((uint64_t)0); mask1 = ~mask0;
#if !defined(USE_FORCE_WIDEMUL_INT64)
    r->n[0] = (r->n[0] & mask0) | (a->n[0] & mask1); r->n[1] = (r->n[1] & mask0) | (a->n[1] & mask1);
    r->n[2] = (r->n[2] & mask0) | (a->n[2] & mask1); r->n[3] = (r->n[3] & mask0) | (a->n[3] & mask1);
#else
# error "ct_log_fe_storage_cmov models the 4x64 storage layout only"
#endif
}

typedef struct { secp256k1_ecmult_gen_context ctx; secp256k1_scalar gn; secp256k1_gej r; } gensec;

/* whole ecmult_gen: secret = scalar AND the context's blinding state (scalar_offset, ge_offset, proj_blind) */
void h_ct_ecmult_gen(void) {
    INPUT(gensec, g1); INPUT(gensec, g2);
    CT_CANARY()
    CT2("C06 ecmult_gen: branch trace independent of the scalar and of the blinding state",
        secp256k1_ecmult_gen(&g1.ctx, &g1.r, &g1.gn), secp256k1_ecmult_gen(&g2.ctx, &g2.r, &g2.gn));
    if (ct_n1 >= COMB_SPACING * COMB_BLOCKS * (COMB_POINTS + COMB_TEETH)) REACH("ecmult_gen: the recorded trace is long enough to cover the table scan and the bit gathering of every block");
    if (g1.gn.d[0] != g2.gn.d[0] && g1.ctx.scalar_offset.d[0] != g2.ctx.scalar_offset.d[0]) REACH("ecmult_gen on different scalars and blinding");
}

void h_ct_ecmult_gen_scan(void) {
    INPUT(gensec, c1); INPUT(gensec, c2);
    INPUT(size_t, watch); INPUT(unsigned, pos);
    CT_CANARY()
    __CPROVER_assume(watch < (size_t)COMB_BLOCKS * COMB_POINTS);
    ct_al_watch = watch; ct_al_pos = pos;
    AL_RESET()
    CT_RUN1(secp256k1_ecmult_gen(&c1.ctx, &c1.r, &c1.gn))
    AL_NEXT()
    CT_RUN2(secp256k1_ecmult_gen(&c2.ctx, &c2.r, &c2.gn))
    CT_SAME("C06 ecmult_gen scan: branch trace independent of the scalar and of the blinding state");
    __CPROVER_assert(AL_SAME_SEQ, "C06 ecmult_gen scan: number of cmov reads and the sequence of table entries addressed are independent of the secrets (ghost read number)");
    __CPROVER_assert(ct_al_hits1 >= COMB_SPACING && ct_al_hits >= COMB_SPACING,
                     "C06 ecmult_gen scan: every table entry is addressed at least once per scan of its block (uniform scan), in both runs");
    if (c1.gn.d[0] != c2.gn.d[0]) REACH("ecmult_gen scan on different scalars");
}

/* ------------------------------------------------------------------ ecmult_const */
/* replaces secp256k1_fe_cmov (= secp256k1_fe_impl_cmov) in the const_* units.  The body is a copy of the
 * 5x52 cmov (mask form, branch-free); the real cmov's trace is proved in C06.fe_basic. */
secp256k1_ge ct_pub_pre[ECMULT_CONST_TABLE_SIZE];   /* harness-owned PUBLIC table */
unsigned char ct_al_objmode;                        /* 1: sources are classified against ct_pub_pre; 0: offset only */
void ct_log_fe_cmov(secp256k1_fe *r, const secp256k1_fe *a, int flag) {
    uint64_t mask0, mask1; volatile int vflag = flag; int i;
    int in_table = __CPROVER_POINTER_OBJECT(a) == __CPROVER_POINTER_OBJECT(&ct_pub_pre[0]);
    size_t off = (size_t)__CPROVER_POINTER_OFFSET(a);
    /* entry = 2*m + (y ? 1 : 0) for a source inside the table; for other sources (stack temporaries of
     * gej_add_ge, neg_y) the byte offset inside their object, tagged */
    size_t e = in_table ? 2 * (off / sizeof(secp256k1_ge)) + (off % sizeof(secp256k1_ge) == offsetof(secp256k1_ge, y)) : ((size_t)1 << 32) + off;
    ct_al_log(ct_al_objmode ? e : off, !in_table);
    mask0 = vflag + ~((uint64_t)0); mask1 = ~mask0;
#if !defined(USE_FORCE_WIDEMUL_INT64)
    r->n[0] = (r->n[0] & mask0) | (a->n[0] & mask1); r->n[1] = (r->n[1] & mask0) | (a->n[1] & mask1);
    r->n[2] = (r->n[2] & mask0) | (a->n[2] & mask1); r->n[3] = (r->n[3] & mask0) | (a->n[3] & mask1);
    r->n[4] = (r->n[4] & mask0) | (a->n[4] & mask1);
#else
# error "ct_log_fe_cmov models the 5x52 layout only"
#endif
    (void)i;
}

/* ECMULT_CONST_TABLE_GET_GE instantiated on a harness-owned public table with a secret digit */
void h_ct_const_table_get(void) {
    INPUT(unsigned, n1); INPUT(unsigned, n2);
    INPUT(size_t, watch); INPUT(unsigned, pos);
    secp256k1_ge t1, t2;
    CT_CANARY()
    __CPROVER_assume(n1 < (1U << ECMULT_CONST_GROUP_SIZE) && n2 < (1U << ECMULT_CONST_GROUP_SIZE)); /* the macro's VERIFY_CHECK precondition */
    __CPROVER_assume(watch >= 2 && watch < 2 * ECMULT_CONST_TABLE_SIZE);   /* entries 1..TABLE_SIZE-1, x and y; entry 0 is read unconditionally by ge_set_xy */
    ct_al_watch = watch; ct_al_pos = pos; ct_al_objmode = 1;
    AL_RESET()
    CT_RUN1(ECMULT_CONST_TABLE_GET_GE(&t1, ct_pub_pre, n1))
    AL_NEXT()
    CT_RUN2(ECMULT_CONST_TABLE_GET_GE(&t2, ct_pub_pre, n2))
    CT_SAME("C06 ECMULT_CONST_TABLE_GET_GE: branch trace independent of the secret digit");
    __CPROVER_assert(AL_SAME_SEQ, "C06 ECMULT_CONST_TABLE_GET_GE: number of cmov reads and the sequence of table entries addressed are independent of the secret digit (ghost read number)");
    __CPROVER_assert(ct_al_hits1 >= 1 && ct_al_hits >= 1, "C06 ECMULT_CONST_TABLE_GET_GE: every table coordinate 1..TABLE_SIZE-1 is addressed at least once (uniform scan), in both runs");
    if (n1 != n2) REACH("table get with different digits");
}

/* The odd-multiples precomputation is variable-time IN THE POINT by design (the point is public; source
 * comment in ecmult_const).  It receives only the public point, so its outputs are a function of public
 * data: the stub hands out the same arbitrary table in both runs.  Listed as an assumed contract. */
secp256k1_fe ct_pub_globalz;
void ct_stub_odd_multiples_table_globalz(secp256k1_ge *pre, secp256k1_fe *globalz, const secp256k1_gej *a) {
    int i; (void)a;
    for (i = 0; i < ECMULT_CONST_TABLE_SIZE; i++) pre[i] = ct_pub_pre[i];
    *globalz = ct_pub_globalz;
}

typedef struct { secp256k1_scalar q; secp256k1_gej r; } constsec;
void h_ct_ecmult_const(void) {
    INPUT(constsec, k1); INPUT(constsec, k2);
    INPUT(secp256k1_ge, pt);                       /* PUBLIC point, same in both runs */
    INPUT(unsigned, pos);
    CT_CANARY()
    __CPROVER_assume(pt.infinity == 0 || pt.infinity == 1);
    ct_al_watch = 0; ct_al_pos = pos; ct_al_objmode = 0;
    AL_RESET()
    CT_RUN1(secp256k1_ecmult_const(&k1.r, &pt, &k1.q))
    AL_NEXT()
    CT_RUN2(secp256k1_ecmult_const(&k2.r, &pt, &k2.q))
    CT_SAME("C06 ecmult_const: branch trace independent of the scalar (public point)");
#ifdef CT_LOG_FE_CMOV
    __CPROVER_assert(AL_SAME_SEQ, "C06 ecmult_const: number and in-object offsets of all cmov sources are independent of the scalar (ghost read number)");
    if (!pt.infinity && ct_al_n1 >= ECMULT_CONST_GROUPS * 2 * (ECMULT_CONST_TABLE_SIZE - 1)) REACH("ecmult_const: the cmov log covers two table scans per group");
#endif
    if (!pt.infinity && k1.q.d[0] != k2.q.d[0]) REACH("ecmult_const on different scalars, finite point");
    if (pt.infinity) REACH("ecmult_const on the point at infinity");
}

/* C06: util.h constant-time primitives.  Secret: flag, buffer contents, ints.  Public: len. */
#include "pre.h"
#include "src/secp256k1.c"
#include "post.h"
#include "ct.h"
#define LEN_MAX 192   /* every call site of memczero / is_zero_array in src/ uses a constant <= 162 */

void h_ct_util(void) {
    INPUT(size_t, len);
    INPUT_ARR(unsigned char, a, LEN_MAX); INPUT_ARR(unsigned char, b, LEN_MAX);
    INPUT(int, fa); INPUT(int, fb);
    INPUT(int, ra); INPUT(int, rb); INPUT(int, xa); INPUT(int, xb);
    int za, zb;
    CT_CANARY();
    __CPROVER_assume(len <= LEN_MAX);                               /* public, equal in both runs */
    __CPROVER_assume((fa == 0 || fa == 1) && (fb == 0 || fb == 1)); /* documented domain of a flag */

    CT_RUN1(secp256k1_memczero(a, len, fa));
    CT_RUN2(secp256k1_memczero(b, len, fb));
    CT_SAME("C06 memczero: branch trace independent of flag and buffer contents");
    if (fa != fb && len == 162) REACH("memczero runs with different flags, len 162");

    CT_RUN1(za = secp256k1_is_zero_array(a, len));
    CT_RUN2(zb = secp256k1_is_zero_array(b, len));
    CT_SAME("C06 is_zero_array: branch trace independent of array contents");
    if (za != zb && len == 64) REACH("is_zero_array runs with different verdicts");

    __CPROVER_assume(ra >= 0 && rb >= 0 && xa >= 0 && xb >= 0);     /* documented: non-negative */
    CT_RUN1(secp256k1_int_cmov(&ra, &xa, fa));
    CT_RUN2(secp256k1_int_cmov(&rb, &xb, fb));
    CT_SAME("C06 int_cmov: branch trace independent of flag and values");
    if (fa != fb) REACH("int_cmov runs with different flags");
}

/* C06: util.h constant-time primitives.  Secret: flag, buffer contents, ints.  Public: len.
 * len is symbolic up to LEN_MAX: every call site of memczero / is_zero_array in src/ passes a
 * constant <= 162 (grep), so the library's uses are covered; the loops are fully unwound and the
 * unwinding assertions prove the bound. */
#include "pre.h"
#include "src/secp256k1.c"
#include "post.h"
#include "ct.h"
#define LEN_MAX 192

void h_ct_memczero(void) {
    INPUT(size_t, len);
    INPUT_ARR(unsigned char, mz_a, LEN_MAX); INPUT_ARR(unsigned char, mz_b, LEN_MAX);
    INPUT(int, fa); INPUT(int, fb);
    CT_CANARY()
    __CPROVER_assume(len <= LEN_MAX);                               /* public, equal in both runs */
    __CPROVER_assume((fa == 0 || fa == 1) && (fb == 0 || fb == 1)); /* documented domain of a flag */
    CT2("C06 memczero: branch trace independent of flag and buffer contents",
        secp256k1_memczero(mz_a, len, fa), secp256k1_memczero(mz_b, len, fb));
    if (fa != fb && len == 162) REACH("memczero runs with different flags, len 162");
}

void h_ct_is_zero_array(void) {
    INPUT(size_t, len);
    INPUT_ARR(unsigned char, za_a, LEN_MAX); INPUT_ARR(unsigned char, za_b, LEN_MAX);
    int za, zb;
    CT_CANARY()
    __CPROVER_assume(len <= LEN_MAX);
    CT2("C06 is_zero_array: branch trace independent of array contents",
        za = secp256k1_is_zero_array(za_a, len), zb = secp256k1_is_zero_array(za_b, len));
    if (za != zb && len == 64) REACH("is_zero_array runs with different verdicts");
}

void h_ct_int_cmov(void) {
    INPUT(int, fa); INPUT(int, fb);
    INPUT(int, ra); INPUT(int, rb); INPUT(int, xa); INPUT(int, xb);
    CT_CANARY()
    __CPROVER_assume((fa == 0 || fa == 1) && (fb == 0 || fb == 1));
    __CPROVER_assume(ra >= 0 && rb >= 0 && xa >= 0 && xb >= 0);     /* documented: non-negative */
    CT2("C06 int_cmov: branch trace independent of flag and values",
        secp256k1_int_cmov(&ra, &xa, fa), secp256k1_int_cmov(&rb, &xb, fb));
    if (fa != fb && ra != rb) REACH("int_cmov runs with different flags");
}

/* C06 round 3: the API-level compositions the C06 claim listed as "not built" (idiom of api.c / sign.c).
 *
 * Every entry runs ONE API function twice: same context and same public arguments, INDEPENDENT secret
 * arguments (the arguments src/ctime_tests.c marks undefined).  The only relations assumed between the two
 * runs' secrets are the bits the library itself declassifies (secp256k1_declassify in the source; listed at
 * each entry).  Declassified values that come out of a replaced callee are handed out from a table shared
 * by both runs; everything else a stub returns is arbitrary and independent per run.
 *
 * Replaced callees (goto-instrument --replace-calls), every stub counts its calls per run:
 *   secp256k1_ecmult_gen / secp256k1_ecmult_const      C06.ecmult_gen*, C06.ecmult_const*
 *   secp256k1_ge_set_gej / secp256k1_ge_set_all_gej    C06.ge_set_gej, C06.ge_set_all_gej
 *   secp256k1_scalar_inverse / secp256k1_fe_impl_inv   C06.scalar_inverse, C06.fe_inv
 *   secp256k1_scalar_mul (adaptor_encrypt only)        C06.scalar_mul
 *   secp256k1_ecdsa_sign_inner                         C06.sign_inner
 *   nonce_function_rfc6979_impl                        C06.rfc6979_* (parts; assumed as in C06.sign_inner)
 *   secp256k1_nonce_function_musig                     real in C06.api_musig_nonce_gen(_min)
 *   nonce_function_ecdsa_adaptor_impl                  C06.r3_nonce_ecdsa_adaptor (here, real SHA-256)
 *   secp256k1_dleq_challenge, secp256k1_ellswift_xswiftec_frac_var, secp256k1_ellswift_elligatorswift_var:
 *       run on PUBLIC / declassified data only (no secret reaches them); assumed, variable time by design
 * Obligations of every entry: equal branch-decision traces (exact recorder of ct.h) and equal call counts of
 * the replaced primitives. */
#include "pre.h"
#include "src/secp256k1.c"
#include "post.h"
#include "ct.h"

secp256k1_scalar nondet_scalar(void); secp256k1_gej nondet_gej(void); secp256k1_ge nondet_ge(void); secp256k1_fe nondet_fe(void);

/* ---------------------------------------------------------------- shared tables and stubs */
#define NTAB 4
#define NNON 2
secp256k1_ge g_pub_ge[NTAB];              /* PUBLIC points (declassified results), same in both runs */
secp256k1_fe g_pub_fe[2];                 /* PUBLIC field elements, same in both runs */
unsigned char g_sec_nonce[2][NNON][32];   /* SECRET nonce bytes: [run][call] */
int g_nonce_ret[NNON];                    /* PUBLIC return value of nonce-function call k */
int g_sec_ret[2];                         /* SECRET verdict of a replaced callee, one per run */
unsigned char g_ovf;                      /* a stub was called more often than the harness tables are sized for */
/* per-run call counters: [0] ecmult_gen [1] ecmult_const [2] ge_set_(all_)gej [3] inverse [4] nonce fn [5] other */
unsigned g_calls[6], g_calls1[6];
/* branch-free on purpose: R3_RUN_KEEP sits between the two runs, where the recorder is already counting for run 2 */
#define R3_RUN_RESET() { g_calls[0] = 0; g_calls[1] = 0; g_calls[2] = 0; g_calls[3] = 0; g_calls[4] = 0; g_calls[5] = 0; }
#define R3_RUN_KEEP()  { g_calls1[0] = g_calls[0]; g_calls1[1] = g_calls[1]; g_calls1[2] = g_calls[2]; g_calls1[3] = g_calls[3]; g_calls1[4] = g_calls[4]; g_calls1[5] = g_calls[5]; R3_RUN_RESET() }
#define R3_SAME_CALLS (g_calls[0] == g_calls1[0] && g_calls[1] == g_calls1[1] && g_calls[2] == g_calls1[2] && g_calls[3] == g_calls1[3] && g_calls[4] == g_calls1[4] && g_calls[5] == g_calls1[5])

void r3_ecmult_gen(const secp256k1_ecmult_gen_context *ctx, secp256k1_gej *r, const secp256k1_scalar *a) { (void)ctx; (void)a; *r = nondet_gej(); r->infinity &= 1; g_calls[0]++; }
void r3_ecmult_const(secp256k1_gej *r, const secp256k1_ge *a, const secp256k1_scalar *q) { (void)a; (void)q; *r = nondet_gej(); r->infinity &= 1; g_calls[1]++; }
/* result stays secret inside the API (never declassified there) */
void r3_ge_set_gej_secret(secp256k1_ge *r, secp256k1_gej *a) { (void)a; *r = nondet_ge(); r->infinity &= 1; g_calls[2]++; }
/* result is declassified by the caller before it branches on it: public, equal in both runs */
void r3_ge_set_gej_public(secp256k1_ge *r, secp256k1_gej *a) { unsigned k = g_calls[2] < NTAB ? g_calls[2] : NTAB - 1; (void)a; g_ovf |= (unsigned char)(g_calls[2] >= NTAB); *r = g_pub_ge[k]; g_calls[2]++; }
/* batch of two, declassified by every caller in this file: call c hands out table entries 2c, 2c+1 */
void r3_ge_set_all_gej_public(secp256k1_ge *r, const secp256k1_gej *a, size_t len) {
    unsigned k = g_calls[2] < 2 ? g_calls[2] : 1; (void)a;
    g_ovf |= (unsigned char)(g_calls[2] >= 2 || len != 2);
    r[0] = g_pub_ge[2 * k]; r[1] = g_pub_ge[2 * k + 1];
    g_calls[2]++;
}
void r3_scalar_inverse(secp256k1_scalar *r, const secp256k1_scalar *x) { (void)x; *r = nondet_scalar(); g_calls[3]++; }
/* branch-free 256-bit multiplication (C06.scalar_mul): replaced only where its result would drag the multiplier into the solver */
void r3_scalar_mul(secp256k1_scalar *r, const secp256k1_scalar *a, const secp256k1_scalar *b) { (void)a; (void)b; *r = nondet_scalar(); g_calls[3]++; }
void r3_fe_inv(secp256k1_fe *r, const secp256k1_fe *x) { (void)x; *r = nondet_fe(); g_calls[3]++; }
static int r3_nonce_common(unsigned char *nonce32) {
    unsigned k = g_calls[4] < NNON ? g_calls[4] : NNON - 1;
    g_ovf |= (unsigned char)(g_calls[4] >= NNON);
    memcpy(nonce32, g_sec_nonce[ct_mode & 1][k], 32);
    g_calls[4]++;
    return g_nonce_ret[k];
}

typedef struct { secp256k1_ge ge[NTAB]; secp256k1_fe fe[2]; int nonce_ret[NNON]; } r3_pubtab;
typedef struct { unsigned char n[NNON][32]; int ret; } r3_sectab;
typedef struct { unsigned char b[32]; } b32;
typedef struct { unsigned char b[64]; } b64;
#define R3_CTX() secp256k1_context ctx; INPUT(secp256k1_context, ctx_in); INPUT(r3_pubtab, tab); INPUT(r3_sectab, sec1); INPUT(r3_sectab, sec2); \
    ctx = ctx_in; verif_ctx_init(&ctx); ctx.hash_ctx.fn_sha256_compression = secp256k1_sha256_transform; ctx.ecmult_gen_ctx.built = 1; \
    { int ti; for (ti = 0; ti < NTAB; ti++) { g_pub_ge[ti] = tab.ge[ti]; g_pub_ge[ti].infinity = 0; } g_pub_fe[0] = tab.fe[0]; g_pub_fe[1] = tab.fe[1]; \
      for (ti = 0; ti < NNON; ti++) { g_nonce_ret[ti] = tab.nonce_ret[ti]; memcpy(g_sec_nonce[0][ti], sec1.n[ti], 32); memcpy(g_sec_nonce[1][ti], sec2.n[ti], 32); } \
      g_sec_ret[0] = (sec1.ret != 0); g_sec_ret[1] = (sec2.ret != 0); g_ovf = 0; }
static int valid_seckey(const unsigned char *k) { secp256k1_scalar t; return secp256k1_scalar_set_b32_seckey(&t, k); }
static int zero_mod_n(const unsigned char *k) { secp256k1_scalar t; secp256k1_scalar_set_b32(&t, k, NULL); return secp256k1_scalar_is_zero(&t); }
#define R3_PAIR(text, call1, call2) R3_RUN_RESET() CT_RUN1(call1) R3_RUN_KEEP() CT_RUN2(call2) CT_SAME(text); \
    __CPROVER_assert(R3_SAME_CALLS, text " [every replaced primitive is called equally often in both runs]"); \
    __CPROVER_assert(!g_ovf, text " [stub tables large enough (sizing, not a property of the code)]");

/* ================================================================ (1) ecdsa_adaptor_encrypt
 * secret (ctime_tests.c): seckey32 - arbitrary 32 bytes, valid or not, the validity bit is NOT declassified (masked
 * into ret); the two nonces (signing nonce k, DLEQ nonce).  public: encryption key, message, nonce function, context.
 * declassified by the code: R = k*Y and R' = k*G (after ge_set_all_gej); in dleq_prove the verdict of dleq_nonce
 * (= nonce function return value and "DLEQ nonce is zero mod n") and the two DLEQ commitments.
 * public by the convention of the existing units: the nonce function's return values.
 * NOTE (reported, not assumed away): secp256k1_dleq_nonce branches on the zero bit a few lines BEFORE dleq_prove
 * declassifies it; the bit is the one the library declassifies, so it is modelled as equal in both runs. */
int r3_user_adaptor_nonce(unsigned char *nonce32, const unsigned char *msg32, const unsigned char *key32, const unsigned char *pk33, const unsigned char *algo, size_t algolen, void *data) {
    (void)msg32; (void)key32; (void)pk33; (void)algo; (void)algolen; (void)data;
    return r3_nonce_common(nonce32);
}
int r3_nonce_ecdsa_adaptor_impl(const secp256k1_hash_ctx *hash_ctx, unsigned char *nonce32, const unsigned char *msg32, const unsigned char *key32, const unsigned char *pk33, const unsigned char *algo, size_t algolen, void *data) {
    (void)hash_ctx; (void)msg32; (void)key32; (void)pk33; (void)algo; (void)algolen; (void)data;
    return r3_nonce_common(nonce32) != 0;
}
void r3_dleq_challenge(const secp256k1_hash_ctx *hash_ctx, secp256k1_scalar *e, secp256k1_ge *gen2, secp256k1_ge *r1, secp256k1_ge *r2, secp256k1_ge *p1, secp256k1_ge *p2) {
    (void)hash_ctx; (void)gen2; (void)r1; (void)r2; (void)p1; (void)p2; *e = nondet_scalar(); g_calls[5]++;
}
/* second formulation (the first, with the real serializer, ran into the 900 s timeout): the six serialize33 calls of
 * encrypt / dleq_prove / sig_serialize all receive PUBLIC points (the encryption key, declassified R, R'); the real
 * function normalizes with fe_normalize_var, whose decisions on symbolic public limbs made the SAT instance hard */
void r3_pubkey_serialize33(secp256k1_ge *elem, unsigned char *pub33) { int i; (void)elem; for (i = 0; i < 33; i++) pub33[i] = nondet_uchar(); g_calls[5]++; }
typedef struct { unsigned char b[162]; } b162;
void h_r3_adaptor_encrypt(void) {
    INPUT(b32, k1); INPUT(b32, k2); INPUT(b32, aux1); INPUT(b32, aux2); INPUT(b32, msg); INPUT(secp256k1_pubkey, enckey);
    INPUT(_Bool, use_fn); INPUT(_Bool, use_aux);
    b162 o1, o2; int r1, r2;
    R3_CTX()
    CT_CANARY()
    /* declassified in dleq_prove: the DLEQ nonce (second nonce-function call) being zero mod n */
    __CPROVER_assume(zero_mod_n(g_sec_nonce[0][1]) == zero_mod_n(g_sec_nonce[1][1]));
    R3_PAIR("C06 r3 ecdsa_adaptor_encrypt: branch trace independent of the secret key (valid or not), the aux randomness and both nonces (declassified bits equal)",
        r1 = secp256k1_ecdsa_adaptor_encrypt(&ctx, o1.b, k1.b, &enckey, msg.b, use_fn ? r3_user_adaptor_nonce : NULL, use_aux ? aux1.b : NULL),
        r2 = secp256k1_ecdsa_adaptor_encrypt(&ctx, o2.b, k2.b, &enckey, msg.b, use_fn ? r3_user_adaptor_nonce : NULL, use_aux ? aux2.b : NULL))
    if (r1 == 1 && r2 == 0 && g_illegal == 0 && g_calls[4] == 2) REACH("adaptor_encrypt: succeeds in one run, masked failure in the other");
    if (r1 == 1 && r2 == 1 && use_fn && sec1.n[0][31] != sec2.n[0][31] && k1.b[0] != k2.b[0]) REACH("adaptor_encrypt: user nonce function, different keys and nonces");
    if (r1 == 0 && r2 == 0 && g_illegal == 0 && g_calls[4] == 2 && g_calls[0] == 1) REACH("adaptor_encrypt: DLEQ nonce rejected (declassified early return)");
    if (r1 == 0 && r2 == 0 && g_illegal == 2) REACH("adaptor_encrypt: invalid encryption key (public early return in both runs)");
}

/* the nonce function of the adaptor module itself: secret key32 and aux data; public message, pk33, algo */
void h_r3_nonce_ecdsa_adaptor(void) {
    INPUT(b32, k1); INPUT(b32, k2); INPUT(b32, ax1); INPUT(b32, ax2); INPUT(b32, msg); INPUT_ARR(unsigned char, pk33, 33);
    unsigned char o1[32], o2[32]; int r1, r2; static const unsigned char other[9] = "some/algo";
    secp256k1_hash_ctx hc;
    CT_CANARY()
    hc.fn_sha256_compression = secp256k1_sha256_transform;
    /* which optional arguments are present and which algo tag is used is public: enumerated concretely */
    CT2("C06 r3 nonce_function_ecdsa_adaptor_impl (adaptor algo, aux): branch trace independent of key and aux data",
        r1 = nonce_function_ecdsa_adaptor_impl(&hc, o1, msg.b, k1.b, pk33, ecdsa_adaptor_algo, sizeof(ecdsa_adaptor_algo), ax1.b),
        r2 = nonce_function_ecdsa_adaptor_impl(&hc, o2, msg.b, k2.b, pk33, ecdsa_adaptor_algo, sizeof(ecdsa_adaptor_algo), ax2.b));
    if (r1 == 1 && r2 == 1 && k1.b[0] != k2.b[0] && ax1.b[0] != ax2.b[0]) REACH("nonce_ecdsa_adaptor with aux");
    CT2("C06 r3 nonce_function_ecdsa_adaptor_impl (DLEQ algo, no aux): branch trace independent of the key",
        r1 = nonce_function_ecdsa_adaptor_impl(&hc, o1, msg.b, k1.b, pk33, dleq_algo, sizeof(dleq_algo), NULL),
        r2 = nonce_function_ecdsa_adaptor_impl(&hc, o2, msg.b, k2.b, pk33, dleq_algo, sizeof(dleq_algo), NULL));
    if (r1 == 1 && k1.b[31] != k2.b[31]) REACH("nonce_ecdsa_adaptor DLEQ algo");
    CT2("C06 r3 nonce_function_ecdsa_adaptor_impl (other algo, aux): branch trace independent of key and aux data",
        r1 = nonce_function_ecdsa_adaptor_impl(&hc, o1, msg.b, k1.b, pk33, other, 9, ax1.b),
        r2 = nonce_function_ecdsa_adaptor_impl(&hc, o2, msg.b, k2.b, pk33, other, 9, ax2.b));
    if (r1 == 1) REACH("nonce_ecdsa_adaptor custom algo");
}

/* ================================================================ (2) ellswift_xdh
 * secret: seckey32 (valid, zero or overflowing; masked by cmov to 1, never declassified), the shared X coordinate.
 * public: both encodings, party, hash function, its data.  Nothing is declassified inside. */
void r3_xswiftec_frac_var(secp256k1_fe *xn, secp256k1_fe *xd, const secp256k1_fe *u, const secp256k1_fe *t) { (void)u; (void)t; *xn = g_pub_fe[0]; *xd = g_pub_fe[1]; g_calls[5]++; }
int r3_user_xdh_hash(unsigned char *output, const unsigned char *x32, const unsigned char *ell_a64, const unsigned char *ell_b64, void *data) {
    int i; (void)x32; (void)ell_a64; (void)ell_b64; (void)data;
    for (i = 0; i < 32; i++) output[i] = nondet_uchar();
    return g_nonce_ret[0];     /* public verdict */
}
void h_r3_ellswift_xdh(void) {
    INPUT(b32, k1); INPUT(b32, k2); INPUT(b64, ella); INPUT(b64, ellb); INPUT(b64, prefix); INPUT(int, party);
    unsigned char o1[32], o2[32]; int r1, r2;
    R3_CTX()
    CT_CANARY()
    R3_PAIR("C06 r3 ellswift_xdh (BIP-324 hash): branch trace independent of the secret key (valid, zero or overflowing)",
        r1 = secp256k1_ellswift_xdh(&ctx, o1, ella.b, ellb.b, k1.b, party, secp256k1_ellswift_xdh_hash_function_bip324, NULL),
        r2 = secp256k1_ellswift_xdh(&ctx, o2, ella.b, ellb.b, k2.b, party, secp256k1_ellswift_xdh_hash_function_bip324, NULL))
    if (r1 == 1 && r2 == 0 && g_illegal == 0) REACH("ellswift_xdh: valid and invalid key, BIP-324 hash");
    R3_PAIR("C06 r3 ellswift_xdh (prefix hash): branch trace independent of the secret key",
        r1 = secp256k1_ellswift_xdh(&ctx, o1, ella.b, ellb.b, k1.b, party, secp256k1_ellswift_xdh_hash_function_prefix, prefix.b),
        r2 = secp256k1_ellswift_xdh(&ctx, o2, ella.b, ellb.b, k2.b, party, secp256k1_ellswift_xdh_hash_function_prefix, prefix.b))
    if (r1 == 1 && r2 == 1 && k1.b[0] != k2.b[0]) REACH("ellswift_xdh: two different valid keys, prefix hash");
    R3_PAIR("C06 r3 ellswift_xdh (user hash): branch trace independent of the secret key",
        r1 = secp256k1_ellswift_xdh(&ctx, o1, ella.b, ellb.b, k1.b, party, r3_user_xdh_hash, NULL),
        r2 = secp256k1_ellswift_xdh(&ctx, o2, ella.b, ellb.b, k2.b, party, r3_user_xdh_hash, NULL))
    if (r1 == 0 && r2 == 1) REACH("ellswift_xdh: user hash function, invalid and valid key");
    __CPROVER_assert(g_illegal == 0 && g_error == 0, "C06 r3 ellswift_xdh: no callback");
}

/* ================================================================ (3) ellswift_create
 * secret: seckey32 (validity NOT declassified: masked by memczero), aux randomness until hashed.
 * declassified by the code: the public key p (out of ec_pubkey_create_helper), the hash state after the key went in.
 * secp256k1_ellswift_elligatorswift_var receives only those two (plus ctx): replaced, variable time by design. */
void r3_elligatorswift_var(const secp256k1_context *ctx, unsigned char *u32, secp256k1_fe *t, const secp256k1_ge *p, const secp256k1_sha256 *hasher) {
    int i; (void)ctx; (void)p; (void)hasher;
    for (i = 0; i < 32; i++) u32[i] = nondet_uchar();
    *t = nondet_fe(); g_calls[5]++;
}
void h_r3_ellswift_create(void) {
    INPUT(b32, k1); INPUT(b32, k2); INPUT(b32, aux1); INPUT(b32, aux2); INPUT(_Bool, use_aux);
    b64 o1, o2; int r1, r2;
    R3_CTX()
    CT_CANARY()
    R3_PAIR("C06 r3 ellswift_create: branch trace independent of the secret key (valid or not) and the aux randomness (declassified values equal)",
        r1 = secp256k1_ellswift_create(&ctx, o1.b, k1.b, use_aux ? aux1.b : NULL),
        r2 = secp256k1_ellswift_create(&ctx, o2.b, k2.b, use_aux ? aux2.b : NULL))
    if (r1 == 1 && r2 == 0 && g_illegal == 0) REACH("ellswift_create: valid and invalid key");
    if (r1 == 1 && r2 == 1 && use_aux && aux1.b[0] != aux2.b[0]) REACH("ellswift_create: different aux randomness");
    __CPROVER_assert(g_illegal == 0 && g_error == 0, "C06 r3 ellswift_create: no callback");
}

/* ================================================================ (4) the signing wrappers around ecdsa_sign_inner
 * secret: key, s2c data; the verdict of sign_inner (ret & is_sec_valid) is secret until the CALLER of the API
 * declassifies it: the stub returns an independent verdict per run. */
int r3_sign_inner(const secp256k1_context *ctx, secp256k1_scalar *r, secp256k1_scalar *s, int *recid, secp256k1_sha256 *s2c_sha, secp256k1_ecdsa_s2c_opening *s2c_opening, const unsigned char *s2c_data32, const unsigned char *msg32, const unsigned char *seckey, secp256k1_nonce_function noncefp, const void *noncedata) {
    (void)ctx; (void)s2c_sha; (void)s2c_data32; (void)msg32; (void)seckey; (void)noncefp; (void)noncedata;
    *r = nondet_scalar(); *s = nondet_scalar();
    if (recid) { *recid = nondet_int() & 3; }
    if (s2c_opening) { int i; for (i = 0; i < 64; i++) s2c_opening->data[i] = nondet_uchar(); }
    g_calls[5]++;
    return g_sec_ret[ct_mode & 1];
}
void h_r3_sign_wrappers(void) {
    INPUT(b32, k1); INPUT(b32, k2); INPUT(b32, d1); INPUT(b32, d2); INPUT(b32, msg); INPUT(_Bool, use_opening);
    secp256k1_ecdsa_signature g1, g2; secp256k1_ecdsa_recoverable_signature q1, q2; secp256k1_ecdsa_s2c_opening p1, p2; int r1, r2;
    R3_CTX()
    CT_CANARY()
    R3_PAIR("C06 r3 ecdsa_sign: the wrapper's branch trace is independent of the key and of sign_inner's (secret) verdict",
        r1 = secp256k1_ecdsa_sign(&ctx, &g1, msg.b, k1.b, NULL, NULL), r2 = secp256k1_ecdsa_sign(&ctx, &g2, msg.b, k2.b, NULL, NULL))
    if (r1 == 1 && r2 == 0) REACH("ecdsa_sign: success and masked failure");
    R3_PAIR("C06 r3 ecdsa_sign_recoverable: the wrapper's branch trace is independent of the key and of sign_inner's (secret) verdict",
        r1 = secp256k1_ecdsa_sign_recoverable(&ctx, &q1, msg.b, k1.b, NULL, NULL), r2 = secp256k1_ecdsa_sign_recoverable(&ctx, &q2, msg.b, k2.b, NULL, NULL))
    if (r1 == 0 && r2 == 1) REACH("ecdsa_sign_recoverable: masked failure and success");
    R3_PAIR("C06 r3 ecdsa_s2c_sign: the wrapper's branch trace is independent of key, s2c data and sign_inner's (secret) verdict",
        r1 = secp256k1_ecdsa_s2c_sign(&ctx, &g1, use_opening ? &p1 : NULL, msg.b, k1.b, d1.b), r2 = secp256k1_ecdsa_s2c_sign(&ctx, &g2, use_opening ? &p2 : NULL, msg.b, k2.b, d2.b))
    if (r1 == 1 && r2 == 0 && d1.b[0] != d2.b[0]) REACH("ecdsa_s2c_sign: success and masked failure, different s2c data");
    __CPROVER_assert(g_illegal == 0 && g_error == 0, "C06 r3 sign wrappers: no callback");
}

/* ================================================================ (5) ecdsa_anti_exfil_signer_commit
 * secret: seckey32, the host commitment (ctime_tests.c marks it undefined), the nonce bytes, the nonce point.
 * declassified by the code: is_nonce_valid per attempt.  public by convention: the nonce function's return value.
 * Bounded: at most NNON attempts of the retry loop (the last one is forced to yield a valid nonce). */
int r3_rfc6979_impl(const secp256k1_hash_ctx *hash_ctx, unsigned char *nonce32, const unsigned char *msg32, const unsigned char *key32, const unsigned char *algo16, void *data, unsigned int counter) {
    (void)hash_ctx; (void)msg32; (void)key32; (void)algo16; (void)data; (void)counter;
    return r3_nonce_common(nonce32) != 0;
}
void h_r3_signer_commit(void) {
    INPUT(b32, k1); INPUT(b32, k2); INPUT(b32, c1); INPUT(b32, c2); INPUT(b32, msg);
    secp256k1_ecdsa_s2c_opening p1, p2; int r1, r2, i;
    R3_CTX()
    CT_CANARY()
    for (i = 0; i < NNON; i++) {
        __CPROVER_assume(valid_seckey(g_sec_nonce[0][i]) == valid_seckey(g_sec_nonce[1][i]));   /* declassified: is_nonce_valid */
    }
    __CPROVER_assume(valid_seckey(g_sec_nonce[0][NNON - 1]));                                      /* bound of the retry loop */
    R3_PAIR("C06 r3 anti_exfil_signer_commit: branch trace independent of the key, the host commitment and the nonce bytes (declassified bits equal)",
        r1 = secp256k1_ecdsa_anti_exfil_signer_commit(&ctx, &p1, msg.b, k1.b, c1.b),
        r2 = secp256k1_ecdsa_anti_exfil_signer_commit(&ctx, &p2, msg.b, k2.b, c2.b))
    __CPROVER_assert(r1 == 1 && r2 == 1 && g_illegal == 0, "C06 r3 anti_exfil_signer_commit: returns 1 without illegal callback");
    if (g_calls[4] == 2 && sec1.n[1][0] != sec2.n[1][0]) REACH("signer_commit: second attempt, different nonce bytes");
    if (g_calls[4] == 1 && g_error == 0) REACH("signer_commit: first attempt");
    if (g_error == 2) REACH("signer_commit: nonce function reports failure (error callback, public)");
}

/* ================================================================ (6) musig_nonce_gen_counter
 * secret: the keypair's secret half, extra_input32 (ctime_tests.c).  public: counter, public half, message, cache.
 * declassified by the code: the two public nonces.  The function BRANCHES on the verdict of nonce_gen_internal,
 * i.e. on the validity bit of the keypair's secret key, WITHOUT a declassify call (ctime_tests.c runs it on a
 * defined keypair, so valgrind does not see it).  The library declassifies that very bit in keypair_seckey_load
 * ("keypair is well formed"), so it is modelled as equal in both runs, as C06.api_keypair_tweak does; with
 * -DR3_KEYPAIR_VALIDITY_SECRET the assumption is dropped and the trace obligation FAILS (reported to the lead). */
void r3_nonce_function_musig(const secp256k1_hash_ctx *hash_ctx, secp256k1_scalar *k, const unsigned char *session_secrand, const unsigned char *msg32, const unsigned char *seckey32, const unsigned char *pk33, const unsigned char *agg_pk32, const unsigned char *extra_input32) {
    (void)hash_ctx; (void)session_secrand; (void)msg32; (void)seckey32; (void)pk33; (void)agg_pk32; (void)extra_input32;
    k[0] = nondet_scalar(); k[1] = nondet_scalar(); g_calls[4]++;
}
void h_r3_nonce_gen_counter(void) {
    INPUT(secp256k1_keypair, kp1); INPUT(b32, sk2); INPUT(b32, x1); INPUT(b32, x2); INPUT(b32, msg); INPUT(secp256k1_musig_keyagg_cache, cache);
    INPUT(uint64_t, cnt); INPUT(_Bool, use_msg); INPUT(_Bool, use_cache); INPUT(_Bool, use_extra);
    secp256k1_keypair a, b; secp256k1_musig_secnonce s1, s2; secp256k1_musig_pubnonce n1, n2; int r1, r2;
    R3_CTX()
    CT_CANARY()
    a = kp1; b = kp1; memcpy(&b.data[0], sk2.b, 32);                 /* same public half, independent secret half */
#ifndef R3_KEYPAIR_VALIDITY_SECRET
    __CPROVER_assume(valid_seckey(&a.data[0]) == valid_seckey(&b.data[0]));   /* see the note above */
#endif
    R3_PAIR("C06 r3 musig_nonce_gen_counter: branch trace independent of the keypair's secret half and the extra input (declassified values equal)",
        r1 = secp256k1_musig_nonce_gen_counter(&ctx, &s1, &n1, cnt, &a, use_msg ? msg.b : NULL, use_cache ? &cache : NULL, use_extra ? x1.b : NULL),
        r2 = secp256k1_musig_nonce_gen_counter(&ctx, &s2, &n2, cnt, &b, use_msg ? msg.b : NULL, use_cache ? &cache : NULL, use_extra ? x2.b : NULL))
    if (r1 == 1 && r2 == 1 && kp1.data[0] != sk2.b[0] && use_cache && use_msg && use_extra) REACH("musig_nonce_gen_counter: success on different secret keys, all optional arguments");
    if (r1 == 1 && !use_cache && !use_msg && !use_extra) REACH("musig_nonce_gen_counter: no optional argument");
    if (r1 == 0 && g_illegal == 0) REACH("musig_nonce_gen_counter: keypair with an invalid secret key is refused");
    if (r1 == 0 && r2 == 0 && g_illegal == 2) REACH("musig_nonce_gen_counter: malformed public argument (illegal callback in both runs)");
}

/* C06, API level: secp256k1_ecdsa_sign_inner (the body shared by ecdsa_sign, ecdsa_sign_recoverable and
 * ecdsa_s2c_sign) as a 2-safety statement WITH its declassification points.
 *
 * Two runs: same context, message, nonce function, nonce data, recid/s2c arguments (public);
 * INDEPENDENT secret keys, each arbitrary 32 bytes (valid, zero, or >= n).  What the library declassifies
 * is modelled as "equal in both runs":
 *   - the return value of the nonce function for attempt k (g_nonce_ret[k]) and the validity bit
 *     is_nonce_valid that the code declassifies.  The nonce BYTES are secret: each run has its own
 *     g_nonce[run][k]; the only relation assumed between them is equal secp256k1_scalar_set_b32_seckey
 *     validity (audit 2 #1);
 *   - the verdict of secp256k1_ecdsa_sig_sign for attempt k (declassified `ret`): g_sign_ok[k];
 *   - in the sign-to-contract path: nonce_p.infinity == 0 and the verdict of ec_commit_seckey: g_commit_ok[k].
 * Everything else those callees produce (r, s, recid, the tweaked nonce, the nonce point) is arbitrary
 * and independent per run.  The callees are redirected to stubs (goto-instrument --replace-calls); their
 * own constant-time behaviour is the business of the primitive units (scalar_*, ecmult_gen, ge_set_gej,
 * gej_add_ge, sha256/hmac/rfc6979).  The nonce function pointer is NULL (built-in RFC6979, stubbed) or a
 * harness function that counts its calls.
 * Obligations: equal branch-decision traces; equal number of nonce-function calls; equal return value
 * class is NOT required (ret & is_sec_valid is secret until the caller declassifies it).
 * Bounded: at most MAX_ATT attempts of the retry loop (attempt MAX_ATT-1 is forced to terminate). */
#include "pre.h"
#include "src/secp256k1.c"
#include "post.h"
#include "ct.h"
#define MAX_ATT 2

unsigned char g_nonce[2][MAX_ATT][32]; int g_nonce_ret[MAX_ATT], g_sign_ok[MAX_ATT], g_commit_ok[MAX_ATT];
unsigned g_nonce_calls, g_nonce_calls1, g_sign_calls, g_commit_calls;
unsigned char g_att_ovf;
secp256k1_scalar nondet_scalar(void); secp256k1_gej nondet_gej(void); secp256k1_ge nondet_ge(void);

static int nonce_common(unsigned char *nonce32, unsigned int counter) {
    unsigned k = counter < MAX_ATT ? counter : MAX_ATT - 1;
    g_att_ovf |= (unsigned char)(counter >= MAX_ATT);
    memcpy(nonce32, g_nonce[ct_mode & 1][k], 32);   /* ct_mode: 0 in run 1, 1 in run 2 */
    g_nonce_calls++;
    return g_nonce_ret[k];
}
/* user nonce function */
int ct_user_nonce(unsigned char *nonce32, const unsigned char *msg32, const unsigned char *key32, const unsigned char *algo16, void *data, unsigned int counter) {
    (void)msg32; (void)key32; (void)algo16; (void)data;
    return nonce_common(nonce32, counter);
}
/* replaces nonce_function_rfc6979_impl */
int ct_stub_rfc6979(const secp256k1_hash_ctx *hash_ctx, unsigned char *nonce32, const unsigned char *msg32, const unsigned char *key32, const unsigned char *algo16, void *data, unsigned int counter) {
    (void)hash_ctx; (void)msg32; (void)key32; (void)algo16; (void)data;
    return nonce_common(nonce32, counter) != 0;
}
/* replaces secp256k1_ecdsa_sig_sign */
int ct_stub_sig_sign(const secp256k1_ecmult_gen_context *ctx, secp256k1_scalar *sigr, secp256k1_scalar *sigs, const secp256k1_scalar *seckey, const secp256k1_scalar *message, const secp256k1_scalar *nonce, int *recid) {
    unsigned k = g_sign_calls < MAX_ATT ? g_sign_calls : MAX_ATT - 1;
    (void)ctx; (void)seckey; (void)message; (void)nonce;
    *sigr = nondet_scalar(); *sigs = nondet_scalar();
    if (recid) { *recid = nondet_int() & 3; }
    g_sign_calls++;
    return g_sign_ok[k];
}
/* s2c path: replace secp256k1_ecmult_gen, secp256k1_ge_set_gej, secp256k1_ec_commit_seckey */
void ct_stub_ecmult_gen(const secp256k1_ecmult_gen_context *ctx, secp256k1_gej *r, const secp256k1_scalar *a) { (void)ctx; (void)a; *r = nondet_gej(); r->infinity &= 1; }
void ct_stub_ge_set_gej(secp256k1_ge *r, secp256k1_gej *a) { (void)a; *r = nondet_ge(); r->infinity = 0; /* declassified, and 0 for a valid nonce */ }
int ct_stub_commit_seckey(const secp256k1_hash_ctx *hash_ctx, secp256k1_scalar *seckey, secp256k1_ge *pubp, secp256k1_sha256 *sha, const unsigned char *data, size_t data_size) {
    unsigned k = g_commit_calls < MAX_ATT ? g_commit_calls : MAX_ATT - 1;
    (void)hash_ctx; (void)pubp; (void)sha; (void)data; (void)data_size;
    *seckey = nondet_scalar();
    g_commit_calls++;
    return g_commit_ok[k];
}

typedef struct { unsigned char key[32]; secp256k1_scalar r, s; int recid; secp256k1_ecdsa_s2c_opening opening; secp256k1_sha256 sha; int ret; } signsec;
typedef struct { int nr[MAX_ATT], so[MAX_ATT], co[MAX_ATT]; } pubtab;
typedef struct { unsigned char n[MAX_ATT][32]; } noncetab;

void h_ct_sign_inner(void) {
    secp256k1_context ctx;
    INPUT(signsec, k1); INPUT(signsec, k2);
    INPUT(pubtab, tab); INPUT(noncetab, nt1); INPUT(noncetab, nt2);
    INPUT_ARR(unsigned char, si_msg, 32); INPUT_ARR(unsigned char, si_data, 32);
    INPUT(_Bool, use_fn); INPUT(_Bool, use_recid); INPUT(_Bool, use_s2c); INPUT(_Bool, use_opening);
    secp256k1_scalar t; int last_valid, i;
    secp256k1_nonce_function fn;
    CT_CANARY()
    verif_ctx_init(&ctx);
    for (i = 0; i < MAX_ATT; i++) {
        memcpy(g_nonce[0][i], nt1.n[i], 32); memcpy(g_nonce[1][i], nt2.n[i], 32);
        /* the declassified bit is_nonce_valid is equal in both runs; nothing else relates the two nonces */
        __CPROVER_assume(secp256k1_scalar_set_b32_seckey(&t, g_nonce[0][i]) == secp256k1_scalar_set_b32_seckey(&t, g_nonce[1][i]));
        g_nonce_ret[i] = tab.nr[i]; g_sign_ok[i] = (tab.so[i] != 0); g_commit_ok[i] = (tab.co[i] != 0);
    }
    /* bounded: the last allowed attempt ends the retry loop (nonce function fails, or valid nonce and every later verdict positive) */
    last_valid = secp256k1_scalar_set_b32_seckey(&t, g_nonce[0][MAX_ATT - 1]);
    __CPROVER_assume(g_nonce_ret[MAX_ATT - 1] == 0 || (last_valid && g_sign_ok[MAX_ATT - 1] && g_sign_ok[0] && g_commit_ok[0]) || (last_valid && use_s2c && !g_commit_ok[MAX_ATT - 1] && !g_commit_ok[0]));
    __CPROVER_assume(!use_s2c || !use_fn);       /* the function's documented precondition (VERIFY_CHECK): s2c only with the default nonce function */
    fn = use_fn ? ct_user_nonce : NULL;
    g_att_ovf = 0;

    g_nonce_calls = 0; g_sign_calls = 0; g_commit_calls = 0;
    CT_RUN1(k1.ret = secp256k1_ecdsa_sign_inner(&ctx, &k1.r, &k1.s, use_recid ? &k1.recid : NULL, use_s2c ? &k1.sha : NULL, (use_s2c && use_opening) ? &k1.opening : NULL, use_s2c ? si_data : NULL, si_msg, k1.key, fn, NULL))
    g_nonce_calls1 = g_nonce_calls; g_nonce_calls = 0; g_sign_calls = 0; g_commit_calls = 0;
    CT_RUN2(k2.ret = secp256k1_ecdsa_sign_inner(&ctx, &k2.r, &k2.s, use_recid ? &k2.recid : NULL, use_s2c ? &k2.sha : NULL, (use_s2c && use_opening) ? &k2.opening : NULL, use_s2c ? si_data : NULL, si_msg, k2.key, fn, NULL))
    CT_SAME("C06 ecdsa_sign_inner: branch trace independent of the secret key (declassified values equal)");
    __CPROVER_assert(g_nonce_calls == g_nonce_calls1, "C06 ecdsa_sign_inner: the nonce function is called equally often for every secret key, valid or not");
    __CPROVER_assert(!g_att_ovf, "C06 ecdsa_sign_inner: retry loop stays within the harness bound (sizing, not a property of the code)");
    __CPROVER_assert(g_illegal == 0 && g_error == 0, "C06 ecdsa_sign_inner: no callback");
    if (k1.ret == 1 && k2.ret == 0 && use_fn && g_nonce_calls1 == 1) REACH("sign_inner: valid key vs invalid key, user nonce function, first attempt");
    if (k1.ret == 1 && k2.ret == 1 && !use_fn && g_nonce_calls1 == 2) REACH("sign_inner: two valid keys, built-in nonce function, second attempt");
    if (use_s2c && k1.ret == 1) REACH("sign_inner: sign-to-contract path succeeds");
    if (k1.ret == 0 && k2.ret == 0 && g_nonce_calls1 == 1 && g_nonce_ret[0] == 0) REACH("sign_inner: nonce function fails");
    if (g_nonce[0][0][31] != g_nonce[1][0][31] && k1.ret == 1) REACH("sign_inner: the two runs use different nonce bytes");
}

/* ---- the two callees of sign_inner that had no unit of their own (audit 2 #12) ---- */
typedef struct { secp256k1_scalar sec, msg, non, r, s; int recid, ret; secp256k1_ecmult_gen_context gctx; } sigsec;
/* secp256k1_ecdsa_sig_sign: secret = key, nonce, message, blinding; ecmult_gen / ge_set_gej redirected to
 * arbitrary-result stubs (own units: C06.ecmult_gen*, C06.ge_set_gej); scalar_inverse/mul/cond_negate real */
void ct_stub_ge_set_gej_any(secp256k1_ge *r, secp256k1_gej *a) { (void)a; *r = nondet_ge(); r->infinity &= 1; }
void h_ct_sig_sign(void) {
    INPUT(sigsec, q1); INPUT(sigsec, q2); INPUT(_Bool, use_recid);
    CT_CANARY()
    CT2("C06 ecdsa_sig_sign: branch trace independent of key, nonce and message",
        q1.ret = secp256k1_ecdsa_sig_sign(&q1.gctx, &q1.r, &q1.s, &q1.sec, &q1.msg, &q1.non, use_recid ? &q1.recid : NULL),
        q2.ret = secp256k1_ecdsa_sig_sign(&q2.gctx, &q2.r, &q2.s, &q2.sec, &q2.msg, &q2.non, use_recid ? &q2.recid : NULL));
    if (q1.sec.d[0] != q2.sec.d[0] && q1.non.d[0] != q2.non.d[0] && use_recid) REACH("sig_sign on different keys and nonces");
}
/* secp256k1_ec_commit_seckey: secret = the nonce scalar being tweaked and the point coordinates; public (and
 * equal) = the point's infinity flag (declassified by the caller), the data length and the hash byte counter */
typedef struct { secp256k1_scalar key; secp256k1_ge p; secp256k1_sha256 sha; unsigned char data[32]; int ret; } comsec;
void h_ct_commit_seckey(void) {
    INPUT(comsec, m1); INPUT(comsec, m2);
    secp256k1_hash_ctx hc;
    CT_CANARY()
    hc.fn_sha256_compression = secp256k1_sha256_transform;
    __CPROVER_assume((m1.p.infinity == 0 || m1.p.infinity == 1) && m1.p.infinity == m2.p.infinity);
    m1.sha.bytes = 64; m2.sha.bytes = 64;   /* public: the s2c tagged midstates (the only callers' hash objects) have absorbed one block */
    CT2("C06 ec_commit_seckey: branch trace independent of the tweaked secret, the point coordinates and the hash state",
        m1.ret = secp256k1_ec_commit_seckey(&hc, &m1.key, &m1.p, &m1.sha, m1.data, 32),
        m2.ret = secp256k1_ec_commit_seckey(&hc, &m2.key, &m2.p, &m2.sha, m2.data, 32));
    if (!m1.p.infinity && m1.key.d[0] != m2.key.d[0]) REACH("ec_commit_seckey on different secrets");
    if (m1.p.infinity) REACH("ec_commit_seckey on the point at infinity");
}

/* C06: field primitives (5x52 in cfg W128, 10x26 in cfg W64) and the storage/group cmovs.
 * Everything in a `fsec` pool is secret and independent between the two runs; no magnitude or
 * normalisation assumption is made (without -DVERIFY the functions have no representation checks, and
 * the trace statement holds for every limb pattern).  Public: the magnitude argument of negate and the
 * small integer of mul_int / add_int. */
#include "pre.h"
#include "src/secp256k1.c"
#include "post.h"
#include "ct.h"

typedef struct { secp256k1_fe a, b, r; secp256k1_fe_storage sa, sr; int flag; unsigned char b32[32]; int ret; } fsec;

void h_ct_fe_basic(void) {
    INPUT(fsec, s1); INPUT(fsec, s2);
    INPUT(int, m); INPUT(int, k);
    fsec x, y;
    CT_CANARY()
    __CPROVER_assume((s1.flag == 0 || s1.flag == 1) && (s2.flag == 0 || s2.flag == 1)); /* documented domain of a flag */
    __CPROVER_assume(m >= 0 && m <= 31 && k >= 0 && k <= 32);     /* public */

    x = s1; y = s2;
    CT2("C06 fe_cmov: trace independent of flag and operands", secp256k1_fe_cmov(&x.r, &x.a, x.flag), secp256k1_fe_cmov(&y.r, &y.a, y.flag));
    if (s1.flag != s2.flag) REACH("fe_cmov with different flags");
    x = s1; y = s2;
    CT2("C06 fe_storage_cmov: trace independent of flag and operands", secp256k1_fe_storage_cmov(&x.sr, &x.sa, x.flag), secp256k1_fe_storage_cmov(&y.sr, &y.sa, y.flag));
    x = s1; y = s2;
    CT2("C06 fe_normalize: trace independent of operand", secp256k1_fe_normalize(&x.r), secp256k1_fe_normalize(&y.r));
    x = s1; y = s2;
    CT2("C06 fe_normalize_weak: trace independent of operand", secp256k1_fe_normalize_weak(&x.r), secp256k1_fe_normalize_weak(&y.r));
    x = s1; y = s2;
    CT2("C06 fe_normalizes_to_zero: trace independent of operand", x.ret = secp256k1_fe_normalizes_to_zero(&x.a), y.ret = secp256k1_fe_normalizes_to_zero(&y.a));
    if (x.ret != y.ret) REACH("normalizes_to_zero with different verdicts");
    CT2("C06 fe_negate: trace independent of operand (public magnitude)", secp256k1_fe_negate_unchecked(&x.r, &x.a, m), secp256k1_fe_negate_unchecked(&y.r, &y.a, m));
    x = s1; y = s2;
    CT2("C06 fe_add: trace independent of operands", secp256k1_fe_add(&x.r, &x.a), secp256k1_fe_add(&y.r, &y.a));
    CT2("C06 fe_mul_int: trace independent of operand (public factor)", secp256k1_fe_mul_int_unchecked(&x.r, k), secp256k1_fe_mul_int_unchecked(&y.r, k));
    CT2("C06 fe_add_int: trace independent of operand (public addend)", secp256k1_fe_add_int(&x.r, k), secp256k1_fe_add_int(&y.r, k));
    x = s1; y = s2;
    CT2("C06 fe_half: trace independent of operand", secp256k1_fe_half(&x.r), secp256k1_fe_half(&y.r));
    x = s1; y = s2;
    CT2("C06 fe_to_storage: trace independent of operand", secp256k1_fe_to_storage(&x.sr, &x.a), secp256k1_fe_to_storage(&y.sr, &y.a));
    CT2("C06 fe_from_storage: trace independent of operand", secp256k1_fe_from_storage(&x.r, &x.sa), secp256k1_fe_from_storage(&y.r, &y.sa));
    CT2("C06 fe_is_odd: trace independent of operand", x.ret = secp256k1_fe_is_odd(&x.a), y.ret = secp256k1_fe_is_odd(&y.a));
    if (x.ret != y.ret) REACH("is_odd on odd and even");
    CT2("C06 fe_is_zero: trace independent of operand", x.ret = secp256k1_fe_is_zero(&x.a), y.ret = secp256k1_fe_is_zero(&y.a));
    if (x.ret != y.ret) REACH("is_zero on zero and non-zero");
    CT2("C06 fe_equal: trace independent of operands", x.ret = secp256k1_fe_equal(&x.a, &x.b), y.ret = secp256k1_fe_equal(&y.a, &y.b));
    CT2("C06 fe_get_b32: trace independent of operand", secp256k1_fe_get_b32(x.b32, &x.a), secp256k1_fe_get_b32(y.b32, &y.a));
    x = s1; y = s2;
    CT2("C06 fe_set_b32_mod: trace independent of the bytes", secp256k1_fe_set_b32_mod(&x.r, x.b32), secp256k1_fe_set_b32_mod(&y.r, y.b32));
    CT2("C06 fe_set_b32_limit: trace independent of the bytes", x.ret = secp256k1_fe_set_b32_limit(&x.r, x.b32), y.ret = secp256k1_fe_set_b32_limit(&y.r, y.b32));
    if (x.ret != y.ret) REACH("set_b32_limit in and out of range");
    CT2("C06 fe_clear: trace independent of operand", secp256k1_fe_clear(&x.r), secp256k1_fe_clear(&y.r));
}

void h_ct_fe_mul(void) {
    INPUT(fsec, m1); INPUT(fsec, m2);
    CT_CANARY()
    CT2("C06 fe_mul: trace independent of operands", secp256k1_fe_mul(&m1.r, &m1.a, &m1.b), secp256k1_fe_mul(&m2.r, &m2.a, &m2.b));
    CT2("C06 fe_sqr: trace independent of operand", secp256k1_fe_sqr(&m1.r, &m1.a), secp256k1_fe_sqr(&m2.r, &m2.a));
    if (m1.a.n[0] != m2.a.n[0]) REACH("fe_mul/sqr on different operands");
}

void h_ct_fe_inv(void) {
    INPUT(fsec, i1); INPUT(fsec, i2);
    CT_CANARY()
    CT2("C06 fe_inv (modinv, fixed divstep count): trace independent of operand", secp256k1_fe_inv(&i1.r, &i1.a), secp256k1_fe_inv(&i2.r, &i2.a));
    if (i1.a.n[0] != i2.a.n[0]) REACH("fe_inv on different operands");
}

void h_ct_fe_sqrt(void) {
    INPUT(fsec, q1); INPUT(fsec, q2);
    CT_CANARY()
    CT2("C06 fe_sqrt: trace independent of operand", q1.ret = secp256k1_fe_sqrt(&q1.r, &q1.a), q2.ret = secp256k1_fe_sqrt(&q2.r, &q2.a));
    if (q1.a.n[0] != q2.a.n[0]) REACH("fe_sqrt on different operands");
}

/* C06: scalar primitives (4x64 in cfg W128, 8x32 in cfg W64).  Everything in a `sec` pool is secret
 * and chosen independently for the two runs; no representation assumption is made on the scalars
 * (the statement holds for every limb pattern, reduced or not).  Public: bit positions, counts. */
#include "pre.h"
#include "src/secp256k1.c"
#include "post.h"
#include "ct.h"

typedef struct { secp256k1_scalar a, b, r, r2; int flag; unsigned char b32[32]; int ov; int ret; } sec;

void h_ct_scalar_basic(void) {
    INPUT(sec, s1); INPUT(sec, s2);
    INPUT(unsigned, bit); INPUT(unsigned, off); INPUT(unsigned, cnt);
    sec x, y;
    CT_CANARY()
    __CPROVER_assume((s1.flag == 0 || s1.flag == 1) && (s2.flag == 0 || s2.flag == 1)); /* documented domain of a flag */
    __CPROVER_assume(bit < 256);                                   /* public */
    __CPROVER_assume(cnt >= 1 && cnt <= 32 && off < 256 && (off + cnt - 1) / 32 == off / 32); /* public; limb32 precondition */

    x = s1; y = s2;
    CT2("C06 scalar_cmov: trace independent of flag and operands", secp256k1_scalar_cmov(&x.r, &x.a, x.flag), secp256k1_scalar_cmov(&y.r, &y.a, y.flag));
    x = s1; y = s2;
    CT2("C06 scalar_cond_negate: trace independent of flag and operand", x.ret = secp256k1_scalar_cond_negate(&x.r, x.flag), y.ret = secp256k1_scalar_cond_negate(&y.r, y.flag));
    if (x.ret != y.ret) REACH("cond_negate with different flags");
    x = s1; y = s2;
    CT2("C06 scalar_negate: trace independent of operand", secp256k1_scalar_negate(&x.r, &x.a), secp256k1_scalar_negate(&y.r, &y.a));
    x = s1; y = s2;
    CT2("C06 scalar_add: trace independent of operands", x.ov = secp256k1_scalar_add(&x.r, &x.a, &x.b), y.ov = secp256k1_scalar_add(&y.r, &y.a, &y.b));
    if (x.ov != y.ov) REACH("scalar_add with and without overflow");
    x = s1; y = s2;
    CT2("C06 scalar_cadd_bit: trace independent of flag and operand", secp256k1_scalar_cadd_bit(&x.r, bit, x.flag), secp256k1_scalar_cadd_bit(&y.r, bit, y.flag));
    x = s1; y = s2;
    CT2("C06 scalar_half: trace independent of operand", secp256k1_scalar_half(&x.r, &x.a), secp256k1_scalar_half(&y.r, &y.a));
    x = s1; y = s2;
    CT2("C06 scalar_set_b32: trace independent of the bytes", secp256k1_scalar_set_b32(&x.r, x.b32, &x.ov), secp256k1_scalar_set_b32(&y.r, y.b32, &y.ov));
    if (x.ov != y.ov) REACH("set_b32 with and without overflow");
    x = s1; y = s2;
    CT2("C06 scalar_set_b32 (overflow == NULL): trace independent of the bytes", secp256k1_scalar_set_b32(&x.r, x.b32, NULL), secp256k1_scalar_set_b32(&y.r, y.b32, NULL));
    x = s1; y = s2;
    CT2("C06 scalar_set_b32_seckey: trace independent of the bytes", x.ret = secp256k1_scalar_set_b32_seckey(&x.r, x.b32), y.ret = secp256k1_scalar_set_b32_seckey(&y.r, y.b32));
    if (x.ret != y.ret) REACH("set_b32_seckey valid and invalid key");
    x = s1; y = s2;
    CT2("C06 scalar_get_b32: trace independent of operand", secp256k1_scalar_get_b32(x.b32, &x.a), secp256k1_scalar_get_b32(y.b32, &y.a));
    x = s1; y = s2;
    CT2("C06 scalar_is_zero: trace independent of operand", x.ret = secp256k1_scalar_is_zero(&x.a), y.ret = secp256k1_scalar_is_zero(&y.a));
    if (x.ret != y.ret) REACH("is_zero on zero and non-zero");
    CT2("C06 scalar_is_one: trace independent of operand", x.ret = secp256k1_scalar_is_one(&x.a), y.ret = secp256k1_scalar_is_one(&y.a));
    CT2("C06 scalar_is_even: trace independent of operand", x.ret = secp256k1_scalar_is_even(&x.a), y.ret = secp256k1_scalar_is_even(&y.a));
    CT2("C06 scalar_is_high: trace independent of operand", x.ret = secp256k1_scalar_is_high(&x.a), y.ret = secp256k1_scalar_is_high(&y.a));
    if (x.ret != y.ret) REACH("is_high on high and low");
    CT2("C06 scalar_eq: trace independent of operands", x.ret = secp256k1_scalar_eq(&x.a, &x.b), y.ret = secp256k1_scalar_eq(&y.a, &y.b));
    CT2("C06 scalar_check_overflow: trace independent of operand", x.ret = secp256k1_scalar_check_overflow(&x.a), y.ret = secp256k1_scalar_check_overflow(&y.a));
    x = s1; y = s2;
    CT2("C06 scalar_reduce: trace independent of operand and overflow bit", secp256k1_scalar_reduce(&x.r, (unsigned)x.flag), secp256k1_scalar_reduce(&y.r, (unsigned)y.flag));
    CT2("C06 scalar_get_bits_limb32: trace independent of operand (public offset/count)", x.ret = (int)secp256k1_scalar_get_bits_limb32(&x.a, off, cnt), y.ret = (int)secp256k1_scalar_get_bits_limb32(&y.a, off, cnt));
    x = s1; y = s2;
    CT2("C06 scalar_clear: trace independent of operand", secp256k1_scalar_clear(&x.r), secp256k1_scalar_clear(&y.r));
}

void h_ct_scalar_mul(void) {
    INPUT(sec, m1); INPUT(sec, m2);
    CT_CANARY()
    CT2("C06 scalar_mul: trace independent of operands", secp256k1_scalar_mul(&m1.r, &m1.a, &m1.b), secp256k1_scalar_mul(&m2.r, &m2.a, &m2.b));
    CT2("C06 scalar_sqr: trace independent of operand", secp256k1_scalar_sqr(&m1.r2, &m1.a), secp256k1_scalar_sqr(&m2.r2, &m2.a));
    if (m1.a.d[0] != m2.a.d[0]) REACH("scalar_mul/sqr on different operands");
}

void h_ct_scalar_inverse(void) {
    INPUT(sec, i1); INPUT(sec, i2);
    CT_CANARY()
    CT2("C06 scalar_inverse (modinv, fixed divstep count): trace independent of operand", secp256k1_scalar_inverse(&i1.r, &i1.a), secp256k1_scalar_inverse(&i2.r, &i2.a));
    if (i1.a.d[0] != i2.a.d[0]) REACH("scalar_inverse on different operands");
}

void h_ct_scalar_split_lambda(void) {
    INPUT(sec, l1); INPUT(sec, l2);
    CT_CANARY()
    CT2("C06 scalar_split_lambda: trace independent of operand", secp256k1_scalar_split_lambda(&l1.r, &l1.r2, &l1.a), secp256k1_scalar_split_lambda(&l2.r, &l2.r2, &l2.a));
    if (l1.a.d[0] != l2.a.d[0]) REACH("split_lambda on different operands");
}

/* C06 common part: exact recorder for the branch-decision trace.
 *
 * `goto-instrument --branch leak` (Unit field branch=True) rewrites EVERY conditional goto of every
 * function of the translation unit (real library code and harness alike, but not `leak` itself) into
 *      if (!c) goto T';  leak("taken"); goto T;   T': leak("not-taken");
 * so the sequence of leak() arguments between two points of an execution is exactly the sequence of
 * branch decisions taken.  Starting from the same program point the decision sequence determines the
 * sequence of program points (control flow is deterministic given the decisions; the primitives below
 * make no indirect calls except where stated), so equal decision sequences <=> equal control flow.
 *
 * Self-composition: run 1 records its decisions into ct_t1, run 2 into ct_t2.  No hashing: the
 * comparison is exact.
 *   CT_RUN1(call);  CT_RUN2(call);  CT_SAME("text")
 * asserts: same number of decisions, every decision equal, recorder did not overflow.
 *
 * Vacuity guard: CT_CANARY() runs a one-branch function on two independent inputs; its traces MUST be
 * able to differ.  It is a REACH witness, so a unit built without the instrumentation is reported
 * broken (exit 2), not passing. */
#ifndef VERIF_CT_H
#define VERIF_CT_H
#ifndef CT_MAX
#define CT_MAX 4096
#endif
/* The trace of a run is kept as a CT_MAX-bit shift register plus a decision counter: injective for
 * every trace of at most CT_MAX decisions (ct_ovf records a longer one).  Shifts by one are wiring and
 * path merges are multiplexers, so symbolic PUBLIC parameters (lengths) stay cheap. */
typedef unsigned __CPROVER_bitvector[CT_MAX] ct_reg;
ct_reg ct_t1, ct_t2;
unsigned ct_n, ct_n1;
unsigned char ct_mode, ct_ovf;

/* branch-free on purpose (leak is itself exempt from instrumentation; keeps symex linear) */
void leak(const char *id) {
    ct_reg d = (ct_reg)(id[0] == 't');            /* "taken" / "not-taken" */
    ct_ovf |= (unsigned char)(ct_n >= CT_MAX);
    ct_t1 = ct_mode ? ct_t1 : ((ct_t1 << 1) | d);   /* run 1 */
    ct_t2 = ct_mode ? ((ct_t2 << 1) | d) : ct_t2;   /* run 2 */
    ct_n++;
}
/* plain blocks, no do{}while(0): goto-cc turns `while (0)` into a conditional goto that would itself
 * be instrumented and counted */
#define CT_RESET() { ct_n = 0; ct_n1 = 0; ct_mode = 0; ct_ovf = 0; ct_t1 = 0; ct_t2 = 0; }
#define CT_RUN1(call) { CT_RESET() call; ct_n1 = ct_n; ct_n = 0; ct_mode = 1; }
#define CT_RUN2(call) { call; ct_mode = 0; }
#define CT_EQUAL (ct_n == ct_n1 && ct_t1 == ct_t2 && !ct_ovf)
#define CT_SAME(text) { __CPROVER_assert(!ct_ovf, "C06 recorder: trace length within CT_MAX (harness sizing, not a property of the code)"); __CPROVER_assert(CT_EQUAL, text); }
/* the usual pair: same public arguments, independent secret arguments */
#define CT2(text, call1, call2) CT_RUN1(call1) CT_RUN2(call2) CT_SAME(text)

static int ct_canary_fn(int x) { int r = 0; if (x) { r = 1; } return r; }
#define CT_CANARY() { INPUT(int, ct_cx); INPUT(int, ct_cy); \
    CT_RUN1(ct_canary_fn(ct_cx)) CT_RUN2(ct_canary_fn(ct_cy)) \
    __CPROVER_assert(ct_n1 == 1 && ct_n == 1, "C06 recorder: the one-branch canary yields exactly one decision per run"); \
    if (ct_t1 != ct_t2) REACH("branch instrumentation is live (canary traces can differ)"); }
#endif

/* C06 common part: exact recorder for the branch-decision trace.
 *
 * `goto-instrument --branch leak` (Unit field branch=True) rewrites EVERY conditional goto of every
 * function of the translation unit (real library code and harness alike, but not `leak` itself) into
 *      if (!c) goto T';  leak("taken"); goto T;   T': leak("not-taken");
 * so the sequence of leak() arguments between two points of an execution is exactly the sequence of
 * branch decisions taken.  Starting from the same program point the decision sequence determines the
 * sequence of program points (control flow is deterministic given the decisions; the primitives below
 * make no indirect calls except where stated), so equal decision sequences <=> equal control flow.
 *
 * Self-composition: run 1 records its decisions into ct_tr[], run 2 compares decision number k
 * against ct_tr[k] on the fly (ct_diff).  No hashing: the comparison is exact.
 *   CT_RUN1(call);  CT_RUN2(call);  CT_SAME("text")
 * asserts: same number of decisions, every decision equal, recorder did not overflow.
 *
 * Vacuity guard: CT_CANARY() runs a one-branch function on two independent inputs; its traces MUST be
 * able to differ.  It is a REACH witness, so a unit built without the instrumentation is reported
 * broken (exit 2), not passing. */
#ifndef VERIF_CT_H
#define VERIF_CT_H
#ifndef CT_MAX
#define CT_MAX 4096
#endif
unsigned char ct_tr[CT_MAX];
unsigned ct_n, ct_n1;
unsigned char ct_mode, ct_diff, ct_ovf;
unsigned ct_dirs; /* decisions seen in run 1 that were "taken" (only used by reach witnesses) */

/* branch-free on purpose (it is itself exempt from instrumentation; keeps symex linear) */
void leak(const char *id) {
    unsigned char d = (unsigned char)(id[0] == 't');            /* "taken" / "not-taken" */
    unsigned i = ct_n < CT_MAX ? ct_n : CT_MAX - 1;
    ct_ovf |= (unsigned char)(ct_n >= CT_MAX);
    ct_diff |= (unsigned char)(ct_mode & (ct_tr[i] != d));      /* run 2: compare */
    ct_tr[i] = ct_mode ? ct_tr[i] : d;                          /* run 1: record */
    ct_dirs += (unsigned)(!ct_mode & d);
    ct_n++;
}
#define CT_RESET() do { ct_n = 0; ct_n1 = 0; ct_mode = 0; ct_diff = 0; ct_ovf = 0; ct_dirs = 0; } while (0)
#define CT_RUN1(call) do { CT_RESET(); call; ct_n1 = ct_n; ct_n = 0; ct_mode = 1; } while (0)
#define CT_RUN2(call) do { call; ct_mode = 0; } while (0)
#define CT_EQUAL (ct_n == ct_n1 && !ct_diff && !ct_ovf)
#define CT_SAME(text) __CPROVER_assert(CT_EQUAL, text)

static int ct_canary_fn(int x) { int r = 0; if (x) { r = 1; } return r; }
#define CT_CANARY() do { INPUT(int, ct_cx); INPUT(int, ct_cy); \
    CT_RUN1(ct_canary_fn(ct_cx)); CT_RUN2(ct_canary_fn(ct_cy)); \
    if (!CT_EQUAL && ct_n1 == 1) REACH("branch instrumentation is live (canary traces can differ)"); } while (0)
#endif

/* C06 common part: exact recorder for the branch-decision trace.
 *
 * `goto-instrument --branch leak` (Unit field branch=True) rewrites EVERY conditional goto of every
 * function of the translation unit (real library code and harness alike, but not `leak` itself) into
 *      if (!c) goto T';  leak("taken"); goto T;   T': leak("not-taken");
 * so the sequence of leak() arguments between two points of an execution is exactly the sequence of
 * branch decisions taken.  Starting from the same program point the decision sequence determines the
 * sequence of program points (control flow is deterministic given the decisions; the primitives below
 * make no indirect calls except where stated), so equal decision sequences <=> equal control flow.
 *
 * Self-composition, exact, in ghost-index form: ct_w is a decision NUMBER chosen once per harness run by
 * the verifier (nondeterministic, never assigned afterwards).  Run 1 remembers the direction of its
 * decision number ct_w in ct_d1, run 2 in ct_d2 (2 = that run had fewer decisions).  "Same number of
 * decisions and ct_d1 == ct_d2 for every ct_w" is equality of the two decision sequences; no hashing,
 * no capacity limit.  (A shift-register recorder was tried first: it is just as exact but makes the
 * failing case - a real secret-dependent branch - very expensive for the solver.)
 *   CT_RUN1(call);  CT_RUN2(call);  CT_SAME("text")      or  CT2("text", call1, call2)
 *
 * Vacuity guard: CT_CANARY() (first statement of every entry; it also draws ct_w) runs a one-branch
 * function on two independent inputs; its traces MUST be able to differ.  It is a REACH witness, so a
 * unit built without the instrumentation is reported broken (exit 2), not passing. */
#ifndef VERIF_CT_H
#define VERIF_CT_H
unsigned ct_w;                    /* ghost: watched decision number */
unsigned ct_n, ct_n1;             /* decisions so far in this run / total of run 1 */
unsigned char ct_mode;            /* 0: run 1, 1: run 2 */
unsigned char ct_d1, ct_d2;       /* direction of decision number ct_w in run 1 / run 2; 2 = none */

/* branch-free on purpose (leak is itself exempt from instrumentation; keeps symex linear) */
void leak(const char *id) {
    unsigned char d = (unsigned char)(id[0] == 't');            /* "taken" / "not-taken" */
    unsigned char hit = (unsigned char)(ct_n == ct_w);
    ct_d1 = (hit & !ct_mode) ? d : ct_d1;
    ct_d2 = (hit & ct_mode) ? d : ct_d2;
    ct_n++;
}
/* plain blocks, no do{}while(0): goto-cc turns `while (0)` into a conditional goto that would itself
 * be instrumented and counted */
#define CT_RESET() { ct_n = 0; ct_n1 = 0; ct_mode = 0; ct_d1 = 2; ct_d2 = 2; }
#define CT_RUN1(call) { CT_RESET() call; ct_n1 = ct_n; ct_n = 0; ct_mode = 1; }
#define CT_RUN2(call) { call; ct_mode = 0; }
#define CT_EQUAL (ct_n == ct_n1 && ct_d1 == ct_d2)
#define CT_SAME(text) __CPROVER_assert(CT_EQUAL, text)
/* the usual pair: same public arguments, independent secret arguments */
#define CT2(text, call1, call2) CT_RUN1(call1) CT_RUN2(call2) CT_SAME(text)

static int ct_canary_fn(int x) { int r = 0; if (x) { r = 1; } return r; }
#define CT_CANARY() { INPUT(unsigned, ct_watch); INPUT(int, ct_cx); INPUT(int, ct_cy); ct_w = ct_watch; \
    CT_RUN1(ct_canary_fn(ct_cx)) CT_RUN2(ct_canary_fn(ct_cy)) \
    __CPROVER_assert(ct_n1 == 1 && ct_n == 1, "C06 recorder: the one-branch canary yields exactly one decision per run"); \
    if (ct_d1 != ct_d2) REACH("branch instrumentation is live (canary traces can differ)"); }
#endif

/* C06, API-level compositions (idiom of C06.sign_inner, see sign.c).
 *
 * Every entry runs ONE API function twice: same context and same public arguments, INDEPENDENT secret
 * arguments.  The only relations assumed between the two runs' secrets are the bits the library itself
 * declassifies before branching on them (secp256k1_declassify in the source; listed at each entry).
 * Values the library declassifies and that come out of a replaced callee (a nonce point, a batch of
 * public nonces, a verdict) are handed out by the stub from a harness table shared by both runs.
 * Everything else a stub returns is arbitrary and independent per run.
 *
 * Replaced callees (goto-instrument --replace-calls) and the units that carry their own trace proof:
 *   secp256k1_ecmult_gen            C06.ecmult_gen, C06.ecmult_gen_scan, C06.ecmult_gen_whole*
 *   secp256k1_ecmult_const          C06.ecmult_const, C06.const_table_get, C06.ecmult_const_whole
 *   secp256k1_ge_set_gej            C06.ge_set_gej
 *   secp256k1_ge_set_all_gej        C06.ge_set_all_gej (here, n = 2)
 *   nonce_function_bip340_impl      C06.nonce_bip340 (here, fixed lengths)
 *   secp256k1_schnorrsig_challenge, secp256k1_musig_keyaggcoef, secp256k1_ec_pubkey_tweak_add_helper:
 *       run on PUBLIC data only (no secret reaches them); assumed deterministic in their arguments
 *   secp256k1_ec_seckey_tweak_add_helper (only in keypair_xonly_tweak_add: its verdict is declassified
 *       there)                      real in C06.api_seckey
 * Obligation of every entry: equal branch-decision traces (exact recorder of ct.h). */
#include "pre.h"
#include "src/secp256k1.c"
#include "post.h"
#include "ct.h"

secp256k1_scalar nondet_scalar(void); secp256k1_gej nondet_gej(void); secp256k1_ge nondet_ge(void);

/* ---------------------------------------------------------------- shared tables and stubs */
#define NTAB 4
secp256k1_ge g_pub_ge[NTAB];          /* PUBLIC points (declassified results), same in both runs */
int g_pub_verdict[NTAB];              /* PUBLIC verdicts, same in both runs */
unsigned char g_sec_nonce[2][32];     /* SECRET nonce bytes, one set per run */
int g_nonce_ret;                      /* PUBLIC return value of the nonce function */
unsigned g_ge_i, g_v_i, g_nonce_calls, g_nonce_calls1;
#define API_RUN_RESET() { g_ge_i = 0; g_v_i = 0; g_nonce_calls = 0; }

void api_ecmult_gen(const secp256k1_ecmult_gen_context *ctx, secp256k1_gej *r, const secp256k1_scalar *a) { (void)ctx; (void)a; *r = nondet_gej(); r->infinity &= 1; }
void api_ecmult_const(secp256k1_gej *r, const secp256k1_ge *a, const secp256k1_scalar *q) { (void)a; (void)q; *r = nondet_gej(); r->infinity &= 1; }
/* result stays secret (the caller declassifies it only after the API returned) */
void api_ge_set_gej_secret(secp256k1_ge *r, secp256k1_gej *a) { (void)a; *r = nondet_ge(); r->infinity &= 1; }
/* result is declassified by the caller before it branches on it: public, equal in both runs */
void api_ge_set_gej_public(secp256k1_ge *r, secp256k1_gej *a) { (void)a; *r = g_pub_ge[g_ge_i < NTAB ? g_ge_i : NTAB - 1]; g_ge_i++; }
void api_ge_set_all_gej_public(secp256k1_ge *r, const secp256k1_gej *a, size_t len) {
    size_t i; (void)a;
    for (i = 0; i < len && i < NTAB; i++) r[i] = g_pub_ge[i];
}
static int api_nonce_common(unsigned char *nonce32) { memcpy(nonce32, g_sec_nonce[ct_mode & 1], 32); g_nonce_calls++; return g_nonce_ret; }
int api_nonce_bip340_impl(const secp256k1_hash_ctx *hash_ctx, unsigned char *nonce32, const unsigned char *msg, size_t msglen, const unsigned char *key32, const unsigned char *xonly_pk32, const unsigned char *algo, size_t algolen, void *data) {
    (void)hash_ctx; (void)msg; (void)msglen; (void)key32; (void)xonly_pk32; (void)algo; (void)algolen; (void)data;
    return api_nonce_common(nonce32) != 0;
}
int api_user_nonce_hardened(unsigned char *nonce32, const unsigned char *msg, size_t msglen, const unsigned char *key32, const unsigned char *xonly_pk32, const unsigned char *algo, size_t algolen, void *data) {
    (void)msg; (void)msglen; (void)key32; (void)xonly_pk32; (void)algo; (void)algolen; (void)data;
    return api_nonce_common(nonce32);
}
void api_challenge(const secp256k1_hash_ctx *hash_ctx, secp256k1_scalar *e, const unsigned char *r32, const unsigned char *msg, size_t msglen, const unsigned char *pubkey32) {
    (void)hash_ctx; (void)r32; (void)msg; (void)msglen; (void)pubkey32; *e = nondet_scalar();
}
void api_keyaggcoef(const secp256k1_hash_ctx *hash_ctx, secp256k1_scalar *r, const secp256k1_keyagg_cache_internal *cache_i, secp256k1_ge *pk) {
    (void)hash_ctx; (void)cache_i; (void)pk; *r = nondet_scalar();
}
int api_seckey_tweak_add_helper(secp256k1_scalar *sec, const unsigned char *tweak32) { (void)tweak32; *sec = nondet_scalar(); return g_pub_verdict[(g_v_i++) & 1]; }
int api_pubkey_tweak_add_helper(secp256k1_ge *p, const unsigned char *tweak32) { (void)tweak32; *p = nondet_ge(); p->infinity = 0; return g_pub_verdict[2 + ((g_v_i++) & 1)]; }
int api_user_ecdh_hash(unsigned char *output, const unsigned char *x32, const unsigned char *y32, void *data) {
    int i; (void)x32; (void)y32; (void)data;
    for (i = 0; i < 32; i++) output[i] = nondet_uchar();
    return g_pub_verdict[0];
}

typedef struct { secp256k1_ge ge[NTAB]; int v[NTAB]; int nonce_ret; } pubtab;
typedef struct { unsigned char b[32]; } b32;
typedef struct { unsigned char b[64]; } b64;
#define API_CTX() secp256k1_context ctx; INPUT(secp256k1_context, ctx_in); INPUT(pubtab, tab); \
    ctx = ctx_in; verif_ctx_init(&ctx); ctx.hash_ctx.fn_sha256_compression = secp256k1_sha256_transform; ctx.ecmult_gen_ctx.built = 1; \
    { int ti; for (ti = 0; ti < NTAB; ti++) { g_pub_ge[ti] = tab.ge[ti]; g_pub_ge[ti].infinity = 0; g_pub_verdict[ti] = (tab.v[ti] != 0); } g_nonce_ret = tab.nonce_ret; }
static int valid_seckey(const unsigned char *k) { secp256k1_scalar t; return secp256k1_scalar_set_b32_seckey(&t, k); }
static int all_zero32(const unsigned char *k) { int i, z = 1; for (i = 0; i < 32; i++) z &= (k[i] == 0); return z; }

/* ================================================================ (1) secret-key arithmetic: nothing is replaced, nothing is assumed */
void h_api_seckey(void) {
    INPUT(b32, k1); INPUT(b32, k2); INPUT(b32, t1); INPUT(b32, t2);
    b32 x, y; int r1, r2;
    API_CTX()
    CT_CANARY()
    CT2("C06 api ec_seckey_verify: branch trace independent of the key bytes", r1 = secp256k1_ec_seckey_verify(&ctx, k1.b), r2 = secp256k1_ec_seckey_verify(&ctx, k2.b));
    if (r1 != r2) REACH("seckey_verify: valid and invalid key");
    x = k1; y = k2;
    CT2("C06 api ec_seckey_negate: branch trace independent of the key bytes", r1 = secp256k1_ec_seckey_negate(&ctx, x.b), r2 = secp256k1_ec_seckey_negate(&ctx, y.b));
    if (r1 != r2) REACH("seckey_negate: valid and invalid key");
    x = k1; y = k2;
    CT2("C06 api ec_seckey_tweak_add: branch trace independent of key and tweak bytes", r1 = secp256k1_ec_seckey_tweak_add(&ctx, x.b, t1.b), r2 = secp256k1_ec_seckey_tweak_add(&ctx, y.b, t2.b));
    if (r1 != r2) REACH("seckey_tweak_add: success and failure");
    x = k1; y = k2;
    CT2("C06 api ec_seckey_tweak_mul: branch trace independent of key and tweak bytes", r1 = secp256k1_ec_seckey_tweak_mul(&ctx, x.b, t1.b), r2 = secp256k1_ec_seckey_tweak_mul(&ctx, y.b, t2.b));
    if (r1 != r2) REACH("seckey_tweak_mul: success and failure");
    __CPROVER_assert(g_illegal == 0 && g_error == 0, "C06 api seckey: no callback");
}

/* ================================================================ (1) key generation: ecmult_gen, ge_set_gej replaced (result secret) */
void h_api_keygen(void) {
    INPUT(b32, k1); INPUT(b32, k2);
    secp256k1_pubkey p1, p2; secp256k1_keypair q1, q2; int r1, r2;
    API_CTX()
    CT_CANARY()
    CT2("C06 api ec_pubkey_create: branch trace independent of the key bytes (valid or not)", r1 = secp256k1_ec_pubkey_create(&ctx, &p1, k1.b), r2 = secp256k1_ec_pubkey_create(&ctx, &p2, k2.b));
    if (r1 == 1 && r2 == 0) REACH("pubkey_create: valid and invalid key");
    CT2("C06 api keypair_create: branch trace independent of the key bytes (valid or not)", r1 = secp256k1_keypair_create(&ctx, &q1, k1.b), r2 = secp256k1_keypair_create(&ctx, &q2, k2.b));
    if (r1 == 1 && r2 == 0) REACH("keypair_create: valid and invalid key");
    __CPROVER_assert(g_illegal == 0 && g_error == 0, "C06 api keygen: no callback");
}

/* ================================================================ (1) keypair_xonly_tweak_add
 * secret: the keypair's secret half.  public: its public half, the tweak.  declassified by the code: validity of the
 * stored secret key (keypair_seckey_load) and the combined verdict of the two tweak helpers. */
void h_api_keypair_tweak(void) {
    INPUT(secp256k1_keypair, kp1); INPUT(b32, sk2); INPUT(b32, tw);
    secp256k1_keypair a, b; int r1, r2;
    API_CTX()
    CT_CANARY()
    a = kp1; b = kp1; memcpy(&b.data[0], sk2.b, 32);                 /* same public half, independent secret half */
    __CPROVER_assume(valid_seckey(&a.data[0]) == valid_seckey(&b.data[0]));   /* declassified in keypair_seckey_load */
    API_RUN_RESET()
    CT_RUN1(r1 = secp256k1_keypair_xonly_tweak_add(&ctx, &a, tw.b))
    API_RUN_RESET()
    CT_RUN2(r2 = secp256k1_keypair_xonly_tweak_add(&ctx, &b, tw.b))
    CT_SAME("C06 api keypair_xonly_tweak_add: branch trace independent of the secret half (declassified bits equal)");
    if (r1 == 1 && kp1.data[0] != sk2.b[0]) REACH("keypair_xonly_tweak_add: success on different secret keys");
    if (r1 == 0 && g_illegal == 0) REACH("keypair_xonly_tweak_add: tweak failure");
}

/* ================================================================ (2) schnorrsig_sign_internal
 * secret: keypair secret half, aux data, the nonce bytes.  public: message, public half.  declassified by the code:
 * secret-key validity, the nonce point r.  public by convention: the nonce function's return value. */
void h_api_schnorrsig_sign(void) {
    INPUT(secp256k1_keypair, kp1); INPUT(b32, sk2); INPUT(b32, n1); INPUT(b32, n2); INPUT(b32, aux1); INPUT(b32, aux2); INPUT(b32, msg);
    INPUT(_Bool, use_fn); INPUT(_Bool, use_aux); INPUT(size_t, msglen);
    secp256k1_keypair a, b; unsigned char s1[64], s2[64]; int r1, r2;
    API_CTX()
    CT_CANARY()
    a = kp1; b = kp1; memcpy(&b.data[0], sk2.b, 32);
    __CPROVER_assume(valid_seckey(&a.data[0]) == valid_seckey(&b.data[0]));   /* declassified in keypair_seckey_load */
    __CPROVER_assume(msglen <= 32);
    memcpy(g_sec_nonce[0], n1.b, 32); memcpy(g_sec_nonce[1], n2.b, 32);
    API_RUN_RESET()
    CT_RUN1(r1 = secp256k1_schnorrsig_sign_internal(&ctx, s1, msg.b, msglen, &a, use_fn ? api_user_nonce_hardened : NULL, use_aux ? aux1.b : NULL))
    g_nonce_calls1 = g_nonce_calls; API_RUN_RESET()
    CT_RUN2(r2 = secp256k1_schnorrsig_sign_internal(&ctx, s2, msg.b, msglen, &b, use_fn ? api_user_nonce_hardened : NULL, use_aux ? aux2.b : NULL))
    CT_SAME("C06 api schnorrsig_sign: branch trace independent of secret key, aux randomness and nonce (declassified bits equal)");
    __CPROVER_assert(g_nonce_calls == g_nonce_calls1, "C06 api schnorrsig_sign: the nonce function is called equally often in both runs");
    if (r1 == 1 && r2 == 0 && g_illegal == 0) REACH("schnorrsig_sign: zero nonce in one run only");
    if (r1 == 1 && r2 == 1 && use_fn && n1.b[31] != n2.b[31]) REACH("schnorrsig_sign: user nonce function, different nonces");
    if (r1 == 1 && !use_fn && use_aux) REACH("schnorrsig_sign: built-in nonce function with aux");
}

/* the BIP-340 nonce function itself: secret key32 and aux data; public message (32 bytes here), pubkey, algo */
void h_api_nonce_bip340(void) {
    INPUT(b32, k1); INPUT(b32, k2); INPUT(b32, ax1); INPUT(b32, ax2); INPUT(b32, msg); INPUT(b32, xpk32);
    unsigned char o1[32], o2[32]; int r1, r2; static const unsigned char other[9] = "some/algo";
    secp256k1_hash_ctx hc;
    CT_CANARY()
    hc.fn_sha256_compression = secp256k1_sha256_transform;
    /* which optional arguments are present is public: enumerated concretely (symbolic presence makes every later length symbolic) */
    CT2("C06 nonce_function_bip340_impl (BIP-340 algo, aux): branch trace independent of key and aux data",
        r1 = nonce_function_bip340_impl(&hc, o1, msg.b, 32, k1.b, xpk32.b, bip340_algo, sizeof(bip340_algo), ax1.b),
        r2 = nonce_function_bip340_impl(&hc, o2, msg.b, 32, k2.b, xpk32.b, bip340_algo, sizeof(bip340_algo), ax2.b));
    if (r1 == 1 && r2 == 1 && k1.b[0] != k2.b[0]) REACH("nonce_bip340 with aux");
    CT2("C06 nonce_function_bip340_impl (BIP-340 algo, no aux): branch trace independent of the key",
        r1 = nonce_function_bip340_impl(&hc, o1, msg.b, 32, k1.b, xpk32.b, bip340_algo, sizeof(bip340_algo), NULL),
        r2 = nonce_function_bip340_impl(&hc, o2, msg.b, 32, k2.b, xpk32.b, bip340_algo, sizeof(bip340_algo), NULL));
    CT2("C06 nonce_function_bip340_impl (other algo, aux): branch trace independent of key and aux data",
        r1 = nonce_function_bip340_impl(&hc, o1, msg.b, 32, k1.b, xpk32.b, other, 9, ax1.b),
        r2 = nonce_function_bip340_impl(&hc, o2, msg.b, 32, k2.b, xpk32.b, other, 9, ax2.b));
    if (r1 == 1) REACH("nonce_bip340 custom algo");
}

/* ================================================================ (3) ecdh: secret scalar, public point */
void h_api_ecdh(void) {
    INPUT(b32, k1); INPUT(b32, k2); INPUT(secp256k1_pubkey, pt); INPUT(_Bool, use_fn);
    unsigned char o1[32], o2[32]; int r1, r2;
    API_CTX()
    CT_CANARY()
    CT2("C06 api ecdh: branch trace independent of the secret scalar (valid, zero or overflowing)",
        r1 = secp256k1_ecdh(&ctx, o1, &pt, k1.b, use_fn ? api_user_ecdh_hash : NULL, NULL),
        r2 = secp256k1_ecdh(&ctx, o2, &pt, k2.b, use_fn ? api_user_ecdh_hash : NULL, NULL));
    if (r1 == 1 && r2 == 0 && g_illegal == 0 && !use_fn) REACH("ecdh: valid and invalid scalar, default hash");
    if (r1 == 1 && use_fn) REACH("ecdh: user hash function");
}

/* ================================================================ (4) musig_partial_sign
 * secret: the two nonce scalars in the secnonce, the keypair's secret half.  public: secnonce magic and public key,
 * keypair public half, keyagg cache, session.  declassified by the code: "nonce scalars all zero", secret-key validity. */
void h_api_musig_partial_sign(void) {
    INPUT(secp256k1_musig_secnonce, sn1); INPUT(b64, kk2); INPUT(secp256k1_keypair, kp1); INPUT(b32, sk2);
    INPUT(secp256k1_musig_keyagg_cache, cache); INPUT(secp256k1_musig_session, sess);
    secp256k1_musig_secnonce a, b; secp256k1_keypair ka, kb; secp256k1_musig_partial_sig p1, p2; int r1, r2;
    API_CTX()
    CT_CANARY()
    a = sn1; b = sn1; memcpy(&b.data[4], kk2.b, 64);
    ka = kp1; kb = kp1; memcpy(&kb.data[0], sk2.b, 32);
    __CPROVER_assume(secp256k1_is_zero_array(&a.data[4], 64) == secp256k1_is_zero_array(&b.data[4], 64));   /* declassified in secnonce_load */
    __CPROVER_assume(valid_seckey(&ka.data[0]) == valid_seckey(&kb.data[0]));                                /* declassified in keypair_seckey_load */
    CT2("C06 api musig_partial_sign: branch trace independent of the secret nonces and the secret key (declassified bits equal)",
        r1 = secp256k1_musig_partial_sign(&ctx, &p1, &a, &ka, &cache, &sess),
        r2 = secp256k1_musig_partial_sign(&ctx, &p2, &b, &kb, &cache, &sess));
    if (r1 == 1 && r2 == 1 && sn1.data[4] != kk2.b[0]) REACH("musig_partial_sign: success on different nonces");
    if (r1 == 0 && g_illegal >= 1) REACH("musig_partial_sign: rejected");
}

/* ================================================================ (4) musig_nonce_gen
 * secret: session_secrand32, seckey.  public: pubkey, message, cache, extra input, which optional arguments are present.
 * declassified by the code: "session_secrand32 is all zero"; the two public nonces (come out of ge_set_all_gej). */
void h_api_musig_nonce_gen(void) {
    INPUT(b32, rnd1); INPUT(b32, rnd2); INPUT(b32, sk1); INPUT(b32, sk2); INPUT(b32, msg); INPUT(b32, extra);
    INPUT(secp256k1_pubkey, pk); INPUT(secp256k1_musig_keyagg_cache, cache);
    secp256k1_musig_secnonce s1, s2; secp256k1_musig_pubnonce n1, n2; b32 x, y; int r1, r2;
    API_CTX()
    CT_CANARY()
    __CPROVER_assume(all_zero32(rnd1.b) == all_zero32(rnd2.b));     /* declassified in musig_nonce_gen */
    /* which optional arguments are present is public: the two extreme configurations, concretely */
#ifndef NONCE_GEN_MINIMAL
    x = rnd1; y = rnd2;
    CT2("C06 api musig_nonce_gen (all optional arguments): branch trace independent of session randomness and secret key (declassified bits equal)",
        r1 = secp256k1_musig_nonce_gen(&ctx, &s1, &n1, x.b, sk1.b, &pk, msg.b, &cache, extra.b),
        r2 = secp256k1_musig_nonce_gen(&ctx, &s2, &n2, y.b, sk2.b, &pk, msg.b, &cache, extra.b));
    if (r1 == 1 && r2 == 0 && g_illegal == 0) REACH("musig_nonce_gen: valid and invalid secret key");
#else
    x = rnd1; y = rnd2;
    CT2("C06 api musig_nonce_gen (no optional argument): branch trace independent of session randomness (declassified bits equal)",
        r1 = secp256k1_musig_nonce_gen(&ctx, &s1, &n1, x.b, NULL, &pk, NULL, NULL, NULL),
        r2 = secp256k1_musig_nonce_gen(&ctx, &s2, &n2, y.b, NULL, &pk, NULL, NULL, NULL));
    if (r1 == 1 && rnd1.b[0] != rnd2.b[0]) REACH("musig_nonce_gen: without optional arguments");
#endif
    (void)sk1; (void)sk2; (void)msg; (void)extra; (void)cache;
}

/* the constant-time batch conversion used by musig_nonce_gen (n = 2): secret Jacobian points */
void h_api_ge_set_all_gej(void) {
    INPUT(secp256k1_gej, ja0); INPUT(secp256k1_gej, ja1); INPUT(secp256k1_gej, jb0); INPUT(secp256k1_gej, jb1);
    secp256k1_gej ja[2], jb[2]; secp256k1_ge ra[2], rb[2];
    CT_CANARY()
    ja[0] = ja0; ja[1] = ja1; jb[0] = jb0; jb[1] = jb1;
    __CPROVER_assume(((ja0.infinity | ja1.infinity | jb0.infinity | jb1.infinity) & ~1) == 0);
    CT2("C06 ge_set_all_gej (n = 2): branch trace independent of the points", secp256k1_ge_set_all_gej(ra, ja, 2), secp256k1_ge_set_all_gej(rb, jb, 2));
    if (ja0.x.n[0] != jb0.x.n[0]) REACH("ge_set_all_gej on different points");
}

/* ================================================================ (5) adaptor decryption, musig adapt / extract_adaptor
 * secret: the decryption key / secret adaptor (and, for extract, the final signature's s).  public: adaptor signature,
 * pre-signature, nonce parity. */
typedef struct { unsigned char b[162]; } b162;
void h_api_adaptor(void) {
    INPUT(b32, d1); INPUT(b32, d2); INPUT(b162, asig); INPUT(b64, pre); INPUT(b64, f1); INPUT(b64, f2); INPUT(int, parity);
    secp256k1_ecdsa_signature g1, g2; unsigned char o1[64], o2[64], t1[32], t2[32]; int r1, r2;
    API_CTX()
    CT_CANARY()
    CT2("C06 api ecdsa_adaptor_decrypt: branch trace independent of the decryption key",
        r1 = secp256k1_ecdsa_adaptor_decrypt(&ctx, &g1, d1.b, asig.b), r2 = secp256k1_ecdsa_adaptor_decrypt(&ctx, &g2, d2.b, asig.b));
    if (r1 == 1 && r2 == 0) REACH("adaptor_decrypt: valid and invalid key");
    __CPROVER_assume(parity == 0 || parity == 1);
    CT2("C06 api musig_adapt: branch trace independent of the secret adaptor",
        r1 = secp256k1_musig_adapt(&ctx, o1, pre.b, d1.b, parity), r2 = secp256k1_musig_adapt(&ctx, o2, pre.b, d2.b, parity));
    if (r1 == 1 && r2 == 0) REACH("musig_adapt: valid and overflowing adaptor");
    memcpy(f1.b, pre.b, 32); memcpy(f2.b, pre.b, 32);
    CT2("C06 api musig_extract_adaptor: branch trace independent of the signature scalar",
        r1 = secp256k1_musig_extract_adaptor(&ctx, t1, f1.b, pre.b, parity), r2 = secp256k1_musig_extract_adaptor(&ctx, t2, f2.b, pre.b, parity));
    if (r1 == 1 && r2 == 0) REACH("musig_extract_adaptor: valid and overflowing s");
    __CPROVER_assert(g_illegal == 0 && g_error == 0, "C06 api adaptor: no callback");
}

/* ================================================================ (6) context_randomize
 * secret: the seed and the context's previous blinding state.  public: whether a seed is given. */
void h_api_randomize(void) {
    INPUT(secp256k1_context, c1); INPUT(secp256k1_context, c2); INPUT(b32, s1); INPUT(b32, s2); INPUT(_Bool, has_seed);
    int r1, r2;
    CT_CANARY()
    verif_ctx_init(&c1); c1.hash_ctx.fn_sha256_compression = secp256k1_sha256_transform; c1.ecmult_gen_ctx.built = 1;
    c2.illegal_callback = c1.illegal_callback; c2.error_callback = c1.error_callback; c2.declassify = 0;
    c2.hash_ctx = c1.hash_ctx; c2.ecmult_gen_ctx.built = 1;
    CT2("C06 api context_randomize: branch trace independent of the seed and of the previous blinding state",
        r1 = secp256k1_context_randomize(&c1, has_seed ? s1.b : NULL), r2 = secp256k1_context_randomize(&c2, has_seed ? s2.b : NULL));
    __CPROVER_assert(r1 == 1 && r2 == 1 && g_illegal == 0 && g_error == 0, "C06 api context_randomize: succeeds without callback");
    if (has_seed && s1.b[0] != s2.b[0]) REACH("context_randomize with different seeds");
    if (!has_seed) REACH("context_randomize reset");
}

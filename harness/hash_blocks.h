/* BLOCK-level SHA-256 wiring idiom (preferred over contracts/hash_log.h where it is affordable):
 * the real secp256k1_sha256_write/_finalize/_initialize* code runs, only the compression function is an
 * oracle - a harness stub installed in the hash context - that havocs the state and logs the 64-byte
 * blocks it is handed.  A harness then states: "the sequence of compressed blocks is exactly the FIPS
 * 180-4 padding of <byte stream>" for a watched (block, offset) chosen nondeterministically, i.e. for
 * every block and every message length.  Code that restructures its hashing (different write split,
 * hand-built final block) passes iff it feeds the same blocks - no false alarm on correct refactors.
 * Include after "src/secp256k1.c" and "post.h".  See harness/C02/challenge_blocks.c. */
#ifndef VERIF_HASH_BLOCKS_H
#define VERIF_HASH_BLOCKS_H
static uint64_t g_hb_total;            /* blocks compressed so far in the current epoch */
static int g_hb_calls;                 /* compression calls in the current epoch */
static int g_hb_epoch;                 /* bumped by HB_NEXT_EPOCH(); a harness may also key epochs on g_hb_calls */
static int g_hb_wepoch; static uint64_t g_hb_wblk; static unsigned g_hb_woff;   /* watch: never assigned by code */
static int g_hb_hit; static unsigned char g_hb_byte;
static uint32_t g_hb_first[8], g_hb_last[8];   /* state before the first / after the last compression of the watched epoch */
static void verif_compress(uint32_t *s, const unsigned char *blocks, size_t n_blocks) {
    int i;
    if (g_hb_epoch == g_hb_wepoch) {
        if (g_hb_wblk >= g_hb_total && g_hb_wblk - g_hb_total < n_blocks) { g_hb_hit++; g_hb_byte = blocks[(g_hb_wblk - g_hb_total) * 64 + g_hb_woff]; }
        if (g_hb_calls == 0) for (i = 0; i < 8; i++) g_hb_first[i] = s[i];
    }
    g_hb_total += n_blocks; g_hb_calls++;
    for (i = 0; i < 8; i++) { s[i] = nondet_u32(); if (g_hb_epoch == g_hb_wepoch) g_hb_last[i] = s[i]; }
}
#define HB_RESET(wepoch, wblk, woff) do { g_hb_total = 0; g_hb_calls = 0; g_hb_epoch = 0; g_hb_hit = 0; \
    g_hb_wepoch = (wepoch); g_hb_wblk = (wblk); g_hb_woff = (woff); } while (0)
/* number of 64-byte blocks of the padded message of `len` bytes */
#define HB_NBLOCKS(len) (((uint64_t)(len) + 1 + 8 + 63) / 64)
/* byte at position pos >= len of the FIPS 180-4 padding of a message of len bytes whose bit length field
 * must encode (prefix_bytes + len) * 8 (prefix = bytes already absorbed into a midstate) */
static unsigned char hb_pad_byte(uint64_t pos, uint64_t len, uint64_t prefix_bytes) {
    uint64_t nb = HB_NBLOCKS(len), bits = (prefix_bytes + len) * 8;
    if (pos == len) return 0x80;
    if (pos < nb * 64 - 8) return 0;
    return (unsigned char)(bits >> (8 * (nb * 64 - 1 - pos)));
}
#endif

/* C10 (shared with C07/C09): the byte readers of the scalar/field layer satisfy the leaf contracts that
 * the verify_impl units use in place of their bodies (contracts/assumed_rangeproof.h, "PROVED leaf contracts").
 * DFCC enforcement: frame (assigns) and functional postconditions checked against the real bodies, for
 * every 32-byte string, with and without an overflow pointer. */
#define RP_LEAF_ENFORCE
#include "assumed_rangeproof.h"
#include "src/secp256k1.c"
#include "post.h"
void h_leaf_scalar_set_b32(void) {
    INPUT_ARR(unsigned char, b, 32); INPUT(_Bool, use_ovf);
    secp256k1_scalar r; int ovf = 7;
    secp256k1_scalar_set_b32(&r, b, use_ovf ? &ovf : NULL);
    if (use_ovf && ovf == 1) REACH("leaf scalar_set_b32: overflowing input");
    if (use_ovf && ovf == 0) REACH("leaf scalar_set_b32: in-range input");
    if (!use_ovf) REACH("leaf scalar_set_b32: call without overflow pointer");
}
void h_leaf_fe_set_b32_limit(void) {
    INPUT_ARR(unsigned char, fb, 32);
    secp256k1_fe r; int ret;
    ret = secp256k1_fe_impl_set_b32_limit(&r, fb);
    if (ret == 0) REACH("leaf fe_set_b32_limit: x >= p");
    if (ret == 1) REACH("leaf fe_set_b32_limit: x < p");
}

/* C10: secp256k1_rangeproof_verify_impl with rewinding disabled, for EVERY header (mantissa 0..64, up to 32 rings and 128 ring
 * members), every proof byte string, commitment, generator and extra-commit string.  Same statements as h_verify_gates in
 * verify_impl.c, but the digit loop and the ring-scalar loop of verify_impl are closed by LOOP CONTRACTS supplied from the unit
 * table (engine/units/C10_more.py, no /repo edit) instead of being unwound; the two cheap loops (ring sizes, sign bits) are
 * unwound to their code-enforced bound.  The stub logs are int flags (assumed_rangeproof.h, RP_STUB_WINDOW): invariants say
 * "watched digit / scalar index < i  ==>  its range check, lift verdict and accumulation were seen and positive". */
#define RP_STUB_WINDOW
#define RP_CONTRACTS_NO_SUM
#define RP_STUB_ISSQUARE
#define RP_STUB_PED_SMALL
#define RP_STUB_BORRO_VERIFY
#define RP_STUB_SHA
#define RP_PUB_EXPAND
/* the rewind branch of verify_impl is dead here (nonce == NULL) but goto-instrument inlines the whole call tree of a function
 * whose loops carry contracts: keep that tree small */
#define RP_STUB_PED
#define RP_STUB_SCALAR_ALG
#define RP_STUB_CLEAR
#define RP_STUB_MEMSET
#define RP_STUB_MEMCPY
#define RP_GENRAND
#define RP_CH32XOR
#include "assumed_rangeproof.h"
#include "src/secp256k1.c"
#include "post.h"

struct rp_layout { int ok, exp, mantissa; uint64_t minv, maxv, scale; size_t hdr, rings, npub, signb, digit_off, e0_off, s_off, total; };
static struct rp_layout rp_spec(const unsigned char *proof, size_t plen) {
    struct rp_layout L;
    L.hdr = 0; L.rings = 1; L.npub = 1; L.signb = 0; L.digit_off = 0; L.e0_off = 0; L.s_off = 0; L.total = 0;
    L.ok = secp256k1_rangeproof_getheader_impl(&L.hdr, &L.exp, &L.mantissa, &L.scale, &L.minv, &L.maxv, proof, plen);
    if (L.ok) {
        if (L.mantissa != 0) { L.rings = ((size_t)L.mantissa + 1) / 2; L.npub = 2 * (size_t)L.mantissa; }
        L.signb = (L.rings - 1 + 7) / 8;
        L.digit_off = L.hdr + L.signb;
        L.e0_off = L.digit_off + 32 * (L.rings - 1);
        L.s_off = L.e0_off + 32;
        L.total = L.s_off + 32 * L.npub;
    }
    return L;
}
static size_t rp_rsize(const struct rp_layout *L, size_t k) { return L->mantissa == 0 ? 1 : ((k == L->rings - 1 && (L->mantissa & 1)) ? 2 : 4); }
#define MAXP 6000
#define MAXE 100000

void h_verify_loops(void) {
    INPUT(size_t, plen); INPUT(size_t, eclen); INPUT(_Bool, use_extra); INPUT(secp256k1_ge, commit); INPUT(secp256k1_ge, genp);
    INPUT(size_t, gk); INPUT(size_t, gb);
    unsigned char *proof, *extra; uint64_t minv, maxv; secp256k1_hash_ctx hc; int ret; struct rp_layout L;
    int spare_ok = 1; wide xbytes = 0, sbytes = 0;
    __CPROVER_assume(plen <= MAXP && eclen <= MAXE && gk < 128 && gb < 32);
    __CPROVER_assume(ge_ok(&commit) && !commit.infinity && ge_ok(&genp) && !genp.infinity);
    INPUT_BUF(pf, proof, plen, 2);
    INPUT_BUF(ex, extra, eclen, 8);
    hc.fn_sha256_compression = secp256k1_sha256_transform;
    RPL_RESET(); rpl_commit = commit; g_pd_n = 0; g_pd_hit = 0; g_pd_watch = -1; g_gr_n = 0;
    g_sq_n = 0; g_sq_hit = 0; g_sq_watch = -1; g_ps_n = 0; g_pe_n = 0; g_bv_n = 0; g_bv_v = 0; g_bv_and = 1; g_rp_k = gk; g_rp_b = gb;
    HASHLOG_RESET(); g_we = -1; g_wpos = 0;
    L = rp_spec(proof, plen);
    if (L.ok && L.total <= plen && gk < L.rings - 1) { rpl_watch_fe(proof + L.digit_off + 32 * gk); xbytes = be256(rpl_fl_wp); }
    if (L.ok && L.total <= plen && gk < L.npub) { rpl_watch_scalar(proof + L.s_off + 32 * gk); sbytes = be256(rpl_sb_wp); }
    ret = secp256k1_rangeproof_verify_impl(&hc, NULL, NULL, NULL, NULL, NULL, NULL, &minv, &maxv, &commit, proof, plen, use_extra ? extra : NULL, use_extra ? eclen : 0, &genp);
    WITNESS_BUF(pf, proof, plen, 2);
    __CPROVER_assert(ret == 0 || ret == 1, "C10 verify (all headers): returns 0 or 1");
    if (ret == 1) {
        __CPROVER_assert(g_bv_n >= 1 && g_bv_and == 1, "C10 verify (all headers): accepts only on a positive Borromean verdict");
        __CPROVER_assert(L.ok && minv == L.minv && maxv == L.maxv, "C10 verify (all headers): header accepted by getheader and reported min/max are the header's");
        __CPROVER_assert(plen == L.total, "C10 verify (all headers): accepted proof has exactly the specified length (no trailing bytes)");
        if ((L.rings - 1) & 7) __CPROVER_assert((proof[L.digit_off - 1] >> ((L.rings - 1) & 7)) == 0, "C10 verify (all headers): spare sign bits are zero");
        __CPROVER_assert(rpl_xq_all == 1 && rpl_fl_all == 1, "C10 verify (all headers): every range check and every lift consulted was positive");
        if (gk < L.rings - 1) {
            __CPROVER_assert(rpl_fl_hit && rpl_fl_wv == 1 && xbytes < P_(), "C10 verify (all headers): every digit commitment x < p");
            __CPROVER_assert(rpl_xq_hit && rpl_xq_v == 1 && fval(&rpl_fl_wr) == xbytes, "C10 verify (all headers): lift verdict consulted for exactly this digit's x and positive");
            __CPROVER_assert(rpl_ag_hit && (((proof[L.hdr + (gk >> 3)] >> (gk & 7)) & 1) ? rpl_ag_negd : rpl_ag_same), "C10 verify (all headers): digit k accumulated, negated iff sign bit k is set");
        }
        __CPROVER_assert(rpl_sb_any == 0, "C10 verify (all headers): no scalar read overflowed");
        if (gk < L.npub) {
            __CPROVER_assert(rpl_sb_hit && rpl_sb_wovf == 0 && sbytes < N_(), "C10 verify (all headers): every ring scalar < n");
            __CPROVER_assert(sval(&g_bv_s_k) == sbytes, "C10 verify (all headers): ring scalar k handed to the ring equation is proof scalar k");
        }
        __CPROVER_assert(g_pe_n >= 1 && g_pe_exp == L.exp && g_pe_rings == L.rings && GE_EQ(g_pe_genp_v, &genp), "C10 verify (all headers): pub_expand gets the header exponent, the ring count and the generator");
        if (gk < L.rings) __CPROVER_assert(g_pe_rs_k == rp_rsize(&L, gk) && g_bv_rs_k == rp_rsize(&L, gk), "C10 verify (all headers): ring sizes are 4,...,4[,2] (1 for an exact value) for expansion and ring equation");
        __CPROVER_assert(g_bv_nrings == L.rings && g_bv_mlen == 32, "C10 verify (all headers): ring equation gets the ring count and a 32-byte message");
        __CPROVER_assert(g_bv_e0_b == proof[L.e0_off + gb], "C10 verify (all headers): e0 is the 32 bytes after the digit commitments");
        __CPROVER_assert(g_bv_pubs == g_pe_pubs && g_bv_rsizes == g_pe_rsizes, "C10 verify (all headers): ring equation and expansion work on the same key array and ring sizes");
        if (L.minv != 0) __CPROVER_assert(g_ps_n >= 1 && g_ps_gn0 == L.minv && GE_EQ(g_ps_genp0_v, &genp), "C10 verify (all headers): min_value*H computed from the header minimum and the generator");
        __CPROVER_assert(rpl_ag_last_inf == 0 && rpl_ag_last_is_commit, "C10 verify (all headers): the last accumulation adds the commitment; derived last digit not at infinity");
    }
    if (L.ok && plen == L.total) {
        if ((L.rings - 1) & 7) spare_ok = (proof[L.digit_off - 1] >> ((L.rings - 1) & 7)) == 0;
        if (spare_ok && rpl_fl_all && rpl_xq_all && !rpl_ag_last_inf && !rpl_sb_any) {
            __CPROVER_assert(g_bv_n >= 1, "C10 verify (all headers): a proof passing every format gate reaches the ring equation (no other reason to reject)");
            if (g_bv_and) __CPROVER_assert(ret == 1, "C10 verify (all headers): a proof passing every gate with a positive ring verdict is accepted");
        }
    }
    if (ret == 1 && L.mantissa == 64 && gk == 100) REACH("verify accepts a 64-bit mantissa (watching scalar 100)");
    if (ret == 1 && L.mantissa == 62 && L.minv != 0 && gk == 29) REACH("verify accepts a 62-bit mantissa with min (watching digit 29)");
    if (ret == 1 && L.mantissa == 63 && gk == 30) REACH("verify accepts an odd mantissa (watching digit 30)");
    if (ret == 1 && L.mantissa == 0) REACH("verify accepts an exact-value proof");
    if (ret == 0 && L.ok && plen == L.total && g_bv_n == 0) REACH("verify rejects a well-sized proof before the ring equation");
}

/* C10: secp256k1_rangeproof_getheader_impl equals an independent 128-bit specification of the
 * range-proof header for every byte string of every length <= 6000. */
#include "assumed.h"
#include "src/secp256k1.c"
#include "post.h"
typedef unsigned __int128 u128;
#define MAXP 6000
void h_getheader(void) {
    INPUT(size_t, plen);
    size_t offset = 0, off_spec = 0; unsigned char *proof;
    int exp, mantissa, ret; uint64_t scale, minv, maxv;
    int s_ok = 1, s_exp = -1, s_man = 0, i; u128 s_max = 0, s_scale = 1; uint64_t s_min = 0; unsigned char h;
    __CPROVER_assume(plen <= MAXP);
    INPUT_BUF(hdr, proof, plen, 16);   /* only the first <= 10 bytes can influence the header */
    ret = secp256k1_rangeproof_getheader_impl(&offset, &exp, &mantissa, &scale, &minv, &maxv, proof, plen);
    WITNESS_BUF(hdr, proof, plen, 16);
    /* specification, written from include/secp256k1_rangeproof.h and the proof format description */
    if (plen < 65) s_ok = 0;
    else {
        h = proof[0]; off_spec = 1;
        if (h & 128) s_ok = 0;                         /* reserved bit */
        else {
            if (h & 64) {                              /* has a nonzero range */
                s_exp = h & 31; s_man = proof[1] + 1; off_spec = 2;
                if (s_exp > 18 || s_man > 64) s_ok = 0;
                else {
                    s_max = (s_man == 64) ? (u128)UINT64_MAX : (((u128)1 << s_man) - 1);
                    for (i = 0; i < 18; i++) if (i < s_exp) { s_max *= 10; s_scale *= 10; }
                    if (s_max > UINT64_MAX) s_ok = 0;  /* (2^mantissa - 1) * 10^exp must fit 64 bits */
                }
            }
            if (s_ok && (h & 32)) {                    /* has a minimum value */
                if (plen - off_spec < 8) s_ok = 0;
                else { for (i = 0; i < 8; i++) s_min = (s_min << 8) | proof[off_spec + i]; off_spec += 8; }
            }
            if (s_ok && s_max + s_min > UINT64_MAX) s_ok = 0;  /* max value must not wrap 2^64 */
        }
    }
    __CPROVER_assert(ret == s_ok, "C10 getheader: accept set equals the header specification");
    if (ret) {
        __CPROVER_assert(exp == s_exp && mantissa == s_man && offset == off_spec, "C10 getheader: exponent, mantissa, offset equal the specification");
        __CPROVER_assert(minv == s_min && maxv == (uint64_t)(s_max + s_min) && scale == (uint64_t)s_scale, "C10 getheader: min, max, scale equal the specification");
        __CPROVER_assert(maxv >= minv && exp <= 18 && mantissa <= 64 && offset <= plen, "C10 getheader: reported range is sane and offset inside the proof");
    }
    if (ret && (h & 64) && (h & 32)) REACH("getheader accepts header with range and min");
    if (!ret && plen >= 65) REACH("getheader rejects a long-enough proof");
    if (ret && s_exp == 18) REACH("getheader accepts exponent 18");
}

/* C10 / C11 / C16 (and C07 safety): secp256k1_borromean_verify for EVERY ring layout - 1..32 rings, every ring size
 * vector (each ring 0..2^20 members, so also the 255/256-member single ring of the whitelist / surjection callers and the
 * 32 x 4 layout of the range-proof verifier), every flat member index, every e0, message length, scalars and keys.
 * The two nested loops of the function are closed by LOOP CONTRACTS supplied from the unit table
 * (engine/units/C10_r3_borromean.py; no /repo edit); nothing is unwound in the function under contract.
 *
 * Arrays are EXACT-SIZE heap objects (rsizes: nrings entries; s, pubs, evalues: total = sum of ring sizes entries; e0: 32 bytes;
 * m: mlen bytes), so every index the function forms is a bounds/pointer obligation.
 *
 * Oracles (assumed_r3_borromean.h, call-site stubs): secp256k1_ecmult, secp256k1_ge_set_gej_var, sha256_write/_finalize.
 * Nothing depends on the order or number of oracle calls: hashes are identified by content / total length, the curve
 * evaluation by operand values.
 *
 * Ghost tables (harness only, never assigned by code or stubs): r3_start[i] = sum of the first i ring sizes,
 * r3_ne[i] = number of non-empty rings among the first i. */
#include "assumed_r3_borromean.h"
#include "src/secp256k1.c"
#include "post.h"
#ifndef R3_MAXR
#define R3_MAXR 32
#endif
#define R3_MAXRS 0x100000ul
#define R3_MAXM 0x40000000ul

size_t r3_start[R3_MAXR + 1], r3_ne[R3_MAXR + 1];
int r3_kovf, r3_kbad;     /* what the real secp256k1_scalar_set_b32 makes of r3_kdig: overflow flag; overflow or zero */

void h_r3_borromean_gates(void) {
    INPUT(size_t, nrings); INPUT_ARR(size_t, rs, 32); INPUT_ARR(unsigned char, e0v, 32); INPUT(size_t, mlen);
    INPUT(_Bool, use_ev); INPUT(size_t, gk); INPUT_ARR(unsigned char, kdig, 32);
    size_t *rsizes; unsigned char *e0, *m; secp256k1_scalar *s, *ev = NULL; secp256k1_gej *pubs; secp256k1_hash_ctx hc;
    size_t total = 0, ne = 0, i, ki = 0, kj = 0; int ret, eq; secp256k1_scalar sk; secp256k1_gej pk;
    __CPROVER_assume(nrings >= 1 && nrings <= R3_MAXR && mlen <= R3_MAXM);
    /* the loop-contract file format has no conditional assigns target and __CPROVER_object_whole(NULL) is not a valid target:
     * one unit per shape of the optional output (evalues == NULL: all verifiers without rewinding; R3_EV: evalues given) */
#ifdef R3_EV
    __CPROVER_assume(use_ev);
#else
    __CPROVER_assume(!use_ev);
#endif
    rsizes = malloc(nrings * sizeof(size_t)); __CPROVER_assume(rsizes != NULL);
#ifdef R3_PREFIX_INPUT
    /* the ring-size vector is parametrised by its PREFIX SUMS (a bijection between size vectors with total <= R3_MAXRS and
     * non-decreasing tables starting at 0): the nondeterministic input rs[] is read as rs[i] = sum of the first i+1 sizes.
     * "prefix <= total" is then a chain of comparisons instead of a chain of 64-bit adders (the latter did not terminate). */
    for (i = 0; i < R3_MAXR; i++) {
        r3_start[i] = total; r3_ne[i] = ne;
        if (i < nrings) { __CPROVER_assume(rs[i] >= total && rs[i] <= R3_MAXRS); rsizes[i] = rs[i] - total; if (rs[i] != total) ne++; total = rs[i]; }
    }
    r3_start[R3_MAXR] = total; r3_ne[R3_MAXR] = ne;
#else
    for (i = 0; i < R3_MAXR; i++) {
        r3_start[i] = total; r3_ne[i] = ne;
        if (i < nrings) { __CPROVER_assume(rs[i] <= R3_MAXRS); rsizes[i] = rs[i]; total += rs[i]; if (rs[i] != 0) ne++; }
    }
    r3_start[R3_MAXR] = total; r3_ne[R3_MAXR] = ne;
#endif
    s = malloc(total * sizeof(secp256k1_scalar)); pubs = malloc(total * sizeof(secp256k1_gej)); m = malloc(mlen); e0 = malloc(32);
    __CPROVER_assume(s != NULL && pubs != NULL && m != NULL && e0 != NULL);
    if (use_ev) { ev = malloc(total * sizeof(secp256k1_scalar)); __CPROVER_assume(ev != NULL); }
    for (i = 0; i < 32; i++) { e0[i] = e0v[i]; r3_kdig[i] = kdig[i]; }
    /* the watched member: flat index gk = r3_start[ki] + kj */
    r3_gk = gk; r3_ki = 0; r3_kj = 0; r3_kovf = 0; r3_kbad = 0;
    r3_real_scalar_set_b32(&r3_key_e, r3_kdig, &r3_kovf);
    r3_kbad = r3_kovf || secp256k1_scalar_is_zero(&r3_key_e);
    if (gk < total) {
        for (i = 0; i < R3_MAXR; i++) if (i < nrings && gk >= r3_start[i] && gk - r3_start[i] < rsizes[i]) { ki = i; kj = gk - r3_start[i]; }
        r3_ki = (uint32_t)ki; r3_kj = (uint32_t)kj;
        sk = s[gk]; pk = pubs[gk];
        r3_key_s = sk; r3_key_a = pk;
    } else {
        r3_ki = 0xfffffffful; r3_kj = 0xfffffffful;     /* no member watched: no hash has this key (ring index <= 31) */
    }
    r3_clen = 33 * (uint64_t)ne + mlen;
    hc.fn_sha256_compression = secp256k1_sha256_transform;
    R3_RESET();

    ret = secp256k1_borromean_verify(&hc, ev, e0, s, pubs, rsizes, nrings, m, mlen);

    __CPROVER_assert(ret == 0 || ret == 1, "C10 r3 borromean: returns 0 or 1");
    if (gk < total) {
        int s_zero = (sk.d[0] | sk.d[1] | sk.d[2] | sk.d[3]) == 0, p_inf = pk.infinity != 0;
        __CPROVER_assert(ret == 0 || (!s_zero && !p_inf), "C10 r3 borromean: accepts only if the scalar at EVERY flat index is non-zero and the key at EVERY flat index is not at infinity");
#ifdef R3_CHALLENGE
        if (ret == 1) {
            __CPROVER_assert(r3_kfin == 1 && r3_kdup == 0, "C10 r3 borromean: the challenge hash of every member (content ending in be32(ring) || be32(position)) is computed exactly once");
#ifndef VERIF_NATIVE
            __CPROVER_assert(r3_kbad == (be256(r3_kdig) == 0 || be256(r3_kdig) >= N_()), "C10 r3 borromean: (harness) ghost flag equals the specification of a bad challenge");
            __CPROVER_assert(be256(r3_kdig) != 0 && be256(r3_kdig) < N_(), "C10 r3 borromean: accepts only if the challenge of every member, as a scalar, did not overflow and is non-zero");
#endif
            __CPROVER_assert(r3_em_hit == 1 && r3_em_rinf == 0, "C10 r3 borromean: every member is evaluated as s*G + e*P on its own key, scalar and challenge, result not at infinity");
            if (use_ev) { secp256k1_scalar evk = ev[gk]; __CPROVER_assert(SC_EQ(evk, r3_key_e), "C10 r3 borromean: saved challenge k is the challenge of member k"); }
        }
#endif
    }
    eq = 1; for (i = 0; i < 32; i++) if (e0v[i] != r3_cdig[i]) eq = 0;
    __CPROVER_assert(ret == 0 || (r3_cfin == 1 && eq), "C10 r3 borromean: accepts only if all 32 bytes of e0 equal the closing hash (33 bytes per ring, then the message)");
    if (r3_cfin >= 1) __CPROVER_assert(r3_cfin == 1 && ret == eq, "C10 r3 borromean: once the closing hash is computed the verdict is the comparison of all 32 bytes");
    for (i = 0; i < 32; i++) if (e0[i] != e0v[i]) eq = 2;
    __CPROVER_assert(eq != 2, "C10 r3 borromean: e0 is not written");

    REACH("r3 borromean end");
    if (ret == 1 && nrings == R3_MAXR && total == 4 * R3_MAXR && gk == total - 1) REACH("r3 borromean accepts 32 rings / 128 members, last member watched");
    if (ret == 1 && nrings == 1 && total == 256 && gk == 255) REACH("r3 borromean accepts one ring of 256, last member watched");
    if (ret == 1 && total == 1) REACH("r3 borromean accepts a single-member ring");
    if (ret == 1 && nrings == 3 && rsizes[1] == 0 && gk == total - 1) REACH("r3 borromean accepts a layout with an empty ring");
    if (ret == 0 && r3_cfin == 1) REACH("r3 borromean rejects on the final comparison");
    if (ret == 0 && r3_cfin == 0) REACH("r3 borromean rejects early");
}

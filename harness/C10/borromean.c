/* C10 (and C07 safety): secp256k1_borromean_verify - gating, challenge wiring, field order of
 * secp256k1_borromean_hash and the final 32-byte comparison, for every ring layout of 1..MAXRINGS rings of
 * 1..4 members, every e0, message, scalars and keys.
 * Oracles (assumed, call-site stubs): secp256k1_ecmult, secp256k1_ge_set_gej_var; sha256_write/_finalize stream stubs.
 * Nothing here depends on the ORDER or NUMBER of oracle calls: the evaluation of ring member k is the ecmult call
 * whose operands have the VALUES (pubs[k], s[k]); the challenge hash of member (ring i, position j) is the hash whose
 * content ends with be32(i) || be32(j); the closing hash is the one of length 33*nrings + |m|; the compressed point
 * a challenge hash starts with is found through the value chain ecmult result -> ge_set_gej_var input.
 * Members with identical (key, scalar) VALUES are indistinguishable by value: the wiring statements are made for members
 * whose values differ from all earlier members (the gate statements are made for all). */
#define RP_STUB_ECMULT
#define RP_STUB_SET_GEJ
#define RP_STUB_SHA_KEYED
#include "assumed_rangeproof.h"
#include "src/secp256k1.c"
#include "post.h"
#ifndef MAXRINGS
#define MAXRINGS 32
#endif
#define MAXPUB (4 * MAXRINGS)

void h_borromean_verify(void) {
    INPUT(size_t, nrings); INPUT_ARR(size_t, rsizes, 32); INPUT_ARR(unsigned char, e0, 32); INPUT_ARR(unsigned char, m, 32);
    INPUT(_Bool, use_ev); INPUT(uint64_t, wpos); INPUT(size_t, k); INPUT(_Bool, prev);
    secp256k1_scalar s[MAXPUB], ev[MAXPUB]; secp256k1_gej pubs[MAXPUB]; secp256k1_hash_ctx hc; size_t total = 0, i, start[33]; int ret;
    int uniq = 1;                 /* no earlier member has the same (key, scalar) VALUES as the watched one: then the value identifies the call */
    size_t ki = 0, kj = 0, w;     /* ring and position of member k; w = the member whose curve evaluation is watched (k, or k-1 when prev) */
    /* fixed arrays of the largest layout (symbolic-size arrays of 128-byte structs are not tractable); exact-capacity
     * indexing is the obligation of the CALLERS (preconditions of the borromean_verify stub in the C07/C10 units) */
    __CPROVER_assume(nrings >= 1 && nrings <= MAXRINGS);
    for (i = 0; i < MAXRINGS; i++) { start[i] = total; if (i < nrings) { __CPROVER_assume(rsizes[i] >= 1 && rsizes[i] <= 4); total += rsizes[i]; } }
    __CPROVER_assume(k < total);
    for (i = 0; i < MAXRINGS; i++) if (i < nrings && k >= start[i] && k < start[i] + rsizes[i]) { ki = i; kj = k - start[i]; }
    for (i = 0; i < MAXPUB; i++) if (i < total) __CPROVER_assume(rp_scalar_ok(&s[i]) && rp_gej_ok(&pubs[i]));   /* representation invariants of the inputs */
    __CPROVER_assume(!prev || kj > 0);
    w = prev ? k - 1 : k;
    for (i = 0; i < MAXPUB; i++) if (i < w && SC_EQ(s[i], s[w]) && GEJ_VEQ(pubs[i], pubs[w])) uniq = 0;
    hc.fn_sha256_compression = secp256k1_sha256_transform;
    KH_RESET(); g_kh_ki = (uint32_t)ki; g_kh_kj = (uint32_t)kj; g_kh_clen = 33 * (uint64_t)nrings + 32; g_wpos = wpos;
    g_em_n = 0; g_em_hit = 0; g_em_watch = -1; g_em_by_value = 1; g_em_key_a = pubs[w]; g_em_key_ng = s[w];
    g_sg_n = 0; g_sg_hit = 0; g_sg_watch = -1; g_sg_by_value = 0; g_em_hit_idx = -1;
    ret = secp256k1_borromean_verify(&hc, use_ev ? ev : NULL, e0, s, pubs, rsizes, nrings, m, 32);
    __CPROVER_assert(ret == 0 || ret == 1, "C10 borromean: returns 0 or 1");
    if (ret == 1) {
        __CPROVER_assert(!secp256k1_scalar_is_zero(&s[k]) && !pubs[k].infinity, "C10 borromean: accepts only if every s != 0 and every key is not at infinity");
        __CPROVER_assert(g_em_hit && g_em_rinf == 0 && g_em.has_na, "C10 borromean: every member is evaluated as s*G + e*P on its own key and scalar, result not at infinity");
        __CPROVER_assert(g_kh.fin, "C10 borromean: the challenge hash of every member (content ending in its ring and position) is computed");
        if (!prev && uniq) {
            __CPROVER_assert(be256(g_kh.dig) < N_() && be256(g_kh.dig) != 0 && sval(&g_em_na) == be256(g_kh.dig), "C10 borromean: the challenge of member (i,j) is the hash ending in (i,j), as a scalar, without overflow and nonzero");
            if (use_ev) __CPROVER_assert(SC_EQ(ev[k], g_em_na), "C10 borromean: saved challenge k is the challenge used");
        }
        __CPROVER_assert(g_kh.cfin && memcmp(e0, g_kh.cdig, 32) == 0, "C10 borromean: accepts only if all 32 bytes of e0 equal the closing hash (33 bytes per ring, then the message)");
    }
    if (g_kh.cfin) __CPROVER_assert(ret == (memcmp(e0, g_kh.cdig, 32) == 0), "C10 borromean: once the closing hash is computed the verdict is the comparison of all 32 bytes");
    /* field order of the challenge hash of member (ki,kj), on accepting paths */
    if (ret == 1 && g_kh.fin) {
        uint64_t elen = (kj == 0) ? 32 : 33;
        __CPROVER_assert(g_kh.s0 == 0x6a09e667ul, "C10 borromean: challenge hash is plain SHA-256 from the initial state");
        __CPROVER_assert(g_kh.end == elen + 32 + 8, "C10 borromean: challenge hash length = |e| + |m| + 4 + 4");
        if (g_wpos < elen + 32) {
            __CPROVER_assert(g_kh.hit, "C10 borromean: every position of the challenge hash is written");
            if (g_wpos >= elen) __CPROVER_assert(g_kh.byte == m[g_wpos - elen], "C10 borromean: the message follows e");
            else if (kj == 0) __CPROVER_assert(g_kh.byte == e0[g_wpos], "C10 borromean: first challenge of a ring hashes e0 first");
        }
    }
    REACH("borromean end");
    if (ret == 1 && nrings == MAXRINGS && total == MAXPUB) REACH("borromean accepts the largest layout");
    if (ret == 1 && total == 1) REACH("borromean accepts a single-member ring");
    if (ret == 0 && g_kh.cfin) REACH("borromean rejects on the final comparison");
    if (ret == 0 && !g_kh.cfin) REACH("borromean rejects early");
    if (ret == 1 && use_ev && prev) REACH("borromean accepts, previous member watched");
}

/* second entry: the e part of a later challenge hash is the compressed R of the previous member (value chain) */
void h_borromean_chain(void) {
    INPUT(size_t, nrings); INPUT_ARR(size_t, crsizes, 32); INPUT_ARR(unsigned char, ce0, 32); INPUT_ARR(unsigned char, cm, 32);
    size_t *rsizes = crsizes; unsigned char *e0 = ce0, *m = cm;
    INPUT(uint64_t, wpos); INPUT(size_t, k);
    secp256k1_scalar s[MAXPUB]; secp256k1_gej pubs[MAXPUB]; secp256k1_hash_ctx hc; size_t total = 0, i, start[33]; int ret, uniq = 1; size_t ki = 0, kj = 0;
    __CPROVER_assume(nrings >= 1 && nrings <= MAXRINGS);
    for (i = 0; i < MAXRINGS; i++) { start[i] = total; if (i < nrings) { __CPROVER_assume(rsizes[i] >= 1 && rsizes[i] <= 4); total += rsizes[i]; } }
    __CPROVER_assume(k < total);
    for (i = 0; i < MAXRINGS; i++) if (i < nrings && k >= start[i] && k < start[i] + rsizes[i]) { ki = i; kj = k - start[i]; }
    for (i = 0; i < MAXPUB; i++) if (i < total) __CPROVER_assume(rp_scalar_ok(&s[i]) && rp_gej_ok(&pubs[i]));
    __CPROVER_assume(kj > 0 && wpos < 33);
    for (i = 0; i < MAXPUB; i++) if (i + 1 < k && SC_EQ(s[i], s[k - 1]) && GEJ_VEQ(pubs[i], pubs[k - 1])) uniq = 0;
    hc.fn_sha256_compression = secp256k1_sha256_transform;
    KH_RESET(); g_kh_ki = (uint32_t)ki; g_kh_kj = (uint32_t)kj; g_kh_clen = 33 * (uint64_t)nrings + 32; g_wpos = wpos;
    /* the curve evaluation of member k-1 is found by operand values; the conversion to affine that belongs to it is the
     * ge_set_gej_var call with the same call number (and, checked below, the same input value) */
    g_em_n = 0; g_em_hit = 0; g_em_watch = -1; g_em_by_value = 1; g_em_key_a = pubs[k - 1]; g_em_key_ng = s[k - 1];
    g_sg_n = 0; g_sg_hit = 0; g_sg_watch = -1; g_sg_by_value = 2; g_em_hit_idx = -1;
    ret = secp256k1_borromean_verify(&hc, NULL, e0, s, pubs, rsizes, nrings, m, 32);
    if (ret == 1 && g_em_hit && uniq) {
        unsigned char ser[33]; secp256k1_ge t;
        __CPROVER_assert(g_sg_hit && GEJ_VEQ(g_sgw.in, g_em_r) && g_kh.fin && g_kh.hit, "C10 borromean chain: the previous member's R is made affine and the hash ending in (i,j) covers its first 33 bytes");
        t = g_sg_r;
        secp256k1_eckey_pubkey_serialize33(&t, ser);
        __CPROVER_assert(g_kh.byte == ser[g_wpos], "C10 borromean chain: a later challenge hashes the compressed previous R first");
        REACH("borromean chain: accepted with the previous R identified");
    }
    REACH("borromean chain end");
}

/* C10 (and C07 safety): secp256k1_borromean_verify - gating, indexing by ring sizes, challenge wiring,
 * field order of secp256k1_borromean_hash, and the final 32-byte comparison, for every ring layout the
 * range-proof verifier can produce (1..32 rings of 1..4 members), every e0, message, scalars and keys.
 * Oracles (assumed, call-site stubs with watch-style logs): secp256k1_ecmult, secp256k1_ge_set_gej_var.
 * sha256_write/_finalize: stream contracts of hash_log.h as stubs; the watch (epoch, position) is arbitrary, so every assertion about it
 * holds for every hash computation and every byte position.
 * Numbering: ring member k (global index, ring i, position j) uses the challenge produced by hash epoch k;
 * epoch k hashes  (j == 0 ? e0 : ser33(R_{k-1})) || m || be32(i) || be32(j);  the last epoch hashes
 * ser33(R_last(0)) || ... || ser33(R_last(nrings-1)) || m  and is compared with e0. */
#define RP_STUB_ECMULT
#define RP_STUB_SET_GEJ
#define RP_STUB_SHA
#include "assumed_rangeproof.h"
#include "src/secp256k1.c"
#include "post.h"
#ifndef MAXRINGS
#define MAXRINGS 32
#endif
#define MAXPUB (4 * MAXRINGS)
uint64_t nondet_bo_u64(void); int nondet_bo_int(void);

void h_borromean_verify(void) {
    INPUT(size_t, nrings); INPUT_ARR(size_t, rsizes, 32); INPUT_ARR(unsigned char, e0, 32); INPUT_ARR(unsigned char, m, 32);
    INPUT(_Bool, use_ev); INPUT(int, we); INPUT(uint64_t, wpos); INPUT(int, k); INPUT(int, c);
    secp256k1_scalar s[MAXPUB], ev[MAXPUB]; secp256k1_gej pubs[MAXPUB]; secp256k1_hash_ctx hc; size_t total = 0, i, start[33]; int ret;
    /* fixed arrays of the largest layout (symbolic-size arrays of 128-byte structs are not tractable); indices beyond
     * `total` are still inside the arrays, so exact-capacity indexing is the obligation of the CALLERS (C07/C10 units:
     * preconditions of the borromean_verify stub) */
    size_t ki = 0, kj = 0, ci = 0, cj = 0;   /* ring and position of members k and c */
    __CPROVER_assume(nrings >= 1 && nrings <= MAXRINGS);
    for (i = 0; i < MAXRINGS; i++) { start[i] = total; if (i < nrings) { __CPROVER_assume(rsizes[i] >= 1 && rsizes[i] <= 4); total += rsizes[i]; } }
    for (i = 0; i < MAXRINGS; i++) if (i < nrings) {
        if ((size_t)k >= start[i] && (size_t)k < start[i] + rsizes[i]) { ki = i; kj = (size_t)k - start[i]; }
        if ((size_t)c >= start[i] && (size_t)c < start[i] + rsizes[i]) { ci = i; cj = (size_t)c - start[i]; }
    }
    for (i = 0; i < MAXPUB; i++) if (i < total) {        /* representation invariants of the inputs */
        __CPROVER_assume(rp_scalar_ok(&s[i]) && rp_gej_ok(&pubs[i]));
    }
    __CPROVER_assume(k >= 0 && c >= 0 && we >= 0);
    hc.fn_sha256_compression = secp256k1_sha256_transform;
    HASHLOG_RESET(); g_we = we; g_wpos = wpos; g_em_n = 0; g_em_hit = 0; g_em_watch = k; g_sg_n = 0; g_sg_hit = 0; g_sg_watch = c;
    ret = secp256k1_borromean_verify(&hc, use_ev ? ev : NULL, e0, s, pubs, rsizes, nrings, m, 32);
    __CPROVER_assert(ret == 0 || ret == 1, "C10 borromean: returns 0 or 1");
    __CPROVER_assert(g_em_n <= (int)total && g_sg_n <= g_em_n && g_fin_n <= (int)total + 1, "C10 borromean: at most one curve evaluation per ring member, one hash per member plus the final one");
    if (ret == 1) {
        __CPROVER_assert(g_em_n == (int)total && g_sg_n == (int)total && g_fin_n == (int)total + 1, "C10 borromean: acceptance implies every ring member was evaluated exactly once");
        if ((size_t)k < total) {
            __CPROVER_assert(!secp256k1_scalar_is_zero(&s[k]) && !pubs[k].infinity, "C10 borromean: accepts only if every s != 0 and every key is not at infinity");
            __CPROVER_assert(g_em_hit && g_em_ap == &pubs[k] && g_em_ngp == &s[k] && g_em_rinf == 0, "C10 borromean: member k evaluated as s[k]*G + e*pubs[k] (indexing by running count), result not at infinity");
            if (we == k) {
                __CPROVER_assert(g_w_fin && be256(g_w_dig) < N_() && be256(g_w_dig) != 0 && sval(&g_em_na) == be256(g_w_dig), "C10 borromean: challenge of member k is hash k, as a scalar, without overflow and nonzero");
                if (use_ev) __CPROVER_assert(SC_EQ(ev[k], g_em_na), "C10 borromean: saved challenge k is the challenge used");
            }
        }
    }
    /* field order of every challenge hash (epoch we < total), whatever the verdict */
    if ((size_t)we < total && we == k && g_w_fin) {
        uint64_t elen = (kj == 0) ? 32 : 33;
        /* (the first challenge of a later ring shares its epoch with the closing-hash write of the previous ring, which comes
         *  first; the epoch-start record of hash_log.h then describes that write, so the initial state is checked elsewhere) */
        if (ki == 0 || kj > 0) __CPROVER_assert(g_w_started && g_w_b0 == 0 && g_w_s0 == 0x6a09e667ul && g_w_s7 == 0x5be0cd19ul, "C10 borromean: challenge hash is plain SHA-256 from the initial state");
        __CPROVER_assert(g_w_end == elen + 32 + 8, "C10 borromean: challenge hash length = |e| + |m| + 4 + 4");
        if (g_wpos < g_w_end) {
            __CPROVER_assert(g_w_hit, "C10 borromean: every position of the challenge hash is written");
            if (g_wpos < elen) {
                if (kj == 0) __CPROVER_assert(g_w_byte == e0[g_wpos], "C10 borromean: first challenge of a ring hashes e0 first");
                else if (c == k - 1 && g_sg_hit) {
                    unsigned char ser[33]; secp256k1_ge t = g_sg_r;
                    secp256k1_eckey_pubkey_serialize33(&t, ser);
                    __CPROVER_assert(g_w_byte == ser[g_wpos], "C10 borromean: later challenges hash the compressed previous R first");
                }
            } else if (g_wpos < elen + 32) __CPROVER_assert(g_w_byte == m[g_wpos - elen], "C10 borromean: then the message");
            else if (g_wpos < elen + 36) __CPROVER_assert(g_w_byte == (unsigned char)((uint32_t)ki >> (8 * (3 - (g_wpos - elen - 32)))), "C10 borromean: then the ring index, big endian");
            else __CPROVER_assert(g_w_byte == (unsigned char)((uint32_t)kj >> (8 * (3 - (g_wpos - elen - 36)))), "C10 borromean: then the position in the ring, big endian");
        }
    }
    /* the closing hash and the comparison with e0.  Its per-ring writes (compressed last R of each ring) are interleaved with the
     * challenge hashes, i.e. spread over earlier epochs of the stream log; what the log of the LAST epoch shows is that 33 bytes per
     * earlier ring had been absorbed, that the compressed last R of the last ring and then the message follow, and the digest compared. */
    if ((size_t)we == total && g_w_fin) {
        __CPROVER_assert(g_em_n == (int)total, "C10 borromean: closing hash only after all members");
        __CPROVER_assert(g_w_started && g_w_b0 == 33 * (uint64_t)(nrings - 1) && g_w_end == 33 * (uint64_t)nrings + 32, "C10 borromean: closing hash = 33 bytes per ring, then |m| bytes");
        if (g_wpos >= 33 * (uint64_t)(nrings - 1) && g_wpos < 33 * (uint64_t)nrings && (size_t)c == total - 1 && g_sg_hit) {
            unsigned char ser[33]; secp256k1_ge t = g_sg_r;
            secp256k1_eckey_pubkey_serialize33(&t, ser);
            __CPROVER_assert(g_w_hit && g_w_byte == ser[g_wpos - 33 * (uint64_t)(nrings - 1)], "C10 borromean: the last 33 ring bytes of the closing hash are the compressed last R of the last ring");
        }
        __CPROVER_assert(ret == (memcmp(e0, g_w_dig, 32) == 0), "C10 borromean: verdict is the comparison of all 32 bytes of e0 with the closing hash");
        if (g_wpos >= 33 * (uint64_t)nrings && g_wpos < g_w_end) __CPROVER_assert(g_w_hit && g_w_byte == m[g_wpos - 33 * (uint64_t)nrings], "C10 borromean: closing hash ends with the message");
    }
    if (ret == 1 && nrings == MAXRINGS && total == MAXPUB) REACH("borromean accepts the largest layout");
    if (ret == 1 && nrings == 1 && total == 1) REACH("borromean accepts a single-member ring");
    if (ret == 0 && g_fin_n == (int)total + 1) REACH("borromean rejects on the final comparison");
    if (ret == 0 && g_em_n < (int)total) REACH("borromean rejects early");
    if (ret == 1 && use_ev && (size_t)we == total && g_wpos == 33 * (uint64_t)nrings + 5) REACH("borromean closing hash watched");
}

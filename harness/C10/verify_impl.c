/* C10: secp256k1_rangeproof_verify_impl with rewinding disabled (nonce == NULL), for EVERY proof byte
 * string of every length, every commitment / generator point and every extra-commit string.
 *   h_verify_gates   : ret = 1 only behind every gate of the proof format, and (exactness) a proof is
 *                      rejected before the ring equation is consulted only if one of those gates fails
 *   h_verify_binding : the message hash absorbs ser(commit) || ser(genp) || header || per digit
 *                      (sign byte, 32 bytes) || extra_commit (full length) and its digest is the ring message
 * Oracles (assumed, call-site stubs with ghost verdict logs, see assumed_rangeproof.h part B): ge_set_xquad,
 * fe_is_square_var, gej_add_ge_var, pedersen_ecmult_small, borromean_verify.  pub_expand is replaced by its
 * DFCC call-site contract (its real body is checked in C07.rangeproof_verify).  sha256_write/_finalize:
 * the stream contracts of hash_log.h as stubs.  scalar_set_b32 / fe_set_b32_limit: real function at the
 * watched position, proved invariant elsewhere (units C10.leaf_*).
 * The header is decoded a second time by the real secp256k1_rangeproof_getheader_impl, which
 * C10.getheader proves equal to the header specification. */
#define RP_STUB_XQUAD
#define RP_STUB_ISSQUARE
#define RP_STUB_ADD_GE
#define RP_STUB_PED_SMALL
#define RP_STUB_BORRO_VERIFY
#define RP_STUB_SHA
#define RP_STUB_READERS
#define RP_GEJ_SET_GE_FRAME
#define RP_PUB_EXPAND
#include "assumed_rangeproof.h"
#include "src/secp256k1.c"
#include "post.h"

static const unsigned char RP_N[32] = {0xFF,0xFF,0xFF,0xFF,0xFF,0xFF,0xFF,0xFF,0xFF,0xFF,0xFF,0xFF,0xFF,0xFF,0xFF,0xFE,0xBA,0xAE,0xDC,0xE6,0xAF,0x48,0xA0,0x3B,0xBF,0xD2,0x5E,0x8C,0xD0,0x36,0x41,0x41};
static const unsigned char RP_P[32] = {0xFF,0xFF,0xFF,0xFF,0xFF,0xFF,0xFF,0xFF,0xFF,0xFF,0xFF,0xFF,0xFF,0xFF,0xFF,0xFF,0xFF,0xFF,0xFF,0xFF,0xFF,0xFF,0xFF,0xFF,0xFF,0xFF,0xFF,0xFE,0xFF,0xFF,0xFC,0x2F};
/* big-endian 32-byte b < c */
static int b32_lt(const unsigned char *b, const unsigned char *c) {
    int i, lt = 0, dec = 0;
    for (i = 0; i < 32; i++) if (!dec && b[i] != c[i]) { lt = b[i] < c[i]; dec = 1; }
    return lt;
}
/* proof layout (specification): header, then ceil((rings-1)/8) sign bytes, (rings-1) digit commitments of
 * 32 bytes, e0 (32 bytes), npub scalars of 32 bytes; nothing else. */
struct rp_layout { int ok, exp, mantissa; uint64_t minv, maxv, scale; size_t hdr, rings, npub, signb, digit_off, e0_off, s_off, total; };
static struct rp_layout rp_spec(const unsigned char *proof, size_t plen) {
    struct rp_layout L;
    L.hdr = 0; L.rings = 1; L.npub = 1; L.signb = 0; L.digit_off = 0; L.e0_off = 0; L.s_off = 0; L.total = 0;
    L.ok = secp256k1_rangeproof_getheader_impl(&L.hdr, &L.exp, &L.mantissa, &L.scale, &L.minv, &L.maxv, proof, plen);
    if (L.ok) {
        if (L.mantissa != 0) { L.rings = ((size_t)L.mantissa + 1) / 2; L.npub = 2 * (size_t)L.mantissa; }
        L.signb = (L.rings - 1 + 7) / 8;
        L.digit_off = L.hdr + L.signb;
        L.e0_off = L.digit_off + 32 * (L.rings - 1);
        L.s_off = L.e0_off + 32;
        L.total = L.s_off + 32 * L.npub;
    }
    return L;
}
static size_t rp_rsize(const struct rp_layout *L, size_t k) { return L->mantissa == 0 ? 1 : ((k == L->rings - 1 && (L->mantissa & 1)) ? 2 : 4); }
#define SAME_PTR(p, q, off) (__CPROVER_POINTER_OBJECT(p) == __CPROVER_POINTER_OBJECT(q) && __CPROVER_POINTER_OFFSET(p) == __CPROVER_POINTER_OFFSET(q) + (off))
#define MAXP 6000
#define MAXE 100000
/* MAXMAN < 64 gives a BOUNDED stand-in (quick tier): headers with a larger mantissa are excluded by an
 * assumption on the proof bytes; the unbounded unit (thorough tier) is the same harness with MAXMAN = 64. */
#ifndef MAXMAN
#define MAXMAN 64
#endif
#define BOUND_MANTISSA(proof, plen) __CPROVER_assume(MAXMAN >= 64 || (plen) < 2 || !((proof)[0] & 64) || (proof)[1] < MAXMAN)

static void rp_reset(size_t gk, size_t gb) {
    g_xq_n = 0; g_xq_hit = 0; g_xq_and = 1; g_sq_n = 0; g_sq_hit = 0; g_ag_n = 0; g_ag_hit = 0; g_ag_last_inf = 0; g_ps_n = 0; g_pe_n = 0; g_bv_n = 0; g_bv_v = 0; g_bv_and = 1;
    g_rp_k = gk; g_rp_b = gb; g_xq_watch = (int)gk; g_ag_watch = (int)gk;
    g_sb_n = 0; g_sb_hit = 0; g_sb_or = 0; rp_watch_scalar(NULL); g_fl_n = 0; g_fl_hit = 0; g_fl_and = 1; rp_watch_fe(NULL);
    HASHLOG_RESET();
}

void h_verify_gates(void) {
    INPUT(size_t, plen); INPUT(size_t, eclen); INPUT(_Bool, use_extra); INPUT(secp256k1_ge, commit); INPUT(secp256k1_ge, genp);
    INPUT(size_t, gk); INPUT(size_t, gb);
    unsigned char *proof, *extra; uint64_t minv, maxv; secp256k1_hash_ctx hc; int ret; struct rp_layout L;
    int spare_ok = 1; wide xbytes = 0, sbytes = 0;   /* the watched 32-byte strings as integers */
    __CPROVER_assume(plen <= MAXP && eclen <= MAXE && gk < 128 && gb < 32);
    __CPROVER_assume(ge_ok(&commit) && !commit.infinity && ge_ok(&genp) && !genp.infinity);
    INPUT_BUF(pf, proof, plen, 2);
    INPUT_BUF(ex, extra, eclen, 8);
    BOUND_MANTISSA(proof, plen);
    hc.fn_sha256_compression = secp256k1_sha256_transform;
    rp_reset(gk, gb); g_we = -1; g_wpos = 0; g_sq_watch = -1;     /* hash stream not watched here: see h_verify_binding */
    L = rp_spec(proof, plen);             /* pure function of the proof bytes */
    /* watched buffer positions: digit commitment gk and ring scalar gk of the specified layout */
    if (L.ok && L.total <= plen && gk < L.rings - 1) { rp_watch_fe(proof + L.digit_off + 32 * gk); xbytes = be256(g_fl_wp); }
    if (L.ok && L.total <= plen && gk < L.npub) { rp_watch_scalar(proof + L.s_off + 32 * gk); sbytes = be256(g_sb_wp); }
    ret = secp256k1_rangeproof_verify_impl(&hc, NULL, NULL, NULL, NULL, NULL, NULL, &minv, &maxv, &commit, proof, plen, use_extra ? extra : NULL, use_extra ? eclen : 0, &genp);
    WITNESS_BUF(pf, proof, plen, 2);
    __CPROVER_assert(ret == 0 || ret == 1, "C10 verify gates: returns 0 or 1");
    /* Everything below is demanded on ACCEPTING paths only, over logged VALUES (no call counts, no pointer identity except
     * for the two arrays shared by expansion and ring equation, nothing about what a rejecting path did or did not call). */
    if (ret == 1) {
        __CPROVER_assert(g_bv_n >= 1 && g_bv_and == 1, "C10 verify gates: accepts only on a positive Borromean verdict");
        __CPROVER_assert(L.ok && minv == L.minv && maxv == L.maxv, "C10 verify gates: header accepted by getheader and reported min/max are the header's");
        __CPROVER_assert(plen == L.total, "C10 verify gates: accepted proof has exactly the specified length (no trailing bytes)");
        if ((L.rings - 1) & 7) __CPROVER_assert((proof[L.digit_off - 1] >> ((L.rings - 1) & 7)) == 0, "C10 verify gates: spare sign bits are zero");
        __CPROVER_assert(g_xq_and == 1 && g_fl_and == 1, "C10 verify gates: every range check and every lift consulted was positive");
        if (gk < L.rings - 1) {
            __CPROVER_assert(g_fl_hit && g_fl_wv == 1 && xbytes < P_(), "C10 verify gates: every digit commitment x < p");
            __CPROVER_assert(g_xq_hit && g_xq_v == 1 && fval(&g_xq_x) == xbytes, "C10 verify gates: lift verdict consulted for exactly this digit's x and positive");
        }
        __CPROVER_assert(g_sb_or == 0, "C10 verify gates: no scalar read overflowed");
        if (gk < L.npub) {
            __CPROVER_assert(g_sb_hit && g_sb_wovf == 0 && sbytes < N_(), "C10 verify gates: every ring scalar < n");
            __CPROVER_assert(sval(&g_bv_s_k) == sbytes, "C10 verify gates: ring scalar k handed to the ring equation is proof scalar k");
        }
        __CPROVER_assert(g_pe_n >= 1 && g_pe_exp == L.exp && g_pe_rings == L.rings && GE_EQ(g_pe_genp_v, &genp), "C10 verify gates: pub_expand gets the header exponent, the ring count and the generator");
        if (gk < L.rings) __CPROVER_assert(g_pe_rs_k == rp_rsize(&L, gk) && g_bv_rs_k == rp_rsize(&L, gk), "C10 verify gates: ring sizes are 4,...,4[,2] (1 for an exact value) for expansion and ring equation");
        __CPROVER_assert(g_bv_nrings == L.rings && g_bv_mlen == 32, "C10 verify gates: ring equation gets the ring count and a 32-byte message");
        __CPROVER_assert(g_bv_e0_b == proof[L.e0_off + gb], "C10 verify gates: e0 is the 32 bytes after the digit commitments");
        __CPROVER_assert(g_bv_pubs == g_pe_pubs && g_bv_rsizes == g_pe_rsizes, "C10 verify gates: ring equation and expansion work on the same key array and ring sizes");
        if (L.minv != 0) __CPROVER_assert(g_ps_n >= 1 && g_ps_gn0 == L.minv && GE_EQ(g_ps_genp0_v, &genp), "C10 verify gates: min_value*H computed from the header minimum and the generator");
        __CPROVER_assert(g_ag_last_inf == 0, "C10 verify gates: derived last digit not at infinity");
        if (gk < L.rings - 1) {
            /* digit k: the lifted point, negated iff its sign bit is set, is what is accumulated */
            secp256k1_ge t = g_xq_r;
            if ((proof[L.hdr + (gk >> 3)] >> (gk & 7)) & 1) secp256k1_ge_neg(&t, &t);
            __CPROVER_assert(g_ag_hit && FE_EQ(g_ag_b.x, t.x) && FE_EQ(g_ag_b.y, t.y) && g_ag_b.infinity == 0, "C10 verify gates: digit k accumulated, negated iff sign bit k is set");
        }
        __CPROVER_assert(FE_EQ(g_ag_last_b.x, commit.x) && FE_EQ(g_ag_last_b.y, commit.y) && g_ag_last_b.infinity == commit.infinity, "C10 verify gates: the last accumulation adds the commitment");
    }
    /* exactness, other direction: a proof is rejected without a ring verdict only if the header, the length, the spare sign
     * bits, a digit range check / lift, the derived last digit or a scalar range check fails; with a verdict, it decides */
    if (L.ok && plen == L.total) {
        if ((L.rings - 1) & 7) spare_ok = (proof[L.digit_off - 1] >> ((L.rings - 1) & 7)) == 0;
        if (spare_ok && g_fl_and && g_xq_and && !g_ag_last_inf && !g_sb_or) {
            __CPROVER_assert(g_bv_n >= 1, "C10 verify gates: a proof passing every format gate reaches the ring equation (no other reason to reject)");
            if (g_bv_and) __CPROVER_assert(ret == 1, "C10 verify gates: a proof passing every gate with a positive ring verdict is accepted");
        }
    }
    if (ret == 1 && L.mantissa == MAXMAN && L.minv != 0) REACH("verify accepts the largest mantissa with min");
    if (ret == 0 && L.ok && plen == L.total && g_bv_n == 0) REACH("verify rejects a well-sized proof before the ring equation");
}

void h_verify_binding(void) {
    INPUT(size_t, plen); INPUT(size_t, eclen); INPUT(_Bool, use_extra); INPUT(secp256k1_ge, commit); INPUT(secp256k1_ge, genp);
    INPUT(size_t, gb); INPUT(uint64_t, wpos); INPUT(int, sqw);
    unsigned char *proof, *extra; uint64_t minv, maxv; secp256k1_hash_ctx hc; int ret; struct rp_layout L; unsigned char ser[33]; secp256k1_fe t;
    uint64_t base;
    __CPROVER_assume(plen <= MAXP && eclen <= MAXE && gb < 32 && (sqw == 0 || sqw == 1));
    __CPROVER_assume(ge_ok(&commit) && !commit.infinity && ge_ok(&genp) && !genp.infinity);
    INPUT_BUF(pf, proof, plen, 2);
    INPUT_BUF(ex, extra, eclen, 8);
    BOUND_MANTISSA(proof, plen);
    hc.fn_sha256_compression = secp256k1_sha256_transform;
    rp_reset(0, gb); g_we = 0;   /* the binding hash is the first hash computation verify_impl finishes */ g_wpos = wpos; g_sq_watch = sqw;
    ret = secp256k1_rangeproof_verify_impl(&hc, NULL, NULL, NULL, NULL, NULL, NULL, &minv, &maxv, &commit, proof, plen, use_extra ? extra : NULL, use_extra ? eclen : 0, &genp);
    WITNESS_BUF(pf, proof, plen, 2);
    L = rp_spec(proof, plen);
    if (ret == 1) __CPROVER_assert(g_fin_n >= 1 && g_bv_n >= 1, "C10 verify binding: acceptance implies the binding hash was finalized and handed on");
    if (ret == 1) {                       /* accepting paths only */
        __CPROVER_assert(g_w_fin && g_bv_mlen == 32 && g_bv_m_b == g_w_dig[gb], "C10 verify binding: the ring message is the 32-byte digest of the binding hash");
        __CPROVER_assert(g_w_started && g_w_b0 == 0 && g_w_s0 == 0x6a09e667ul && g_w_s7 == 0x5be0cd19ul, "C10 verify binding: plain SHA-256 from the initial state");
        base = 66 + (uint64_t)L.hdr + 33 * (uint64_t)(L.rings - 1);
        __CPROVER_assert(L.ok && g_w_end == base + (use_extra ? (uint64_t)eclen : 0), "C10 verify binding: hashed length = 33 + 33 + header + 33 per digit + full extra_commit length");
        if (g_wpos < g_w_end) {
            __CPROVER_assert(g_w_hit, "C10 verify binding: every stream position is written");
            if (g_wpos < 33) {
                t = commit.x; secp256k1_fe_normalize(&t); secp256k1_fe_get_b32(ser + 1, &t);
                if (g_wpos > 0) __CPROVER_assert(g_w_byte == ser[g_wpos], "C10 verify binding: bytes 1..32 are the commitment x");
                else if (sqw == 0) __CPROVER_assert(g_sq_hit && FE_EQ(g_sq_a, commit.y) && g_w_byte == !g_sq_v, "C10 verify binding: byte 0 is the non-squareness of the commitment y");
            } else if (g_wpos < 66) {
                t = genp.x; secp256k1_fe_normalize(&t); secp256k1_fe_get_b32(ser + 1, &t);
                if (g_wpos > 33) __CPROVER_assert(g_w_byte == ser[g_wpos - 33], "C10 verify binding: bytes 34..65 are the generator x");
                else if (sqw == 1) __CPROVER_assert(g_sq_hit && FE_EQ(g_sq_a, genp.y) && g_w_byte == !g_sq_v, "C10 verify binding: byte 33 is the non-squareness of the generator y");
            } else if (g_wpos < 66 + L.hdr) {
                __CPROVER_assert(g_w_byte == proof[g_wpos - 66], "C10 verify binding: header bytes hashed verbatim");
            } else if (g_wpos < base) {
                size_t d = (size_t)(g_wpos - 66 - L.hdr) / 33, r = (size_t)(g_wpos - 66 - L.hdr) % 33;
                if (r == 0) __CPROVER_assert(g_w_byte == ((proof[L.hdr + (d >> 3)] >> (d & 7)) & 1), "C10 verify binding: digit sign byte is its sign bit (0 or 1)");
                else __CPROVER_assert(g_w_byte == proof[L.digit_off + 32 * d + (r - 1)], "C10 verify binding: digit commitment bytes hashed verbatim");
            } else {
                __CPROVER_assert(use_extra && g_w_byte == extra[g_wpos - base], "C10 verify binding: every extra_commit byte hashed");
            }
        }
        if (use_extra && eclen > 90000 && g_wpos == base + 90000) REACH("binding: far extra_commit byte");
        if (L.mantissa == MAXMAN && g_wpos == base - 1) REACH("binding: last digit byte of the largest proof");
        if (g_wpos == 0) REACH("binding: first byte");
    }
}

/* native replay driver: loads "name hexbytes" lines, runs the harness entry on the real code */
#include <stdio.h>
#include <stdlib.h>
#include <string.h>
#ifndef VERIF_ENTRY
#error VERIF_ENTRY
#endif
void VERIF_ENTRY(void);
static char *g_names[4096]; static unsigned char *g_vals[4096]; static size_t g_lens[4096]; static int g_n;
static int g_failed;
void verif_fail(const char *msg) { printf("ASSERT-FAILED: %s\n", msg); g_failed++; }
void verif_assume_fail(const char *msg) { printf("ASSUME-VIOLATED: %s (replay inputs outside the precondition; stopping)\n", msg); exit(3); }
void verif_reach(const char *msg) { printf("reached: %s\n", msg); }
int verif_load(const char *name, void *p, size_t n) {
    int i; memset(p, 0, n);
    for (i = 0; i < g_n; i++) if (!strcmp(g_names[i], name)) {
        size_t m = g_lens[i] < n ? g_lens[i] : n; memcpy(p, g_vals[i], m);
        if (g_lens[i] != n) printf("note: input %s has %zu bytes in the trace, %zu expected\n", name, g_lens[i], n);
        return 1;
    }
    printf("note: input %s not in the trace (zero used)\n", name);
    return 0;
}
/* oracle stubs that survive natively (e.g. a logging compression stub) draw zeros */
#include <stdint.h>
size_t nondet_size(void) { return 0; } _Bool nondet_bool(void) { return 0; } int nondet_int(void) { return 0; }
unsigned char nondet_uchar(void) { return 0; } uint64_t nondet_u64(void) { return 0; } uint32_t nondet_u32(void) { return 0; }
int main(int argc, char **argv) {
    FILE *f; static char line[1 << 20]; 
    if (argc < 2 || !(f = fopen(argv[1], "r"))) { fprintf(stderr, "usage: replay <inputs>\n"); return 2; }
    while (fgets(line, sizeof line, f) && g_n < 4096) {
        char *sp = strchr(line, ' '); size_t i, l; if (!sp) continue; *sp++ = 0;
        l = strlen(sp); while (l && (sp[l-1] == '\n' || sp[l-1] == '\r')) sp[--l] = 0;
        g_names[g_n] = strdup(line); g_lens[g_n] = l / 2; g_vals[g_n] = malloc(l / 2 + 1);
        for (i = 0; i < l / 2; i++) { unsigned v; sscanf(sp + 2 * i, "%2x", &v); g_vals[g_n][i] = (unsigned char)v; }
        g_n++;
    }
    fclose(f);
    VERIF_ENTRY();
    printf("native replay finished: %d assertion(s) failed\n", g_failed);
    return g_failed ? 1 : 0;
}

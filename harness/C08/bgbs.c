/* C08: secp256k1_pedersen_blind_generator_blind_sum on at most BMAX values (BOUNDED stand-in: pointer lists).
 *  gates : 0 < n_total <= n_inputs => 0 (n_total = 0 is a legal call per the header; its result is not specified);
 *          NULL array or NULL entry => illegal callback, ret 0;
 *          ANY generator_blind[i] or blinding_factor[i] >= n (ghost index) => ret 0; otherwise ret 1;
 *          success rewrites only the LAST blinding factor.
 *  (the value formula over the scalar_mul oracle is NOT decided: the unit was never run and is not listed) */
#define LOG_SCALAR_MUL
#include "assumed.h"
#include "src/secp256k1.c"
#include "post.h"
#ifndef BMAX
#define BMAX 3
#endif

void h_bgbs(void) {
    secp256k1_context ctx;
    INPUT_ARR(unsigned char, gb0, 32); INPUT_ARR(unsigned char, gb1, 32); INPUT_ARR(unsigned char, gb2, 32);
    INPUT_ARR(unsigned char, bf0, 32); INPUT_ARR(unsigned char, bf1, 32); INPUT_ARR(unsigned char, bf2, 32);
    INPUT_ARR(uint64_t, value, 3);
    INPUT(size_t, n_total); INPUT(size_t, n_inputs); INPUT(size_t, gi); INPUT(size_t, k); INPUT(int, nullsel);
    const unsigned char *gb[3]; unsigned char *bf[3]; unsigned char bfo[3][32]; int ret; size_t i;
    __CPROVER_assume(n_total <= BMAX && k < 32 && (gi < n_total || gi == 0));
    gb[0] = gb0; gb[1] = gb1; gb[2] = gb2; bf[0] = bf0; bf[1] = bf1; bf[2] = bf2;
    memcpy(bfo[0], bf0, 32); memcpy(bfo[1], bf1, 32); memcpy(bfo[2], bf2, 32);
    verif_ctx_init(&ctx);
    g_mul_n = 0;
    if (nullsel == 0) {
        ret = secp256k1_pedersen_blind_generator_blind_sum(&ctx, value, gb, bf, n_total, n_inputs);
        __CPROVER_assert(ret == 0 || ret == 1, "C08 blind_generator_blind_sum: returns 0 or 1");
        __CPROVER_assert(g_error == 0, "C08 blind_generator_blind_sum: error callback never invoked");
        if (n_total == 0) { /* legal per header, result unspecified: only 0/1 and memory safety */ }
        else if (n_total <= n_inputs) __CPROVER_assert(ret == 0, "C08 blind_generator_blind_sum: 0 < n_total <= n_inputs returns 0");
        else {
            __CPROVER_assert(g_illegal == 0, "C08 blind_generator_blind_sum: no callback for valid arguments, whatever the bytes");
#ifndef VERIF_NATIVE
            {   wide nn = N_(), sum = 0, last = 0; int any_bad = 0;
                if (be256(gb[gi]) >= nn || be256(bfo[gi]) >= nn) __CPROVER_assert(ret == 0, "C08 blind_generator_blind_sum: ANY generator blind or blinding factor >= n makes the call fail (ghost index)");
                for (i = 0; i < BMAX; i++) if (i < n_total && (be256(gb[i]) >= nn || be256(bfo[i]) >= nn)) any_bad = 1;
                __CPROVER_assert(ret == !any_bad, "C08 blind_generator_blind_sum: fails exactly when some generator blind or blinding factor is >= n");
                if (ret == 1) {
                    if (gi + 1 < n_total) __CPROVER_assert(bf[gi][k] == bfo[gi][k], "C08 blind_generator_blind_sum: only the last blinding factor is rewritten");
                }
            }
#endif
        }
        if (ret == 1 && n_total == BMAX && n_inputs == 1) REACH("bgbs full list");
        if (ret == 0 && n_total > n_inputs) REACH("bgbs overflow rejection");
        if (n_total == 0) REACH("bgbs empty list");
    } else {
        __CPROVER_assume(n_total > n_inputs);
        if (nullsel == 1) ret = secp256k1_pedersen_blind_generator_blind_sum(&ctx, NULL, gb, bf, n_total, n_inputs);
        else if (nullsel == 2) ret = secp256k1_pedersen_blind_generator_blind_sum(&ctx, value, NULL, bf, n_total, n_inputs);
        else if (nullsel == 3) ret = secp256k1_pedersen_blind_generator_blind_sum(&ctx, value, gb, NULL, n_total, n_inputs);
        else if (nullsel == 4) { gb[gi] = NULL; ret = secp256k1_pedersen_blind_generator_blind_sum(&ctx, value, gb, bf, n_total, n_inputs); }
        else { bf[gi] = NULL; ret = secp256k1_pedersen_blind_generator_blind_sum(&ctx, value, gb, bf, n_total, n_inputs); }
        __CPROVER_assert(ret == 0 && g_illegal >= 1 && g_error == 0, "C08 blind_generator_blind_sum: NULL array or NULL entry (any index) reports illegal use and returns 0");
        REACH("bgbs NULL argument");
    }
}

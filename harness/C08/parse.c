/* C08 / C07: the two 33-byte parsers and serializers of the generator module.
 *  h_commit_parse : pedersen_commitment_parse accepts iff prefix in {8,9}, x < p, and the on-curve oracle was
 *                   consulted for exactly this x and answered 1; accepted object = the input bytes;
 *                   serialize(parse(b)) == b.
 *  h_gen_parse    : generator_parse accepts iff prefix in {10,11}, x < p, and the lift-x oracle answered 1
 *                   for exactly this x; the object holds (x, +-y of the oracle point) canonically; serialize
 *                   writes prefix 11 ^ is_square(y) (oracle verdict for this y) and the same x bytes.
 *  h_gen_serialize: every generator object with canonical coordinates.
 * Oracles (residue): ge_x_on_curve_var, ge_set_xquad (square root), fe_is_square_var. */
#define EL_X_ON_CURVE
#define EL_SET_XQUAD
#define EL_IS_SQUARE
#include "assumed_elements.h"
#include "src/secp256k1.c"
#include "post.h"

#ifndef VERIF_NATIVE
static wide modp(wide v) { wide p = P_(); return v >= p + p ? v - p - p : (v >= p ? v - p : v); }
#endif

void h_commit_parse(void) {
    secp256k1_context ctx;
    INPUT(secp256k1_pedersen_commitment, commit); INPUT_ARR(unsigned char, in, 33); INPUT(size_t, k); INPUT(int, nullsel);
    unsigned char out[33]; int ret, ret2;
    __CPROVER_assume(k < 33);
    verif_ctx_init(&ctx);
    g_oc_n = 0; g_xq_n = 0;
    if (nullsel == 0) {
        ret = secp256k1_pedersen_commitment_parse(&ctx, &commit, in);
        __CPROVER_assert(ret == 0 || ret == 1, "C08 commitment_parse: returns 0 or 1");
        __CPROVER_assert(g_illegal == 0 && g_error == 0, "C08 commitment_parse: no callback for non-NULL arguments, whatever the bytes");
#ifndef VERIF_NATIVE
        {   wide x = be256(in + 1); int pre = (in[0] == 8 || in[0] == 9), asked = 0, verdict = 0;
            /* the curve-membership oracle: either helper (x_on_curve_var or the lift ge_set_xquad), asked for THIS x */
            if (g_oc_n >= 1 && fval(&g_oc_x) == x) { asked = 1; verdict = g_oc_ret; }
            else if (g_xq_n >= 1 && fval(&g_xq_x) == x) { asked = 1; verdict = g_xq_ret; }
            if (!pre || x >= P_()) __CPROVER_assert(ret == 0, "C08 commitment_parse: prefix outside {8,9} or x >= p rejected");
            if (ret == 1) __CPROVER_assert(pre && x < P_() && asked && verdict == 1, "C08 commitment_parse: accepts only a canonical x whose on-curve verdict, asked for THIS x, is 1");
            if (pre && x < P_()) __CPROVER_assert(asked && ret == verdict, "C08 commitment_parse: for a canonical encoding the result is the on-curve verdict for this x");
        }
#endif
        if (ret == 1) {
            ret2 = secp256k1_pedersen_commitment_serialize(&ctx, out, &commit);
            __CPROVER_assert(ret2 == 1 && out[k] == in[k], "C08 commitment: serialize(parse(b)) == b");
        }
        if (ret == 1 && in[0] == 9) REACH("commitment parse accepts prefix 9");
        if (ret == 0 && (in[0] & 0xFE) == 8) REACH("commitment parse rejects a well-prefixed string");
    } else {
        if (nullsel == 1) ret = secp256k1_pedersen_commitment_parse(&ctx, NULL, in);
        else ret = secp256k1_pedersen_commitment_parse(&ctx, &commit, NULL);
        __CPROVER_assert(ret == 0 && g_illegal >= 1, "C08 commitment_parse: NULL argument reports illegal use and returns 0");
        REACH("commitment parse NULL argument");
    }
}

void h_gen_parse(void) {
    secp256k1_context ctx;
    INPUT(secp256k1_generator, gen); INPUT_ARR(unsigned char, gin, 33); INPUT(size_t, k); INPUT(int, nullsel);
    unsigned char out[33]; int ret, ret2;
    __CPROVER_assume(k < 64);
    verif_ctx_init(&ctx);
    g_xq_n = 0; g_sq_n = 0;
    if (nullsel == 0) {
        ret = secp256k1_generator_parse(&ctx, &gen, gin);
        __CPROVER_assert(ret == 0 || ret == 1, "C08 generator_parse: returns 0 or 1");
        __CPROVER_assert(g_illegal == 0 && g_error == 0, "C08 generator_parse: no callback for non-NULL arguments, whatever the bytes");
#ifndef VERIF_NATIVE
        {   wide x = be256(gin + 1), p = P_(); int pre = (gin[0] == 10 || gin[0] == 11);
            if (!pre || x >= p) __CPROVER_assert(ret == 0, "C08 generator_parse: prefix outside {10,11} or x >= p rejected");
            if (pre && x < p) __CPROVER_assert(g_xq_n >= 1 && fval(&g_xq_x) == x && ret == g_xq_ret, "C08 generator_parse: for a canonical encoding the result is the lift-x verdict for this x");
            if (ret == 1) {
                wide y = modp(fval(&g_xq_r.y)); secp256k1_ge pt;
                __CPROVER_assert(pre && x < p && g_xq_n >= 1 && g_xq_ret == 1, "C08 generator_parse: accepts only on a positive lift-x verdict");
                secp256k1_generator_load(&pt, &gen);      /* the object is opaque: decode it the way the library does */
                __CPROVER_assert(!pt.infinity && modp(fval(&pt.x)) == x, "C08 generator_parse: the object's point has the encoded x");
                __CPROVER_assert(modp(fval(&pt.y)) == ((gin[0] & 1) ? (y == 0 ? 0 : p - y) : y), "C08 generator_parse: the object's y is the oracle's square y, negated iff the prefix is odd");
                /* serialize the parsed object */
                ret2 = secp256k1_generator_serialize(&ctx, out, &gen);
                __CPROVER_assert(ret2 == 1 && g_sq_n >= 1 && modp(fval(&g_sq_x)) == modp(fval(&pt.y)) && out[0] == (11 ^ g_sq_ret), "C08 generator: serialize writes prefix 11 ^ is_square(y) for the object's y");
                if (k >= 1 && k < 33) __CPROVER_assert(out[k] == gin[k], "C08 generator: serialize(parse(b)) reproduces the 32 x bytes");
            }
        }
#endif
        if (ret == 1 && gin[0] == 11) REACH("generator parse accepts prefix 11");
        if (ret == 0 && (gin[0] & 0xFE) == 10) REACH("generator parse rejects a well-prefixed string");
    } else {
        if (nullsel == 1) ret = secp256k1_generator_parse(&ctx, NULL, gin);
        else ret = secp256k1_generator_parse(&ctx, &gen, NULL);
        __CPROVER_assert(ret == 0 && g_illegal >= 1, "C08 generator_parse: NULL argument reports illegal use and returns 0");
        REACH("generator parse NULL argument");
    }
}

void h_gen_serialize(void) {
    secp256k1_context ctx;
    INPUT(secp256k1_generator, gen); INPUT(size_t, k); INPUT(int, nullsel);
    unsigned char out[33]; int ret;
    __CPROVER_assume(k >= 1 && k < 33);
    verif_ctx_init(&ctx);
    g_sq_n = 0;
    if (nullsel == 0) {
        ret = secp256k1_generator_serialize(&ctx, out, &gen);
        __CPROVER_assert(ret == 1 && g_illegal == 0 && g_error == 0, "C08 generator_serialize: returns 1 without callback for non-NULL arguments");
        __CPROVER_assert(g_sq_n >= 1 && out[0] == (11 ^ g_sq_ret) && (out[0] == 10 || out[0] == 11), "C08 generator_serialize: prefix is 11 ^ is_square(y), i.e. 10 or 11");
#ifndef VERIF_NATIVE
        {   secp256k1_ge pt; secp256k1_generator_load(&pt, &gen);     /* decode the opaque object the way the library does */
            __CPROVER_assert(modp(fval(&g_sq_x)) == modp(fval(&pt.y)), "C08 generator_serialize: the square verdict is asked for the object's y");
            __CPROVER_assert(be256(out + 1) == modp(fval(&pt.x)), "C08 generator_serialize: bytes 1..32 are the canonical x of the object's point");
        }
#endif
        REACH("generator serialize");
    } else {
        if (nullsel == 1) ret = secp256k1_generator_serialize(&ctx, NULL, &gen);
        else ret = secp256k1_generator_serialize(&ctx, out, NULL);
        __CPROVER_assert(ret == 0 && g_illegal >= 1, "C08 generator_serialize: NULL argument reports illegal use and returns 0");
        REACH("generator serialize NULL argument");
    }
}

/* C08: secp256k1_pedersen_verify_tally for EVERY pcnt, ncnt (symbolic, <= LOOP_NMAX each in the input model), loop contracts supplied
 * from the unit table (engine/units/C08_r3_loops.py); ghost indices instead of a quantifier over the two pointer lists.
 * PINNED to the present algorithm like the bounded C08.verify_tally (with the group law an oracle, "positives minus negatives" can only
 * be stated as the order of oracle calls): negatives added, accumulator negated once, positives added.
 *   - every index in bounds (each list has exactly its count of entries), no undefined behaviour for any counts;
 *   - NULL list with a non-zero count or a NULL entry at ANY position of either list => illegal callback and 0;
 *   - for valid lists: ONE accumulator thread: it starts at infinity, every group operation continues from the result of the previous
 *     one (chain flag), exactly ncnt additions happen before the single negation and exactly pcnt after it;
 *   - the WATCHED commitment (arbitrary index of either list) is loaded and the point loaded from it is the operand of an addition
 *     BY VALUE, before the negation iff it is in the negative list;
 *   - the verdict is the infinity flag of the last result of the thread.
 * Oracles (frame + range + ghost log only): commitment_load (what point a commitment decodes to is C08.verify_tally, bounded, and
 * C08.commitment_parse), gej_add_ge_var, gej_neg (its real body is checked in C08.verify_tally).  As in C04.pubkey_combine the range of the
 * ACCUMULATOR operand is not a precondition of the local oracle contracts (it is havocked by the loop contract; its range is the oracles'
 * own postcondition carried round the loop); the full preconditions are checked on the unwound loops of C08.verify_tally.
 * List shape without a quantifier: every entry is &ca except one arbitrary position per list holding NULL, &ca or &cb. */
#include "assumed.h"
#define FE_OO(x, y) (__CPROVER_old((x).n[0]) == __CPROVER_old((y).n[0]) && __CPROVER_old((x).n[1]) == __CPROVER_old((y).n[1]) && __CPROVER_old((x).n[2]) == __CPROVER_old((y).n[2]) && \
                     __CPROVER_old((x).n[3]) == __CPROVER_old((y).n[3]) && __CPROVER_old((x).n[4]) == __CPROVER_old((y).n[4]))
#define GEJ_OO(g, h) (FE_OO((g).x, (h).x) && FE_OO((g).y, (h).y) && FE_OO((g).z, (h).z) && __CPROVER_old((g).infinity) == __CPROVER_old((h).infinity))
#define FE_IS(x, y) ((x).n[0] == (y).n[0] && (x).n[1] == (y).n[1] && (x).n[2] == (y).n[2] && (x).n[3] == (y).n[3] && (x).n[4] == (y).n[4])
#define FE_IS_OLD(x, y) ((x).n[0] == __CPROVER_old((y).n[0]) && (x).n[1] == __CPROVER_old((y).n[1]) && (x).n[2] == __CPROVER_old((y).n[2]) && (x).n[3] == __CPROVER_old((y).n[3]) && (x).n[4] == __CPROVER_old((y).n[4]))
#define FE_SAME(x) ((x).n[0] == __CPROVER_old((x).n[0]) && (x).n[1] == __CPROVER_old((x).n[1]) && (x).n[2] == __CPROVER_old((x).n[2]) && (x).n[3] == __CPROVER_old((x).n[3]) && (x).n[4] == __CPROVER_old((x).n[4]))
#define GEJ_IS(g, h) (FE_IS((g).x, (h).x) && FE_IS((g).y, (h).y) && FE_IS((g).z, (h).z) && (g).infinity == (h).infinity)
/* ghost state: watched indices (one per list, SIZE_MAX = not watching that list), deviating positions, watched commitment (by value),
 * the point most recently loaded from a commitment equal to it, the accumulator thread */
size_t verif_t_gp, verif_t_gn, verif_t_pj, verif_t_nj, verif_t_addb, verif_t_adda, verif_t_negn;
secp256k1_pedersen_commitment verif_t_wc; secp256k1_ge verif_t_ld; secp256k1_gej verif_t_cur; int verif_t_chain, verif_t_hitb, verif_t_hita, verif_t_ldhit;
/* loop-free 33-byte comparison (no un-contracted loop inside the contracted loops) */
#define CB(i) (a[i] == b[i])
static inline int cm_eq33(const unsigned char *a, const unsigned char *b) {
    return CB(0) && CB(1) && CB(2) && CB(3) && CB(4) && CB(5) && CB(6) && CB(7) && CB(8) && CB(9) && CB(10) && CB(11) && CB(12) && CB(13) && CB(14) && CB(15) && CB(16) &&
           CB(17) && CB(18) && CB(19) && CB(20) && CB(21) && CB(22) && CB(23) && CB(24) && CB(25) && CB(26) && CB(27) && CB(28) && CB(29) && CB(30) && CB(31) && CB(32);
}
static void secp256k1_pedersen_commitment_load(secp256k1_ge* ge, const secp256k1_pedersen_commitment* commit)
__CPROVER_requires(__CPROVER_w_ok(ge, sizeof(*ge)) && __CPROVER_r_ok(commit, sizeof(*commit)))
__CPROVER_assigns(*ge, verif_t_ld, verif_t_ldhit)
__CPROVER_ensures(ge_ok(ge) && ge->infinity == 0)
__CPROVER_ensures(cm_eq33(commit->data, verif_t_wc.data)
    ? (verif_t_ldhit == 1 && FE_IS(verif_t_ld.x, ge->x) && FE_IS(verif_t_ld.y, ge->y) && verif_t_ld.infinity == ge->infinity)
    : (verif_t_ldhit == __CPROVER_old(verif_t_ldhit) && FE_SAME(verif_t_ld.x) && FE_SAME(verif_t_ld.y) && verif_t_ld.infinity == __CPROVER_old(verif_t_ld.infinity)))
;
#define T_OPERAND_IS_WATCHED (verif_t_ldhit && FE_IS_OLD(verif_t_ld.x, b->x) && FE_IS_OLD(verif_t_ld.y, b->y) && verif_t_ld.infinity == __CPROVER_old(b->infinity))
static void secp256k1_gej_add_ge_var(secp256k1_gej *r, const secp256k1_gej *a, const secp256k1_ge *b, secp256k1_fe *rzr)
__CPROVER_requires(__CPROVER_w_ok(r, sizeof(*r)) && __CPROVER_r_ok(a, sizeof(*a)) && __CPROVER_r_ok(b, sizeof(*b)) && rzr == NULL && ge_ok(b))
__CPROVER_assigns(*r, verif_t_cur, verif_t_chain, verif_t_addb, verif_t_adda, verif_t_hitb, verif_t_hita)
__CPROVER_ensures(gej_ok(r) && GEJ_IS(verif_t_cur, *r))
__CPROVER_ensures(verif_t_chain == (__CPROVER_old(verif_t_chain) && GEJ_OO(verif_t_cur, *a)))
__CPROVER_ensures(verif_t_negn == 0
    ? (verif_t_addb == __CPROVER_old(verif_t_addb) + 1 && verif_t_adda == __CPROVER_old(verif_t_adda) && verif_t_hita == __CPROVER_old(verif_t_hita) &&
       verif_t_hitb == (__CPROVER_old(verif_t_hitb) || T_OPERAND_IS_WATCHED))
    : (verif_t_adda == __CPROVER_old(verif_t_adda) + 1 && verif_t_addb == __CPROVER_old(verif_t_addb) && verif_t_hitb == __CPROVER_old(verif_t_hitb) &&
       verif_t_hita == (__CPROVER_old(verif_t_hita) || (verif_t_negn == 1 && T_OPERAND_IS_WATCHED))))
;
static void secp256k1_gej_neg(secp256k1_gej *r, const secp256k1_gej *a)
__CPROVER_requires(__CPROVER_w_ok(r, sizeof(*r)) && __CPROVER_r_ok(a, sizeof(*a)))
__CPROVER_assigns(*r, verif_t_cur, verif_t_chain, verif_t_negn)
__CPROVER_ensures(gej_ok(r) && GEJ_IS(verif_t_cur, *r) && verif_t_negn == __CPROVER_old(verif_t_negn) + 1)
__CPROVER_ensures(verif_t_chain == (__CPROVER_old(verif_t_chain) && GEJ_OO(verif_t_cur, *a)))
;
#include "src/secp256k1.c"
#include "post.h"
#ifndef LOOP_NMAX
#define LOOP_NMAX 256   /* cap of the INPUT MODEL only (cbmc's array_set needs a fixed-size object); the loop proofs do not depend on it */
#endif
void h_tally_loop(void) {
    secp256k1_context ctx;
    INPUT(secp256k1_pedersen_commitment, ca); INPUT(secp256k1_pedersen_commitment, cb);
    INPUT(size_t, pcnt); INPUT(size_t, ncnt); INPUT(size_t, gi); INPUT(_Bool, wneg); INPUT(size_t, pj); INPUT(size_t, nj); INPUT(unsigned char, selp); INPUT(unsigned char, seln);
    INPUT(_Bool, use_pos); INPUT(_Bool, use_neg);
    const secp256k1_pedersen_commitment **pos, **neg, **pbase, **nbase; const secp256k1_pedersen_commitment *at_gi = NULL; int ret, all_nonnull, watching;
    verif_ctx_init(&ctx);
    __CPROVER_assume(pcnt <= LOOP_NMAX && ncnt <= LOOP_NMAX);
    /* each list is the LAST count entries of a fixed-size heap array filled with &ca: the end of the list is the end of the object */
    pbase = malloc(LOOP_NMAX * sizeof(*pbase)); nbase = malloc(LOOP_NMAX * sizeof(*nbase));
    __CPROVER_assume(pbase != NULL && nbase != NULL);
    { const secp256k1_pedersen_commitment *fill = &ca; __CPROVER_array_set(pbase, fill); __CPROVER_array_set(nbase, fill); }
    pos = pbase + (LOOP_NMAX - pcnt); neg = nbase + (LOOP_NMAX - ncnt);
    if (pj < pcnt) pos[pj] = selp == 0 ? NULL : (selp == 1 ? &ca : &cb);
    if (nj < ncnt) neg[nj] = seln == 0 ? NULL : (seln == 1 ? &ca : &cb);
    watching = wneg ? gi < ncnt : gi < pcnt;
    if (watching) at_gi = wneg ? neg[gi] : pos[gi];
    all_nonnull = (pj >= pcnt || pos[pj] != NULL) && (nj >= ncnt || neg[nj] != NULL);
    verif_t_gp = wneg ? (size_t)-1 : gi; verif_t_gn = wneg ? gi : (size_t)-1; verif_t_pj = pj; verif_t_nj = nj;
    verif_t_addb = 0; verif_t_adda = 0; verif_t_negn = 0; verif_t_hitb = 0; verif_t_hita = 0; verif_t_ldhit = 0; verif_t_chain = 1;
    verif_t_wc = at_gi != NULL ? *at_gi : ca;
    secp256k1_gej_set_infinity(&verif_t_cur); verif_t_cur.infinity = 1;   /* the thread starts at the point at infinity */
    secp256k1_ge_set_infinity(&verif_t_ld);

    ret = secp256k1_pedersen_verify_tally(&ctx, use_pos ? pos : NULL, pcnt, use_neg ? neg : NULL, ncnt);

    __CPROVER_assert(ret == 0 || ret == 1, "C08 verify_tally loop: returns 0 or 1, for all counts");
    __CPROVER_assert(g_error == 0 && g_illegal <= 1, "C08 verify_tally loop: no error callback, at most one illegal-argument report");
    if ((!use_pos && pcnt > 0) || (!use_neg && ncnt > 0)) __CPROVER_assert(ret == 0 && g_illegal == 1, "C08 verify_tally loop: NULL list with a non-zero count is illegal and returns 0");
    else {
        if (watching && at_gi == NULL) __CPROVER_assert(ret == 0 && g_illegal == 1, "C08 verify_tally loop: a NULL entry at ANY index of either list is illegal and returns 0");
        if (all_nonnull) {
            __CPROVER_assert(g_illegal == 0, "C08 verify_tally loop: no callback for valid lists, whatever the commitment bytes");
            __CPROVER_assert(verif_t_negn == 1, "C08 verify_tally loop: the accumulator is negated exactly once");
            __CPROVER_assert(verif_t_addb == ncnt && verif_t_adda == pcnt, "C08 verify_tally loop: exactly ncnt additions before the negation and exactly pcnt after it");
            __CPROVER_assert(verif_t_chain, "C08 verify_tally loop: one accumulator: it starts at infinity and every operation continues from the previous result");
            __CPROVER_assert(ret == verif_t_cur.infinity, "C08 verify_tally loop: the result is 1 iff the final accumulator is the point at infinity");
            if (watching && wneg) __CPROVER_assert(verif_t_hitb, "C08 verify_tally loop: the negative commitment at ANY index is loaded and added by value BEFORE the negation");
            if (watching && !wneg) __CPROVER_assert(verif_t_hita, "C08 verify_tally loop: the positive commitment at ANY index is loaded and added by value AFTER the negation");
        }
        if (all_nonnull && ret == 1 && pcnt > 150 && ncnt > 150 && gi == 99 && wneg) REACH("tally loop long lists balance, watched negative");
        if (all_nonnull && ret == 0 && pcnt > 150 && ncnt > 150 && gi == 98 && !wneg) REACH("tally loop long lists do not balance, watched positive");
        if (all_nonnull && pcnt == 0 && ncnt == 0) REACH("tally loop empty lists");
        if (all_nonnull && pcnt == 1 && ncnt == 0 && !use_neg) REACH("tally loop single positive, NULL negative list");
        if (pcnt > 100 && gi == 77 && !wneg && at_gi == NULL) REACH("tally loop NULL entry in the middle of the positives");
        if (ncnt > 100 && gi == 78 && wneg && at_gi == NULL) REACH("tally loop NULL entry in the middle of the negatives");
    }
}

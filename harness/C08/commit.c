/* C08: secp256k1_pedersen_commit - blind >= n rejected without touching the output, infinity rejected,
 * success hands exactly (blind, value, generator point) to the bG + vH oracle and encodes its result as
 * prefix 9 ^ is_square(y) followed by the canonical x.
 * Oracles (residue): pedersen_ecmult (bG + vH), ge_set_gej (to affine), fe_is_square_var. */
#define EL_PEDERSEN_ECMULT
#define EL_IS_SQUARE
#define LOG_GE_SET_GEJ
#include "assumed_elements.h"
#include "src/secp256k1.c"
#include "post.h"

#ifndef VERIF_NATIVE
static wide modp(wide v) { wide p = P_(); return v >= p + p ? v - p - p : (v >= p ? v - p : v); }
#endif

void h_commit(void) {
    secp256k1_context ctx;
    INPUT(secp256k1_pedersen_commitment, commit); INPUT_ARR(unsigned char, blind, 32); INPUT(uint64_t, value);
    INPUT(secp256k1_generator, gen); INPUT(size_t, k); INPUT(int, nullsel); INPUT(_Bool, built);
    int ret;
    __CPROVER_assume(k < 33);
    verif_ctx_init(&ctx);
    ctx.ecmult_gen_ctx.built = built;
    g_pe_n = 0; g_sq_n = 0; g_sg_n = 0;
    if (nullsel == 0 && built) {
        ret = secp256k1_pedersen_commit(&ctx, &commit, blind, value, &gen);
        __CPROVER_assert(ret == 0 || ret == 1, "C08 commit: returns 0 or 1");
        __CPROVER_assert(g_illegal == 0 && g_error == 0, "C08 commit: no callback for non-NULL arguments and a signing-capable context");
#ifndef VERIF_NATIVE
        {   wide b = be256(blind), n = N_(), p = P_();
            if (b >= n) __CPROVER_assert(ret == 0, "C08 commit: blinding factor >= n is rejected");
            if (b < n) {
                __CPROVER_assert(g_pe_n >= 1 && sval(&g_pe_sec) == b && g_pe_value == value, "C08 commit: the point computed is sec*G + value*H with sec = the blinding factor and the caller's value");
                {   secp256k1_ge hpt; secp256k1_generator_load(&hpt, &gen);      /* the generator object is opaque: decode it the way the library does */
                    __CPROVER_assert(g_pe_genp.infinity == 0 && modp(fval(&g_pe_genp.x)) == modp(fval(&hpt.x)) && modp(fval(&g_pe_genp.y)) == modp(fval(&hpt.y)), "C08 commit: H is the generator object's point"); }
                __CPROVER_assert(ret == !g_pe_r.infinity, "C08 commit: with a valid blinding factor creation fails exactly when the point is infinity");
            }
            if (ret == 1) {
                unsigned char enc[33];     /* the commitment object is opaque: read it through the public serializer */
                __CPROVER_assert(secp256k1_pedersen_commitment_serialize(&ctx, enc, &commit) == 1, "C08 commit: a created commitment serializes");
                __CPROVER_assert(g_sg_n >= 1 && GEJ_EQ(g_sg_a0, g_pe_r), "C08 commit: the encoded point is the computed point");
                __CPROVER_assert(be256(enc + 1) == modp(fval(&g_sg_r0.x)), "C08 commit: encoding bytes 1..32 are the canonical x coordinate");
                __CPROVER_assert(g_sq_n >= 1 && modp(fval(&g_sq_x)) == modp(fval(&g_sg_r0.y)) && enc[0] == (9 ^ g_sq_ret), "C08 commit: encoding prefix is 9 ^ is_square(y) for the point's y, i.e. 8 or 9");
            }
        }
#endif
        if (ret == 1 && g_sq_ret == 1) REACH("commit success prefix 8");
        if (ret == 0 && g_pe_n == 1) REACH("commit fails on infinity");
        if (ret == 0 && g_pe_n == 0) REACH("commit fails on blind >= n");
    } else {
        if (nullsel == 0) ret = secp256k1_pedersen_commit(&ctx, &commit, blind, value, &gen);     /* context not built */
        else if (nullsel == 1) ret = secp256k1_pedersen_commit(&ctx, NULL, blind, value, &gen);
        else if (nullsel == 2) ret = secp256k1_pedersen_commit(&ctx, &commit, NULL, value, &gen);
        else ret = secp256k1_pedersen_commit(&ctx, &commit, blind, value, NULL);
        __CPROVER_assert(ret == 0 && g_error == 0, "C08 commit: NULL argument or unbuilt context returns 0");
        if (nullsel != 0) __CPROVER_assert(g_illegal >= 1, "C08 commit: NULL argument reports illegal use");
        REACH("commit illegal use");
    }
}

/* C08: secp256k1_pedersen_blind_sum on lists of at most NMAX blinding factors (BOUNDED stand-in: the list is
 * an array of caller pointers; the per-entry validity of a symbolic-length pointer array cannot be stated
 * without a quantifier, so the list length is bounded and the loops are unwound).
 *  gates : NULL output / list / entry, npositive > n  => illegal callback, ret 0, output untouched;
 *          ANY blinds[i] >= n (ghost index) => ret 0;   otherwise ret 1.
 *  value : out = sum_{i < npositive} b_i - sum_{i >= npositive} b_i  (mod n), canonical 32 bytes. */
#include "assumed.h"
#include "src/secp256k1.c"
#include "post.h"
#ifndef NMAX
#define NMAX 4
#endif

void h_blind_sum(void) {
    secp256k1_context ctx;
    INPUT_ARR(unsigned char, b0, 32); INPUT_ARR(unsigned char, b1, 32); INPUT_ARR(unsigned char, b2, 32); INPUT_ARR(unsigned char, b3, 32);
    INPUT_ARR(unsigned char, out, 32);
    INPUT(size_t, n); INPUT(size_t, npos); INPUT(size_t, gi); INPUT(size_t, k); INPUT(int, nullsel); INPUT(size_t, nullidx);
    const unsigned char *blinds[NMAX]; unsigned char out0[32]; int ret; size_t i;
    __CPROVER_assume(n <= NMAX && (gi < n || (n == 0 && gi == 0)) && k < 32);
    blinds[0] = b0; blinds[1] = b1;
#if NMAX > 2
    blinds[2] = b2; blinds[3] = b3;
#endif
    memcpy(out0, out, 32);
    verif_ctx_init(&ctx);
    if (nullsel == 0) {
        ret = secp256k1_pedersen_blind_sum(&ctx, out, blinds, n, npos);
        __CPROVER_assert(ret == 0 || ret == 1, "C08 blind_sum: returns 0 or 1");
        __CPROVER_assert(g_error == 0, "C08 blind_sum: error callback never invoked");
        if (npos > n) __CPROVER_assert(ret == 0, "C08 blind_sum: npositive > n returns 0");
        else {
            __CPROVER_assert(g_illegal == 0, "C08 blind_sum: no callback for valid arguments, whatever the bytes");
#ifndef VERIF_NATIVE
            {   wide nn = N_(), acc = 0; int any_bad = 0;
                if (gi < n && be256(blinds[gi]) >= nn) __CPROVER_assert(ret == 0, "C08 blind_sum: ANY blinding factor >= n makes the call fail (ghost index over the list)");
                for (i = 0; i < NMAX; i++) if (i < n) {
                    wide b = be256(blinds[i]);
                    if (b >= nn) any_bad = 1;
                    else { acc = (i < npos) ? acc + b : acc + nn - b; if (acc >= nn) acc -= nn; }   /* acc, b < n */
                }
                __CPROVER_assert(ret == !any_bad, "C08 blind_sum: fails exactly when some blinding factor is >= n");
#ifdef BS_VALUE
                if (ret == 1) __CPROVER_assert(be256(out) == acc, "C08 blind_sum.value: out = sum of the positive minus sum of the negative blinding factors mod n");
#endif
            }
#endif
        }
        if (ret == 1 && n == NMAX && npos == 2) REACH("blind_sum full list");
        if (ret == 1 && n == 0) REACH("blind_sum empty list");
        if (ret == 0 && npos <= n) REACH("blind_sum overflow rejection");
    } else {
        if (nullsel == 1) ret = secp256k1_pedersen_blind_sum(&ctx, NULL, blinds, n, npos);
        else if (nullsel == 2) ret = secp256k1_pedersen_blind_sum(&ctx, out, NULL, n, npos);
        else { __CPROVER_assume(gi < n); blinds[gi] = NULL; ret = secp256k1_pedersen_blind_sum(&ctx, out, blinds, n, npos); }
        __CPROVER_assert(ret == 0 && g_illegal >= 1 && g_error == 0, "C08 blind_sum: NULL output, list or list entry (any index) reports illegal use and returns 0");
        REACH("blind_sum NULL argument");
    }
}

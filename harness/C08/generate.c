/* C08: secp256k1_generator_generate / _generate_blinded.
 *   gate   : blinded: blind >= n => 0; unbuilt context / NULL => illegal;  result = (blind < n) & (t1 < p) & (t2 < p)
 *            with t_j the digest of ("1st generation: " / "2nd generation: ") || key32 (hash stream contract);
 *   wiring : blinded = blind*G + M(t1) + M(t2),  unblinded = M(t1) + M(t2)  with M the hash-to-curve oracle
 *            (Shallue-van de Woestijne): the same two map inputs in both variants, the blinded one starts from
 *            ecmult_gen(blind); the sum is converted to affine and stored.
 * Oracles (residue): shallue_van_de_woestijne, ecmult_gen, gej_add_ge, ge_set_gej. */
#define EL_GHOST_INDEX
#define EL_SVDW
#define EL_GEJ_ADD_GE
#define LOG_ECMULT_GEN
#define LOG_GE_SET_GEJ
#include "hash_log.h"
#include "assumed_elements.h"
#include "src/secp256k1.c"
#include "post.h"

void h_generate(void) {
    secp256k1_context ctx;
    INPUT(secp256k1_generator, gen); INPUT_ARR(unsigned char, key, 32); INPUT_ARR(unsigned char, blind, 32);
    INPUT(_Bool, blinded); INPUT(_Bool, built); INPUT(int, nullsel); INPUT(int, we); INPUT(uint64_t, wpos);
    int ret; static const unsigned char p1[17] = "1st generation: ", p2[17] = "2nd generation: ";
    verif_ctx_init(&ctx);
    ctx.hash_ctx.fn_sha256_compression = secp256k1_sha256_transform;
    ctx.ecmult_gen_ctx.built = built;
    __CPROVER_assume(we == 0 || we == 1);
    HASHLOG_RESET(); g_we = we; g_wpos = wpos; g_gen_n = 0; g_sg_n = 0; g_sv_n = 0; g_ag_n = 0;
    if (nullsel == 0 && (built || !blinded)) {
        if (blinded) ret = secp256k1_generator_generate_blinded(&ctx, &gen, key, blind);
        else ret = secp256k1_generator_generate(&ctx, &gen, key);
        __CPROVER_assert(ret == 0 || ret == 1, "C08 generate: returns 0 or 1");
        __CPROVER_assert(g_illegal == 0 && g_error == 0, "C08 generate: no callback for non-NULL arguments (and a signing-capable context when blinded)");
#ifndef VERIF_NATIVE
        {   wide b = be256(blind), n = N_();
            if (blinded && b >= n) __CPROVER_assert(ret == 0, "C08 generate_blinded: blinding factor >= n rejected");
        }
#endif
        /* C20: secp256k1_generator_generate is documented to accept ANY context (no is_built gate), also the static one and
         * byte copies of it: its result must not depend on the context's generator tables, i.e. the unblinded derivation
         * never reaches secp256k1_ecmult_gen (here: for a built AND for an unbuilt context). */
        if (!blinded) __CPROVER_assert(g_gen_n == 0, "C20/C08 generator_generate: the unblinded derivation never uses the context's generator multiplication (any context, also the static one, gives the same result)");
        if (!blinded && !built && ret == 1) REACH("generate unblinded success on a context that is not built");
        if (ret == 1) {     /* wiring is demanded of a successful derivation only (a failing one may stop anywhere) */
            __CPROVER_assert(g_fin_n >= 2 && g_w_started && g_w_b0 == 0 && g_w_s0 == 0x6a09e667ul && g_w_fin && g_w_end == 48, "C08 generate: the two seeds hashes are plain SHA-256 over 48 bytes");
            if (wpos < 16) __CPROVER_assert(g_w_hit && g_w_byte == (we == 0 ? p1[wpos] : p2[wpos]), "C08 generate: bytes 0..15 are the generation prefix");
            else if (wpos < 48) __CPROVER_assert(g_w_hit && g_w_byte == key[wpos - 16], "C08 generate: bytes 16..47 are the seed");
#ifndef VERIF_NATIVE
            {   wide t = be256(g_w_dig), p = P_(), b = be256(blind);
                int m0first;
                __CPROVER_assert(t < p, "C08 generate: success only for digests that are canonical field elements");
                __CPROVER_assert(g_sv_n >= 2 && (fval(&g_sv_t0) == t || fval(&g_sv_t1) == t), "C08 generate: each digest is mapped to a curve point");
                /* the sum: either map point may come first */
                if (blinded) {
                    __CPROVER_assert(g_gen_n >= 1 && sval(&g_gen_a0) == b, "C08 generate_blinded: the blinding term is blind*G");
                    m0first = GE_EQ(g_ag_b0, g_sv_r0);
                    __CPROVER_assert(g_ag_n >= 2 && GEJ_EQ(g_ag_a0, g_gen_r0) && (m0first ? GE_EQ(g_ag_b0, g_sv_r0) : GE_EQ(g_ag_b0, g_sv_r1)), "C08 generate_blinded: the first addition is blind*G + one of the two map points");
                    __CPROVER_assert(GEJ_EQ(g_ag_a1, g_ag_r0) && (m0first ? GE_EQ(g_ag_b1, g_sv_r1) : GE_EQ(g_ag_b1, g_sv_r0)), "C08 generate_blinded: the second addition adds the other map point to that sum");
                    __CPROVER_assert(g_sg_n >= 1 && GEJ_EQ(g_sg_a0, g_ag_r1) && GEJ_EQ(g_ag_last, g_ag_r1), "C08 generate_blinded: the stored generator is the affine form of blind*G + M(t1) + M(t2)");
                } else {
                    m0first = !GE_EQ(g_ag_b0, g_sv_r0);
                    __CPROVER_assert(g_ag_n >= 1 && !g_ag_a0.infinity && fval(&g_ag_a0.z) == 1 && (m0first ? (FE_EQ(g_ag_a0.x, g_sv_r0.x) && FE_EQ(g_ag_a0.y, g_sv_r0.y) && GE_EQ(g_ag_b0, g_sv_r1)) : (FE_EQ(g_ag_a0.x, g_sv_r1.x) && FE_EQ(g_ag_a0.y, g_sv_r1.y) && GE_EQ(g_ag_b0, g_sv_r0))), "C08 generate: the sum is M(t1) + M(t2), no blinding term");
                    __CPROVER_assert(g_sg_n >= 1 && GEJ_EQ(g_sg_a0, g_ag_r0) && GEJ_EQ(g_ag_last, g_ag_r0), "C08 generate: the stored generator is the affine form of M(t1) + M(t2)");
                }
            }
#endif
        }
        if (ret == 1 && blinded) REACH("generate blinded success");
        if (ret == 1 && !blinded) REACH("generate unblinded success");
        if (ret == 0 && blinded) REACH("generate blinded failure");
    } else {
        if (nullsel == 0) ret = secp256k1_generator_generate_blinded(&ctx, &gen, key, blind);        /* context not built */
        else if (nullsel == 1) ret = blinded ? secp256k1_generator_generate_blinded(&ctx, NULL, key, blind) : secp256k1_generator_generate(&ctx, NULL, key);
        else if (nullsel == 2) ret = blinded ? secp256k1_generator_generate_blinded(&ctx, &gen, NULL, blind) : secp256k1_generator_generate(&ctx, &gen, NULL);
        else { __CPROVER_assume(blinded); ret = secp256k1_generator_generate_blinded(&ctx, &gen, key, NULL); }
        __CPROVER_assert(ret == 0 && g_error == 0, "C08 generate: NULL argument or unbuilt context returns 0");
        if (nullsel != 0) __CPROVER_assert(g_illegal >= 1, "C08 generate: NULL argument reports illegal use");
        REACH("generate illegal use");
    }
}

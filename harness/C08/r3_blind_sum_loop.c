/* C08: secp256k1_pedersen_blind_sum for EVERY n (symbolic, <= LOOP_NMAX in the input model), loop contracts supplied from the
 * unit table (engine/units/C08_r3_loops.py); replaces the quantifier over the pointer list by ghost indices.
 *   - every index in bounds (the list has exactly n entries: index >= n is an out-of-bounds access), no undefined behaviour;
 *   - NULL output / list / entry at ANY position => illegal callback and 0; npositive > n => 0;
 *   - ANY blinds[k] >= group order (k arbitrary, not only the last) => 0;  both list objects < order => 1;
 *   - success => the WATCHED factor (arbitrary index k) entered the sum BY VALUE: an addition one of whose operands is
 *     b_k (k < npositive) resp. n - b_k mod n (k >= npositive); at least one addition per entry; output canonical.
 * The VALUE of the sum is C08.blind_sum_value (bounded).  Header: include/secp256k1_generator.h ("Returns 0: a blinding
 * factor is larger than the group order").  Nothing is asserted about blind_out on failure (not promised).
 * secp256k1_scalar_add is replaced by the range summary of the C05-proved leaf plus a value-keyed hit flag and a call
 * count; scalar_set_b32 / negate / get_b32 stay real.
 * List shape without a quantifier: every entry is &ba except two arbitrary positions j1, j2 holding NULL, &ba or &bb. */
#include "assumed.h"
size_t verif_c08_gi, verif_c08_j1, verif_c08_j2, verif_c08_add_n; secp256k1_scalar verif_c08_w; int verif_c08_hit, verif_c08_gi_ok;
static int secp256k1_scalar_add(secp256k1_scalar *r, const secp256k1_scalar *a, const secp256k1_scalar *b)
__CPROVER_requires(__CPROVER_w_ok(r, sizeof(*r)) && __CPROVER_r_ok(a, sizeof(*a)) && __CPROVER_r_ok(b, sizeof(*b)) && scalar_ok(a) && scalar_ok(b))
__CPROVER_assigns(*r, verif_c08_hit, verif_c08_add_n)
__CPROVER_ensures(scalar_ok(r) && (__CPROVER_return_value == 0 || __CPROVER_return_value == 1))
__CPROVER_ensures(verif_c08_hit == (__CPROVER_old(verif_c08_hit) || SC_EQ_OLD(verif_c08_w, *a) || SC_EQ_OLD(verif_c08_w, *b)))
__CPROVER_ensures(verif_c08_add_n == __CPROVER_old(verif_c08_add_n) + 1)
;
#include "src/secp256k1.c"
#include "post.h"
#ifndef LOOP_NMAX
#define LOOP_NMAX 100000   /* cap of the INPUT MODEL only; the loop proofs (base/step/decreases) do not depend on it */
#endif
void h_blind_sum_loop(void) {
    secp256k1_context ctx;
    INPUT_ARR(unsigned char, ba, 32); INPUT_ARR(unsigned char, bb, 32); INPUT_ARR(unsigned char, out, 32);
    INPUT(size_t, n); INPUT(size_t, npos); INPUT(size_t, gi); INPUT(size_t, j1); INPUT(size_t, j2); INPUT(unsigned char, sel1); INPUT(unsigned char, sel2);
    INPUT(_Bool, use_out); INPUT(_Bool, use_arr);
    const unsigned char **arr, **base; const unsigned char *at_gi = NULL; int ret, all_nonnull, ov = 0;
    verif_ctx_init(&ctx);
    __CPROVER_assume(n <= LOOP_NMAX);
    /* the list is the LAST n entries of a fixed-size heap array filled with &ba: the end of the list is the end of the object */
#ifdef LOOP_VAR   /* exact-size object of n entries */
    base = malloc(n ? n * sizeof(*base) : 1);
    __CPROVER_assume(base != NULL);
    { const unsigned char *fill = ba; __CPROVER_array_set(base, fill); }
    arr = base;
#else
    base = malloc(LOOP_NMAX * sizeof(*base));
    __CPROVER_assume(base != NULL);
    { const unsigned char *fill = ba; __CPROVER_array_set(base, fill); }
    arr = base + (LOOP_NMAX - n);
#endif
    if (j1 < n) arr[j1] = sel1 == 0 ? NULL : (sel1 == 1 ? ba : bb);
    if (j2 < n) arr[j2] = sel2 == 0 ? NULL : (sel2 == 1 ? ba : bb);
    if (gi < n) at_gi = arr[gi];
    all_nonnull = (j1 >= n || arr[j1] != NULL) && (j2 >= n || arr[j2] != NULL);
    verif_c08_gi = gi; verif_c08_j1 = j1; verif_c08_j2 = j2; verif_c08_hit = 0; verif_c08_add_n = 0; verif_c08_gi_ok = 0;
    secp256k1_scalar_set_int(&verif_c08_w, 0);
#ifndef VERIF_NATIVE
    if (at_gi != NULL) {
        /* the expected addend of the watched entry, anchored to the 320-bit spec: b resp. (n - b) mod n */
        wide b = be256(at_gi), nn = N_();
        secp256k1_scalar_set_b32(&verif_c08_w, at_gi, &ov);
        if (gi >= npos) secp256k1_scalar_negate(&verif_c08_w, &verif_c08_w);
        verif_c08_gi_ok = b < nn;
        if (b < nn) __CPROVER_assert(sval(&verif_c08_w) == (gi < npos ? b : (b == 0 ? 0 : nn - b)), "C08 blind_sum loop (harness self-check): watched addend is b_k resp. n - b_k");
    }
#endif

    ret = secp256k1_pedersen_blind_sum(&ctx, use_out ? out : NULL, use_arr ? arr : NULL, n, npos);

    __CPROVER_assert(ret == 0 || ret == 1, "C08 blind_sum loop: returns 0 or 1, for every n");
    __CPROVER_assert(g_error == 0 && g_illegal <= 1, "C08 blind_sum loop: no error callback, at most one illegal-argument report");
    if (!use_out || !use_arr) __CPROVER_assert(ret == 0 && g_illegal == 1, "C08 blind_sum loop: NULL output or NULL list is illegal and returns 0");
    else {
        if (gi < n && at_gi == NULL) __CPROVER_assert(ret == 0 && g_illegal == 1, "C08 blind_sum loop: a NULL entry at ANY index is illegal and returns 0");
        if (npos > n) __CPROVER_assert(ret == 0, "C08 blind_sum loop: npositive > n returns 0");
        if (all_nonnull && npos <= n) {
            __CPROVER_assert(g_illegal == 0, "C08 blind_sum loop: no callback for valid arguments, whatever the bytes");
#ifndef VERIF_NATIVE
            if (gi < n && be256(at_gi) >= N_()) __CPROVER_assert(ret == 0, "C08 blind_sum loop: a blinding factor >= group order at ANY index makes the call fail");
            if (be256(ba) < N_() && be256(bb) < N_()) __CPROVER_assert(ret == 1, "C08 blind_sum loop: succeeds when every blinding factor is below the group order");
#endif
        }
        if (ret == 1) {
            __CPROVER_assert(g_illegal == 0 && npos <= n, "C08 blind_sum loop: success means no report and npositive <= n");
            if (gi < n) __CPROVER_assert(verif_c08_hit, "C08 blind_sum loop: the factor at ANY index entered the sum by value, negated iff its index >= npositive");
            __CPROVER_assert(verif_c08_add_n >= n, "C08 blind_sum loop: at least one addition per list entry");
#ifndef VERIF_NATIVE
            __CPROVER_assert(be256(out) < N_(), "C08 blind_sum loop: the sum written is a canonical scalar, for every n");
#endif
        }
        if (ret == 1 && n > 150 && gi == 99 && npos == 50) REACH("blind_sum loop success on a long list, watched entry negative");
        if (ret == 1 && n > 150 && gi == 99 && npos == 100) REACH("blind_sum loop success on a long list, watched entry last positive");
        if (ret == 1 && n == 0) REACH("blind_sum loop empty list");
        if (ret == 0 && n > 100 && gi == 77 && j1 == 77 && at_gi == bb && all_nonnull && npos <= n) REACH("blind_sum loop overflow in the middle");
        if (n > 100 && gi == 78 && at_gi == NULL) REACH("blind_sum loop NULL entry in the middle");
    }
}

/* C08: secp256k1_pedersen_verify_tally on lists of at most TMAX positive and TMAX negative commitments
 * (BOUNDED stand-in: the lists are arrays of caller pointers, see C08/blind_sum.c).
 * PINNED to the present algorithm (said so in the unit note): with the group law an oracle, "positives minus
 * negatives" can only be stated as the order of oracle calls; an equivalent reorganisation (e.g. negating each
 * negative addend) needs this unit adapted.
 * Structure: the accumulator starts at infinity; every negative commitment is
 * added once, the sum is negated once, every positive commitment is added once; each addend is the point the
 * commitment object decodes to (x from bytes 1..32, square y from the lift-x oracle, negated iff the prefix
 * is odd); the result is 1 iff the final accumulator is infinity; empty lists give 1; NULL entry => illegal. */
#define EL_GHOST_INDEX
#define EL_SET_XQUAD
#define EL_SET_XQUAD_WATCH
#define EL_GEJ_ADD_GE_VAR
#define EL_GEJ_ADD_GE_VAR_LOG
#define EL_GEJ_ADD_GE_VAR_CHAIN
#include "assumed_elements.h"
#include "src/secp256k1.c"
#include "post.h"
#ifndef TMAX
#define TMAX 3
#endif
#ifndef VERIF_NATIVE
/* v mod p for v < 16 p (magnitudes up to 4 + 2), by conditional subtraction (a 320-bit '%' costs minutes) */
static wide modp16(wide v) { wide p = P_(); int i; for (i = 8; i >= 1; i >>= 1) if (v >= p * W(i)) v -= p * W(i); return v; }
#endif

void h_tally(void) {
    secp256k1_context ctx;
    INPUT(secp256k1_pedersen_commitment, c0); INPUT(secp256k1_pedersen_commitment, c1); INPUT(secp256k1_pedersen_commitment, c2);
    INPUT(secp256k1_pedersen_commitment, d0); INPUT(secp256k1_pedersen_commitment, d1); INPUT(secp256k1_pedersen_commitment, d2);
    INPUT(size_t, pcnt); INPUT(size_t, ncnt); INPUT(size_t, gi); INPUT(int, nullsel); INPUT(size_t, nullidx);
    const secp256k1_pedersen_commitment *pos[3], *neg[3], *w; int ret;
    __CPROVER_assume(pcnt <= TMAX && ncnt <= TMAX);
    pos[0] = &c0; pos[1] = &c1; pos[2] = &c2; neg[0] = &d0; neg[1] = &d1; neg[2] = &d2;
    verif_ctx_init(&ctx);
    g_el_i = gi; g_aj_n = 0; g_aj_seen = 0; g_xq_n = 0;
    if (nullsel == 0) {
        ret = secp256k1_pedersen_verify_tally(&ctx, pos, pcnt, neg, ncnt);
        __CPROVER_assert(ret == 0 || ret == 1, "C08 verify_tally: returns 0 or 1");
        __CPROVER_assert(g_illegal == 0 && g_error == 0, "C08 verify_tally: no callback for valid lists, whatever the commitment bytes");
        __CPROVER_assert(g_aj_n == pcnt + ncnt, "C08 verify_tally: every commitment of both lists is added exactly once");
        if (pcnt + ncnt == 0) __CPROVER_assert(ret == 1, "C08 verify_tally: empty lists balance");
        else __CPROVER_assert(ret == g_aj_last.infinity, "C08 verify_tally: the result is 1 iff the final sum is the point at infinity");
#ifndef VERIF_NATIVE
        if (gi < pcnt + ncnt) {
            wide p = P_(), y = modp16(fval(&g_xq_wr.y));
            unsigned char ser[33];
            w = gi < ncnt ? neg[gi] : pos[gi - ncnt];
            secp256k1_pedersen_commitment_serialize(&ctx, ser, w);     /* the commitment object is opaque: take its public 33-byte form */
            __CPROVER_assert(g_aj_seen && !g_aj_b.infinity && modp16(fval(&g_aj_b.x)) == modp16(be256(ser + 1)), "C08 verify_tally: addend k has the x coordinate of commitment k (negatives first, then positives)");
            __CPROVER_assert(modp16(fval(&g_aj_b.y)) == ((ser[0] & 1) ? (y == 0 ? 0 : p - y) : y), "C08 verify_tally: addend k has the square y of the lift-x oracle, negated iff the prefix is odd");
            if (gi == 0 && ncnt > 0) __CPROVER_assert(g_aj_a.infinity == 1, "C08 verify_tally: the sum starts at infinity");
            if (gi > 0 && gi != ncnt) __CPROVER_assert(GEJ_EQ(g_aj_a, g_aj_prev), "C08 verify_tally: each addition continues from the previous sum");
            if (gi == ncnt && ncnt > 0) __CPROVER_assert(g_aj_a.infinity == g_aj_prev.infinity && (g_aj_a.infinity || (FE_EQ(g_aj_a.x, g_aj_prev.x) && FE_EQ(g_aj_a.z, g_aj_prev.z) && modp16(fval(&g_aj_a.y) + fval(&g_aj_prev.y)) == 0)), "C08 verify_tally: the sum of the negatives is negated exactly once before the positives are added");
            if (gi == ncnt && ncnt == 0) __CPROVER_assert(g_aj_a.infinity == 1, "C08 verify_tally: without negatives the positives are added to infinity");
        }
#endif
        if (ret == 1 && pcnt == TMAX && ncnt == TMAX && gi == TMAX) REACH("tally full lists balance");
        if (ret == 0 && pcnt == 1 && ncnt == 0) REACH("tally single positive does not balance");
        if (pcnt + ncnt == 0) REACH("tally empty lists");
    } else {
        if (nullsel == 1) { __CPROVER_assume(pcnt > 0); ret = secp256k1_pedersen_verify_tally(&ctx, NULL, pcnt, neg, ncnt); }
        else if (nullsel == 2) { __CPROVER_assume(ncnt > 0); ret = secp256k1_pedersen_verify_tally(&ctx, pos, pcnt, NULL, ncnt); }
        else if (nullsel == 3) { __CPROVER_assume(nullidx < pcnt); pos[nullidx] = NULL; ret = secp256k1_pedersen_verify_tally(&ctx, pos, pcnt, neg, ncnt); }
        else { __CPROVER_assume(nullidx < ncnt); neg[nullidx] = NULL; ret = secp256k1_pedersen_verify_tally(&ctx, pos, pcnt, neg, ncnt); }
        __CPROVER_assert(ret == 0 && g_illegal >= 1 && g_error == 0, "C08 verify_tally: NULL list with a non-zero count or NULL entry (any index) reports illegal use and returns 0");
        REACH("tally NULL argument");
    }
}

/* C15: secp256k1_ecdsa_anti_exfil_signer_commit.  The nonce loop is closed by the loop contract of
 * the unit table (engine/units/C15.py, no /repo edit); its invariant says "attempt counter == number of RFC 6979 calls, and once a nonce
 * was accepted, k is a non-zero reduced scalar whose bytes are the most recent RFC 6979 output" (checked: base + step).
 * Replaced: nonce_function_rfc6979_impl (contract with the expected call shape as PRECONDITION; body: C01.rfc6979),
 * ecmult_gen / ge_set_gej (assumed, slot-0 logs).  Real: scalar_set_b32_seckey, opening_save, the loop.
 * Decided: every nonce derivation is RFC 6979 over the contents of (msg32, seckey32), no algo tag,
 * extra data = contents of rand_commitment32 (which hash context it runs on is not constrained), attempt counter 0,1,2,...) - exactly the call shape of secp256k1_ecdsa_s2c_sign
 * (unit C15.s2c_sign) when rand_commitment32 = host_commit(rand32) (unit C15.host_commit); the opening is
 * save(affine(k*G)) for the accepted nonce k; returns 1; NULL / unbuilt context => illegal callback. */
#define LOG_NONCE_FN
#define NONCE_FN_EXPECT
#define LOG_ECMULT_GEN
#define LOG_GE_SET_GEJ
#include "assumed_C15.h"
#include "src/secp256k1.c"
#include "post.h"

void h_signer_commit(void) {
    secp256k1_context ctx;
    INPUT_ARR(unsigned char, seckey, 32); INPUT_ARR(unsigned char, msg32, 32); INPUT_ARR(unsigned char, commit32, 32);
    INPUT(secp256k1_ecdsa_s2c_opening, op);
    INPUT(_Bool, use_key); INPUT(_Bool, use_msg); INPUT(_Bool, use_commit); INPUT(_Bool, use_op); INPUT(int, built); INPUT(size_t, k);
    secp256k1_ge lq; int ret, legal; wide n = N_(), kv;
    __CPROVER_assume(k < 32);
    verif_ctx_init(&ctx); ctx.ecmult_gen_ctx.built = built;
    verif_nonce_calls = 0; g_nk = k; g_gen_n = 0; g_sg_n = 0;
    g_nfx_msg32 = msg32; g_nfx_key32 = seckey; g_nfx_data = commit32;
    legal = built != 0 && use_key && use_msg && use_commit && use_op;

    ret = secp256k1_ecdsa_anti_exfil_signer_commit(&ctx, use_op ? &op : NULL, use_msg ? msg32 : NULL, use_key ? seckey : NULL, use_commit ? commit32 : NULL);

    __CPROVER_assert(g_error == 0, "C15 signer_commit: error callback never invoked");
    if (!legal) {
        __CPROVER_assert(ret == 0 && g_illegal >= 1, "C15 signer_commit: unbuilt context or NULL argument => illegal callback, ret 0");
    } else {
        /* "every nonce derivation is RFC 6979 over the contents of (msg32, seckey32, NULL, rand_commitment32) with the attempt number" is the
         * precondition of the nonce_function_rfc6979_impl contract: obligation nonce_function_rfc6979.precondition.* */
        __CPROVER_assert(ret == 1 && g_illegal == 0, "C15 signer_commit: returns 1 without callback");
        kv = sval(&g_gen_a0);
        __CPROVER_assert(g_gen_n >= 1 && kv != 0 && kv < n && (unsigned char)(kv >> (8 * (31 - k))) == g_nf_out_byte, "C15 signer_commit: the committed nonce k is the most recent RFC 6979 output, in [1, n)");
        __CPROVER_assert(g_sg_n >= 1 && FE_EQ(g_sg_a0.x, g_gen_r0.x) && FE_EQ(g_sg_a0.y, g_gen_r0.y) && FE_EQ(g_sg_a0.z, g_gen_r0.z) && g_sg_a0.infinity == g_gen_r0.infinity, "C15 signer_commit: the nonce point is the affine form of k*G");
        secp256k1_ge_from_bytes(&lq, op.data);   /* decode the opaque opening with the TU's own function */
        __CPROVER_assert(fval(&lq.x) == fmodp1(&g_sg_r0.x) && fval(&lq.y) == fmodp1(&g_sg_r0.y) && !lq.infinity, "C15 signer_commit: the opening decodes to the nonce point");
        if (verif_nonce_calls == 3) REACH("signer_commit accepted on third attempt");
        if (verif_nonce_calls == 1) REACH("signer_commit accepted on first attempt");
    }
    if (!legal) REACH("signer_commit illegal use");
}

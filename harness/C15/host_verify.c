/* C15 lemma: secp256k1_anti_exfil_host_verify = s2c_verify_commit AND ecdsa_verify, over the verdict-oracle
 * contracts of the two callees (their gates: units C15.verify_commit and C01.verify_api).  Pointers arbitrary
 * (NULL included: both callees handle NULL themselves). */
#define LOG_HOST_VERIFY_PARTS
#include "assumed_C15.h"
#include "src/secp256k1.c"
#include "post.h"

void h_host_verify(void) {
    secp256k1_context ctx;
    INPUT(secp256k1_ecdsa_signature, sig); INPUT(secp256k1_pubkey, pk); INPUT(secp256k1_ecdsa_s2c_opening, op);
    INPUT_ARR(unsigned char, msg32, 32); INPUT_ARR(unsigned char, host32, 32);
    INPUT(_Bool, use_sig); INPUT(_Bool, use_pk); INPUT(_Bool, use_op); INPUT(_Bool, use_msg); INPUT(_Bool, use_host);
    const secp256k1_ecdsa_signature *psig = use_sig ? &sig : NULL; const secp256k1_pubkey *ppk = use_pk ? &pk : NULL;
    const secp256k1_ecdsa_s2c_opening *pop = use_op ? &op : NULL; const unsigned char *pmsg = use_msg ? msg32 : NULL, *phost = use_host ? host32 : NULL;
    int ret;
    verif_ctx_init(&ctx); g_vc_n = 0; g_ev_n = 0;

    ret = secp256k1_anti_exfil_host_verify(&ctx, psig, pmsg, ppk, phost, pop);

    __CPROVER_assert(ret == 0 || ret == 1, "C15 host_verify: returns 0 or 1");
    __CPROVER_assert(g_vc_n == 1 && g_vc_ctx == &ctx && g_vc_sig == psig && g_vc_data == phost && g_vc_open == pop, "C15 host_verify: the commitment check runs once on (sig, host_data32, opening)");
    __CPROVER_assert(g_ev_n <= 1, "C15 host_verify: at most one ECDSA verification");
    if (g_ev_n == 1) __CPROVER_assert(g_ev_ctx == &ctx && g_ev_sig == psig && g_ev_msg == pmsg && g_ev_pk == ppk, "C15 host_verify: ECDSA verification runs on (sig, msg32, pubkey)");
    __CPROVER_assert(ret == (g_vc_v == 1 && g_ev_n == 1 && g_ev_v == 1), "C15 host_verify: accepts exactly when the commitment check and ECDSA verification both accept");
    if (g_vc_v == 1) __CPROVER_assert(g_ev_n == 1, "C15 host_verify: a passing commitment check is always followed by ECDSA verification");
    __CPROVER_assert(g_illegal == 0 && g_error == 0, "C15 host_verify: no callback of its own");
    if (ret == 1) REACH("host_verify accepts");
    if (ret == 0 && g_vc_v == 1) REACH("host_verify ECDSA rejects");
    if (ret == 0 && g_vc_v == 0) REACH("host_verify commitment rejects");
}

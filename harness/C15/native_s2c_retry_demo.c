/* NATIVE fault-injection demonstration for the C15 finding "sign-to-contract hash object is consumed by the
 * first attempt and reused by a retry" (not a proof unit; built by hand, see the command below).
 *
 * secp256k1_ecdsa_sign_inner hands the caller's tagged SHA-256 object (s2c_sha) to secp256k1_ec_commit_seckey
 * inside the retry loop; ec_commit_seckey finalizes it.  If the core signer then fails (r = 0 or s = 0 -
 * cryptographically unreachable, probability ~2^-255) the loop retries and hashes the commitment into the
 * already-finalized object, so the returned (signature, opening) pair does NOT satisfy
 * secp256k1_ecdsa_s2c_verify_commit although secp256k1_ecdsa_s2c_sign returned 1.
 * No real input reaches that path, so the core signer's failure is injected ONCE here; everything else is the
 * unmodified library source.
 *
 *   gcc -O1 -w -DECMULT_WINDOW_SIZE=15 -DCOMB_BLOCKS=43 -DCOMB_TEETH=6 -I/repo -I/repo/src -o /tmp/s2c_retry_demo \
 *       /verif/harness/C15/native_s2c_retry_demo.c /repo/src/precomputed_ecmult.c /repo/src/precomputed_ecmult_gen.c && /tmp/s2c_retry_demo
 * expected output on the unfixed tree:
 *   no injection : sign=1 verify_commit=1 ecdsa_verify=1
 *   one injected core-signer failure: sign=1 verify_commit=0 ecdsa_verify=1   <-- the defect */
#include <stdio.h>
#include <string.h>
#define ENABLE_MODULE_ECDSA_S2C 1
#define SECP256K1_BUILD
#include "include/secp256k1.h"
#include "include/secp256k1_preallocated.h"
#include "src/assumptions.h"
#include "src/checkmem.h"
#include "src/util.h"
#include "src/field_impl.h"
#include "src/scalar_impl.h"
#include "src/group_impl.h"
#include "src/ecmult_impl.h"
#include "src/ecmult_const_impl.h"
#include "src/ecmult_gen_impl.h"
#define secp256k1_ecdsa_sig_sign secp256k1_ecdsa_sig_sign_real
#include "src/ecdsa_impl.h"
#undef secp256k1_ecdsa_sig_sign
static int inject_failures = 0;
static int secp256k1_ecdsa_sig_sign(const secp256k1_ecmult_gen_context *ctx, secp256k1_scalar *sigr, secp256k1_scalar *sigs, const secp256k1_scalar *seckey, const secp256k1_scalar *message, const secp256k1_scalar *nonce, int *recid) {
    if (inject_failures > 0) { inject_failures--; secp256k1_scalar_set_int(sigr, 0); secp256k1_scalar_set_int(sigs, 0); if (recid) *recid = 0; return 0; }
    return secp256k1_ecdsa_sig_sign_real(ctx, sigr, sigs, seckey, message, nonce, recid);
}
#include "src/secp256k1.c"

int main(void) {
    secp256k1_context *ctx = secp256k1_context_create(SECP256K1_CONTEXT_NONE);
    unsigned char key[32], msg[32], data[32];
    secp256k1_ecdsa_signature sig; secp256k1_ecdsa_s2c_opening op; secp256k1_pubkey pk;
    int i, r1, r2, r3, bad = 0;
    for (i = 0; i < 32; i++) { key[i] = (unsigned char)(i + 1); msg[i] = (unsigned char)(0xa0 + i); data[i] = (unsigned char)(0x55 ^ i); }
    if (!secp256k1_ec_pubkey_create(ctx, &pk, key)) return 2;
    for (i = 0; i < 2; i++) {
        inject_failures = i;
        r1 = secp256k1_ecdsa_s2c_sign(ctx, &sig, &op, msg, key, data);
        r2 = secp256k1_ecdsa_s2c_verify_commit(ctx, &sig, data, &op);
        r3 = secp256k1_ecdsa_verify(ctx, &sig, msg, &pk);
        printf("%s: sign=%d verify_commit=%d ecdsa_verify=%d\n", i ? "one injected core-signer failure" : "no injection", r1, r2, r3);
        if (r1 == 1 && r2 != 1) bad = 1;
    }
    secp256k1_context_destroy(ctx);
    return bad;
}

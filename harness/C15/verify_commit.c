/* C15: secp256k1_ecdsa_s2c_verify_commit (API gate).  secp256k1_ec_commit is an oracle with ghost log (its hash
 * wiring / tweak gate: units C15.ec_commit_tweak, C15.ec_commit); pubkey_load, the field->scalar conversion
 * (fe_normalize, fe_get_b32, scalar_set_b32) and scalar_eq are the real code.
 * Decided: NULL => one illegal callback; invalid opening (zero x) => 0 (illegal callback of pubkey_load);
 * ec_commit is asked for (loaded opening point, "s2c/ecdsa/point" tagged hash, data32, 32) with the
 * context's hash context; its failure => 0; otherwise ret = (sig.r == x(commitment) mod n). */
#define LOG_EC_COMMIT
#include "assumed_C15.h"
#include "src/secp256k1.c"
#include "post.h"

void h_verify_commit(void) {
    secp256k1_context ctx;
    INPUT(secp256k1_ecdsa_signature, sig); INPUT(secp256k1_ecdsa_s2c_opening, op); INPUT_ARR(unsigned char, data32, 32);
    INPUT(_Bool, use_sig); INPUT(_Bool, use_op); INPUT(_Bool, use_data);
    int ret; wide n = N_(), rv, sv, ox, oy, X;
    rv = le256(&sig.data[0]); sv = le256(&sig.data[32]);
    __CPROVER_assume(rv < n && sv < n);   /* representation invariant of a signature object */
    ox = le256(&op.data[0]); oy = le256(&op.data[32]);
    verif_ctx_init(&ctx); g_ec_n = 0;

    ret = secp256k1_ecdsa_s2c_verify_commit(&ctx, use_sig ? &sig : NULL, use_data ? data32 : NULL, use_op ? &op : NULL);

    __CPROVER_assert(ret == 0 || ret == 1, "C15 verify_commit: returns 0 or 1");
    __CPROVER_assert(g_error == 0 && g_ec_n <= 1, "C15 verify_commit: no error callback, at most one commitment computation");
    if (!use_sig || !use_op || !use_data) __CPROVER_assert(ret == 0 && g_illegal == 1 && g_ec_n == 0, "C15 verify_commit: NULL argument => one illegal callback, ret 0");
    else if (ox == 0) __CPROVER_assert(ret == 0 && g_illegal == 1 && g_ec_n == 0, "C15 verify_commit: invalid opening (zero x) => ret 0");
    else {
        __CPROVER_assert(g_illegal == 0 && g_ec_n == 1, "C15 verify_commit: valid arguments => one commitment computation, no callback");
        __CPROVER_assert(fval(&g_ec_p0.x) == ox && fval(&g_ec_p0.y) == oy && g_ec_p0.infinity == 0, "C15 verify_commit: the committed point is exactly the loaded opening");
        __CPROVER_assert(g_ec_s0 == 0xa9b21c7bul && g_ec_s7 == 0x8a5bf91cul && g_ec_bytes == 64, "C15 verify_commit: hash object is the s2c/ecdsa/point midstate with 64 bytes absorbed");
        __CPROVER_assert(g_ec_data == data32 && g_ec_size == 32 && g_ec_hctx == &ctx.hash_ctx, "C15 verify_commit: commits to data32[0..32) with the context's hash context");
        if (g_ec_v0 == 0) { __CPROVER_assert(ret == 0, "C15 verify_commit: commitment failure => 0"); REACH("verify_commit commitment failure"); }
        else {
            X = fmodp1(&g_ec_c0.x);   /* a successful ec_commit returns the output of ge_set_gej: magnitude 1 (asserted in C15.ec_commit) */
            __CPROVER_assert(ret == (rv == (X >= n ? X - n : X)), "C15 verify_commit: ret = (sig.r == x(commitment) mod n)");
            if (ret == 1 && X >= n) REACH("verify_commit accepts with x >= n");
            if (ret == 1 && X < n) REACH("verify_commit accepts");
            if (ret == 0) REACH("verify_commit r mismatch");
        }
    }
    if (use_sig && use_op && use_data && ox == 0) REACH("verify_commit invalid opening");
}

/* C15: secp256k1_ecdsa_anti_exfil_host_commit - the host's commitment is the "s2c/ecdsa/data" tagged hash of
 * rand32 (the same hash s2c_sign applies to its datum: unit C15.s2c_sign).  SHA object functions replaced by the
 * stream contracts of hash_log.h. */
#include "assumed_C01.h"
#include "hash_log.h"
#include "src/secp256k1.c"
#include "post.h"

void h_host_commit(void) {
    secp256k1_context ctx;
    INPUT_ARR(unsigned char, rand32, 32); INPUT_ARR(unsigned char, c0, 32); INPUT(_Bool, use_rand); INPUT(_Bool, use_out); INPUT(uint64_t, wpos); INPUT(size_t, k);
    unsigned char out[32]; int ret;
    __CPROVER_assume(k < 32); memcpy(out, c0, 32);
    verif_ctx_init(&ctx); ctx.hash_ctx.fn_sha256_compression = secp256k1_sha256_transform;
    HASHLOG_RESET(); g_we = 0; g_wpos = wpos;

    ret = secp256k1_ecdsa_anti_exfil_host_commit(&ctx, use_out ? out : NULL, use_rand ? rand32 : NULL);

    __CPROVER_assert(g_error == 0, "C15 host_commit: error callback never invoked");
    if (!use_out || !use_rand) __CPROVER_assert(ret == 0 && g_illegal == 1 && g_fin_n == 0 && out[k] == c0[k], "C15 host_commit: NULL argument => one illegal callback, ret 0, nothing written");
    else {
        __CPROVER_assert(ret == 1 && g_illegal == 0 && g_fin_n == 1, "C15 host_commit: returns 1 after exactly one hash computation");
        __CPROVER_assert(g_w_started && g_w_s0 == 0xfeefd675ul && g_w_s7 == 0x421fc55ful && g_w_b0 == 64, "C15 host_commit: starts from the s2c/ecdsa/data midstate with 64 bytes absorbed");
        __CPROVER_assert(g_w_fin && g_w_end == 96, "C15 host_commit: hashes exactly 32 further bytes");
        if (wpos >= 64 && wpos < 96) __CPROVER_assert(g_w_hit && g_w_byte == rand32[wpos - 64], "C15 host_commit: the 32 bytes are rand32");
        __CPROVER_assert(out[k] == g_w_dig[k], "C15 host_commit: the commitment is the digest");
        if (wpos == 95) REACH("host_commit ok");
    }
    if (!use_rand) REACH("host_commit NULL rand");
}

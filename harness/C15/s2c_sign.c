/* C15: secp256k1_ecdsa_s2c_sign, real sign_inner underneath (retry loop closed by the loop contract of
 * the unit table (engine/units/C01_more.py, no /repo edit); partial correctness).  Every pointer NULL or an object; opening optional.
 * Replaced: SHA object functions (hash_log.h stream contracts), nonce_function_rfc6979_impl (C01.rfc6979),
 * ecmult_gen / ge_set_gej (assumed, LAST-CALL logs), ec_commit_seckey (C15.ec_commit_seckey), sig_sign (C01.sig_sign).
 * Decided (wiring): ndata = "s2c/ecdsa/data"-tagged hash of s2c_data32 and is the extra data of every RFC 6979 call
 * (msg32, seckey, no algo tag, attempt counter, context's hash context); on success the opening is save(k*G) for the
 * nonce k just derived, the signing nonce is ec_commit_seckey(k, k*G, "s2c/ecdsa/point" hash, s2c_data32, 32), the core
 * signer gets (key, msg mod n, that tweaked nonce) and the signature object holds its (r, s); every failure => zero
 * signature object. */
#define LOG_SIG_SIGN
#define LOG_NONCE_FN
#define LOG_EC_COMMIT_SECKEY
#define LOG_ECMULT_GEN_LAST
#define LOG_GE_SET_GEJ_LAST
#include "assumed_C15.h"
#include "hash_log.h"
#include "src/secp256k1.c"
#include "post.h"

void h_s2c_sign(void) {
    secp256k1_context ctx;
    INPUT_ARR(unsigned char, seckey, 32); INPUT_ARR(unsigned char, msg32, 32); INPUT_ARR(unsigned char, data32, 32);
    INPUT(secp256k1_ecdsa_signature, sig); INPUT(secp256k1_ecdsa_s2c_opening, op);
    INPUT(_Bool, use_key); INPUT(_Bool, use_msg); INPUT(_Bool, use_sig); INPUT(_Bool, use_data); INPUT(_Bool, use_op); INPUT(int, built); INPUT(size_t, k); INPUT(uint64_t, wpos);
    secp256k1_scalar lr, ls;
    int ret, legal, key_valid; wide n = N_(), kv, mv, nonv;
    __CPROVER_assume(k < 32);
    verif_ctx_init(&ctx); ctx.ecmult_gen_ctx.built = built; ctx.hash_ctx.fn_sha256_compression = secp256k1_sha256_transform;
    verif_nonce_calls = 0; g_nk = k; g_cs_used = 0; HASHLOG_RESET(); g_we = 0; g_wpos = wpos;
    kv = be256(seckey); mv = be256(msg32); key_valid = (kv != 0 && kv < n);
    legal = built != 0 && use_key && use_msg && use_sig && use_data;

    /* without an opening the call goes through secp256k1_anti_exfil_sign (= s2c_sign with opening NULL) */
    if (use_op) ret = secp256k1_ecdsa_s2c_sign(&ctx, use_sig ? &sig : NULL, &op, use_msg ? msg32 : NULL, use_key ? seckey : NULL, use_data ? data32 : NULL);
    else ret = secp256k1_anti_exfil_sign(&ctx, use_sig ? &sig : NULL, use_msg ? msg32 : NULL, use_key ? seckey : NULL, use_data ? data32 : NULL);

    __CPROVER_assert(ret == 0 || ret == 1, "C15 s2c_sign: returns 0 or 1");
    __CPROVER_assert(g_error == 0, "C15 s2c_sign: error callback never invoked");
    if (!legal) {
        __CPROVER_assert(ret == 0 && g_illegal >= 1, "C15 s2c_sign: unbuilt context or NULL argument => illegal callback, ret 0");
    } else {
        __CPROVER_assert(g_illegal == 0, "C15 s2c_sign: no callback on legal arguments");
        /* ndata = H_data-tag(s2c_data32) */
        __CPROVER_assert(g_fin_n == 1 && g_w_started && g_w_s0 == 0xfeefd675ul && g_w_s7 == 0x421fc55ful && g_w_b0 == 64 && g_w_fin && g_w_end == 96, "C15 s2c_sign: one hash from the s2c/ecdsa/data midstate over exactly 32 bytes");
        if (wpos >= 64 && wpos < 96) __CPROVER_assert(g_w_hit && g_w_byte == data32[wpos - 64], "C15 s2c_sign: the hashed bytes are s2c_data32");
        /* every nonce derivation */
        __CPROVER_assert(g_nf_hctx != NULL && g_nf_msg_byte == msg32[k] && g_nf_key_byte == seckey[k] && g_nf_algo16 == NULL && g_nf_counter == verif_nonce_calls - 1, "C15 s2c_sign: built-in RFC 6979 called with the contents of (msg32, seckey), no algo tag, attempt number");
        __CPROVER_assert(g_nf_data != NULL && g_nf_data_byte == g_w_dig[k], "C15 s2c_sign: the RFC 6979 extra data is the tagged hash of s2c_data32");
        if (!key_valid) __CPROVER_assert(ret == 0, "C15 s2c_sign: key 0 or >= n => ret 0");
        secp256k1_ecdsa_signature_load(&ctx, &lr, &ls, &sig);
        if (ret == 0) __CPROVER_assert(sval(&lr) == 0 && sval(&ls) == 0, "C15 s2c_sign: failure => all-zero signature (r = s = 0), as for secp256k1_ecdsa_sign");
        if (ret == 1) {
            nonv = sval(&g_genl_a);
            __CPROVER_assert(nonv != 0 && nonv < n && (unsigned char)(nonv >> (8 * (31 - k))) == g_nf_out_byte, "C15 s2c_sign: the original nonce k is the RFC 6979 output, in [1, n)");
            __CPROVER_assert(FE_EQ(g_sgl_a.x, g_genl_r.x) && FE_EQ(g_sgl_a.y, g_genl_r.y) && FE_EQ(g_sgl_a.z, g_genl_r.z) && g_sgl_a.infinity == g_genl_r.infinity, "C15 s2c_sign: the original nonce point is the affine form of k*G");
            if (use_op) {   /* stated with the real save function on the logged point (its byte-level spec: C03/C05 units); same circuit twice = cheap for the solver */
                secp256k1_ge pt = g_sgl_r; secp256k1_ecdsa_s2c_opening expect;
                secp256k1_ecdsa_s2c_opening_save(&expect, &pt);
                __CPROVER_assert(op.data[k] == expect.data[k] && op.data[k + 32] == expect.data[k + 32], "C15 s2c_sign: opening = save(original nonce point)");
            }
            __CPROVER_assert(g_cs_ret == 1 && SC_EQ(g_cs_in, g_genl_a) && FE_EQ(g_cs_p.x, g_sgl_r.x) && FE_EQ(g_cs_p.y, g_sgl_r.y) && g_cs_p.infinity == g_sgl_r.infinity, "C15 s2c_sign: the nonce is tweaked by ec_commit_seckey(k, original nonce point, ...)");
            __CPROVER_assert(g_cs_data == data32 && g_cs_size == 32, "C15 s2c_sign: the commitment is to s2c_data32[0..32)");
            /* the commitment hash must start from the "s2c/ecdsa/point" midstate.  FIRST commitment attempt of the call (covers attempt counter 0
             * and every run in which no core-signer failure preceded): proved, never suppressed. */
            if (g_cs_first) __CPROVER_assert(g_cs_s0 == 0xa9b21c7bul && g_cs_s7 == 0x8a5bf91cul && g_cs_bytes == 64, "C15 s2c_sign: the first commitment attempt hashes from the s2c/ecdsa/point midstate (64 bytes absorbed)");
            /* a LATER commitment attempt (attempt counter > 0, after a core-signer failure r = 0 or s = 0 - cryptographically unreachable): finding F3,
             * fails on the unfixed tree because the caller's hash object was finalized by the earlier attempt.  Native fault-injection reproducer:
             * harness/C15/native_s2c_retry_demo.c; repair: hooks/C15_FIX_s2c_sha_per_attempt.diff. */
            if (!g_cs_first) __CPROVER_assert(g_cs_s0 == 0xa9b21c7bul && g_cs_s7 == 0x8a5bf91cul && g_cs_bytes == 64, "C15 s2c_sign.retry(counter>0): a commitment attempt after an earlier one hashes from the s2c/ecdsa/point midstate (64 bytes absorbed)");
            __CPROVER_assert(g_ss_ret == 1 && SC_EQ(g_ss_non, g_cs_out), "C15 s2c_sign: the tweaked nonce is the one handed to the core signer");
            __CPROVER_assert(key_valid && sval(&g_ss_sec) == kv && sval(&g_ss_msg) == (mv >= n ? mv - n : mv), "C15 s2c_sign: core signer gets (key, be256(msg32) mod n)");
            __CPROVER_assert(SC_EQ(lr, g_ss_r) && SC_EQ(ls, g_ss_s), "C15 s2c_sign: signature object holds (r, s) of the core signer");
        }
    }
    if (ret == 1 && use_op && mv >= n && verif_nonce_calls == 2 && g_cs_first) REACH("s2c_sign success on second attempt, first commitment, msg >= n, with opening");
    if (ret == 1 && verif_nonce_calls == 1) REACH("s2c_sign success on attempt 0");
    if (ret == 0 && legal && key_valid && g_cs_ret == 0) REACH("s2c_sign tweak failure");
    if (ret == 1 && !use_op) REACH("anti_exfil_sign success");
    if (!legal) REACH("s2c_sign illegal use");
}

/* C15: the commitment tweak hash and the two tweak applications (src/eccommit_impl.h), real code, with the
 * SHA-256 object functions replaced by the stream contracts of hash_log.h (ghost write log).
 *  UNIT_TWEAK   secp256k1_ec_commit_tweak : infinity => 0 and nothing hashed; otherwise the caller's hash object
 *               absorbs exactly ser33(point) || data[0..data_size) (every data_size) and tweak32 is its digest.
 *  UNIT_SECKEY  secp256k1_ec_commit_seckey: same hash; result = (seckey + be256(digest)) mod n; fails iff the point
 *               is infinity, digest >= n, or the sum is 0.  All scalar code real.
 *  UNIT_POINT   secp256k1_ec_commit       : same hash over a copy of the point; digest >= n => 0; otherwise
 *               ecmult(point, 1, be256(digest)) is requested (oracle), infinity => 0, commitment = its affine form. */
#ifdef UNIT_POINT
#define LOG_ECMULT
#define LOG_GE_SET_GEJ
#endif
#include "assumed_C01.h"
#include "hash_log.h"
#include "src/secp256k1.c"
#include "post.h"

/* hash-side postcondition shared by the three units: the watched epoch-0 stream.  X_, Y_ = affine coordinates of the point as integers:
 * UNIT_TWEAK computes them with the declarative spec (value mod p); the two callers of ec_commit_tweak (UNIT_SECKEY, UNIT_POINT) re-use
 * the real fe_normalize on a copy (its spec: C05.fe_normalize), which keeps their solver time low. */
#ifdef UNIT_TWEAK
#define COORDS(P) wide X_ = fmodp(&(P).x), Y_ = fmodp(&(P).y)
#else
#define COORDS(P) secp256k1_fe ex_ = (P).x, ey_ = (P).y; wide X_, Y_; secp256k1_fe_normalize(&ex_); secp256k1_fe_normalize(&ey_); X_ = fval(&ex_); Y_ = fval(&ey_)
#endif
#define HASH_POST(tag, P, hs0, hs7, hb0, data, dlen) do { \
    COORDS(P); \
    __CPROVER_assert(g_fin_n == 1 && g_w_fin, tag ": exactly one digest is taken"); \
    __CPROVER_assert(g_w_started && g_w_s0 == (hs0) && g_w_s7 == (hs7) && g_w_b0 == (hb0), tag ": the hash continues the caller's (tagged) hash object"); \
    __CPROVER_assert(g_w_end == (hb0) + 33 + (uint64_t)(dlen), tag ": hashed length is 33 + data_size beyond the caller's prefix"); \
    if (g_wpos >= (hb0) && g_wpos < (hb0) + 33 + (uint64_t)(dlen)) { \
        __CPROVER_assert(g_w_hit, tag ": every stream position is written"); \
        if (g_wpos == (hb0)) __CPROVER_assert(g_w_byte == ((Y_ & 1) ? 0x03 : 0x02), tag ": first byte is the parity tag of the point"); \
        else if (g_wpos < (hb0) + 33) __CPROVER_assert(g_w_byte == (unsigned char)(X_ >> (8 * (32 - (g_wpos - (hb0))))), tag ": bytes 1..32 are the point's x coordinate, big endian"); \
        else __CPROVER_assert(g_w_byte == (data)[g_wpos - (hb0) - 33], tag ": then the whole data"); \
    } } while (0)

#define COMMON \
    INPUT(secp256k1_ge, P); INPUT(secp256k1_sha256, sha); INPUT(size_t, dlen); INPUT(uint64_t, wpos); \
    unsigned char *data; secp256k1_hash_ctx hc; secp256k1_ge P0; uint32_t hs0, hs7; uint64_t hb0; int ret; wide n = N_(), d; \
    __CPROVER_assume(ge_ok(&P)); \
    __CPROVER_assume(dlen <= 100000 && sha.bytes <= ((uint64_t)1 << 60)); \
    INPUT_BUF(dataw, data, dlen, 64); \
    hc.fn_sha256_compression = secp256k1_sha256_transform; \
    HASHLOG_RESET(); g_we = 0; g_wpos = wpos; P0 = P; hs0 = sha.s[0]; hs7 = sha.s[7]; hb0 = sha.bytes

#if defined(UNIT_TWEAK)
void h_ec_commit_tweak(void) {
    COMMON; INPUT_ARR(unsigned char, tw0, 32); INPUT(size_t, k); unsigned char tweak[32];
    __CPROVER_assume(k < 32); memcpy(tweak, tw0, 32);
    ret = secp256k1_ec_commit_tweak(&hc, tweak, &P, &sha, data, dlen);
    WITNESS_BUF(dataw, data, dlen, 64);
    __CPROVER_assert(ret == !P0.infinity, "C15 ec_commit_tweak: fails iff the point is infinity");
    if (ret == 0) __CPROVER_assert(g_fin_n == 0 && !g_w_started && tweak[k] == tw0[k], "C15 ec_commit_tweak: infinity => nothing hashed, no tweak written");
    if (ret == 1) {
        HASH_POST("C15 ec_commit_tweak", P0, hs0, hs7, hb0, data, dlen);
        __CPROVER_assert(tweak[k] == g_w_dig[k], "C15 ec_commit_tweak: tweak32 is the digest");
        if (dlen > 70000 && wpos == hb0 + 33 + 69999) REACH("ec_commit_tweak long data position");
        if (dlen == 0) REACH("ec_commit_tweak empty data");
    }
    if (ret == 0) REACH("ec_commit_tweak infinity");
}
#elif defined(UNIT_SECKEY)
void h_ec_commit_seckey(void) {
    COMMON; INPUT(secp256k1_scalar, sec); wide s0, sum;
    __CPROVER_assume(scalar_ok(&sec)); s0 = sval(&sec);
    ret = secp256k1_ec_commit_seckey(&hc, &sec, &P, &sha, data, dlen);
    WITNESS_BUF(dataw, data, dlen, 64);
    __CPROVER_assert(ret == 0 || ret == 1, "C15 ec_commit_seckey: returns 0 or 1");
    __CPROVER_assert(sval(&sec) < n, "C15 ec_commit_seckey: key stays a reduced scalar");
    if (P0.infinity) __CPROVER_assert(ret == 0 && g_fin_n == 0 && sval(&sec) == s0, "C15 ec_commit_seckey: infinity => 0, nothing hashed, key unchanged");
    else {
        HASH_POST("C15 ec_commit_seckey", P0, hs0, hs7, hb0, data, dlen);
        d = be256(g_w_dig); sum = s0 + (d >= n ? d - n : d); if (sum >= n) sum -= n;
        __CPROVER_assert(ret == (d < n && sum != 0), "C15 ec_commit_seckey: fails iff the tweak is >= n or the tweaked key is 0");
        if (ret == 1) __CPROVER_assert(sval(&sec) == sum, "C15 ec_commit_seckey: key' = key + be256(digest) mod n");
        if (ret == 1 && dlen == 32) REACH("ec_commit_seckey success 32-byte data");
        if (ret == 0 && d >= n) REACH("ec_commit_seckey tweak >= n");
        if (ret == 0 && d < n) REACH("ec_commit_seckey zero result");
    }
}
#elif defined(UNIT_POINT)
void h_ec_commit(void) {
    COMMON; INPUT(secp256k1_ge, C0); secp256k1_ge C = C0;
    g_ecmult_n = 0; g_sg_n = 0;
    ret = secp256k1_ec_commit(&hc, &C, &P, &sha, data, dlen);
    WITNESS_BUF(dataw, data, dlen, 64);
    __CPROVER_assert(ret == 0 || ret == 1, "C15 ec_commit: returns 0 or 1");
    __CPROVER_assert(FE_EQ(P.x, P0.x) && FE_EQ(P.y, P0.y) && P.infinity == P0.infinity, "C15 ec_commit: the input point is not modified");
    if (P0.infinity) __CPROVER_assert(ret == 0, "C15 ec_commit: infinity => 0");
    d = be256(g_w_dig);
    /* oracle / hash usage is demanded on the ACCEPTING path only; a rejection must have one of the three reasons */
    if (ret == 1) {
        __CPROVER_assert(!P0.infinity, "C15 ec_commit: succeeds only for a finite point");
        HASH_POST("C15 ec_commit", P0, hs0, hs7, hb0, data, dlen);
        __CPROVER_assert(d < n, "C15 ec_commit: succeeds only with a tweak < n");
        __CPROVER_assert(g_ecmult_n >= 1 && g_ecmult_has_na0 && sval(&g_ecmult_na0) == 1 && (g_ecmult_has_ng0 ? sval(&g_ecmult_ng0) == d : d == 0), "C15 ec_commit: requests 1*P + be256(digest)*G");
        { secp256k1_fe nx = P0.x, ny = P0.y; secp256k1_fe_normalize(&nx); secp256k1_fe_normalize(&ny);   /* the code normalizes its copy of the point */
          __CPROVER_assert(FE_EQ(g_ecmult_a0.x, nx) && FE_EQ(g_ecmult_a0.y, ny) && !g_ecmult_a0.infinity && fval(&g_ecmult_a0.z) == 1, "C15 ec_commit: the point tweaked is the input point"); }
        __CPROVER_assert(!g_ecmult_r0.infinity, "C15 ec_commit: succeeds only if the tweaked point is finite");
        __CPROVER_assert(g_sg_n >= 1 && FE_EQ(g_sg_a0.x, g_ecmult_r0.x) && FE_EQ(g_sg_a0.y, g_ecmult_r0.y) && FE_EQ(g_sg_a0.z, g_ecmult_r0.z) && GE_EQ(g_sg_r0, &C), "C15 ec_commit: commitment is the affine form of the tweaked point");
        __CPROVER_assert(ge_ok1(&C) && !C.infinity, "C15 ec_commit: a successful commitment is a finite point with magnitude-1 coordinates");
        REACH("ec_commit success");
    }
    if (ret == 0) __CPROVER_assert(P0.infinity || (g_fin_n >= 1 && d >= n) || (g_ecmult_n >= 1 && g_ecmult_r0.infinity), "C15 ec_commit: fails only for an infinite point, a tweak >= n, or an infinite tweaked point");
    if (!P0.infinity && g_fin_n >= 1 && d >= n) __CPROVER_assert(ret == 0, "C15 ec_commit: tweak >= n => 0");
    if (g_ecmult_n >= 1 && g_ecmult_r0.infinity) __CPROVER_assert(ret == 0, "C15 ec_commit: infinite tweaked point => 0");
    if (ret == 0 && g_ecmult_n >= 1) REACH("ec_commit tweaked point infinity");
    if (ret == 0 && !P0.infinity && g_fin_n >= 1 && d >= n) REACH("ec_commit tweak >= n");
    if (P0.infinity) REACH("ec_commit infinite point");
}
#endif

/* C15: secp256k1_anti_exfil_host_verify accepts exactly when the commitment check accepts AND ordinary ECDSA
 * verification accepts - stated SEMANTICALLY: the ECDSA half is spelled out as "s is low, the public key object
 * is valid, and the core verifier's verdict on the loaded (r, s, Q, msg mod n) is 1", with secp256k1_ecdsa_verify
 * running as REAL code.  So the obligation does not depend on HOW host_verify performs the ECDSA check (calling
 * secp256k1_ecdsa_verify or an inlined copy): a copy that omits the high-S rejection fails, a faithful copy passes.
 * Oracles: s2c_verify_commit (verdict log; gates in C15.verify_commit), ecdsa_sig_verify (verdict + argument
 * log; gates in C01.sig_verify). */
#define LOG_HOST_VERIFY_PARTS
#define LOG_SIG_VERIFY
#include "assumed_C15.h"
#include "src/secp256k1.c"
#include "post.h"

void h_host_verify_sem(void) {
    secp256k1_context ctx;
    INPUT(secp256k1_ecdsa_signature, sig); INPUT(secp256k1_pubkey, pk); INPUT(secp256k1_ecdsa_s2c_opening, op);
    INPUT_ARR(unsigned char, msg32, 32); INPUT_ARR(unsigned char, host32, 32);
    int ret; wide n = N_(), half = (N_() - 1) >> 1, rv, sv, mv, qx, qy;
    rv = le256(&sig.data[0]); sv = le256(&sig.data[32]);
    __CPROVER_assume(rv < n && sv < n);   /* representation invariant of a signature object */
    qx = le256(&pk.data[0]); qy = le256(&pk.data[32]); mv = be256(msg32);
    verif_ctx_init(&ctx); g_vc_n = 0; g_sv_n = 0;

    ret = secp256k1_anti_exfil_host_verify(&ctx, &sig, msg32, &pk, host32, &op);

    __CPROVER_assert(ret == 0 || ret == 1, "C15 host_verify.sem: returns 0 or 1");
    /* usage of the two oracles is only demanded on the accepting path: the order in which the two checks run, and
     * whether the second runs after the first failed, is not part of the property */
    if (ret == 1) {
        __CPROVER_assert(g_vc_n >= 1 && g_vc_sig == &sig && g_vc_data == host32 && g_vc_open == &op && g_vc_v == 1, "C15 host_verify.sem: accepts only if the commitment check ran on (sig, host_data32, opening) and accepted");
        __CPROVER_assert(sv <= half, "C15 host_verify.sem: accepts only low-S signatures (what ordinary ECDSA verification accepts)");
        __CPROVER_assert(qx != 0 && g_sv_n == 1 && g_sv_v0 == 1, "C15 host_verify.sem: accepts only on a positive core ECDSA verdict");
    }
    if (g_sv_n >= 1) {
        __CPROVER_assert(sval(&g_sv_r0) == rv && sval(&g_sv_s0) == sv, "C15 host_verify.sem: the core verifier sees exactly the signature's (r, s)");
        __CPROVER_assert(sval(&g_sv_m0) == (mv >= n ? mv - n : mv), "C15 host_verify.sem: the core verifier sees msg32 mod n");
        __CPROVER_assert(fval(&g_sv_q0.x) == qx && fval(&g_sv_q0.y) == qy && g_sv_q0.infinity == 0, "C15 host_verify.sem: the core verifier sees exactly the public key");
    }
    if (g_vc_n >= 1 && g_vc_v == 1 && g_sv_n >= 1 && g_sv_v0 == 1 && sv <= half && qx != 0) __CPROVER_assert(ret == 1, "C15 host_verify.sem: accepts whenever the commitment check and ordinary ECDSA verification both accept");
    if (ret == 0) __CPROVER_assert((g_vc_n >= 1 && g_vc_v == 0) || sv > half || qx == 0 || (g_sv_n >= 1 && g_sv_v0 == 0), "C15 host_verify.sem: rejects only because the commitment check or ordinary ECDSA verification rejects");
    if (ret == 1) REACH("host_verify.sem accepts");
    if (ret == 0 && g_vc_v == 1 && sv > half) REACH("host_verify.sem rejects high S");
    if (ret == 0 && g_vc_v == 0) REACH("host_verify.sem commitment rejects");
}

/* C15: the opening codec IS the compressed public-key codec (C03): secp256k1_ecdsa_s2c_opening_parse / _serialize
 * forward to secp256k1_ec_pubkey_parse(.., 33) / secp256k1_ec_pubkey_serialize(.., 33, COMPRESSED) on the same
 * 64-byte object and return their result; NULL => one illegal callback and nothing forwarded. */
#define LOG_PUBKEY_CODEC
#include "assumed_C15.h"
#include "src/secp256k1.c"
#include "post.h"

void h_opening_codec(void) {
    secp256k1_context ctx;
    INPUT(secp256k1_ecdsa_s2c_opening, op); INPUT_ARR(unsigned char, buf33, 33); INPUT(_Bool, use_op); INPUT(_Bool, use_buf); INPUT(_Bool, do_parse);
    int ret;
    verif_ctx_init(&ctx); g_pp_n = 0; g_ps_n = 0;
    if (do_parse) {
        ret = secp256k1_ecdsa_s2c_opening_parse(&ctx, use_op ? &op : NULL, use_buf ? buf33 : NULL);
        if (!use_op || !use_buf) __CPROVER_assert(ret == 0 && g_illegal == 1 && g_pp_n == 0, "C15 opening_parse: NULL argument => one illegal callback, ret 0");
        else {
            __CPROVER_assert(g_illegal == 0 && g_pp_n == 1 && ret == g_pp_v, "C15 opening_parse: result is that of the public-key parser");
            __CPROVER_assert(g_pp_ctx == &ctx && g_pp_pk == (void *)&op && g_pp_in == buf33 && g_pp_len == 33, "C15 opening_parse: parses input33[0..33) as a public key into the opening object");
            REACH("opening_parse forwarded");
        }
        __CPROVER_assert(g_ps_n == 0, "C15 opening_parse: no serialization");
    } else {
        ret = secp256k1_ecdsa_s2c_opening_serialize(&ctx, use_buf ? buf33 : NULL, use_op ? &op : NULL);
        if (!use_op || !use_buf) __CPROVER_assert(ret == 0 && g_illegal == 1 && g_ps_n == 0, "C15 opening_serialize: NULL argument => one illegal callback, ret 0");
        else {
            __CPROVER_assert(g_illegal == 0 && g_ps_n == 1 && ret == g_ps_v, "C15 opening_serialize: result is that of the public-key serializer");
            __CPROVER_assert(g_ps_ctx == &ctx && g_ps_pk == (void *)&op && g_ps_out == buf33 && g_ps_len_in == 33 && g_ps_flags == SECP256K1_EC_COMPRESSED, "C15 opening_serialize: serializes the opening object as a 33-byte compressed public key into output33");
            REACH("opening_serialize forwarded");
        }
        __CPROVER_assert(g_pp_n == 0, "C15 opening_serialize: no parsing");
    }
    __CPROVER_assert(g_error == 0, "C15 opening codec: error callback never invoked");
}

/* C16 / C07: secp256k1_whitelist_verify - count, scalar and failure gates; the verdict is the Borromean
 * verdict for one ring of n_keys with exactly the parsed scalars, the computed keys and message; and
 * the obligation of the property statement "never for an empty key list".
 * Replaced: compute_keys_and_message (contract, proved by C16.keys_msg), borromean_verify (oracle). */
#define EL_BORROMEAN_VERIFY
#define EL_WL_KEYS_MSG
#include "assumed_elements.h"
#include "src/secp256k1.c"
#include "post.h"
#define MAXN 300     /* the key arrays handed in have n_keys entries; n_keys itself is unconstrained below this */

/* ghost state read by the loop contract of the scalar loop (hooks/C16_whitelist_loops.diff); fixed here */
size_t verif_wl_gi; int verif_wl_bad; secp256k1_scalar verif_wl_sx;

void h_wl_verify(void) {
    secp256k1_context ctx;
    INPUT(secp256k1_whitelist_signature, sig);
    INPUT(size_t, n_keys); INPUT(secp256k1_pubkey, sub); INPUT(size_t, gi); INPUT(size_t, gk); INPUT(size_t, gb); INPUT(int, nullsel);
    secp256k1_pubkey *online, *offline; int ret; unsigned char sb[32]; size_t j;
    __CPROVER_assume(n_keys <= MAXN);
    online = malloc(n_keys ? n_keys * sizeof(secp256k1_pubkey) : 1); offline = malloc(n_keys ? n_keys * sizeof(secp256k1_pubkey) : 1);
    __CPROVER_assume(online != NULL && offline != NULL);
    verif_ctx_init(&ctx);
    g_el_i = gi; g_el_k = gk; g_el_b = gb; g_bv_n = 0; g_ck_n = 0;
    g_ck_online_expect = online; g_ck_offline_expect = offline;
#ifdef EL_BOUND
    __CPROVER_assume(sig.n_keys <= EL_BOUND);     /* bounded stand-in */
#endif
    verif_wl_gi = gi; verif_wl_bad = 0;
    if (gi < sig.n_keys && sig.n_keys <= SECP256K1_WHITELIST_MAX_N_KEYS) {
        int ov = 0;
        for (j = 0; j < 32; j++) sb[j] = sig.data[32 * (gi + 1) + j];     /* the 32 bytes of scalar gi, read once */
        secp256k1_scalar_set_b32(&verif_wl_sx, sb, &ov);
        verif_wl_bad = ov || secp256k1_scalar_is_zero(&verif_wl_sx);
    }
    if (nullsel == 0) {
        ret = secp256k1_whitelist_verify(&ctx, &sig, online, offline, n_keys, &sub);
        __CPROVER_assert(ret == 0 || ret == 1, "C16 whitelist_verify: returns 0 or 1");
        __CPROVER_assert(g_error == 0 && (g_ck_n >= 1 || g_illegal == 0), "C16 whitelist_verify: no error callback; illegal-use reports only from loading the key objects, whatever the signature bytes");
        __CPROVER_assert(!(ret == 1) || n_keys >= 1, "C16 whitelist_verify.nonempty: ret = 1 implies n_keys >= 1");
        if (sig.n_keys != n_keys || sig.n_keys > SECP256K1_WHITELIST_MAX_N_KEYS)
            __CPROVER_assert(ret == 0, "C16 whitelist_verify: key-count mismatch or more than 255 keys rejected");
#ifndef VERIF_NATIVE
        if (gi < sig.n_keys && sig.n_keys <= SECP256K1_WHITELIST_MAX_N_KEYS) {
            wide sv = be256(sb);
            __CPROVER_assert(verif_wl_bad == (sv == 0 || sv >= N_()), "C16 whitelist_verify: (harness) ghost flag equals the specification of a bad scalar");
            if (sv == 0 || sv >= N_()) __CPROVER_assert(ret == 0, "C16 whitelist_verify: any scalar that is zero or >= n rejects (every ring position)");
            if (ret == 1) __CPROVER_assert(sval(&g_bv_s_i) == sv && g_bv_pub_x0 == g_ck_key_x0, "C16 whitelist_verify: ring position i was checked with scalar i of the signature and computed key i");
        }
#endif
        if (g_ck_n >= 1 && g_ck_ret == 0) __CPROVER_assert(ret == 0, "C16 whitelist_verify: key computation failure rejects");
        if (g_bv_n >= 1) __CPROVER_assert(ret == g_bv_ret, "C16 whitelist_verify: once the ring check is consulted the result is its verdict");
        if (ret == 1) {
            __CPROVER_assert(g_bv_n >= 1 && g_bv_ret == 1 && g_ck_n >= 1, "C16 whitelist_verify: accepts only on a positive Borromean verdict over computed keys");
            __CPROVER_assert(g_ck_nkeys == (int)n_keys && g_ck_lists_match && (gb >= 64 || g_ck_sub_b == sub.data[gb]), "C16 whitelist_verify: keys and message come from the caller's key lists and whitelisted key");
            __CPROVER_assert(g_bv_nrings == 1 && g_bv_rsize0 == n_keys && g_bv_mlen == 32, "C16 whitelist_verify: one ring of n_keys with a 32-byte message");
            if (gk < 32) __CPROVER_assert(g_bv_e0_k == sig.data[gk] && g_bv_m_k == g_ck_msg_k, "C16 whitelist_verify: e0 is the first 32 signature bytes and the ring message is the computed key-list commitment");
        }
#ifdef EL_BOUND
        /* accept side (bounded stand-in only: needs all scalars at once): every gate passed => the verdict decides */
        {   int all_ok = (sig.n_keys == n_keys && n_keys >= 1); size_t q;
            for (q = 0; q < EL_BOUND; q++) if (q < sig.n_keys) {
                secp256k1_scalar t; int o = 0; secp256k1_scalar_set_b32(&t, &sig.data[32 * (q + 1)], &o);
                if (o || secp256k1_scalar_is_zero(&t)) all_ok = 0;
            }
            if (all_ok) __CPROVER_assert(g_ck_n >= 1 && (g_ck_ret == 0 || (g_bv_n >= 1 && ret == g_bv_ret)), "C16 whitelist_verify: a signature passing every gate is decided by the key computation and the Borromean verdict");
        }
#endif
#ifdef EL_BOUND
        if (ret == 1 && n_keys == EL_BOUND && gi == EL_BOUND - 1) REACH("wl verify accepts the largest ring of the bounded stand-in");
#else
        if (ret == 1 && n_keys == 255 && gi == 254) REACH("wl verify accepts 255 keys");
#endif
        if (ret == 1 && n_keys == 1) REACH("wl verify accepts 1 key");
        if (ret == 0 && g_bv_n == 1) REACH("wl verify negative verdict");
        if (ret == 0 && n_keys == 0 && sig.n_keys == 0) REACH("wl verify rejects the empty list");
    } else {
        if (nullsel == 1) ret = secp256k1_whitelist_verify(&ctx, NULL, online, offline, n_keys, &sub);
        else if (nullsel == 2) ret = secp256k1_whitelist_verify(&ctx, &sig, NULL, offline, n_keys, &sub);
        else if (nullsel == 3) ret = secp256k1_whitelist_verify(&ctx, &sig, online, NULL, n_keys, &sub);
        else ret = secp256k1_whitelist_verify(&ctx, &sig, online, offline, n_keys, NULL);
        __CPROVER_assert(ret == 0 && g_illegal >= 1 && g_error == 0, "C16 whitelist_verify: NULL argument reports illegal use and returns 0");
        REACH("wl verify NULL argument");
    }
}

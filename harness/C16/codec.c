/* C16 / C07: secp256k1_whitelist_signature_parse / _serialize.
 *  h_wl_parse     : for every byte string of every length <= 9000: accept iff len >= 1 and
 *                   len == 1 + 32 (n_keys + 1) with n_keys = byte 0 (<= 255 = MAX_KEYS); accepted object
 *                   holds n_keys and (ghost index) every payload byte.
 *  h_wl_serialize : every valid object (n_keys <= 255), every capacity: success iff capacity suffices,
 *                   exact written length, count byte.
 *  h_wl_roundtrip : serialize(parse(b)) == b.
 * memcpy replaced by the DESIGN 2.4 contract (bounds = its requires clause). */
#define EL_MEMCPY
#include "assumed_elements.h"
#include "src/secp256k1.c"
#include "post.h"
#define MAXLEN 9000

void h_wl_parse(void) {
    secp256k1_context ctx;
    INPUT(secp256k1_whitelist_signature, sig);
    INPUT(size_t, len); INPUT(size_t, k); INPUT(int, nullsel);
    unsigned char *input; int ret, s_ok = 0; size_t s_n = 0;
    __CPROVER_assume(len <= MAXLEN);
    INPUT_BUF(inw, input, len, 8);
    verif_ctx_init(&ctx);
    g_mc_watch = &sig.data[k < sizeof(sig.data) ? k : 0];
    if (nullsel == 0) {
        ret = secp256k1_whitelist_signature_parse(&ctx, &sig, input, len);
        WITNESS_BUF(inw, input, len, 8);
        __CPROVER_assert(ret == 0 || ret == 1, "C16 parse: returns 0 or 1");
        __CPROVER_assert(g_illegal == 0 && g_error == 0, "C16 parse: no callback for non-NULL arguments, whatever the bytes");
        if (len >= 1) { s_n = input[0]; s_ok = (s_n <= SECP256K1_WHITELIST_MAX_N_KEYS) && (len == 1 + 32 * (s_n + 1)); }
        __CPROVER_assert(ret == s_ok, "C16 parse: accept iff len >= 1 and len == 1 + 32 (n_keys + 1) with n_keys = byte 0 <= 255");
        if (len == 0) __CPROVER_assert(ret == 0, "C16 parse: the empty string is rejected");
        if (ret) {
            __CPROVER_assert(secp256k1_whitelist_signature_n_keys(&sig) == s_n && s_n <= SECP256K1_WHITELIST_MAX_N_KEYS, "C16 parse: accepted object reports n_keys = byte 0 <= 255");
#ifdef EL_CONTENT   /* REPRESENTATION LINK used by the verify/sign units (which read scalars from the object): payload byte k of the wire form is byte k of the object's data field */
            if (k < 32 * (s_n + 1)) __CPROVER_assert(sig.data[k] == input[1 + k], "C16 parse: (representation link) payload byte k is stored at data[k]");
#endif
        }
        if (ret && s_n == 255) REACH("wl parse 255 keys");
        if (ret && s_n == 0) REACH("wl parse 0 keys");
        if (!ret && len == 34) REACH("wl parse rejects length 34");
    } else {
        if (nullsel == 1) ret = secp256k1_whitelist_signature_parse(&ctx, NULL, input, len);
        else ret = secp256k1_whitelist_signature_parse(&ctx, &sig, NULL, len);
        __CPROVER_assert(ret == 0 && g_illegal >= 1 && g_error == 0, "C16 parse: NULL argument reports illegal use and returns 0");
        REACH("wl parse NULL argument");
    }
}

void h_wl_serialize(void) {
    secp256k1_context ctx;
    INPUT(secp256k1_whitelist_signature, sig);
    INPUT(size_t, cap); INPUT(size_t, k); INPUT(int, nullsel);
    unsigned char *out, mc_dummy = 0; size_t outlen, want; int ret;
    __CPROVER_assume(cap <= MAXLEN);
    __CPROVER_assume(secp256k1_whitelist_signature_n_keys(&sig) <= SECP256K1_WHITELIST_MAX_N_KEYS);    /* valid_whitelist_sig: what parse and sign establish */
    out = malloc(cap ? cap : 1); __CPROVER_assume(out != NULL);
    outlen = cap; want = 1 + 32 * (secp256k1_whitelist_signature_n_keys(&sig) + 1);
    verif_ctx_init(&ctx);
    g_mc_watch = &mc_dummy;
    if (nullsel == 0) {
        ret = secp256k1_whitelist_signature_serialize(&ctx, out, &outlen, &sig);
        __CPROVER_assert(ret == 0 || ret == 1, "C16 serialize: returns 0 or 1");
        __CPROVER_assert(g_illegal == 0 && g_error == 0, "C16 serialize: no callback for non-NULL arguments and a valid object");
        __CPROVER_assert(ret == (cap >= want), "C16 serialize: succeeds iff the buffer holds 1 + 32 (n_keys + 1) bytes");
        if (ret) {
            __CPROVER_assert(outlen == want && out[0] == secp256k1_whitelist_signature_n_keys(&sig), "C16 serialize: written length and count byte");
        }
        if (ret && out[0] == 255) REACH("wl serialize 255 keys");
        if (!ret) REACH("wl serialize too small");
    } else {
        if (nullsel == 1) ret = secp256k1_whitelist_signature_serialize(&ctx, NULL, &outlen, &sig);
        else if (nullsel == 2) ret = secp256k1_whitelist_signature_serialize(&ctx, out, NULL, &sig);
        else ret = secp256k1_whitelist_signature_serialize(&ctx, out, &outlen, NULL);
        __CPROVER_assert(ret == 0 && g_illegal >= 1 && g_error == 0, "C16 serialize: NULL argument reports illegal use and returns 0");
        REACH("wl serialize NULL argument");
    }
}

void h_wl_roundtrip(void) {
    secp256k1_context ctx;
    secp256k1_whitelist_signature sig;
    INPUT(size_t, len); INPUT(size_t, k); INPUT(size_t, cap);
    unsigned char *input, *out; size_t outlen; int ret, ret2;
    __CPROVER_assume(len <= MAXLEN && cap <= MAXLEN && cap >= len);
    INPUT_BUF(inw, input, len, 8);
    out = malloc(cap ? cap : 1); __CPROVER_assume(out != NULL);
    outlen = cap;
    verif_ctx_init(&ctx);
    g_mc_watch = &sig.data[k < sizeof(sig.data) ? k : 0];      /* payload byte k on its way in ... */
    ret = secp256k1_whitelist_signature_parse(&ctx, &sig, input, len);
    WITNESS_BUF(inw, input, len, 8);
    if (ret) {
        g_mc_watch = (k + 1 < cap) ? &out[1 + k] : &sig.data[0];      /* ... and on its way out */
        ret2 = secp256k1_whitelist_signature_serialize(&ctx, out, &outlen, &sig);
        __CPROVER_assert(ret2 == 1 && outlen == len, "C16 roundtrip: a parsed signature serializes to the same length");
        __CPROVER_assert(out[0] == input[0], "C16 roundtrip: count byte identical");
        if (k < len - 1) __CPROVER_assert(out[1 + k] == input[1 + k], "C16 roundtrip: every payload byte identical");
        __CPROVER_assert(g_illegal == 0 && g_error == 0, "C16 roundtrip: no callback");
        if (len == 8193 && k == 8000) REACH("wl roundtrip 255 keys");
        REACH("wl roundtrip accepted");
    }
}

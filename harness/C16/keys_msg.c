/* C16 / C07: secp256k1_whitelist_compute_keys_and_message - the ring message commits to the whitelisted
 * key and to EVERY (offline_i, online_i) key pair, in list order, for every list length 0..255:
 *   hashed stream = ser33(W) || ser33(offline_0) || ser33(online_0) || ser33(offline_1) || ...   (plain SHA-256),
 *   total length 33 + 66 n, msg32 = the digest; one ring key written per list entry, inside keys[0..n).
 * (The order inside a pair - offline first - is PINNED to the deployed behaviour: every existing signature's
 * message depends on it.  include/secp256k1_whitelist.h documents online first; reported as an observation.)  ser33 is the PUBLIC compressed serialization of the key object,
 * computed here by secp256k1_ec_pubkey_serialize, so nothing depends on the object layout.
 * sha256_write/_finalize: stream contracts with write log (hash_log.h); gej_add_ge_var, whitelist_tweak_pubkey:
 * oracles (ring-key algebra is residue).  Loop over the list: loop contract (unit table) / unwound (bounded). */
#define EL_GEJ_ADD_GE_VAR
#define EL_WL_TWEAK_PUBKEY
#ifdef KM_WIRING     /* bounded unit: operands of the two additions and of the tweak for ring key gi, by value */
#define EL_GHOST_INDEX
#define EL_GEJ_ADD_GE_VAR_LOG
#define EL_GEJ_ADD_GE_VAR_CHAIN
#define EL_WL_TWEAK_LOG
#endif
#include "hash_log.h"
#include "assumed_elements.h"
#include "src/secp256k1.c"
#include "post.h"
#ifndef KM_MAX
#define KM_MAX 255
#endif

#ifndef VERIF_NATIVE
static wide km_modp(wide v) { wide p = P_(); return v >= p + p ? v - p - p : (v >= p ? v - p : v); }
#endif
struct km_pks { secp256k1_pubkey k[KM_MAX]; };
unsigned char verif_wl_expect;     /* the byte the specification puts at stream position g_wpos (set by the harness only) */

void h_wl_keys_msg(void) {
    secp256k1_context ctx;
    INPUT(int, n_keys); INPUT(secp256k1_pubkey, sub); INPUT(uint64_t, wpos); INPUT(size_t, k); INPUT(size_t, gi);
    secp256k1_pubkey *online, *offline, watched; secp256k1_gej *keys; unsigned char msg32[32], ser[33]; size_t serlen = 33;
    int ret, covered = 0; size_t r = 0;
    __CPROVER_assume(n_keys >= 0 && n_keys <= KM_MAX && k < 32);
#ifdef KM_WIRING     /* fixed-size arrays: this unit is about operand values; exact bounds are checked by the other keys_msg units */
    INPUT(struct km_pks, on_in); INPUT(struct km_pks, off_in); secp256k1_gej keys_fix[KM_MAX];
    online = on_in.k; offline = off_in.k; keys = keys_fix;
#else
    online = malloc(n_keys ? n_keys * sizeof(secp256k1_pubkey) : 1); offline = malloc(n_keys ? n_keys * sizeof(secp256k1_pubkey) : 1);
    keys = malloc(n_keys ? n_keys * sizeof(secp256k1_gej) : 1);
    __CPROVER_assume(online != NULL && offline != NULL && keys != NULL);
#endif
    verif_ctx_init(&ctx);
    ctx.hash_ctx.fn_sha256_compression = secp256k1_sha256_transform;
    /* specification of the byte at stream position wpos */
    if (wpos < 33) { watched = sub; r = wpos; covered = 1; }
    else if (wpos < 33 + 66 * (uint64_t)n_keys) {
        size_t q = (wpos - 33) / 66; r = (wpos - 33) % 66; covered = 1;
        if (r < 33) watched = offline[q]; else { watched = online[q]; r -= 33; }
    }
    verif_wl_expect = 0;
#ifdef KM_WIRING
    covered = 0;
#endif
    if (covered) {
        ret = secp256k1_ec_pubkey_serialize(&ctx, ser, &serlen, &watched, SECP256K1_EC_COMPRESSED);
        __CPROVER_assume(ret == 1 && serlen == 33);          /* a valid public-key object: one the library itself serializes */
        verif_wl_expect = ser[r];
    }
#ifdef KM_VALID_ALL
    {   size_t q; secp256k1_ge tg;      /* every key object valid = accepted by the library's own secp256k1_pubkey_load */
        __CPROVER_assume(secp256k1_pubkey_load(&ctx, &tg, &sub) == 1);
        for (q = 0; q < KM_MAX; q++) if (q < (size_t)n_keys)
            __CPROVER_assume(secp256k1_pubkey_load(&ctx, &tg, &online[q]) == 1 && secp256k1_pubkey_load(&ctx, &tg, &offline[q]) == 1);
    }
#endif
    HASHLOG_RESET(); g_we = 0; g_wpos = wpos; g_illegal = 0;
#ifdef KM_WIRING
    __CPROVER_assume(gi < 2); g_el_i = 2 * gi + 1; g_el_t = gi; g_aj_n = 0; g_aj_seen = 0; g_tw_n = 0;
#endif
    ret = secp256k1_whitelist_compute_keys_and_message(&ctx, msg32, keys, online, offline, n_keys, &sub);
    __CPROVER_assert(g_error == 0, "C16 keys_msg: error callback never invoked");
#ifndef KM_WIRING
    __CPROVER_assert(g_fin_n == 1 && g_w_fin && g_w_end == 33 + 66 * (uint64_t)n_keys, "C16 keys_msg: one hash over exactly 33 + 66 n bytes");
    __CPROVER_assert(g_w_started && g_w_b0 == 0 && g_w_s0 == 0x6a09e667ul && g_w_s7 == 0x5be0cd19ul, "C16 keys_msg: plain SHA-256 from the initial state");
    if (covered) __CPROVER_assert(g_w_hit && g_w_byte == verif_wl_expect, "C16 keys_msg: every stream position holds the serialized key the specification puts there (W, then offline_i, online_i for every i in order)");
    __CPROVER_assert(msg32[k] == g_w_dig[k], "C16 keys_msg: msg32 is the digest");
#endif
#ifdef KM_VALID_ALL
    __CPROVER_assert(g_illegal == 0, "C16 keys_msg: no callback for valid key objects");
#endif
#if defined(KM_WIRING) && !defined(VERIF_NATIVE)
    if (gi < (size_t)n_keys) {      /* ring key gi = online_gi + tweak(offline_gi + W), operands by value (decoded by the library's own pubkey_load) */
        secp256k1_ge off, on, w; int direct, swapped;
        if (gi == 0) { secp256k1_pubkey_load(&ctx, &off, &offline[0]); secp256k1_pubkey_load(&ctx, &on, &online[0]); }
        else { secp256k1_pubkey_load(&ctx, &off, &offline[1]); secp256k1_pubkey_load(&ctx, &on, &online[1]); }
        secp256k1_pubkey_load(&ctx, &w, &sub);
        /* canonical representatives (library's own normalisation), so "same point" is limb equality */
        secp256k1_fe_normalize_var(&off.x); secp256k1_fe_normalize_var(&off.y); secp256k1_fe_normalize_var(&on.x); secp256k1_fe_normalize_var(&on.y);
        secp256k1_fe_normalize_var(&w.x); secp256k1_fe_normalize_var(&w.y);
#define SAMEPT(px, py, qx, qy) (FE_EQ(px, qx) && FE_EQ(py, qy))
        direct = !g_aj_pa.infinity && fval(&g_aj_pa.z) == 1 && SAMEPT(g_aj_pa.x, g_aj_pa.y, off.x, off.y) && !g_aj_pb.infinity && SAMEPT(g_aj_pb.x, g_aj_pb.y, w.x, w.y);
        swapped = !g_aj_pa.infinity && fval(&g_aj_pa.z) == 1 && SAMEPT(g_aj_pa.x, g_aj_pa.y, w.x, w.y) && !g_aj_pb.infinity && SAMEPT(g_aj_pb.x, g_aj_pb.y, off.x, off.y);
        __CPROVER_assert(g_aj_seen && (direct || swapped), "C16 keys_msg: the point that is tweaked for ring key i is offline_i + W (either operand order)");
        __CPROVER_assert(g_tw_n > gi && GEJ_EQ(g_tw_in, g_aj_prev), "C16 keys_msg: the tweak H(P)*P is applied to exactly that sum");
        __CPROVER_assert(GEJ_EQ(g_aj_a, g_tw_out) && !g_aj_b.infinity && SAMEPT(g_aj_b.x, g_aj_b.y, on.x, on.y), "C16 keys_msg: ring key i = tweaked point + online_i");
        __CPROVER_assert(gi == 0 ? GEJ_EQ(keys[0], g_aj_r) : GEJ_EQ(keys[1], g_aj_r), "C16 keys_msg: ring key i is stored at position i of the key array");
    }
#endif
    if (n_keys == KM_MAX && wpos == 33 + 66 * (uint64_t)(KM_MAX - 1) + 40) REACH("keys_msg last online key of the longest list");
    if (n_keys == 0) REACH("keys_msg empty list");
    if (wpos < 33) REACH("keys_msg whitelisted key");
}

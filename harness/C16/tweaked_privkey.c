/* C16: secp256k1_whitelist_compute_tweaked_privkey (the signing-key gate of whitelist_sign):
 *   summed key 0 or >= n => 0 before any curve work;  online key 0 or >= n => 0;  hash failure => 0;
 *   failure => *skey cleared;  success => skey = H * summed + online (mod n) with H the hash oracle's output
 *   for the point summed*G (product from the scalar_mul oracle).
 * Oracles: ecmult_gen, whitelist_hash_pubkey, scalar_mul (ghost logs). */
#define LOG_SCALAR_MUL
#define LOG_ECMULT_GEN
#define EL_WL_HASH_PUBKEY
#include "assumed_elements.h"
#include "src/secp256k1.c"
#include "post.h"

void h_wl_tweaked_privkey(void) {
    secp256k1_context ctx;
    INPUT_ARR(unsigned char, online, 32); INPUT_ARR(unsigned char, summed, 32); INPUT(secp256k1_scalar, skey);
    int ret;
    verif_ctx_init(&ctx);
    g_mul_n = 0; g_gen_n = 0; g_hp_n = 0;
    ret = secp256k1_whitelist_compute_tweaked_privkey(&ctx, &skey, online, summed);
    __CPROVER_assert(ret == 0 || ret == 1, "C16 sign key: returns 0 or 1");
    __CPROVER_assert(g_illegal == 0 && g_error == 0, "C16 sign key: no callback");
#ifndef VERIF_NATIVE
    {   wide so = be256(online), ss = be256(summed), n = N_();
        if (ss == 0 || ss >= n) __CPROVER_assert(ret == 0, "C16 sign key: summed secret key 0 or >= n refused");
        if (so == 0 || so >= n) __CPROVER_assert(ret == 0, "C16 sign key: online secret key 0 or >= n refused");
        if (g_hp_n >= 1 && g_hp_ret == 0) __CPROVER_assert(ret == 0, "C16 sign key: tweak hash failure refused");
        __CPROVER_assert(ret == (ss != 0 && ss < n && so != 0 && so < n && g_hp_n >= 1 && g_hp_ret == 1), "C16 sign key: succeeds exactly for in-range non-zero keys and a successful tweak hash");
        if (ret == 1) {
            __CPROVER_assert(g_gen_n >= 1 && sval(&g_gen_a0) == ss, "C16 sign key: the tweak is derived from the point summed*G");
            __CPROVER_assert(g_mul_n >= 1 && ((sval(&g_mul_a0) == ss && SC_EQ(g_mul_b0, g_hp_out)) || (sval(&g_mul_b0) == ss && SC_EQ(g_mul_a0, g_hp_out))), "C16 sign key: the product requested is summed * H (either operand order)");
            __CPROVER_assert(sval(&skey) == (sval(&g_mul_r0) + so) % n, "C16 sign key: key = H*summed + online mod n (a reduced scalar)");
        }
    }
#endif
    if (ret == 1) REACH("tweaked privkey success");
    if (ret == 0 && g_hp_n == 1 && g_hp_ret == 1) REACH("tweaked privkey refused for the online key");
}

/* C16 (finding F1): "verification never succeeds for an empty key list".
 * ret = 1 implies n_keys >= 1  <=>  for n_keys = 0 the result is never 1, whatever the signature object,
 * the whitelisted key and the (empty) key lists.  Verifier view: compute_keys_and_message and
 * borromean_verify are oracles (the ring of size 0 may answer 1 - on the tree before commit 07da080 it
 * does for a publicly computable e0).  NATIVE REPLAY: the oracle answer 1 is realised by constructing that
 * e0 = SHA256(SHA256(ser33(W))) with the library's own functions, then the real function is run. */
#define EL_BORROMEAN_VERIFY
#define EL_WL_KEYS_MSG
#include "assumed_elements.h"
#include "src/secp256k1.c"
#include "post.h"

void h_wl_nonempty(void) {
    secp256k1_context ctx;
    INPUT(secp256k1_whitelist_signature, sig); INPUT(secp256k1_pubkey, sub);
    secp256k1_pubkey online[1], offline[1];      /* n_keys = 0: no entry is ever read */
    size_t n_keys = 0; int ret, nz = 0; size_t j;
    for (j = 0; j < 32; j++) nz |= sub.data[j];
    __CPROVER_assume(nz != 0);                    /* valid pubkey object: x != 0 */
    verif_ctx_init(&ctx);
    ctx.hash_ctx.fn_sha256_compression = secp256k1_sha256_transform;
    memset(online, 0, sizeof(online)); memset(offline, 0, sizeof(offline));
#ifdef VERIF_NATIVE
    if (secp256k1_whitelist_signature_n_keys(&sig) == 0) {    /* realise the verifier's "ring of size 0 accepts": e0 = SHA256(msg32), msg32 = SHA256(ser33(W)) */
        unsigned char msg32[32], e0[32]; secp256k1_gej nokeys[1]; secp256k1_sha256 sha;
        secp256k1_whitelist_compute_keys_and_message(&ctx, msg32, nokeys, online, offline, 0, &sub);
        secp256k1_sha256_initialize(&sha);
        secp256k1_sha256_write(&ctx.hash_ctx, &sha, msg32, 32);
        secp256k1_sha256_finalize(&ctx.hash_ctx, &sha, e0);
        memcpy(sig.data, e0, 32);
    }
#else
    g_el_i = 0; g_el_k = 0; g_el_b = 0; g_bv_n = 0; g_ck_n = 0;
    g_ck_online_expect = online; g_ck_offline_expect = offline;
#endif
    ret = secp256k1_whitelist_verify(&ctx, &sig, online, offline, n_keys, &sub);
    __CPROVER_assert(!(ret == 1) || n_keys >= 1, "C16 whitelist_verify.nonempty: ret = 1 implies n_keys >= 1");
    __CPROVER_assert(ret == 0 && g_error == 0, "C16 whitelist_verify.nonempty: an empty key list is rejected with 0");
    if (secp256k1_whitelist_signature_n_keys(&sig) == 0) REACH("empty list with an empty-ring signature object");
    if (secp256k1_whitelist_signature_n_keys(&sig) != 0) REACH("empty list with a non-empty signature object");
}

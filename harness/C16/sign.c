/* C16: secp256k1_whitelist_sign - gates and wiring.  BOUNDED stand-in for the signing path: at most SB keys and
 * EL_NONCE_BUDGET calls of the nonce function (the nonce retry loop has no bound of its own and, having a
 * `continue`, cannot carry a CBMC loop contract); the argument gates hold for every n_keys and index.
 *   n_keys > 255, index >= n_keys, NULL argument, unbuilt context => illegal callback and 0;
 *   failure of the signing-key computation (online/summed key 0 or >= n: C16.sign_key_gate) => 0;
 *   failure of the nonce function => 0; otherwise the result is the ring signer's verdict; success => the
 *   signature object reports n_keys, one ring of n_keys was signed at position index with the computed
 *   signing key over the computed keys and key-list commitment.
 * Retry loops (driven by the nonce oracle): unwound within the budget; no termination claim.
 * Replaced: compute_keys_and_message, compute_tweaked_privkey (proved contracts); nonce_function_rfc6979,
 * borromean_sign (oracles). */
#define EL_WL_KEYS_MSG
#define EL_WL_TWEAKED_PRIVKEY
#define EL_NONCE_RFC6979
#define EL_NONCE_BUDGET 4
#define EL_BORROMEAN_SIGN
#define EL_BORROMEAN_SIGN_RELAXED
#include "assumed_elements.h"
#include "src/secp256k1.c"
#include "post.h"
#define MAXN 300
#define SB 1

void h_wl_sign(void) {
    secp256k1_context ctx;
    INPUT(secp256k1_whitelist_signature, sig);
    INPUT(size_t, n_keys); INPUT(size_t, index); INPUT(secp256k1_pubkey, sub); INPUT_ARR(unsigned char, okey, 32); INPUT_ARR(unsigned char, skey, 32);
    INPUT(size_t, gi); INPUT(size_t, gk); INPUT(size_t, gb); INPUT(int, nullsel); INPUT(_Bool, built);
    secp256k1_pubkey *online, *offline; int ret;
    __CPROVER_assume(n_keys <= MAXN);
    online = malloc(n_keys ? n_keys * sizeof(secp256k1_pubkey) : 1); offline = malloc(n_keys ? n_keys * sizeof(secp256k1_pubkey) : 1);
    __CPROVER_assume(online != NULL && offline != NULL);
    verif_ctx_init(&ctx);
    ctx.hash_ctx.fn_sha256_compression = secp256k1_sha256_transform;
    ctx.ecmult_gen_ctx.built = built;
    g_el_i = gi; g_el_k = gk; g_el_b = gb; g_ck_n = 0; g_tp_n = 0; g_bs_n = 0; g_nf_n = 0;
    g_ck_online_expect = online; g_ck_offline_expect = offline;
    if (nullsel == 0 && built && n_keys <= SECP256K1_WHITELIST_MAX_N_KEYS && index < n_keys) {
        __CPROVER_assume(n_keys <= SB);      /* bounded stand-in for the signing path */
        ret = secp256k1_whitelist_sign(&ctx, &sig, online, offline, n_keys, &sub, okey, skey, index);
        __CPROVER_assert(ret == 0 || ret == 1, "C16 sign: returns 0 or 1");
        __CPROVER_assert(g_error == 0 && (g_ck_n >= 1 || g_illegal == 0), "C16 sign: no error callback; illegal-use reports only from loading the key objects");
        __CPROVER_assume(g_nf_n <= EL_NONCE_BUDGET);      /* the exploration budget of the nonce oracle, stated here so that the assumption scan lists it */
        if (g_tp_n >= 1 && g_tp_ret == 0) __CPROVER_assert(ret == 0, "C16 sign: a refused signing key (online or summed secret 0 or >= n) makes signing fail");
#ifndef VERIF_NATIVE
        if (el_key_bad(okey) || el_key_bad(skey)) __CPROVER_assert(ret == 0, "C16 sign: online or summed secret key 0 or >= n => 0");
#endif
        if (g_ck_n >= 1 && g_ck_ret == 0) __CPROVER_assert(ret == 0, "C16 sign: key computation failure makes signing fail");
        if (g_bs_n >= 1) __CPROVER_assert(ret == g_bs_ret, "C16 sign: once the ring signer is reached the result is its verdict");
        if (ret == 1) {
            __CPROVER_assert(g_bs_n >= 1 && g_tp_n >= 1 && g_tp_ret == 1 && g_ck_n >= 1, "C16 sign: success only through key computation, signing-key computation and the ring signer");
            __CPROVER_assert(secp256k1_whitelist_signature_n_keys(&sig) == n_keys, "C16 sign: the signature reports n_keys");
            __CPROVER_assert(g_ck_nkeys == (int)n_keys && g_ck_lists_match && (gb >= 64 || g_ck_sub_b == sub.data[gb]), "C16 sign: ring keys and message come from the caller's key lists and whitelisted key");
            __CPROVER_assert(gk >= 32 || (g_tp_online_k == okey[gk] && g_tp_summed_k == skey[gk]), "C16 sign: the signing key is computed from the caller's online and summed secrets");
            __CPROVER_assert(g_bs_nrings == 1 && g_bs_rsize0 == n_keys && g_bs_secidx0 == index && g_bs_mlen == 32 && SC_EQ(g_bs_sec, g_tp_skey), "C16 sign: one ring of n_keys signed at position index with the computed signing key");
            if (gk < 32) __CPROVER_assert(g_bs_m_k == g_ck_msg_k, "C16 sign: the signed message is the key-list commitment");
        }
        if (ret == 1 && n_keys == SB && index == SB - 1 && g_nf_n == 4) REACH("wl sign largest ring of the bounded stand-in after one retry");
        if (ret == 0 && g_bs_n >= 1) REACH("wl sign ring signer failure");
        if (ret == 0 && g_tp_n >= 1 && g_tp_ret == 0) REACH("wl sign refused key");
    } else {
        if (nullsel == 0) ret = secp256k1_whitelist_sign(&ctx, &sig, online, offline, n_keys, &sub, okey, skey, index);    /* unbuilt context, n_keys > 255 or index >= n_keys */
        else if (nullsel == 1) ret = secp256k1_whitelist_sign(&ctx, NULL, online, offline, n_keys, &sub, okey, skey, index);
        else if (nullsel == 2) ret = secp256k1_whitelist_sign(&ctx, &sig, NULL, offline, n_keys, &sub, okey, skey, index);
        else if (nullsel == 3) ret = secp256k1_whitelist_sign(&ctx, &sig, online, NULL, n_keys, &sub, okey, skey, index);
        else if (nullsel == 4) ret = secp256k1_whitelist_sign(&ctx, &sig, online, offline, n_keys, NULL, okey, skey, index);
        else if (nullsel == 5) ret = secp256k1_whitelist_sign(&ctx, &sig, online, offline, n_keys, &sub, NULL, skey, index);
        else ret = secp256k1_whitelist_sign(&ctx, &sig, online, offline, n_keys, &sub, okey, NULL, index);
        __CPROVER_assert(ret == 0 && g_error == 0, "C16 sign: index >= n_keys, n_keys > 255, NULL argument or unbuilt context returns 0");
        if (nullsel != 0) __CPROVER_assert(g_illegal >= 1, "C16 sign: NULL argument reports illegal use");
        if (nullsel == 0 && built && n_keys > 255) REACH("wl sign too many keys");
        if (nullsel == 0 && built && n_keys <= 255) REACH("wl sign index out of range");
    }
}

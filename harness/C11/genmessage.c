/* C11 / C07: secp256k1_surjection_genmessage - the ring message commits to EVERY input tag in list order and
 * to the output tag, for every list length 0..256:
 *   hashed stream = t33(tag_0) || ... || t33(tag_{n-1}) || t33(output),  t33(T) = (2 + parity(y_T)) || be32(x_T),
 *   plain SHA-256, total length 33 (n + 1), msg32 = digest.
 * (x_T, y_T) is the point of the tag object as the library decodes it (secp256k1_generator_load); tag objects hold
 * canonical coordinates (what generator_parse / generator_generate write).
 * sha256_write/_finalize: stream contracts with write log (hash_log.h).  Loop: loop contract (unit table). */
#define EL_MEMCPY_BUILTIN
#include "hash_log.h"
#include "assumed_elements.h"
#include "src/secp256k1.c"
#include "post.h"

unsigned char verif_sj_expect;     /* the byte the specification puts at stream position g_wpos (harness only) */

void h_sjp_genmessage(void) {
    secp256k1_hash_ctx hc;
    INPUT(size_t, n_tags); INPUT(secp256k1_generator, outtag); INPUT(uint64_t, wpos); INPUT(size_t, k);
    secp256k1_generator *tags, watched; unsigned char msg32[32], t33[33]; int covered = 0; size_t r = 0;
    __CPROVER_assume(n_tags <= 256 && k < 32);
    tags = malloc(n_tags ? n_tags * sizeof(secp256k1_generator) : 1); __CPROVER_assume(tags != NULL);
    hc.fn_sha256_compression = secp256k1_sha256_transform;
    if (wpos < 33 * (uint64_t)n_tags) { watched = tags[wpos / 33]; r = wpos % 33; covered = 1; }
    else if (wpos < 33 * ((uint64_t)n_tags + 1)) { watched = outtag; r = wpos - 33 * (uint64_t)n_tags; covered = 1; }
    verif_sj_expect = 0;
    if (covered) {
        secp256k1_ge pt; secp256k1_fe x, y;
#ifndef VERIF_NATIVE
        __CPROVER_assume(be256(watched.data) < P_() && be256(watched.data + 32) < P_());      /* canonical tag object */
#endif
        secp256k1_generator_load(&pt, &watched);
        x = pt.x; y = pt.y; secp256k1_fe_normalize_var(&x); secp256k1_fe_normalize_var(&y);
        t33[0] = 2 + secp256k1_fe_is_odd(&y); secp256k1_fe_get_b32(&t33[1], &x);
        verif_sj_expect = t33[r];
    }
    HASHLOG_RESET(); g_we = 0; g_wpos = wpos;
    secp256k1_surjection_genmessage(&hc, msg32, tags, n_tags, &outtag);
    __CPROVER_assert(g_fin_n == 1 && g_w_fin && g_w_end == 33 * ((uint64_t)n_tags + 1), "C11 genmessage: one hash over exactly 33 (n + 1) bytes");
    __CPROVER_assert(g_w_started && g_w_b0 == 0 && g_w_s0 == 0x6a09e667ul && g_w_s7 == 0x5be0cd19ul, "C11 genmessage: plain SHA-256 from the initial state");
    if (covered) __CPROVER_assert(g_w_hit && g_w_byte == verif_sj_expect, "C11 genmessage: every stream position holds the tag byte the specification puts there (all input tags in order, then the output tag)");
    __CPROVER_assert(msg32[k] == g_w_dig[k], "C11 genmessage: msg32 is the digest");
    if (n_tags == 256 && wpos == 33 * 255 + 7) REACH("genmessage last of 256 input tags");
    if (n_tags == 0) REACH("genmessage no input tags");
    if (covered && wpos >= 33 * (uint64_t)n_tags) REACH("genmessage output tag");
}

/* C11 / C07: secp256k1_surjectionproof_verify - count gates, scalar range gate at EVERY ring position,
 * failure of key computation, and: the verdict is the Borromean verdict for one ring of n_used keys with
 * exactly the proof's scalars, the computed keys and the message over all tags.
 * Precondition: a VALID proof object (n_inputs <= 256, no bit at a position >= n_inputs) - what
 * parse (C11.parse) and initialize establish.
 * Replaced: count_bits_set (proved C11.count_bits), compute_public_keys (C11.compute_pubkeys),
 * genmessage (C11.genmessage), borromean_verify (oracle). */
#define EL_COUNT_BITS
#define EL_LOG_COUNT_BITS
#define EL_BORROMEAN_VERIFY
#define EL_SJ_PUBKEYS
#define EL_SJ_GENMSG
#include "assumed_elements.h"
#include "src/secp256k1.c"
#include "post.h"
#define MAXT 300

/* ghost state read by the loop contract of the scalar loop (unit table); fixed here, never assigned by code */
size_t verif_sj_gi; int verif_sj_bad; secp256k1_scalar verif_sj_sx;

void h_sjp_verify(void) {
    secp256k1_context ctx;
    INPUT(secp256k1_surjectionproof, proof);
    INPUT(size_t, n_tags); INPUT(secp256k1_generator, outtag); INPUT(size_t, gi); INPUT(size_t, gk); INPUT(size_t, gb); INPUT(int, nullsel);
    secp256k1_generator *tags; int ret, counted; unsigned char sb[32]; size_t j, nb, n_used; int ov = 0;
    __CPROVER_assume(n_tags <= MAXT);
    /* valid_surjectionproof */
    __CPROVER_assume(proof.n_inputs <= SECP256K1_SURJECTIONPROOF_MAX_N_INPUTS);
    nb = (proof.n_inputs + 7) / 8;
    __CPROVER_assume(proof.n_inputs % 8 == 0 || (proof.used_inputs[nb - 1] >> (proof.n_inputs % 8)) == 0);
#ifdef EL_BOUND
    __CPROVER_assume(proof.n_inputs <= EL_BOUND);      /* bounded stand-in: at most EL_BOUND ring positions */
#endif
    tags = malloc(n_tags ? n_tags * sizeof(secp256k1_generator) : 1); __CPROVER_assume(tags != NULL);
    verif_ctx_init(&ctx);
    g_el_i = gi; g_el_k = gk; g_el_b = gb; g_bv_n = 0; g_pk_n = 0; g_gm_n = 0; g_cb_n = 0; g_cb_ret = 0; g_cb_count = 0; g_cb_k = gk;
    g_pk_tags_expect = tags; g_gm_tags_expect = tags;
    verif_sj_gi = gi;
    __CPROVER_assume(gi < 256);
    for (j = 0; j < 32; j++) sb[j] = proof.data[32 + 32 * gi + j];       /* the 32 bytes of scalar gi, read once */
    secp256k1_scalar_set_b32(&verif_sj_sx, sb, &ov);
    verif_sj_bad = ov;
    if (nullsel == 0) {
        ret = secp256k1_surjectionproof_verify(&ctx, &proof, tags, n_tags, &outtag);
        __CPROVER_assert(ret == 0 || ret == 1, "C11 verify: returns 0 or 1");
        __CPROVER_assert(g_illegal == 0 && g_error == 0, "C11 verify: no callback for non-NULL arguments and a valid proof object, whatever its bytes");
        /* counted = the bit count of the proof's ceil(n/8) bitmap bytes was taken (it need not be on paths that reject earlier) */
        counted = g_cb_n >= 1 && g_cb_count == nb && (gk >= nb || g_cb_byte == proof.used_inputs[gk]);
        n_used = counted ? g_cb_ret : 0;
        if (secp256k1_surjectionproof_n_total_inputs(&ctx, &proof) != n_tags) __CPROVER_assert(ret == 0, "C11 verify: tag-count mismatch rejected");
        if (ret == 1) __CPROVER_assert(counted && n_used >= 1 && n_used <= n_tags, "C11 verify: accepts only a non-empty selection of at most n_total inputs, counted on the proof's bitmap");
        if (counted && (n_used == 0 || n_used > n_tags)) __CPROVER_assert(ret == 0, "C11 verify: empty selection or more used than total inputs rejected");
#ifndef VERIF_NATIVE
        if (counted && gi < n_used) {
            wide sv = be256(sb);
            __CPROVER_assert(verif_sj_bad == (sv >= N_()), "C11 verify: (harness) ghost flag equals the specification of an out-of-range scalar");
            if (sv >= N_()) __CPROVER_assert(ret == 0, "C11 verify: any of the n_used scalars >= n rejects (every ring position)");
            if (ret == 1) __CPROVER_assert(sval(&g_bv_s_i) == sv && g_bv_pub_x0 == g_pk_key_x0, "C11 verify: ring position i was checked with scalar i of the proof and computed key i");
        }
#endif
        if (g_pk_n >= 1 && g_pk_ret == 0) __CPROVER_assert(ret == 0, "C11 verify: key computation failure rejects");
        if (g_bv_n >= 1) __CPROVER_assert(ret == g_bv_ret, "C11 verify: once the ring check is consulted the result is its verdict");
        if (ret == 1) {
            __CPROVER_assert(g_bv_n >= 1 && g_bv_ret == 1 && g_pk_n >= 1 && g_gm_n >= 1, "C11 verify: accepts only on a positive Borromean verdict over computed keys and message");
            __CPROVER_assert(g_pk_npub == n_used && g_pk_ntags == n_tags && g_pk_tags_match && (gb >= 64 || g_pk_out_b == outtag.data[gb]) && (gk >= nb || g_pk_used_k == proof.used_inputs[gk]), "C11 verify: ring keys come from the caller's tags, the proof's bitmap and the output tag");
            __CPROVER_assert(g_gm_ntags == n_tags && g_gm_tags_match && (gb >= 64 || g_gm_out_b == outtag.data[gb]), "C11 verify: the message is computed over all n input tags and the output tag");
            __CPROVER_assert(g_bv_nrings == 1 && g_bv_rsize0 == n_used && g_bv_mlen == 32, "C11 verify: one ring of n_used with a 32-byte message");
            if (gk < 32) __CPROVER_assert(g_bv_e0_k == proof.data[gk] && g_bv_m_k == g_gm_msg_k, "C11 verify: e0 is the first 32 proof bytes and the ring message is the tag commitment");
        }
#ifdef EL_BOUND
        /* accept side (bounded stand-in only: needs all scalars at once): every gate passed => the verdict decides */
        {   int all_ok = (counted && n_used >= 1 && n_used <= proof.n_inputs && proof.n_inputs == n_tags); size_t q;
            for (q = 0; q < EL_BOUND; q++) if (q < n_used) {
                secp256k1_scalar t; int o = 0; secp256k1_scalar_set_b32(&t, &proof.data[32 + 32 * q], &o);
                if (o) all_ok = 0;
            }
            if (all_ok) __CPROVER_assert(g_pk_n >= 1 && (g_pk_ret == 0 || (g_bv_n >= 1 && ret == g_bv_ret)), "C11 verify: a proof passing every gate is decided by the key computation and the Borromean verdict");
        }
#endif
#ifdef EL_BOUND
        if (ret == 1 && n_used == EL_BOUND && gi == EL_BOUND - 1) REACH("sjp verify accepts the largest ring of the bounded stand-in");
#else
        if (ret == 1 && n_used == 256 && gi == 255) REACH("sjp verify accepts 256 used inputs");
#endif
        if (ret == 1 && n_used == 1) REACH("sjp verify accepts 1 used input");
        if (ret == 0 && g_bv_n == 1) REACH("sjp verify negative verdict");
        if (ret == 0 && counted && n_used == 0) REACH("sjp verify rejects the empty selection");
    } else {
        if (nullsel == 1) ret = secp256k1_surjectionproof_verify(&ctx, NULL, tags, n_tags, &outtag);
        else if (nullsel == 2) ret = secp256k1_surjectionproof_verify(&ctx, &proof, NULL, n_tags, &outtag);
        else ret = secp256k1_surjectionproof_verify(&ctx, &proof, tags, n_tags, NULL);
        __CPROVER_assert(ret == 0 && g_illegal >= 1 && g_error == 0, "C11 verify: NULL argument reports illegal use and returns 0");
        REACH("sjp verify NULL argument");
    }
}

/* C11 / C07: secp256k1_surjectionproof_parse accepts EXACTLY the canonical encodings, for every byte
 * string of every length <= 9000, and a successful parse yields a valid proof object.
 * memcpy (symbolic length into an 8 KiB field) is replaced by the contract of DESIGN 2.4; its
 * requires clause (source readable, destination writable for n bytes) is checked at both call sites. */
#define EL_MEMCPY
#define EL_COUNT_BITS
#define EL_LOG_COUNT_BITS
#include "assumed_elements.h"
#include "src/secp256k1.c"
#include "post.h"
#define MAXLEN 9000

void h_sjp_parse(void) {
    secp256k1_context ctx;
    INPUT(secp256k1_surjectionproof, proof);
    INPUT(size_t, inputlen); INPUT(size_t, k); INPUT(_Bool, use_proof); INPUT(_Bool, use_input); INPUT(_Bool, wdata);
    unsigned char *input; int ret;
    /* specification variables */
    size_t s_n = 0, s_nb = 0, s_pop = 0;
    __CPROVER_assume(inputlen <= MAXLEN);
    INPUT_BUF(inw, input, inputlen, 32);
    verif_ctx_init(&ctx);
    g_cb_n = 0; g_cb_ret = 0; g_cb_count = 0; g_cb_k = k;
    g_mc_watch = wdata ? &proof.data[k < sizeof(proof.data) ? k : 0] : &proof.used_inputs[k < 32 ? k : 0];
    /* one call site per NULL pattern: keeps every pointer a constant for the verifier (a conditional
     * pointer as memcpy destination costs 7x) */
    if (use_proof && use_input) ret = secp256k1_surjectionproof_parse(&ctx, &proof, input, inputlen);
    else if (use_proof) ret = secp256k1_surjectionproof_parse(&ctx, &proof, NULL, inputlen);
    else if (use_input) ret = secp256k1_surjectionproof_parse(&ctx, NULL, input, inputlen);
    else ret = secp256k1_surjectionproof_parse(&ctx, NULL, NULL, inputlen);
    WITNESS_BUF(inw, input, inputlen, 32);
    __CPROVER_assert(ret == 0 || ret == 1, "C11 parse: returns 0 or 1");
    __CPROVER_assert(g_error == 0, "C11 parse: error callback never invoked");
    if (use_proof && use_input) {
        __CPROVER_assert(g_illegal == 0, "C11 parse: no illegal callback for non-NULL arguments, whatever the bytes");
        /* specification from include/secp256k1_surjectionproof.h (encoding) and the property text
         * (at most 256 inputs, no set padding bits, exact length) */
        {   int gates = 0, counted;
            if (inputlen >= 2) {
                s_n = (size_t)input[0] + 256 * (size_t)input[1];
                s_nb = (s_n + 7) / 8;
                /* gates that need no bit count: at most 256 inputs, bitmap present, no bit at a position >= n */
                gates = s_n <= 256 && inputlen >= 2 + s_nb && !(s_n % 8 != 0 && (input[2 + s_nb - 1] >> (s_n % 8)) != 0);
            }
            if (!gates) __CPROVER_assert(ret == 0, "C11 parse: fewer than 2 bytes, more than 256 inputs, truncated bitmap or a set padding bit rejected");
            /* m = number of set bits of the ceil(n/8)-byte bitmap = what count_bits_set returns for THESE bytes
             * (unit C11.count_bits: the population count); "counted" = the helper was consulted on them */
            counted = gates && g_cb_n >= 1 && g_cb_count == s_nb && (k >= s_nb || g_cb_byte == input[2 + k]);
            if (ret == 1) {
                __CPROVER_assert(counted, "C11 parse: acceptance is based on the bit count of exactly the ceil(n/8) bitmap bytes of this input");
                s_pop = g_cb_ret;
                __CPROVER_assert(inputlen == 2 + s_nb + 32 * (1 + s_pop), "C11 parse: accepted length is exactly 2 + ceil(n/8) + 32 (1 + m)");
            }
            /* accept side: a canonical encoding is accepted; without the bit count only lengths that fit no m may be rejected */
            if (counted && inputlen == 2 + s_nb + 32 * (1 + g_cb_ret)) __CPROVER_assert(ret == 1, "C11 parse: every canonical encoding is accepted");
            if (gates && ret == 0 && g_cb_n == 0) __CPROVER_assert(inputlen < 2 + s_nb + 32 || (inputlen - 2 - s_nb) % 32 != 0 || inputlen > 2 + s_nb + 32 * (1 + 8 * s_nb), "C11 parse: a rejection that does not consult the bit count concerns a length that fits no bit count");
        }
        if (ret) {
            __CPROVER_assert(secp256k1_surjectionproof_n_total_inputs(&ctx, &proof) == s_n && proof.n_inputs <= SECP256K1_SURJECTIONPROOF_MAX_N_INPUTS, "C11 parse: accepted object reports n_inputs = b0 + 256 b1 and is a valid proof object (n_inputs <= 256)");
#ifdef EL_CONTENT   /* thorough tier, REPRESENTATION LINK used by the verify/generate units (which read e0 and the scalars from the object):
                     * bitmap byte k is stored at used_inputs[k], signature byte k at data[k] (destination-relative watch) */
            if (!wdata && k < s_nb) __CPROVER_assert(proof.used_inputs[k] == input[2 + k], "C11 parse: (representation link) bitmap byte k is stored at used_inputs[k]");
            if (wdata && k < 32 * (1 + s_pop)) __CPROVER_assert(proof.data[k] == input[2 + s_nb + k], "C11 parse: (representation link) signature byte k is stored at data[k]");
#endif
            __CPROVER_assert(32 * (1 + s_pop) <= sizeof(proof.data) && s_nb <= sizeof(proof.used_inputs), "C11 parse: accepted sizes fit the proof object");
        }
        if (ret && s_n == 256 && s_pop == 256) REACH("parse accepts 256 inputs all used");
        if (ret && s_n == 0) REACH("parse accepts the empty proof");
        if (!ret && inputlen >= 2 && s_n <= 256 && s_n % 8 == 3 && inputlen >= 2 + s_nb + 32) REACH("parse rejects on padding or length");
    } else {
        __CPROVER_assert(ret == 0 && g_illegal >= 1, "C11 parse: NULL argument reports illegal use and returns 0");
        REACH("parse NULL argument");
    }
}

/* C11: secp256k1_surjectionproof_initialize - postcondition (BOUNDED exploration: at most IB_DRAWS random draws,
 * n_input_tags_to_use <= 2, n_max_iterations <= 2; the three nested retry loops have no bound of their own):
 *   ret > 0  => *input_index < n_input_tags, bit *input_index is selected, tags[*input_index] equals the output
 *               tag, exactly n_input_tags_to_use inputs are selected, ret <= n_max_iterations, the object is a
 *               valid proof object for n_input_tags inputs (no bit at a position >= n_input_tags);
 *   n_input_tags > 256, n_input_tags_to_use > n_input_tags, NULL => illegal callback and 0;
 *   the sampler is only ever asked for a non-empty range (it divides by the range).
 * secp256k1_surjectionproof_csprng_next: ORACLE (SHA-256 rejection sampler): result < rand_max. */
#include "assumed.h"
#include "src/secp256k1.c"
#ifndef IB_TAGS
#define IB_TAGS 8
#endif
#ifndef IB_DRAWS
#define IB_DRAWS 3
#endif
size_t g_cs_n;
/* contract attached after the definition: the csprng type is declared inside the module source */
static size_t secp256k1_surjectionproof_csprng_next(const secp256k1_hash_ctx *hash_ctx, secp256k1_surjectionproof_csprng *csprng, size_t rand_max)
__CPROVER_requires(hash_ctx != NULL && __CPROVER_rw_ok(csprng, sizeof(*csprng)) && rand_max >= 1)
__CPROVER_assigns(*csprng, g_cs_n)
__CPROVER_ensures(__CPROVER_return_value < rand_max)
__CPROVER_ensures(g_cs_n == __CPROVER_old(g_cs_n) + 1 && g_cs_n <= IB_DRAWS)     /* exploration budget (bounded unit) */
;
#include "post.h"

void h_sjp_initialize(void) {
    secp256k1_context ctx;
    secp256k1_surjectionproof proof;
    INPUT(size_t, n_tags); INPUT(size_t, n_use); INPUT(size_t, n_iter); INPUT(secp256k1_fixed_asset_tag, outtag); INPUT_ARR(unsigned char, seed, 32);
    INPUT(size_t, gk); INPUT(int, nullsel);
    secp256k1_fixed_asset_tag *tags; size_t idx = 0, t, pop = 0; int ret;
    __CPROVER_assume(n_tags <= IB_TAGS && n_use <= 2 && n_iter <= 2 && gk < 32);
    tags = malloc(n_tags ? n_tags * sizeof(secp256k1_fixed_asset_tag) : 1); __CPROVER_assume(tags != NULL);
    verif_ctx_init(&ctx);
    ctx.hash_ctx.fn_sha256_compression = secp256k1_sha256_transform;
    g_cs_n = 0;
    if (nullsel == 0) {
        ret = secp256k1_surjectionproof_initialize(&ctx, &proof, &idx, tags, n_tags, n_use, &outtag, n_iter, seed);
        __CPROVER_assert(g_error == 0, "C11 initialize: error callback never invoked");
        if (n_tags > SECP256K1_SURJECTIONPROOF_MAX_N_INPUTS || n_use > n_tags)
            __CPROVER_assert(ret == 0 && g_illegal == 1, "C11 initialize: more than 256 inputs or more inputs to use than inputs reports illegal use and returns 0");
        else {
            __CPROVER_assert(g_illegal == 0, "C11 initialize: no callback for valid arguments");
            __CPROVER_assert(ret >= 0 && (size_t)ret <= n_iter + (n_iter == 0), "C11 initialize: the result is 0 or an iteration count within the limit");
            if (ret > 0) {
                __CPROVER_assert(idx < n_tags && ((proof.used_inputs[idx / 8] >> (idx % 8)) & 1), "C11 initialize: success reports the index of a selected input");
                __CPROVER_assert(tags[idx].data[gk] == outtag.data[gk], "C11 initialize: the reported input equals the output tag");
                __CPROVER_assert(secp256k1_surjectionproof_n_total_inputs(&ctx, &proof) == n_tags, "C11 initialize: the proof is over n_input_tags inputs");
                for (t = 0; t < 256; t++) if ((proof.used_inputs[t / 8] >> (t % 8)) & 1) { pop++; __CPROVER_assert(t < n_tags, "C11 initialize: only inputs below n_input_tags are selected (valid proof object)"); }
                __CPROVER_assert(pop == n_use, "C11 initialize: exactly n_input_tags_to_use inputs are selected");
            }
        }
        if (ret == 2) REACH("initialize succeeds in the second iteration");
        if (ret == 1 && n_use == 2 && g_cs_n == 3) REACH("initialize succeeds after one duplicate draw");
        if (ret == 0 && n_use >= 1 && n_use <= n_tags && n_tags <= 256) REACH("initialize gives up");
        if (n_tags == 0 && n_use == 0 && ret == 0) REACH("initialize without inputs");
    } else {
        if (nullsel == 1) ret = secp256k1_surjectionproof_initialize(&ctx, NULL, &idx, tags, n_tags, n_use, &outtag, n_iter, seed);
        else if (nullsel == 2) ret = secp256k1_surjectionproof_initialize(&ctx, &proof, NULL, tags, n_tags, n_use, &outtag, n_iter, seed);
        else if (nullsel == 3) ret = secp256k1_surjectionproof_initialize(&ctx, &proof, &idx, NULL, n_tags, n_use, &outtag, n_iter, seed);
        else if (nullsel == 4) ret = secp256k1_surjectionproof_initialize(&ctx, &proof, &idx, tags, n_tags, n_use, NULL, n_iter, seed);
        else ret = secp256k1_surjectionproof_initialize(&ctx, &proof, &idx, tags, n_tags, n_use, &outtag, n_iter, NULL);
        __CPROVER_assert(ret == 0 && g_illegal == 1 && g_error == 0, "C11 initialize: NULL argument reports illegal use and returns 0");
        REACH("initialize NULL argument");
    }
}

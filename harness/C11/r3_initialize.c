/* C11 / C07 r3 (eng_ells_b): secp256k1_surjectionproof_initialize under contract, and the range/bounds
 * contract of its index generator on the real generator code.
 *
 * h_sjp_initialize  (unit C11.r3_initialize)
 *   For EVERY argument pattern (each pointer NULL or an object, every n_input_tags < 2^40 with an exact-size tag list,
 *   every n_input_tags_to_use, every n_max_iterations, every seed, every tag content) the REAL function
 *     - refuses (illegal callback once, returns 0) exactly when include/secp256k1_surjectionproof.h says the call is
 *       illegal: a NULL proof/input_index/fixed_input_tags/fixed_output_tag/random_seed32, n_input_tags > 256 (MAX_N_INPUTS),
 *       n_input_tags_to_use > 256 (MAX_USED_INPUTS) or n_input_tags_to_use > n_input_tags; a legal call raises no callback;
 *     - returns 0 or the iteration count n with 1 <= n <= max(n_max_iterations, 1) (header: "0: inputs could not be
 *       selected; n: inputs were selected after n iterations"; stated for n_max_iterations <= INT_MAX because the count is
 *       a size_t returned as int);
 *     - on success (ret != 0): the proof covers n_input_tags inputs, EXACTLY n_input_tags_to_use bits of the bitmap are
 *       set, none at a position >= n_input_tags, *input_index < n_input_tags is one of the selected positions and
 *       fixed_input_tags[*input_index] equals the output tag in all 32 bytes (C11: "initialization reports success only
 *       with a selected subset that contains an input equal to the output (returning its index)");
 *     - every access to the 32-byte bitmap, the tag list and the generator state is in bounds (cbmc checks).
 *   The index generator secp256k1_surjectionproof_csprng_next is replaced by the frame-only oracle of
 *   contracts/assumed_r3_surj_init.h (arbitrary value < rand_max); csprng_init, memcmp_var and the rest are the real code.
 *   The three input-dependent loops (iterations; subset positions; redraw until a fresh position) are closed by loop
 *   contracts from the unit table. NOT decided: termination (the redraw loop ends only with probability 1: an oracle that
 *   always returns the same index loops forever), the distribution of the subset.
 *
 * h_sjp_csprng_next  (unit C11.r3_csprng_next)
 *   ENFORCES the same oracle contract on the REAL secp256k1_surjectionproof_csprng_next with only
 *   secp256k1_sha256_write/_finalize replaced (frame-only: they overwrite the hash object / 32 output bytes):
 *   for every rand_max in 1..65536 and every state with position <= 32 the result is < rand_max, every state byte read
 *   (1 byte for rand_max <= 256, else 2) is inside the 32-byte state (cbmc bounds check: a missing or late refill reads
 *   past it) and the position stays <= 32. The rejection loop carries a loop contract (position <= 32); its termination
 *   is not decided (probability 1 only). */
#include "pre.h"
#include "assumed_r3_surj_init.h"      /* before the TU: SHA-256 stubs (only with R3_SURJ_SHA_STUBS) */
#include "src/secp256k1.c"
#include "assumed_r3_surj_init.h"      /* after the TU: the generator contract */
#include "post.h"

/* ghost byte position read by the loop invariants (fixed by the harness, never assigned) */
size_t verif_sj_gk, verif_sj_gbit;

#ifndef R3_SURJ_SHA_STUBS
void h_sjp_initialize(void) {
    secp256k1_context ctx;
    INPUT(size_t, n_tags); INPUT(size_t, n_use); INPUT(size_t, n_max_it); INPUT(size_t, idx0); INPUT(size_t, gk); INPUT(size_t, gbit);
    INPUT(_Bool, use_proof); INPUT(_Bool, use_idx); INPUT(_Bool, use_tags); INPUT(_Bool, use_out); INPUT(_Bool, use_seed);
    INPUT(secp256k1_fixed_asset_tag, outtag); INPUT_ARR(unsigned char, seed, 32);
    INPUT(secp256k1_surjectionproof, proof);
    secp256k1_fixed_asset_tag *tags; size_t idx = idx0, pop = 0, t; unsigned b; int ret, legal;

    __CPROVER_assume(n_tags <= ((size_t)1 << 40));      /* the tag list is one allocatable object */
    __CPROVER_assume(gk < 32 && gbit < 256);
    tags = malloc(n_tags * sizeof(secp256k1_fixed_asset_tag));   /* exact size, unconstrained content */
    __CPROVER_assume(tags != NULL);
    verif_ctx_init(&ctx);
    verif_sj_gk = gk; verif_sj_gbit = gbit;

    ret = secp256k1_surjectionproof_initialize(&ctx, use_proof ? &proof : NULL, use_idx ? &idx : NULL, use_tags ? tags : NULL,
                                               n_tags, n_use, use_out ? &outtag : NULL, n_max_it, use_seed ? seed : NULL);

    legal = use_proof && use_idx && use_tags && use_out && use_seed
         && n_tags <= SECP256K1_SURJECTIONPROOF_MAX_N_INPUTS && n_use <= SECP256K1_SURJECTIONPROOF_MAX_USED_INPUTS && n_use <= n_tags;
    if (!legal) {
        __CPROVER_assert(g_illegal == 1 && ret == 0, "C11 r3 initialize: a NULL argument, more than 256 inputs, more than 256 inputs to use or more inputs to use than inputs => illegal callback and 0");
        __CPROVER_assert(g_error == 0, "C11 r3 initialize: no error callback on an illegal call");
    } else {
        __CPROVER_assert(g_illegal == 0 && g_error == 0, "C11 r3 initialize: a documented-legal call raises no callback");
        if (n_max_it <= 0x7fffffff)
            __CPROVER_assert(ret >= 0 && (size_t)ret <= (n_max_it ? n_max_it : 1), "C11 r3 initialize: returns 0 or an iteration count in 1..n_max_iterations");
        if (ret != 0) {
            for (t = 0; t < 32; t++) for (b = 0; b < 8; b++) pop += (proof.used_inputs[t] >> b) & 1;
            __CPROVER_assert(proof.n_inputs == n_tags, "C11 r3 initialize: on success the proof covers n_input_tags inputs");
            __CPROVER_assert(pop == n_use, "C11 r3 initialize: on success exactly n_input_tags_to_use bitmap bits are set");
            if (gbit < 256 && gbit >= n_tags)
                __CPROVER_assert(((proof.used_inputs[gbit / 8] >> (gbit % 8)) & 1) == 0, "C11 r3 initialize: on success no bitmap bit at a position >= n_input_tags is set");
            __CPROVER_assert(idx < n_tags, "C11 r3 initialize: on success *input_index < n_input_tags");
            if (idx < n_tags) {
                __CPROVER_assert(((proof.used_inputs[idx / 8] >> (idx % 8)) & 1) == 1, "C11 r3 initialize: on success input *input_index is in the selected subset");
                __CPROVER_assert(tags[idx].data[gk] == outtag.data[gk], "C11 r3 initialize: on success fixed_input_tags[*input_index] equals the output tag (every byte; ghost index)");
            }
            __CPROVER_assert(n_use >= 1, "C11 r3 initialize: an empty selection never reports success");
        }
    }
    if (!legal && use_proof && use_idx && use_tags && use_out && use_seed && n_tags == 256 && n_use == 257) REACH("initialize refused: 257 inputs to use");
    if (!legal && !use_seed) REACH("initialize refused: NULL seed");
    if (legal && ret == 0 && n_max_it == 3) REACH("initialize gave up after 3 iterations");
    if (legal && ret == 7 && n_tags == 256 && n_use == 256) REACH("initialize success: all 256 inputs after 7 iterations");
    if (legal && ret == 1 && n_tags == 200 && n_use == 3 && idx == 150) REACH("initialize success: 3 of 200, match at 150");
    if (legal && ret == 1 && n_tags == 1 && n_use == 1) REACH("initialize success: single input");
    if (legal && ret == 1 && n_max_it == 0) REACH("initialize: n_max_iterations = 0 still runs one iteration");
}
#endif

#ifdef R3_SURJ_SHA_STUBS
void h_sjp_csprng_next(void) {
    secp256k1_context ctx;
    INPUT(secp256k1_surjectionproof_csprng, rng); INPUT(size_t, rand_max); size_t r, i0;
    verif_ctx_init(&ctx);
    __CPROVER_assume(rand_max >= 1 && rand_max <= 65536 && rng.state_i <= 32);
    i0 = rng.state_i;
    r = secp256k1_surjectionproof_csprng_next(secp256k1_get_hash_context(&ctx), &rng, rand_max);
    __CPROVER_assert(r < rand_max, "C11 r3 csprng_next: result < rand_max");
    __CPROVER_assert(rng.state_i <= 32, "C11 r3 csprng_next: the byte position stays inside the 32-byte state");
    if (rand_max == 256 && r == 255 && i0 == 30 && rng.state_i == 31) REACH("csprng_next one byte");
    if (rand_max == 65536 && i0 == 31 && rng.state_i == 2) REACH("csprng_next two bytes, refill at position 31");
    if (rand_max == 1 && r == 0) REACH("csprng_next rand_max 1");
}
#endif

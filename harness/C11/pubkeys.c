/* C11 / C07: secp256k1_surjection_compute_public_keys for every tag count n <= 256 and every bitmap without
 * bits at positions >= n, with n_pubkeys = number of set bits (what the callers establish):
 *   - writes stay inside pubkeys[0..n_pubkeys) (exact-size heap object), reads inside the tag list and bitmap;
 *   - one ring key per selected input; the result of oracle addition number j is stored at ring position j
 *     (the OPERANDS of that addition, key_j = (-tag_{i_j}) + output, are NOT decided: the bounded unit for them ran out of memory);
 *   - *ring_input_index = rank of input_index among the selected inputs when that input is selected.
 * Loop over the n tags: loop contract from the unit table (no /repo edit). */
#define EL_GEJ_ADD_GE_VAR
#define EL_GEJ_ADD_GE_VAR_LOG
#define EL_GHOST_INDEX
#include "assumed_elements.h"
#include "src/secp256k1.c"
#include "post.h"

/* specification table read by the loop invariant: verif_sj_rank[t] = number of set bitmap bits below position t */
size_t verif_sj_rank[257];

#ifndef VERIF_NATIVE
static wide modp(wide v) { wide p = P_(); return v >= p + p ? v - p - p : (v >= p ? v - p : v); }
#endif

void h_sjp_pubkeys(void) {
    INPUT(size_t, n_tags); INPUT(secp256k1_generator, outtag); INPUT(size_t, input_index); INPUT(size_t, ring0); INPUT(_Bool, use_ring); INPUT(size_t, gi);
    struct bm { unsigned char b[32]; }; INPUT(struct bm, used);
    secp256k1_generator *tags; secp256k1_gej *pubkeys; size_t ring = ring0, n_pub, t, idx = 0; int ret, found = 0;
    __CPROVER_assume(n_tags <= 256);
    __CPROVER_assume(n_tags % 8 == 0 || (used.b[(n_tags + 7) / 8 - 1] >> (n_tags % 8)) == 0);
    verif_sj_rank[0] = 0;
    for (t = 0; t < 256; t++) verif_sj_rank[t + 1] = verif_sj_rank[t] + ((t < n_tags) ? ((used.b[t / 8] >> (t % 8)) & 1) : 0);
    n_pub = verif_sj_rank[256];
    tags = malloc(n_tags ? n_tags * sizeof(secp256k1_generator) : 1);
    pubkeys = malloc(n_pub ? n_pub * sizeof(secp256k1_gej) : 1);
    __CPROVER_assume(tags != NULL && pubkeys != NULL);
    g_el_i = gi; g_aj_n = 0; g_aj_seen = 0;
    /* position of the gi-th selected input */
    for (t = 0; t < 256; t++) if (t < n_tags && ((used.b[t / 8] >> (t % 8)) & 1) && verif_sj_rank[t] == gi) { idx = t; found = 1; }
#ifdef PK_RING      /* the prover's call; the verifier passes NULL (the loop contract names *ring_input_index only here) */
    __CPROVER_assume(use_ring);
    ret = secp256k1_surjection_compute_public_keys(pubkeys, n_pub, tags, n_tags, used.b, &outtag, input_index, &ring);
#else
    __CPROVER_assume(!use_ring);
    ret = secp256k1_surjection_compute_public_keys(pubkeys, n_pub, tags, n_tags, used.b, &outtag, input_index, NULL);
#endif
    __CPROVER_assert(ret == 1, "C11 compute_public_keys: succeeds");
    __CPROVER_assert(g_aj_n == n_pub, "C11 compute_public_keys: exactly one ring key per selected input");
    if (use_ring && input_index < n_tags && ((used.b[input_index / 8] >> (input_index % 8)) & 1))
        __CPROVER_assert(ring == verif_sj_rank[input_index] && ring < n_pub, "C11 compute_public_keys: ring index of a selected input is its rank among the selected inputs");
    if (gi < n_pub) {
        __CPROVER_assert(found && g_aj_seen, "C11 compute_public_keys: (harness) ring position gi exists");
        __CPROVER_assert(pubkeys[gi].x.n[0] == g_aj_r.x.n[0] && pubkeys[gi].y.n[0] == g_aj_r.y.n[0], "C11 compute_public_keys: the result of addition number j is what ring position j holds (low limbs of x and y compared: a full 128-byte read at a symbolic position costs 20 M clauses)");
    }
    if (n_pub == 256 && gi == 255) REACH("pubkeys all 256 inputs selected");
    if (n_pub == 0) REACH("pubkeys none selected");
#ifdef PK_RING
    if (use_ring && ring != ring0) REACH("pubkeys ring index written");
#endif
    if (n_tags == 200 && gi == 3 && idx == 150) REACH("pubkeys sparse selection");
}

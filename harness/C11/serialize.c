/* C11 / C07: secp256k1_surjectionproof_serialize and the parse -> serialize round trip.
 *  h_sjp_serialize : for every VALID proof object (n_inputs <= 256 - what parse/initialize establish)
 *                    and every output capacity: success iff the capacity suffices, written length =
 *                    2 + ceil(n/8) + 32 (1 + m), header bytes, stays inside the buffer.
 *  h_sjp_roundtrip : serialize(parse(b)) == b byte for byte and length for length (ghost index).
 * memcpy replaced by the DESIGN 2.4 contract; count_bits_set by its proved contract. */
#define EL_MEMCPY
#define EL_COUNT_BITS
#define EL_LOG_COUNT_BITS
#include "assumed_elements.h"
#include "src/secp256k1.c"
#include "post.h"
#define MAXLEN 9000

void h_sjp_serialize(void) {
    secp256k1_context ctx;
    INPUT(secp256k1_surjectionproof, proof);
    INPUT(size_t, cap); INPUT(size_t, k); INPUT(int, nullsel);
    size_t outlen, nb, m, want, ssz; unsigned char *out, mc_dummy = 0; int ret;
    __CPROVER_assume(cap <= MAXLEN);
    __CPROVER_assume(proof.n_inputs <= SECP256K1_SURJECTIONPROOF_MAX_N_INPUTS);   /* valid_surjectionproof */
    out = malloc(cap ? cap : 1); __CPROVER_assume(out != NULL);
    outlen = cap;
    verif_ctx_init(&ctx);
    g_mc_watch = &mc_dummy; g_cb_n = 0; g_cb_k = k;
    nb = (proof.n_inputs + 7) / 8;
    if (nullsel == 0) {
        ret = secp256k1_surjectionproof_serialize(&ctx, out, &outlen, &proof);
        __CPROVER_assert(ret == 0 || ret == 1, "C11 serialize: returns 0 or 1");
        __CPROVER_assert(g_illegal == 0 && g_error == 0, "C11 serialize: no callback for non-NULL arguments and a valid proof object");
        __CPROVER_assert(g_cb_n >= 1 && g_cb_count == nb && (k >= nb || g_cb_byte == proof.used_inputs[k]), "C11 serialize: the bit count is taken over the ceil(n/8) bitmap bytes of this proof");
        m = g_cb_ret; want = 2 + nb + 32 * (1 + m);
        __CPROVER_assert(ret == (cap >= want), "C11 serialize: succeeds iff the buffer holds 2 + ceil(n/8) + 32 (1 + m) bytes");
        if (ret) {
            __CPROVER_assert(outlen == want && outlen <= cap, "C11 serialize: reported length is the written length and fits the buffer");
            __CPROVER_assert(out[0] + 256u * out[1] == secp256k1_surjectionproof_n_total_inputs(&ctx, &proof), "C11 serialize: header is the little-endian input count");
        }
        g_cb_n = 0;
        ssz = secp256k1_surjectionproof_serialized_size(&ctx, &proof);
        /* (the two bit counts are the same function of the same bytes by unit C11.count_bits; comparing
         * them here would make the solver re-prove population-count equivalence, 150 s) */
        __CPROVER_assert(ssz == 2 + nb + 32 * (1 + g_cb_ret) && g_cb_n >= 1 && g_cb_count == nb && (k >= nb || g_cb_byte == proof.used_inputs[k]), "C11 serialized_size: equals the length formula 2 + ceil(n/8) + 32 (1 + m)");
        __CPROVER_assert(secp256k1_surjectionproof_n_total_inputs(&ctx, &proof) == proof.n_inputs, "C11 n_total_inputs: is the stored count");
        if (ret && nb == 32 && m == 256) REACH("serialize full proof");
        if (!ret) REACH("serialize buffer too small");
        if (ret && proof.n_inputs == 0) REACH("serialize empty proof");
    } else {
        if (nullsel == 1) ret = secp256k1_surjectionproof_serialize(&ctx, NULL, &outlen, &proof);
        else if (nullsel == 2) ret = secp256k1_surjectionproof_serialize(&ctx, out, NULL, &proof);
        else ret = secp256k1_surjectionproof_serialize(&ctx, out, &outlen, NULL);
        __CPROVER_assert(ret == 0 && g_illegal >= 1 && g_error == 0, "C11 serialize: NULL argument reports illegal use and returns 0");
        REACH("serialize NULL argument");
    }
}

void h_sjp_roundtrip(void) {
    secp256k1_context ctx;
    secp256k1_surjectionproof proof;
    INPUT(size_t, inputlen); INPUT(size_t, k); INPUT(size_t, cap);
    unsigned char *input, *out; size_t outlen; int ret, ret2;
    __CPROVER_assume(inputlen <= MAXLEN && cap <= MAXLEN && cap >= inputlen);
    INPUT_BUF(inw, input, inputlen, 32);
    out = malloc(cap ? cap : 1); __CPROVER_assume(out != NULL);
    outlen = cap;
    verif_ctx_init(&ctx);
    g_cb_n = 0; g_cb_k = k;
    g_mc_watch = &proof.data[k < sizeof(proof.data) ? k : 0];      /* signature byte k on its way in ... (bitmap bytes: exact-32 clause) */
    ret = secp256k1_surjectionproof_parse(&ctx, &proof, input, inputlen);
    WITNESS_BUF(inw, input, inputlen, 32);
    if (ret) {
        size_t nb0 = (secp256k1_surjectionproof_n_total_inputs(&ctx, &proof) + 7) / 8;
        g_mc_watch = (2 + nb0 + k < cap) ? &out[2 + nb0 + k] : &proof.data[0];       /* ... and on its way out */
        ret2 = secp256k1_surjectionproof_serialize(&ctx, out, &outlen, &proof);
        __CPROVER_assert(ret2 == 1 && outlen == inputlen, "C11 roundtrip: a parsed proof serializes to the same length");
        if (k < 2) __CPROVER_assert(out[k] == input[k], "C11 roundtrip: header bytes identical");
        {   size_t nb = nb0;
            if (k < nb) __CPROVER_assert(out[2 + k] == input[2 + k], "C11 roundtrip: bitmap bytes identical");
            if (k < inputlen - 2 - nb) __CPROVER_assert(out[2 + nb + k] == input[2 + nb + k], "C11 roundtrip: signature bytes identical");
        }
        __CPROVER_assert(g_illegal == 0 && g_error == 0, "C11 roundtrip: no callback");
        if (inputlen > 3000 && k == 2500) REACH("roundtrip long proof");
        REACH("roundtrip accepted");
    }
}

/* C11: secp256k1_count_bits_set(data, count) is the number of set bits in the first `count` bytes,
 * for every count <= 32 (the callers pass ceil(n_inputs/8) with n_inputs <= 256) and all bytes.
 * The contract (EL_COUNT_BITS in assumed_elements.h) is ENFORCED here against the real body and
 * replaces the call in the parse/serialize/verify/generate units. */
#define EL_COUNT_BITS
#include "assumed_elements.h"
#include "src/secp256k1.c"
#include "post.h"
void h_count_bits(void) {
    INPUT(size_t, count); unsigned char *data; size_t r;
    __CPROVER_assume(count <= 32);
    INPUT_BUF(dw, data, count, 32);
    r = secp256k1_count_bits_set(data, count);
    WITNESS_BUF(dw, data, count, 32);
    __CPROVER_assert(r <= 8 * count, "C11 count_bits_set: at most 8 bits per byte");
    if (count == 32 && r == 256) REACH("count_bits all set");
    if (count == 0) REACH("count_bits empty");
}

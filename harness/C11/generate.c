/* C11: secp256k1_surjectionproof_generate - gates and wiring (BOUNDED stand-in: proofs over at most GB inputs and
 * tag lists of at most GB + 4 entries, loops unwound):
 *   blinding key >= n => 0; ANY input tag byte-equal to the output tag => 0 (ghost index); no used input =>
 *   illegal; n_used > n_total or n_total != n_tags => 0; failure of key computation / scalar derivation /
 *   ring signing => 0; success => signed with secret (output_key - input_key) mod n at the ring position
 *   of input_index, over the computed keys and the tag commitment, and the proof holds e0 followed by the
 *   n_used scalars the ring signer returned.
 * Valid proof object assumed (n_inputs <= GB, no padding bits).  Replaced: count_bits_set, compute_public_keys,
 * genmessage (proved contracts); genrand, borromean_sign (oracles). */
#define EL_COUNT_BITS
#define EL_LOG_COUNT_BITS
#define EL_SJ_PUBKEYS
#define EL_SJ_GENMSG
#define EL_SJ_GENRAND
#define EL_BORROMEAN_SIGN
#include "assumed_elements.h"
#include "src/secp256k1.c"
#include "post.h"
#ifndef GB
#define GB 8
#endif

void h_sjp_generate(void) {
    secp256k1_context ctx;
    INPUT(secp256k1_surjectionproof, proof);
    INPUT(size_t, n_tags); INPUT(secp256k1_generator, outtag); INPUT(size_t, input_index);
    INPUT_ARR(unsigned char, ikey, 32); INPUT_ARR(unsigned char, okey, 32);
    INPUT(size_t, gi); INPUT(size_t, gk); INPUT(size_t, gb); INPUT(size_t, gt); INPUT(int, nullsel); INPUT(_Bool, built);
    secp256k1_generator *tags; int ret, tag_eq = 0; size_t nb, n_used, j;
    __CPROVER_assume(n_tags <= GB + 4 && proof.n_inputs <= GB && gi < 256);
    nb = (proof.n_inputs + 7) / 8;
    __CPROVER_assume(proof.n_inputs % 8 == 0 || (proof.used_inputs[nb - 1] >> (proof.n_inputs % 8)) == 0);
    tags = malloc(n_tags ? n_tags * sizeof(secp256k1_generator) : 1); __CPROVER_assume(tags != NULL);
    verif_ctx_init(&ctx);
    ctx.hash_ctx.fn_sha256_compression = secp256k1_sha256_transform;
    ctx.ecmult_gen_ctx.built = built;
    g_el_i = gi; g_el_k = gk; g_el_b = gb; g_cb_k = gk; g_cb_n = 0; g_cb_ret = 0; g_cb_count = 0;
    g_pk_n = 0; g_gm_n = 0; g_gr_n = 0; g_bs_n = 0; g_pk_tags_expect = tags; g_gm_tags_expect = tags;
    if (gt < n_tags) { tag_eq = 1; for (j = 0; j < 64; j++) if (tags[gt].data[j] != outtag.data[j]) tag_eq = 0; }
    if (nullsel == 0 && built) {
        ret = secp256k1_surjectionproof_generate(&ctx, &proof, tags, n_tags, &outtag, input_index, ikey, okey);
        __CPROVER_assert(ret == 0 || ret == 1, "C11 generate: returns 0 or 1");
        __CPROVER_assert(g_error == 0, "C11 generate: error callback never invoked");
        n_used = g_cb_ret;
        if (g_cb_n >= 1 && n_used == 0) __CPROVER_assert(ret == 0, "C11 generate: a proof object without a used input yields no proof");
        else {
            __CPROVER_assert(g_illegal == 0, "C11 generate: no callback for non-NULL arguments and an initialized proof object");
#ifndef VERIF_NATIVE
            {   wide n = N_(), ik = be256(ikey), ok = be256(okey);
                if (ik >= n || ok >= n) __CPROVER_assert(ret == 0, "C11 generate: blinding key >= n refused");
                if (tag_eq) __CPROVER_assert(ret == 0, "C11 generate: ANY input tag byte-equal to the output tag refuses (ghost index over the tag list)");
                if (n_used > proof.n_inputs || proof.n_inputs != n_tags) __CPROVER_assert(ret == 0, "C11 generate: more used than total inputs or tag-count mismatch refused");
                if (g_pk_n >= 1 && g_pk_ret == 0) __CPROVER_assert(ret == 0, "C11 generate: key computation failure refused");
                if (g_gr_n >= 1 && g_gr_ret == 0) __CPROVER_assert(ret == 0, "C11 generate: scalar derivation failure refused");
                if (g_bs_n >= 1 && g_bs_ret == 0) __CPROVER_assert(ret == 0, "C11 generate: ring signing failure refused");
                if (ret == 0) {   /* completeness of the gates: the property promises a proof for matching keys, "all blinding keys including 0";
                                   * so a refusal must have one of the causes the function documents (any_eq: scan of the whole bounded tag list) */
                    int any_eq = 0; size_t q, w;
                    for (q = 0; q < GB + 4; q++) if (q < n_tags) { int e = 1; for (w = 0; w < 64; w++) if (tags[q].data[w] != outtag.data[w]) e = 0; if (e) any_eq = 1; }
                    __CPROVER_assert(ik >= n || ok >= n || any_eq || n_used > proof.n_inputs || proof.n_inputs != n_tags
                                     || (g_pk_n >= 1 && g_pk_ret == 0) || (g_gr_n >= 1 && g_gr_ret == 0) || (g_bs_n >= 1 && g_bs_ret == 0),
                                     "C11 generate: refuses only for a key >= n, an input tag equal to the output, a count mismatch or a failed key/scalar/ring computation (blinding key 0 is accepted)");
                }
                if (ret == 1) {
                    wide sec = ok + n - ik; if (sec >= n) sec -= n;
                    __CPROVER_assert(g_bs_n >= 1 && g_bs_ret == 1 && g_pk_n >= 1 && g_gm_n >= 1, "C11 generate: success only after a successful ring signature over computed keys and message");
                    __CPROVER_assert(g_pk_npub == n_used && g_pk_ntags == n_tags && g_pk_tags_match && !g_pk_ring_null && g_pk_input_index == input_index && (gb >= 64 || g_pk_out_b == outtag.data[gb]), "C11 generate: ring keys come from the caller's tags, the proof's bitmap, the output tag and input_index");
                    __CPROVER_assert(g_gm_ntags == n_tags && g_gm_tags_match && (gb >= 64 || g_gm_out_b == outtag.data[gb]), "C11 generate: the message is computed over all n input tags and the output tag");
                    __CPROVER_assert(g_bs_nrings == 1 && g_bs_rsize0 == n_used && g_bs_mlen == 32 && g_bs_secidx0 == g_pk_ring, "C11 generate: one ring of n_used, secret position = ring position of input_index");
                    __CPROVER_assert(sval(&g_bs_sec) == sec, "C11 generate: the signing key is (output_key - input_key) mod n");
                    if (gk < 32) __CPROVER_assert(g_bs_m_k == g_gm_msg_k && proof.data[gk] == g_bs_e0_k, "C11 generate: signed message is the tag commitment; the proof starts with the signer's e0");
                    if (gi < n_used) __CPROVER_assert(be256(&proof.data[32 + 32 * gi]) == sval(&g_bs_s_i) && g_bs_pub_x0 == g_pk_key_x0, "C11 generate: scalar i of the proof is the signer's s_i (every ring position), over computed key i");
                }
            }
#endif
        }
        if (ret == 1 && n_used == GB && gi == GB - 1) REACH("generate success with the largest ring of the bounded stand-in");
        if (ret == 0 && tag_eq) REACH("generate refuses an input equal to the output");
        if (ret == 0 && g_bs_n >= 1) REACH("generate signing failure");
#ifndef VERIF_NATIVE
        if (ret == 1 && be256(ikey) == 0) REACH("generate succeeds with an all-zero input blinding key");
#endif
    } else {
        if (nullsel == 0) ret = secp256k1_surjectionproof_generate(&ctx, &proof, tags, n_tags, &outtag, input_index, ikey, okey);   /* unbuilt context */
        else if (nullsel == 1) ret = secp256k1_surjectionproof_generate(&ctx, NULL, tags, n_tags, &outtag, input_index, ikey, okey);
        else if (nullsel == 2) ret = secp256k1_surjectionproof_generate(&ctx, &proof, NULL, n_tags, &outtag, input_index, ikey, okey);
        else if (nullsel == 3) ret = secp256k1_surjectionproof_generate(&ctx, &proof, tags, n_tags, NULL, input_index, ikey, okey);
        else if (nullsel == 4) ret = secp256k1_surjectionproof_generate(&ctx, &proof, tags, n_tags, &outtag, input_index, NULL, okey);
        else ret = secp256k1_surjectionproof_generate(&ctx, &proof, tags, n_tags, &outtag, input_index, ikey, NULL);
        __CPROVER_assert(ret == 0 && g_error == 0, "C11 generate: NULL argument or unbuilt context returns 0");
        if (nullsel != 0) __CPROVER_assert(g_illegal >= 1, "C11 generate: NULL argument reports illegal use");
        REACH("generate illegal use");
    }
}

/* Included by every harness after "secp256k1.c": abort override (turns VERIFY_CHECKs and the default
 * callbacks into obligations), counting callbacks, nondet declarations. */
#ifndef VERIF_POST_H
#define VERIF_POST_H
#ifndef VERIF_NATIVE
void abort(void) { __CPROVER_assert(0, "abort reached (VERIFY_CHECK / default callback)"); __CPROVER_assume(0); }
#endif
static int g_illegal, g_error;
static void cb_illegal(const char *s, void *d) { (void)s; (void)d; g_illegal++; }
static void cb_error(const char *s, void *d) { (void)s; (void)d; g_error++; }
size_t nondet_size(void); _Bool nondet_bool(void); int nondet_int(void); unsigned char nondet_uchar(void);
uint64_t nondet_u64(void); uint32_t nondet_u32(void);
/* a context object whose callbacks count instead of aborting; declassify off; not the static context */
static void verif_ctx_init(secp256k1_context *ctx) {
    ctx->illegal_callback.fn = cb_illegal; ctx->illegal_callback.data = NULL;
    ctx->error_callback.fn = cb_error; ctx->error_callback.data = NULL;
    ctx->declassify = 0;
    g_illegal = 0; g_error = 0;
}
#endif

/* C14 / C07: secp256k1_ecdsa_adaptor_verify - the gate, real code, every pointer NULL or an object with arbitrary bytes.
 * Oracles with logs: ge_set_xquad (curve verdicts of R, R'), secp256k1_dleq_verify (verdict for the statement it was handed;
 * its own gate is C14.dleq_verify), scalar_inverse_var, scalar_mul, ecmult, gej_add_ge_var.
 *   accept => codec accepts the 162 bytes; DLEQ verdict 1 for (s, e, P1 = R', gen2 = Y = enckey, P2 = R);
 *             T = (s'^-1 * m)*G + (s'^-1 * r)*X with m = msg mod n, r = x(R) mod n, X = pubkey; T != infinity; R' - T == infinity */
#define LOG_XQUAD
#define LOG_SCALAR_MUL
#define LOG_SCALAR_INV
#define LOG_GEJ_ADD_GE
#define LOG_DLEQ_VERIFY
#include "assumed_adaptor.h"
#include "src/secp256k1.c"
#include "post.h"
#ifndef VERIF_NATIVE
static wide le256(const unsigned char *b) { wide v = 0; int i; for (i = 31; i >= 0; i--) v = (v << 8) | W(b[i]); return v; }
static wide modn1(wide v) { wide n = N_(); return v >= n ? v - n : v; }
static int is_neg_mod_p(wide a, wide b) { wide p = P_(); int i, hit = 0; for (i = 0; i < 20; i++) hit |= (a + b == (wide)i * p); return hit; }
#endif
void h_verify(void) {
    secp256k1_context ctx;
    INPUT_ARR(unsigned char, sig, 162); INPUT_ARR(unsigned char, msg, 32); INPUT(secp256k1_pubkey, pubkey); INPUT(secp256k1_pubkey, enckey);
    INPUT(_Bool, use_sig); INPUT(_Bool, use_pk); INPUT(_Bool, use_msg); INPUT(_Bool, use_enc);
    int ret;
    verif_ctx_init(&ctx); ctx.hash_ctx.fn_sha256_compression = secp256k1_sha256_transform;
    g_xq_n = 0; g_mul_n = 0; g_inv_n = 0; g_age_n = 0; g_dv_n = 0; g_em_n = 0;
    ret = secp256k1_ecdsa_adaptor_verify(&ctx, use_sig ? sig : NULL, use_pk ? &pubkey : NULL, use_msg ? msg : NULL, use_enc ? &enckey : NULL);
    __CPROVER_assert(ret == 0 || ret == 1, "C07 adaptor_verify: returns 0 or 1");
    __CPROVER_assert(g_error == 0, "C07 adaptor_verify: error callback never invoked");
    if (!use_sig || !use_pk || !use_msg || !use_enc) { __CPROVER_assert(ret == 0 && g_illegal == 1 && g_dv_n == 0 && g_em_n == 0, "C14 adaptor_verify: NULL argument is illegal"); return; }
#ifndef VERIF_NATIVE
    {
        wide p = P_(), n = N_(), Rx = be256(&sig[1]), Rpx = be256(&sig[34]), SP = be256(&sig[66]), E = modn1(be256(&sig[98])), S = be256(&sig[130]), M = modn1(be256(msg));
        int codec_static = (sig[0] == 2 || sig[0] == 3) && Rx < p && modn1(Rx) != 0 && (sig[33] == 2 || sig[33] == 3) && Rpx < p && SP != 0 && SP < n && S < n;
        /* the only callbacks possible are for invalid (zero-x) public key objects, after the signature bytes were accepted */
        __CPROVER_assert(g_illegal == 0 || (ret == 0 && g_illegal == 1 && (le256(&enckey.data[0]) == 0 || le256(&pubkey.data[0]) == 0)), "C07 adaptor_verify: no callback for any signature/message bytes; only an invalid key object is reported");
        if (ret == 1) {
            __CPROVER_assert(codec_static && g_xq_n == 2 && g_xq_v0 == 1 && g_xq_v1 == 1 && fval(&g_xq_x0) == Rx && fval(&g_xq_x1) == Rpx, "C14 adaptor_verify: accepts only strings the codec accepts (canonical R, R' on the curve by verdict, r != 0, 0 < s' < n, DLEQ s < n)");
            __CPROVER_assert(le256(&enckey.data[0]) != 0 && le256(&pubkey.data[0]) != 0, "C14 adaptor_verify: accepts only valid key objects");
        }
        if (g_dv_n >= 1) {
            __CPROVER_assert(codec_static && g_dv_n == 1, "C14 adaptor_verify: DLEQ verification runs once, only on decoded signatures");
            __CPROVER_assert(sval(&g_dv_s) == S && sval(&g_dv_e) == E, "C14 adaptor_verify: DLEQ proof checked is the (e mod n, s) of the signature");
            __CPROVER_assert(!g_dv_p1.infinity && fval(&g_dv_p1.x) == Rpx && !g_dv_p2.infinity && fval(&g_dv_p2.x) == Rx, "C14 adaptor_verify: DLEQ statement is (P1 = R', P2 = R)");
            __CPROVER_assert(!g_dv_gen2.infinity && fval(&g_dv_gen2.x) == le256(&enckey.data[0]) && fval(&g_dv_gen2.y) == le256(&enckey.data[32]), "C14 adaptor_verify: DLEQ second base is the encryption key");
            if (g_dv_ret == 0) __CPROVER_assert(ret == 0 && g_em_n == 0, "C14 adaptor_verify: negative DLEQ verdict rejects before the adaptor equation");
        }
        if (g_em_n >= 1) {
            __CPROVER_assert(g_dv_n == 1 && g_dv_ret == 1 && g_em_n == 1, "C14 adaptor_verify: the adaptor equation is evaluated once, only after a positive DLEQ verdict");
            __CPROVER_assert(g_inv_n == 1 && sval(&g_inv_x0) == SP, "C14 adaptor_verify: the inverted scalar is s'");
            __CPROVER_assert(g_mul_n == 2 && SC_EQ(g_mul_a0, g_inv_r0) && sval(&g_mul_b0) == M && SC_EQ(g_mul_a1, g_inv_r0) && sval(&g_mul_b1) == modn1(Rx), "C14 adaptor_verify: u1 = s'^-1 * (msg mod n), u2 = s'^-1 * (x(R) mod n)");
            __CPROVER_assert(g_em_hna0 && g_em_hng0 && SC_EQ(g_em_na0, g_mul_r1) && SC_EQ(g_em_ng0, g_mul_r0), "C14 adaptor_verify: computes u2*X + u1*G");
            __CPROVER_assert(!g_em_a0.infinity && fval(&g_em_a0.x) == le256(&pubkey.data[0]) && fval(&g_em_a0.y) == le256(&pubkey.data[32]) && fval(&g_em_a0.z) == 1, "C14 adaptor_verify: the point multiplied is the signer's public key");
            if (g_em_r0.infinity) __CPROVER_assert(ret == 0 && g_age_n == 0, "C14 adaptor_verify: derived R' at infinity rejected");
            else {
                __CPROVER_assert(g_age_n == 1 && FE_EQ(g_age_a0.x, g_em_r0.x) && FE_EQ(g_age_a0.z, g_em_r0.z) && is_neg_mod_p(fval(&g_age_a0.y), fval(&g_em_r0.y)) && !g_age_a0.infinity, "C14 adaptor_verify: the derived point is negated ...");
                __CPROVER_assert(!g_age_b0.infinity && fval(&g_age_b0.x) == Rpx && GE_EQ(g_age_b0, g_dv_p1), "C14 adaptor_verify: ... and R' of the signature is added");
                __CPROVER_assert(ret == g_age_r0.infinity, "C14 adaptor_verify: verdict = R' - derived R' is the point at infinity");
            }
        }
        if (ret == 1) __CPROVER_assert(g_em_n == 1 && g_age_n == 1, "C14 adaptor_verify: accepts only through the adaptor equation");
        if (ret == 1 && M != be256(msg)) REACH("adaptor_verify accepts with msg >= n (reduced)");
        if (ret == 0 && g_age_n == 1) REACH("adaptor_verify rejects on the equation");
        if (ret == 0 && g_dv_n == 1 && g_dv_ret == 0) REACH("adaptor_verify rejects on DLEQ");
        if (ret == 0 && g_em_n == 1 && g_em_r0.infinity) REACH("adaptor_verify rejects derived infinity");
        if (g_illegal == 1) REACH("adaptor_verify invalid key object");
    }
#endif
}

/* C14 / C07: secp256k1_ecdsa_adaptor_verify - the gate, real code, every pointer NULL or an object with arbitrary bytes.
 * Oracles with logs: ge_set_xquad (curve verdicts of R, R'), secp256k1_dleq_verify (verdict for the statement it was handed;
 * its own gate is C14.dleq_verify), scalar_inverse_var, scalar_mul, ecmult, gej_add_ge_var.
 * All oracle-usage clauses are over VALUES: calls are identified by their operands, commutative operands in either order,
 * key objects decoded with the TU's own pubkey_load (audit #2, #17).  Both directions:
 *   accept  => codec accepts the 162 bytes (canonical R, R' with positive curve verdicts for THOSE x, r != 0, 0 < s' < n, DLEQ s < n),
 *              keys valid, DLEQ verdict 1 for (s, e mod n, P1 = R', gen2 = Y, P2 = R), T = (s'^-1 m)G + (s'^-1 r)X with m = msg mod n,
 *              T != infinity, R' - T == infinity (verdict of the addition oracle)
 *   all of that => accept  (completeness, audit #28) */
#define LOG_XQUAD
#define LOG_SCALAR_MUL
#define LOG_SCALAR_INV
#define LOG_GEJ_ADD_GE
#define LOG_DLEQ_VERIFY
#include "assumed_adaptor.h"
#include "src/secp256k1.c"
#include "post.h"
#include "../C12/decode.h"
#ifndef VERIF_NATIVE
static int is_neg_mod_p(wide a, wide b) { wide p = P_(); int i, hit = 0; for (i = 0; i < 20; i++) hit |= (a + b == (wide)i * p); return hit; }
#endif
void h_verify(void) {
    secp256k1_context ctx;
    INPUT_ARR(unsigned char, sig, 162); INPUT_ARR(unsigned char, msg, 32); INPUT(secp256k1_pubkey, pubkey); INPUT(secp256k1_pubkey, enckey);
    INPUT(_Bool, use_sig); INPUT(_Bool, use_pk); INPUT(_Bool, use_msg); INPUT(_Bool, use_enc);
    secp256k1_ge X, Y; int ret, pk_valid, enc_valid;
    dec_init(); pk_valid = dec_pubkey(&X, &pubkey); enc_valid = dec_pubkey(&Y, &enckey);
    verif_ctx_init(&ctx); ctx.hash_ctx.fn_sha256_compression = secp256k1_sha256_transform;
    g_xq_n = 0; g_mul_n = 0; g_inv_n = 0; g_age_n = 0; g_dv_n = 0; g_dv_ret = 0; g_em_n = 0;
    ret = secp256k1_ecdsa_adaptor_verify(&ctx, use_sig ? sig : NULL, use_pk ? &pubkey : NULL, use_msg ? msg : NULL, use_enc ? &enckey : NULL);
    __CPROVER_assert(ret == 0 || ret == 1, "C07 adaptor_verify: returns 0 or 1");
    __CPROVER_assert(g_error == 0, "C07 adaptor_verify: error callback never invoked");
    if (!use_sig || !use_pk || !use_msg || !use_enc) { __CPROVER_assert(ret == 0 && g_illegal == 1, "C14 adaptor_verify: NULL argument is illegal"); return; }
#ifndef VERIF_NATIVE
    {
        wide p = P_(), n = N_(), Rx = be256(&sig[1]), Rpx = be256(&sig[34]), SP = be256(&sig[66]), E = modn1_(be256(&sig[98])), S = be256(&sig[130]), M = modn1_(be256(msg)), r = modn1_(Rx);
        int codec_static = (sig[0] == 2 || sig[0] == 3) && Rx < p && r != 0 && (sig[33] == 2 || sig[33] == 3) && Rpx < p && SP != 0 && SP < n && S < n;
        /* curve verdicts, identified by the x they were asked about (either call order) */
        /* (the oracle is not a function: if R and R' share their x, every verdict given for that x must be positive) */
        int m0R = g_xq_n >= 1 && fval(&g_xq_x0) == Rx, m1R = g_xq_n >= 2 && fval(&g_xq_x1) == Rx, m0Rp = g_xq_n >= 1 && fval(&g_xq_x0) == Rpx, m1Rp = g_xq_n >= 2 && fval(&g_xq_x1) == Rpx;
        int vR = (m0R || m1R) && (!m0R || g_xq_v0) && (!m1R || g_xq_v1);
        int vRp = (m0Rp || m1Rp) && (!m0Rp || g_xq_v0) && (!m1Rp || g_xq_v1) && (Rx != Rpx || g_xq_n >= 2);
        int codec_ok = codec_static && vR && vRp;
        int dleq_stmt_ok, eq_ok = 0, T_inf = 0, final_inf = 0;
        /* the only callbacks possible are for invalid key objects */
        __CPROVER_assert(g_illegal == 0 || (ret == 0 && g_illegal == 1 && (!enc_valid || !pk_valid)), "C07 adaptor_verify: no callback for any signature/message bytes; only an invalid key object is reported");
        /* --- what was handed to the oracles, whenever they were used on the way to an acceptance --- */
        dleq_stmt_ok = g_dv_n >= 1 && sval(&g_dv_s) == S && sval(&g_dv_e) == E && !g_dv_p1.infinity && cval4(&g_dv_p1.x) == Rpx && !g_dv_p2.infinity && cval4(&g_dv_p2.x) == Rx &&
                       !g_dv_gen2.infinity && enc_valid && cval4(&g_dv_gen2.x) == cval(&Y.x) && cval4(&g_dv_gen2.y) == cval(&Y.y);
        if (g_em_n >= 1 && g_inv_n >= 1 && g_mul_n >= 2) {
            wide inv = sval(&g_inv_r0), u1, u2; int m0_is_u1;
            /* the two products, in either call order and either operand order */
            m0_is_u1 = pair_eq(sval(&g_mul_a0), sval(&g_mul_b0), inv, M) && pair_eq(sval(&g_mul_a1), sval(&g_mul_b1), inv, r);
            if (m0_is_u1) { u1 = sval(&g_mul_r0); u2 = sval(&g_mul_r1); } else { u1 = sval(&g_mul_r1); u2 = sval(&g_mul_r0); }
            eq_ok = sval(&g_inv_x0) == SP && (m0_is_u1 || (pair_eq(sval(&g_mul_a1), sval(&g_mul_b1), inv, M) && pair_eq(sval(&g_mul_a0), sval(&g_mul_b0), inv, r))) &&
                    g_em_hna0 && sval(&g_em_na0) == u2 && (g_em_hng0 ? sval(&g_em_ng0) : 0) == u1 &&
                    pk_valid && !g_em_a0.infinity && cval4(&g_em_a0.x) == cval(&X.x) && cval4(&g_em_a0.y) == cval(&X.y) && cval4(&g_em_a0.z) == 1;
            T_inf = g_em_r0.infinity;
            if (g_age_n >= 1) {
                final_inf = g_age_r0.infinity;
                eq_ok = eq_ok && !g_age_a0.infinity && cval4(&g_age_a0.x) == cval4(&g_em_r0.x) && FE_EQ(g_age_a0.z, g_em_r0.z) && is_neg_mod_p(fval(&g_age_a0.y), fval(&g_em_r0.y)) &&
                        !g_age_b0.infinity && cval4(&g_age_b0.x) == Rpx && cval4(&g_age_b0.y) == cval4(&g_dv_p1.y);
            }
        }
        /* --- soundness direction --- */
        if (ret == 1) {
            __CPROVER_assert(codec_ok, "C14 adaptor_verify: accepts only strings the codec accepts (canonical R, R' on the curve by verdict for those x, r != 0, 0 < s' < n, DLEQ s < n)");
            __CPROVER_assert(enc_valid && pk_valid, "C14 adaptor_verify: accepts only valid key objects");
            __CPROVER_assert(dleq_stmt_ok && g_dv_ret == 1, "C14 adaptor_verify: accepts only after a positive DLEQ verdict for (s, e mod n; P1 = R', gen2 = encryption key, P2 = R)");
            __CPROVER_assert(g_em_n >= 1 && g_age_n >= 1 && eq_ok, "C14 adaptor_verify: accepts only through the adaptor equation: T = (s'^-1 * msg mod n)*G + (s'^-1 * x(R) mod n)*X, then R' + (-T)");
            __CPROVER_assert(!T_inf && final_inf, "C14 adaptor_verify: accepts only when T is finite and R' - T is the point at infinity (oracle verdict)");
        }
        /* --- completeness direction (audit #28) --- */
        if (codec_ok && enc_valid && pk_valid && dleq_stmt_ok && g_dv_ret == 1 && g_em_n >= 1 && g_age_n >= 1 && eq_ok && !T_inf && final_inf)
            __CPROVER_assert(ret == 1, "C14 adaptor_verify: a decodable signature with valid keys, positive DLEQ verdict and R' - T at infinity IS accepted");
        if (codec_ok && enc_valid && pk_valid) {
            __CPROVER_assert(g_dv_n >= 1 && dleq_stmt_ok, "C14 adaptor_verify: a decodable signature with valid keys always reaches the DLEQ verification of (R', Y, R)");
            if (g_dv_ret == 1) __CPROVER_assert(g_em_n >= 1 && eq_ok && (T_inf || g_age_n >= 1), "C14 adaptor_verify: ... and after a positive DLEQ verdict always reaches the adaptor equation");
            if (g_dv_ret == 1 && !T_inf) __CPROVER_assert(ret == final_inf, "C14 adaptor_verify: ... whose verdict is the result");
            if (g_dv_ret == 1 && T_inf) REACH("adaptor_verify rejects derived infinity");
        }
        if (ret == 1 && M != be256(msg)) REACH("adaptor_verify accepts with msg >= n (reduced)");
        if (ret == 1) REACH("adaptor_verify accepts");
        if (ret == 0 && codec_ok && enc_valid && pk_valid && g_dv_ret == 1 && !T_inf) REACH("adaptor_verify rejects on the equation");
        if (ret == 0 && codec_ok && enc_valid && pk_valid && g_dv_ret == 0) REACH("adaptor_verify rejects on DLEQ");
        if (ret == 0 && codec_static && !vRp) REACH("adaptor_verify rejects R' off the curve");
        if (g_illegal == 1) REACH("adaptor_verify invalid key object");
    }
#endif
}

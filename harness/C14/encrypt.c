/* C14: secp256k1_ecdsa_adaptor_encrypt - the gate, real code, every pointer NULL or an object with arbitrary bytes,
 * default nonce function (over the hash stream contracts) or a caller-supplied one (stub: arbitrary result and output).
 * Oracles with logs: ecmult_const (R = k*Y), ecmult_gen (R' = k*G), ge_set_all_gej, scalar_inverse, scalar_mul,
 * secp256k1_dleq_prove (may fail; yields two scalars).
 *   succeeds exactly when the nonce function succeeded, k != 0, 0 < seckey < n, the DLEQ proof was produced, r != 0 and s' != 0
 *   success => bytes = cbytes(R) || cbytes(R') || s' || e || s with R = k*Y, R' = k*G, DLEQ proof for (k; R', Y, R),
 *              s' = k^-1 * (m + r*d), r = x(R) mod n, m = msg mod n
 * Nothing is demanded about adaptor_sig162 or about which oracles run when the call returns 0 (header and property are silent);
 * oracle calls are identified by operand VALUES, commutative operands in either order (audit #2, #14, #16). */
#define LOG_SCALAR_MUL
#define LOG_SCALAR_INV
#define LOG_ECMULT_GEN
#define LOG_SET_ALL_GEJ
#define ORACLE_DLEQ_PROVE
#define C02_HASHLOG2
#include "assumed_adaptor.h"
#include "assumed_C02.h"
#include "src/secp256k1.c"
#include "post.h"
#include "../C12/decode.h"
size_t g_k;
#ifndef VERIF_NATIVE
static wide le256(const unsigned char *b) { wide v = 0; int i; for (i = 31; i >= 0; i--) v = (v << 8) | W(b[i]); return v; }
static wide modn1(wide v) { wide n = N_(); return v >= n ? v - n : v; }
static wide modp(wide v) { wide p = P_(); int i; for (i = 0; i < 2; i++) if (v >= p) v -= p; return v; }
static void be_bytes(unsigned char *out, wide v) { int i; for (i = 0; i < 32; i++) out[i] = (unsigned char)(v >> (8 * (31 - i))); }
#endif
/* caller-supplied nonce function: arbitrary return value, arbitrary 32 output bytes, writes nothing else */
static int g_stub_n, g_stub_ret; static unsigned char g_stub_nonce[32]; static const unsigned char *g_stub_key, *g_stub_msg; static void *g_stub_data;
static int stub_noncefp(unsigned char *nonce32, const unsigned char *msg32, const unsigned char *key32, const unsigned char *pk33, const unsigned char *algo, size_t algolen, void *data) {
    int i, r = nondet_int();
    (void)pk33; (void)algo; (void)algolen;
    for (i = 0; i < 32; i++) { unsigned char c = nondet_uchar(); nonce32[i] = c; if (g_stub_n == 0) g_stub_nonce[i] = c; }
    if (g_stub_n == 0) { g_stub_ret = r; g_stub_key = key32; g_stub_msg = msg32; g_stub_data = data; }
    g_stub_n++;
    return r;
}
void h_encrypt(void) {
    secp256k1_context ctx;
    INPUT_ARR(unsigned char, asig, 162); INPUT_ARR(unsigned char, seckey, 32); INPUT_ARR(unsigned char, msg, 32); INPUT_ARR(unsigned char, aux, 32); INPUT(secp256k1_pubkey, enckey);
    INPUT(_Bool, use_asig); INPUT(_Bool, use_sk); INPUT(_Bool, use_enc); INPUT(_Bool, use_msg); INPUT(_Bool, use_fp); INPUT(_Bool, use_aux); INPUT(_Bool, built); INPUT(size_t, k);
    secp256k1_ge Y; int ret, enc_valid;
    dec_init(); enc_valid = dec_pubkey(&Y, &enckey);
    verif_ctx_init(&ctx); ctx.ecmult_gen_ctx.built = built; ctx.hash_ctx.fn_sha256_compression = secp256k1_sha256_transform;
    g_k = k; __CPROVER_assume(g_k < 162);
    g_mul_n = 0; g_inv_n = 0; g_gen_n = 0; g_sa_n = 0; g_ec_n = 0; g_dp_n = 0; g_dp_ret = 0; g_stub_n = 0; g_stub_ret = 0; HASHLOG_RESET(); g_we = use_aux ? 1 : 0; g_we2 = 0; g_wpos = 0;
    ret = secp256k1_ecdsa_adaptor_encrypt(&ctx, use_asig ? asig : NULL, use_sk ? seckey : NULL, use_enc ? &enckey : NULL, use_msg ? msg : NULL, use_fp ? stub_noncefp : NULL, use_aux ? aux : NULL);
    __CPROVER_assert(ret == 0 || ret == 1, "C14 adaptor_encrypt: returns 0 or 1");
    __CPROVER_assert(g_error == 0, "C14 adaptor_encrypt: error callback never invoked");
#ifndef VERIF_NATIVE
    if (!use_asig || !use_sk || !use_enc || !use_msg || !built || !enc_valid) {
        __CPROVER_assert(ret == 0 && g_illegal == 1, "C14 adaptor_encrypt: NULL argument, unbuilt context or invalid encryption key object is illegal");
        if (use_asig && use_sk && use_enc && use_msg && built) REACH("adaptor_encrypt invalid enckey");
        return;
    }
    {
        wide n = N_(), D = be256(seckey), M = modn1(be256(msg)), K, sigr, SPv = 0; unsigned char nonce[32]; int fp_ret, i, sk_ok = D != 0 && D < n, wired = 0, good; unsigned char xb[32];
        __CPROVER_assert(g_illegal == 0, "C14 adaptor_encrypt: no callback for valid arguments");
        if (use_fp) { fp_ret = g_stub_n >= 1 && g_stub_ret != 0; for (i = 0; i < 32; i++) nonce[i] = g_stub_nonce[i]; }
        else { fp_ret = g_w_fin; for (i = 0; i < 32; i++) nonce[i] = g_w_dig[i]; }
        K = modn1(be256(nonce));
        sigr = g_sa_n >= 1 ? modn1(cval4(&g_sa_r0.x)) : 0;
        /* the chain R = k*Y, R' = k*G, affine conversion, DLEQ proof for (k; R', Y, R), s' = k^-1 * (r*d + m): products located by their operands */
        if (g_ec_n >= 1 && g_gen_n >= 1 && g_sa_n >= 1 && g_dp_n >= 1 && g_inv_n >= 1 && g_mul_n >= 2) {
            int rd_is_0 = pair_eq(sval(&g_mul_a0), sval(&g_mul_b0), sigr, D);
            wide rd = rd_is_0 ? sval(&g_mul_r0) : sval(&g_mul_r1), t = rd + M >= n ? rd + M - n : rd + M;
            SPv = rd_is_0 ? sval(&g_mul_r1) : sval(&g_mul_r0);
            wired = sval(&g_ec_q0) == K && !g_ec_a0.infinity && cval4(&g_ec_a0.x) == cval(&Y.x) && cval4(&g_ec_a0.y) == cval(&Y.y) &&
                    sval(&g_gen_a0) == K && GEJ_EQ(g_sa_a0, g_ec_r0) && GEJ_EQ(g_sa_a1, g_gen_r0) &&
                    sval(&g_dp_sk) == K && GE_EQ(g_dp_p1, g_sa_r1) && cval4(&g_dp_p2.x) == cval4(&g_sa_r0.x) && cval4(&g_dp_p2.y) == cval4(&g_sa_r0.y) && cval4(&g_dp_gen2.x) == cval(&Y.x) && cval4(&g_dp_gen2.y) == cval(&Y.y) &&
                    (rd_is_0 ? pair_eq(sval(&g_mul_a1), sval(&g_mul_b1), sval(&g_inv_r0), t) : (pair_eq(sval(&g_mul_a1), sval(&g_mul_b1), sigr, D) && pair_eq(sval(&g_mul_a0), sval(&g_mul_b0), sval(&g_inv_r0), t))) &&
                    sval(&g_inv_x0) == K;
        }
        good = fp_ret && K != 0 && sk_ok && g_dp_n >= 1 && g_dp_ret == 1 && sigr != 0 && wired && SPv != 0;
        if (ret == 1) {
            unsigned char want;
            if (use_fp) __CPROVER_assert(g_stub_n >= 1 && g_stub_key == seckey && g_stub_msg == msg && g_stub_data == (use_aux ? aux : NULL), "C14 adaptor_encrypt: the supplied nonce function is called with the caller's key, message and ndata");
            __CPROVER_assert(fp_ret && K != 0 && sk_ok && g_dp_ret == 1 && sigr != 0, "C14 adaptor_encrypt: success only if the nonce function succeeded, k != 0, 0 < seckey < n, the DLEQ proof exists and r != 0");
            __CPROVER_assert(wired, "C14 adaptor_encrypt: success goes through R = k*Y, R' = k*G, DLEQ proof for (k; R', Y, R) and s' = k^-1 * (r*d + msg mod n)");
            __CPROVER_assert(SPv != 0, "C14 adaptor_encrypt: success only if s' != 0");
            if (g_k == 0) want = 2 | (unsigned char)(cval4(&g_sa_r0.y) & 1);
            else if (g_k < 33) { be_bytes(xb, cval4(&g_sa_r0.x)); want = xb[g_k - 1]; }
            else if (g_k == 33) want = 2 | (unsigned char)(cval4(&g_sa_r1.y) & 1);
            else if (g_k < 66) { be_bytes(xb, cval4(&g_sa_r1.x)); want = xb[g_k - 34]; }
            else if (g_k < 98) { be_bytes(xb, SPv); want = xb[g_k - 66]; }
            else if (g_k < 130) { be_bytes(xb, sval(&g_dp_e)); want = xb[g_k - 98]; }
            else { be_bytes(xb, sval(&g_dp_s)); want = xb[g_k - 130]; }
            __CPROVER_assert(asig[g_k] == want, "C14 adaptor_encrypt: output = cbytes(R) || cbytes(R') || s' || e || s");
            if (!use_fp && use_aux) REACH("adaptor_encrypt success, default nonce function with aux");
            if (use_fp) REACH("adaptor_encrypt success, supplied nonce function");
        }
        if (good) __CPROVER_assert(ret == 1, "C14 adaptor_encrypt: with a usable nonce, valid key, DLEQ proof, r != 0 and s' != 0 the call succeeds");
        if (!fp_ret || K == 0 || !sk_ok) __CPROVER_assert(ret == 0, "C14 adaptor_encrypt: nonce function failure, k = 0 or an invalid secret key => 0");
        if (ret == 0 && !fp_ret) REACH("adaptor_encrypt nonce function failed");
        if (ret == 0 && fp_ret && K == 0) REACH("adaptor_encrypt k = 0");
        if (ret == 0 && fp_ret && K != 0 && !sk_ok) REACH("adaptor_encrypt invalid secret key");
        if (ret == 0 && fp_ret && K != 0 && sk_ok && g_dp_n >= 1 && g_dp_ret == 0) REACH("adaptor_encrypt DLEQ failure");
        if (ret == 0 && fp_ret && K != 0 && sk_ok && g_dp_ret == 1 && sigr == 0 && g_sa_n >= 1) REACH("adaptor_encrypt r = 0");
        if (ret == 0 && fp_ret && K != 0 && sk_ok && g_dp_ret == 1 && sigr != 0 && wired && SPv == 0) REACH("adaptor_encrypt s' = 0");
    }
#endif
}

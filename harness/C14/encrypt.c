/* C14: secp256k1_ecdsa_adaptor_encrypt - the gate, real code, every pointer NULL or an object with arbitrary bytes,
 * default nonce function (over the hash stream contracts) or a caller-supplied one (stub: arbitrary result and output).
 * Oracles with logs: ecmult_const (R = k*Y), ecmult_gen (R' = k*G), ge_set_all_gej, scalar_inverse, scalar_mul,
 * secp256k1_dleq_prove (may fail; yields two scalars).
 *   nonce function returns 0, k = 0, invalid secret key, r = 0, s' = 0 or DLEQ failure => 0 and adaptor_sig162 ALL ZERO
 *   success => bytes = cbytes(R) || cbytes(R') || s' || e || s with s' = k^-1 * (m + r*d), r = x(R) mod n, m = msg mod n */
#define LOG_SCALAR_MUL
#define LOG_SCALAR_INV
#define LOG_ECMULT_GEN
#define LOG_SET_ALL_GEJ
#define ORACLE_DLEQ_PROVE
#define C02_HASHLOG2
#include "assumed_adaptor.h"
#include "assumed_C02.h"
#include "src/secp256k1.c"
#include "post.h"
size_t g_k;
#ifndef VERIF_NATIVE
static wide le256(const unsigned char *b) { wide v = 0; int i; for (i = 31; i >= 0; i--) v = (v << 8) | W(b[i]); return v; }
static wide modn1(wide v) { wide n = N_(); return v >= n ? v - n : v; }
static wide modp(wide v) { wide p = P_(); int i; for (i = 0; i < 2; i++) if (v >= p) v -= p; return v; }
static void be_bytes(unsigned char *out, wide v) { int i; for (i = 0; i < 32; i++) out[i] = (unsigned char)(v >> (8 * (31 - i))); }
#endif
/* caller-supplied nonce function: arbitrary return value, arbitrary 32 output bytes, writes nothing else */
static int g_stub_n, g_stub_ret; static unsigned char g_stub_nonce[32]; static const unsigned char *g_stub_key, *g_stub_msg; static void *g_stub_data;
static int stub_noncefp(unsigned char *nonce32, const unsigned char *msg32, const unsigned char *key32, const unsigned char *pk33, const unsigned char *algo, size_t algolen, void *data) {
    int i, r = nondet_int();
    (void)pk33; (void)algo; (void)algolen;
    for (i = 0; i < 32; i++) { unsigned char c = nondet_uchar(); nonce32[i] = c; if (g_stub_n == 0) g_stub_nonce[i] = c; }
    if (g_stub_n == 0) { g_stub_ret = r; g_stub_key = key32; g_stub_msg = msg32; g_stub_data = data; }
    g_stub_n++;
    return r;
}
void h_encrypt(void) {
    secp256k1_context ctx;
    INPUT_ARR(unsigned char, asig, 162); INPUT_ARR(unsigned char, seckey, 32); INPUT_ARR(unsigned char, msg, 32); INPUT_ARR(unsigned char, aux, 32); INPUT(secp256k1_pubkey, enckey);
    INPUT(_Bool, use_asig); INPUT(_Bool, use_sk); INPUT(_Bool, use_enc); INPUT(_Bool, use_msg); INPUT(_Bool, use_fp); INPUT(_Bool, use_aux); INPUT(_Bool, built); INPUT(size_t, k);
    unsigned char asig0[162]; int ret;
    verif_ctx_init(&ctx); ctx.ecmult_gen_ctx.built = built; ctx.hash_ctx.fn_sha256_compression = secp256k1_sha256_transform;
    g_k = k; __CPROVER_assume(g_k < 162);
    memcpy(asig0, asig, 162);
    g_mul_n = 0; g_inv_n = 0; g_gen_n = 0; g_sa_n = 0; g_ec_n = 0; g_dp_n = 0; g_stub_n = 0; HASHLOG_RESET(); g_we = use_aux ? 1 : 0; g_we2 = 0; g_wpos = 0;
    ret = secp256k1_ecdsa_adaptor_encrypt(&ctx, use_asig ? asig : NULL, use_sk ? seckey : NULL, use_enc ? &enckey : NULL, use_msg ? msg : NULL, use_fp ? stub_noncefp : NULL, use_aux ? aux : NULL);
    __CPROVER_assert(ret == 0 || ret == 1, "C14 adaptor_encrypt: returns 0 or 1");
    __CPROVER_assert(g_error == 0, "C14 adaptor_encrypt: error callback never invoked");
#ifndef VERIF_NATIVE
    if (!use_asig || !use_sk || !use_enc || !use_msg || !built || le256(&enckey.data[0]) == 0) {
        __CPROVER_assert(ret == 0 && g_illegal == 1 && g_ec_n == 0 && g_gen_n == 0, "C14 adaptor_encrypt: NULL argument, unbuilt context or invalid encryption key object is illegal; nothing computed");
        if (use_asig) __CPROVER_assert(asig[g_k] == asig0[g_k], "C14 adaptor_encrypt: illegal call writes nothing");
        if (use_asig && use_sk && use_enc && use_msg && built) REACH("adaptor_encrypt invalid enckey");
        return;
    }
    {
        wide n = N_(), D = be256(seckey), M = modn1(be256(msg)), K, KK, sigr, SPv; unsigned char nonce[32]; int fp_ret, i, bad_nonce, sk_ok = D != 0 && D < n, good; unsigned char xb[32];
        __CPROVER_assert(g_illegal == 0, "C14 adaptor_encrypt: no callback for valid arguments");
        if (use_fp) { __CPROVER_assert(g_stub_n == 1 && g_stub_key == seckey && g_stub_msg == msg && g_stub_data == (use_aux ? aux : NULL), "C14 adaptor_encrypt: the supplied nonce function is called once with the key, message and ndata"); fp_ret = g_stub_ret != 0; for (i = 0; i < 32; i++) nonce[i] = g_stub_nonce[i]; }
        else { __CPROVER_assert(g_w_fin && g_stub_n == 0, "C14 adaptor_encrypt: default nonce function hashes"); fp_ret = 1; for (i = 0; i < 32; i++) nonce[i] = g_w_dig[i]; }
        K = modn1(be256(nonce)); bad_nonce = !fp_ret || K == 0; KK = bad_nonce ? 1 : K;
        __CPROVER_assert(g_ec_n == 1 && sval(&g_ec_q0) == KK && !g_ec_a0.infinity && fe_same_or_normalised(fval(&g_ec_a0.x), le256(&enckey.data[0])) && fe_same_or_normalised(fval(&g_ec_a0.y), le256(&enckey.data[32])), "C14 adaptor_encrypt: R = k*Y with Y the encryption key (k replaced by 1 when the nonce is unusable)");
        __CPROVER_assert(g_gen_n == 1 && sval(&g_gen_a0) == KK, "C14 adaptor_encrypt: R' = k*G with the same k");
        __CPROVER_assert(g_sa_n == 1 && GEJ_EQ(g_sa_a0, g_ec_r0) && GEJ_EQ(g_sa_a1, g_gen_r0), "C14 adaptor_encrypt: (R, R') converted to affine");
        __CPROVER_assert(g_dp_n == 1 && sval(&g_dp_sk) == KK && GE_EQ(g_dp_p1, g_sa_r1) && GE_EQ(g_dp_p2, g_sa_r0) && fe_same_or_normalised(fval(&g_dp_gen2.x), le256(&enckey.data[0])), "C14 adaptor_encrypt: DLEQ proof is for (k; P1 = R', gen2 = Y, P2 = R)");
        if (g_dp_ret == 0) { __CPROVER_assert(ret == 0 && asig[g_k] == 0, "C14 adaptor_encrypt: DLEQ proof failure => 0 and all-zero output"); REACH("adaptor_encrypt DLEQ failure"); return; }
        sigr = modn1(modp(fval(&g_sa_r0.x)));
        __CPROVER_assert(g_mul_n == 2 && sval(&g_mul_a0) == sigr && sval(&g_mul_b0) == (sk_ok && !bad_nonce ? D : 1), "C14 adaptor_encrypt: r*d with r = x(R) mod n and d the secret key");
        { wide t = sval(&g_mul_r0) + M; if (t >= n) t -= n;
          __CPROVER_assert(g_inv_n == 1 && sval(&g_inv_x0) == KK && SC_EQ(g_mul_a1, g_inv_r0) && sval(&g_mul_b1) == t, "C14 adaptor_encrypt: s' = k^-1 * (r*d + msg mod n)"); }
        SPv = sval(&g_mul_r1);
        good = !bad_nonce && sk_ok && sigr != 0 && SPv != 0;
        __CPROVER_assert(ret == good, "C14 adaptor_encrypt: succeeds exactly when the nonce function succeeded, k != 0, 0 < seckey < n, r != 0 and s' != 0");
        if (ret == 0) __CPROVER_assert(asig[g_k] == 0, "C14 adaptor_encrypt: adaptor_sig162 all-zero on every failure");
        else {
            unsigned char want;
            if (g_k == 0) want = 2 | (unsigned char)(modp(fval(&g_sa_r0.y)) & 1);
            else if (g_k < 33) { be_bytes(xb, modp(fval(&g_sa_r0.x))); want = xb[g_k - 1]; }
            else if (g_k == 33) want = 2 | (unsigned char)(modp(fval(&g_sa_r1.y)) & 1);
            else if (g_k < 66) { be_bytes(xb, modp(fval(&g_sa_r1.x))); want = xb[g_k - 34]; }
            else if (g_k < 98) { be_bytes(xb, SPv); want = xb[g_k - 66]; }
            else if (g_k < 130) { be_bytes(xb, sval(&g_dp_e)); want = xb[g_k - 98]; }
            else { be_bytes(xb, sval(&g_dp_s)); want = xb[g_k - 130]; }
            __CPROVER_assert(asig[g_k] == want, "C14 adaptor_encrypt: output = cbytes(R) || cbytes(R') || s' || e || s");
            if (!use_fp && use_aux) REACH("adaptor_encrypt success, default nonce function with aux");
            if (use_fp) REACH("adaptor_encrypt success, supplied nonce function");
        }
        if (ret == 0 && !fp_ret) REACH("adaptor_encrypt nonce function failed");
        if (ret == 0 && fp_ret && K == 0) REACH("adaptor_encrypt k = 0");
        if (ret == 0 && !bad_nonce && !sk_ok) REACH("adaptor_encrypt invalid secret key");
        if (ret == 0 && !bad_nonce && sk_ok && sigr != 0 && SPv == 0) REACH("adaptor_encrypt s' = 0");
    }
#endif
}

/* C14: secp256k1_dleq_verify - gate and challenge hash, real code.
 * Oracles with logs: secp256k1_ecmult (three calls), secp256k1_gej_add_var, secp256k1_ge_set_all_gej_var.
 * sha256_write/_finalize replaced by the stream contracts.
 *   R1 = s*G - e*P1 ; R2 = s*gen2 - e*P2 ; R1 or R2 infinity => 0 (nothing hashed)
 *   e' = int(TaggedHash("DLEQ", cbytes(P1) || cbytes(gen2) || cbytes(P2) || cbytes(R1) || cbytes(R2))) mod n ; accept <=> e' == e (as scalars) */
#define LOG_GEJ_ADD
#define LOG_SET_ALL_GEJ
#define C02_HASHLOG2
#include "assumed_adaptor.h"
#include "assumed_C02.h"
#include "src/secp256k1.c"
#include "post.h"
#ifndef VERIF_NATIVE
static wide modp(wide v) { wide p = P_(); int i; for (i = 0; i < 2; i++) if (v >= p) v -= p; return v; }   /* operands < 3p (magnitude 1) */
static wide negn(wide v) { return v == 0 ? 0 : N_() - v; }
static void be_bytes(unsigned char *out, wide v) { int i; for (i = 0; i < 32; i++) out[i] = (unsigned char)(v >> (8 * (31 - i))); }
#endif
void h_dleq_verify(void) {
    INPUT(secp256k1_scalar, s); INPUT(secp256k1_scalar, e); INPUT(secp256k1_ge, p1); INPUT(secp256k1_ge, gen2); INPUT(secp256k1_ge, p2); INPUT(uint64_t, wpos);
    secp256k1_hash_ctx hc; secp256k1_ge p1_0, gen2_0, p2_0; int ret;
    /* representation invariants: scalars < n; the three points are finite with magnitude-1 coordinates (they come from
     * eckey_pubkey_parse / pubkey_load at the only call site, see C14.verify) */
    __CPROVER_assume(scalar_ok(&s) && scalar_ok(&e) && ge_ok1(&p1) && ge_ok1(&gen2) && ge_ok1(&p2) && !p1.infinity && !gen2.infinity && !p2.infinity);
    p1_0 = p1; gen2_0 = gen2; p2_0 = p2;
    hc.fn_sha256_compression = secp256k1_sha256_transform;
    g_em_n = 0; g_aj_n = 0; g_sa_n = 0; HASHLOG_RESET(); g_we = 0; g_we2 = 0; g_wpos = wpos;
    ret = secp256k1_dleq_verify(&hc, &s, &e, &p1, &gen2, &p2);
    __CPROVER_assert(ret == 0 || ret == 1, "C14 dleq_verify: returns 0 or 1");
#ifndef VERIF_NATIVE
    {
        wide n = N_(), ev = sval(&e), sv = sval(&s);
        __CPROVER_assert(g_em_n == 3 && g_aj_n == 1, "C14 dleq_verify: three multiplications, one addition");
        __CPROVER_assert(g_em_hna0 && g_em_hng0 && sval(&g_em_na0) == negn(ev) && sval(&g_em_ng0) == sv && FE_EQ(g_em_a0.x, p1_0.x) && FE_EQ(g_em_a0.y, p1_0.y) && fval(&g_em_a0.z) == 1 && !g_em_a0.infinity, "C14 dleq_verify: R1 = s*G + (-e)*P1");
        __CPROVER_assert(g_em_hna1 && g_em_hng1 && sval(&g_em_na1) == negn(ev) && sval(&g_em_ng1) == 0 && FE_EQ(g_em_a1.x, p2_0.x) && FE_EQ(g_em_a1.y, p2_0.y) && fval(&g_em_a1.z) == 1 && !g_em_a1.infinity, "C14 dleq_verify: second term of R2 = (-e)*P2, no generator part");
        __CPROVER_assert(g_em_hna2 && g_em_hng2 && sval(&g_em_na2) == sv && sval(&g_em_ng2) == 0 && FE_EQ(g_em_a2.x, gen2_0.x) && FE_EQ(g_em_a2.y, gen2_0.y) && fval(&g_em_a2.z) == 1 && !g_em_a2.infinity, "C14 dleq_verify: first term of R2 = s*gen2, no generator part");
        __CPROVER_assert(GEJ_EQ(g_aj_a0, g_em_r2) && GEJ_EQ(g_aj_b0, g_em_r1), "C14 dleq_verify: R2 is the sum of the two terms");
        if (g_em_r0.infinity || g_aj_r0.infinity) { __CPROVER_assert(ret == 0 && g_fin_n == 0 && g_h_fresh == 1, "C14 dleq_verify: R1 or R2 at infinity => 0, nothing hashed"); REACH("dleq_verify commitment at infinity"); }
        else {
            wide xs[5], ys[5]; unsigned char xb[32]; int j;
            __CPROVER_assert(g_sa_n == 1 && GEJ_EQ(g_sa_a0, g_em_r0) && GEJ_EQ(g_sa_a1, g_aj_r0), "C14 dleq_verify: (R1, R2) converted to affine");
            __CPROVER_assert(g_fin_n == 1 && g_w_started && g_w_b0 == 64 && g_w_s0 == 0x8cc4beacul && g_w_s7 == 0x577fd564ul && g_w_fin && g_w_end == 64 + 165, "C14 dleq_verify: one challenge hash from the DLEQ midstate over 5 compressed points");
            xs[0] = modp(fval(&p1_0.x)); ys[0] = modp(fval(&p1_0.y)); xs[1] = modp(fval(&gen2_0.x)); ys[1] = modp(fval(&gen2_0.y)); xs[2] = modp(fval(&p2_0.x)); ys[2] = modp(fval(&p2_0.y));
            xs[3] = modp(fval(&g_sa_r0.x)); ys[3] = modp(fval(&g_sa_r0.y)); xs[4] = modp(fval(&g_sa_r1.x)); ys[4] = modp(fval(&g_sa_r1.y));
            if (g_wpos >= 64 && g_wpos < 64 + 165) {
                uint64_t q = g_wpos - 64; j = (int)(q / 33);
                be_bytes(xb, xs[j]);
                __CPROVER_assert(g_w_hit && g_w_byte == ((q % 33) == 0 ? (2 | (unsigned char)(ys[j] & 1)) : xb[(q % 33) - 1]), "C14 dleq_verify: challenge hash input = cbytes(P1) || cbytes(gen2) || cbytes(P2) || cbytes(R1) || cbytes(R2)");
                if (j == 4 && (q % 33) == 7) REACH("dleq_verify hash position inside R2");
                if (j == 1 && (q % 33) == 0) REACH("dleq_verify hash position gen2 prefix");
            }
            { wide d = be256(g_w_dig); if (d >= n) d -= n; __CPROVER_assert(ret == (d == ev), "C14 dleq_verify: accept exactly when the recomputed challenge equals e mod n"); }
            if (ret == 1) REACH("dleq_verify accepts");
            if (ret == 0) REACH("dleq_verify challenge mismatch");
        }
    }
#endif
}

/* C14: secp256k1_dleq_verify - gate and challenge hash, real code.
 * Oracles with logs: secp256k1_ecmult (three calls), secp256k1_gej_add_var, secp256k1_ge_set_all_gej_var.
 * sha256_write/_finalize replaced by the STREAM contracts (kept at stream level for cost; this pins "tagged hash through the midstate and
 * sha256_write/finalize": a behaviour-preserving re-implementation of the tagged hash would need this unit to be re-stated - audit #31).
 *   R1 = s*G - e*P1 ; R2 = s*gen2 - e*P2 ; R1 or R2 infinity => 0 (nothing hashed)
 *   e' = int(TaggedHash("DLEQ", cbytes(P1) || cbytes(gen2) || cbytes(P2) || cbytes(R1) || cbytes(R2))) mod n ; accept <=> e' == e (as scalars) */
#define LOG_GEJ_ADD
#define LOG_SET_ALL_GEJ
#define C02_HASHLOG2
#include "assumed_adaptor.h"
#include "assumed_C02.h"
#include "src/secp256k1.c"
#include "post.h"
#ifndef VERIF_NATIVE
static wide modp(wide v) { wide p = P_(); if (v >= 8 * p) v -= 8 * p; if (v >= 4 * p) v -= 4 * p; if (v >= 2 * p) v -= 2 * p; if (v >= p) v -= p; return v; }   /* operands < 16p (magnitude <= 4 is < 10p) */
/* the three multiplications are identified by their OPERAND VALUES, not by call order; a missing generator scalar and a zero one are the same */
struct em_call { wide na, ng; secp256k1_gej a; secp256k1_gej r; };
struct pt_spec { secp256k1_ge g; wide cx, cy; };   /* a point as handed in, and its canonical coordinates */
/* the multiplied point is the given one: same limbs, or its canonical (fully normalised) representation; z = 1 */
static int em_matches(const struct em_call *c, wide na, wide ng, const struct pt_spec *pt) {
    return c->na == na && c->ng == ng && !c->a.infinity && fval(&c->a.z) == 1 &&
           ((FE_EQ(c->a.x, pt->g.x) && FE_EQ(c->a.y, pt->g.y)) || (fval(&c->a.x) == pt->cx && fval(&c->a.y) == pt->cy));
}
static wide negn(wide v) { return v == 0 ? 0 : N_() - v; }
static void be_bytes(unsigned char *out, wide v) { int i; for (i = 0; i < 32; i++) out[i] = (unsigned char)(v >> (8 * (31 - i))); }
#endif
void h_dleq_verify(void) {
    INPUT(secp256k1_scalar, s); INPUT(secp256k1_scalar, e); INPUT(secp256k1_ge, p1); INPUT(secp256k1_ge, gen2); INPUT(secp256k1_ge, p2); INPUT(uint64_t, wpos);
    secp256k1_hash_ctx hc; secp256k1_ge p1_0, gen2_0, p2_0; int ret;
    /* representation invariants: scalars < n; the three points are finite group elements in representation range (x magnitude
     * <= 4, y magnitude <= 3: eckey_pubkey_parse hands out y of magnitude 2 after a parity flip) */
    __CPROVER_assume(scalar_ok(&s) && scalar_ok(&e) && ge_ok(&p1) && ge_ok(&gen2) && ge_ok(&p2) && !p1.infinity && !gen2.infinity && !p2.infinity);
    p1_0 = p1; gen2_0 = gen2; p2_0 = p2;
    hc.fn_sha256_compression = secp256k1_sha256_transform;
    g_em_n = 0; g_aj_n = 0; g_sa_n = 0; HASHLOG_RESET(); g_we = 0; g_we2 = 0; g_wpos = wpos;
    ret = secp256k1_dleq_verify(&hc, &s, &e, &p1, &gen2, &p2);
    __CPROVER_assert(ret == 0 || ret == 1, "C14 dleq_verify: returns 0 or 1");
#ifndef VERIF_NATIVE
    {
        wide n = N_(), ev = sval(&e), sv = sval(&s);
        struct em_call c[3]; int i1 = -1, ia = -1, ib = -1, k;
#define FILL(i) c[i].na = g_em_hna##i ? sval(&g_em_na##i) : 0; c[i].ng = g_em_hng##i ? sval(&g_em_ng##i) : 0; c[i].a = g_em_a##i; c[i].r = g_em_r##i
        struct pt_spec sp1, sgen2, sp2;
        FILL(0); FILL(1); FILL(2);
        sp1.g = p1_0; sp1.cx = modp(fval(&p1_0.x)); sp1.cy = modp(fval(&p1_0.y)); sgen2.g = gen2_0; sgen2.cx = modp(fval(&gen2_0.x)); sgen2.cy = modp(fval(&gen2_0.y));
        sp2.g = p2_0; sp2.cx = modp(fval(&p2_0.x)); sp2.cy = modp(fval(&p2_0.y));
        __CPROVER_assert(g_em_n == 3 && g_aj_n == 1, "C14 dleq_verify: R1 and the two terms of R2 are three multiplications, R2 one addition");
        /* find the roles of the three calls: (i1, ia, ib) = (R1, (-e)*P2, s*gen2); the addition's operands single out the two terms of R2 */
        { static const int perm[6][3] = { {0,1,2}, {0,2,1}, {1,0,2}, {1,2,0}, {2,0,1}, {2,1,0} };
          for (k = 5; k >= 0; k--) {
              int a = perm[k][0], b = perm[k][1], d = perm[k][2];
              if (em_matches(&c[a], negn(ev), sv, &sp1) && em_matches(&c[b], negn(ev), 0, &sp2) && em_matches(&c[d], sv, 0, &sgen2) &&
                  ((GEJ_EQ(g_aj_a0, c[d].r) && GEJ_EQ(g_aj_b0, c[b].r)) || (GEJ_EQ(g_aj_a0, c[b].r) && GEJ_EQ(g_aj_b0, c[d].r)))) { i1 = a; ia = b; ib = d; }
          } }
        __CPROVER_assert(i1 >= 0, "C14 dleq_verify: the three multiplications are R1 = s*G + (-e)*P1, (-e)*P2 and s*gen2 (in any order, no generator part in the last two), and R2 is the sum of the last two");
        if (i1 < 0) return;
#define g_R1 (c[i1].r)
        if (g_R1.infinity || g_aj_r0.infinity) { __CPROVER_assert(ret == 0 && g_fin_n == 0 && g_h_fresh == 1, "C14 dleq_verify: R1 or R2 at infinity => 0, nothing hashed"); REACH("dleq_verify commitment at infinity"); }
        else {
            wide xs[5], ys[5]; unsigned char xb[32]; int j;
            __CPROVER_assert(g_sa_n == 1 && GEJ_EQ(g_sa_a0, g_R1) && GEJ_EQ(g_sa_a1, g_aj_r0), "C14 dleq_verify: (R1, R2) converted to affine");
            __CPROVER_assert(g_fin_n == 1 && g_w_started && g_w_b0 == 64 && g_w_s0 == 0x8cc4beacul && g_w_s7 == 0x577fd564ul && g_w_fin && g_w_end == 64 + 165, "C14 dleq_verify: one challenge hash from the DLEQ midstate over 5 compressed points");
            xs[0] = sp1.cx; ys[0] = sp1.cy; xs[1] = sgen2.cx; ys[1] = sgen2.cy; xs[2] = sp2.cx; ys[2] = sp2.cy;
            xs[3] = modp(fval(&g_sa_r0.x)); ys[3] = modp(fval(&g_sa_r0.y)); xs[4] = modp(fval(&g_sa_r1.x)); ys[4] = modp(fval(&g_sa_r1.y));
            if (g_wpos >= 64 && g_wpos < 64 + 165) {
                uint64_t q = g_wpos - 64; j = (int)(q / 33);
                be_bytes(xb, xs[j]);
                __CPROVER_assert(g_w_hit && g_w_byte == ((q % 33) == 0 ? (2 | (unsigned char)(ys[j] & 1)) : xb[(q % 33) - 1]), "C14 dleq_verify: challenge hash input = cbytes(P1) || cbytes(gen2) || cbytes(P2) || cbytes(R1) || cbytes(R2)");
                if (j == 4 && (q % 33) == 7) REACH("dleq_verify hash position inside R2");
                if (j == 1 && (q % 33) == 0) REACH("dleq_verify hash position gen2 prefix");
            }
            { wide d = be256(g_w_dig); if (d >= n) d -= n; __CPROVER_assert(ret == (d == ev), "C14 dleq_verify: accept exactly when the recomputed challenge equals e mod n"); }
            if (ret == 1) REACH("dleq_verify accepts");
            if (ret == 0) REACH("dleq_verify challenge mismatch");
        }
    }
#endif
}

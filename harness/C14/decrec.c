/* C14 / C07: secp256k1_ecdsa_adaptor_decrypt and secp256k1_ecdsa_adaptor_recover - the gates, real code, every pointer
 * NULL or an object with arbitrary bytes.  Oracles with logs: scalar_inverse, scalar_mul, ecmult_gen, ge_set_gej.
 * Nothing is demanded about output buffers when a call returns 0 (neither header nor property promise anything there);
 * oracle operands are compared as unordered pairs; objects are decoded with the TU's own load functions.
 *  decrypt: succeeds exactly when 0 < deckey < n, x(R) mod n != 0 and 0 < s' < n;
 *           success => (r, s) with r = x(R) mod n, s = +/-(deckey^-1 * s') and s NOT high - for every input (real is_high / cond_negate)
 *  recover: r of the ECDSA signature != x(R) mod n => 0; s = 0 => 0; candidate y = s^-1 * s'; the x of y*G (oracle) must equal
 *           the x of the encryption key, else 0 and nothing written; y negated exactly when the parities differ.
 *           deckey32 is specified only when the call returns 1. */
#define LOG_SCALAR_MUL
#define LOG_SCALAR_INV
#define LOG_ECMULT_GEN
#define LOG_GE_SET_GEJ
#include "assumed_adaptor.h"
#include "src/secp256k1.c"
#include "post.h"
#include "../C12/decode.h"
size_t g_k;
#ifndef VERIF_NATIVE
static wide le256(const unsigned char *b) { wide v = 0; int i; for (i = 31; i >= 0; i--) v = (v << 8) | W(b[i]); return v; }
static wide modn1(wide v) { wide n = N_(); return v >= n ? v - n : v; }
static wide negn(wide v) { return v == 0 ? 0 : N_() - v; }
static wide modp(wide v) { wide p = P_(); int i; for (i = 0; i < 2; i++) if (v >= p) v -= p; return v; }
#endif

void h_decrypt(void) {
    secp256k1_context ctx;
    INPUT(secp256k1_ecdsa_signature, sig); INPUT_ARR(unsigned char, deckey, 32); INPUT_ARR(unsigned char, asig, 162);
    INPUT(_Bool, use_sig); INPUT(_Bool, use_key); INPUT(_Bool, use_asig); INPUT(size_t, k);
    secp256k1_scalar r, s; int ret;
    verif_ctx_init(&ctx);
    g_k = k; __CPROVER_assume(g_k < 64);
    g_mul_n = 0; g_inv_n = 0;
    ret = secp256k1_ecdsa_adaptor_decrypt(&ctx, use_sig ? &sig : NULL, use_key ? deckey : NULL, use_asig ? asig : NULL);
    __CPROVER_assert(ret == 0 || ret == 1, "C07 adaptor_decrypt: returns 0 or 1");
    __CPROVER_assert(g_error == 0, "C07 adaptor_decrypt: error callback never invoked");
    if (!use_sig || !use_key || !use_asig) { __CPROVER_assert(ret == 0 && g_illegal == 1, "C14 adaptor_decrypt: NULL argument is illegal"); return; }
    __CPROVER_assert(g_illegal == 0, "C07 adaptor_decrypt: no callback for any bytes");
#ifndef VERIF_NATIVE
    {
        wide n = N_(), D = be256(deckey), Rx = be256(&asig[1]), SP = be256(&asig[66]);
        int good = D != 0 && D < n && modn1(Rx) != 0 && SP != 0 && SP < n;
        __CPROVER_assert(ret == good, "C14 adaptor_decrypt: succeeds exactly when 0 < deckey < n, x(R) mod n != 0 and 0 < s' < n");
        if (D == 0 || D >= n) __CPROVER_assert(ret == 0, "C14 adaptor_decrypt: deckey = 0 or >= n rejected");
        if (ret == 1) {
            secp256k1_ecdsa_signature_load(&ctx, &r, &s, &sig);
            __CPROVER_assert(scalar_ok(&r) && scalar_ok(&s) && sval(&s) <= (n - 1) / 2, "C14 adaptor_decrypt: the signature handed out is never high-S (for every input)");
            __CPROVER_assert(g_inv_n >= 1 && sval(&g_inv_x0) == D && g_mul_n >= 1 && pair_eq(sval(&g_mul_a0), sval(&g_mul_b0), sval(&g_inv_r0), SP), "C14 adaptor_decrypt: s = deckey^-1 * s'");
            __CPROVER_assert(sval(&r) == modn1(Rx), "C14 adaptor_decrypt: r = x(R) mod n");
            __CPROVER_assert(sval(&s) == sval(&g_mul_r0) || sval(&s) == negn(sval(&g_mul_r0)), "C14 adaptor_decrypt: s is the product or its negation");
            if (sval(&g_mul_r0) > (n - 1) / 2) REACH("adaptor_decrypt negates a high s");
            if (sval(&g_mul_r0) == (n - 1) / 2) REACH("adaptor_decrypt boundary s = (n-1)/2 kept");
        }
        if (D >= n && modn1(Rx) != 0 && SP != 0 && SP < n) REACH("adaptor_decrypt deckey >= n");
        if (D == 0) REACH("adaptor_decrypt deckey zero");
    }
#endif
}

void h_recover(void) {
    secp256k1_context ctx;
    INPUT(secp256k1_ecdsa_signature, rsig); INPUT_ARR(unsigned char, rdeckey, 32); INPUT_ARR(unsigned char, rasig, 162); INPUT(secp256k1_pubkey, enckey);
    INPUT(_Bool, use_sig); INPUT(_Bool, use_key); INPUT(_Bool, use_asig); INPUT(_Bool, use_enc); INPUT(_Bool, built); INPUT(size_t, k);
    secp256k1_scalar r, s; secp256k1_ge Y; int ret, enc_valid;
    dec_init(); enc_valid = dec_pubkey(&Y, &enckey);
    verif_ctx_init(&ctx); ctx.ecmult_gen_ctx.built = built;
    g_k = k; __CPROVER_assume(g_k < 32);
    g_mul_n = 0; g_inv_n = 0; g_gen_n = 0; g_sg_n = 0;
    secp256k1_ecdsa_signature_load(&ctx, &r, &s, &rsig);
    __CPROVER_assume(scalar_ok(&r) && scalar_ok(&s));    /* representation invariant of a secp256k1_ecdsa_signature object (every parser/creator stores scalars < n) */
    ret = secp256k1_ecdsa_adaptor_recover(&ctx, use_key ? rdeckey : NULL, use_sig ? &rsig : NULL, use_asig ? rasig : NULL, use_enc ? &enckey : NULL);
    __CPROVER_assert(ret == 0 || ret == 1, "C07 adaptor_recover: returns 0 or 1");
    __CPROVER_assert(g_error == 0, "C07 adaptor_recover: error callback never invoked");
    if (!use_sig || !use_key || !use_asig || !use_enc || !built) { __CPROVER_assert(ret == 0 && g_illegal == 1, "C14 adaptor_recover: NULL argument or context without generator table is illegal"); return; }
#ifndef VERIF_NATIVE
    {
        wide n = N_(), Rx = be256(&rasig[1]), SP = be256(&rasig[66]);
        int codec_ok = modn1(Rx) != 0 && SP != 0 && SP < n, wired, xmatch, same_par;
        wide cand = sval(&g_mul_r0);
        if (!codec_ok) { __CPROVER_assert(ret == 0 && g_illegal == 0, "C14 adaptor_recover: adaptor signature with r = 0 or s' out of range is refused (no callback)"); REACH("adaptor_recover codec reject"); return; }
        if (!enc_valid) { __CPROVER_assert(ret == 0 && g_illegal == 1, "C14 adaptor_recover: invalid encryption key object is illegal"); REACH("adaptor_recover invalid enckey"); return; }
        __CPROVER_assert(g_illegal == 0, "C07 adaptor_recover: no callback for any signature bytes");
        if (sval(&r) != modn1(Rx)) __CPROVER_assert(ret == 0, "C14 adaptor_recover: ECDSA signature whose r differs from x(R) mod n is refused");
        if (sval(&s) == 0) __CPROVER_assert(ret == 0, "C14 adaptor_recover: ECDSA signature with s = 0 is refused");
        /* candidate y = s^-1 * s', its public key y*G (oracles), compared with the encryption key */
        wired = g_inv_n >= 1 && SC_EQ(g_inv_x0, s) && g_mul_n >= 1 && pair_eq(sval(&g_mul_a0), sval(&g_mul_b0), sval(&g_inv_r0), SP) &&
                g_gen_n >= 1 && SC_EQ(g_gen_a0, g_mul_r0) && g_sg_n >= 1 && GEJ_EQ(g_sg_a0, g_gen_r0);
        xmatch = cval4(&g_sg_r0.x) == cval(&Y.x);
        same_par = (int)(cval4(&g_sg_r0.y) & 1) == (int)(cval(&Y.y) & 1);
        if (ret == 1) {
            __CPROVER_assert(wired, "C14 adaptor_recover: success goes through candidate = s^-1 * s' (s of the ECDSA signature) and its public key candidate*G");
            __CPROVER_assert(xmatch, "C14 adaptor_recover: a candidate whose public key has another x than the encryption key is refused");
            __CPROVER_assert(be256(rdeckey) == (same_par ? cand : negn(cand)), "C14 adaptor_recover: the key handed out is the candidate, negated exactly when its public key is the negation of the encryption key");
            if (!same_par) REACH("adaptor_recover negated candidate (negated-s twin)");
            if (same_par) REACH("adaptor_recover direct candidate");
        }
        /* completeness: matching r, s != 0 and a candidate whose public key has the encryption key's x => accepted */
        if (wired && xmatch && sval(&r) == modn1(Rx) && sval(&s) != 0) __CPROVER_assert(ret == 1, "C14 adaptor_recover: a signature that belongs to the adaptor signature and to the encryption key is accepted");
        if (ret == 0 && wired && xmatch) REACH("adaptor_recover r mismatch with matching x");
        if (ret == 0 && wired && !xmatch) REACH("adaptor_recover x mismatch");
    }
#endif
}

#include <stdio.h>
#include <string.h>
#include <secp256k1.h>
#include <secp256k1_ecdsa_adaptor.h>
int main(void) {
    secp256k1_context *ctx = secp256k1_context_create(SECP256K1_CONTEXT_NONE);
    unsigned char sk[32], dk[32], msg[32], asig[162], out[32], c64[64]; secp256k1_pubkey pk, ek; secp256k1_ecdsa_signature sig, sig2; int i, r, nz = 0, same = 1;
    memset(sk, 0x11, 32); memset(dk, 0x22, 32); memset(msg, 0x33, 32);
    secp256k1_ec_pubkey_create(ctx, &pk, sk); secp256k1_ec_pubkey_create(ctx, &ek, dk);
    r = secp256k1_ecdsa_adaptor_encrypt(ctx, asig, sk, &ek, msg, NULL, NULL); printf("encrypt %d\n", r);
    r = secp256k1_ecdsa_adaptor_verify(ctx, asig, &pk, msg, &ek); printf("verify %d\n", r);
    r = secp256k1_ecdsa_adaptor_decrypt(ctx, &sig, dk, asig); printf("decrypt %d\n", r);
    memset(out, 0xAA, 32); r = secp256k1_ecdsa_adaptor_recover(ctx, out, &sig, asig, &ek); printf("recover ok %d match %d\n", r, memcmp(out, dk, 32) == 0);
    /* unrelated r: change r of the ECDSA signature, keep s */
    secp256k1_ecdsa_signature_serialize_compact(ctx, c64, &sig); c64[31] ^= 1; secp256k1_ecdsa_signature_parse_compact(ctx, &sig2, c64);
    memset(out, 0xAA, 32); r = secp256k1_ecdsa_adaptor_recover(ctx, out, &sig2, asig, &ek);
    for (i = 0; i < 32; i++) { nz |= out[i]; same &= (out[i] == 0xAA); }
    printf("recover with wrong r: ret %d, deckey32 all-zero %d, untouched %d, equals the real decryption key %d\n", r, nz == 0, same, memcmp(out, dk, 32) == 0);
    /* codec failure: s' = 0 */
    memset(asig + 66, 0, 32); memset(out, 0xAA, 32); r = secp256k1_ecdsa_adaptor_recover(ctx, out, &sig, asig, &ek); same = 1; for (i = 0; i < 32; i++) same &= (out[i] == 0xAA);
    printf("recover with s'=0: ret %d, untouched %d\n", r, same);
    return 0;
}

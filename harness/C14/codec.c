/* C14 / C07: the 162-byte adaptor signature codec (R || R' || s' || e || s), real code, every 162-byte string, every
 * combination of requested outputs.  Oracle: secp256k1_ge_set_xquad (curve verdict for an x, logged).
 *   accept <=> [R requested: prefix 2/3, x < p, positive curve verdict for that x] and [r requested: x(R) mod n != 0]
 *              and [R' requested: same as R] and [s' requested: 0 < s' < n] and [DLEQ s requested: s < n]
 *   (the DLEQ challenge e is taken mod n: there is NO range check on e - see the note in the report)
 *   serialize(deserialize(b)) == b on accepted strings whose e is < n */
#define LOG_XQUAD
#include "assumed_adaptor.h"
#include "src/secp256k1.c"
#include "post.h"
size_t g_k;
#ifndef VERIF_NATIVE
static wide modp(wide v) { wide p = P_(); int i; for (i = 0; i < 3; i++) if (v >= p) v -= p; return v; }
static wide modn1(wide v) { wide n = N_(); return v >= n ? v - n : v; }
#endif
void h_codec(void) {
    INPUT_ARR(unsigned char, b, 162);
    INPUT(_Bool, want_r); INPUT(_Bool, want_sigr); INPUT(_Bool, want_rp); INPUT(_Bool, want_sp); INPUT(_Bool, want_e); INPUT(_Bool, want_s); INPUT(size_t, k);
    secp256k1_ge r, rp; secp256k1_scalar sigr, sp, e, s; unsigned char out[162]; int ret;
    g_k = k; __CPROVER_assume(g_k < 162);
    __CPROVER_assume(!want_r || want_sigr);     /* the function's stated precondition (VERIFY_CHECK): R is only requested together with r */
    g_xq_n = 0;
    ret = secp256k1_ecdsa_adaptor_sig_deserialize(want_r ? &r : NULL, want_sigr ? &sigr : NULL, want_rp ? &rp : NULL, want_sp ? &sp : NULL, want_e ? &e : NULL, want_s ? &s : NULL, b);
    __CPROVER_assert(ret == 0 || ret == 1, "C07 adaptor codec: returns 0 or 1");
#ifndef VERIF_NATIVE
    {
        wide p = P_(), n = N_(), Rx = be256(&b[1]), Rpx = be256(&b[34]), SP = be256(&b[66]), E = be256(&b[98]), S = be256(&b[130]);
        int preR = (b[0] == 2 || b[0] == 3) && Rx < p, preRp = (b[33] == 2 || b[33] == 3) && Rpx < p;
        /* curve verdicts identified by the x they were asked about, in either call order (the oracle is not a function: every verdict
         * given for an x must be positive); on REJECT paths nothing is demanded about whether or in which order the oracle was consulted */
        int m0R = g_xq_n >= 1 && fval(&g_xq_x0) == Rx, m1R = g_xq_n >= 2 && fval(&g_xq_x1) == Rx, m0Rp = g_xq_n >= 1 && fval(&g_xq_x0) == Rpx, m1Rp = g_xq_n >= 2 && fval(&g_xq_x1) == Rpx;
        int vR = (m0R || m1R) && (!m0R || g_xq_v0) && (!m1R || g_xq_v1);
        int vRp = (m0Rp || m1Rp) && (!m0Rp || g_xq_v0) && (!m1Rp || g_xq_v1) && (!(want_r && Rx == Rpx) || g_xq_n >= 2);
        int okR = !want_r || (preR && vR), okSigr = !want_sigr || modn1(Rx) != 0, okRp = !want_rp || (preRp && vRp), okSp = !want_sp || (SP != 0 && SP < n), okS = !want_s || S < n;
        __CPROVER_assert(ret == (okR && okSigr && okRp && okSp && okS), "C14 codec: accepted exactly when R, R' are valid encodings with positive curve verdicts for their x, x(R) mod n != 0, 0 < s' < n and DLEQ s < n");
        if (want_sp && (SP == 0 || SP >= n) ) __CPROVER_assert(ret == 0, "C14 codec: s' = 0 or s' >= n rejected");
        if (want_s && S >= n) __CPROVER_assert(ret == 0, "C14 codec: DLEQ response s >= n rejected");
        if (want_sigr && modn1(Rx) == 0) __CPROVER_assert(ret == 0, "C14 codec: x(R) = 0 mod n rejected");
        if (ret == 1) {
            if (want_r) __CPROVER_assert(!r.infinity && fval(&r.x) == Rx, "C14 codec: R has the encoded x");
            if (want_sigr) __CPROVER_assert(sval(&sigr) == modn1(Rx), "C14 codec: r = x(R) mod n");
            if (want_rp) __CPROVER_assert(!rp.infinity && fval(&rp.x) == Rpx, "C14 codec: R' has the encoded x");
            if (want_sp) __CPROVER_assert(sval(&sp) == SP, "C14 codec: s' value");
            if (want_e) __CPROVER_assert(sval(&e) == modn1(E), "C14 codec: e is taken mod n");
            if (want_s) __CPROVER_assert(sval(&s) == S, "C14 codec: DLEQ s value");
            if (want_r && want_rp && want_sp && want_e && want_s) {
                int y0_ok = modp(fval(&g_xq_y0)) != 0 && modp(fval(&g_xq_y1)) != 0 && g_xq_n == 2;   /* no curve point has y = 0; the oracle is free to say so, then parity cannot be honoured */
                secp256k1_ecdsa_adaptor_sig_serialize(out, &r, &rp, &sp, &e, &s);
                if (y0_ok && E < n) __CPROVER_assert(out[g_k] == b[g_k], "C14 codec: serialize(deserialize(b)) == b on accepted strings (e < n)");
                if (E >= n) REACH("codec accepts a string with e >= n (reduced mod n)");
                if (y0_ok && E < n && b[0] == 3 && b[33] == 2) REACH("codec round trip");
            }
        }
        if (ret == 0 && okR && okSigr && okRp && okSp && want_s) REACH("codec rejects DLEQ s >= n");
        if (ret == 0 && !want_r && want_sigr && !want_rp && want_sp && !want_e && !want_s && modn1(Rx) != 0) REACH("codec (decrypt/recover view) rejects bad s'");
        if (ret == 1 && !want_r && want_sigr && !want_rp && want_sp && !want_e && !want_s) REACH("codec (decrypt/recover view) accepts");
    }
#endif
}

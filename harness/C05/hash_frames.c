/* C05 (c): ENFORCEMENT of the contracts that other units use in place of the hashing functions
 * (audit item 22).  A logging contract has ghost clauses the real function cannot satisfy by itself, so
 * each contract - taken VERBATIM from its header by attaching it to a wrapper name - is enforced
 * (--enforce-contract, DFCC checks requires-sufficiency, the assigns frame and every ensures clause) on
 *        wrapper = ghost bookkeeping code (the log semantics, written out once here) + the REAL function.
 * What this proves about the real function: under the contract's requires it is memory safe, it writes
 * nothing outside the contract's frame, and the non-ghost ensures (byte counters) hold.  What it proves
 * about the ghost clauses: they describe exactly the bookkeeping below.
 *   hl_write / hl_finalize        contracts/hash_log.h      (real sha256_write / _finalize, compression = frame stub)
 *   shas_write / shas_finalize    hash_spec.h L3            (same)
 *   core: secp256k1_sha256_write / _finalize CORE contracts enforced directly on the real bodies
 *   hmacs_init / _write / _finalize   hash_spec.h L4        (real hmac functions, SHA calls replaced by CORE)
 * The compression function is verif_compress_frame: arbitrary, reads blocks[0..64n), writes s[0..7]. */
#include "pre.h"
/* attach the header contracts to wrapper names (pre.h is already included, so only the contract
 * declarations are renamed) */
#define secp256k1_sha256_write hl_write
#define secp256k1_sha256_finalize hl_finalize
#include "hash_log.h"
#undef secp256k1_sha256_write
#undef secp256k1_sha256_finalize
#define VERIF_MEMCPY_MODEL
#define HASH_SPEC_STREAM_CONTRACTS
#define HASH_SPEC_HMAC_CONTRACTS
#define secp256k1_sha256_write shas_write
#define secp256k1_sha256_finalize shas_finalize
#define secp256k1_hmac_sha256_initialize hmacs_init
#define secp256k1_hmac_sha256_write hmacs_write
#define secp256k1_hmac_sha256_finalize hmacs_finalize
#include "hash_spec.h"
#undef secp256k1_sha256_write
#undef secp256k1_sha256_finalize
#undef secp256k1_hmac_sha256_initialize
#undef secp256k1_hmac_sha256_write
#undef secp256k1_hmac_sha256_finalize
/* CORE contracts on the real names (same text as in hash_spec.h under HASH_SPEC_CORE_CONTRACTS; that block
 * cannot be re-included because of the include guard) */
static void secp256k1_sha256_write(const secp256k1_hash_ctx *hash_ctx, secp256k1_sha256 *hash, const unsigned char *data, size_t len)
__CPROVER_requires(__CPROVER_rw_ok(hash, sizeof(*hash)) && (len == 0 || __CPROVER_r_ok(data, len)) && hash_ctx != NULL)
__CPROVER_requires(hash->bytes <= UINT64_MAX - len)
__CPROVER_assigns(*hash)
__CPROVER_ensures(hash->bytes == __CPROVER_old(hash->bytes) + len)
;
static void secp256k1_sha256_finalize(const secp256k1_hash_ctx *hash_ctx, secp256k1_sha256 *hash, unsigned char *out32)
__CPROVER_requires(__CPROVER_rw_ok(hash, sizeof(*hash)) && __CPROVER_w_ok(out32, 32) && hash_ctx != NULL)
__CPROVER_assigns(*hash, __CPROVER_object_upto(out32, 32))
;
#define memcpy verif_memcpy64
#include "src/secp256k1.c"
#undef memcpy
#include "post.h"

/* ---------------- wrappers: ghost bookkeeping + real function ---------------- */
static void hl_write(const secp256k1_hash_ctx *hash_ctx, secp256k1_sha256 *hash, const unsigned char *data, size_t len) {
    if (g_h_fresh && g_fin_n == g_we) { g_w_started = 1; g_w_s0 = hash->s[0]; g_w_s7 = hash->s[7]; g_w_b0 = hash->bytes; }
    if (g_fin_n == g_we && hash->bytes <= g_wpos && g_wpos < hash->bytes + len) { g_w_hit = 1; g_w_byte = data[g_wpos - hash->bytes]; }
    g_h_fresh = 0;
    secp256k1_sha256_write(hash_ctx, hash, data, len);
}
static void hl_finalize(const secp256k1_hash_ctx *hash_ctx, secp256k1_sha256 *hash, unsigned char *out32) {
    int n0 = g_fin_n, i; uint64_t end = hash->bytes;
    secp256k1_sha256_finalize(hash_ctx, hash, out32);
    if (n0 == g_we) { g_w_fin = 1; g_w_end = end; for (i = 0; i < 32; i++) g_w_dig[i] = out32[i]; }
    g_fin_n = n0 + 1; g_h_fresh = 1;
}
static void shas_write(const secp256k1_hash_ctx *hash_ctx, secp256k1_sha256 *hash, const unsigned char *data, size_t len) {
    int sel = (g_sfin_n == g_swe && (g_swobj == NULL || g_swobj == hash));
    if (sel && hash->bytes == 0) {
        g_sw_started++;
        g_sw_iv = (hash->s[0] == 0x6a09e667ul && hash->s[1] == 0xbb67ae85ul && hash->s[2] == 0x3c6ef372ul && hash->s[3] == 0xa54ff53aul &&
                   hash->s[4] == 0x510e527ful && hash->s[5] == 0x9b05688cul && hash->s[6] == 0x1f83d9abul && hash->s[7] == 0x5be0cd19ul);
    }
    if (sel && hash->bytes <= g_swpos && g_swpos - hash->bytes < len) { g_sw_hit++; g_sw_byte = data[g_swpos - hash->bytes]; }
    secp256k1_sha256_write(hash_ctx, hash, data, len);
}
static void shas_finalize(const secp256k1_hash_ctx *hash_ctx, secp256k1_sha256 *hash, unsigned char *out32) {
    int n0 = g_sfin_n; uint64_t end = hash->bytes, id = SHAS_ID(hash);
    secp256k1_sha256_finalize(hash_ctx, hash, out32);
    if (n0 == 0) { g_sf_obj0 = id; g_sf_end0 = end; g_sf_byte0 = out32[g_sdk]; }
    if (n0 == 1) { g_sf_obj1 = id; g_sf_end1 = end; g_sf_byte1 = out32[g_sdk]; }
    if (n0 == 2) { g_sf_obj2 = id; g_sf_end2 = end; g_sf_byte2 = out32[g_sdk]; }
    if (n0 == 3) { g_sf_obj3 = id; g_sf_end3 = end; g_sf_byte3 = out32[g_sdk]; }
    g_sfin_n = n0 + 1;
}
static void hmacs_init(const secp256k1_hash_ctx *hash_ctx, secp256k1_hmac_sha256 *hash, const unsigned char *key, size_t keylen) {
    if (g_hfin_n == g_hwe) { g_hk_n++; g_hk_len = keylen; if (g_hkk < keylen) g_hk_byte = key[g_hkk]; }
    secp256k1_hmac_sha256_initialize(hash_ctx, hash, key, keylen);
}
static void hmacs_write(const secp256k1_hash_ctx *hash_ctx, secp256k1_hmac_sha256 *hash, const unsigned char *data, size_t size) {
    uint64_t pos0 = hash->inner.bytes - 64;
    if (g_hfin_n == g_hwe && pos0 <= g_hwpos && g_hwpos - pos0 < size) { g_hw_hit++; g_hw_byte = data[g_hwpos - pos0]; }
    secp256k1_hmac_sha256_write(hash_ctx, hash, data, size);
}
static void hmacs_finalize(const secp256k1_hash_ctx *hash_ctx, secp256k1_hmac_sha256 *hash, unsigned char *out32) {
    int n0 = g_hfin_n; uint64_t mlen = hash->inner.bytes - 64;
    secp256k1_hmac_sha256_finalize(hash_ctx, hash, out32);
    g_hf_last = out32[g_hdk];
    if (n0 == g_hwe) { g_hf_len = mlen; g_hf_cur = out32[g_hdk]; }
    if (n0 == g_hwe - 1) g_hf_prev = out32[g_hdk];
    if (n0 == g_hwe - 2) g_hf_prev2 = out32[g_hdk];
    g_hfin_n = n0 + 1;
}

/* ---------------- entry points: arbitrary objects and arbitrary ghost state ---------------- */
#define SETUP_SHA(h, t) INPUT_ARR(uint32_t, st_##t, 8); INPUT_ARR(unsigned char, bf_##t, 64); INPUT(uint64_t, b0); \
    secp256k1_sha256 h; secp256k1_hash_ctx hc; memcpy(h.s, st_##t, 32); memcpy(h.buf, bf_##t, 64); h.bytes = b0; \
    hc.fn_sha256_compression = verif_compress_frame; \
    g_mc_big = NULL; g_mc_base = (unsigned char *)&h; g_mc_doff = offsetof(secp256k1_sha256, buf)
#define GHOST_INT(x) do { INPUT(int, x##_in); __CPROVER_assume(x##_in >= 0 && x##_in < 1000); x = x##_in; } while (0)

void h_core_write(void) {
    INPUT(size_t, len); unsigned char *data; SETUP_SHA(h, t1);
    __CPROVER_assume(len <= ((size_t)1 << 48)); INPUT_BUF(dcw, data, len, 64);
    secp256k1_sha256_write(&hc, &h, data, len);
    if (len > 100000 && b0 % 64 == 17) REACH("core write: long unaligned");
    REACH("core write end");
}
void h_core_finalize(void) {
    unsigned char out[32]; SETUP_SHA(h, t2);
    secp256k1_sha256_finalize(&hc, &h, out);
    if (b0 % 64 == 60) REACH("core finalize: two padding blocks");
    REACH("core finalize end");
}
void h_hl_write(void) {
    INPUT(size_t, len); INPUT(int, we); INPUT(uint64_t, wpos); INPUT(int, fresh); unsigned char *data; SETUP_SHA(h, t3);
    __CPROVER_assume(len <= ((size_t)1 << 48)); INPUT_BUF(dhw, data, len, 64);
    GHOST_INT(g_fin_n); g_we = we; g_wpos = wpos; g_h_fresh = fresh;
    hl_write(&hc, &h, data, len);
    if (g_w_hit == 1 && wpos == b0 + 70000) REACH("hash_log write: watched position 70000 of this write");
    REACH("hash_log write end");
}
void h_hl_finalize(void) {
    INPUT(int, we); unsigned char out[32]; SETUP_SHA(h, t4);
    GHOST_INT(g_fin_n); g_we = we;
    hl_finalize(&hc, &h, out);
    if (g_w_fin == 1 && g_w_end == b0 && b0 > ((uint64_t)1 << 62)) REACH("hash_log finalize: watched epoch, counter beyond 2^61 (contract has no length precondition)");
    REACH("hash_log finalize end");
}
void h_shas_write(void) {
    INPUT(size_t, len); INPUT(int, we); INPUT(uint64_t, wpos); INPUT(_Bool, anyobj); unsigned char *data; SETUP_SHA(h, t5);
    __CPROVER_assume(len <= ((size_t)1 << 48)); INPUT_BUF(dsw, data, len, 64);
    GHOST_INT(g_sfin_n); GHOST_INT(g_sw_hit); GHOST_INT(g_sw_started); g_swe = we; g_swpos = wpos; g_swobj = anyobj ? (const secp256k1_sha256 *)NULL : &h;
    shas_write(&hc, &h, data, len);
    if (b0 == 0 && g_sw_iv && len > 64) REACH("L3 write: stream start from the IV");
    REACH("L3 write end");
}
void h_shas_finalize(void) {
    INPUT(unsigned, dk); unsigned char out[32]; SETUP_SHA(h, t6);
    __CPROVER_assume(dk < 32); GHOST_INT(g_sfin_n); g_sdk = dk;
    shas_finalize(&hc, &h, out);
    if (g_sfin_n == 3 && g_sf_end2 == b0) REACH("L3 finalize: slot 2");
    REACH("L3 finalize end");
}
#define SETUP_HMAC(hm) secp256k1_hmac_sha256 hm; secp256k1_hash_ctx hc; hc.fn_sha256_compression = verif_compress_frame; g_mc_big = NULL; g_mc_base = NULL
void h_hmacs_init(void) {
    INPUT(size_t, keylen); INPUT(int, we); INPUT(unsigned, kk); unsigned char *key; SETUP_HMAC(hm);
    __CPROVER_assume(keylen <= ((size_t)1 << 40)); INPUT_BUF(khi, key, keylen, 64);
    GHOST_INT(g_hfin_n); GHOST_INT(g_hk_n); g_hwe = we; g_hkk = kk;
    hmacs_init(&hc, &hm, key, keylen);
    if (keylen > 64) REACH("L4 init: long key");
    if (keylen == 64) REACH("L4 init: 64-byte key");
    REACH("L4 init end");
}
void h_hmacs_write(void) {
    INPUT(size_t, size); INPUT(int, we); INPUT(uint64_t, wpos); INPUT(uint64_t, ib0); INPUT(uint64_t, ob0); unsigned char *data; SETUP_HMAC(hm);
    __CPROVER_assume(size <= ((size_t)1 << 48)); INPUT_BUF(dhm, data, size, 64);
    hm.inner.bytes = ib0; hm.outer.bytes = ob0;
    GHOST_INT(g_hfin_n); GHOST_INT(g_hw_hit); g_hwe = we; g_hwpos = wpos;
    hmacs_write(&hc, &hm, data, size);
    if (size > 1000) REACH("L4 write: long");
    REACH("L4 write end");
}
void h_hmacs_finalize(void) {
    INPUT(int, we); INPUT(unsigned, dk); INPUT(uint64_t, ib0); INPUT(uint64_t, ob0); unsigned char out[32]; SETUP_HMAC(hm);
    __CPROVER_assume(dk < 32 && we >= 0);
    hm.inner.bytes = ib0; hm.outer.bytes = ob0;
    GHOST_INT(g_hfin_n); g_hwe = we; g_hdk = dk;
    hmacs_finalize(&hc, &hm, out);
    if (we < 1000 && g_hfin_n == we + 1) REACH("L4 finalize: watched epoch");
    REACH("L4 finalize end");
}

/* C05 (c) L3 consumers: the REAL secp256k1_sha256_initialize_tagged (hash_impl.h) and the API function
 * secp256k1_tagged_sha256 (secp256k1.c), SHA-256 object replaced by the stream contracts of hash_spec.h.
 *
 * TAGGED-HASH LEMMA (BIP-340 tagged hash), for every taglen and EVERY msglen:
 *   initialize_tagged(tag, taglen):  D = digest of the stream [IV; tag[0..taglen)] finalized at taglen; then
 *       the object is re-started from the IV and absorbs D || D (positions 0..31, 32..63), counter 64.
 *   secp256k1_tagged_sha256(hash32, tag, taglen, msg, msglen):  the same, then msg[0..msglen) at positions
 *       64 .. 64+msglen, finalized at exactly 64 + msglen, hash32 = that digest; returns 1.
 *       A NULL hash32/tag/msg is reported through the illegal callback (result then undefined per secp256k1.h).
 *   => hash32 = H(H(tag) || H(tag) || msg).  (A mutant that truncates msg beyond 1000 bytes - measured to
 *   pass all 317 tests - fails "finalized at 64 + msglen" and "every message byte is absorbed".) */
#define HASH_SPEC_STREAM_CONTRACTS
#include "hash_spec.h"
#include "src/secp256k1.c"
#include "post.h"

void h_tagged_init(void) {
    INPUT(size_t, taglen); INPUT(int, we); INPUT(uint64_t, wpos); INPUT(unsigned, dk); INPUT(_Bool, anyobj);
    secp256k1_sha256 h; secp256k1_hash_ctx hc; unsigned char *tag;
    __CPROVER_assume(taglen <= ((size_t)1 << 40));
    __CPROVER_assume(dk < 32 && we >= 0 && we <= 2);
    INPUT_BUF(tagw, tag, taglen, 64);
    hc.fn_sha256_compression = secp256k1_sha256_transform;
    SHAS_RESET(); g_swe = we; g_swobj = anyobj ? (const secp256k1_sha256 *)NULL : &h; g_swpos = wpos; g_sdk = dk;

    secp256k1_sha256_initialize_tagged(&hc, &h, tag, taglen);
    WITNESS_BUF(tagw, tag, taglen, 64);

    __CPROVER_assert(g_sfin_n == 1 && g_sf_obj0 == SHAS_ID(&h) && g_sf_end0 == taglen, "C05 initialize_tagged: one finalization, of the tag stream at exactly taglen bytes");
    __CPROVER_assert(h.bytes == 64, "C05 initialize_tagged: the returned object has absorbed 64 bytes");
    if (we == 0) {
        __CPROVER_assert(g_sw_started == 1 && g_sw_iv, "C05 initialize_tagged: tag stream starts once, from the SHA-256 IV");
        if (wpos < taglen) __CPROVER_assert(g_sw_hit == 1 && g_sw_byte == tag[wpos], "C05 initialize_tagged: tag stream is tag[0..taglen)");
        else __CPROVER_assert(g_sw_hit == 0, "C05 initialize_tagged: nothing else enters the tag stream");
    } else if (we == 1) {
        __CPROVER_assert(g_sw_started == 1 && g_sw_iv, "C05 initialize_tagged: the object is re-started once, from the SHA-256 IV");
        if (wpos < 64) {
            __CPROVER_assert(g_sw_hit == 1, "C05 initialize_tagged: positions 0..63 written exactly once");
            if (wpos % 32 == dk) __CPROVER_assert(g_sw_byte == g_sf_byte0, "C05 initialize_tagged: positions 0..31 and 32..63 are both SHA256(tag)");
        } else __CPROVER_assert(g_sw_hit == 0, "C05 initialize_tagged: nothing beyond the two digests is written");
    } else {
        __CPROVER_assert(g_sw_hit == 0 && g_sw_started == 0, "C05 initialize_tagged: no third epoch");
    }
    if (we == 1 && wpos == 45 && dk == 13) REACH("tagged_init: second copy of the digest");
    if (we == 0 && taglen == 0) REACH("tagged_init: empty tag");
    if (we == 0 && wpos == 70000 && taglen > 70001) REACH("tagged_init: long tag");
    REACH("tagged_init end");
}

void h_tagged_sha256(void) {
    INPUT(size_t, taglen); INPUT(size_t, msglen); INPUT(int, we); INPUT(uint64_t, wpos); INPUT(unsigned, dk);
    INPUT(_Bool, use_out); INPUT(_Bool, use_tag); INPUT(_Bool, use_msg);
    secp256k1_context ctx; unsigned char out[32], *tag, *msg; int ret;
    __CPROVER_assume(taglen <= ((size_t)1 << 40) && msglen <= ((size_t)1 << 40));
    __CPROVER_assume(dk < 32 && we >= 0 && we <= 2);
    INPUT_BUF(tagw, tag, taglen, 64);
    INPUT_BUF(msgw, msg, msglen, 64);
    verif_ctx_init(&ctx); ctx.hash_ctx.fn_sha256_compression = secp256k1_sha256_transform;
    SHAS_RESET(); g_swe = we; g_swobj = NULL; g_swpos = wpos; g_sdk = dk;

    ret = secp256k1_tagged_sha256(&ctx, use_out ? out : NULL, use_tag ? tag : NULL, taglen, use_msg ? msg : NULL, msglen);
    WITNESS_BUF(tagw, tag, taglen, 64);
    WITNESS_BUF(msgw, msg, msglen, 64);

    __CPROVER_assert(g_error == 0, "C05 tagged_sha256: no error callback");
    if (!use_out || !use_tag || !use_msg) {
        __CPROVER_assert(g_illegal >= 1, "C05 tagged_sha256: a NULL argument is reported through the illegal callback");   /* return value and outputs are then undefined (secp256k1.h) */
    } else {
        __CPROVER_assert(ret == 1 && g_illegal == 0, "C05 tagged_sha256: returns 1, no callback");
        __CPROVER_assert(g_sfin_n == 2 && g_sf_end0 == taglen, "C05 tagged_sha256: tag stream finalized at taglen, then one more finalization");
        __CPROVER_assert(g_sf_end1 == 64 + (uint64_t)msglen, "C05 tagged_sha256: message stream finalized at exactly 64 + msglen for every msglen");
        __CPROVER_assert(out[dk] == g_sf_byte1, "C05 tagged_sha256: hash32 is the digest of the message stream");
        if (we == 0) {
            __CPROVER_assert(g_sw_started == 1 && g_sw_iv, "C05 tagged_sha256: tag stream starts from the IV");
            if (wpos < taglen) __CPROVER_assert(g_sw_hit == 1 && g_sw_byte == tag[wpos], "C05 tagged_sha256: tag stream is tag[0..taglen)");
            else __CPROVER_assert(g_sw_hit == 0, "C05 tagged_sha256: nothing else enters the tag stream");
        } else if (we == 1) {
            __CPROVER_assert(g_sw_started == 1 && g_sw_iv, "C05 tagged_sha256: message stream starts from the IV");
            if (wpos < 64 + (uint64_t)msglen) {
                __CPROVER_assert(g_sw_hit == 1, "C05 tagged_sha256: every position of SHA256(tag)||SHA256(tag)||msg is absorbed exactly once");
                if (wpos >= 64) __CPROVER_assert(g_sw_byte == msg[wpos - 64], "C05 tagged_sha256: every message byte is absorbed, at position 64 + i");
                else if (wpos % 32 == dk) __CPROVER_assert(g_sw_byte == g_sf_byte0, "C05 tagged_sha256: the stream begins with SHA256(tag)||SHA256(tag)");
            } else __CPROVER_assert(g_sw_hit == 0, "C05 tagged_sha256: nothing beyond the message is absorbed");
        } else {
            __CPROVER_assert(g_sw_hit == 0 && g_sw_started == 0, "C05 tagged_sha256: no third hash");
        }
        if (we == 1 && wpos == 64 + 5000 && msglen > 5001) REACH("tagged_sha256: message byte 5000 (beyond the 1000-byte truncation mutant)");
        if (msglen == 0 && taglen == 0) REACH("tagged_sha256: empty tag and message");
    }
    if (!use_msg && use_out && use_tag) REACH("tagged_sha256: NULL msg");
    REACH("tagged_sha256 end");
}

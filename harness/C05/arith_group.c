/* C05 (b) group_impl.h magnitude bookkeeping, built with -DVERIFY.
 * Inputs: ANY ge/gej accepted by the repository's own secp256k1_ge_verify / secp256k1_gej_verify (every limb pattern
 * within the permitted magnitudes, every combination of magnitude/normalized fields, infinity 0/1), r possibly
 * aliasing a where callers do that.  Obligations:
 *   - every VERIFY_CHECK reached in the real group code and in the real (non-multiplying) field wrappers, on every
 *     branch (infinity / doubling / equal-x / degenerate): i.e. the magnitude precondition of every field operation;
 *   - the precondition clauses of the magnitude contracts that replace fe_mul, fe_sqr, fe_inv(_var), fe_sqrt;
 *   - the output satisfies ge_verify / gej_verify (restated below as sa_ge_okv / sa_gej_okv).
 * Group-law correctness of the results is NOT claimed (assumed residue). */
#define C05_GROUP_CONTRACTS 1
#include "assumed_C05.h"
/* The failure-reporting fprintf inside VERIFY_CHECK (reached only when a check fails, immediately before abort())
 * is compiled out: CBMC's fprintf model creates ~6 addressed objects per call instance, and the ~700 inlined
 * VERIFY_CHECK instances of gej_add_var exceed the engine's 2^12 object limit.  abort() - the obligation - stays. */
#include <stdio.h>
#define fprintf(...) ((void)0)
#include "src/secp256k1.c"
#include "post.h"

#if !defined(VERIF_NATIVE) && defined(VERIFY)
static int sa_ge_okv(const secp256k1_ge *a) {
    return sa_fe_okv(&a->x) && a->x.magnitude <= SECP256K1_GE_X_MAGNITUDE_MAX && sa_fe_okv(&a->y) && a->y.magnitude <= SECP256K1_GE_Y_MAGNITUDE_MAX
        && (a->infinity == 0 || a->infinity == 1);
}
static int sa_gej_okv(const secp256k1_gej *a) {
    return sa_fe_okv(&a->x) && a->x.magnitude <= SECP256K1_GEJ_X_MAGNITUDE_MAX && sa_fe_okv(&a->y) && a->y.magnitude <= SECP256K1_GEJ_Y_MAGNITUDE_MAX
        && sa_fe_okv(&a->z) && a->z.magnitude <= SECP256K1_GEJ_Z_MAGNITUDE_MAX && (a->infinity == 0 || a->infinity == 1);
}

void h_gej_double(void) {
    INPUT(secp256k1_gej, a); INPUT(_Bool, alias); INPUT(_Bool, var); INPUT(_Bool, use_rzr);
    secp256k1_gej rr, *r = alias ? &a : &rr; secp256k1_fe rzr;
    __CPROVER_assume(sa_gej_okv(&a));
    if (var) secp256k1_gej_double_var(r, &a, use_rzr ? &rzr : NULL);
    else secp256k1_gej_double(r, &a);
    __CPROVER_assert(sa_gej_okv(r), "C05 gej_double(_var): result satisfies gej_verify");
    if (var && use_rzr) __CPROVER_assert(sa_fe_okv(&rzr), "C05 gej_double_var: rzr is a valid field element");
    if (!var && alias && a.infinity) REACH("gej_double aliased infinity");
    if (var && !a.infinity && use_rzr) REACH("gej_double_var with rzr");
    if (var && a.infinity) REACH("gej_double_var infinity");
}
void h_gej_add_var(void) {
    INPUT(secp256k1_gej, a); INPUT(secp256k1_gej, c); INPUT(_Bool, alias); INPUT(_Bool, use_rzr);
    secp256k1_gej rr, *r = alias ? &a : &rr; secp256k1_fe rzr; int ainf, binf;
    __CPROVER_assume(sa_gej_okv(&a) && sa_gej_okv(&c));
    __CPROVER_assume(!(use_rzr && a.infinity));   /* group.h: "a cannot be infinity in that case" */
    ainf = a.infinity; binf = c.infinity;
    secp256k1_gej_add_var(r, &a, &c, use_rzr ? &rzr : NULL);
    __CPROVER_assert(sa_gej_okv(r), "C05 gej_add_var: result satisfies gej_verify");
    if (use_rzr) __CPROVER_assert(sa_fe_okv(&rzr), "C05 gej_add_var: rzr is a valid field element");
    if (ainf) REACH("gej_add_var a infinity");
    if (!ainf && binf) REACH("gej_add_var c infinity");
    if (!ainf && !binf && r->infinity) REACH("gej_add_var result infinity (a = -c)");
    if (!ainf && !binf && !r->infinity && use_rzr) REACH("gej_add_var generic or doubling with rzr");
}
void h_gej_add_ge_var(void) {
    INPUT(secp256k1_gej, a); INPUT(secp256k1_ge, b); INPUT(_Bool, alias); INPUT(_Bool, use_rzr);
    secp256k1_gej rr, *r = alias ? &a : &rr; secp256k1_fe rzr; int ainf, binf;
    __CPROVER_assume(sa_gej_okv(&a) && sa_ge_okv(&b));
    __CPROVER_assume(!(use_rzr && a.infinity));
    ainf = a.infinity; binf = b.infinity;
    secp256k1_gej_add_ge_var(r, &a, &b, use_rzr ? &rzr : NULL);
    __CPROVER_assert(sa_gej_okv(r), "C05 gej_add_ge_var: result satisfies gej_verify");
    if (use_rzr) __CPROVER_assert(sa_fe_okv(&rzr), "C05 gej_add_ge_var: rzr is a valid field element");
    if (ainf) REACH("gej_add_ge_var a infinity");
    if (!ainf && binf) REACH("gej_add_ge_var b infinity");
    if (!ainf && !binf && r->infinity) REACH("gej_add_ge_var result infinity");
    if (!ainf && !binf && !r->infinity) REACH("gej_add_ge_var generic or doubling");
}
void h_gej_add_zinv_var(void) {
    INPUT(secp256k1_gej, a); INPUT(secp256k1_ge, b); INPUT(secp256k1_fe, bzinv); INPUT(_Bool, alias);
    secp256k1_gej rr, *r = alias ? &a : &rr; int ainf, binf;
    __CPROVER_assume(sa_gej_okv(&a) && sa_ge_okv(&b) && sa_fe_okv(&bzinv) && bzinv.magnitude <= 8);
    ainf = a.infinity; binf = b.infinity;
    secp256k1_gej_add_zinv_var(r, &a, &b, &bzinv);
    __CPROVER_assert(sa_gej_okv(r), "C05 gej_add_zinv_var: result satisfies gej_verify");
    if (ainf) REACH("gej_add_zinv_var a infinity");
    if (!ainf && binf) REACH("gej_add_zinv_var b infinity");
    if (!ainf && !binf) REACH("gej_add_zinv_var both finite");
}
void h_gej_add_ge(void) {
    INPUT(secp256k1_gej, a); INPUT(secp256k1_ge, b); INPUT(_Bool, alias);
    secp256k1_gej rr, *r = alias ? &a : &rr; int ainf;
    __CPROVER_assume(sa_gej_okv(&a) && sa_ge_okv(&b) && !b.infinity);   /* group.h: b "not infinity" */
    ainf = a.infinity;
    secp256k1_gej_add_ge(r, &a, &b);
    __CPROVER_assert(sa_gej_okv(r), "C05 gej_add_ge: result satisfies gej_verify");
    if (ainf) REACH("gej_add_ge a infinity");
    if (!ainf && r->infinity) REACH("gej_add_ge result infinity");
    if (!ainf && !r->infinity && alias) REACH("gej_add_ge finite aliased");
}
void h_group_small(void) {
    INPUT(secp256k1_gej, a); INPUT(secp256k1_gej, c); INPUT(secp256k1_ge, b); INPUT(secp256k1_fe, x); INPUT(secp256k1_fe, y); INPUT(int, flag); INPUT(_Bool, alias);
    secp256k1_gej rj, *pj = alias ? &a : &rj; secp256k1_ge rg, *pg = alias ? &b : &rg;
    __CPROVER_assume(sa_gej_okv(&a) && sa_gej_okv(&c) && sa_ge_okv(&b));
    secp256k1_ge_neg(pg, &b);
    __CPROVER_assert(sa_ge_okv(pg), "C05 ge_neg: result satisfies ge_verify");
    secp256k1_gej_neg(pj, &a);
    __CPROVER_assert(sa_gej_okv(pj), "C05 gej_neg: result satisfies gej_verify");
    secp256k1_gej_set_ge(&rj, &b);
    __CPROVER_assert(sa_gej_okv(&rj), "C05 gej_set_ge: result satisfies gej_verify");
    secp256k1_gej_set_infinity(&rj);
    __CPROVER_assert(sa_gej_okv(&rj) && rj.infinity, "C05 gej_set_infinity: valid and infinite");
    secp256k1_ge_set_infinity(&rg);
    __CPROVER_assert(sa_ge_okv(&rg) && rg.infinity, "C05 ge_set_infinity: valid and infinite");
    __CPROVER_assume(flag == 0 || flag == 1);
    secp256k1_gej_cmov(&c, &a, flag);
    __CPROVER_assert(sa_gej_okv(&c), "C05 gej_cmov: result satisfies gej_verify");
    __CPROVER_assume(sa_fe_okv(&x) && sa_fe_okv(&y) && x.magnitude <= SECP256K1_GE_X_MAGNITUDE_MAX && y.magnitude <= SECP256K1_GE_Y_MAGNITUDE_MAX);
    secp256k1_ge_set_xy(&rg, &x, &y);
    __CPROVER_assert(sa_ge_okv(&rg) && !rg.infinity, "C05 ge_set_xy: result satisfies ge_verify");
    secp256k1_ge_mul_lambda(pg, &b);
    __CPROVER_assert(sa_ge_okv(pg), "C05 ge_mul_lambda: result satisfies ge_verify");
    if (flag && alias) REACH("group_small aliased, cmov taken");
    if (b.y.magnitude == 3 && a.y.magnitude == 4) REACH("group_small maximal y magnitudes");
}
void h_ge_set_gej(void) {
    INPUT(secp256k1_gej, a); INPUT(secp256k1_gej, c); INPUT(secp256k1_fe, zi); INPUT(secp256k1_fe, s); INPUT(secp256k1_ge, b); INPUT(_Bool, var);
    secp256k1_ge r;
    __CPROVER_assume(sa_gej_okv(&a) && sa_gej_okv(&c) && sa_ge_okv(&b));
    if (var) secp256k1_ge_set_gej_var(&r, &a); else secp256k1_ge_set_gej(&r, &a);
    __CPROVER_assert(sa_ge_okv(&r) && sa_gej_okv(&a), "C05 ge_set_gej(_var): result satisfies ge_verify, input still satisfies gej_verify");
    /* zinv variants: callers pass an inverse / product (magnitude 1); the weakest precondition of the code is magnitude <= 8 */
    __CPROVER_assume(sa_fe_okv(&zi) && zi.magnitude <= 8 && !c.infinity && !b.infinity);
    secp256k1_ge_set_gej_zinv(&r, &c, &zi);
    __CPROVER_assert(sa_ge_okv(&r), "C05 ge_set_gej_zinv: result satisfies ge_verify");
    secp256k1_ge_set_ge_zinv(&r, &b, &zi);
    __CPROVER_assert(sa_ge_okv(&r), "C05 ge_set_ge_zinv: result satisfies ge_verify");
    /* rescale: s non-zero, magnitude <= 8 */
    __CPROVER_assume(sa_fe_okv(&s) && s.magnitude <= 8 && !secp256k1_fe_normalizes_to_zero_var(&s));
    secp256k1_gej_rescale(&c, &s);
    __CPROVER_assert(sa_gej_okv(&c), "C05 gej_rescale: result satisfies gej_verify");
    if (var && a.infinity) REACH("ge_set_gej_var infinity");
    if (!var) REACH("ge_set_gej constant time");
    if (s.magnitude == 8 && zi.magnitude == 8) REACH("zinv/rescale maximal magnitude");
}
void h_ge_storage(void) {
    INPUT(secp256k1_ge, b); INPUT(secp256k1_ge_storage, st); INPUT(secp256k1_ge_storage, st2); INPUT(int, flag);
    secp256k1_ge r; secp256k1_ge_storage t;
    __CPROVER_assume(sa_ge_okv(&b) && !b.infinity);
    secp256k1_ge_to_storage(&t, &b);
    __CPROVER_assert(stval(&t.x) < P_() && stval(&t.y) < P_(), "C05 ge_to_storage: stored coordinates are canonical");
    __CPROVER_assert(sa_cong_p(stval(&t.x), fval(&b.x)) && sa_cong_p(stval(&t.y), fval(&b.y)), "C05 ge_to_storage: stored coordinates equal the point's coordinates mod p");
    secp256k1_ge_from_storage(&r, &t);
    __CPROVER_assert(sa_ge_okv(&r) && !r.infinity && fval(&r.x) == stval(&t.x) && fval(&r.y) == stval(&t.y), "C05 ge_from_storage(to_storage(b)): valid, same coordinates");
    __CPROVER_assume(stval(&st.x) < P_() && stval(&st.y) < P_());   /* storage invariant */
    secp256k1_ge_from_storage(&r, &st);
    __CPROVER_assert(sa_ge_okv(&r) && !r.infinity, "C05 ge_from_storage: result satisfies ge_verify");
    __CPROVER_assume(flag == 0 || flag == 1);
    t = st;
    secp256k1_ge_storage_cmov(&t, &st2, flag);
    __CPROVER_assert(stval(&t.x) == (flag ? stval(&st2.x) : stval(&st.x)) && stval(&t.y) == (flag ? stval(&st2.y) : stval(&st.y)), "C05 ge_storage_cmov: r = flag ? b : r");
    if (b.x.magnitude == 4 && fval(&b.x) > (P_() << 2)) REACH("ge_to_storage unnormalised x");
    if (flag) REACH("ge_storage_cmov taken");
}
void h_ge_predicates(void) {
    INPUT(secp256k1_gej, a); INPUT(secp256k1_gej, c); INPUT(secp256k1_ge, b); INPUT(secp256k1_ge, d); INPUT(secp256k1_fe, x); INPUT(int, odd);
    secp256k1_ge r; int v;
    __CPROVER_assume(sa_gej_okv(&a) && sa_gej_okv(&c) && sa_ge_okv(&b) && sa_ge_okv(&d));
    v = secp256k1_ge_is_valid_var(&b);
    __CPROVER_assert(v == 0 || v == 1, "C05 ge_is_valid_var: returns 0 or 1 with every field precondition met");
    if (b.infinity) __CPROVER_assert(v == 0, "C05 ge_is_valid_var: infinity is not valid");
    v = secp256k1_ge_eq_var(&b, &d);
    __CPROVER_assert(v == 0 || v == 1, "C05 ge_eq_var: returns 0 or 1 with every field precondition met");
    v = secp256k1_gej_eq_var(&a, &c);
    __CPROVER_assert(v == 0 || v == 1, "C05 gej_eq_var: returns 0 or 1 with every field precondition met");
    v = secp256k1_gej_eq_ge_var(&a, &b);
    __CPROVER_assert(v == 0 || v == 1, "C05 gej_eq_ge_var: returns 0 or 1 with every field precondition met");
    /* gej_eq_x_var: "The magnitude of the group element's X coordinate must not exceed 31" and x a valid element of magnitude <= 8 (fe_mul) */
    __CPROVER_assume(sa_fe_okv(&x) && x.magnitude <= 8 && !a.infinity);
    v = secp256k1_gej_eq_x_var(&x, &a);
    __CPROVER_assert(v == 0 || v == 1, "C05 gej_eq_x_var: returns 0 or 1 with every field precondition met");
    /* set_xquad / set_xo_var: x as produced by the parsers (magnitude <= GE_X_MAGNITUDE_MAX) */
    __CPROVER_assume(x.magnitude <= SECP256K1_GE_X_MAGNITUDE_MAX && (odd == 0 || odd == 1));
    v = secp256k1_ge_set_xo_var(&r, &x, odd);
    __CPROVER_assert((v == 0 || v == 1) && sa_ge_okv(&r) && !r.infinity, "C05 ge_set_xo_var: result satisfies ge_verify");
    __CPROVER_assert(r.y.normalized ? (int)(fval(&r.y) & 1) == odd : 1, "C05 ge_set_xo_var: y has the requested parity when left normalized");
    if (!b.infinity) REACH("ge_is_valid_var finite");
    if (secp256k1_ge_eq_var(&b, &d) && !b.infinity) REACH("ge_eq_var equal finite");
    if (r.y.normalized == 0) REACH("ge_set_xo_var negated y");
}
#endif

/* C05 (c) L2: the REAL secp256k1_sha256_finalize (with the real secp256k1_sha256_write under it), byte
 * counter symbolic, compression function = logging oracle with ABSOLUTE block numbers (hash_spec.h).
 *
 * PADDING LEMMA.  Let B0 = hash->bytes < 2^61 and B1 = the byte counter after the call.  Then
 *   (a) B1 is the smallest multiple of 64 that is >= B0 + 9   (pad length 1 + ((119 - B0%64) % 64), then 8);
 *   (b) exactly the stream blocks B0/64 .. B1/64 - 1 (one or two) are compressed, each once, state chained by value;
 *       the byte delivered at stream position p = 64 k + o is
 *           old buf[o]                          for p <  B0        (the buffered tail of the message)
 *           0x80                                for p == B0
 *           0x00                                for B0 < p < B1 - 8
 *           byte (p - (B1-8)) of be64(8 * B0)   for B1 - 8 <= p < B1   (length in BITS, big endian);
 *   (c) out32 = be32(s[0]) || ... || be32(s[7]) of the state left by the LAST compression call.
 *   (What finalize leaves in the object afterwards is not specified by hash.h and not asserted.)
 * Together with the stream lemma (hash_write.c) and the transform loop (hash_transform.c): the digest is
 * f*(IV or midstate, stream || pad(|stream|)) in the sense of FIPS 180-4 section 5.1.1 / 6.2, for every
 * message length and every split, with f the compression oracle. */
#define VERIF_MEMCPY_MODEL
#define HASH_SPEC_WRITE_CONTRACT      /* used by h_sha_compose only (unit replaces sha256_write by its enforced stream contract) */
#include "hash_spec.h"
#define memcpy verif_memcpy64
#include "src/secp256k1.c"
#undef memcpy
#include "post.h"

void h_finalize(void) {
    INPUT(uint64_t, b0); INPUT_ARR(unsigned char, buf0, 64); INPUT_ARR(uint32_t, s0, 8);
    INPUT(uint64_t, wblk); INPUT(unsigned, woff); INPUT(unsigned, ob);
    secp256k1_sha256 h; secp256k1_hash_ctx hc; unsigned char out[32];
    uint64_t b1, p, bits; unsigned char exp;
    __CPROVER_assume(b0 < ((uint64_t)1 << 61));          /* SHA-256 message limit 2^64 - 1 bits: the function's precondition (VERIFY_CHECK) */
    __CPROVER_assume(woff < 64 && ob < 32 && wblk <= (UINT64_MAX >> 6));
    memcpy(h.s, s0, 32); memcpy(h.buf, buf0, 64); h.bytes = b0;
    hc.fn_sha256_compression = verif_compress;
    COMPLOG_RESET(); g_c_blocks = b0 / 64; g_cw_blk = wblk; g_cw_off = woff;
    g_sk = ob / 4; g_c_cur = h.s[ob / 4];     /* the state word digest byte ob comes from */
    g_mc_big = NULL; g_mc_base = (unsigned char *)&h; g_mc_doff = offsetof(secp256k1_sha256, buf) + woff;

    secp256k1_sha256_finalize(&hc, &h, out);

    b1 = h.bytes; bits = b0 << 3;
    __CPROVER_assert(b1 % 64 == 0 && b1 >= b0 + 9 && b1 - (b0 + 9) < 64, "C05 sha256_finalize (a): padded length is the smallest multiple of 64 >= bytes + 9");
    __CPROVER_assert(g_c_blocks == b1 / 64 && g_c_bad == 0, "C05 sha256_finalize (b): exactly the blocks bytes/64 .. padded/64 - 1 are compressed, no empty call");
    __CPROVER_assert(g_c_chain_bad == 0, "C05 sha256_finalize (b): the object's state enters the first compression and is chained through the calls");
    if (b0 / 64 <= wblk && wblk < b1 / 64) {
        p = wblk * 64 + woff;
        __CPROVER_assert(g_cw_hit == 1, "C05 sha256_finalize (b): every padded block is delivered exactly once");
        if (p < b0) exp = buf0[woff];
        else if (p == b0) exp = 0x80;
        else if (p < b1 - 8) exp = 0x00;
        else exp = (unsigned char)(bits >> (8 * (b1 - 1 - p)));
        if (p < b0) __CPROVER_assert(g_cw_byte == exp, "C05 sha256_finalize (b): the buffered message tail is delivered in place");
        else if (p == b0) __CPROVER_assert(g_cw_byte == exp, "C05 sha256_finalize (b): first pad byte is 0x80");
        else if (p < b1 - 8) __CPROVER_assert(g_cw_byte == exp, "C05 sha256_finalize (b): pad bytes up to the length field are zero");
        else __CPROVER_assert(g_cw_byte == exp, "C05 sha256_finalize (b): last 8 bytes are be64(8 * bytes)");
    } else {
        __CPROVER_assert(g_cw_hit == 0, "C05 sha256_finalize (b): no other block is delivered");
    }
    __CPROVER_assert(out[ob] == (unsigned char)(g_c_cur >> (8 * (3 - ob % 4))), "C05 sha256_finalize (c): digest is be32 of the state words left by the last compression");

    if (b1 / 64 - b0 / 64 == 2 && b0 % 64 == 56) REACH("finalize: bytes%64 == 56 needs two blocks");
    if (b1 / 64 - b0 / 64 == 1 && b0 % 64 == 55) REACH("finalize: bytes%64 == 55 fits one block");
    if (b0 == 0) REACH("finalize: empty message");
    if (b0 > ((uint64_t)1 << 60) && wblk == b1 / 64 - 1 && woff == 56) REACH("finalize: huge message, top length byte watched");
    REACH("finalize end");
}

/* COMPOSITION LEMMA (lemma harness over the enforced stream contract of sha256_write + the real finalize
 * body): a hash object started at a block boundary (fresh IV: m = 0, or a midstate after m blocks), then
 * write(a); write(b); finalize hands the compression function exactly the blocks of
 *        a || b || 0x80 || 0x00.. || be64(8 (64 m + |a| + |b|))          (FIPS 180-4 section 5.1.1)
 * numbered m, m+1, ... , each once, in order, for EVERY |a|, |b| and every split; the digest is be32 of the
 * last compression output.  I.e. SHA-256 as implemented = f* over the padded message, independent of
 * the write split (f = compression oracle; its equality with FIPS 6.2.2 is C05.sha256_compress_fips /
 * the assumed residue). */
void h_sha_compose(void) {
    INPUT(uint64_t, m); INPUT(size_t, la); INPUT(size_t, lb);
    INPUT(uint64_t, wblk); INPUT(unsigned, woff); INPUT(unsigned, ob);
    secp256k1_sha256 h; secp256k1_hash_ctx hc; unsigned char out[32], *d;
    uint64_t b0, total, b1, p, bits;
    __CPROVER_assume(m <= ((uint64_t)1 << 54) && la <= ((size_t)1 << 48) && lb <= ((size_t)1 << 48));   /* total < 2^61 bytes: the SHA-256 length limit (finalize precondition) */
    __CPROVER_assume(woff < 64 && ob < 32 && wblk <= (UINT64_MAX >> 6));
    d = malloc(la + lb ? la + lb : 1); __CPROVER_assume(d != NULL);
    b0 = 64 * m; h.bytes = b0;
    hc.fn_sha256_compression = verif_compress;
    COMPLOG_RESET(); g_c_blocks = m; g_cw_blk = wblk; g_cw_off = woff; g_sk = ob / 4; g_c_cur = h.s[ob / 4];   /* the contract speaks about ONE state word: the one digest byte ob comes from */ g_mc_base = NULL; g_mc_big = NULL;

    secp256k1_sha256_write(&hc, &h, d, la);
    secp256k1_sha256_write(&hc, &h, d + la, lb);
    secp256k1_sha256_finalize(&hc, &h, out);

    total = b0 + la + lb; b1 = h.bytes; bits = total << 3;
    __CPROVER_assert(b1 % 64 == 0 && b1 >= total + 9 && b1 - (total + 9) < 64, "C05 sha256 composition: padded length is the smallest multiple of 64 >= length + 9");
    __CPROVER_assert(g_c_blocks == b1 / 64 && g_c_bad == 0 && g_c_chain_bad == 0, "C05 sha256 composition: exactly the blocks m .. padded/64 - 1 are compressed, state chained from the start state");
    if (m <= wblk && wblk < b1 / 64) {
        p = wblk * 64 + woff;
        __CPROVER_assert(g_cw_hit == 1, "C05 sha256 composition: every block of the padded message is compressed exactly once");
        if (p < total) __CPROVER_assert(g_cw_byte == d[p - b0], "C05 sha256 composition: message bytes appear at their stream position, for every split");
        else if (p == total) __CPROVER_assert(g_cw_byte == 0x80, "C05 sha256 composition: 0x80 follows the message");
        else if (p < b1 - 8) __CPROVER_assert(g_cw_byte == 0x00, "C05 sha256 composition: zero fill up to the length field");
        else __CPROVER_assert(g_cw_byte == (unsigned char)(bits >> (8 * (b1 - 1 - p))), "C05 sha256 composition: length field is be64 of the bit length including the midstate prefix");
    } else {
        __CPROVER_assert(g_cw_hit == 0, "C05 sha256 composition: no other block is compressed");
    }
    __CPROVER_assert(g_c_calls >= 1 && out[ob] == (unsigned char)(g_c_cur >> (8 * (3 - ob % 4))), "C05 sha256 composition: digest is be32 of the last compression output");
    if (m == 0 && la == 3 && lb == 0 && wblk == 0 && woff == 63) REACH("compose: 'abc'-sized message, last length byte");
    if (la % 64 == 5 && lb > 1000 && wblk == m + 3 && g_cw_hit) REACH("compose: unaligned split, block 3");
    if ((la + lb) % 64 == 56 && la > 0 && lb > 0) REACH("compose: length 56 mod 64 (extra padding block)");
    REACH("compose end");
}

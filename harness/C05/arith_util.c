/* C05 (a) util.h leaf helpers against their definitions, all inputs.
 * Loop-free helpers: h_util_bits, h_util_endian.
 * Length-driven loops (memczero, is_zero_array, memcmp_var):
 *   h_util_loops with -DUTIL_LC   any length, closed by loop contracts that the engine supplies from the unit table (no /repo edit)
 *   h_util_loops without          bounded stand-in len <= UTIL_LEN_MAX on the unchanged tree (full unwinding) */
#include "spec_arith.h"
#include <limits.h>
size_t verif_gi;   /* ghost index named by the loop invariants (engine/units/C05_arith.py); never assigned by the code */
int verif_allzero; /* ghost: set by the harness when the array given to is_zero_array is known all-zero (calloc) */
#include "src/secp256k1.c"
#include "post.h"

#ifndef VERIF_NATIVE
void h_util_bits(void) {
    INPUT(uint64_t, h); INPUT(uint32_t, y); INPUT(unsigned, by); INPUT(int64_t, sv); INPUT(int, ia); INPUT(int, ib); INPUT(int, flag);
    int c, r; uint64_t ab, x; uint32_t x32; unsigned k;
    /* Exhaustive case split on the answer c (a constant in each iteration), all other bits symbolic:
     *   every x != 0 is uniquely  (h << (c+1)) | 2^c  with c = index of the lowest set bit      (ctz)
     *   every x != 0 is uniquely  2^(63-c) | (h mod 2^(63-c))  with c = number of leading zeros   (clz)  */
    for (c = 0; c < 64; c++) {
        x = ((c == 63) ? 0 : (h << (c + 1))) | (((uint64_t)1) << c);
        __CPROVER_assert(secp256k1_ctz64_var(x) == c, "C05 ctz64_var: index of the lowest set bit");
        __CPROVER_assert(secp256k1_ctz64_var_debruijn(x) == c, "C05 ctz64_var_debruijn: index of the lowest set bit (table fallback)");
        x = (((uint64_t)1) << (63 - c)) | (h & ((((uint64_t)1) << (63 - c)) - 1));
        __CPROVER_assert(secp256k1_clz64_var(x) == c, "C05 clz64_var: number of leading zero bits");
    }
    __CPROVER_assert(secp256k1_clz64_var(0) == 64, "C05 clz64_var: 64 for 0");
    for (c = 0; c < 32; c++) {
        x32 = ((c == 31) ? 0 : (y << (c + 1))) | (((uint32_t)1) << c);
        __CPROVER_assert(secp256k1_ctz32_var(x32) == c, "C05 ctz32_var: index of the lowest set bit");
        __CPROVER_assert(secp256k1_ctz32_var_debruijn(x32) == c, "C05 ctz32_var_debruijn: index of the lowest set bit (table fallback)");
    }
    /* rotr32 for EVERY rotation amount: bits move down by (by mod 32) with wrap-around */
    k = by % 32;
    __CPROVER_assert(secp256k1_rotr32(y, by) == (uint32_t)(((((uint64_t)y) << 32) | y) >> k), "C05 rotr32: rotate right by (by mod 32)");
    /* sign_and_abs64 */
    r = secp256k1_sign_and_abs64(&ab, sv);
    __CPROVER_assert(r == (sv < 0), "C05 sign_and_abs64: returns the sign");
    __CPROVER_assert((__int128)ab == (sv < 0 ? -(__int128)sv : (__int128)sv), "C05 sign_and_abs64: *out == |in| (2^63 for INT64_MIN)");
    /* int_cmov: both non-negative, flag 0/1 */
    __CPROVER_assume(ia >= 0 && ib >= 0 && (flag == 0 || flag == 1));
    r = ia;
    secp256k1_int_cmov(&r, &ib, flag);
    __CPROVER_assert(r == (flag ? ib : ia), "C05 int_cmov: r = flag ? a : r");
    if (sv == INT64_MIN) REACH("sign_and_abs64 of INT64_MIN");
    if (by > 32 && k == 0) REACH("rotr32 by a multiple of 32");
    if (flag && ia != ib) REACH("int_cmov taken");
    if (h == 0xFFFFFFFFFFFFFFFFULL) REACH("ctz/clz all other bits set");
}
void h_util_endian(void) {
    INPUT_ARR(unsigned char, p, 8); INPUT(uint32_t, x32); INPUT(uint64_t, x64); INPUT(unsigned, k);
    unsigned char o[8]; uint32_t v32 = 0; uint64_t v64 = 0; int i;
    for (i = 0; i < 4; i++) v32 = v32 * 256 + p[i];
    for (i = 0; i < 8; i++) v64 = v64 * 256 + p[i];
    __CPROVER_assert(secp256k1_read_be32(p) == v32, "C05 read_be32: sum p[i] 256^(3-i)");
    __CPROVER_assert(secp256k1_read_be64(p) == v64, "C05 read_be64: sum p[i] 256^(7-i)");
    __CPROVER_assume(k < 8);
    secp256k1_write_be64(o, x64);
    __CPROVER_assert(o[k] == (unsigned char)(x64 >> (8 * (7 - k))), "C05 write_be64: byte k is bits [8(7-k), 8(7-k)+8)");
    __CPROVER_assert(secp256k1_read_be64(o) == x64, "C05 read_be64(write_be64(x)) == x");
    secp256k1_write_be32(o, x32);
    if (k < 4) __CPROVER_assert(o[k] == (unsigned char)(x32 >> (8 * (3 - k))), "C05 write_be32: byte k is bits [8(3-k), 8(3-k)+8)");
    __CPROVER_assert(secp256k1_read_be32(o) == x32, "C05 read_be32(write_be32(x)) == x");
    if (k == 7) REACH("write_be64 last byte");
}

/* Length-driven loops.  UTIL_LEN_MAX: with loop contracts (-DUTIL_LC, contracts in the unit table)
 * any length up to 2^40; otherwise the unwinding bound (bounded stand-in on the unchanged tree).
 * Universal statements use the ghost index g (never assigned by the code). */
#ifdef UTIL_LC
# define UTIL_LEN_MAX ((size_t)1 << 40)
#else
# ifndef UTIL_LEN_MAX
#  define UTIL_LEN_MAX 24
# endif
#endif
#ifndef UTIL_PART
# define UTIL_PART 7   /* bit 0: is_zero_array, bit 1: memcmp_var, bit 2: memczero */
#endif
void h_util_loops(void) {
    INPUT(size_t, len); INPUT(size_t, g); INPUT(int, flag);
    unsigned char *s1, *s2, *z, *zz, z0; int r = 0, c = 0;
    /* len == 0 is part of the input space (no byte read or written); the ghost index g quantifies over [0, len) */
    __CPROVER_assume(len <= UTIL_LEN_MAX && (len == 0 || g < len));
    verif_gi = g; verif_allzero = 0;
#if UTIL_PART & 3
    s1 = malloc(len); __CPROVER_assume(s1 != NULL);
#endif
#if UTIL_PART & 1
    /* is_zero_array: 1 iff every byte is zero */
    zz = calloc(len, 1); __CPROVER_assume(zz != NULL);
    r = secp256k1_is_zero_array(s1, len);
    __CPROVER_assert(r == 0 || r == 1, "C05 is_zero_array: returns 0 or 1");
    if (len == 0) __CPROVER_assert(r == 1, "C05 is_zero_array: the empty array is all-zero");
    if (len > 0 && r == 1) __CPROVER_assert(s1[g] == 0, "C05 is_zero_array: returns 1 only if every byte is zero");
    if (len > 0 && s1[g] != 0) __CPROVER_assert(r == 0, "C05 is_zero_array: any non-zero byte gives 0");
    verif_allzero = 1;
    __CPROVER_assert(secp256k1_is_zero_array(zz, len) == 1, "C05 is_zero_array: an all-zero array gives 1");
    verif_allzero = 0;
    if (r == 1) REACH("is_zero_array all zero");
    if (r == 0) REACH("is_zero_array some non-zero");
#endif
#if UTIL_PART & 2
    /* memcmp_var: 0 iff equal */
    s2 = malloc(len); __CPROVER_assume(s2 != NULL);
    c = secp256k1_memcmp_var(s1, s2, len);
    if (len == 0) __CPROVER_assert(c == 0, "C05 memcmp_var: empty ranges compare equal");
    if (len > 0 && c == 0) __CPROVER_assert(s1[g] == s2[g], "C05 memcmp_var: returns 0 only if every byte is equal");
    if (len > 0 && s1[g] != s2[g]) __CPROVER_assert(c != 0, "C05 memcmp_var: any differing byte gives non-zero");
    __CPROVER_assert(secp256k1_memcmp_var(s1, s1, len) == 0, "C05 memcmp_var: identical arrays compare equal");
# ifndef UTIL_LC
    {   /* bounded only: memcmp order semantics = SIGN of the byte difference at the first differing position ("semantics like
         * memcmp": only the sign of the result is specified) */
        size_t j; int spec = 0;
        for (j = 0; j < UTIL_LEN_MAX; j++) if (j < len && spec == 0 && s1[j] != s2[j]) spec = (s1[j] > s2[j]) ? 1 : -1;
        __CPROVER_assert(((c > 0) - (c < 0)) == spec, "C05 memcmp_var: sign is that of the first differing byte pair");
    }
# endif
    if (c == 0) REACH("memcmp_var equal");
    if (c < 0) REACH("memcmp_var less");
#endif
#if UTIL_PART & 4
    /* memczero */
# if defined(UTIL_FIXEDBUF)
    {   /* fixed-size buffer (cheaper than a heap object of symbolic size for long unwindings); bytes at and after len
         * must stay untouched (ghost index g2) */
        static unsigned char zbuf[UTIL_LEN_MAX + 8]; INPUT(size_t, g2); unsigned char y0;
        __CPROVER_assume(g2 >= len && g2 < UTIL_LEN_MAX + 8);
        z = zbuf; z0 = len ? z[g] : 0; y0 = z[g2];
        __CPROVER_assume(flag == 0 || flag == 1);
        secp256k1_memczero(z, len, flag);
        __CPROVER_assert(z[g2] == y0, "C05 memczero: bytes at and after len untouched");
    }
# else
    z = malloc(len); __CPROVER_assume(z != NULL);
    z0 = len ? z[g] : 0;
    __CPROVER_assume(flag == 0 || flag == 1);
    secp256k1_memczero(z, len, flag);
# endif
    if (len > 0) __CPROVER_assert(z[g] == (flag ? 0 : z0), "C05 memczero: every byte of [0,len) zero if flag, unchanged otherwise");   /* len == 0: exact object bounds (heap) resp. the g2 obligation (fixed buffer) show that nothing is written */
    if (flag) REACH("memczero flag set");
#endif
    if (len == UTIL_LEN_MAX) REACH("maximal length");
    if (len == 0) REACH("zero length");
    (void)s1; (void)s2; (void)z; (void)zz; (void)z0; (void)r; (void)c;
}
#endif

/* C05 r3: VALUE of secp256k1_scalar_mul_512 / secp256k1_scalar_sqr_512 (portable C, 4x64, native __int128) relative to the
 * uninterpreted 64x64 multiplier umul (contracts/assumed_r3_scmul.h), proved in two small pieces that compose:
 *
 *  (1) C05.r3_mul512_chain / r3_sqr512_chain  (REAL code):  l8[k] == chain_k(products),  k = 0..7, and the chain's last carry is 0,
 *      where chain = r3_chain = "add the products column by column into one 192-bit accumulator T, emit T mod 2^64, shift".
 *      The products handed to the chain are umul(a_i, b_j) in the column grouping of the schoolbook definition
 *      (column = i + j); sqr_512: umul(a_i, a_j), i <= j, the off-diagonal ones taken twice.
 *  (2) C05.r3_chain_lemma_mul / _sqr (NO library code, free 128-bit addends):
 *      sum_k chain_k 2^(64k) + carry 2^512 == sum_t x_t 2^(64 col(t))       for the same addend/column layout.
 *  Together:  l == sum_{i,j} umul(a_i, b_j) 2^(64 (i+j))   for all a, b  (no 2^512 wrap), i.e. the 512-bit product is exact up to
 *  the meaning of the one-limb multiplier: carries, column membership, limb placement, muladd vs muladd_fast, extract vs extract_fast.
 *  The composition step is substitution of equals: both units instantiate the SAME function r3_chain with the SAME column table. */
#include "assumed_r3_scmul.h"
#include "src/secp256k1.c"
#include "post.h"

#ifndef VERIF_NATIVE
#if !defined(USE_FORCE_WIDEMUL_INT64)
#include "r3_sctables.h"

void h_r3_mul512_chain(void) {
    INPUT(secp256k1_scalar, a); INPUT(secp256k1_scalar, b);
    uint64_t l[8], s[8]; r3_u128 x[16]; r3_w192 carry; INPUT(unsigned, k);
    secp256k1_scalar_mul_512(l, &a, &b);
    r3_products_mul(x, &a, &b);
    carry = r3_chain(x, R3_COL_MUL, 16, 8, s);
    __CPROVER_assume(k < 8);
    __CPROVER_assert(l[0] == s[0], "C05 r3 scalar_mul_512: l8[0] == column chain limb 0");
    __CPROVER_assert(l[1] == s[1], "C05 r3 scalar_mul_512: l8[1] == column chain limb 1");
    __CPROVER_assert(l[2] == s[2], "C05 r3 scalar_mul_512: l8[2] == column chain limb 2");
    __CPROVER_assert(l[3] == s[3], "C05 r3 scalar_mul_512: l8[3] == column chain limb 3");
    __CPROVER_assert(l[4] == s[4], "C05 r3 scalar_mul_512: l8[4] == column chain limb 4");
    __CPROVER_assert(l[5] == s[5], "C05 r3 scalar_mul_512: l8[5] == column chain limb 5");
    __CPROVER_assert(l[6] == s[6], "C05 r3 scalar_mul_512: l8[6] == column chain limb 6");
    __CPROVER_assert(l[7] == s[7], "C05 r3 scalar_mul_512: l8[7] == column chain limb 7");
    __CPROVER_assert(carry == 0, "C05 r3 scalar_mul_512: the column chain of 16 products <= (2^64-1)^2 ends with carry 0 (the sum is below 2^512)");
    if (l[7] == 0xFFFFFFFFFFFFFFFEULL) REACH("scalar_mul_512 chain: top limb at its maximum");
    if (l[k] != 0) REACH("scalar_mul_512 chain: some limb non-zero");
}
void h_r3_sqr512_chain(void) {
    INPUT(secp256k1_scalar, a);
    uint64_t l[8], s[8]; r3_u128 x[16]; r3_w192 carry;
    secp256k1_scalar_sqr_512(l, &a);
    r3_products_sqr(x, &a);
    carry = r3_chain(x, R3_COL_SQR, 16, 8, s);
    __CPROVER_assert(l[0] == s[0], "C05 r3 scalar_sqr_512: l8[0] == column chain limb 0");
    __CPROVER_assert(l[1] == s[1], "C05 r3 scalar_sqr_512: l8[1] == column chain limb 1");
    __CPROVER_assert(l[2] == s[2], "C05 r3 scalar_sqr_512: l8[2] == column chain limb 2");
    __CPROVER_assert(l[3] == s[3], "C05 r3 scalar_sqr_512: l8[3] == column chain limb 3");
    __CPROVER_assert(l[4] == s[4], "C05 r3 scalar_sqr_512: l8[4] == column chain limb 4");
    __CPROVER_assert(l[5] == s[5], "C05 r3 scalar_sqr_512: l8[5] == column chain limb 5");
    __CPROVER_assert(l[6] == s[6], "C05 r3 scalar_sqr_512: l8[6] == column chain limb 6");
    __CPROVER_assert(l[7] == s[7], "C05 r3 scalar_sqr_512: l8[7] == column chain limb 7");
    __CPROVER_assert(carry == 0, "C05 r3 scalar_sqr_512: the column chain ends with carry 0 (the sum is below 2^512)");
    if (l[7] == 0xFFFFFFFFFFFFFFFEULL) REACH("scalar_sqr_512 chain: top limb at its maximum");
}
/* (2) the pure lemma: column chain == direct sum, for 16 arbitrary 128-bit addends in the column layout 1,2,3,4,3,2,1 */
void h_r3_chain_lemma_mul(void) {
    INPUT_ARR(r3_u128, x, 16);
    uint64_t s[8]; r3_w192 carry;
    carry = r3_chain(x, R3_COL_MUL, 16, 8, s);
    __CPROVER_assert(r3_limbs(s, 8) + (R3W(carry) << 512) == r3_sum(x, R3_COL_MUL, 16),
                     "C05 r3 chain lemma (16 addends, columns 1,2,3,4,3,2,1): sum_k chain_k 2^(64k) + carry 2^512 == sum_t x_t 2^(64 col t)");
    if (carry != 0) REACH("chain lemma: free addends can carry out of 2^512");
}
#endif
#endif

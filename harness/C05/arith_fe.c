/* C05 (a) field leaf functions (secp256k1_fe_* of field_5x52_impl.h / field_10x26_impl.h, chosen by cfg)
 * against the mathematical specification, for ALL inputs within the documented magnitude.
 * Specs come from field.h ("On output, r represents the same value but has normalized=1 ...") with
 *   value = fval (pre.h), "same value" = congruent mod p with explicit quotient witness (spec_arith.h).
 * The only assumptions are representation invariants of inputs (magnitude bounds / normalized). */
#include "spec_arith.h"
#include "src/secp256k1.c"
#include "post.h"

/* The public names are used: without -DVERIFY they ARE the secp256k1_fe_impl_* functions (field.h #defines);
 * with -DVERIFY they are the checking wrappers of field_impl.h, whose magnitude/normalized bookkeeping
 * (input precondition, secp256k1_fe_verify on the output) then becomes part of the obligations. */
#ifdef VERIFY
# define FE_FIELDS(a, m, nrm) do { (a).magnitude = (m); (a).normalized = (nrm); } while (0)
#else
# define FE_FIELDS(a, m, nrm) do { } while (0)
#endif

/* Largest magnitude for the normalize family.  32 = everything field.h permits.  The 10x26 units run with 31 AND with 32:
 * at magnitude 32 the 10x26 code wraps a uint32 in the first carry pass (finding, see unit C05.fe_normalize_m32.W64). */
#ifndef FE_MAXMAG
# define FE_MAXMAG 32
#endif
/* the magnitude-32 units of the 10x26 layout carry their own obligation names (known finding F2) */
#ifdef FE_M32_FINDING
# define FE_TAG "[10x26,m=32]"
# define FE_MINMAG 32
#else
# define FE_TAG ""
# define FE_MINMAG 0
#endif
#ifndef VERIF_NATIVE
/* ---------------------------------------------------------------- normalize family */
void h_fe_normalize(void) {
    INPUT(secp256k1_fe, a); INPUT(int, m);
    secp256k1_fe r; wide vin;
    __CPROVER_assume(m >= FE_MINMAG && m <= FE_MAXMAG && sa_fe_mag(&a, m)); FE_FIELDS(a, m, 0);
    r = a; vin = fval(&a);
    secp256k1_fe_normalize(&r);
    __CPROVER_assert(sa_fe_limbs_tight(&r), "C05 fe_normalize" FE_TAG ": every output limb within its width");
    __CPROVER_assert(fval(&r) < P_(), "C05 fe_normalize" FE_TAG ": output value below p (canonical)");
    __CPROVER_assert(vin >= fval(&r) && sa_cong_p(vin, fval(&r)), "C05 fe_normalize" FE_TAG ": output congruent to input mod p");
    __CPROVER_assert(sa_quot_p(vin, fval(&r)) <= 65, "C05 fe_normalize" FE_TAG ": quotient witness small (input below 2^262)");
    if (m == FE_MAXMAG && vin > ((P_() << 5) - P_() - P_())) REACH("fe_normalize maximal magnitude, value above 30p");
    if (vin == P_()) REACH("fe_normalize input exactly p");
}
void h_fe_normalize_var(void) {
    INPUT(secp256k1_fe, a); INPUT(int, m);
    secp256k1_fe r; wide vin;
    __CPROVER_assume(m >= FE_MINMAG && m <= FE_MAXMAG && sa_fe_mag(&a, m)); FE_FIELDS(a, m, 0);
    r = a; vin = fval(&a);
    secp256k1_fe_normalize_var(&r);
    __CPROVER_assert(sa_fe_limbs_tight(&r), "C05 fe_normalize_var" FE_TAG ": every output limb within its width");
    __CPROVER_assert(fval(&r) < P_(), "C05 fe_normalize_var" FE_TAG ": output value below p (canonical)");
    __CPROVER_assert(vin >= fval(&r) && sa_cong_p(vin, fval(&r)), "C05 fe_normalize_var" FE_TAG ": output congruent to input mod p");
    if (m == FE_MAXMAG && vin > ((P_() << 5) - P_() - P_())) REACH("fe_normalize_var maximal magnitude, value above 30p");
    if (vin == P_() + 1) REACH("fe_normalize_var input p+1");
}
void h_fe_normalize_weak(void) {
    INPUT(secp256k1_fe, a); INPUT(int, m);
    secp256k1_fe r; wide vin;
    __CPROVER_assume(m >= FE_MINMAG && m <= FE_MAXMAG && sa_fe_mag(&a, m)); FE_FIELDS(a, m, 0);
    r = a; vin = fval(&a);
    secp256k1_fe_normalize_weak(&r);
    __CPROVER_assert(sa_fe_mag(&r, 1), "C05 fe_normalize_weak" FE_TAG ": output has magnitude 1");
    __CPROVER_assert(sa_cong_p(vin, fval(&r)), "C05 fe_normalize_weak" FE_TAG ": output congruent to input mod p");
    if (m == FE_MAXMAG && vin > ((P_() << 5) - P_() - P_())) REACH("fe_normalize_weak maximal magnitude, value above 30p");
}
void h_fe_ntz(void) {
    INPUT(secp256k1_fe, a); INPUT(int, m);
    int r1, r2;
    __CPROVER_assume(m >= FE_MINMAG && m <= FE_MAXMAG && sa_fe_mag(&a, m)); FE_FIELDS(a, m, 0);
    r1 = secp256k1_fe_normalizes_to_zero(&a);
    r2 = secp256k1_fe_normalizes_to_zero_var(&a);
    __CPROVER_assert(r1 == sa_cong_p(fval(&a), 0), "C05 fe_normalizes_to_zero" FE_TAG ": returns 1 exactly when the value is a multiple of p");
    __CPROVER_assert(r2 == sa_cong_p(fval(&a), 0), "C05 fe_normalizes_to_zero_var" FE_TAG ": returns 1 exactly when the value is a multiple of p");
    if (r1 && fval(&a) == 0) REACH("ntz raw zero");
    if (r1 && fval(&a) == P_()) REACH("ntz raw p");
    if (r1 && fval(&a) > (P_() << 4)) REACH("ntz large multiple of p");
    if (!r2) REACH("ntz nonzero");
}
/* ---------------------------------------------------------------- predicates / small setters */
void h_fe_small(void) {
    INPUT(secp256k1_fe, a); INPUT(secp256k1_fe, b); INPUT(secp256k1_fe, src); INPUT(int, v); INPUT(int, flag); INPUT(int, m); INPUT(int, ms);
    secp256k1_fe r; int c;
    /* set_int: a in [0,0x7FFF] */
    __CPROVER_assume(v >= 0 && v <= 0x7FFF);
    secp256k1_fe_set_int(&r, v);
    __CPROVER_assert(fval(&r) == W(v) && sa_fe_canon(&r) && sa_fe_mag(&r, v != 0), "C05 fe_set_int: value a, normalized, magnitude (a != 0)");
    /* add_int: value + a, magnitude + 1 */
    __CPROVER_assume(m >= 0 && m <= 31 && sa_fe_mag(&b, m)); FE_FIELDS(b, m, 0);
    r = b;
    secp256k1_fe_add_int(&r, v);
    __CPROVER_assert(fval(&r) == fval(&b) + W(v) || sa_cong_p(fval(&r), fval(&b) + W(v)), "C05 fe_add_int: r == r + a (mod p)");
    __CPROVER_assert(sa_fe_mag(&r, m + 1), "C05 fe_add_int: magnitude increases by at most 1");
    /* predicates on normalized input */
    __CPROVER_assume(sa_fe_canon(&a)); FE_FIELDS(a, 1, 1);
    __CPROVER_assert(secp256k1_fe_is_zero(&a) == (fval(&a) == 0), "C05 fe_is_zero: value == 0");
    __CPROVER_assert(secp256k1_fe_is_odd(&a) == (int)(fval(&a) & 1), "C05 fe_is_odd: low bit of the value");
    /* cmov: destination of magnitude m <= 31, source of ANY permitted magnitude 0..32, not normalized */
    __CPROVER_assume(flag == 0 || flag == 1);
    __CPROVER_assume(ms >= 0 && ms <= 32 && sa_fe_mag(&src, ms)); FE_FIELDS(src, ms, 0);
    r = b;
    secp256k1_fe_cmov(&r, &src, flag);
    __CPROVER_assert(sa_fe_limbs_equal(&r, flag ? &src : &b), "C05 fe_cmov: r = flag ? a : r");
    __CPROVER_assert(sa_fe_mag(&r, ms > m ? ms : m), "C05 fe_cmov: magnitude is the maximum of both");
    if (flag == 1 && fval(&src) != fval(&b)) REACH("fe_cmov taken");
    if (flag == 1 && ms == 32 && fval(&src) > (P_() << 4)) REACH("fe_cmov source of magnitude 32");
    if (v == 0x7FFF && m == 31) REACH("fe_add_int extreme");
    (void)c;
}
void h_fe_cmp(void) {
    INPUT(secp256k1_fe, a); INPUT(secp256k1_fe, b);
    int c;
    __CPROVER_assume(sa_fe_canon(&a) && sa_fe_canon(&b)); FE_FIELDS(a, 1, 1); FE_FIELDS(b, 1, 1);
    c = secp256k1_fe_cmp_var(&a, &b);
    __CPROVER_assert(c == (fval(&a) > fval(&b) ? 1 : (fval(&a) < fval(&b) ? -1 : 0)), "C05 fe_cmp_var: order of the integer values");
    if (c == 0) REACH("fe_cmp equal");
    if (c == -1) REACH("fe_cmp less");
    if (c == 1) REACH("fe_cmp greater");
}
/* ---------------------------------------------------------------- byte conversions */
void h_fe_b32(void) {
    INPUT_ARR(unsigned char, in, 32); INPUT(secp256k1_fe, a);
    secp256k1_fe r, r2; unsigned char out[32]; int ok;
    secp256k1_fe_set_b32_mod(&r, in);
    __CPROVER_assert(sa_cong_p(fval(&r), be256(in)), "C05 fe_set_b32_mod: r == a (mod p)");
    __CPROVER_assert(sa_fe_mag(&r, 1), "C05 fe_set_b32_mod: magnitude 1");
    ok = secp256k1_fe_set_b32_limit(&r2, in);
    __CPROVER_assert(ok == (be256(in) < P_()), "C05 fe_set_b32_limit: returns a < p");
    if (ok) __CPROVER_assert(fval(&r2) == be256(in) && sa_fe_canon(&r2), "C05 fe_set_b32_limit: on success r = a, normalized");
    __CPROVER_assume(sa_fe_canon(&a)); FE_FIELDS(a, 1, 1);
    secp256k1_fe_get_b32(out, &a);
    __CPROVER_assert(be256(out) == fval(&a), "C05 fe_get_b32: big-endian bytes of the value");
    if (!ok) REACH("fe_set_b32_limit overflow");
    if (ok && be256(in) == P_() - 1) REACH("fe_set_b32_limit p-1");
}
void h_fe_storage(void) {
    INPUT(secp256k1_fe, a); INPUT(secp256k1_fe_storage, s); INPUT(secp256k1_fe_storage, s2); INPUT(int, flag);
    secp256k1_fe r; secp256k1_fe_storage t; int i;
    __CPROVER_assume(sa_fe_canon(&a)); FE_FIELDS(a, 1, 1);
    secp256k1_fe_to_storage(&t, &a);
    __CPROVER_assert(stval(&t) == fval(&a), "C05 fe_to_storage: storage holds the value");
#ifdef VERIFY
    __CPROVER_assume(stval(&s) < P_()); /* the VERIFY wrapper declares the result normalized: storage invariant value < p */
#endif
    secp256k1_fe_from_storage(&r, &s);
    __CPROVER_assert(fval(&r) == stval(&s), "C05 fe_from_storage: value of the storage form");
    __CPROVER_assert(sa_fe_limbs_tight(&r), "C05 fe_from_storage: limbs within width (magnitude 1)");
    secp256k1_fe_from_storage(&r, &t);
    __CPROVER_assert(sa_fe_limbs_equal(&r, &a), "C05 fe_from_storage(to_storage(a)) == a");
    __CPROVER_assume(flag == 0 || flag == 1);
    t = s;
    secp256k1_fe_storage_cmov(&t, &s2, flag);
    for (i = 0; i < SA_ST_NL; i++) __CPROVER_assert(t.n[i] == (flag ? s2.n[i] : s.n[i]), "C05 fe_storage_cmov: r = flag ? a : r");
    if (flag && stval(&s) != stval(&s2)) REACH("fe_storage_cmov taken");
#ifndef VERIFY
    if (stval(&s) >= P_()) REACH("fe_from_storage non-canonical storage");
#endif
}
/* ---------------------------------------------------------------- representation changes used by the inversion code */
#if defined(USE_FORCE_WIDEMUL_INT64)
typedef secp256k1_modinv32_signed30 sa_signedN; typedef secp256k1_scalar sa_sc_;
# define SA_SN_LIMBS 9
# define SA_SN_BITS 30
# define SA_SN_TOPBITS 16
# define fe_to_signedN secp256k1_fe_to_signed30
# define fe_from_signedN secp256k1_fe_from_signed30
# define sc_to_signedN secp256k1_scalar_to_signed30
# define sc_from_signedN secp256k1_scalar_from_signed30
#else
typedef secp256k1_modinv64_signed62 sa_signedN;
# define SA_SN_LIMBS 5
# define SA_SN_BITS 62
# define SA_SN_TOPBITS 8
# define fe_to_signedN secp256k1_fe_to_signed62
# define fe_from_signedN secp256k1_fe_from_signed62
# define sc_to_signedN secp256k1_scalar_to_signed62
# define sc_from_signedN secp256k1_scalar_from_signed62
#endif
static wide snval(const sa_signedN *a) { wide v = 0; int i; for (i = SA_SN_LIMBS - 1; i >= 0; i--) v = (v << SA_SN_BITS) + W((uint64_t)a->v[i]); return v; }
static int sn_tight(const sa_signedN *a) { int i, ok = 1; for (i = 0; i < SA_SN_LIMBS - 1; i++) ok = ok && a->v[i] >= 0 && ((uint64_t)a->v[i] >> SA_SN_BITS) == 0;
    return ok && a->v[SA_SN_LIMBS - 1] >= 0 && ((uint64_t)a->v[SA_SN_LIMBS - 1] >> SA_SN_TOPBITS) == 0; }
void h_fe_signed(void) {
    INPUT(secp256k1_fe, a); INPUT(sa_signedN, sn); INPUT(secp256k1_scalar, sc); INPUT(int, m);
    secp256k1_fe r; sa_signedN t; secp256k1_scalar rs;
    /* field element -> signed62/30: normalized input, value preserved, limbs in [0, 2^62) resp. [0, 2^30) */
    __CPROVER_assume(sa_fe_canon(&a)); FE_FIELDS(a, 1, 1);
    fe_to_signedN(&t, &a);
    __CPROVER_assert(sn_tight(&t) && snval(&t) == fval(&a), "C05 fe_to_signed62/30: same value, limbs within width");
    /* signed62/30 -> field element: limbs in range (modinv output), value preserved, limbs tight */
    __CPROVER_assume(sn_tight(&sn));
    fe_from_signedN(&r, &sn);
    __CPROVER_assert(fval(&r) == snval(&sn) && sa_fe_limbs_tight(&r), "C05 fe_from_signed62/30: same value, limbs within width");
    /* scalar <-> signed62/30 */
    __CPROVER_assume(sval(&sc) < N_());
    sc_to_signedN(&t, &sc);
    __CPROVER_assert(sn_tight(&t) && snval(&t) == sval(&sc), "C05 scalar_to_signed62/30: same value, limbs within width");
    __CPROVER_assume(snval(&sn) < N_());
    sc_from_signedN(&rs, &sn);
    __CPROVER_assert(sval(&rs) == snval(&sn), "C05 scalar_from_signed62/30: same value");
    /* get_bounds: the extreme element of magnitude m */
    __CPROVER_assume(m >= 0 && m <= 32);
    secp256k1_fe_get_bounds(&r, m);
    __CPROVER_assert(sa_fe_mag(&r, m) && (m == 0 || !sa_fe_mag(&r, m - 1)), "C05 fe_get_bounds: magnitude exactly m");
    if (m == 32) REACH("fe_get_bounds 32");
    if (snval(&sn) == N_() - 1) REACH("from_signed n-1");
}
/* ---------------------------------------------------------------- lemmas about the shared predicates of contracts/pre.h
 * pre.h writes scalar_ok / fe_canon / fe_mag limb-wise (scalar_ok transcribes the shape of scalar_check_overflow) so that they can be
 * used in contract clauses; every property that assumes or ensures them means the VALUE-level statement.  Proved equal here, for every
 * bit pattern. */
#if !defined(USE_FORCE_WIDEMUL_INT64)
void h_spec_lemmas(void) {
    INPUT(secp256k1_scalar, sc); INPUT(secp256k1_fe, a); INPUT(int, m);
    __CPROVER_assert(scalar_ok(&sc) == (sval(&sc) < N_()), "C05 lemma: pre.h scalar_ok(a) == (value(a) < n)");
    __CPROVER_assert(fe_canon(&a) == (sa_fe_limbs_tight(&a) && fval(&a) < P_()), "C05 lemma: pre.h fe_canon(a) == (limbs within width and value(a) < p)");
    __CPROVER_assert(!fe_canon(&a) || (fval(&a) >> 256) == 0, "C05 lemma: a canonical element is a 256-bit value");
    __CPROVER_assume(m >= 0 && m <= 32);
    __CPROVER_assert(fe_mag(&a, m) == sa_fe_mag(&a, m), "C05 lemma: pre.h fe_mag(a,m) == limb bounds 2 m (2^52-1), 2 m (2^48-1) of field_5x52.h");
    __CPROVER_assert(!sa_fe_mag(&a, m) || fval(&a) <= W(2 * (unsigned)m) * ((W(1) << 256) - 1), "C05 lemma: magnitude m bounds the value by 2 m (2^256 - 1)");
    if (scalar_ok(&sc) && sval(&sc) == N_() - 1) REACH("lemma scalar n-1");
    if (!scalar_ok(&sc) && sval(&sc) == N_()) REACH("lemma scalar n");
    if (fe_canon(&a) && fval(&a) == P_() - 1) REACH("lemma fe p-1");
}
#endif
/* ---------------------------------------------------------------- additive group */
void h_fe_negate(void) {
    INPUT(secp256k1_fe, a); INPUT(int, m); INPUT(_Bool, alias);   /* the library negates in place: fe_negate(&r->y, &r->y, 1) */
    secp256k1_fe r, a0, *pr = alias ? &a : &r;
    __CPROVER_assume(m >= 0 && m <= 31 && sa_fe_mag(&a, m)); FE_FIELDS(a, m, 0);
    a0 = a;
    secp256k1_fe_negate_unchecked(pr, &a, m);
    __CPROVER_assert(sa_cong_p(fval(pr) + fval(&a0), 0), "C05 fe_negate: r + a == 0 (mod p)");
    __CPROVER_assert(sa_fe_mag(pr, m + 1), "C05 fe_negate: output magnitude m+1 (no limb underflow)");
    if (alias) REACH("fe_negate in place");
    if (m == 31) REACH("fe_negate m=31");
    if (m == 0) REACH("fe_negate m=0");
}
void h_fe_add(void) {
    INPUT(secp256k1_fe, a); INPUT(secp256k1_fe, b); INPUT(int, ma); INPUT(int, mb); INPUT(_Bool, alias);   /* alias: fe_add(&r, &r) doubles in place */
    secp256k1_fe r, a0;
    __CPROVER_assume(ma >= 0 && mb >= 0 && ma <= 32 && mb <= 32 && sa_fe_mag(&a, ma) && sa_fe_mag(&b, mb)); FE_FIELDS(a, ma, 0); FE_FIELDS(b, mb, 0);
    if (alias) { b = a; mb = ma; }
    __CPROVER_assume(ma + mb <= 32);
    r = a; a0 = a;
    if (alias) secp256k1_fe_add(&r, &r); else secp256k1_fe_add(&r, &b);
#if defined(USE_FORCE_WIDEMUL_INT64)
    /* 10x26: value(a) + value(b) = sum (a.n[i] + b.n[i]) 2^(26 i), written in the same Horner shape as fval: LIMB-WISE statement,
     * because the direct form fval(a) + fval(b) is a 320-bit adder-tree miter over 30 terms that did not finish in 300 s */
    { wide sv = 0; int i; for (i = SA_FE_NL - 1; i >= 0; i--) sv = (sv << SA_FE_LIMB_BITS) + (W(a0.n[i]) + W(b.n[i]));
      __CPROVER_assert(fval(&r) == sv || sa_cong_p(fval(&r), sv), "C05 fe_add: r == r + a (mod p)"); }   /* "equal or congruent" = congruent; the first disjunct only shortens the proof */
#else
    __CPROVER_assert(fval(&r) == fval(&a0) + fval(&b) || sa_cong_p(fval(&r), fval(&a0) + fval(&b)), "C05 fe_add: r == r + a (mod p)");   /* "equal or congruent" = congruent; the first disjunct only shortens the proof */
#endif
    __CPROVER_assert(sa_fe_mag(&r, ma + mb), "C05 fe_add: magnitudes add");
    if (!alias && ma == 16 && mb == 16) REACH("fe_add 16+16");
    if (alias && ma == 16) REACH("fe_add in place (doubling) 16+16");
}
void h_fe_mul_int(void) {
    /* field.h: "a must be ... in [0,32]; the magnitude of r times a must not exceed 32".
     * Value: k * sum n[i] 2^(w i) = sum (k n[i]) 2^(w i), so "value is r * a" is stated per limb: the machine product
     * n[i] * k in the limb type (C semantics, the verifier's own multiplier) together with the proof, in 128 bits, that
     * this product does not wrap.  This is a LIMB-WISE statement, not a value congruence via sa_cong_p: asking the solver
     * for fval(r) == k fval(a) (mod p) - a 320-bit distributivity miter - did not finish in 300 s in any of four
     * formulations (wide multiply, repeated addition, 128-bit products in Horner and in explicit-sum shape). */
    INPUT(secp256k1_fe, a); INPUT(int, m); INPUT(int, k);
    secp256k1_fe r, e; int i, fits = 1;
    __CPROVER_assume(m >= 0 && m <= 32 && k >= 0 && k <= 32 && m * k <= 32 && sa_fe_mag(&a, m)); FE_FIELDS(a, m, 0);
    r = a; e = a;
    secp256k1_fe_mul_int_unchecked(&r, k);
    for (i = 0; i < SA_FE_NL; i++) { unsigned __int128 pr = (unsigned __int128)a.n[i] * (unsigned)k; e.n[i] = a.n[i] * (sa_felimb)k; fits = fits && ((pr >> (8 * sizeof(sa_felimb))) == 0); }
    __CPROVER_assert(fits, "C05 fe_mul_int: no limb overflows");
    __CPROVER_assert(sa_fe_limbs_equal(&r, &e), "C05 fe_mul_int: value is r * a (every limb is a times the input limb)");
    __CPROVER_assert(sa_fe_mag(&r, m * k), "C05 fe_mul_int: magnitude multiplied by a");
    if (m == 4 && k == 8) REACH("fe_mul_int 4*8");
    if (m == 1 && k == 32) REACH("fe_mul_int 1*32");
}
void h_fe_half(void) {
    INPUT(secp256k1_fe, a); INPUT(int, m);
    secp256k1_fe r;
    __CPROVER_assume(m >= 0 && m <= 31 && sa_fe_mag(&a, m)); FE_FIELDS(a, m, 0);
    r = a;
    secp256k1_fe_half(&r);
    __CPROVER_assert(sa_cong_p(fval(&r) + fval(&r), fval(&a)), "C05 fe_half: 2 r == a (mod p)");
    __CPROVER_assert(sa_fe_mag(&r, (m >> 1) + 1), "C05 fe_half: output magnitude floor(m/2)+1");
    if (m == 31 && (fval(&a) & 1)) REACH("fe_half odd m=31");
    if (!(fval(&a) & 1)) REACH("fe_half even");
}
#endif

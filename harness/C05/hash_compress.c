/* C05 (c) L0: the one-block compression function secp256k1_sha256_transform_impl.
 *
 * h_compress_fips: attempt to prove it equal to FIPS 180-4 section 6.2.2 for ALL 2^768 (state, block) inputs.
 *   The specification below is written from the standard (Ch, Maj, Sigma/sigma with ROTR/SHR, K table,
 *   message schedule W_t = sigma1(W_{t-2}) + W_{t-7} + sigma0(W_{t-15}) + W_{t-16}) but keeps the schedule in a
 *   16-word rolling window like the implementation, so that the miter has the same round structure.
 *   MEASURED 2026-09-23 (thorough tier, CaDiCaL, timeout 1500 s): UNDECIDED (timeout).  The compression function
 *   therefore stays ASSUMED (the oracle of hash_spec.h); this entry is not in the unit table.  The spec was
 *   validated natively against the real code on random inputs (replay driver), so a later attempt can reuse it.
 * h_sha_vectors: a TEST, not a proof: the NIST example vectors ("abc", empty string, the 448-bit
 *   message) evaluated through the REAL initialize/write/finalize/transform code by symbolic execution of
 *   concrete inputs (bounded = 'concrete vectors').  It pins the constants (IV, K table, rotation amounts,
 *   byte order) that the oracle abstraction cannot see. */
#include "hash_spec.h"
#include "src/secp256k1.c"
#include "post.h"

static uint32_t rr(uint32_t x, unsigned n) { return (x >> n) | (x << (32 - n)); }
static const uint32_t SK[64] = {
 0x428a2f98,0x71374491,0xb5c0fbcf,0xe9b5dba5,0x3956c25b,0x59f111f1,0x923f82a4,0xab1c5ed5,0xd807aa98,0x12835b01,0x243185be,0x550c7dc3,0x72be5d74,0x80deb1fe,0x9bdc06a7,0xc19bf174,
 0xe49b69c1,0xefbe4786,0x0fc19dc6,0x240ca1cc,0x2de92c6f,0x4a7484aa,0x5cb0a9dc,0x76f988da,0x983e5152,0xa831c66d,0xb00327c8,0xbf597fc7,0xc6e00bf3,0xd5a79147,0x06ca6351,0x14292967,
 0x27b70a85,0x2e1b2138,0x4d2c6dfc,0x53380d13,0x650a7354,0x766a0abb,0x81c2c92e,0x92722c85,0xa2bfe8a1,0xa81a664b,0xc24b8b70,0xc76c51a3,0xd192e819,0xd6990624,0xf40e3585,0x106aa070,
 0x19a4c116,0x1e376c08,0x2748774c,0x34b0bcb5,0x391c0cb3,0x4ed8aa4a,0x5b9cca4f,0x682e6ff3,0x748f82ee,0x78a5636f,0x84c87814,0x8cc70208,0x90befffa,0xa4506ceb,0xbef9a3f7,0xc67178f2};
static void spec_compress(uint32_t h[8], const unsigned char *blk) {
    uint32_t w[16], a, b, c, d, e, f, g, hh; int t;
    for (t = 0; t < 16; t++) w[t] = (uint32_t)blk[4*t] << 24 | (uint32_t)blk[4*t+1] << 16 | (uint32_t)blk[4*t+2] << 8 | blk[4*t+3];
    a = h[0]; b = h[1]; c = h[2]; d = h[3]; e = h[4]; f = h[5]; g = h[6]; hh = h[7];
    for (t = 0; t < 64; t++) {
        uint32_t S1, ch, t1, S0, mj, t2;
        if (t >= 16) {
            uint32_t w15 = w[(t + 1) & 15], w2 = w[(t + 14) & 15];
            uint32_t s0 = rr(w15, 7) ^ rr(w15, 18) ^ (w15 >> 3), s1 = rr(w2, 17) ^ rr(w2, 19) ^ (w2 >> 10);
            w[t & 15] = s1 + w[(t + 9) & 15] + s0 + w[t & 15];
        }
        S1 = rr(e, 6) ^ rr(e, 11) ^ rr(e, 25); ch = (e & f) ^ (~e & g); t1 = hh + S1 + ch + SK[t] + w[t & 15];
        S0 = rr(a, 2) ^ rr(a, 13) ^ rr(a, 22); mj = (a & b) ^ (a & c) ^ (b & c); t2 = S0 + mj;
        hh = g; g = f; f = e; e = d + t1; d = c; c = b; b = a; a = t1 + t2;
    }
    h[0] += a; h[1] += b; h[2] += c; h[3] += d; h[4] += e; h[5] += f; h[6] += g; h[7] += hh;
}

void h_compress_fips(void) {
    INPUT_ARR(uint32_t, st, 8); INPUT_ARR(unsigned char, blk, 64);
    uint32_t s1[8], s2[8]; int i;
    memcpy(s1, st, 32); memcpy(s2, st, 32);
    secp256k1_sha256_transform_impl(s1, blk);
    spec_compress(s2, blk);
    for (i = 0; i < 8; i++) __CPROVER_assert(s1[i] == s2[i], "C05 sha256_transform_impl: equals the FIPS 180-4 compression function for every state and block");
    REACH("compress end");
}

static void vec(const secp256k1_hash_ctx *hc, const unsigned char *msg, size_t len, size_t split, unsigned char *out) {
    secp256k1_sha256 h;
    secp256k1_sha256_initialize(&h);
    secp256k1_sha256_write(hc, &h, msg, split);
    secp256k1_sha256_write(hc, &h, msg + split, len - split);
    secp256k1_sha256_finalize(hc, &h, out);
}
void h_sha_vectors(void) {
    static const unsigned char abc[3] = {'a', 'b', 'c'};
    static const unsigned char m448[56] = "abcdbcdecdefdefgefghfghighijhijkijkljklmklmnlmnomnopnopq";
    static const unsigned char d_abc[32] = {0xba,0x78,0x16,0xbf,0x8f,0x01,0xcf,0xea,0x41,0x41,0x40,0xde,0x5d,0xae,0x22,0x23,0xb0,0x03,0x61,0xa3,0x96,0x17,0x7a,0x9c,0xb4,0x10,0xff,0x61,0xf2,0x00,0x15,0xad};
    static const unsigned char d_empty[32] = {0xe3,0xb0,0xc4,0x42,0x98,0xfc,0x1c,0x14,0x9a,0xfb,0xf4,0xc8,0x99,0x6f,0xb9,0x24,0x27,0xae,0x41,0xe4,0x64,0x9b,0x93,0x4c,0xa4,0x95,0x99,0x1b,0x78,0x52,0xb8,0x55};
    static const unsigned char d_448[32] = {0x24,0x8d,0x6a,0x61,0xd2,0x06,0x38,0xb8,0xe5,0xc0,0x26,0x93,0x0c,0x3e,0x60,0x39,0xa3,0x3c,0xe4,0x59,0x64,0xff,0x21,0x67,0xf6,0xec,0xed,0xd4,0x19,0xdb,0x06,0xc1};
    secp256k1_hash_ctx hc; unsigned char o1[32], o2[32], o3[32], o4[32]; int i, ok1 = 1, ok2 = 1, ok3 = 1, ok4 = 1;
    secp256k1_hash_ctx_init(&hc);
    vec(&hc, abc, 3, 1, o1);
    vec(&hc, abc, 0, 0, o2);
    vec(&hc, m448, 56, 0, o3);
    vec(&hc, m448, 56, 17, o4);
    for (i = 0; i < 32; i++) { ok1 &= o1[i] == d_abc[i]; ok2 &= o2[i] == d_empty[i]; ok3 &= o3[i] == d_448[i]; ok4 &= o4[i] == d_448[i]; }
    __CPROVER_assert(ok1, "C05 sha256 vector (test): SHA256('abc'), written as 'a' + 'bc'");
    __CPROVER_assert(ok2, "C05 sha256 vector (test): SHA256('')");
    __CPROVER_assert(ok3, "C05 sha256 vector (test): SHA256 of the 448-bit NIST message (two blocks after padding)");
    __CPROVER_assert(ok4, "C05 sha256 vector (test): the same message split 17 + 39");
    REACH("vectors end");
}

/* C05 r3: the CUT.  A direct monolithic comparison "real macro code == 192-bit column chain" does not scale for the SAT back end
 * (scalar_mul_512: limb 3 takes 170 s, limb 4 > 300 s, all limbs undecided after 20 min - every later limb has to re-derive that the
 * (c0,c1,c2) carry-compare code of all earlier steps is an addition).  The macros of scalar_4x64_impl.h cannot be given contracts, so
 * the cut is made on a MODEL: a transcription of the macro sequence of scalar_mul_512 / scalar_reduce_512 into C functions
 * (r3m_muladd, r3m_muladd_fast, r3m_sumadd, r3m_sumadd_fast, r3m_extract, r3m_extract_fast operating on a struct {c0,c1,c2}).
 *
 *   A  C05.r3_mul512_model / r3_reduce512_model   REAL code == model, limb for limb                (same operations: an isomorphic miter)
 *   B  C05.r3_mul512_model_chain / r3_reduce512_model_chain   model == column chain r3_chain, with the model's step functions REPLACED by
 *      their contracts "value(c0,c1,c2) increases by exactly x" (so every step is cut from its predecessors); the preconditions of
 *      the _fast steps ("the sum fits 128 bits, c2 == 0") are obligations at each call site
 *   C  C05.r3_model_steps   the step contracts hold for the step bodies (generic, free state)
 *   D  C05.r3_chain_lemma_*  column chain == direct sum (pure)
 * A o B o D:  real l == sum umul(a_i,b_j) 2^(64(i+j));  real r == cs(fold(fold(fold(l)))).  Each arrow is substitution of equals. */
#include "assumed_r3_scmul.h"
#if !defined(USE_FORCE_WIDEMUL_INT64) && !defined(VERIF_NATIVE)
typedef struct { uint64_t c0, c1, c2; } r3_acc;
#define R3_VAL3(c0, c1, c2) (R3T(c0) | (R3T(c1) << 64) | (R3T(c2) << 128))
#define R3_VAL(A) R3_VAL3((A)->c0, (A)->c1, (A)->c2)
#define R3_OLDVAL(A) R3_VAL3(__CPROVER_old((A)->c0), __CPROVER_old((A)->c1), __CPROVER_old((A)->c2))
/* step contracts: PRE(c0,c1,c2,x) and POST(old c0,c1,c2, x, new c0,c1,c2), shared by the contract clauses and by h_r3_model_steps */
#define R3_PRE_FULL(c0, c1, c2, x) (((c2) >> 63) == 0)                                             /* room in the 192-bit accumulator */
#define R3_PRE_FAST(c0, c1, c2, x) ((c2) == 0 && ((R3_VAL3(c0, c1, c2) + R3T(x)) >> 128) == 0)     /* the sum fits (c0,c1) */
#define R3_POST_ADD(o0, o1, o2, x, n0, n1, n2) (R3_VAL3(n0, n1, n2) == R3_VAL3(o0, o1, o2) + R3T(x))
static void r3m_muladd(r3_acc *A, r3_u128 x)
__CPROVER_requires(__CPROVER_rw_ok(A, sizeof(*A)) && R3_PRE_FULL(A->c0, A->c1, A->c2, x))
__CPROVER_assigns(*A)
__CPROVER_ensures(R3_VAL(A) == R3_OLDVAL(A) + R3T(x))
;
static void r3m_muladd_fast(r3_acc *A, r3_u128 x)
__CPROVER_requires(__CPROVER_rw_ok(A, sizeof(*A)) && R3_PRE_FAST(A->c0, A->c1, A->c2, x))
__CPROVER_assigns(*A)
__CPROVER_ensures(R3_VAL(A) == R3_OLDVAL(A) + R3T(x))
;
static void r3m_sumadd(r3_acc *A, uint64_t a)
__CPROVER_requires(__CPROVER_rw_ok(A, sizeof(*A)) && R3_PRE_FULL(A->c0, A->c1, A->c2, a))
__CPROVER_assigns(*A)
__CPROVER_ensures(R3_VAL(A) == R3_OLDVAL(A) + R3T(a))
;
static void r3m_sumadd_fast(r3_acc *A, uint64_t a)
__CPROVER_requires(__CPROVER_rw_ok(A, sizeof(*A)) && R3_PRE_FAST(A->c0, A->c1, A->c2, a))
__CPROVER_assigns(*A)
__CPROVER_ensures(R3_VAL(A) == R3_OLDVAL(A) + R3T(a))
;
#endif
#include "src/secp256k1.c"
#include "post.h"
#if !defined(USE_FORCE_WIDEMUL_INT64) && !defined(VERIF_NATIVE)
/* ---- the model: macro bodies of scalar_4x64_impl.h as functions (x = the 128-bit product the macro obtains from the multiplier) */
static void r3m_muladd(r3_acc *A, r3_u128 x) {
    uint64_t tl = (uint64_t)x, th = (uint64_t)(x >> 64);
    A->c0 += tl; th += (A->c0 < tl); A->c1 += th; A->c2 += (A->c1 < th);
}
static void r3m_muladd_fast(r3_acc *A, r3_u128 x) {
    uint64_t tl = (uint64_t)x, th = (uint64_t)(x >> 64);
    A->c0 += tl; th += (A->c0 < tl); A->c1 += th;
}
static void r3m_sumadd(r3_acc *A, uint64_t a) {
    unsigned int over;
    A->c0 += a; over = (A->c0 < a); A->c1 += over; A->c2 += (A->c1 < over);
}
static void r3m_sumadd_fast(r3_acc *A, uint64_t a) {
    A->c0 += a; A->c1 += (A->c0 < a);
}
static uint64_t r3m_extract(r3_acc *A) { uint64_t n = A->c0; A->c0 = A->c1; A->c1 = A->c2; A->c2 = 0; return n; }
static uint64_t r3m_extract_fast(r3_acc *A) { uint64_t n = A->c0; A->c0 = A->c1; A->c1 = 0; return n; }
#define U_(a, b) R3_UMUL(a, b)
/* scalar_mul_512, portable branch, line by line; returns what is left in the accumulator after the last limb */
static r3_w192 r3m_mul_512(uint64_t *l8, const uint64_t *a, const uint64_t *b) {
    r3_acc A = {0, 0, 0};
    r3m_muladd_fast(&A, U_(a[0], b[0])); l8[0] = r3m_extract_fast(&A);
    r3m_muladd(&A, U_(a[0], b[1])); r3m_muladd(&A, U_(a[1], b[0])); l8[1] = r3m_extract(&A);
    r3m_muladd(&A, U_(a[0], b[2])); r3m_muladd(&A, U_(a[1], b[1])); r3m_muladd(&A, U_(a[2], b[0])); l8[2] = r3m_extract(&A);
    r3m_muladd(&A, U_(a[0], b[3])); r3m_muladd(&A, U_(a[1], b[2])); r3m_muladd(&A, U_(a[2], b[1])); r3m_muladd(&A, U_(a[3], b[0])); l8[3] = r3m_extract(&A);
    r3m_muladd(&A, U_(a[1], b[3])); r3m_muladd(&A, U_(a[2], b[2])); r3m_muladd(&A, U_(a[3], b[1])); l8[4] = r3m_extract(&A);
    r3m_muladd(&A, U_(a[2], b[3])); r3m_muladd(&A, U_(a[3], b[2])); l8[5] = r3m_extract(&A);
    r3m_muladd_fast(&A, U_(a[3], b[3])); l8[6] = r3m_extract_fast(&A);
    l8[7] = A.c0;
    return R3_VAL(&A) >> 64;
}
/* scalar_reduce_512, portable branch: stages 1 and 2 with the macros, stage 3 with 128-bit accumulator arithmetic; outputs the
 * intermediate numbers m (7 limbs), p (5 limbs), q (4 limbs) and the final carry c */
static void r3m_reduce_512(uint64_t *m, uint64_t *p, uint64_t *q, uint64_t *c, const uint64_t *l) {
    r3_acc A; r3_u128 c128; uint32_t m6, p4;
    uint64_t n0 = l[4], n1 = l[5], n2 = l[6], n3 = l[7];
    A.c0 = l[0]; A.c1 = 0; A.c2 = 0;
    r3m_muladd_fast(&A, U_(n0, R3_NC0)); m[0] = r3m_extract_fast(&A);
    r3m_sumadd_fast(&A, l[1]); r3m_muladd(&A, U_(n1, R3_NC0)); r3m_muladd(&A, U_(n0, R3_NC1)); m[1] = r3m_extract(&A);
    r3m_sumadd(&A, l[2]); r3m_muladd(&A, U_(n2, R3_NC0)); r3m_muladd(&A, U_(n1, R3_NC1)); r3m_sumadd(&A, n0); m[2] = r3m_extract(&A);
    r3m_sumadd(&A, l[3]); r3m_muladd(&A, U_(n3, R3_NC0)); r3m_muladd(&A, U_(n2, R3_NC1)); r3m_sumadd(&A, n1); m[3] = r3m_extract(&A);
    r3m_muladd(&A, U_(n3, R3_NC1)); r3m_sumadd(&A, n2); m[4] = r3m_extract(&A);
    r3m_sumadd_fast(&A, n3); m[5] = r3m_extract_fast(&A);
    m6 = A.c0; m[6] = m6;
    A.c0 = m[0]; A.c1 = 0; A.c2 = 0;
    r3m_muladd_fast(&A, U_(m[4], R3_NC0)); p[0] = r3m_extract_fast(&A);
    r3m_sumadd_fast(&A, m[1]); r3m_muladd(&A, U_(m[5], R3_NC0)); r3m_muladd(&A, U_(m[4], R3_NC1)); p[1] = r3m_extract(&A);
    r3m_sumadd(&A, m[2]); r3m_muladd(&A, U_(m6, R3_NC0)); r3m_muladd(&A, U_(m[5], R3_NC1)); r3m_sumadd(&A, m[4]); p[2] = r3m_extract(&A);
    r3m_sumadd_fast(&A, m[3]); r3m_muladd_fast(&A, U_(m6, R3_NC1)); r3m_sumadd_fast(&A, m[5]); p[3] = r3m_extract_fast(&A);
    p4 = A.c0 + m6; p[4] = p4;
    c128 = p[0]; c128 += U_(R3_NC0, p4); q[0] = (uint64_t)c128; c128 >>= 64;
    c128 += p[1]; c128 += U_(R3_NC1, p4); q[1] = (uint64_t)c128; c128 >>= 64;
    c128 += p[2]; c128 += p4; q[2] = (uint64_t)c128; c128 >>= 64;
    c128 += p[3]; q[3] = (uint64_t)c128;
    *c = (uint64_t)(c128 >> 64);
}
#include "r3_sctables.h"

/* ---- A: real code == model */
void h_r3_mul512_model(void) {
    INPUT(secp256k1_scalar, a); INPUT(secp256k1_scalar, b);
    uint64_t l[8], s[8]; INPUT(unsigned, k);
    secp256k1_scalar_mul_512(l, &a, &b);
    (void)r3m_mul_512(s, a.d, b.d);
    __CPROVER_assume(k < 8);
    __CPROVER_assert(l[0] == s[0] && l[1] == s[1] && l[2] == s[2] && l[3] == s[3], "C05 r3 scalar_mul_512 == model: limbs 0..3");
    __CPROVER_assert(l[4] == s[4] && l[5] == s[5] && l[6] == s[6] && l[7] == s[7], "C05 r3 scalar_mul_512 == model: limbs 4..7");
    if (l[7] == 0xFFFFFFFFFFFFFFFEULL) REACH("scalar_mul_512 model: top limb at its maximum");
    if (l[k] != 0) REACH("scalar_mul_512 model: some limb non-zero");
}
void h_r3_reduce512_model(void) {
    INPUT_ARR(uint64_t, lv, 8);
    secp256k1_scalar r; uint64_t m[7], p[5], q[4], c; r3_wide v, nn, expect;
    secp256k1_scalar_reduce_512(&r, lv);
    r3m_reduce_512(m, p, q, &c, lv);
    nn = R3W(N_());
    v = r3_limbs(q, 4) + (R3W(c) << 256);
    expect = v >= nn ? v - nn : v;
    __CPROVER_assert(v < (nn << 1), "C05 r3 scalar_reduce_512 model: value before the final reduction is below 2 n");
    __CPROVER_assert(R3W(sval(&r)) == expect, "C05 r3 scalar_reduce_512 == cs(model): r equals the model's (q, c) after one conditional subtraction of n");
    if (c != 0) REACH("reduce_512 model: final carry c = 1");
    if (c == 0 && v >= nn) REACH("reduce_512 model: no carry but value >= n");
    if (p[4] == 2) REACH("reduce_512 model: p4 = 2");
}
/* ---- B: model == column chains (model step functions replaced by their contracts) */
void h_r3_mul512_model_chain(void) {
    INPUT(secp256k1_scalar, a); INPUT(secp256k1_scalar, b);
    uint64_t l[8], s[8]; r3_u128 x[16]; r3_w192 carry, left; int i;
    for (i = 0; i < 4; i++) for (int j = 0; j < 4; j++) __CPROVER_assume(R3_AX(a.d[i], b.d[j]));   /* the multiplier contract's range axioms, at the 16 products used */
    left = r3m_mul_512(l, a.d, b.d);
    r3_products_mul(x, &a, &b);
    carry = r3_chain(x, R3_COL_MUL, 16, 8, s);
    __CPROVER_assert(l[0] == s[0] && l[1] == s[1] && l[2] == s[2] && l[3] == s[3], "C05 r3 mul_512 model == column chain: limbs 0..3");
    __CPROVER_assert(l[4] == s[4] && l[5] == s[5] && l[6] == s[6] && l[7] == s[7], "C05 r3 mul_512 model == column chain: limbs 4..7");
    __CPROVER_assert(carry == 0 && left == 0, "C05 r3 mul_512 model/chain: nothing left above limb 7 (the sum of 16 products <= (2^64-1)^2 is below 2^512)");
    if (l[7] == 0xFFFFFFFFFFFFFFFEULL) REACH("mul_512 model chain: top limb at its maximum");
}
void h_r3_reduce512_model_chain(void) {
    INPUT_ARR(uint64_t, lw, 8);
    uint64_t m[7], p[5], q[4], c, ms[7], ps[5], qs[4]; r3_u128 x1[16], x2[13], x3[7]; r3_w192 c1, c2, c3; r3_wide v; int i;
    r3_addends_s1(x1, lw); c1 = r3_chain(x1, R3_COL_S1, 16, 7, ms);
    r3_addends_s2(x2, ms); c2 = r3_chain(x2, R3_COL_S2, 13, 5, ps);
    r3_addends_s3(x3, ps); c3 = r3_chain(x3, R3_COL_S3, 7, 4, qs);
    /* the multiplier contract's range axioms at the 13 products used (operands as in the spec; the model's are proved equal below) */
    for (i = 0; i < 4; i++) __CPROVER_assume(R3_AX(lw[4 + i], R3_NC0) && R3_AX(lw[4 + i], R3_NC1));
    for (i = 0; i < 3; i++) __CPROVER_assume(R3_AX(ms[4 + i], R3_NC0) && R3_AX(ms[4 + i], R3_NC1));
    __CPROVER_assume(R3_AX(R3_NC0, ps[4]) && R3_AX(R3_NC1, ps[4]));
    r3m_reduce_512(m, p, q, &c, lw);
    v = r3_limbs(qs, 4) + (R3W(c3) << 256);
    __CPROVER_assert(c1 == 0 && ms[6] <= 1, "C05 r3 reduce_512 spec: first fold fits 385 bits (limb 6 <= 1, no carry)");
    __CPROVER_assert(m[0] == ms[0] && m[1] == ms[1] && m[2] == ms[2] && m[3] == ms[3] && m[4] == ms[4] && m[5] == ms[5] && m[6] == ms[6], "C05 r3 reduce_512 model == column chain: m[0..6] (fold 1)");
    __CPROVER_assert(c2 == 0 && ps[4] <= 2, "C05 r3 reduce_512 spec: second fold fits 258 bits (limb 4 <= 2, no carry)");
    __CPROVER_assert(p[0] == ps[0] && p[1] == ps[1] && p[2] == ps[2] && p[3] == ps[3] && p[4] == ps[4], "C05 r3 reduce_512 model == column chain: p[0..4] (fold 2)");
    __CPROVER_assert(q[0] == qs[0] && q[1] == qs[1] && q[2] == qs[2] && q[3] == qs[3] && R3T(c) == c3, "C05 r3 reduce_512 model == column chain: q[0..3] and the final carry c (fold 3)");
    __CPROVER_assert(v < (R3W(N_()) << 1), "C05 r3 reduce_512 spec: third fold is below 2 n (one conditional subtraction suffices)");
    if (c3 != 0) REACH("reduce_512 model chain: final carry 1");
    if (ps[4] == 2) REACH("reduce_512 model chain: p4 = 2");
    if (ms[6] == 1) REACH("reduce_512 model chain: m6 = 1");
}
/* ---- C: the step contracts hold for the step bodies */
void h_r3_model_steps(void) {
    INPUT(r3_acc, A0); INPUT(r3_u128, x); INPUT(uint64_t, w); INPUT(unsigned, which);
    r3_acc A = A0;
    __CPROVER_assume(which < 4);
    if (which == 0) { __CPROVER_assume(R3_PRE_FULL(A0.c0, A0.c1, A0.c2, x)); r3m_muladd(&A, x);
        __CPROVER_assert(R3_POST_ADD(A0.c0, A0.c1, A0.c2, x, A.c0, A.c1, A.c2), "C05 r3 model step muladd: value(c0,c1,c2) += x"); REACH("step muladd"); }
    if (which == 1) { __CPROVER_assume(R3_PRE_FAST(A0.c0, A0.c1, A0.c2, x)); r3m_muladd_fast(&A, x);
        __CPROVER_assert(R3_POST_ADD(A0.c0, A0.c1, A0.c2, x, A.c0, A.c1, A.c2), "C05 r3 model step muladd_fast: value(c0,c1) += x when the sum fits 128 bits"); REACH("step muladd_fast"); }
    if (which == 2) { __CPROVER_assume(R3_PRE_FULL(A0.c0, A0.c1, A0.c2, w)); r3m_sumadd(&A, w);
        __CPROVER_assert(R3_POST_ADD(A0.c0, A0.c1, A0.c2, w, A.c0, A.c1, A.c2), "C05 r3 model step sumadd: value(c0,c1,c2) += a"); REACH("step sumadd"); }
    if (which == 3) { __CPROVER_assume(R3_PRE_FAST(A0.c0, A0.c1, A0.c2, w)); r3m_sumadd_fast(&A, w);
        __CPROVER_assert(R3_POST_ADD(A0.c0, A0.c1, A0.c2, w, A.c0, A.c1, A.c2), "C05 r3 model step sumadd_fast: value(c0,c1) += a when the sum fits 128 bits"); REACH("step sumadd_fast"); }
}
#endif

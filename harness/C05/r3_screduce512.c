/* C05 r3: VALUE of secp256k1_scalar_reduce_512 (portable C, 4x64, native __int128), proved compositionally, relative to the
 * uninterpreted 64x64 multiplier umul with range axioms (contracts/assumed_r3_scmul.h).
 *
 * Mathematical definition.  With N_C = 2^256 - n = NC0 + NC1 2^64 + 2^128 and x = lo + hi 2^256 (lo < 2^256, hi = sum h_i 2^(64 i)):
 *      fold(x) = lo + sum_i ( umul(h_i, NC0) 2^(64 i) + umul(h_i, NC1) 2^(64 (i+1)) + h_i 2^(64 (i+2)) )      [ = lo + hi N_C for the exact umul ]
 *      fold(x) == x (mod n) because 2^256 == N_C (mod n);   r = cs(fold(fold(fold(l)))),  cs(v) = v - n if v >= n else v,  with v < 2n.
 * (the third fold multiplies with the constant as FIRST operand: umul(NC0, p4), as the code does; umul has no commutativity axiom)
 *
 * Pieces:
 *  (1) C05.r3_reduce512_chain (REAL code): r == cs( chain3( chain2( chain1(l) ) ) ) where chain_s = r3_chain over the addend table of
 *      fold number s (R3_COL_S1/S2/S3 below: which addend goes to which 64-bit column), plus the range facts that make the
 *      composition exact: chain1 yields 7 limbs with limb 6 <= 1 and carry 0 (385 bits), chain2 yields 5 limbs with limb 4 <= 2 and
 *      carry 0 (258 bits), chain3 yields 4 limbs + carry with value < 2n.
 *  (2) C05.r3_chain_lemma_s1 / _s2 / _s3 (NO library code, free 128-bit addends): for each of the three addend tables,
 *      sum_k chain_k 2^(64 k) + carry 2^(64 ncol) == sum_t x_t 2^(64 col t)   ( == fold(.) by definition: the right-hand side with
 *      the addends of r3_addends_s IS the displayed formula for fold).
 *  Composition (substitution of equals only):  value(chain1(l)) = fold(l);  value(chain2(m)) = fold(value m);  value(chain3(p)) + c 2^256 = fold(value p). */
#include "assumed_r3_scmul.h"
#include "src/secp256k1.c"
#include "post.h"

#ifndef VERIF_NATIVE
#if !defined(USE_FORCE_WIDEMUL_INT64)
#include "r3_sctables.h"

void h_r3_reduce512_chain(void) {
    INPUT_ARR(uint64_t, lv, 8);
    secp256k1_scalar r; r3_u128 x1[16], x2[13], x3[7]; uint64_t m[7], p[5], q[4]; r3_w192 c1, c2, c3; r3_wide v, nn, expect;
    secp256k1_scalar_reduce_512(&r, lv);
    r3_addends_s1(x1, lv); c1 = r3_chain(x1, R3_COL_S1, 16, 7, m);
    r3_addends_s2(x2, m);  c2 = r3_chain(x2, R3_COL_S2, 13, 5, p);
    r3_addends_s3(x3, p);  c3 = r3_chain(x3, R3_COL_S3, 7, 4, q);
    nn = R3W(N_());
    v = r3_limbs(q, 4) + (R3W(c3) << 256);
    expect = v >= nn ? v - nn : v;
    __CPROVER_assert(c1 == 0 && m[6] <= 1, "C05 r3 scalar_reduce_512 spec: first fold fits 385 bits (limb 6 <= 1, no carry)");
    __CPROVER_assert(c2 == 0 && p[4] <= 2, "C05 r3 scalar_reduce_512 spec: second fold fits 258 bits (limb 4 <= 2, no carry)");
    __CPROVER_assert(v < (nn << 1), "C05 r3 scalar_reduce_512 spec: third fold is below 2 n (one conditional subtraction suffices)");
    __CPROVER_assert(R3W(sval(&r)) == expect, "C05 r3 scalar_reduce_512: r == cs(chain3(chain2(chain1(l)))) (three column-chain folds by 2^256 == 2^256 - n, then one conditional subtraction of n)");
    __CPROVER_assert(sval(&r) < N_(), "C05 r3 scalar_reduce_512: result below n");
    if (c3 != 0) REACH("reduce_512 chain: third fold carries out of 2^256 (final carry c = 1)");
    if (c3 == 0 && v >= nn) REACH("reduce_512 chain: no carry but value >= n");
    if (p[4] == 2) REACH("reduce_512 chain: p4 = 2");
    if (m[6] == 1) REACH("reduce_512 chain: m6 = 1");
}
/* (2) pure lemmas: column chain == direct sum for the three addend tables (free 128-bit addends) */
void h_r3_chain_lemma_s1(void) {
    INPUT_ARR(r3_u128, xs1, 16); uint64_t s[7]; r3_w192 carry;
    carry = r3_chain(xs1, R3_COL_S1, 16, 7, s);
    __CPROVER_assert(r3_limbs(s, 7) + (R3W(carry) << 448) == r3_sum(xs1, R3_COL_S1, 16), "C05 r3 chain lemma (fold 1 table, 16 addends, 7 limbs): sum_k chain_k 2^(64k) + carry 2^448 == sum_t x_t 2^(64 col t)");
    if (s[6] > 1) REACH("chain lemma s1: free addends");
}
void h_r3_chain_lemma_s2(void) {
    INPUT_ARR(r3_u128, xs2, 13); uint64_t s[5]; r3_w192 carry;
    carry = r3_chain(xs2, R3_COL_S2, 13, 5, s);
    __CPROVER_assert(r3_limbs(s, 5) + (R3W(carry) << 320) == r3_sum(xs2, R3_COL_S2, 13), "C05 r3 chain lemma (fold 2 table, 13 addends, 5 limbs): sum_k chain_k 2^(64k) + carry 2^320 == sum_t x_t 2^(64 col t)");
    if (carry != 0) REACH("chain lemma s2: free addends");
}
void h_r3_chain_lemma_s3(void) {
    INPUT_ARR(r3_u128, xs3, 7); uint64_t s[4]; r3_w192 carry;
    carry = r3_chain(xs3, R3_COL_S3, 7, 4, s);
    __CPROVER_assert(r3_limbs(s, 4) + (R3W(carry) << 256) == r3_sum(xs3, R3_COL_S3, 7), "C05 r3 chain lemma (fold 3 table, 7 addends, 4 limbs): sum_k chain_k 2^(64k) + carry 2^256 == sum_t x_t 2^(64 col t)");
    if (carry != 0) REACH("chain lemma s3: free addends");
}
/* the axioms (B0),(B1),(E2) of the uninterpreted multiplier hold for the exact product, and the two real one-line bodies compute it */
void h_r3_umul_model(void) {
    INPUT(uint64_t, ua); INPUT(uint64_t, ub); INPUT(uint64_t, hi0); INPUT(uint64_t, lo0);
    secp256k1_uint128 t, acc; r3_u128 v, w, a0;
    secp256k1_u128_mul(&t, ua, ub);
    v = ((r3_u128)secp256k1_u128_hi_u64(&t) << 64) | secp256k1_u128_to_u64(&t);
    __CPROVER_assert(R3_AX_V(v, ua, ub), "C05 r3 umul axioms (B0),(B1),(E2) hold for the value computed by the real secp256k1_u128_mul");
    a0 = ((r3_u128)hi0 << 64) | lo0;
    secp256k1_u128_load(&acc, hi0, lo0);
    if (ub <= 2 || ua <= 2) {   /* accum_mul on the operands where (E2) pins the value: *r == old + a b */
        secp256k1_u128_accum_mul(&acc, ua, ub);
        w = ((r3_u128)secp256k1_u128_hi_u64(&acc) << 64) | secp256k1_u128_to_u64(&acc);
        __CPROVER_assert(w == a0 + (ua <= 2 ? R3_SMALL(ua, ub) : R3_SMALL(ub, ua)), "C05 r3 umul model: real secp256k1_u128_accum_mul adds the exact product (small operand)");
        REACH("umul model: accum_mul small operand");
    }
    if (ub == R3_NC0 && v == (r3_u128)R3_M64 * R3_NC0) REACH("umul model: (B1) tight");
}
#endif
#endif

/* C05 (a) scalar leaf functions (scalar_4x64_impl.h / scalar_8x32_impl.h by cfg; with cfg W128S the 4x64 code
 * runs on the struct emulation of uint128) against integer arithmetic modulo the group order n, all inputs.
 * value = sval (pre.h).  The only assumptions: input scalars are reduced (value < n) where scalar.h requires a
 * scalar, flags are 0/1, bit positions are in the documented range. */
#include "spec_arith.h"
#include "src/secp256k1.c"
#include "post.h"

#ifndef VERIF_NATIVE
#define SC_OK(a) (sval(a) < N_())

void h_sc_add(void) {
    INPUT(secp256k1_scalar, a); INPUT(secp256k1_scalar, b); INPUT(secp256k1_scalar, x); INPUT(unsigned, ov); INPUT(unsigned, amode);
    secp256k1_scalar r, *pr; int o; wide s, n = N_(), two256 = W(1) << 256;
    /* check_overflow: any 256-bit pattern */
    __CPROVER_assert(secp256k1_scalar_check_overflow(&x) == (sval(&x) >= n), "C05 scalar_check_overflow: value >= n");
    /* reduce: subtracts overflow * n modulo 2^256 */
    __CPROVER_assume(ov <= 1);
    r = x;
    /* when used as documented (overflow flag = value >= n) the result is value mod n */
    if (ov == (unsigned)(sval(&x) >= n)) {
        o = secp256k1_scalar_reduce(&r, ov);
        __CPROVER_assert(sval(&r) == sa_mod_n_2(sval(&x)) && o == (int)ov, "C05 scalar_reduce: value mod n when overflow = (value >= n)");
        if (ov) REACH("scalar_reduce overflow");
    }
    /* add */
    /* aliasing as used by the library: 0 all distinct, 1 r == a (s += t), 2 r == b, 3 a == b (doubling), 4 r == a == b */
    __CPROVER_assume(SC_OK(&a) && SC_OK(&b) && amode <= 4);
    if (amode >= 3) b = a;
    s = sval(&a) + sval(&b);
    pr = (amode == 1 || amode == 4) ? &a : (amode == 2 ? &b : &r);
    o = secp256k1_scalar_add(pr, &a, amode == 4 ? &a : (amode == 3 ? &a : &b));
    r = *pr;
    __CPROVER_assert(sval(&r) == sa_mod_n_2(s), "C05 scalar_add: r == (a + b) mod n");
    __CPROVER_assert(o == (s >= n), "C05 scalar_add: return value is the overflow flag a + b >= n");
    if (s >= two256) REACH("scalar_add carry out of 2^256");
    if (s >= n && s < two256) REACH("scalar_add overflow without carry");
    if (s == n) REACH("scalar_add sum exactly n");
    if (amode == 1 && s >= n) REACH("scalar_add r == a with overflow");
    if (amode == 2) REACH("scalar_add r == b");
    if (amode == 4 && s >= two256) REACH("scalar_add r == a == b with carry");
}
void h_sc_neg(void) {
    INPUT(secp256k1_scalar, a); INPUT(int, flag); INPUT(_Bool, alias);   /* alias: scalar_negate(&s, &s), scalar_half(&s, &s) */
    secp256k1_scalar r, a0, t; int c; wide n = N_(), neg, va;
    __CPROVER_assume(SC_OK(&a));
    a0 = a; va = sval(&a);
    neg = sval(&a) == 0 ? W(0) : n - sval(&a);
    __CPROVER_assert(secp256k1_scalar_is_high(&a) == (sval(&a) > (n >> 1)), "C05 scalar_is_high: a > n/2");
    t = a;
    if (alias) { secp256k1_scalar_negate(&t, &t); r = t; } else secp256k1_scalar_negate(&r, &a);
    __CPROVER_assert(sval(&r) == neg, "C05 scalar_negate: r == -a mod n");
    __CPROVER_assume(flag == 0 || flag == 1);
    r = a;
    c = secp256k1_scalar_cond_negate(&r, flag);
    __CPROVER_assert(sval(&r) == (flag ? neg : sval(&a)), "C05 scalar_cond_negate: r == flag ? -r : r (mod n)");
    __CPROVER_assert(c == (flag ? -1 : 1), "C05 scalar_cond_negate: returns -1 if negated, 1 otherwise");
    t = a0;
    if (alias) { secp256k1_scalar_half(&t, &t); r = t; } else secp256k1_scalar_half(&r, &a0);
    __CPROVER_assert(sval(&r) < n && (sval(&r) + sval(&r) == va || sval(&r) + sval(&r) == va + n), "C05 scalar_half: r < n and 2 r == a (mod n)");
    if (alias) REACH("scalar_negate / scalar_half in place");
    if (flag && sval(&a) == 0) REACH("scalar_cond_negate of zero");
    if (sval(&a) == n - 2) REACH("scalar_half largest odd");
    if (sval(&a) == (n >> 1) + 1) REACH("scalar_is_high boundary");
}
void h_sc_b32(void) {
    INPUT_ARR(unsigned char, in, 32); INPUT(secp256k1_scalar, a); INPUT(_Bool, want_ov);
    secp256k1_scalar r, r2; unsigned char out[32]; int ov = 7, ok; wide v = be256(in), n = N_();
    secp256k1_scalar_set_b32(&r, in, want_ov ? &ov : NULL);
    __CPROVER_assert(sval(&r) == sa_mod_n_2(v), "C05 scalar_set_b32: r == bytes mod n");
    __CPROVER_assert(want_ov ? ((ov != 0) == (v >= n)) : ov == 7, "C05 scalar_set_b32: overflow flag is bytes >= n (NULL allowed)");
    ok = secp256k1_scalar_set_b32_seckey(&r2, in);
    __CPROVER_assert(ok == (v != 0 && v < n), "C05 scalar_set_b32_seckey: returns 0 < bytes < n");
    if (ok) __CPROVER_assert(sval(&r2) == v, "C05 scalar_set_b32_seckey: on success r == bytes");
    __CPROVER_assume(SC_OK(&a));
    secp256k1_scalar_get_b32(out, &a);
    __CPROVER_assert(be256(out) == sval(&a), "C05 scalar_get_b32: big-endian bytes of the value");
    if (v == n) REACH("scalar_set_b32 bytes == n");
    if (v > n && !want_ov) REACH("scalar_set_b32 overflow with NULL flag");
    if (ok) REACH("scalar_set_b32_seckey valid");
}
void h_sc_small(void) {
    INPUT(secp256k1_scalar, a); INPUT(secp256k1_scalar, b); INPUT(unsigned, v); INPUT(uint64_t, v64); INPUT(int, flag);
    secp256k1_scalar r, r1, r2; size_t i;
    secp256k1_scalar_set_int(&r, v);
    __CPROVER_assert(sval(&r) == W(v), "C05 scalar_set_int: value v");
    secp256k1_scalar_set_u64(&r, v64);
    __CPROVER_assert(sval(&r) == W(v64), "C05 scalar_set_u64: value v");
    __CPROVER_assume(SC_OK(&a) && SC_OK(&b));
    __CPROVER_assert(secp256k1_scalar_is_zero(&a) == (sval(&a) == 0), "C05 scalar_is_zero");
    __CPROVER_assert(secp256k1_scalar_is_one(&a) == (sval(&a) == 1), "C05 scalar_is_one");
    __CPROVER_assert(secp256k1_scalar_is_even(&a) == ((sval(&a) & 1) == 0), "C05 scalar_is_even");
    __CPROVER_assert(secp256k1_scalar_eq(&a, &b) == (sval(&a) == sval(&b)), "C05 scalar_eq: equality of values");
    __CPROVER_assume(flag == 0 || flag == 1);
    r = b;
    secp256k1_scalar_cmov(&r, &a, flag);
    __CPROVER_assert(sval(&r) == (flag ? sval(&a) : sval(&b)), "C05 scalar_cmov: r = flag ? a : r");
    secp256k1_scalar_split_128(&r1, &r2, &a);
    __CPROVER_assert((sval(&r1) >> 128) == 0 && (sval(&r2) >> 128) == 0 && sval(&r1) + (sval(&r2) << 128) == sval(&a), "C05 scalar_split_128: r1 + r2 2^128 == k, both below 2^128");
    r = a;
    secp256k1_scalar_clear(&r);
    for (i = 0; i < sizeof(r); i++) __CPROVER_assert(((unsigned char *)&r)[i] == 0, "C05 scalar_clear: every byte zeroised");
    if (flag && sval(&a) != sval(&b)) REACH("scalar_cmov taken");
    if (secp256k1_scalar_eq(&a, &b)) REACH("scalar_eq equal");
}
void h_sc_bits(void) {
    INPUT(secp256k1_scalar, a); INPUT(unsigned, off); INPUT(unsigned, cnt); INPUT(unsigned, bit); INPUT(int, flag);
    secp256k1_scalar r; uint32_t g; wide mask;
    __CPROVER_assume(SC_OK(&a));
    __CPROVER_assume(cnt >= 1 && cnt <= 32 && off < 256 && off + cnt <= 256);
    mask = (W(1) << cnt) - 1;
    g = secp256k1_scalar_get_bits_var(&a, off, cnt);
    __CPROVER_assert(W(g) == ((sval(&a) >> off) & mask), "C05 scalar_get_bits_var: bits [offset, offset+count) of the value");
    if (((off + cnt - 1) >> 5) == (off >> 5)) {
        g = secp256k1_scalar_get_bits_limb32(&a, off, cnt);
        __CPROVER_assert(W(g) == ((sval(&a) >> off) & mask), "C05 scalar_get_bits_limb32: bits [offset, offset+count) of the value");
    } else REACH("scalar_get_bits_var straddles a 32-bit limb");
    if ((off >> 6) != ((off + cnt - 1) >> 6)) REACH("scalar_get_bits_var straddles a 64-bit limb");
    if (off + cnt == 256 && cnt == 32) REACH("scalar_get_bits_var top 32 bits");
    /* cadd_bit: the result is not allowed to overflow */
    __CPROVER_assume(bit < 256 && (flag == 0 || flag == 1));
    __CPROVER_assume(sval(&a) + (W((unsigned)flag) << bit) < N_());
    r = a;
    secp256k1_scalar_cadd_bit(&r, bit, flag);
    __CPROVER_assert(sval(&r) == sval(&a) + (W((unsigned)flag) << bit), "C05 scalar_cadd_bit: r == r + flag 2^bit");
    if (flag && bit == 255) REACH("scalar_cadd_bit bit 255");
    if (!flag) REACH("scalar_cadd_bit flag 0");
}
#endif

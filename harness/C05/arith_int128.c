/* C05 (a) int128 helpers: the SAME specification in terms of the machine's unsigned/signed __int128 is checked
 * against int128_native_impl.h (cfg W128) and against the two-limb struct emulation int128_struct_impl.h
 * (cfg W128S), so struct and native agree on every input.  Multiplying helpers (u128_mul, u128_accum_mul,
 * i128_mul, i128_accum_mul, i128_det) are NOT here: h_i128_mul_bounded below is a bounded stand-in. */
#include "spec_arith.h"
#include "src/secp256k1.c"
#include "post.h"

#ifndef VERIF_NATIVE
typedef unsigned __int128 sa_u128;
typedef __int128 sa_i128;
#if defined(SECP256K1_INT128_STRUCT)
static sa_u128 u128v(const secp256k1_uint128 *a) { return ((sa_u128)a->hi << 64) | a->lo; }
static sa_i128 i128v(const secp256k1_int128 *a) { return (sa_i128)(((sa_u128)a->hi << 64) | a->lo); }
static void u128set(secp256k1_uint128 *r, sa_u128 v) { r->hi = (uint64_t)(v >> 64); r->lo = (uint64_t)v; }
#else
static sa_u128 u128v(const secp256k1_uint128 *a) { return *a; }
static sa_i128 i128v(const secp256k1_int128 *a) { return *a; }
static void u128set(secp256k1_uint128 *r, sa_u128 v) { *r = v; }
#endif

void h_u128(void) {
    INPUT(sa_u128, x); INPUT(uint64_t, hi); INPUT(uint64_t, lo); INPUT(unsigned, n);
    secp256k1_uint128 r;
    secp256k1_u128_load(&r, hi, lo);
    __CPROVER_assert(u128v(&r) == (((sa_u128)hi << 64) | lo), "C05 u128_load: hi 2^64 + lo");
    secp256k1_u128_from_u64(&r, lo);
    __CPROVER_assert(u128v(&r) == (sa_u128)lo, "C05 u128_from_u64");
    u128set(&r, x);
    __CPROVER_assert(secp256k1_u128_to_u64(&r) == (uint64_t)x, "C05 u128_to_u64: low 64 bits");
    __CPROVER_assert(secp256k1_u128_hi_u64(&r) == (uint64_t)(x >> 64), "C05 u128_hi_u64: high 64 bits");
    secp256k1_u128_accum_u64(&r, lo);
    __CPROVER_assert(u128v(&r) == (sa_u128)(x + lo), "C05 u128_accum_u64: r + a modulo 2^128");
    __CPROVER_assume(n < 128);
    u128set(&r, x);
    __CPROVER_assert(secp256k1_u128_check_bits(&r, n) == ((x >> n) == 0), "C05 u128_check_bits: r < 2^n");
    secp256k1_u128_rshift(&r, n);
    __CPROVER_assert(u128v(&r) == (x >> n), "C05 u128_rshift: logical shift by n < 128");
    if (n == 0) REACH("u128_rshift by 0");
    if (n == 64) REACH("u128_rshift by 64");
    if (n == 127) REACH("u128_rshift by 127");
    if ((uint64_t)x + lo < lo) REACH("u128_accum_u64 carry into the high limb");
}
void h_i128(void) {
    INPUT(sa_i128, xi); INPUT(sa_i128, yi); INPUT(int64_t, shi); INPUT(uint64_t, lo); INPUT(int64_t, v); INPUT(unsigned, n); INPUT(int, sign);
    secp256k1_int128 r, s;
    secp256k1_i128_load(&r, shi, lo);
    __CPROVER_assert(i128v(&r) == (sa_i128)(((sa_u128)(uint64_t)shi << 64) | lo), "C05 i128_load: shi 2^64 + lo (two's complement)");
    secp256k1_i128_from_i64(&r, v);
    __CPROVER_assert(i128v(&r) == (sa_i128)v, "C05 i128_from_i64: sign-extended value");
    __CPROVER_assert(secp256k1_i128_to_i64(&r) == v, "C05 i128_to_i64(from_i64(v)) == v");
    u128set((secp256k1_uint128 *)&r, (sa_u128)xi); u128set((secp256k1_uint128 *)&s, (sa_u128)yi);
    __CPROVER_assert(secp256k1_i128_to_u64(&r) == (uint64_t)xi, "C05 i128_to_u64: low 64 bits");
    __CPROVER_assert(secp256k1_i128_eq_var(&r, &s) == (xi == yi), "C05 i128_eq_var: equality");
    if (xi >= INT64_MIN && xi <= INT64_MAX) __CPROVER_assert((sa_i128)secp256k1_i128_to_i64(&r) == xi, "C05 i128_to_i64: the value when it fits");
    __CPROVER_assume(n < 127 && (sign == 1 || sign == -1));
    __CPROVER_assert(secp256k1_i128_check_pow2(&r, n, sign) == (xi == (sa_i128)sign * ((sa_i128)1 << n)), "C05 i128_check_pow2: r == sign 2^n");
    secp256k1_i128_rshift(&r, n);
    __CPROVER_assert(i128v(&r) == (xi >> n), "C05 i128_rshift: arithmetic shift by n");
    if (xi < 0 && n >= 64) REACH("i128_rshift negative by >= 64");
    if (xi < 0 && n > 0 && n < 64) REACH("i128_rshift negative by < 64");
    if (xi == yi) REACH("i128_eq_var equal");
}
/* bounded stand-in: one operand restricted to 32 bits (full 64x64 multiplier equivalence is the known-hard case) */
void h_u128_mul_bounded(void) {
    INPUT(uint64_t, a); INPUT(uint64_t, b); INPUT(sa_u128, acc);
    secp256k1_uint128 r;
    __CPROVER_assume((a >> 32) == 0);
    secp256k1_u128_mul(&r, a, b);
    __CPROVER_assert(u128v(&r) == (sa_u128)a * b, "C05 u128_mul (a < 2^32): a b");
    u128set(&r, acc);
    secp256k1_u128_accum_mul(&r, a, b);
    __CPROVER_assert(u128v(&r) == (sa_u128)(acc + (sa_u128)a * b), "C05 u128_accum_mul (a < 2^32): r + a b modulo 2^128");
    if (a == 0xFFFFFFFFULL && b == 0xFFFFFFFFFFFFFFFFULL) REACH("u128_mul extreme operands");
}
#endif

/* C05 (c) L3 consumers: the REAL secp256k1_hmac_sha256_initialize / _write / _finalize with the SHA-256
 * object replaced by the stream contracts of hash_spec.h (ghost write log over several objects).
 *
 * HMAC LEMMA (RFC 2104 / FIPS 198-1), for every key length and every message split:
 *   initialize(key, keylen):  K0 = key || 0^(64-keylen)            if keylen <= 64
 *                             K0 = SHA256(key) || 0^32             if keylen  > 64  (one extra hash stream:
 *                                  started from the IV, bytes = key[0..keylen), finalized at keylen)
 *       outer stream := IV, bytes 0..63 = K0 xor 0x5c;  inner stream := IV, bytes 0..63 = K0 xor 0x36;
 *       both counters 64; no other hash stream is started, nothing else is written.
 *   write(data, size):        inner stream continues with data[0..size) at positions [inner.bytes, +size);
 *                             the outer object is untouched.
 *   finalize(out32):          T = finalize(inner) at its full length; outer stream continues with T[0..32);
 *                             out32 = finalize(outer) at length outer.bytes + 32.
 *   => out32 = H((K0 xor opad) || H((K0 xor ipad) || msg)), H = the stream hash of hash_write/finalize. */
#define HASH_SPEC_STREAM_CONTRACTS
#include "hash_spec.h"
#include "src/secp256k1.c"
#include "post.h"

#define SEL_OBJ(sel, hm) ((sel) == 1 ? &(hm).outer : (sel) == 2 ? &(hm).inner : (const secp256k1_sha256 *)NULL)

void h_hmac_init(void) {
    INPUT(size_t, keylen); INPUT(int, we); INPUT(unsigned, sel); INPUT(uint64_t, wpos); INPUT(unsigned, dk);
    secp256k1_hmac_sha256 hm; secp256k1_hash_ctx hc; unsigned char *key; int lng, e; unsigned char pad, k0;
    __CPROVER_assume(keylen <= ((size_t)1 << 40));
    __CPROVER_assume(sel <= 2 && dk < 32 && we >= 0 && we <= 1);
    INPUT_BUF(keyw, key, keylen, 64);
    hc.fn_sha256_compression = secp256k1_sha256_transform;
    SHAS_RESET(); g_swe = we; g_swobj = SEL_OBJ(sel, hm); g_swpos = wpos; g_sdk = dk;

    secp256k1_hmac_sha256_initialize(&hc, &hm, key, keylen);
    WITNESS_BUF(keyw, key, keylen, 64);

    lng = keylen > 64; e = lng ? 1 : 0;
    __CPROVER_assert(g_sfin_n == e, "C05 hmac_initialize: a key is hashed (one finalize) iff it is longer than 64 bytes");
    __CPROVER_assert(hm.outer.bytes == 64 && hm.inner.bytes == 64, "C05 hmac_initialize: inner and outer have absorbed exactly one block");
    if (lng && we == 0) {
        /* in epoch 0 the only stream is the key hash (a local object: watch any object) */
        if (sel == 0) {
            __CPROVER_assert(g_sw_started == 1 && g_sw_iv, "C05 hmac_initialize: long key is hashed from the SHA-256 IV, one stream");
            __CPROVER_assert(g_sf_end0 == keylen, "C05 hmac_initialize: long key hash covers exactly keylen bytes");
            if (wpos < keylen) __CPROVER_assert(g_sw_hit == 1 && g_sw_byte == key[wpos], "C05 hmac_initialize: long key hash absorbs key[0..keylen)");
            else __CPROVER_assert(g_sw_hit == 0, "C05 hmac_initialize: nothing else enters the key hash");
        } else {
            __CPROVER_assert(g_sw_hit == 0 && g_sw_started == 0, "C05 hmac_initialize: inner/outer are not written before the key hash is finalized");
        }
    }
    if (we == e && sel != 0) {
        pad = (sel == 1) ? 0x5c : 0x36;
        __CPROVER_assert(g_sw_started == 1 && g_sw_iv, "C05 hmac_initialize: inner and outer each start once, from the SHA-256 IV");
        if (wpos < 64) {
            __CPROVER_assert(g_sw_hit == 1, "C05 hmac_initialize: every byte of the pad block is written exactly once");
            if (!lng) {
                k0 = wpos < keylen ? key[wpos] : 0;
                __CPROVER_assert(g_sw_byte == (unsigned char)(k0 ^ pad), "C05 hmac_initialize: short key is zero-padded to 64 and xored with 0x5c (outer) / 0x36 (inner)");
            } else if (wpos >= 32) {
                __CPROVER_assert(g_sw_byte == pad, "C05 hmac_initialize: hashed key is zero-padded from 32 to 64");
            } else if (wpos == dk) {
                __CPROVER_assert(g_sw_byte == (unsigned char)(g_sf_byte0 ^ pad), "C05 hmac_initialize: long key is replaced by its digest, xored with 0x5c (outer) / 0x36 (inner)");
            }
        } else {
            __CPROVER_assert(g_sw_hit == 0, "C05 hmac_initialize: nothing beyond the pad block is written");
        }
    }
    if (we == e && sel == 0) __CPROVER_assert(g_sw_started == 2, "C05 hmac_initialize: exactly two streams (outer, inner) are started after the key is fixed");
    if (!lng && we == 1) __CPROVER_assert(g_sw_hit == 0 && g_sw_started == 0, "C05 hmac_initialize: short key: no second epoch");

    if (lng && we == 1 && sel == 1 && wpos == dk && dk == 7) REACH("hmac_init: long key, outer byte 7 is digest xor opad");
    if (!lng && keylen == 64 && sel == 2 && wpos == 63) REACH("hmac_init: 64-byte key, inner last byte");
    if (!lng && keylen == 0 && sel == 1) REACH("hmac_init: empty key");
    if (lng && we == 0 && sel == 0 && wpos == 100000 && keylen > 100001) REACH("hmac_init: very long key position 100000");
    REACH("hmac_init end");
}

void h_hmac_write(void) {
    INPUT(size_t, size); INPUT(unsigned, sel); INPUT(uint64_t, wpos); INPUT(unsigned, sk); INPUT(unsigned, bk);
    INPUT(uint64_t, ib0); INPUT(uint64_t, ob0); INPUT_ARR(uint32_t, os0, 8); INPUT_ARR(unsigned char, obuf0, 64);
    secp256k1_hmac_sha256 hm; secp256k1_hash_ctx hc; unsigned char *data;
    __CPROVER_assume(size <= ((size_t)1 << 48) && ib0 <= UINT64_MAX - size);
    __CPROVER_assume(sel <= 2 && sk < 8 && bk < 64);
    INPUT_BUF(dataw, data, size, 64);
    hm.inner.bytes = ib0; hm.outer.bytes = ob0; memcpy(hm.outer.s, os0, 32); memcpy(hm.outer.buf, obuf0, 64);
    hc.fn_sha256_compression = secp256k1_sha256_transform;
    SHAS_RESET(); g_swe = 0; g_swobj = SEL_OBJ(sel, hm); g_swpos = wpos; g_sdk = 0;

    secp256k1_hmac_sha256_write(&hc, &hm, data, size);
    WITNESS_BUF(dataw, data, size, 64);

    __CPROVER_assert(hm.inner.bytes == ib0 + size && g_sfin_n == 0, "C05 hmac_write: inner stream grows by size, nothing is finalized");
    if (sel != 1 && wpos >= ib0 && wpos - ib0 < size) __CPROVER_assert(g_sw_hit == 1 && g_sw_byte == data[wpos - ib0], "C05 hmac_write: data[0..size) continues the inner stream");
    else __CPROVER_assert(g_sw_hit == 0, "C05 hmac_write: nothing else is written, the outer stream not at all");
    __CPROVER_assert(hm.outer.bytes == ob0 && hm.outer.s[sk] == os0[sk] && hm.outer.buf[bk] == obuf0[bk], "C05 hmac_write: outer object untouched");
    if (sel == 2 && size > 100000 && wpos == ib0 + 99999) REACH("hmac_write: long message");
    REACH("hmac_write end");
}

void h_hmac_finalize(void) {
    INPUT(int, we); INPUT(unsigned, sel); INPUT(uint64_t, wpos); INPUT(unsigned, dk);
    INPUT(uint64_t, ib0); INPUT(uint64_t, ob0);
    secp256k1_hmac_sha256 hm; secp256k1_hash_ctx hc; unsigned char out[32];
    __CPROVER_assume(ib0 < ((uint64_t)1 << 61) && ob0 < ((uint64_t)1 << 61) - 32);   /* SHA-256 length limit: finalize's precondition */
    __CPROVER_assume(sel <= 2 && dk < 32 && we >= 0 && we <= 2);
    hm.inner.bytes = ib0; hm.outer.bytes = ob0;
    hc.fn_sha256_compression = secp256k1_sha256_transform;
    SHAS_RESET(); g_swe = we; g_swobj = SEL_OBJ(sel, hm); g_swpos = wpos; g_sdk = dk;

    secp256k1_hmac_sha256_finalize(&hc, &hm, out);

    __CPROVER_assert(g_sfin_n == 2, "C05 hmac_finalize: exactly two finalizations");
    __CPROVER_assert(g_sf_obj0 == SHAS_ID(&hm.inner) && g_sf_end0 == ib0, "C05 hmac_finalize: first the inner stream is finalized at its full length");
    __CPROVER_assert(g_sf_obj1 == SHAS_ID(&hm.outer) && g_sf_end1 == ob0 + 32, "C05 hmac_finalize: then the outer stream, 32 bytes longer");
    __CPROVER_assert(out[dk] == g_sf_byte1, "C05 hmac_finalize: the result is the outer digest");
    if (we == 1 && sel != 2 && wpos >= ob0 && wpos - ob0 < 32) {
        __CPROVER_assert(g_sw_hit == 1, "C05 hmac_finalize: outer stream continues with 32 bytes");
        if (wpos - ob0 == dk) __CPROVER_assert(g_sw_byte == g_sf_byte0, "C05 hmac_finalize: the 32 bytes are the inner digest");
    } else {
        __CPROVER_assert(g_sw_hit == 0, "C05 hmac_finalize: nothing else is written (in particular nothing more into inner)");
    }
    if (we == 1 && sel == 1 && wpos == ob0 + 31 && dk == 31 && ob0 == 64) REACH("hmac_finalize: last digest byte into outer");
    REACH("hmac_finalize end");
}

/* C05: secp256k1_scalar_mul_shift_var - the ROUNDED VALUE, for every 512-bit product and every shift in [257,512]:
 * r = floor(L / 2^shift) + bit(shift-1 of L), carries included.  The 512-bit product L itself is the output of
 * secp256k1_scalar_mul_512, replaced here by a contract that only logs what it produced (its value is residue; its
 * carry macros are proved in C05.sc_mul_512) - so this unit decides everything mul_shift_var does AFTER the product:
 * limb selection, the two-limb shift, and the rounding increment with its carry chain (a seeded `r->d[0] += bit`
 * that drops the carry out of limb 0 fails it; the library calls this with shift 384 in scalar_split_lambda). */
#include "pre.h"
uint64_t g_l[8];
static void secp256k1_scalar_mul_512(uint64_t *l8, const secp256k1_scalar *a, const secp256k1_scalar *b)
__CPROVER_requires(__CPROVER_w_ok(l8, 64) && __CPROVER_r_ok(a, sizeof(*a)) && __CPROVER_r_ok(b, sizeof(*b)))
__CPROVER_assigns(__CPROVER_object_upto(l8, 64), g_l)
__CPROVER_ensures(g_l[0] == l8[0] && g_l[1] == l8[1] && g_l[2] == l8[2] && g_l[3] == l8[3] && g_l[4] == l8[4] && g_l[5] == l8[5] && g_l[6] == l8[6] && g_l[7] == l8[7])
;
#include "src/secp256k1.c"
#include "post.h"
typedef unsigned __CPROVER_bitvector[576] w576;
void h_sc_mul_shift_value(void) {
    INPUT(secp256k1_scalar, a); INPUT(secp256k1_scalar, b); INPUT(unsigned, shift);
    secp256k1_scalar r; w576 L = 0, expect, got; int i;
    __CPROVER_assume(scalar_ok(&a) && scalar_ok(&b) && shift >= 257 && shift <= 512);
    secp256k1_scalar_mul_shift_var(&r, &a, &b, shift);
    for (i = 7; i >= 0; i--) L = (L << 64) | (w576)g_l[i];
    expect = (L >> shift) + ((L >> (shift - 1)) & 1);
    got = (w576)r.d[0] | ((w576)r.d[1] << 64) | ((w576)r.d[2] << 128) | ((w576)r.d[3] << 192);
    __CPROVER_assert(got == expect, "C05 scalar_mul_shift_var: r = floor(L / 2^shift) rounded to nearest (carry of the rounding increment included), L = the 512-bit product");
    if (shift == 384 && g_l[5] == ~(uint64_t)0 && (g_l[6] & 1) && (g_l[5 - 0] != 0)) REACH("mul_shift_var 384 with an all-ones limb (rounding carry propagates)");
    if (shift == 257) REACH("mul_shift_var value shift 257");
    if (shift == 512) REACH("mul_shift_var value shift 512");
}

/* C05 (b) field multiplication / squaring inner loops (5x52: field_5x52_int128_impl.h), built with -DVERIFY:
 * for EVERY input accepted by the functions' own VERIFY_BITS preconditions (this includes every field element of
 * magnitude <= 8) every VERIFY_BITS / VERIFY_BITS_128 bound holds - no 128-bit accumulator overflows - and the
 * output limbs have magnitude 1.  The 64x64 multiplier is the uninterpreted function of assumed_C05.h.
 * NOT proved here: r == a b (mod p)  (assumed residue). */
#define C05_GROUP_CONTRACTS 1   /* magnitude contracts of secp256k1_fe_mul / fe_sqr: ENFORCED here, used (replaced) by the group units */
#include "assumed_C05.h"
#include "src/secp256k1.c"
#include "post.h"

#ifndef VERIF_NATIVE
#if !defined(USE_FORCE_WIDEMUL_INT64)
static int in_ok(const uint64_t *a) { return (a[0] >> 56) == 0 && (a[1] >> 56) == 0 && (a[2] >> 56) == 0 && (a[3] >> 56) == 0 && (a[4] >> 52) == 0; }
static int out_mag1(const uint64_t *r) {
    return r[0] <= 2 * SA_FE_LIMB_MAX && r[1] <= 2 * SA_FE_LIMB_MAX && r[2] <= 2 * SA_FE_LIMB_MAX && r[3] <= 2 * SA_FE_LIMB_MAX && r[4] <= 2 * SA_FE_TOP_MAX;
}
#define NLIMB 5
typedef uint64_t limb_t;
#else
static int in_ok(const uint32_t *a) { int i, ok = 1; for (i = 0; i < 9; i++) ok = ok && (a[i] >> 30) == 0; return ok && (a[9] >> 26) == 0; }
static int out_mag1(const uint32_t *r) { int i, ok = 1; for (i = 0; i < 9; i++) ok = ok && r[i] <= 2 * SA_FE_LIMB_MAX; return ok && r[9] <= 2 * SA_FE_TOP_MAX; }
#define NLIMB 10
typedef uint32_t limb_t;
#endif

void h_fe_mul_inner(void) {
    INPUT_ARR(limb_t, a, NLIMB); INPUT_ARR(limb_t, b, NLIMB); INPUT(_Bool, alias);
    limb_t rr[NLIMB], *r = alias ? a : rr;   /* "r and a may point to the same object" (field.h) */
    __CPROVER_assume(in_ok(a) && in_ok(b));
    secp256k1_fe_mul_inner(r, a, b);
    __CPROVER_assert(out_mag1(r), "C05 fe_mul_inner: output limbs have magnitude 1");
    if (alias) REACH("fe_mul_inner r aliases a");
    if (!alias && a[0] == (((limb_t)1) << (SA_FE_LIMB_BITS + 4)) - 1 && b[NLIMB - 1] == (((limb_t)1) << (SA_FE_TOP_BITS + 4)) - 1) REACH("fe_mul_inner maximal limbs");
}
void h_fe_sqr_inner(void) {
    INPUT_ARR(limb_t, sq, NLIMB); INPUT(_Bool, alias);
    limb_t rr[NLIMB], *r = alias ? sq : rr;
    __CPROVER_assume(in_ok(sq));
    secp256k1_fe_sqr_inner(r, sq);
    __CPROVER_assert(out_mag1(r), "C05 fe_sqr_inner: output limbs have magnitude 1");
    if (alias) REACH("fe_sqr_inner r aliases sq");
    if (!alias && sq[0] == (((limb_t)1) << (SA_FE_LIMB_BITS + 4)) - 1 && sq[NLIMB - 1] == (((limb_t)1) << (SA_FE_TOP_BITS + 4)) - 1) REACH("fe_sqr_inner maximal limbs");
}
#if defined(VERIFY)
/* The magnitude contracts of the VERIFY wrappers secp256k1_fe_mul / secp256k1_fe_sqr (assumed_C05.h) that the group
 * units rely on, enforced against the real wrapper + real inner function (UF multiplier).  DFCC assumes the requires
 * clauses and checks ensures + assigns. */
void h_fe_mul_contract(void) {
    INPUT(secp256k1_fe, fa); INPUT(secp256k1_fe, fb); INPUT(_Bool, alias);
    secp256k1_fe rr;
    secp256k1_fe_mul(alias ? &fa : &rr, &fa, &fb);
    if (alias) REACH("fe_mul contract, r aliases a"); else REACH("fe_mul contract, distinct r");
}
void h_fe_sqr_contract(void) {
    INPUT(secp256k1_fe, fa); INPUT(_Bool, alias);
    secp256k1_fe rr;
    secp256k1_fe_sqr(alias ? &fa : &rr, &fa);
    if (alias) REACH("fe_sqr contract, r aliases a"); else REACH("fe_sqr contract, distinct r");
}
#endif
#if !defined(USE_FORCE_WIDEMUL_INT64)
/* (B) of assumed_C05.h holds for the REAL multiplier (real bodies of u128_mul / u128_accum_mul, nothing replaced) */
void h_umul_axioms(void) {
    INPUT(uint64_t, ua); INPUT(uint64_t, ub);
    secp256k1_uint128 t; sa_u128_t v;
    secp256k1_u128_mul(&t, ua, ub);
    v = ((sa_u128_t)secp256k1_u128_hi_u64(&t) << 64) | secp256k1_u128_to_u64(&t);
    __CPROVER_assert(((ua >> 56) == 0 && (ub >> 56) == 0 ==> (v >> 112) == 0), "C05 umul axiom: 56 x 56 bits < 2^112");
    __CPROVER_assert(((ua >> 57) == 0 && (ub >> 56) == 0 ==> (v >> 113) == 0), "C05 umul axiom: 57 x 56 bits < 2^113");
    __CPROVER_assert(((ua >> 56) == 0 && (ub >> 53) == 0 ==> (v >> 109) == 0) && ((ua >> 53) == 0 && (ub >> 56) == 0 ==> (v >> 109) == 0), "C05 umul axiom: 56 x 53 bits < 2^109");
    __CPROVER_assert(((ua >> 56) == 0 && (ub >> 52) == 0 ==> (v >> 108) == 0) && ((ua >> 52) == 0 && (ub >> 56) == 0 ==> (v >> 108) == 0), "C05 umul axiom: 56 x 52 bits < 2^108");
    __CPROVER_assert(((ua >> 57) == 0 && (ub >> 52) == 0 ==> (v >> 109) == 0), "C05 umul axiom: 57 x 52 bits < 2^109");
    __CPROVER_assert(((ua >> 53) == 0 && (ub >> 52) == 0 ==> (v >> 105) == 0), "C05 umul axiom: 53 x 52 bits < 2^105");
    __CPROVER_assert(((ua >> 52) == 0 && (ub >> 52) == 0 ==> (v >> 104) == 0), "C05 umul axiom: 52 x 52 bits < 2^104");
    /* (not checked here: "u128_accum_mul(r,a,b) == r + u128_mul(a,b)" - a miter of two 64x64 multipliers, undecided in 600 s.  In the native
     * build both bodies are the single C expression (uint128_t)a * b, which is what the symbol umul stands for.) */
    if ((ua >> 56) == 0 && (ub >> 56) == 0 && (v >> 111) != 0) REACH("umul axiom 56x56 tight");
}
#endif
#endif

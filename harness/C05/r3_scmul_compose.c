/* C05 r3: secp256k1_scalar_mul / secp256k1_scalar_sqr (4x64 portable C) == reduce_512 o mul_512 / sqr_512, at contract level.
 * Both callees are replaced by contracts that only LOG what they were given and what they produced (frame + log + "result is a
 * reduced scalar", which is proved by C05.sc_reduce_512 / C05.r3_reduce512_chain); their VALUES are the subject of
 * C05.r3_mul512_chain, C05.r3_sqr512_chain, C05.r3_reduce512_chain and the chain lemmas.  This unit decides the wiring:
 *   - the 512-bit product is taken of exactly the two operands a, b (resp. a, a) - not of r, not swapped with something else,
 *   - reduce_512 receives exactly the 8 limbs the product wrote, and its result is what scalar_mul returns in *r,
 *   - each is called exactly once, nothing else touches *r afterwards; aliasing r == a and/or r == b is allowed (the callers use it).
 * Hence  scalar_mul(a,b) = cs(fold^3( sum_{i,j} umul(a_i,b_j) 2^(64(i+j)) ))  by substitution of the proved values. */
#include "pre.h"
#if !defined(USE_FORCE_WIDEMUL_INT64) && !defined(VERIF_NATIVE)
uint64_t g_l[8], g_rin[8]; secp256k1_scalar g_pa, g_pb, g_rout; unsigned g_nmul, g_nsqr, g_nred;
#define L8EQ(x, y) (x[0] == y[0] && x[1] == y[1] && x[2] == y[2] && x[3] == y[3] && x[4] == y[4] && x[5] == y[5] && x[6] == y[6] && x[7] == y[7])
#define SCEQ(x, y) ((x).d[0] == (y).d[0] && (x).d[1] == (y).d[1] && (x).d[2] == (y).d[2] && (x).d[3] == (y).d[3])
#define SCEQ_OLD(x, y) ((x).d[0] == __CPROVER_old((y).d[0]) && (x).d[1] == __CPROVER_old((y).d[1]) && (x).d[2] == __CPROVER_old((y).d[2]) && (x).d[3] == __CPROVER_old((y).d[3]))
static void secp256k1_scalar_mul_512(uint64_t *l8, const secp256k1_scalar *a, const secp256k1_scalar *b)
__CPROVER_requires(__CPROVER_w_ok(l8, 64) && __CPROVER_r_ok(a, sizeof(*a)) && __CPROVER_r_ok(b, sizeof(*b)))
__CPROVER_assigns(__CPROVER_object_upto(l8, 64), g_l, g_pa, g_pb, g_nmul)
__CPROVER_ensures(L8EQ(g_l, l8) && SCEQ(g_pa, *a) && SCEQ(g_pb, *b) && g_nmul == __CPROVER_old(g_nmul) + 1)
;
static void secp256k1_scalar_sqr_512(uint64_t *l8, const secp256k1_scalar *a)
__CPROVER_requires(__CPROVER_w_ok(l8, 64) && __CPROVER_r_ok(a, sizeof(*a)))
__CPROVER_assigns(__CPROVER_object_upto(l8, 64), g_l, g_pa, g_nsqr)
__CPROVER_ensures(L8EQ(g_l, l8) && SCEQ(g_pa, *a) && g_nsqr == __CPROVER_old(g_nsqr) + 1)
;
static void secp256k1_scalar_reduce_512(secp256k1_scalar *r, const uint64_t *l)
__CPROVER_requires(__CPROVER_w_ok(r, sizeof(*r)) && __CPROVER_r_ok(l, 64))
__CPROVER_assigns(*r, g_rin, g_rout, g_nred)
__CPROVER_ensures(L8EQ(g_rin, l) && SCEQ(g_rout, *r) && scalar_ok(r) && g_nred == __CPROVER_old(g_nred) + 1)
;
#endif
#include "src/secp256k1.c"
#include "post.h"
#if !defined(USE_FORCE_WIDEMUL_INT64) && !defined(VERIF_NATIVE)
void h_r3_scmul_compose(void) {
    INPUT(secp256k1_scalar, a); INPUT(secp256k1_scalar, b); INPUT(_Bool, sqr); INPUT(_Bool, alias_a); INPUT(_Bool, alias_b);
    secp256k1_scalar r, a0 = a, b0 = b, bop, *rp;
    __CPROVER_assume(scalar_ok(&a) && scalar_ok(&b));
    g_nmul = 0; g_nsqr = 0; g_nred = 0;
    rp = alias_a ? &a : (alias_b && !sqr) ? &b : &r;
    if (sqr) secp256k1_scalar_sqr(rp, &a); else secp256k1_scalar_mul(rp, &a, alias_a && alias_b ? &a : &b);
    bop = (alias_a && alias_b) ? a0 : b0;   /* second operand actually passed */
    /* not demanded: operand order of the (commutative) product, nor that squaring uses sqr_512 rather than mul_512(a, a) */
    __CPROVER_assert(g_nred == 1 && g_nmul + g_nsqr == 1 && (sqr || g_nmul == 1), "C05 r3 scalar_mul/sqr: exactly one 512-bit product and one reduce_512");
    if (sqr) bop = a0;
    __CPROVER_assert(g_nsqr == 1 ? SCEQ(g_pa, a0) : ((SCEQ(g_pa, a0) && SCEQ(g_pb, bop)) || (SCEQ(g_pa, bop) && SCEQ(g_pb, a0))), "C05 r3 scalar_mul/sqr: the 512-bit product is taken of the operands a, b (a, a for sqr)");
    __CPROVER_assert(L8EQ(g_rin, g_l), "C05 r3 scalar_mul/sqr: reduce_512 receives the eight limbs written by the product");
    __CPROVER_assert(SCEQ(*rp, g_rout), "C05 r3 scalar_mul/sqr: the result is the output of reduce_512");
    if (!alias_a) __CPROVER_assert(SCEQ(a, a0), "C05 r3 scalar_mul/sqr: operand a unchanged unless aliased with r");
    if (rp != &b) __CPROVER_assert(SCEQ(b, b0), "C05 r3 scalar_mul/sqr: operand b unchanged unless aliased with r");
    if (sqr) REACH("scalar_sqr composed"); else REACH("scalar_mul composed");
    if (!sqr && alias_a && alias_b) REACH("scalar_mul r == a == b");
}
#endif

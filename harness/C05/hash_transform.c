/* C05 (c) L1: the REAL secp256k1_sha256_transform (the library's default compression function, i.e. what
 * the oracle of hash_spec.h stands for when n_blocks > 1): for every n_blocks it calls the one-block
 * compression secp256k1_sha256_transform_impl exactly n_blocks times, call i on (state, blocks64 + 64 i),
 * in that order, and touches nothing else.  The n_blocks loop is closed by the loop contract in
 * engine/units/C05_hash.py (invariant: blocks64 = entry + 64 (calls so far), ghost-watched call received
 * its pointer; no /repo edit); transform_impl is replaced by a logging contract (frame: s[0..7]). */
#include "hash_spec.h"
size_t verif_tr_calls, verif_tr_watch; const unsigned char *verif_tr_ptr; uint32_t *verif_tr_state;
static void secp256k1_sha256_transform_impl(uint32_t *s, const unsigned char *buf)
__CPROVER_requires(__CPROVER_rw_ok(s, 32) && __CPROVER_r_ok(buf, 64))
__CPROVER_assigns(__CPROVER_object_upto(s, 32), verif_tr_calls, verif_tr_ptr, verif_tr_state)
__CPROVER_ensures(verif_tr_calls == __CPROVER_old(verif_tr_calls) + 1)
__CPROVER_ensures(__CPROVER_old(verif_tr_calls) == verif_tr_watch
    ? (verif_tr_ptr == buf && verif_tr_state == s)
    : (verif_tr_ptr == __CPROVER_old(verif_tr_ptr) && verif_tr_state == __CPROVER_old(verif_tr_state)))
;
#include "src/secp256k1.c"
#include "post.h"

void h_transform(void) {
    INPUT(size_t, n); INPUT(size_t, w); INPUT_ARR(uint32_t, st, 8);
    unsigned char *blocks;
    __CPROVER_assume(n <= ((size_t)1 << 40));
    blocks = malloc(n ? 64 * n : 1); __CPROVER_assume(blocks != NULL);
    verif_tr_calls = 0; verif_tr_watch = w; verif_tr_ptr = NULL; verif_tr_state = NULL;
    secp256k1_sha256_transform(st, blocks, n);
    __CPROVER_assert(verif_tr_calls == n, "C05 sha256_transform: exactly n_blocks one-block compressions");
    if (w < n) __CPROVER_assert(verif_tr_ptr == blocks + 64 * w && verif_tr_state == st, "C05 sha256_transform: compression i works on (state, blocks64 + 64 i)");
    else __CPROVER_assert(verif_tr_ptr == NULL, "C05 sha256_transform: no call beyond n_blocks");
    if (w == 77777 && n > 100000) REACH("transform: watched block 77777");
    if (n == 0) REACH("transform: zero blocks");
    REACH("transform end");
}

/* C05 r3: addend/column tables shared by r3_scmul512.c, r3_screduce512.c and r3_scmodel.c (included after assumed_r3_scmul.h and the
 * library TU, inside the !VERIF_NATIVE / 4x64 guards).  The tables ARE the specification: which term of the schoolbook product resp. of
 * fold(x) = lo + hi (2^256 - n) belongs to which power of 2^64. */
#ifndef R3_SCTABLES_H
#define R3_SCTABLES_H
/* column tables */
/* column table: 1,2,3,4,3,2,1 addends in columns 0..6 (mul_512: the 16 products a_i b_j by i+j; sqr_512: a_i a_j, i<j listed twice) */
static const unsigned char R3_COL_MUL[16] = {0, 1,1, 2,2,2, 3,3,3,3, 4,4,4, 5,5, 6};
#define R3_COL_SQR R3_COL_MUL

/* products of the schoolbook definition, ordered by column i+j, inside a column by i */
static void r3_products_mul(r3_u128 *x, const secp256k1_scalar *a, const secp256k1_scalar *b) {
    int k, i, t = 0;
    for (k = 0; k < 7; k++) for (i = 0; i < 4; i++) if (k - i >= 0 && k - i < 4) x[t++] = R3_UMUL(a->d[i], b->d[k - i]);
}
/* a^2: each product umul(a_i, a_j) with i < j counts twice (listed twice), diagonal once; ordered by column, inside by i */
static void r3_products_sqr(r3_u128 *x, const secp256k1_scalar *a) {
    int k, i, t = 0;
    for (k = 0; k < 7; k++) for (i = 0; i < 4; i++) { int j = k - i; if (j >= i && j < 4) { x[t++] = R3_UMUL(a->d[i], a->d[j]); if (j > i) x[t++] = R3_UMUL(a->d[i], a->d[j]); } }
}

/* addend tables of the three folds: column of each addend, in the order used by r3_addends_s*() */
static const unsigned char R3_COL_S1[16] = {0,0, 1,1,1, 2,2,2,2, 3,3,3,3, 4,4, 5};     /* 512 -> 385 bits, 7 output limbs */
static const unsigned char R3_COL_S2[13] = {0,0, 1,1,1, 2,2,2,2, 3,3,3, 4};            /* 385 -> 258 bits, 5 output limbs */
static const unsigned char R3_COL_S3[7]  = {0,0, 1,1, 2,2, 3};                         /* 258 -> 257 bits, 4 output limbs + carry */

/* fold of an 8-limb number: lo = l[0..3], h = l[4..7] */
static void r3_addends_s1(r3_u128 *x, const uint64_t *l) {
    const uint64_t *h = l + 4;
    x[0] = l[0]; x[1] = R3_UMUL(h[0], R3_NC0);
    x[2] = l[1]; x[3] = R3_UMUL(h[1], R3_NC0); x[4] = R3_UMUL(h[0], R3_NC1);
    x[5] = l[2]; x[6] = R3_UMUL(h[2], R3_NC0); x[7] = R3_UMUL(h[1], R3_NC1); x[8] = h[0];
    x[9] = l[3]; x[10] = R3_UMUL(h[3], R3_NC0); x[11] = R3_UMUL(h[2], R3_NC1); x[12] = h[1];
    x[13] = R3_UMUL(h[3], R3_NC1); x[14] = h[2];
    x[15] = h[3];
}
/* fold of a 7-limb number m (m[6] <= 1): lo = m[0..3], h = m[4..6] */
static void r3_addends_s2(r3_u128 *x, const uint64_t *m) {
    const uint64_t *h = m + 4;
    x[0] = m[0]; x[1] = R3_UMUL(h[0], R3_NC0);
    x[2] = m[1]; x[3] = R3_UMUL(h[1], R3_NC0); x[4] = R3_UMUL(h[0], R3_NC1);
    x[5] = m[2]; x[6] = R3_UMUL(h[2], R3_NC0); x[7] = R3_UMUL(h[1], R3_NC1); x[8] = h[0];
    x[9] = m[3]; x[10] = R3_UMUL(h[2], R3_NC1); x[11] = h[1];
    x[12] = h[2];
}
/* fold of a 5-limb number p (p[4] <= 2): lo = p[0..3], h = p[4] */
static void r3_addends_s3(r3_u128 *x, const uint64_t *p) {
    x[0] = p[0]; x[1] = R3_UMUL(R3_NC0, p[4]);
    x[2] = p[1]; x[3] = R3_UMUL(R3_NC1, p[4]);
    x[4] = p[2]; x[5] = p[4];
    x[6] = p[3];
}

#endif

/* C05 (c): the two initialisers of a SHA-256 object.
 *   secp256k1_sha256_initialize: state = the initial hash value H(0) of FIPS 180-4 section 5.3.3, byte count 0
 *     (the constants below are typed from the standard, not copied from hash_impl.h; the L3 contracts of
 *     hash_spec.h recognise a "fresh" stream by exactly these eight words);
 *   secp256k1_sha256_initialize_midstate(bytes, state): state copied, counter = bytes
 *     (callers must pass bytes % 64 == 0 - a VERIFY_CHECK; the stream lemma then continues at block bytes/64). */
#include "hash_spec.h"
#include "src/secp256k1.c"
#include "post.h"
void h_sha_init(void) {
    static const uint32_t H0[8] = {0x6a09e667, 0xbb67ae85, 0x3c6ef372, 0xa54ff53a, 0x510e527f, 0x9b05688c, 0x1f83d9ab, 0x5be0cd19};
    INPUT_ARR(uint32_t, mid, 8); INPUT(uint64_t, mbytes); INPUT_ARR(unsigned char, b0, 64); INPUT(unsigned, k); INPUT(unsigned, j);
    secp256k1_sha256 h, g;
    __CPROVER_assume(k < 8 && j < 64 && mbytes % 64 == 0);
    memcpy(h.buf, b0, 64); memcpy(g.buf, b0, 64);
    secp256k1_sha256_initialize(&h);
    __CPROVER_assert(h.s[k] == H0[k] && h.bytes == 0, "C05 sha256_initialize: state is the FIPS 180-4 initial hash value, byte count 0");
    secp256k1_sha256_initialize_midstate(&g, mbytes, mid);
    __CPROVER_assert(g.s[k] == mid[k] && g.bytes == mbytes, "C05 sha256_initialize_midstate: state and byte count installed");
    REACH("sha init end");
}

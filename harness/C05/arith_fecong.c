/* STATUS: EXPERIMENT, NOT REGISTERED AS A UNIT (see engine/units/C05_arith.py): the steps part passes (764 s), the miter against the real
 * function and the rule lemmas were undecided after 1800 s each; the congruence stays assumed residue.
 *
 * C05 (b) STRETCH (thorough tier): r == a b (mod p) for secp256k1_fe_mul_inner (5x52) RELATIVE TO the uninterpreted 64x64
 * multiplier umul of assumed_C05.h, by the function's own comment invariants "[d t4 t3 ...] = [p8 ... p0]".
 *
 * LABELLED FALLBACK of DESIGN 5/C05(b): cut points cannot be placed inside /repo code, so they are placed in a harness-side
 * WITNESS RUN wit_mul() that mirrors the data flow of the function.  wit_mul is not trusted; it must
 *   (1) produce the same output limbs as the REAL function                                   unit C05.fe_mul_cong_miter
 *   (2) be explained, step by step, by four bookkeeping rules on the coefficient vector e[0..9] of the bracket notation
 *       (OBL obligations: after each group of lines every touched bracket entry equals the book)  unit C05.fe_mul_cong_steps
 * and the four rules are proved, for ARBITRARY coefficient vectors, to change G(e) = sum e_k 2^(52k) as stated   units C05.fe_mul_cong_rule
 *
 *   A(k,v)  e_k += v, col_k += v                            G += v 2^(52k)        a product enters column k
 *   S(k,h)  e_k -= h 2^52, e_(k+1) += h  (and its inverse)  G unchanged           a carry moves one position
 *   F(k,x)  e_(k+5) -= x, e_k += R x,  K += 16 x 2^(52k)    G -= 16 p x 2^(52k)   2^260 = R + 16 p
 *   F4(x)   e_4 -= x 2^48, e_0 += (R>>4) x,  K += x         G -= p x              2^256 = (R>>4) + p
 *
 * Composition (paper step, an induction over the 60 rule applications of the witness run): starting from e = col = 0, K = 0 the
 * invariant  sum_k col_k 2^(52k) == G(e) + K p  is preserved by every rule; at the end e = [0 0 0 0 0 r4 r3 r2 r1 r0] and
 * col_k = sum_{i+j=k} umul(a_i,b_j), hence   sum_{i,j} umul(a_i,b_j) 2^(52(i+j)) == sum r_i 2^(52i) + K p.
 * What stays assumed: umul IS the machine multiplier, and (sum a_i 2^52i)(sum b_j 2^52j) = sum a_i b_j 2^(52(i+j)). */
#define C05_UF_AXIOM_FORM 1
#include "assumed_C05.h"
#include "src/secp256k1.c"
#include "post.h"

#if !defined(VERIF_NATIVE) && !defined(USE_FORCE_WIDEMUL_INT64)
typedef unsigned __CPROVER_bitvector[256] Y;     /* one coefficient (all real values stay below 2^140) */
typedef unsigned __CPROVER_bitvector[704] X;     /* whole numbers */
#define YW(x) ((Y)(x))
#define XW(x) ((X)(x))
typedef unsigned __int128 u128_;
#define UM(i, j) __CPROVER_uninterpreted_umul(a[i], b[j])   /* the 25 products are pure UF atoms; only the products by R, R<<12, R>>4 below are machine products */
#define RC ((uint64_t)SA_RC)
Y nondet_Y(void);

typedef struct { Y e[10]; Y col[10]; X K; } book;
static void rA(book *g, int k, u128_ v) { g->e[k] += YW(v); g->col[k] += YW(v); }
static void rS(book *g, int k, Y h) { g->e[k] -= h << 52; g->e[k + 1] += h; }
static void rSinv(book *g, int k, Y h) { g->e[k + 1] -= h; g->e[k] += h << 52; }
static void rF(book *g, int k, uint64_t x) { g->e[k + 5] -= YW(x); g->e[k] += YW((u128_)RC * x); g->K += XW(x) << (52 * k + 4); }
static void rF4(book *g, uint64_t x) { g->e[4] -= YW(x) << 48; g->e[0] += YW((u128_)(RC >> 4) * x); g->K += XW(x); }
#ifdef CONG_OBL
# define OBL(k, v, txt) __CPROVER_assert(g.e[k] == (v), "C05 fe_mul_inner congruence, bracket " txt)
#else
# define OBL(k, v, txt) do { } while (0)
#endif

static void wit_mul(uint64_t *ws, book *out, const uint64_t *a, const uint64_t *b) {
    const uint64_t M = 0xFFFFFFFFFFFFFULL; u128_ c, d; uint64_t t3, t4, tx, u0, x; book g; int k;
    for (k = 0; k < 10; k++) { g.e[k] = 0; g.col[k] = 0; } g.K = 0;
    d = UM(0,3); rA(&g, 3, UM(0,3)); d += UM(1,2); rA(&g, 3, UM(1,2)); d += UM(2,1); rA(&g, 3, UM(2,1)); d += UM(3,0); rA(&g, 3, UM(3,0));
    c = UM(4,4); rA(&g, 8, UM(4,4));
    OBL(3, YW(d), "[c 0 0 0 0 d 0 0 0]: d"); OBL(8, YW(c), "[c 0 0 0 0 d 0 0 0]: c");
    x = (uint64_t)c; d += (u128_)RC * x; c >>= 64; rF(&g, 3, x); rS(&g, 8, YW(c) << 12);
    OBL(3, YW(d), "[(c<<12) 0 0 0 0 0 d 0 0 0]: d"); OBL(8, 0, "[(c<<12) 0 0 0 0 0 d 0 0 0]: position 8 empty"); OBL(9, YW(c) << 12, "[(c<<12) 0 0 0 0 0 d 0 0 0]: c<<12");
    t3 = (uint64_t)d & M; d >>= 52; rS(&g, 3, YW(d));
    OBL(3, YW(t3), "[(c<<12) 0 0 0 0 d t3 0 0 0]: t3"); OBL(4, YW(d), "[(c<<12) 0 0 0 0 d t3 0 0 0]: d");
    d += UM(0,4); rA(&g, 4, UM(0,4)); d += UM(1,3); rA(&g, 4, UM(1,3)); d += UM(2,2); rA(&g, 4, UM(2,2)); d += UM(3,1); rA(&g, 4, UM(3,1)); d += UM(4,0); rA(&g, 4, UM(4,0));
    OBL(4, YW(d), "[(c<<12) 0 0 0 0 d t3 0 0 0] = [p8 0 0 0 p4 p3 0 0 0]: d");
    x = (uint64_t)c; d += (u128_)(RC << 12) * x; rF(&g, 4, x << 12);
    OBL(4, YW(d), "[d t3 0 0 0] = [p8 0 0 0 p4 p3 0 0 0]: d"); OBL(9, 0, "[d t3 0 0 0]: position 9 empty");
    t4 = (uint64_t)d & M; d >>= 52; rS(&g, 4, YW(d)); tx = t4 >> 48; t4 &= (M >> 4);
    OBL(4, YW(t4) + (YW(tx) << 48), "[d t4+(tx<<48) t3 0 0 0]: t4+(tx<<48)"); OBL(5, YW(d), "[d t4+(tx<<48) t3 0 0 0]: d");
    c = UM(0,0); rA(&g, 0, UM(0,0));
    d += UM(1,4); rA(&g, 5, UM(1,4)); d += UM(2,3); rA(&g, 5, UM(2,3)); d += UM(3,2); rA(&g, 5, UM(3,2)); d += UM(4,1); rA(&g, 5, UM(4,1));
    OBL(0, YW(c), "[d t4+(tx<<48) t3 0 0 c] = [p8 0 0 p5 p4 p3 0 0 p0]: c"); OBL(5, YW(d), "[d t4+(tx<<48) t3 0 0 c]: d");
    u0 = (uint64_t)d & M; d >>= 52; rS(&g, 5, YW(d)); rSinv(&g, 4, YW(u0)); u0 = (u0 << 4) | tx;
    OBL(4, YW(t4) + (YW(u0) << 48), "[d 0 t4+(u0<<48) t3 0 0 c]: t4+(u0<<48)"); OBL(5, 0, "[d 0 t4+(u0<<48) t3 0 0 c]: position 5 empty"); OBL(6, YW(d), "[d 0 t4+(u0<<48) t3 0 0 c]: d");
    c += (u128_)u0 * (RC >> 4); rF4(&g, u0);
    OBL(4, YW(t4), "[d 0 t4 t3 0 0 c]: t4"); OBL(0, YW(c), "[d 0 t4 t3 0 0 c]: c");
    ws[0] = (uint64_t)c & M; c >>= 52; rS(&g, 0, YW(c));
    c += UM(0,1); rA(&g, 1, UM(0,1)); c += UM(1,0); rA(&g, 1, UM(1,0));
    d += UM(2,4); rA(&g, 6, UM(2,4)); d += UM(3,3); rA(&g, 6, UM(3,3)); d += UM(4,2); rA(&g, 6, UM(4,2));
    OBL(0, YW(ws[0]), "[d 0 t4 t3 0 c r0] = [p8 0 p6 p5 p4 p3 0 p1 p0]: r0"); OBL(1, YW(c), "[d 0 t4 t3 0 c r0]: c"); OBL(6, YW(d), "[d 0 t4 t3 0 c r0]: d");
    x = (uint64_t)d & M; c += (u128_)x * RC; d >>= 52; rF(&g, 1, x); rS(&g, 6, YW(d));
    OBL(1, YW(c), "[d 0 0 t4 t3 0 c r0]: c"); OBL(6, 0, "[d 0 0 t4 t3 0 c r0]: position 6 empty"); OBL(7, YW(d), "[d 0 0 t4 t3 0 c r0]: d");
    ws[1] = (uint64_t)c & M; c >>= 52; rS(&g, 1, YW(c));
    c += UM(0,2); rA(&g, 2, UM(0,2)); c += UM(1,1); rA(&g, 2, UM(1,1)); c += UM(2,0); rA(&g, 2, UM(2,0));
    d += UM(3,4); rA(&g, 7, UM(3,4)); d += UM(4,3); rA(&g, 7, UM(4,3));
    OBL(1, YW(ws[1]), "[d 0 0 t4 t3 c r1 r0] = [p8 p7 p6 p5 p4 p3 p2 p1 p0]: r1"); OBL(2, YW(c), "[d 0 0 t4 t3 c r1 r0]: c"); OBL(7, YW(d), "[d 0 0 t4 t3 c r1 r0]: d");
    x = (uint64_t)d; c += (u128_)RC * x; d >>= 64; rF(&g, 2, x); rS(&g, 7, YW(d) << 12);
    OBL(2, YW(c), "[(d<<12) 0 0 0 t4 t3 c r1 r0]: c"); OBL(7, 0, "[(d<<12) 0 0 0 t4 t3 c r1 r0]: position 7 empty"); OBL(8, YW(d) << 12, "[(d<<12) 0 0 0 t4 t3 c r1 r0]: d<<12");
    ws[2] = (uint64_t)c & M; c >>= 52; rS(&g, 2, YW(c));
    x = (uint64_t)d; c += (u128_)(RC << 12) * x; rF(&g, 3, x << 12); c += t3;
    OBL(2, YW(ws[2]), "[t4 c r2 r1 r0]: r2"); OBL(3, YW(c), "[t4 c r2 r1 r0]: c (t3 absorbed)"); OBL(8, 0, "[t4 c r2 r1 r0]: position 8 empty");
    ws[3] = (uint64_t)c & M; c >>= 52; rS(&g, 3, YW(c));
    ws[4] = (uint64_t)c + t4;
    OBL(3, YW(ws[3]), "[r4 r3 r2 r1 r0]: r3"); OBL(4, YW(ws[4]), "[r4 r3 r2 r1 r0]: r4");
#ifdef CONG_OBL
    for (k = 5; k < 10; k++) OBL(k, 0, "[r4 r3 r2 r1 r0]: positions 5..9 empty");
    /* the columns collected by rule A are the column sums of the schoolbook product */
    { int i, j; Y p[10]; for (k = 0; k < 10; k++) p[k] = 0; for (i = 0; i < 5; i++) for (j = 0; j < 5; j++) p[i + j] += YW(UM(i, j));
      for (k = 0; k < 10; k++) __CPROVER_assert(g.col[k] == p[k], "C05 fe_mul_inner congruence: column k collected == sum_{i+j=k} umul(a_i,b_j)"); }
    __CPROVER_assert((g.K >> 330) == 0, "C05 fe_mul_inner congruence: K < 2^330 (nothing wraps in 704 bits)");
#endif
    *out = g;
}
static void get_inputs(uint64_t *a, uint64_t *b) { INPUT_ARR(uint64_t, ia, 5); INPUT_ARR(uint64_t, ib, 5); int i; for (i = 0; i < 5; i++) { a[i] = ia[i]; b[i] = ib[i]; } }
static int in_ok(const uint64_t *a) { return (a[0] >> 56) == 0 && (a[1] >> 56) == 0 && (a[2] >> 56) == 0 && (a[3] >> 56) == 0 && (a[4] >> 52) == 0; }
static void uf_axioms(const uint64_t *a, const uint64_t *b) {   /* (B) of assumed_C05.h for the 25 products (the contract's ensures, proved for the real multiplier by C05.umul_axioms) */
    int i, j; for (i = 0; i < 5; i++) for (j = 0; j < 5; j++) __CPROVER_assume(SA_UMUL_BOUNDS(a[i], b[j]));
}

/* (2) the witness run is explained by the rules */
void h_fe_mul_cong_steps(void) {
    uint64_t a[5], b[5], ws[5]; book g;
    get_inputs(a, b);
    __CPROVER_assume(in_ok(a) && in_ok(b));
    uf_axioms(a, b);
    wit_mul(ws, &g, a, b);
    REACH("witness run completed");
}
/* (1) the REAL function computes the witness output */
void h_fe_mul_cong_miter(void) {
    uint64_t a[5], b[5], r[5], ws[5]; book g; int i;
    get_inputs(a, b);
    __CPROVER_assume(in_ok(a) && in_ok(b));
    secp256k1_fe_mul_inner(r, a, b);
    wit_mul(ws, &g, a, b);
    for (i = 0; i < 5; i++) __CPROVER_assert(r[i] == ws[i], "C05 fe_mul_inner congruence: real output limb == witness limb");
    REACH("miter completed");
}
/* (3) the rules, for arbitrary books: G(e) = sum e_k 2^(52k) over 704 bits */
static X G(const Y *e) { X v = 0; int k; for (k = 9; k >= 0; k--) v = (v << 52) + XW(e[k]); return v; }
static X mulc(X k) { return (k << 32) + (k << 9) + (k << 8) + (k << 7) + (k << 6) + (k << 4) + k; }   /* k * 0x1000003D1 */
static X mulp832(X k) { return (k << 256) - mulc(k); }                                                   /* k * p */
void h_fe_mul_cong_rule(void) {
    book g, g0; INPUT(unsigned, k); INPUT(unsigned, rule); INPUT(uint64_t, x); INPUT(u128_, v); Y h = nondet_Y(); int i;
    for (i = 0; i < 10; i++) { g.e[i] = nondet_Y(); __CPROVER_assume((g.e[i] >> 150) == 0); g.col[i] = 0; } g.K = 0;
    __CPROVER_assume((h >> 140) == 0 && rule < 5);
    g0 = g;
    __CPROVER_assert((XW(1) << 260) - XW(RC) == mulp832(16) && (XW(1) << 256) - XW(RC >> 4) == mulp832(1), "C05 constants: 2^260 - R == 16 p and 2^256 - (R >> 4) == p");
    if (rule == 0) { __CPROVER_assume(k <= 9); rA(&g, k, v);
        __CPROVER_assert(G(g.e) == G(g0.e) + (XW(v) << (52 * k)) && g.K == 0, "C05 rule A: G += v 2^(52k)"); }
    if (rule == 1) { __CPROVER_assume(k <= 8 && g.e[k] >= (h << 52)); rS(&g, k, h);
        __CPROVER_assert(G(g.e) == G(g0.e) && g.K == 0, "C05 rule S: G unchanged"); }
    if (rule == 2) { __CPROVER_assume(k <= 8 && g.e[k + 1] >= h); rSinv(&g, k, h);
        __CPROVER_assert(G(g.e) == G(g0.e) && g.K == 0, "C05 rule S inverse: G unchanged"); }
    if (rule == 3) { __CPROVER_assume(k <= 4 && g.e[k + 5] >= YW(x)); rF(&g, k, x);
        __CPROVER_assert(G(g0.e) == G(g.e) + mulp832(g.K), "C05 rule F: G(before) == G(after) + K p"); }
    if (rule == 4) { __CPROVER_assume(g.e[4] >= (YW(x) << 48)); rF4(&g, x);
        __CPROVER_assert(G(g0.e) == G(g.e) + mulp832(g.K), "C05 rule F4: G(before) == G(after) + K p"); }
    if (rule == 3 && k == 4) REACH("rule F at k = 4");
    if (rule == 1 && k == 8) REACH("rule S at k = 8");
}
#endif

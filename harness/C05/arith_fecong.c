/* C05 (b) STRETCH: stepwise proof of  r == a b (mod p)  for secp256k1_fe_mul_inner (5x52), relative to the uninterpreted
 * 64x64 multiplier umul of assumed_C05.h.  Statement proved (all inputs accepted by the function's VERIFY_BITS preconditions):
 *
 *      sum_{i,j} umul(a_i, b_j) 2^(52 (i+j))  ==  sum_i r_i 2^(52 i)  +  K p        over the integers, for an explicit K.
 *
 * Decomposition (LABELLED FALLBACK of DESIGN 5/C05(b): cut points cannot be put into /repo code, so they are put into a
 * harness-side WITNESS COMPUTATION wit_mul() written from the function's comment invariants "[d t4 t3 ...] = [p8 ... p0]";
 * wit_mul is NOT trusted: it only produces candidate outputs ws[0..4] and the quotient witness K):
 *   unit fe_mul_cong_miter : REAL secp256k1_fe_mul_inner (u128_mul/accum_mul = UF contract) gives r[i] == ws[i] for all i,
 *                            and K < 2^320, ws[i] < 2^64 (so nothing below wraps in 640 bits);
 *   unit fe_mul_cong_steps : Added == V(state) + mulp(K) holds at every cut point of wit_mul, each segment proved from the
 *                            invariant of the previous cut ALONE (state havoc'd and re-assumed), where Added = sum of the column
 *                            sums p_k 2^(52k) added so far and V(state) is the bracket expression of the comment; the last cut
 *                            is Added == sum ws[i] 2^(52i) + mulp(K);
 *   unit fe_mul_cong_sum   : Added at the end (columns in the order the code adds them) == sum_{i,j} umul(a_i,b_j) 2^(52(i+j)).
 * mulp(K) = K 2^256 - K 0x1000003D1 = K p, by shifts.  Each fold uses 2^260 - R = 16 p resp. 2^256 - (R >> 4) = p (constants,
 * asserted).  What stays assumed after this: only that umul IS the machine multiplier (and distributivity
 * (sum a_i 2^52i)(sum b_j 2^52j) = sum a_i b_j 2^(52(i+j)), a paper step). */
#include "assumed_C05.h"
#include "src/secp256k1.c"
#include "post.h"

#if !defined(VERIF_NATIVE) && !defined(USE_FORCE_WIDEMUL_INT64)
typedef unsigned __CPROVER_bitvector[640] X;
#define XW(x) ((X)(x))
X nondet_X(void);
#define U(i, j) XW(SA_UMUL(a[i], b[j]))
static X mulc(X k) { return (k << 32) + (k << 9) + (k << 8) + (k << 7) + (k << 6) + (k << 4) + k; }   /* k * 0x1000003D1 */
static X mulR(X k) { return mulc(k) << 4; }                                                              /* k * R, R = 0x1000003D10 */
static X mulp640(X k) { return (k << 256) - mulc(k); }                                                   /* k * p */

/* state of the witness computation */
typedef struct { X d, c, t3, t4, tx, u0, r0, r1, r2, r3, r4, K; } wst;
static void havoc(wst *s) { s->d = nondet_X(); s->c = nondet_X(); s->t3 = nondet_X(); s->t4 = nondet_X(); s->tx = nondet_X(); s->u0 = nondet_X();
    s->r0 = nondet_X(); s->r1 = nondet_X(); s->r2 = nondet_X(); s->r3 = nondet_X(); s->r4 = nondet_X(); s->K = nondet_X(); }

/* CUT(n, V): obligation "invariant n" = Added == V + K p; in the stepwise unit the state is then forgotten and re-assumed */
#ifdef CONG_STEPS
# define CUT(n, V) do { __CPROVER_assert(Added == (V) + mulp640(s.K), "C05 fe_mul_inner congruence: invariant " #n " [comment bracket] == [columns added so far] + K p"); \
                        havoc(&s); __CPROVER_assume(Added == (V) + mulp640(s.K)); } while (0)
#else
# define CUT(n, V) do { } while (0)
#endif

static X wit_mul(X *ws, X *Kout, const uint64_t *a, const uint64_t *b) {
    const X M = (XW(1) << 52) - 1, M64 = (XW(1) << 64) - 1;
    wst s; X Added, x;
    s.K = 0; s.t3 = s.t4 = s.tx = s.u0 = s.r0 = s.r1 = s.r2 = s.r3 = s.r4 = 0;
    s.d = U(0,3) + U(1,2) + U(2,1) + U(3,0);                           /* p3 */
    s.c = U(4,4);                                                      /* p8 */
    Added = (s.d << 156) + (s.c << 416);
    CUT(1, (s.c << 416) + (s.d << 156));
    x = s.c & M64; s.d += mulR(x); s.c >>= 64; s.K += x << (156 + 4);  /* fold c_lo 2^416 = c_lo 2^(260+156) -> c_lo R 2^156 */
    CUT(2, (s.c << 480) + (s.d << 156));
    s.t3 = s.d & M; s.d >>= 52;
    { X p4 = U(0,4) + U(1,3) + U(2,2) + U(3,1) + U(4,0); s.d += p4; Added += p4 << 208; }
    CUT(3, (s.c << 480) + (s.d << 208) + (s.t3 << 156));
    x = s.c; s.d += mulR(x) << 12; s.c = 0; s.K += x << (220 + 4);      /* fold c_hi 2^480 = c_hi 2^(260+220) -> c_hi (R<<12) 2^208 */
    CUT(4, (s.d << 208) + (s.t3 << 156));
    s.t4 = s.d & M; s.d >>= 52; s.tx = s.t4 >> 48; s.t4 &= (M >> 4);
    s.c = U(0,0); Added += s.c;                                        /* p0 */
    { X p5 = U(1,4) + U(2,3) + U(3,2) + U(4,1); s.d += p5; Added += p5 << 260; }
    CUT(5, (s.d << 260) + (s.tx << 256) + (s.t4 << 208) + (s.t3 << 156) + s.c);
    s.u0 = s.d & M; s.d >>= 52; s.u0 = (s.u0 << 4) + s.tx; s.tx = 0;
    CUT(6, (s.d << 312) + (s.u0 << 256) + (s.t4 << 208) + (s.t3 << 156) + s.c);
    x = s.u0; s.c += mulc(x); s.u0 = 0; s.K += x;                      /* fold u0 2^256 -> u0 (R>>4) */
    CUT(7, (s.d << 312) + (s.t4 << 208) + (s.t3 << 156) + s.c);
    s.r0 = s.c & M; s.c >>= 52;
    { X p1 = U(0,1) + U(1,0); s.c += p1; Added += p1 << 52; }
    { X p6 = U(2,4) + U(3,3) + U(4,2); s.d += p6; Added += p6 << 312; }
    CUT(8, (s.d << 312) + (s.t4 << 208) + (s.t3 << 156) + (s.c << 52) + s.r0);
    x = s.d & M; s.c += mulR(x); s.d >>= 52; s.K += x << (52 + 4);      /* fold d_lo 2^312 = d_lo 2^(260+52) */
    CUT(9, (s.d << 364) + (s.t4 << 208) + (s.t3 << 156) + (s.c << 52) + s.r0);
    s.r1 = s.c & M; s.c >>= 52;
    { X p2 = U(0,2) + U(1,1) + U(2,0); s.c += p2; Added += p2 << 104; }
    { X p7 = U(3,4) + U(4,3); s.d += p7; Added += p7 << 364; }
    CUT(10, (s.d << 364) + (s.t4 << 208) + (s.t3 << 156) + (s.c << 104) + (s.r1 << 52) + s.r0);
    x = s.d & M64; s.c += mulR(x); s.d >>= 64; s.K += x << (104 + 4);   /* fold d_lo64 2^364 = d_lo64 2^(260+104) */
    CUT(11, (s.d << 428) + (s.t4 << 208) + (s.t3 << 156) + (s.c << 104) + (s.r1 << 52) + s.r0);
    s.r2 = s.c & M; s.c >>= 52;
    x = s.d; s.c += mulR(x) << 12; s.d = 0; s.K += x << (168 + 4);      /* fold d_hi 2^428 = d_hi 2^(260+168) -> d_hi (R<<12) 2^156 */
    s.c += s.t3; s.t3 = 0;
    CUT(12, (s.t4 << 208) + (s.c << 156) + (s.r2 << 104) + (s.r1 << 52) + s.r0);
    s.r3 = s.c & M; s.c >>= 52;
    s.r4 = s.c + s.t4;
    /* final cut without havoc: this is the statement */
#if defined(CONG_STEPS) || defined(CONG_MONO)
    __CPROVER_assert(Added == (s.r4 << 208) + (s.r3 << 156) + (s.r2 << 104) + (s.r1 << 52) + s.r0 + mulp640(s.K),
                     "C05 fe_mul_inner congruence: [columns p8..p0] == [r4 r3 r2 r1 r0] + K p");
#endif
    ws[0] = s.r0; ws[1] = s.r1; ws[2] = s.r2; ws[3] = s.r3; ws[4] = s.r4; *Kout = s.K;
    return Added;
}
static void get_inputs(uint64_t *a, uint64_t *b) { INPUT_ARR(uint64_t, ia, 5); INPUT_ARR(uint64_t, ib, 5); int i; for (i = 0; i < 5; i++) { a[i] = ia[i]; b[i] = ib[i]; } }
static int in_ok(const uint64_t *a) { return (a[0] >> 56) == 0 && (a[1] >> 56) == 0 && (a[2] >> 56) == 0 && (a[3] >> 56) == 0 && (a[4] >> 52) == 0; }

/* steps / monolithic: the chain of invariants inside wit_mul (no real code involved; pure bit-vector algebra over the UF atoms) */
void h_fe_mul_cong_steps(void) {
    uint64_t a[5], b[5];
    X ws[5], K, Added;
    get_inputs(a, b);
    __CPROVER_assert((XW(1) << 260) - XW(SA_RC) == mulp640(16) && (XW(1) << 256) - XW(SA_RC >> 4) == mulp640(1), "C05 constants: 2^260 - R == 16 p and 2^256 - (R >> 4) == p");
    Added = wit_mul(ws, &K, a, b);
    REACH("witness computation completed");
    (void)Added;
}
/* sum: the columns in the order the code adds them are the full schoolbook sum */
void h_fe_mul_cong_sum(void) {
    uint64_t a[5], b[5];
    X ws[5], K, Added, S = 0; int i, j;
    get_inputs(a, b);
    Added = wit_mul(ws, &K, a, b);
    for (i = 0; i < 5; i++) for (j = 0; j < 5; j++) S = S + (U(i, j) << (52 * (i + j)));
    __CPROVER_assert(Added == S, "C05 fe_mul_inner congruence: columns added == sum_{i,j} umul(a_i,b_j) 2^(52(i+j))");
    REACH("sum completed");
}
/* miter: the REAL function's output equals the witness outputs; the witness quotient is small enough that nothing wraps */
void h_fe_mul_cong_miter(void) {
    uint64_t a[5], b[5];
    uint64_t r[5]; X ws[5], K; int i;
    get_inputs(a, b);
    __CPROVER_assume(in_ok(a) && in_ok(b));
    secp256k1_fe_mul_inner(r, a, b);
    (void)wit_mul(ws, &K, a, b);
    for (i = 0; i < 5; i++) __CPROVER_assert(XW(r[i]) == ws[i], "C05 fe_mul_inner congruence: real output limb == witness limb");
    __CPROVER_assert((K >> 320) == 0, "C05 fe_mul_inner congruence: K < 2^320 (K p and the column sum stay below 2^640: the equation holds over the integers)");
    REACH("miter completed");
}
#endif

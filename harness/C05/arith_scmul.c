/* C05 (b) scalar multiplication inner code (portable C versions; the x86-64 asm is not reachable), -DVERIFY:
 * every carry-macro VERIFY_CHECK (muladd / muladd_fast / muladd2 / sumadd_fast / extract_fast never lose a carry,
 * c1 == 0 / c0 <= 1 / p4 <= 2 at the documented places) holds for ALL inputs.
 *  - scalar_mul_512 / sqr_512 / mul_shift_var: 64x64 multiplier = uninterpreted function bounded by (2^64-1)^2;
 *  - scalar_reduce_512: every multiplication has a limb of 2^256-n as one operand and stays REAL.
 * The numeric value of the products (l == a b, r == l mod n) is NOT proved (assumed residue), except:
 * reduce_512 output is a reduced scalar (r < n). */
#define C05_UF_SCALAR 1
#include "assumed_C05.h"
#include "src/secp256k1.c"
#include "post.h"

#ifndef VERIF_NATIVE
#if defined(USE_FORCE_WIDEMUL_INT64)
typedef uint32_t sclimb; 
# define NL 8
#else
typedef uint64_t sclimb;
# define NL 4
#endif
void h_sc_mul_512(void) {
    INPUT(secp256k1_scalar, a); INPUT(secp256k1_scalar, b);
    sclimb l[2 * NL];
    /* any limb pattern: mul_512 itself has no precondition */
    secp256k1_scalar_mul_512(l, &a, &b);
    secp256k1_scalar_sqr_512(l, &a);
    REACH("scalar_mul_512 and sqr_512 completed");
}
void h_sc_reduce_512(void) {
    INPUT_ARR(sclimb, l, 2 * NL);
    secp256k1_scalar r;
    secp256k1_scalar_reduce_512(&r, l);
    __CPROVER_assert(sval(&r) < N_(), "C05 scalar_reduce_512: result is a reduced scalar (r < n) for every 512-bit input");
    REACH("scalar_reduce_512 completed");
}
void h_sc_mul_shift(void) {
    INPUT(secp256k1_scalar, a); INPUT(secp256k1_scalar, b); INPUT(unsigned, shift);
    secp256k1_scalar r;
    __CPROVER_assume(sval(&a) < N_() && sval(&b) < N_() && shift >= 256 && shift <= 512);
    secp256k1_scalar_mul_shift_var(&r, &a, &b, shift);
    __CPROVER_assert((sval(&r) >> 256) == 0, "C05 scalar_mul_shift_var: completes with every VERIFY_CHECK met");
    if (shift == 384) REACH("mul_shift_var shift 384 (split_lambda)");
    if (shift == 256) REACH("mul_shift_var shift 256");
}
#endif

/* C05 (b) scalar multiplication inner code (portable C versions; the x86-64 asm is not reachable), -DVERIFY:
 * every carry-macro VERIFY_CHECK (muladd / muladd_fast / muladd2 / sumadd_fast / extract_fast never lose a carry,
 * c1 == 0 / c0 <= 1 / p4 <= 2 at the documented places) holds for ALL inputs.
 *  - scalar_mul_512 / sqr_512 / mul_shift_var: 64x64 multiplier = uninterpreted function bounded by (2^64-1)^2;
 *  - scalar_reduce_512: every multiplication has a limb of 2^256-n as one operand and stays REAL.
 * The numeric value of the products (l == a b, r == l mod n) is NOT proved (assumed residue), except:
 * reduce_512 output is a reduced scalar (r < n). */
#define C05_UF_SCALAR 1
#include "assumed_C05.h"
#include "src/secp256k1.c"
#include "post.h"

#ifndef VERIF_NATIVE
#if defined(USE_FORCE_WIDEMUL_INT64)
typedef uint32_t sclimb; 
# define NL 8
#else
typedef uint64_t sclimb;
# define NL 4
#endif
void h_sc_mul_512(void) {
    INPUT(secp256k1_scalar, a); INPUT(secp256k1_scalar, b);
    sclimb l[2 * NL];
    /* any limb pattern: mul_512 itself has no precondition */
    secp256k1_scalar_mul_512(l, &a, &b);
    secp256k1_scalar_sqr_512(l, &a);
    REACH("scalar_mul_512 and sqr_512 completed");
}
void h_sc_reduce_512(void) {
    INPUT_ARR(sclimb, l, 2 * NL);
    secp256k1_scalar r;
    secp256k1_scalar_reduce_512(&r, l);
    __CPROVER_assert(sval(&r) < N_(), "C05 scalar_reduce_512: result is a reduced scalar (r < n) for every 512-bit input");
    REACH("scalar_reduce_512 completed");
}
#if !defined(USE_FORCE_WIDEMUL_INT64)
/* Value of scalar_reduce_512.  Mathematical definition used: for x = lo + hi 2^256 (lo < 2^256),
 *      fold(x) = lo + hi (2^256 - n)   is congruent to x modulo n   (because 2^256 == 2^256 - n mod n),
 * so r = fold(fold(fold(l))) reduced once more by n (it is < 2 n) equals l mod n.  fold is written limb-wise
 * (hi = sum h_i 2^(64 i); 2^256 - n = NC0 + NC1 2^64 + 2^128) so that the solver sees the same 64x64 products by the
 * constants NC0, NC1 as in the code and only has to prove the carry handling. */
typedef unsigned __CPROVER_bitvector[640] wide2;
#define W2(x) ((wide2)(x))
static wide2 sa_fold_n(wide2 x) {
    wide2 mask = (W2(1) << 256) - 1, lo = x & mask, hi = x >> 256, acc = lo; int i;
    for (i = 0; i < 5; i++) {
        uint64_t h = (uint64_t)(hi >> (64 * i));
        acc = acc + (W2((unsigned __int128)h * SA_NC0) << (64 * i)) + (W2((unsigned __int128)h * SA_NC1) << (64 * (i + 1))) + (W2(h) << (64 * (i + 2)));
    }
    return acc;
}
/* Value of scalar_mul_512 / sqr_512 relative to the 64x64 multiplier umul (uninterpreted, see assumed_C05.h):
 *      l == sum_{i,j} umul(a_i, b_j) 2^(64 (i+j))        (schoolbook definition of the 512-bit product)
 * i.e. everything except the meaning of the single-limb multiplier: carries, column order, limb placement. */
void h_sc_mul_512_value(void) {
    INPUT(secp256k1_scalar, a); INPUT(secp256k1_scalar, b); INPUT(_Bool, sqr);
    uint64_t l[8]; wide2 L = 0, S = 0; int i, j;
    if (sqr) { secp256k1_scalar_sqr_512(l, &a); b = a; } else secp256k1_scalar_mul_512(l, &a, &b);
    for (i = 7; i >= 0; i--) L = (L << 64) | W2(l[i]);
    for (i = 0; i < 4; i++) for (j = 0; j < 4; j++) S = S + (W2(SA_UMUL(a.d[i], b.d[j])) << (64 * (i + j)));
    if (!sqr) __CPROVER_assert(L == S, "C05 scalar_mul_512: l == sum umul(a_i, b_j) 2^(64(i+j))");
    /* sqr_512 uses each cross product once and doubles it: needs umul(x,y) == umul(y,x), which is NOT an axiom of the
     * uninterpreted multiplier; stated with the products the code uses: a_i a_j for i <= j */
    if (sqr) {
        S = 0;
        for (i = 0; i < 4; i++) for (j = i; j < 4; j++) S = S + (W2(SA_UMUL(a.d[i], a.d[j])) << (64 * (i + j) + (i != j)));
        __CPROVER_assert(L == S, "C05 scalar_sqr_512: l == sum_{i<=j} (2 - [i=j]) umul(a_i, a_j) 2^(64(i+j))");
    }
    if (sqr) REACH("scalar_sqr_512 value"); else REACH("scalar_mul_512 value");
}
void h_sc_reduce_512_value(void) {
    INPUT_ARR(uint64_t, lv, 8);
    secp256k1_scalar r; wide2 L = 0, R; int i;
#ifdef RV_HI_LIMBS   /* bounded stand-in: only the lowest RV_HI_LIMBS limbs of the high half may be non-zero */
    for (i = 4 + RV_HI_LIMBS; i < 8; i++) __CPROVER_assume(lv[i] == 0);
#endif
    for (i = 7; i >= 0; i--) L = (L << 64) | W2(lv[i]);
    secp256k1_scalar_reduce_512(&r, lv);
    R = sa_fold_n(sa_fold_n(sa_fold_n(L)));
    __CPROVER_assert(R < (W2(N_()) << 1), "C05 scalar_reduce_512 spec: three folds leave a value below 2 n");
    __CPROVER_assert(W2(sval(&r)) == (R >= W2(N_()) ? R - W2(N_()) : R), "C05 scalar_reduce_512: r == l mod n (three folds by 2^256 == 2^256 - n, then one conditional subtraction)");
    if (R >= W2(N_())) REACH("scalar_reduce_512 final subtraction needed");
    if ((L >> 256) == 0 && L >= W2(N_())) REACH("scalar_reduce_512 small input above n");
}
#endif
void h_sc_mul_shift(void) {
    INPUT(secp256k1_scalar, a); INPUT(secp256k1_scalar, b); INPUT(unsigned, shift);
    secp256k1_scalar r;
    /* shift = 256 is excluded: there "the rounded result is a reduced scalar" needs the VALUE of the product (a b < n^2), which the
     * uninterpreted multiplier does not provide (residue); for shift >= 257 the result is below 2^255 + 1 < n for any product.
     * The library calls it with 384 only (scalar_split_lambda). */
    __CPROVER_assume(sval(&a) < N_() && sval(&b) < N_() && shift >= 257 && shift <= 512);
    secp256k1_scalar_mul_shift_var(&r, &a, &b, shift);
    __CPROVER_assert((sval(&r) >> 256) == 0, "C05 scalar_mul_shift_var: completes with every VERIFY_CHECK met");
    if (shift == 384) REACH("mul_shift_var shift 384 (split_lambda)");
    if (shift == 257) REACH("mul_shift_var shift 257");
    if (shift == 512) REACH("mul_shift_var shift 512");
}
#endif

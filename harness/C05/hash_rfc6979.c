/* C05 (c) L4 consumer: the REAL secp256k1_rfc6979_hmac_sha256_initialize / _generate / _finalize with the
 * HMAC functions replaced by the logging contracts of hash_spec.h.
 *
 * RFC 6979 section 3.2 LEMMA (HMAC_DRBG with SHA-256, seed = key[0..keylen) = int2octets(x)||bits2octets(h1)||...):
 *   initialize:   b. V = 0x01^32   c. K = 0x00^32
 *                 d. K = HMAC_K(V || 0x00 || seed)   e. V = HMAC_K(V)
 *                 f. K = HMAC_K(V || 0x01 || seed)   g. V = HMAC_K(V);   retry = 0
 *       = exactly four HMAC computations E0..E3 with 32-byte keys:
 *         E0 key 0^32,        msg 1^32 || 00 || seed      E1 key out(E0), msg 1^32
 *         E2 key out(E0),     msg out(E1) || 01 || seed   E3 key out(E2), msg out(E1);   K = out(E2), V = out(E3)
 *   generate(out, outlen):  h.3 retry step ONLY when retry is set:  K = HMAC_K(V || 0x00), V = HMAC_K(V);
 *                 h.2 per 32-byte round: V = HMAC_K(V), next min(32, remaining) output bytes = V;  retry = 1
 *   finalize: callable on any state (no effect is promised or asserted).
 * Digest bytes are compared through the ghost index dk (one arbitrary byte of 32), stream bytes through
 * (epoch we, position wpos), key bytes through kk. */
#define HASH_SPEC_HMAC_CONTRACTS
#define VERIF_MEMCPY_MODEL      /* generate copies <= 32 bytes into a symbolic-size buffer: ghost-watched byte model, see hash_spec.h */
#include "hash_spec.h"
#define memcpy verif_memcpy64
#include "src/secp256k1.c"
#undef memcpy
#include "post.h"

void h_rfc_init(void) {
    INPUT(size_t, keylen); INPUT(int, we); INPUT(uint64_t, wpos); INPUT(unsigned, kk); INPUT(unsigned, dk);
    secp256k1_rfc6979_hmac_sha256 rng; secp256k1_hash_ctx hc; unsigned char *key; uint64_t mlen;
    __CPROVER_assume(keylen <= ((size_t)1 << 40));
    __CPROVER_assume(kk < 32 && dk < 32 && we >= 0 && we <= 4);
    INPUT_BUF(seedw, key, keylen, 64);
    hc.fn_sha256_compression = secp256k1_sha256_transform;
    HMACS_RESET(); g_hwe = we; g_hwpos = wpos; g_hkk = kk; g_hdk = dk;

    secp256k1_rfc6979_hmac_sha256_initialize(&hc, &rng, key, keylen);
    WITNESS_BUF(seedw, key, keylen, 64);

    __CPROVER_assert(g_hfin_n == 4, "C05 rfc6979_initialize: exactly four HMAC computations (steps d, e, f, g)");
    __CPROVER_assert(rng.retry == 0, "C05 rfc6979_initialize: retry flag cleared");
    if (we < 4) {
        __CPROVER_assert(g_hk_n == 1 && g_hk_len == 32, "C05 rfc6979_initialize: each HMAC is keyed once, with a 32-byte key");
        mlen = (we == 0 || we == 2) ? 33 + (uint64_t)keylen : 32;
        __CPROVER_assert(g_hf_len == mlen, "C05 rfc6979_initialize: message length is 32+1+keylen in steps d,f and 32 in steps e,g");
        if (wpos < mlen) __CPROVER_assert(g_hw_hit == 1, "C05 rfc6979_initialize: every message position is written exactly once");
        else __CPROVER_assert(g_hw_hit == 0, "C05 rfc6979_initialize: nothing beyond the message is written");
        if (wpos > 32 && wpos < mlen) __CPROVER_assert(g_hw_byte == key[wpos - 33], "C05 rfc6979_initialize: steps d,f absorb the whole seed after V and the separator");
    } else {
        __CPROVER_assert(g_hk_n == 0 && g_hw_hit == 0, "C05 rfc6979_initialize: no fifth HMAC");
    }
    if (we == 0) {
        __CPROVER_assert(g_hk_byte == 0x00, "C05 rfc6979_initialize d: K is 0x00^32 (step c)");
        if (wpos < 32) __CPROVER_assert(g_hw_byte == 0x01, "C05 rfc6979_initialize d: V is 0x01^32 (step b)");
        if (wpos == 32) __CPROVER_assert(g_hw_byte == 0x00, "C05 rfc6979_initialize d: separator 0x00");
    }
    if (we == 1) {
        if (kk == dk) __CPROVER_assert(g_hk_byte == g_hf_prev, "C05 rfc6979_initialize e: keyed with the K of step d");
        __CPROVER_assert(g_hw_byte == 0x01 || wpos >= 32, "C05 rfc6979_initialize e: message is the initial V");
    }
    if (we == 2) {
        if (kk == dk) __CPROVER_assert(g_hk_byte == g_hf_prev2, "C05 rfc6979_initialize f: keyed with the K of step d");
        if (wpos < 32 && wpos == dk) __CPROVER_assert(g_hw_byte == g_hf_prev, "C05 rfc6979_initialize f: message starts with the V of step e");
        if (wpos == 32) __CPROVER_assert(g_hw_byte == 0x01, "C05 rfc6979_initialize f: separator 0x01");
    }
    if (we == 3) {
        if (kk == dk) __CPROVER_assert(g_hk_byte == g_hf_prev, "C05 rfc6979_initialize g: keyed with the K of step f");
        if (wpos < 32 && wpos == dk) __CPROVER_assert(g_hw_byte == g_hf_prev2, "C05 rfc6979_initialize g: message is the V of step e");
        __CPROVER_assert(rng.k[dk] == g_hf_prev && rng.v[dk] == g_hf_cur, "C05 rfc6979_initialize: final K is the output of step f, final V the output of step g");
    }
    if (we == 2 && wpos == 33 + 70 && keylen > 80) REACH("rfc6979_init: seed byte 70 in step f");
    if (we == 3 && kk == dk && wpos == dk && dk == 9) REACH("rfc6979_init: step g linked to f and e");
    if (keylen == 0 && we == 0) REACH("rfc6979_init: empty seed");
    REACH("rfc6979_init end");
}

#ifndef RFC_MAXOUT
#define RFC_MAXOUT 96
#endif
void h_rfc_gen(void) {
    INPUT(size_t, outlen); INPUT(int, we); INPUT(uint64_t, wpos); INPUT(unsigned, kk); INPUT(unsigned, dk); INPUT(size_t, oi);
    INPUT_ARR(unsigned char, k0, 32); INPUT_ARR(unsigned char, v0, 32); INPUT(int, retry0);
    secp256k1_rfc6979_hmac_sha256 rng; secp256k1_hash_ctx hc; unsigned char *out; int base, rounds, r; /* ints: outlen <= 2^36 keeps the round count below 2^31 */
    __CPROVER_assume(outlen <= RFC_MAXOUT);
    __CPROVER_assume(kk < 32 && dk < 32 && we >= 0 && we <= RFC_MAXOUT / 32 + 3);
    out = malloc(outlen ? outlen : 1); __CPROVER_assume(out != NULL);
    memcpy(rng.k, k0, 32); memcpy(rng.v, v0, 32); rng.retry = retry0;
    hc.fn_sha256_compression = secp256k1_sha256_transform;
    HMACS_RESET(); g_hwe = we; g_hwpos = wpos; g_hkk = kk; g_hdk = dk; verif_oi = oi; g_mc_base = NULL; g_mc_big = out; g_mc_big_idx = oi;

    secp256k1_rfc6979_hmac_sha256_generate(&hc, &rng, out, outlen);

    base = retry0 ? 2 : 0; rounds = (int)((outlen + 31) / 32); r = we - base;
    __CPROVER_assert(g_hfin_n == base + rounds, "C05 rfc6979_generate: two HMACs for the retry step iff retry was set, then one per 32-byte round");
    __CPROVER_assert(rng.retry == 1, "C05 rfc6979_generate: retry flag set afterwards");
    if (we < base + rounds) {
        __CPROVER_assert(g_hk_n == 1 && g_hk_len == 32, "C05 rfc6979_generate: each HMAC is keyed once, with a 32-byte key");
        __CPROVER_assert(g_hf_len == ((retry0 && we == 0) ? 33 : 32), "C05 rfc6979_generate: message is V (|| 0x00 in the first retry HMAC)");
        if (wpos < g_hf_len) __CPROVER_assert(g_hw_hit == 1, "C05 rfc6979_generate: every message position is written exactly once");
        else __CPROVER_assert(g_hw_hit == 0, "C05 rfc6979_generate: nothing beyond the message is written");
    } else {
        __CPROVER_assert(g_hk_n == 0 && g_hw_hit == 0, "C05 rfc6979_generate: no further HMAC");
    }
    if (retry0 && we == 0) {
        __CPROVER_assert(g_hk_byte == k0[kk], "C05 rfc6979_generate h.3: K = HMAC_K(V || 0x00) keyed with the old K");
        if (wpos < 32) __CPROVER_assert(g_hw_byte == v0[wpos], "C05 rfc6979_generate h.3: message starts with the old V");
        if (wpos == 32) __CPROVER_assert(g_hw_byte == 0x00, "C05 rfc6979_generate h.3: separator 0x00");
        __CPROVER_assert(rng.k[dk] == g_hf_cur, "C05 rfc6979_generate h.3: the new K is that HMAC output");
    }
    if (retry0 && we == 1) {
        if (kk == dk) __CPROVER_assert(g_hk_byte == g_hf_prev, "C05 rfc6979_generate h.3: V = HMAC_K(V) keyed with the new K");
        if (wpos < 32) __CPROVER_assert(g_hw_byte == v0[wpos], "C05 rfc6979_generate h.3: over the old V");
    }
    if (!retry0) __CPROVER_assert(rng.k[kk] == k0[kk], "C05 rfc6979_generate: K unchanged without retry");
    if (r >= 0 && r < rounds) {
        __CPROVER_assert(g_hk_byte == rng.k[kk], "C05 rfc6979_generate h.2: every round is keyed with the current K");
        if (wpos < 32) {
            if (we == 0) __CPROVER_assert(g_hw_byte == v0[wpos], "C05 rfc6979_generate h.2: first round without retry hashes the old V");
            else if (wpos == dk) __CPROVER_assert(g_hw_byte == g_hf_prev, "C05 rfc6979_generate h.2: V = HMAC_K(V): each round hashes the previous HMAC output");
        }
        if (oi == 32 * (size_t)r + dk && oi < outlen) __CPROVER_assert(out[oi] == g_hf_cur, "C05 rfc6979_generate h.2: output bytes 32r .. are the V of round r (truncated at outlen)");
    }
    if (base + rounds > 0) __CPROVER_assert(rng.v[dk] == g_hf_last, "C05 rfc6979_generate: final V is the last HMAC output");
    else __CPROVER_assert(rng.v[dk] == v0[dk], "C05 rfc6979_generate: V unchanged when nothing is generated");

    if (retry0 && r == 2 && oi == 64 + dk && oi < outlen && dk == 5) REACH("rfc6979_generate: retry, third round output byte");
    if (!retry0 && outlen == 32 && we == 0) REACH("rfc6979_generate: first 32-byte call");
    if (outlen == 0 && retry0) REACH("rfc6979_generate: outlen 0 with retry");
    if (outlen == 33 && r == 1 && oi == 32) REACH("rfc6979_generate: one byte from the second round");
    REACH("rfc6979_generate end");
}

/* secp256k1_rfc6979_hmac_sha256_finalize: hash.h promises nothing about its effect (it may or may not wipe
 * the generator); only that it can be called on any generator state without undefined behaviour. */
void h_rfc_finalize(void) {
    INPUT_ARR(unsigned char, k1, 32); INPUT_ARR(unsigned char, v1, 32); INPUT(int, retry1);
    secp256k1_rfc6979_hmac_sha256 rng;
    memcpy(rng.k, k1, 32); memcpy(rng.v, v1, 32); rng.retry = retry1;
    secp256k1_rfc6979_hmac_sha256_finalize(&rng);
    REACH("rfc6979_finalize end");
}

/* C05 (c) L2: the REAL secp256k1_sha256_write, len fully symbolic, compression function = logging oracle.
 *
 * STREAM LEMMA (what hash_log.h's contract `hash->bytes == old + len` + "the hash is a function of
 * the stream" rests on).  Abstract view of a hash object: (state s after compressing the first
 * bytes/64 blocks of the stream, tail = buf[0 .. bytes%64) = the stream bytes after the last complete
 * block, bytes).  For a call write(hash, data, len) with bytes = B0 and B1 = B0 + len (no wrap):
 *   (a) bytes' = B1;
 *   (b) exactly B1/64 - B0/64 blocks are handed to the compression function, each exactly once, in
 *       stream order, always on state pointer hash->s; block number j of this call, offset o, holds
 *       the stream byte at position p = 64 (B0/64 + j) + o, where stream(p) = old buf[p%64] for p < B0
 *       and data[p - B0] for p >= B0;
 *   (c) afterwards buf[t] = stream(64 (B1/64) + t) for every t < B1%64;
 *   (d) hash->s is changed by compression calls only; len = 0 changes nothing;
 *   (e) no byte outside data[0..len) is read (data is an exact-size object; the oracle checks that the
 *       block range it is handed is readable).
 * By induction over the writes: the sequence of blocks handed to the compression function, and the
 * final tail, depend only on the concatenated stream, not on how it was split (h_write2 checks the
 * two-write instance on the real code directly). */
#define VERIF_MEMCPY_MODEL
#include "hash_spec.h"
#define memcpy verif_memcpy64
#include "src/secp256k1.c"
#undef memcpy
#include "post.h"

#ifndef MAXLEN
#define MAXLEN ((size_t)1 << 48)
#endif   /* objects are <= 2^52 bytes under --object-bits 12 (trusted base) */

void h_write(void) {
    INPUT(uint64_t, b0); INPUT(size_t, len); INPUT_ARR(unsigned char, buf0, 64);
    INPUT(uint32_t, s0a); INPUT(uint32_t, s0b); INPUT(unsigned, sk);
    INPUT(uint64_t, wblk); INPUT(unsigned, woff); INPUT(unsigned, t);
    secp256k1_sha256 h; secp256k1_hash_ctx hc; unsigned char *data;
    uint64_t b1, nb, p, q; unsigned i;
    __CPROVER_assume(len <= MAXLEN);
    __CPROVER_assume(b0 <= UINT64_MAX - len);            /* the function's precondition: the byte counter does not wrap */
    __CPROVER_assume(woff < 64 && t < 64 && sk < 8);
    INPUT_BUF(dataw, data, len, 64);
    for (i = 0; i < 8; i++) h.s[i] = (i == sk) ? s0a : s0b;
    memcpy(h.buf, buf0, 64); h.bytes = b0;
    hc.fn_sha256_compression = verif_compress;
    COMPLOG_RESET(); g_cw_blk = wblk; g_cw_off = woff;

    secp256k1_sha256_write(&hc, &h, data, len);

    b1 = b0 + len; nb = b1 / 64 - b0 / 64;
    __CPROVER_assert(h.bytes == b1, "C05 sha256_write (a): bytes' = bytes + len");
    __CPROVER_assert(g_c_blocks == nb, "C05 sha256_write (b): exactly (bytes+len)/64 - bytes/64 blocks are compressed");
    __CPROVER_assert(g_c_bad == 0 && g_c_calls <= 2, "C05 sha256_write (b): at most two compression calls, none empty");
    __CPROVER_assert((g_c_calls < 1 || g_c_state[0] == h.s) && (g_c_calls < 2 || g_c_state[1] == h.s), "C05 sha256_write (b): every compression call works on hash->s");
    if (wblk < nb) {
        p = (b0 / 64 + wblk) * 64 + woff;
        __CPROVER_assert(g_cw_hit == 1, "C05 sha256_write (b): every complete block of the stream is delivered exactly once");
        if (p < b0) __CPROVER_assert(g_cw_byte == buf0[woff], "C05 sha256_write (b): bytes before old bytes come from the buffered tail, same offset");
        else __CPROVER_assert(g_cw_byte == data[p - b0], "C05 sha256_write (b): delivered byte at block j offset o is data[64(B0/64+j)+o-B0]");
    } else {
        __CPROVER_assert(g_cw_hit == 0, "C05 sha256_write (b): no block beyond the complete ones is delivered");
    }
    if (t < b1 % 64) {
        q = (b1 / 64) * 64 + t;
        if (q < b0) __CPROVER_assert(h.buf[t] == buf0[t], "C05 sha256_write (c): old tail bytes stay in place when no block completes");
        else __CPROVER_assert(h.buf[t] == data[q - b0], "C05 sha256_write (c): new tail buf[t] is the stream byte at 64(B1/64)+t");
    }
    __CPROVER_assert(h.s[sk] == (g_c_calls ? g_c_out[sk] : s0a), "C05 sha256_write (d): state words are changed by the compression function only");
    if (len == 0) __CPROVER_assert(h.buf[t] == buf0[t] && g_c_calls == 0, "C05 sha256_write (d): an empty write changes nothing");

    if (g_c_calls == 2 && wblk == 0 && woff >= b0 % 64) REACH("write: tail completed and bulk call, watched byte from data in block 0");
    if (g_c_calls == 2 && wblk == 5000 && len > 400000) REACH("write: long input, watched block 5000");
    if (g_c_calls == 0 && len > 0 && t < b1 % 64 && t >= b0 % 64) REACH("write: buffered only");
    if (g_c_calls == 1 && b0 % 64 == 0 && b1 % 64 == 0 && len > 64) REACH("write: aligned bulk");
    REACH("write end");
}

/* Two-write lemma on the real code: write(a); write(b) hands the compression function the same
 * blocks (same count, same bytes at every block number/offset) and leaves the same tail and counter
 * as write(a||b).  a||b is one buffer d[0..la+lb) split at la. */
void h_write2(void) {
    INPUT(uint64_t, b0); INPUT(size_t, la); INPUT(size_t, lb); INPUT_ARR(unsigned char, tl0, 64);
    INPUT(uint64_t, wblk); INPUT(unsigned, woff); INPUT(unsigned, t);
    secp256k1_sha256 h1, h2; secp256k1_hash_ctx hc; unsigned char *d;
    uint64_t blocks1; int hit1; unsigned char byte1;
    __CPROVER_assume(la <= MAXLEN && lb <= MAXLEN);
    __CPROVER_assume(b0 <= UINT64_MAX - la - lb);
    __CPROVER_assume(woff < 64 && t < 64);
    INPUT_BUF(dw, d, la + lb, 64);
    memcpy(h1.buf, tl0, 64); h1.bytes = b0; h2 = h1;
    hc.fn_sha256_compression = verif_compress;

    COMPLOG_RESET(); g_cw_blk = wblk; g_cw_off = woff;
    secp256k1_sha256_write(&hc, &h1, d, la);
    secp256k1_sha256_write(&hc, &h1, d + la, lb);
    blocks1 = g_c_blocks; hit1 = g_cw_hit; byte1 = g_cw_byte;

    COMPLOG_RESET(); g_cw_blk = wblk; g_cw_off = woff;
    secp256k1_sha256_write(&hc, &h2, d, la + lb);

    __CPROVER_assert(h1.bytes == h2.bytes, "C05 sha256_write split lemma: same byte count");
    __CPROVER_assert(blocks1 == g_c_blocks, "C05 sha256_write split lemma: same number of blocks compressed");
    __CPROVER_assert(hit1 == g_cw_hit && hit1 <= 1, "C05 sha256_write split lemma: the same block numbers are delivered, each once");
    if (hit1) __CPROVER_assert(byte1 == g_cw_byte, "C05 sha256_write split lemma: every delivered block has the same content");
    if (t < h2.bytes % 64) __CPROVER_assert(h1.buf[t] == h2.buf[t], "C05 sha256_write split lemma: same buffered tail");
    if (hit1 && la % 64 != 0 && lb > 200 && wblk == 1) REACH("write2: unaligned split, block 1 delivered");
    if (la == 0 && lb > 64) REACH("write2: empty first write");
    REACH("write2 end");
}

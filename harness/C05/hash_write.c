/* C05 (c) L2: the REAL secp256k1_sha256_write, len fully symbolic, compression function = logging oracle.
 *
 * STREAM LEMMA (what hash_log.h's contract `hash->bytes == old + len` + "the hash is a function of
 * the stream" rests on).  Abstract view of a hash object: (state s after compressing the first
 * bytes/64 blocks of the stream, tail = buf[0 .. bytes%64) = the stream bytes after the last complete
 * block, bytes).  For a call write(hash, data, len) with bytes = B0 and B1 = B0 + len (no wrap):
 *   (a) bytes' = B1;
 *   (b) exactly the stream blocks number B0/64 .. B1/64 - 1 are handed to the compression function, each
 *       exactly once, in stream order (grouped into calls in any way, no call empty); stream block number k, offset o,
 *       holds the stream byte at position p = 64 k + o, where stream(p) = old buf[p%64] for p < B0 and
 *       data[p - B0] for p >= B0  (the oracle's block counter starts at B0/64: absolute block numbers);
 *   (c) afterwards buf[o] = stream(64 (B1/64) + o) for every o < B1%64;
 *   (d) the state is chained by value: the old hash->s enters the first call, every call reads what the
 *       previous one produced, hash->s ends as the last output; len = 0 changes nothing;
 *   (e) no byte outside data[0..len) is read (data is an exact-size object; the oracle and the memcpy
 *       model check that the ranges they are handed are readable).
 * By induction over the writes: the sequence of blocks handed to the compression function, and the
 * final tail, depend only on the concatenated stream, not on how it was split (h_write2 checks the
 * two-write instance on the real code directly).
 * `o` (woff) is ONE ghost offset in [0,64) used both for the block offset of (b) and the tail offset
 * of (c); the memcpy model watches exactly buf[o] (see hash_spec.h). */
#define VERIF_MEMCPY_MODEL
#define HASH_SPEC_WRITE_CONTRACT
#include "hash_spec.h"
#define memcpy verif_memcpy64
#include "src/secp256k1.c"
#undef memcpy
#include "post.h"

#ifndef MAXLEN
#define MAXLEN ((size_t)1 << 48)   /* objects are <= 2^52 bytes under --object-bits 12 (trusted base) */
#endif

void h_write(void) {
    INPUT(uint64_t, b0); INPUT(size_t, len); INPUT_ARR(unsigned char, buf0, 64);
    INPUT(uint32_t, s0a); INPUT(uint32_t, s0b); INPUT(unsigned, sk);
    INPUT(uint64_t, wblk); INPUT(unsigned, woff);
    secp256k1_sha256 h; secp256k1_hash_ctx hc; unsigned char *data;
    uint64_t b1, p, q; unsigned i;
    __CPROVER_assume(len <= MAXLEN);
    __CPROVER_assume(b0 <= UINT64_MAX - len);            /* the function's precondition: the byte counter does not wrap */
    __CPROVER_assume(woff < 64 && sk < 8);
    INPUT_BUF(dataw, data, len, 64);
    for (i = 0; i < 8; i++) h.s[i] = (i == sk) ? s0a : s0b;
    memcpy(h.buf, buf0, 64); h.bytes = b0;
    hc.fn_sha256_compression = verif_compress;
    __CPROVER_assume(wblk <= (UINT64_MAX >> 6));
    COMPLOG_RESET(); g_c_blocks = b0 / 64; g_cw_blk = wblk; g_cw_off = woff; g_sk = sk; g_c_cur = s0a;
    g_mc_big = NULL; g_mc_base = (unsigned char *)&h; g_mc_doff = offsetof(secp256k1_sha256, buf) + woff;

    secp256k1_sha256_write(&hc, &h, data, len);

    b1 = b0 + len;
    __CPROVER_assert(h.bytes == b1, "C05 sha256_write (a): bytes' = bytes + len");
    __CPROVER_assert(g_c_blocks == b1 / 64, "C05 sha256_write (b): exactly the blocks bytes/64 .. (bytes+len)/64 - 1 are compressed");
    __CPROVER_assert(g_c_bad == 0, "C05 sha256_write (b): no empty compression call");
    if (b0 / 64 <= wblk && wblk < b1 / 64) {
        p = wblk * 64 + woff;
        __CPROVER_assert(g_cw_hit == 1, "C05 sha256_write (b): every complete block of the stream is delivered exactly once");
        if (p < b0) __CPROVER_assert(g_cw_byte == buf0[woff], "C05 sha256_write (b): bytes before old bytes come from the buffered tail, same offset");
        else __CPROVER_assert(g_cw_byte == data[p - b0], "C05 sha256_write (b): delivered byte of stream block k offset o is data[64k+o-B0]");
    } else {
        __CPROVER_assert(g_cw_hit == 0, "C05 sha256_write (b): no block beyond the complete ones is delivered");
    }
    if (woff < b1 % 64) {
        q = (b1 / 64) * 64 + woff;
        if (q < b0) __CPROVER_assert(h.buf[woff] == buf0[woff], "C05 sha256_write (c): old tail bytes stay in place when no block completes");
        else __CPROVER_assert(h.buf[woff] == data[q - b0], "C05 sha256_write (c): new tail buf[o] is the stream byte at 64(B1/64)+o");
    }
    __CPROVER_assert(g_c_chain_bad == 0 && h.s[sk] == g_c_cur && (g_c_calls > 0 || g_c_cur == s0a), "C05 sha256_write (d): the state is chained through the compression calls and changed by nothing else");
    if (len == 0) __CPROVER_assert(h.buf[woff] == buf0[woff] && g_c_calls == 0, "C05 sha256_write (d): an empty write changes nothing");

    if (g_c_calls >= 2 && wblk == b0 / 64 && woff >= b0 % 64) REACH("write: tail completed and bulk call, watched byte from data in block 0");
#ifndef WRITE_BOUNDED
    if (g_c_calls >= 2 && wblk == b0 / 64 + 5000 && len > 400000) REACH("write: long input, watched block 5000");
#else
    if (g_c_calls >= 2 && wblk == b0 / 64 + 2 && len > 200) REACH("write: bounded variant, watched block 2");
#endif
    if (g_c_calls == 0 && len > 0 && woff < b1 % 64 && woff >= b0 % 64) REACH("write: buffered only");
    if (g_c_calls >= 1 && b0 % 64 == 0 && b1 % 64 == 0 && len > 64) REACH("write: aligned bulk");
    REACH("write end");
}

/* The same lemma as the CONTRACT of hash_spec.h, enforced by DFCC on the real body (unit
 * C05.sha256_write_contract: --enforce-contract secp256k1_sha256_write), for an arbitrary initial state
 * of the compression log.  This is the form the lemma harnesses below and hash_finalize.c consume. */
void h_write_c(void) {
    INPUT(uint64_t, b0); INPUT(size_t, len); INPUT_ARR(unsigned char, bufc, 64); INPUT_ARR(uint32_t, sc, 8);
    INPUT(uint64_t, wblk); INPUT(unsigned, woff); INPUT(unsigned, sk);
    INPUT(size_t, c_calls); INPUT(int, cw_hit); INPUT(unsigned char, cw_byte);
    secp256k1_sha256 h; secp256k1_hash_ctx hc; unsigned char *data; uint64_t blocks0;
    __CPROVER_assume(len <= MAXLEN && sk < 8 && woff < 64);
    INPUT_BUF(datac, data, len, 64);
    memcpy(h.s, sc, 32); memcpy(h.buf, bufc, 64); h.bytes = b0;
    hc.fn_sha256_compression = verif_compress;
    COMPLOG_RESET(); g_c_blocks = b0 / 64; g_c_calls = c_calls; g_cw_hit = cw_hit; g_cw_byte = cw_byte;
    g_cw_blk = wblk; g_cw_off = woff; g_sk = sk; g_c_cur = h.s[sk]; blocks0 = g_c_blocks;
    g_mc_big = NULL; g_mc_base = (unsigned char *)&h; g_mc_doff = offsetof(secp256k1_sha256, buf) + woff;
    secp256k1_sha256_write(&hc, &h, data, len);
    if (g_c_calls > c_calls && b0 % 64 != 0 && wblk == blocks0 + 7 && g_cw_hit == cw_hit + 1) REACH("write contract: tail completed, watched block 7 of this call");
    if (g_c_calls == c_calls && len > 0) REACH("write contract: buffered only");
    REACH("write contract end");
}

/* Two-write lemma over the contract: write(a); write(b), with a||b = d[0..la+lb) split at la, satisfies
 * the SAME stream postcondition (a),(b),(c) as a single write(a||b) - block numbers run on over both
 * calls.  (a)-(c) determine the byte count, the number of blocks, every byte of every delivered block
 * and the tail uniquely, so both ways of writing deliver identical blocks; by induction this extends to
 * any number of writes.  Both calls are replaced by the contract proved in C05.sha256_write_contract
 * (lemma harness in the sense of DESIGN 2.3); what remains is arithmetic on stream positions. */
void h_write2(void) {
    INPUT(uint64_t, b0); INPUT(size_t, la); INPUT(size_t, lb); INPUT_ARR(unsigned char, tl0, 64);
    INPUT(uint64_t, wblk); INPUT(unsigned, woff); INPUT(unsigned, sk);
    secp256k1_sha256 h; secp256k1_hash_ctx hc; unsigned char *d;
    uint64_t b2, p, q;
    __CPROVER_assume(la <= MAXLEN && lb <= MAXLEN);
    __CPROVER_assume(b0 <= UINT64_MAX - la - lb);
    __CPROVER_assume(woff < 64 && sk < 8);
    INPUT_BUF(dw, d, la + lb, 64);
    memcpy(h.buf, tl0, 64); h.bytes = b0;
    hc.fn_sha256_compression = verif_compress;
    __CPROVER_assume(wblk <= (UINT64_MAX >> 6));
    COMPLOG_RESET(); g_c_blocks = b0 / 64; g_cw_blk = wblk; g_cw_off = woff; g_sk = sk; g_c_cur = h.s[sk];

    secp256k1_sha256_write(&hc, &h, d, la);
    secp256k1_sha256_write(&hc, &h, d + la, lb);

    b2 = b0 + la + lb;
    __CPROVER_assert(h.bytes == b2, "C05 sha256_write split lemma (a): byte count as for one write of a||b");
    __CPROVER_assert(g_c_blocks == b2 / 64, "C05 sha256_write split lemma (b): block counter as for one write of a||b");
    if (b0 / 64 <= wblk && wblk < b2 / 64) {
        p = wblk * 64 + woff;
        __CPROVER_assert(g_cw_hit == 1, "C05 sha256_write split lemma (b): every complete block of the stream is delivered exactly once");
        if (p < b0) __CPROVER_assert(g_cw_byte == tl0[woff], "C05 sha256_write split lemma (b): old tail bytes delivered at their offset");
        else __CPROVER_assert(g_cw_byte == d[p - b0], "C05 sha256_write split lemma (b): delivered blocks are those of the stream tail||a||b");
    } else {
        __CPROVER_assert(g_cw_hit == 0, "C05 sha256_write split lemma (b): no other block is delivered");
    }
    if (woff < b2 % 64) {
        q = (b2 / 64) * 64 + woff;
        if (q < b0) __CPROVER_assert(h.buf[woff] == tl0[woff], "C05 sha256_write split lemma (c): old tail stays when no block completes");
        else __CPROVER_assert(h.buf[woff] == d[q - b0], "C05 sha256_write split lemma (c): tail as for one write of a||b");
    }
    if (g_cw_hit && la % 64 != 0 && lb > 200 && wblk == b0 / 64 + 1) REACH("write2: unaligned split, block 1 delivered");
    if (g_cw_hit && wblk > b0 / 64 + 70 && la < 64) REACH("write2: watched block far in b");
    if (la == 0 && lb > 64) REACH("write2: empty first write");
    if (la > 0 && la < 10 && lb > 0 && lb < 10 && b0 % 64 == 60 && woff < 5 && g_c_blocks == b0 / 64 + 1) REACH("write2: block completed by the second write, tail from b");
    REACH("write2 end");
}

/* C20 (iii, CBMC part): results do not depend on hidden static state.  DFCC starts a proof with ARBITRARY
 * values in every static-lifetime object of the translation unit (function-local statics included), so
 * a functional postcondition proved here holds "for every prior history of the library's statics".  The
 * postconditions are the DER and the compact encodings of an ECDSA signature object, written as an
 * independent byte-level specification (no limb arithmetic: the signature object stores r and s as
 * little-endian 256-bit integers on this ABI, secp256k1_ecdsa_signature_load is a memcpy).
 * The measured mutant (the DER scratch arrays made `static`) leaves r[0]/s[0] dependent on that state. */
#include "pre.h"
#include "src/secp256k1.c"
#include "post.h"

/* content octets of the DER INTEGER for a 32-byte big-endian value v: returns the length, writes to c[33] */
static size_t der_int(unsigned char *c, const unsigned char *v) {
    size_t z = 0, i, n;
    while (z < 32 && v[z] == 0) z++;
    if (z == 32) { c[0] = 0; return 1; }
    n = 0;
    if (v[z] >= 0x80) c[n++] = 0;
    for (i = z; i < 32; i++) c[n++] = v[i];
    return n;
}

void h_static_state_sig(void) {
    secp256k1_context ctx;
    INPUT(secp256k1_ecdsa_signature, sig);
    INPUT(size_t, cap); INPUT(size_t, k);
    INPUT_ARR(unsigned char, ss_out, 80);
    unsigned char out0[80], rb[32], sb[32], cr[33], cs[33], exp[80], c64[64];
    size_t lr, ls, need, size, i; int ret;
    verif_ctx_init(&ctx);
    __CPROVER_assume(cap <= 80 && k < 80);
    memcpy(out0, ss_out, 80);
    for (i = 0; i < 32; i++) { rb[i] = sig.data[31 - i]; sb[i] = sig.data[63 - i]; }
    lr = der_int(cr, rb); ls = der_int(cs, sb);
    need = 6 + lr + ls;
    for (i = 0; i < 80; i++) exp[i] = 0;
    exp[0] = 0x30; exp[1] = (unsigned char)(4 + lr + ls); exp[2] = 0x02; exp[3] = (unsigned char)lr;
    for (i = 0; i < 33; i++) if (i < lr) exp[4 + i] = cr[i];
    exp[4 + lr] = 0x02; exp[5 + lr] = (unsigned char)ls;
    for (i = 0; i < 33; i++) if (i < ls) exp[6 + lr + i] = cs[i];

    size = cap;
    ret = secp256k1_ecdsa_signature_serialize_der(&ctx, ss_out, &size, &sig);
    __CPROVER_assert(g_illegal == 0 && g_error == 0, "C20 static_state der: no callback");
    __CPROVER_assert(ret == (cap >= need), "C20 static_state der: succeeds iff the buffer holds the DER encoding of (r,s), for every initial static state");
    __CPROVER_assert(size == need, "C20 static_state der: reported length is the length of the DER encoding of (r,s)");
    if (ret == 1 && k < need) __CPROVER_assert(ss_out[k] == exp[k], "C20 static_state der: output bytes are the DER encoding of (r,s), for every initial static state");
    if (ret == 0 || k >= need) __CPROVER_assert(ss_out[k] == out0[k], "C20 static_state der: nothing written beyond the encoding / on failure");
    if (ret == 1 && need == 8) REACH("der of r = s = 0");
    if (ret == 1 && need == 72) REACH("der with two padded 33-byte integers");
    if (ret == 0) REACH("der buffer too small");

    ret = secp256k1_ecdsa_signature_serialize_compact(&ctx, c64, &sig);
    __CPROVER_assert(ret == 1 && g_illegal == 0, "C20 static_state compact: succeeds");
    if (k < 64) __CPROVER_assert(c64[k] == (k < 32 ? rb[k] : sb[k - 32]), "C20 static_state compact: output is r||s big-endian, for every initial static state");
}

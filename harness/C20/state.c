/* C20 (iii, CBMC part): results do not depend on hidden static state.  DFCC starts a proof with ARBITRARY
 * values in every static-lifetime object of the translation unit (function-local statics included), so
 * a functional postcondition proved here holds "for every prior history of the library's statics".  The
 * postconditions are the DER and the compact encodings of an ECDSA signature object, written as an
 * independent byte-level specification (no limb arithmetic: the signature object stores r and s as
 * little-endian 256-bit integers on this ABI, secp256k1_ecdsa_signature_load is a memcpy).
 * The measured mutant (the DER scratch arrays made `static`) leaves r[0]/s[0] dependent on that state. */
#include "pre.h"
#include "src/secp256k1.c"
#include "post.h"

/* (The DER serializer - the function of the measured `static` scratch-array mutant - has its full
 * specification unit in C03.der.serialize, which is tagged C20 for exactly this reason; here the compact
 * encoding is the cheap second witness of the same idiom.) */
void h_static_state_compact(void) {
    secp256k1_context ctx;
    INPUT_ARR(unsigned char, sc_in, 64);
    INPUT(size_t, k);
    secp256k1_ecdsa_signature sig; unsigned char c64[64]; int ret;
    verif_ctx_init(&ctx);
    __CPROVER_assume(k < 64);
    /* public 64-byte form in, the library's own parser, the library's own serializer, public form out */
    ret = secp256k1_ecdsa_signature_parse_compact(&ctx, &sig, sc_in);
    if (ret) {
        ret = secp256k1_ecdsa_signature_serialize_compact(&ctx, c64, &sig);
        __CPROVER_assert(ret == 1 && g_illegal == 0 && g_error == 0, "C20 static_state compact: serialize succeeds without callback");
        __CPROVER_assert(c64[k] == sc_in[k], "C20 static_state compact: serialize(parse(b)) = b for every accepted b and every initial static state");
        REACH("compact round trip");
    }
}

/* C20 (i): context functions of src/secp256k1.c.
 *
 * Build: -DUSE_EXTERNAL_DEFAULT_CALLBACKS (a supported configuration of the library): the two default
 * callbacks are then external functions, defined below as counters, so "reports illegal use through the
 * default callback" is observable instead of ending in abort().  The default ERROR callback is modelled
 * as non-returning (its documented contract; the library's own default aborts) and carries the
 * obligation that it is only reached after an allocation failure.
 *
 * malloc/free are counted by wrappers substituted with a function-like macro AFTER <stdlib.h> and
 * before the library text is included; the wrappers call the real (CBMC-modelled) malloc/free, which
 * may fail.  Nothing else of the library text changes.
 *
 * What is asserted (audit RULE): only what the property text / public headers promise.  After an illegal
 * callback RETURNS the header leaves return value and outputs undefined and allows further callbacks, so
 * rejection paths assert "at least one illegal callback" and nothing about results.  Equality of all
 * context fields (ctx_same) and the field frames of the setters are the SUFFICIENT condition used for
 * "results do not depend on how the context came about"; they look inside the opaque object on purpose.
 *
 * "proper" context = ecmult_gen_ctx.built != 0 (secp256k1_context_is_proper); the static context and
 * every byte copy of it have built == 0.  Context objects handed to the functions carry ARBITRARY
 * bytes in every other field. */
#include "verif.h"   /* <stdlib.h> first */
static size_t g_malloc_n, g_malloc_size, g_free_n;
static int g_malloc_failed;
static void *verif_malloc(size_t s) { void *p = (malloc)(s); g_malloc_n++; g_malloc_size = s; g_malloc_failed = (p == NULL); return p; }
static void verif_free(void *p) { g_free_n++; (free)(p); }
#define malloc(s) verif_malloc(s)
#define free(p) verif_free(p)
#include "hash_log.h"   /* pulls src/util.h (checked_malloc) */
#include "assumed.h"
#include "src/secp256k1.c"
#undef malloc
#undef free
#include "post.h"

static int g_def_illegal, g_def_error;
void secp256k1_default_illegal_callback_fn(const char *s, void *d) { (void)s; (void)d; g_def_illegal++; }
void secp256k1_default_error_callback_fn(const char *s, void *d) {
    (void)s; (void)d; g_def_error++;
    __CPROVER_assert(g_malloc_failed, "C20 ctx: the default error callback is reached only after an allocation failure (never for a failed self test of the built-in compression)");
    __CPROVER_assume(0);   /* documented: the error callback does not return */
}
/* secp256k1_selftest_sha256 reads its test vector through `static const char *input63` - a static-lifetime
 * pointer that is NOT const-qualified (engine/static_facts.py lists it: never assigned).  DFCC gives every
 * non-const static an arbitrary value at proof entry, so the real self test would read through an
 * arbitrary pointer here.  In the units that reach it, calls to secp256k1_selftest_sha256 are redirected
 * (goto-instrument --replace-calls) to this stub: the built-in compression function passes (ASSUMED; the
 * native test-suite runs the real self test at every context creation), any other candidate is run once
 * and gets an arbitrary verdict. */
static int g_selftest_calls;
int verif_selftest_stub(secp256k1_sha256_compression_function fn) {
    uint32_t st[8] = {0}; unsigned char blk[64] = {0};
    g_selftest_calls++;
    if (fn == secp256k1_sha256_transform) return 1;
    fn(st, blk, 1);
    return nondet_bool() ? 1 : 0;
}
#define RESET() { g_selftest_calls = 0; g_malloc_n = 0; g_malloc_size = 0; g_free_n = 0; g_malloc_failed = 0; g_def_illegal = 0; g_def_error = 0; g_illegal = 0; g_error = 0; }
#define BYTE(obj, k) (((const unsigned char *)&(obj))[k])
#define GEN_END (offsetof(secp256k1_context, ecmult_gen_ctx) + sizeof(secp256k1_ecmult_gen_context))
#define FE_SAME(a, b) ((a).n[0] == (b).n[0] && (a).n[1] == (b).n[1] && (a).n[2] == (b).n[2] && (a).n[3] == (b).n[3] && (a).n[4] == (b).n[4])
/* field-wise equality of two contexts (padding bytes of a fresh heap block are unspecified) */
static int ctx_same(const secp256k1_context *a, const secp256k1_context *b) {
    return a->ecmult_gen_ctx.built == b->ecmult_gen_ctx.built && SC_EQ(a->ecmult_gen_ctx.scalar_offset, b->ecmult_gen_ctx.scalar_offset) &&
           FE_SAME(a->ecmult_gen_ctx.ge_offset.x, b->ecmult_gen_ctx.ge_offset.x) && FE_SAME(a->ecmult_gen_ctx.ge_offset.y, b->ecmult_gen_ctx.ge_offset.y) &&
           a->ecmult_gen_ctx.ge_offset.infinity == b->ecmult_gen_ctx.ge_offset.infinity && FE_SAME(a->ecmult_gen_ctx.proj_blind, b->ecmult_gen_ctx.proj_blind) &&
           a->hash_ctx.fn_sha256_compression == b->hash_ctx.fn_sha256_compression &&
           a->illegal_callback.fn == b->illegal_callback.fn && a->illegal_callback.data == b->illegal_callback.data &&
           a->error_callback.fn == b->error_callback.fn && a->error_callback.data == b->error_callback.data && a->declassify == b->declassify;
}
static int flags_ok(unsigned flags) {
    return (flags & SECP256K1_FLAGS_TYPE_MASK) == SECP256K1_FLAGS_TYPE_CONTEXT && !(flags & SECP256K1_FLAGS_BIT_CONTEXT_DECLASSIFY);
}

/* ---- preallocated_size / preallocated_clone_size: flag gates ---- */
void h_ctx_size(void) {
    INPUT(unsigned, flags);
    INPUT(secp256k1_context, c);
    size_t r;
    RESET()
    r = secp256k1_context_preallocated_size(flags);
    if (flags_ok(flags)) __CPROVER_assert(r >= sizeof(secp256k1_context) && g_def_illegal == 0, "C20 ctx_size: valid flags (type CONTEXT, no declassify bit outside memcheck builds): a size that holds a context, no callback");
    else __CPROVER_assert(g_def_illegal >= 1, "C20 ctx_size: rejected flags are reported through the default illegal callback");
    __CPROVER_assert(g_def_error == 0, "C20 ctx_size: no error callback");
    __CPROVER_assert(g_malloc_n == 0 && g_free_n == 0, "C20 ctx_size: no allocation");
    if (flags == SECP256K1_CONTEXT_NONE) REACH("ctx_size CONTEXT_NONE");
    if (flags == SECP256K1_CONTEXT_DECLASSIFY) REACH("ctx_size declassify rejected");
    if (flags == SECP256K1_EC_COMPRESSED) REACH("ctx_size wrong type rejected");

    verif_ctx_init(&c); g_def_illegal = 0;
    r = secp256k1_context_preallocated_clone_size(&c);
    if (secp256k1_context_is_proper(&c)) __CPROVER_assert(r >= sizeof(secp256k1_context) && g_illegal == 0, "C20 ctx_size: clone_size of a proper context holds a context, no callback");
    else __CPROVER_assert(g_illegal >= 1, "C20 ctx_size: clone_size reports a copy of the static context through the context's own illegal callback");
    __CPROVER_assert(g_def_illegal == 0 && g_error == 0, "C20 ctx_size: clone_size uses only the context's own illegal callback");
    r = secp256k1_context_preallocated_clone_size(secp256k1_context_static);
    __CPROVER_assert(g_def_illegal >= 1, "C20 ctx_size: clone_size of the static context reports illegal use");
}

/* ---- create / preallocated_create ---- */
void h_ctx_create(void) {
    INPUT(unsigned, flags);
    INPUT(size_t, k);
    secp256k1_context *c, *p; void *buf;
    RESET()
    c = secp256k1_context_create(flags);
    if (flags_ok(flags)) {
        /* (allocation failure ends in the non-returning error callback, checked there) */
        __CPROVER_assert(g_malloc_n == 1 && g_free_n == 0, "C20 ctx_create: context creation performs exactly one allocation and releases nothing");
        __CPROVER_assert(c != NULL && g_def_illegal == 0, "C20 ctx_create: valid flags give a context and no callback");
        __CPROVER_assert(secp256k1_context_is_proper(c), "C20 ctx_create: a fresh context is a proper (full) context");
        __CPROVER_assert(c->illegal_callback.fn == secp256k1_default_illegal_callback_fn && c->error_callback.fn == secp256k1_default_error_callback_fn,
                         "C20 ctx_create: a fresh context uses the default callbacks");
        REACH("ctx_create success");
    } else {
        __CPROVER_assert(g_def_illegal >= 1, "C20 ctx_create: rejected flags report illegal use");
        __CPROVER_assert(g_malloc_n <= 1, "C20 ctx_create: at most one allocation also on the rejection path");
        REACH("ctx_create rejected flags");
    }
    /* the same flags in caller-provided memory: no allocation, same object content */
    buf = (malloc)(sizeof(secp256k1_context));
    __CPROVER_assume(buf != NULL);
    g_malloc_n = 0; g_free_n = 0; g_def_illegal = 0;
    p = secp256k1_context_preallocated_create(buf, flags);
    __CPROVER_assert(g_malloc_n == 0 && g_free_n == 0, "C20 ctx_create: preallocated_create never allocates or frees");
    if (flags_ok(flags)) __CPROVER_assert(p != NULL && __CPROVER_POINTER_OBJECT(p) == __CPROVER_POINTER_OBJECT(buf) && g_def_illegal == 0, "C20 ctx_create: preallocated_create builds the context inside the caller's block, no callback");
    else __CPROVER_assert(g_def_illegal >= 1, "C20 ctx_create: preallocated_create reports rejected flags");
    if (flags_ok(flags)) __CPROVER_assert(ctx_same(p, c), "C20 ctx_create: malloc-created and preallocated-created contexts are equal in all five fields");
    (void)k;
}

/* ---- clone / preallocated_clone ---- */
void h_ctx_clone(void) {
    INPUT(secp256k1_context, src);
    INPUT(size_t, k);
    secp256k1_context src0, *r; void *buf;
    INPUT(int, cdecl_);
    verif_ctx_init(&src); src.declassify = cdecl_;
    src0 = src;
    __CPROVER_assume(k < sizeof(secp256k1_context));
    RESET()
    r = secp256k1_context_clone(&src);
    __CPROVER_assert(BYTE(src, k) == BYTE(src0, k), "C20 ctx_clone: the source context is not written");
    __CPROVER_assert(g_def_illegal == 0 && g_def_error == 0, "C20 ctx_clone: only the context's own callbacks are used");
    if (src0.ecmult_gen_ctx.built) {
        __CPROVER_assert(g_malloc_n <= 1 && g_free_n == 0, "C20 ctx_clone: at most one allocation");
        if (!g_malloc_failed) {
            __CPROVER_assert(r != NULL && g_illegal == 0 && g_error == 0, "C20 ctx_clone: proper context clones without callback");
            __CPROVER_assert(ctx_same(r, &src0), "C20 ctx_clone: the clone equals the source in all five fields");
            REACH("ctx_clone success");
        } else {
            __CPROVER_assert(g_error >= 1, "C20 ctx_clone: allocation failure is reported through the error callback");
            REACH("ctx_clone allocation failure");
        }
    } else {
        __CPROVER_assert(g_illegal >= 1 && g_malloc_n <= 1, "C20 ctx_clone: a byte copy of the static context is reported as illegal use");
        REACH("ctx_clone of a static copy");
    }
    buf = (malloc)(sizeof(secp256k1_context));
    __CPROVER_assume(buf != NULL);
    RESET()
    r = secp256k1_context_preallocated_clone(&src, buf);
    __CPROVER_assert(g_malloc_n == 0 && g_free_n == 0, "C20 ctx_clone: preallocated_clone never allocates");
    __CPROVER_assert(BYTE(src, k) == BYTE(src0, k), "C20 ctx_clone: preallocated_clone does not write the source");
    if (src0.ecmult_gen_ctx.built) {
        __CPROVER_assert(r != NULL && __CPROVER_POINTER_OBJECT(r) == __CPROVER_POINTER_OBJECT(buf) && g_illegal == 0, "C20 ctx_clone: preallocated_clone builds the clone inside the caller's block, no callback");
        __CPROVER_assert(ctx_same(r, &src0), "C20 ctx_clone: preallocated clone equals the source in all five fields");
    } else {
        __CPROVER_assert(g_illegal >= 1, "C20 ctx_clone: preallocated_clone reports a copy of the static context as illegal use");
    }
    RESET()
    r = secp256k1_context_clone(secp256k1_context_static);
    __CPROVER_assert(g_def_illegal >= 1 && g_malloc_n <= 1, "C20 ctx_clone: cloning the static context itself reports illegal use");
}

/* ---- destroy / preallocated_destroy ---- */
void h_ctx_destroy(void) {
    INPUT(secp256k1_context, d);
    INPUT(size_t, k); INPUT(_Bool, use_null);
    secp256k1_context d0, st0, *h;
    INPUT(int, ddecl);
    verif_ctx_init(&d); d.declassify = ddecl;
    d0 = d; st0 = *secp256k1_context_static;
    __CPROVER_assume(k < sizeof(secp256k1_context));
    /* preallocated_destroy on a caller-owned object */
    RESET()
    secp256k1_context_preallocated_destroy(use_null ? NULL : &d);
    __CPROVER_assert(g_free_n == 0 && g_malloc_n == 0 && g_error == 0 && g_def_illegal == 0, "C20 ctx_destroy: preallocated_destroy never frees");
    if (use_null) {
        __CPROVER_assert(g_illegal == 0, "C20 ctx_destroy: NULL is a no-op");
    } else if (d0.ecmult_gen_ctx.built) {
        __CPROVER_assert(g_illegal == 0, "C20 ctx_destroy: a proper context is destroyed without callback");
        REACH("preallocated_destroy proper");
    } else {
        __CPROVER_assert(g_illegal >= 1, "C20 ctx_destroy: a copy of the static context is reported as illegal use");
        REACH("preallocated_destroy static copy");
    }
    /* destroy on a heap object */
    h = (malloc)(sizeof(secp256k1_context));
    __CPROVER_assume(h != NULL);
    *h = d0;
    RESET()
    secp256k1_context_destroy(h);
    if (d0.ecmult_gen_ctx.built) {
        __CPROVER_assert(g_free_n == 1 && g_illegal == 0 && g_error == 0, "C20 ctx_destroy: a proper context is released exactly once, no callback");
    } else {
        __CPROVER_assert(g_illegal >= 1, "C20 ctx_destroy: destroy of a static copy is reported as illegal use");
    }
    RESET()
    secp256k1_context_destroy((secp256k1_context *)secp256k1_context_static);
    secp256k1_context_preallocated_destroy((secp256k1_context *)secp256k1_context_static);
    __CPROVER_assert(g_def_illegal >= 2 && g_free_n == 0, "C20 ctx_destroy: the static context itself is reported by destroy and by preallocated_destroy, and never freed");
    __CPROVER_assert(BYTE(*secp256k1_context_static, k) == BYTE(st0, k), "C20 ctx_destroy: the static context object is not written");
}

/* ---- randomize: writes only ecmult_gen_ctx ---- */
void h_ctx_randomize(void) {
    INPUT(secp256k1_context, rc);
    INPUT_ARR(unsigned char, seed, 32); INPUT(_Bool, use_seed);
    INPUT(size_t, k);
    secp256k1_context rc0; int ret;
    INPUT(int, rdecl);
    verif_ctx_init(&rc); rc.declassify = rdecl;   /* arbitrary: a before/after comparison cannot see a write of the value already there */
    rc.hash_ctx.fn_sha256_compression = secp256k1_sha256_transform;
    __CPROVER_assume(k < sizeof(secp256k1_context));
    rc0 = rc;
    RESET() HASHLOG_RESET();
    ret = secp256k1_context_randomize(&rc, use_seed ? seed : NULL);
    __CPROVER_assert(g_error == 0 && g_def_illegal == 0 && g_def_error == 0 && g_malloc_n == 0, "C20 ctx_randomize: no error callback, no allocation");
    if (rc0.ecmult_gen_ctx.built) {
        __CPROVER_assert(ret == 1 && g_illegal == 0, "C20 ctx_randomize: proper context: returns 1, no callback");
        if (k >= GEN_END) __CPROVER_assert(BYTE(rc, k) == BYTE(rc0, k), "C20 ctx_randomize: writes only ecmult_gen_ctx (hash_ctx, callbacks, declassify untouched)");
        __CPROVER_assert(secp256k1_context_is_proper(&rc), "C20 ctx_randomize: the context stays a proper context");
        if (use_seed) REACH("randomize with seed"); else REACH("randomize reset (NULL seed)");
    } else {
        __CPROVER_assert(g_illegal >= 1, "C20 ctx_randomize: a copy of the static context is reported as illegal use");
        REACH("randomize static copy");
    }
    RESET()
    ret = secp256k1_context_randomize((secp256k1_context *)secp256k1_context_static, use_seed ? seed : NULL);
    __CPROVER_assert(g_def_illegal >= 1, "C20 ctx_randomize: randomizing the static context itself reports illegal use");
    (void)ret;
}

/* ---- setters: callbacks and sha256 compression ---- */
static void my_illegal(const char *s, void *d) { (void)s; (void)d; }
static int g_compress_calls;
static void my_compress(uint32_t *state, const unsigned char *blocks64, size_t n_blocks) {
    /* an arbitrary user compression function respecting its frame: rewrites the 8 state words */
    int i; (void)blocks64; (void)n_blocks; g_compress_calls++;
    for (i = 0; i < 8; i++) state[i] = nondet_u32();
}
void h_ctx_setters(void) {
    INPUT(secp256k1_context, sc);
    INPUT(size_t, k); INPUT(_Bool, use_fn); INPUT(_Bool, use_comp);
    INPUT(uint64_t, cookie);
    secp256k1_context sc0, st0;
    const size_t ill_off = offsetof(secp256k1_context, illegal_callback), err_off = offsetof(secp256k1_context, error_callback), hash_off = offsetof(secp256k1_context, hash_ctx);
    INPUT(int, sdecl);
    verif_ctx_init(&sc); sc.declassify = sdecl;
    sc.hash_ctx.fn_sha256_compression = secp256k1_sha256_transform;
    __CPROVER_assume(k < sizeof(secp256k1_context));
    sc0 = sc; st0 = *secp256k1_context_static;
    RESET()
    /* callbacks are settable on every context object except the static one, proper or not */
    secp256k1_context_set_illegal_callback(&sc, use_fn ? my_illegal : NULL, (void *)cookie);
    __CPROVER_assert(sc.illegal_callback.fn == (use_fn ? my_illegal : secp256k1_default_illegal_callback_fn) && sc.illegal_callback.data == (void *)cookie,
                     "C20 ctx_setters: set_illegal_callback installs fn (NULL = default) and data, also on a copy of the static context");
    if (k < ill_off || k >= ill_off + sizeof(secp256k1_callback)) __CPROVER_assert(BYTE(sc, k) == BYTE(sc0, k), "C20 ctx_setters: set_illegal_callback writes only illegal_callback");
    sc = sc0;
    secp256k1_context_set_error_callback(&sc, use_fn ? my_illegal : NULL, (void *)cookie);
    __CPROVER_assert(sc.error_callback.fn == (use_fn ? my_illegal : secp256k1_default_error_callback_fn) && sc.error_callback.data == (void *)cookie,
                     "C20 ctx_setters: set_error_callback installs fn (NULL = default) and data");
    if (k < err_off || k >= err_off + sizeof(secp256k1_callback)) __CPROVER_assert(BYTE(sc, k) == BYTE(sc0, k), "C20 ctx_setters: set_error_callback writes only error_callback");
    __CPROVER_assert(g_illegal == 0 && g_def_illegal == 0 && g_error == 0, "C20 ctx_setters: setting callbacks on a non-static object reports nothing");
    secp256k1_context_set_illegal_callback((secp256k1_context *)secp256k1_context_static, my_illegal, NULL);
    secp256k1_context_set_error_callback((secp256k1_context *)secp256k1_context_static, my_illegal, NULL);
    __CPROVER_assert(g_def_illegal >= 2, "C20 ctx_setters: both callback setters report the static context object as illegal use");
    /* compression function */
    sc = sc0; RESET() g_compress_calls = 0;
    secp256k1_context_set_sha256_compression(&sc, use_comp ? my_compress : NULL);
    if (g_illegal == 0 && (k < hash_off || k >= hash_off + sizeof(secp256k1_hash_ctx))) __CPROVER_assert(BYTE(sc, k) == BYTE(sc0, k), "C20 ctx_setters: set_sha256_compression writes only hash_ctx");
    __CPROVER_assert(g_error == 0 && g_def_illegal == 0 && g_malloc_n == 0, "C20 ctx_setters: set_sha256_compression: no error callback, no allocation");
    if (!sc0.ecmult_gen_ctx.built) {
        __CPROVER_assert(g_illegal >= 1, "C20 ctx_setters: set_sha256_compression reports a copy of the static context as illegal use");
        REACH("set_sha256_compression on a static copy");
    } else if (!use_comp) {
        __CPROVER_assert(g_illegal == 0 && sc.hash_ctx.fn_sha256_compression == secp256k1_sha256_transform, "C20 ctx_setters: set_sha256_compression(NULL) restores the built-in compression");
        REACH("set_sha256_compression reset");
    } else {
        if (g_illegal == 0) __CPROVER_assert(sc.hash_ctx.fn_sha256_compression == my_compress && g_compress_calls >= 1, "C20 ctx_setters: a candidate compression function is installed only after it was run by the self test; a failed self test is reported as illegal use");
        if (g_illegal == 0) REACH("set_sha256_compression accepted"); else REACH("set_sha256_compression failed self test");
    }
    RESET()
    secp256k1_context_set_sha256_compression((secp256k1_context *)secp256k1_context_static, my_compress);
    __CPROVER_assert(g_def_illegal >= 1, "C20 ctx_setters: set_sha256_compression reports the static context object as illegal use");
    __CPROVER_assert(BYTE(*secp256k1_context_static, k) == BYTE(st0, k), "C20 ctx_setters: the static context object is not written by any setter");
}

/* C20: secp256k1_tagged_sha256 computes its result from its arguments only (audit 2 #18 form).
 * The statement is behavioural: the SAME (tag, msg) hashed twice, with an arbitrary other tagged-hash call
 * in between, gives the SAME 32 bytes - where DFCC starts the proof with arbitrary values in every
 * static-lifetime object (function-local statics included), so the first call runs under an arbitrary
 * "history" and the third under whatever the first two left behind.  No call count, no midstate and no
 * internal structure is pinned: an implementation with a const table of tag midstates passes.
 * The compression function is an UNINTERPRETED function of (state, block) installed in the hash context -
 * determinism is all the comparison needs; the real write/finalize/initialize_tagged code runs.
 * Bounded: fixed lengths (tag TAGMAX = 13 bytes, message MSGMAX = 32 bytes; content arbitrary) - symbolic
 * lengths made the solver give up (status ERROR after 300 s). */
#include "pre.h"
#include "src/secp256k1.c"
#include "post.h"
#define TAGMAX 13
#define MSGMAX 32
uint32_t __CPROVER_uninterpreted_sha256_c0(uint32_t, uint32_t, uint32_t, uint32_t, uint32_t, uint32_t, uint32_t, uint32_t, uint32_t, uint32_t, uint32_t, uint32_t, uint32_t, uint32_t, uint32_t, uint32_t, uint32_t, uint32_t, uint32_t, uint32_t, uint32_t, uint32_t, uint32_t, uint32_t);
uint32_t __CPROVER_uninterpreted_sha256_c1(uint32_t, uint32_t, uint32_t, uint32_t, uint32_t, uint32_t, uint32_t, uint32_t, uint32_t, uint32_t, uint32_t, uint32_t, uint32_t, uint32_t, uint32_t, uint32_t, uint32_t, uint32_t, uint32_t, uint32_t, uint32_t, uint32_t, uint32_t, uint32_t);
uint32_t __CPROVER_uninterpreted_sha256_c2(uint32_t, uint32_t, uint32_t, uint32_t, uint32_t, uint32_t, uint32_t, uint32_t, uint32_t, uint32_t, uint32_t, uint32_t, uint32_t, uint32_t, uint32_t, uint32_t, uint32_t, uint32_t, uint32_t, uint32_t, uint32_t, uint32_t, uint32_t, uint32_t);
uint32_t __CPROVER_uninterpreted_sha256_c3(uint32_t, uint32_t, uint32_t, uint32_t, uint32_t, uint32_t, uint32_t, uint32_t, uint32_t, uint32_t, uint32_t, uint32_t, uint32_t, uint32_t, uint32_t, uint32_t, uint32_t, uint32_t, uint32_t, uint32_t, uint32_t, uint32_t, uint32_t, uint32_t);
uint32_t __CPROVER_uninterpreted_sha256_c4(uint32_t, uint32_t, uint32_t, uint32_t, uint32_t, uint32_t, uint32_t, uint32_t, uint32_t, uint32_t, uint32_t, uint32_t, uint32_t, uint32_t, uint32_t, uint32_t, uint32_t, uint32_t, uint32_t, uint32_t, uint32_t, uint32_t, uint32_t, uint32_t);
uint32_t __CPROVER_uninterpreted_sha256_c5(uint32_t, uint32_t, uint32_t, uint32_t, uint32_t, uint32_t, uint32_t, uint32_t, uint32_t, uint32_t, uint32_t, uint32_t, uint32_t, uint32_t, uint32_t, uint32_t, uint32_t, uint32_t, uint32_t, uint32_t, uint32_t, uint32_t, uint32_t, uint32_t);
uint32_t __CPROVER_uninterpreted_sha256_c6(uint32_t, uint32_t, uint32_t, uint32_t, uint32_t, uint32_t, uint32_t, uint32_t, uint32_t, uint32_t, uint32_t, uint32_t, uint32_t, uint32_t, uint32_t, uint32_t, uint32_t, uint32_t, uint32_t, uint32_t, uint32_t, uint32_t, uint32_t, uint32_t);
uint32_t __CPROVER_uninterpreted_sha256_c7(uint32_t, uint32_t, uint32_t, uint32_t, uint32_t, uint32_t, uint32_t, uint32_t, uint32_t, uint32_t, uint32_t, uint32_t, uint32_t, uint32_t, uint32_t, uint32_t, uint32_t, uint32_t, uint32_t, uint32_t, uint32_t, uint32_t, uint32_t, uint32_t);
static void uf_compress(uint32_t *s, const unsigned char *blocks, size_t n_blocks) {
    size_t b; int i;
    for (b = 0; b < n_blocks; b++) {
        uint32_t w[16], t[8];
        for (i = 0; i < 16; i++) w[i] = secp256k1_read_be32(blocks + 64 * b + 4 * i);
        t[0] = __CPROVER_uninterpreted_sha256_c0(s[0], s[1], s[2], s[3], s[4], s[5], s[6], s[7], w[0], w[1], w[2], w[3], w[4], w[5], w[6], w[7], w[8], w[9], w[10], w[11], w[12], w[13], w[14], w[15]);
        t[1] = __CPROVER_uninterpreted_sha256_c1(s[0], s[1], s[2], s[3], s[4], s[5], s[6], s[7], w[0], w[1], w[2], w[3], w[4], w[5], w[6], w[7], w[8], w[9], w[10], w[11], w[12], w[13], w[14], w[15]);
        t[2] = __CPROVER_uninterpreted_sha256_c2(s[0], s[1], s[2], s[3], s[4], s[5], s[6], s[7], w[0], w[1], w[2], w[3], w[4], w[5], w[6], w[7], w[8], w[9], w[10], w[11], w[12], w[13], w[14], w[15]);
        t[3] = __CPROVER_uninterpreted_sha256_c3(s[0], s[1], s[2], s[3], s[4], s[5], s[6], s[7], w[0], w[1], w[2], w[3], w[4], w[5], w[6], w[7], w[8], w[9], w[10], w[11], w[12], w[13], w[14], w[15]);
        t[4] = __CPROVER_uninterpreted_sha256_c4(s[0], s[1], s[2], s[3], s[4], s[5], s[6], s[7], w[0], w[1], w[2], w[3], w[4], w[5], w[6], w[7], w[8], w[9], w[10], w[11], w[12], w[13], w[14], w[15]);
        t[5] = __CPROVER_uninterpreted_sha256_c5(s[0], s[1], s[2], s[3], s[4], s[5], s[6], s[7], w[0], w[1], w[2], w[3], w[4], w[5], w[6], w[7], w[8], w[9], w[10], w[11], w[12], w[13], w[14], w[15]);
        t[6] = __CPROVER_uninterpreted_sha256_c6(s[0], s[1], s[2], s[3], s[4], s[5], s[6], s[7], w[0], w[1], w[2], w[3], w[4], w[5], w[6], w[7], w[8], w[9], w[10], w[11], w[12], w[13], w[14], w[15]);
        t[7] = __CPROVER_uninterpreted_sha256_c7(s[0], s[1], s[2], s[3], s[4], s[5], s[6], s[7], w[0], w[1], w[2], w[3], w[4], w[5], w[6], w[7], w[8], w[9], w[10], w[11], w[12], w[13], w[14], w[15]);
        for (i = 0; i < 8; i++) s[i] = t[i];
    }
}

void h_tagged_sha256(void) {
    secp256k1_context ctx;
    INPUT(size_t, taglen); INPUT(size_t, msglen); INPUT(size_t, taglen2); INPUT(size_t, msglen2); INPUT(size_t, k);
    INPUT(_Bool, has_out); INPUT(_Bool, has_tag); INPUT(_Bool, has_msg);
    INPUT_ARR(unsigned char, th_tag, TAGMAX); INPUT_ARR(unsigned char, th_msg, MSGMAX);
    INPUT_ARR(unsigned char, th_tag2, TAGMAX); INPUT_ARR(unsigned char, th_msg2, MSGMAX);
    unsigned char x[32], y[32], z[32]; int r1, r2, r3;
    verif_ctx_init(&ctx);
    ctx.hash_ctx.fn_sha256_compression = uf_compress;
    __CPROVER_assume(k < 32);
    taglen = TAGMAX; msglen = MSGMAX; taglen2 = TAGMAX; msglen2 = MSGMAX;

    r1 = secp256k1_tagged_sha256(&ctx, has_out ? x : NULL, has_tag ? th_tag : NULL, taglen, has_msg ? th_msg : NULL, msglen);
    __CPROVER_assert(g_error == 0, "C20 tagged_sha256: error callback never invoked");
    if (!has_out || !has_tag || !has_msg) {
        __CPROVER_assert(g_illegal >= 1, "C20 tagged_sha256: NULL argument reports illegal use");
        REACH("tagged_sha256 NULL argument");
    } else {
        __CPROVER_assert(r1 == 1 && g_illegal == 0, "C20 tagged_sha256: succeeds without callback");
        r2 = secp256k1_tagged_sha256(&ctx, z, th_tag2, taglen2, th_msg2, msglen2);      /* any other call in between */
        r3 = secp256k1_tagged_sha256(&ctx, y, th_tag, taglen, th_msg, msglen);          /* the same arguments again */
        __CPROVER_assert(r2 == 1 && r3 == 1 && g_illegal == 0 && g_error == 0, "C20 tagged_sha256: repeated calls succeed without callback");
        __CPROVER_assert(x[k] == y[k], "C20 tagged_sha256: the same tag and message give the same 32 bytes for every initial static state and whatever call came in between");
        if (th_tag[0] != th_tag2[0]) REACH("tagged_sha256: same-length different tag in between");
        if (th_tag[0] == th_tag2[0] && th_msg[0] != th_msg2[0]) REACH("tagged_sha256: different message in between");
    }
}

/* C20: secp256k1_tagged_sha256 computes its result from its arguments only.  DFCC starts the proof with
 * ARBITRARY values in every static-lifetime object (function-local statics included), so the
 * postcondition below - stated on the hash STREAM (contracts/hash_log.h: the SHA-256 object is
 * abstracted to the byte stream written into it; contracts proved against the real write/finalize in
 * the C05 hash units) - holds for every history of calls that may have preceded this one:
 *   exactly two hash computations are finalized (the tag hash, then the message hash);
 *   computation 0 starts from the SHA-256 initial state at position 0 and absorbs exactly the tag bytes;
 *   computation 1 starts from the SHA-256 initial state at position 0, has length 64 + msglen, absorbs the
 *   message bytes at positions 64.., and its digest is what is written to hash32.
 * (That positions 0..63 of computation 1 are SHA256(tag)||SHA256(tag) is the tagged-hash wiring lemma of
 * the C02/C05 hash units; here the point is that no part of the stream comes from earlier calls.) */
#include "hash_log.h"
#include "src/secp256k1.c"
#include "post.h"
#define TMAX 10000

void h_tagged_sha256(void) {
    secp256k1_context ctx;
    INPUT(size_t, taglen); INPUT(size_t, msglen); INPUT(int, we); INPUT(uint64_t, wpos); INPUT(size_t, k);
    INPUT(_Bool, has_out); INPUT(_Bool, has_tag); INPUT(_Bool, has_msg);
    INPUT_ARR(unsigned char, th_out, 32);
    unsigned char out0[32], *tag, *msg; int ret;
    verif_ctx_init(&ctx);
    ctx.hash_ctx.fn_sha256_compression = secp256k1_sha256_transform;
    __CPROVER_assume(taglen <= TMAX && msglen <= TMAX && k < 32);
    __CPROVER_assume(we == 0 || we == 1);
    INPUT_BUF(th_tag, tag, taglen, 64);
    INPUT_BUF(th_msg, msg, msglen, 64);
    memcpy(out0, th_out, 32);
    HASHLOG_RESET(); g_we = we; g_wpos = wpos;

    ret = secp256k1_tagged_sha256(&ctx, has_out ? th_out : NULL, has_tag ? tag : NULL, taglen, has_msg ? msg : NULL, msglen);
    WITNESS_BUF(th_tag, tag, taglen, 64);
    WITNESS_BUF(th_msg, msg, msglen, 64);

    __CPROVER_assert(g_error == 0, "C20 tagged_sha256: error callback never invoked");
    if (!has_out || !has_tag || !has_msg) {
        __CPROVER_assert(g_illegal >= 1, "C20 tagged_sha256: NULL argument reports illegal use");
        (void)out0;
    } else {
        __CPROVER_assert(ret == 1 && g_illegal == 0, "C20 tagged_sha256: succeeds without callback");
        __CPROVER_assert(g_fin_n == 2, "C20 tagged_sha256: exactly two hash computations are finalized, whatever the prior static state");
        __CPROVER_assert(g_w_started && g_w_fin && g_w_s0 == 0x6a09e667ul && g_w_s7 == 0x5be0cd19ul && g_w_b0 == 0,
                         "C20 tagged_sha256: each of the two computations starts from the SHA-256 initial state at position 0 (no cached midstate)");
        if (we == 0) {
            __CPROVER_assert(g_w_end == taglen, "C20 tagged_sha256: computation 0 has the length of the tag");
            if (wpos < taglen) __CPROVER_assert(g_w_hit && g_w_byte == tag[wpos], "C20 tagged_sha256: computation 0 absorbs exactly the tag bytes of THIS call");
        } else {
            __CPROVER_assert(g_w_end == 64 + msglen, "C20 tagged_sha256: computation 1 has length 64 + msglen");
            if (wpos >= 64 && wpos < 64 + msglen) __CPROVER_assert(g_w_hit && g_w_byte == msg[wpos - 64], "C20 tagged_sha256: computation 1 absorbs the message bytes after the 64-byte tag prefix");
            if (wpos < 64) __CPROVER_assert(g_w_hit, "C20 tagged_sha256: the 64-byte tag prefix is written in this call");
            __CPROVER_assert(th_out[k] == g_w_dig[k], "C20 tagged_sha256: hash32 is the digest of computation 1");
        }
        if (we == 1 && msglen == 1000 && taglen == 7) REACH("tagged_sha256 success, watching the message hash");
        if (we == 0 && taglen == 0) REACH("tagged_sha256 with an empty tag");
    }
    if (!has_tag) REACH("tagged_sha256 NULL tag");
}

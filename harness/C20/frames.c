/* C20 (iv): const-context frame.  Representative read-only API calls are run on a context object with
 * ARBITRARY bytes in every field (built or not, any blinding state, declassify on or off; only the
 * callbacks are the counting stubs and the compression pointer is the built-in one), every other pointer
 * argument NULL or an object with arbitrary bytes.  Obligation: every byte of the context object is
 * the same after the call (ghost byte index), and the error callback is never used.  This is the
 * sequential fact behind "many threads may share one context through the const API": no such call
 * writes the context.  The curve/hash leaves are replaced by their frame contracts (assumed.h /
 * hash_log.h); a write to the context inside a replaced leaf is excluded by that leaf's assigns clause,
 * which does not mention the context. */
#include "hash_log.h"
#include "assumed_C03.h"   /* includes assumed.h; contracts of ge_set_xo_var / ge_is_valid_var for the parser */
#include "src/secp256k1.c"
#include "post.h"

static size_t g_k;
#define B(n, k) (((const unsigned char *)&(n))[k])
#define CTX_SETUP(c) INPUT(secp256k1_context, c); INPUT(size_t, k); INPUT(int, c##_decl); secp256k1_context c##_0; \
    verif_ctx_init(&c); c.declassify = c##_decl; /* arbitrary: a before/after comparison cannot see a write of the value already there */ \
    c.hash_ctx.fn_sha256_compression = secp256k1_sha256_transform; \
    __CPROVER_assume(k < sizeof(secp256k1_context)); g_k = k; c##_0 = c; HASHLOG_RESET()
#define CTX_FRAME(c, text) { __CPROVER_assert(B(c, g_k) == B(c##_0, g_k), text); __CPROVER_assert(g_error == 0, "C20 frames: error callback never invoked"); }
#define OBJ(T, n) INPUT(T, n); INPUT(_Bool, has_##n); T *p_##n = has_##n ? &n : NULL
/* "the functions documented to accept the static context always do" (audit 2 #29): the context object below
 * has an ARBITRARY built flag, so it includes every byte copy of secp256k1_context_static.  For well-formed
 * arguments (non-NULL, key object that the library's own loader accepts) no illegal callback may occur. */
static int pk_loadable(const unsigned char *data64) { secp256k1_ge q; secp256k1_ge_from_bytes(&q, data64); return !secp256k1_fe_is_zero(&q.x); }

void h_frame_ecdsa_verify(void) {
    CTX_SETUP(c1);
    OBJ(secp256k1_ecdsa_signature, sig); OBJ(secp256k1_pubkey, pk);
    INPUT_ARR(unsigned char, fv_msg, 32); INPUT(_Bool, has_msg);
    secp256k1_scalar r, s; int ret;
    memcpy(&r, &sig.data[0], 32); memcpy(&s, &sig.data[32], 32);
    __CPROVER_assume(scalar_ok(&r) && scalar_ok(&s));   /* representation invariant of a signature object (established by every parser) */
    ret = secp256k1_ecdsa_verify(&c1, p_sig, has_msg ? fv_msg : NULL, p_pk);
    CTX_FRAME(c1, "C20 frames ecdsa_verify: the context object is not written");
    if (g_illegal == 0) __CPROVER_assert(ret == 0 || ret == 1, "C20 frames ecdsa_verify: returns 0 or 1");
    if (has_sig && has_msg && has_pk && pk_loadable(pk.data)) __CPROVER_assert(g_illegal == 0, "C20 frames ecdsa_verify: well-formed arguments are never reported as illegal use, whatever the context (static copies included)");
    if (ret == 1 && !secp256k1_context_is_proper(&c1)) REACH("ecdsa_verify accepts on a copy of the static context");
    if (ret == 1) REACH("ecdsa_verify accepts");
    if (ret == 0 && g_illegal == 0) REACH("ecdsa_verify rejects without callback");
}

void h_frame_pubkey_parse(void) {
    CTX_SETUP(c2);
    OBJ(secp256k1_pubkey, pk);
    INPUT(size_t, len); INPUT(_Bool, has_in);
    unsigned char *in; int ret;
    __CPROVER_assume(len <= 70);
    INPUT_BUF(pp_in, in, len, 70);
    ret = secp256k1_ec_pubkey_parse(&c2, p_pk, has_in ? in : NULL, len);
    WITNESS_BUF(pp_in, in, len, 70);
    CTX_FRAME(c2, "C20 frames ec_pubkey_parse: the context object is not written");
    if (g_illegal == 0) __CPROVER_assert(ret == 0 || ret == 1, "C20 frames ec_pubkey_parse: returns 0 or 1");
    if (has_pk && has_in) __CPROVER_assert(g_illegal == 0, "C20 frames ec_pubkey_parse: non-NULL arguments are never reported as illegal use, whatever the context (static copies included)");
    if (ret == 1 && len == 33 && !secp256k1_context_is_proper(&c2)) REACH("pubkey_parse accepts on a copy of the static context");
    if (ret == 1 && len == 33) REACH("pubkey_parse accepts a compressed key");
    if (ret == 1 && len == 65) REACH("pubkey_parse accepts an uncompressed key");
}

void h_frame_pubkey_serialize(void) {
    CTX_SETUP(c3);
    OBJ(secp256k1_pubkey, pk); OBJ(size_t, outlen);
    INPUT(unsigned, flags); INPUT(_Bool, has_out);
    unsigned char *out; int ret;
    __CPROVER_assume(outlen <= 80);
    INPUT_BUF(ps_out, out, outlen, 80);
    int wellformed = has_out && has_outlen && has_pk && pk_loadable(pk.data) && (flags & SECP256K1_FLAGS_TYPE_MASK) == SECP256K1_FLAGS_TYPE_COMPRESSION &&
                     outlen >= ((flags & SECP256K1_FLAGS_BIT_COMPRESSION) ? 33u : 65u);
    ret = secp256k1_ec_pubkey_serialize(&c3, has_out ? out : NULL, p_outlen, p_pk, flags);
    if (wellformed) __CPROVER_assert(g_illegal == 0 && ret == 1, "C20 frames ec_pubkey_serialize: well-formed arguments succeed without callback, whatever the context (static copies included)");
    CTX_FRAME(c3, "C20 frames ec_pubkey_serialize: the context object is not written");
    if (g_illegal == 0) __CPROVER_assert(ret == 0 || ret == 1, "C20 frames ec_pubkey_serialize: returns 0 or 1");
    if (ret == 1 && outlen == 33) REACH("pubkey_serialize compressed");
    if (ret == 1 && outlen == 65) REACH("pubkey_serialize uncompressed");
}

void h_frame_schnorrsig_verify(void) {
    CTX_SETUP(c4);
    OBJ(secp256k1_xonly_pubkey, xpk);
    INPUT_ARR(unsigned char, sv_sig, 64); INPUT(_Bool, has_sig);
    INPUT(size_t, msglen); INPUT(_Bool, has_msg);
    unsigned char *msg; int ret;
    __CPROVER_assume(msglen <= 100);
    INPUT_BUF(sv_msg, msg, msglen, 100);
    ret = secp256k1_schnorrsig_verify(&c4, has_sig ? sv_sig : NULL, has_msg ? msg : NULL, msglen, p_xpk);
    CTX_FRAME(c4, "C20 frames schnorrsig_verify: the context object is not written");
    if (g_illegal == 0) __CPROVER_assert(ret == 0 || ret == 1, "C20 frames schnorrsig_verify: returns 0 or 1");
    if (has_sig && (has_msg || msglen == 0) && has_xpk && pk_loadable(xpk.data)) __CPROVER_assert(g_illegal == 0, "C20 frames schnorrsig_verify: well-formed arguments are never reported as illegal use, whatever the context (static copies included)");
    if (ret == 1 && !secp256k1_context_is_proper(&c4)) REACH("schnorrsig_verify accepts on a copy of the static context");
    if (ret == 1) REACH("schnorrsig_verify accepts");
    if (ret == 0 && g_illegal == 0) REACH("schnorrsig_verify rejects without callback");
}

/* C20 (ii): static-context gates.  Every API that needs ecmult_gen (19 entry points: grep
 * secp256k1_ecmult_gen_context_is_built) is called on a BYTE COPY of secp256k1_context_static whose
 * callbacks were replaced, through the library's own setters, by counting stubs.  Every other pointer
 * argument is NULL or an object with arbitrary bytes.  Obligations per API (audit RULE: the header leaves
 * return value and outputs UNDEFINED once an illegal callback has returned, and allows further callbacks):
 * illegal use is reported (at least one illegal callback), no error callback; the const inputs and the
 * const context object are not written; secp256k1_ecmult_gen is never reached.
 * With built == 0 the code behind the gate is not executed; the curve/hash leaves are nevertheless
 * replaced by their frame contracts so that a missing gate is reported in seconds. */
#include "hash_log.h"
#include "assumed.h"   /* frame contracts for the curve/hash leaves: only reached if a gate is missing, so that such a defect fails fast instead of timing out */
#include "src/secp256k1.c"
#include "post.h"

static size_t g_k;    /* ghost byte index, fixed by the harness, never assigned by the code */
#define OBJ(T, n)    INPUT(T, n); INPUT(_Bool, has_##n); T n##_0 = n; T *p_##n = has_##n ? &n : NULL
#define BUF(n, len)  INPUT_ARR(unsigned char, n, len); INPUT(_Bool, has_##n); unsigned char n##_0[len]; unsigned char *p_##n = has_##n ? n : NULL; memcpy(n##_0, n, len)
#define B(n, k)      (((const unsigned char *)&(n))[k])
#define KEEP(n, text)         if (g_k < sizeof(n)) __CPROVER_assert(B(n, g_k) == B(n##_0, g_k), text)
#define ZERO_OR_KEEP(n, text) if (g_k < sizeof(n)) __CPROVER_assert(B(n, g_k) == B(n##_0, g_k) || B(n, g_k) == 0, text)
#define ZEROED(n, text)       if (has_##n && g_k < sizeof(n)) __CPROVER_assert(B(n, g_k) == 0, text)
/* the property allows EITHER the result a full context would give OR a report of illegal use: with the gate
 * closed the only result that needs no generator multiplication is 0 (audit 2 #3); that ecmult_gen is not
 * reached is the obligation inside gate_stub_ecmult_gen */
#define GATE(ret, text)       __CPROVER_assert((g_illegal >= 1 || (ret) == 0) && g_error == 0, text)
#define CTX_KEEP(text)        if (g_k < sizeof(secp256k1_context)) __CPROVER_assert(B(sctx, g_k) == B(sctx_0, g_k), text)
#define STATIC_COPY() secp256k1_context sctx, sctx_0; \
    sctx = *secp256k1_context_static; HASHLOG_RESET(); \
    secp256k1_context_set_illegal_callback(&sctx, cb_illegal, NULL); secp256k1_context_set_error_callback(&sctx, cb_error, NULL); \
    __CPROVER_assert(sctx.ecmult_gen_ctx.built == 0, "C20 gates: a byte copy of the static context is not built"); \
    sctx_0 = sctx; g_illegal = 0; g_error = 0
#define AGAIN() { g_illegal = 0; g_error = 0; }

/* replaces secp256k1_ecmult_gen (goto-instrument --replace-calls): the very thing the gates protect.  The
 * assume(0) ends a path that got this far, so a missing gate is reported in seconds. */
void gate_stub_ecmult_gen(const secp256k1_ecmult_gen_context *ctx, secp256k1_gej *r, const secp256k1_scalar *a) {
    (void)ctx; (void)r; (void)a;
    __CPROVER_assert(0, "C20 gates: secp256k1_ecmult_gen is never reached with a context that is not built");
    __CPROVER_assume(0);
}

/* replaces nonce_function_rfc6979_impl: only reachable behind a missing gate; keeps the retry loops cheap there */
int gate_stub_rfc6979(const secp256k1_hash_ctx *hash_ctx, unsigned char *nonce32, const unsigned char *msg32, const unsigned char *key32, const unsigned char *algo16, void *data, unsigned int counter) {
    int i; (void)hash_ctx; (void)msg32; (void)key32; (void)algo16; (void)data; (void)counter;
    for (i = 0; i < 32; i++) nonce32[i] = nondet_uchar();
    return nondet_bool() ? 1 : 0;
}

static int stub_nonce(unsigned char *nonce32, const unsigned char *msg32, const unsigned char *key32, const unsigned char *algo16, void *data, unsigned int attempt) {
    (void)nonce32; (void)msg32; (void)key32; (void)algo16; (void)data; (void)attempt;
    return 0;
}

void h_gate_core(void) {
    INPUT(size_t, k);
    OBJ(secp256k1_pubkey, pubkey); OBJ(secp256k1_ecdsa_signature, sig); OBJ(secp256k1_ecdsa_recoverable_signature, rsig);
    OBJ(secp256k1_keypair, kp_out); OBJ(secp256k1_keypair, kp_in); OBJ(secp256k1_schnorrsig_extraparams, xp);
    BUF(seckey, 32); BUF(msg32, 32); BUF(sig64, 64); BUF(aux, 32); BUF(ell64, 64);
    INPUT(_Bool, use_fn); INPUT(size_t, msglen);
    int ret;
    STATIC_COPY();
    g_k = k;

    ret = secp256k1_ec_pubkey_create(&sctx, p_pubkey, p_seckey);
    GATE(ret, "C20 gates ec_pubkey_create: static context is reported as illegal use, or the call returns 0 without needing the generator");
    if (has_pubkey && has_seckey) REACH("ec_pubkey_create stopped at the gate");

    AGAIN() ret = secp256k1_ecdsa_sign(&sctx, p_sig, p_msg32, p_seckey, use_fn ? stub_nonce : NULL, NULL);
    GATE(ret, "C20 gates ecdsa_sign: static context is reported as illegal use, or the call returns 0 without needing the generator");

    AGAIN() ret = secp256k1_ecdsa_sign_recoverable(&sctx, p_rsig, p_msg32, p_seckey, use_fn ? stub_nonce : NULL, NULL);
    GATE(ret, "C20 gates ecdsa_sign_recoverable: static context is reported as illegal use, or the call returns 0 without needing the generator");

    AGAIN() ret = secp256k1_keypair_create(&sctx, p_kp_out, p_seckey);
    GATE(ret, "C20 gates keypair_create: static context is reported as illegal use, or the call returns 0 without needing the generator");

    AGAIN() ret = secp256k1_schnorrsig_sign32(&sctx, p_sig64, p_msg32, p_kp_in, p_aux);
    GATE(ret, "C20 gates schnorrsig_sign32: static context is reported as illegal use, or the call returns 0 without needing the generator");

    __CPROVER_assume(msglen <= 32);
    AGAIN() ret = secp256k1_schnorrsig_sign_custom(&sctx, p_sig64, p_msg32, msglen, p_kp_in, p_xp);
    GATE(ret, "C20 gates schnorrsig_sign_custom: static context is reported as illegal use, or the call returns 0 without needing the generator");

    AGAIN() ret = secp256k1_ellswift_create(&sctx, p_ell64, p_seckey, p_aux);
    GATE(ret, "C20 gates ellswift_create: static context is reported as illegal use, or the call returns 0 without needing the generator");

    KEEP(seckey, "C20 gates core: secret key input not written"); KEEP(msg32, "C20 gates core: message not written");
    KEEP(aux, "C20 gates core: aux randomness not written"); KEEP(kp_in, "C20 gates core: input keypair not written");
    CTX_KEEP("C20 gates core: the context object is not written");
    if (has_sig64 && has_msg32 && has_kp_in) REACH("schnorrsig/ellswift stopped at the gate");
}

void h_gate_musig(void) {
    INPUT(size_t, k);
    OBJ(secp256k1_musig_secnonce, secnonce); OBJ(secp256k1_musig_pubnonce, pubnonce); OBJ(secp256k1_pubkey, pubkey);
    OBJ(secp256k1_musig_keyagg_cache, cache); OBJ(secp256k1_keypair, keypair);
    BUF(secrand_mg, 32); BUF(seckey_mg, 32); BUF(msg32_mg, 32); BUF(extra_mg, 32);
    INPUT(uint64_t, cnt);
    int ret, secrand_zero = 1, i;
    STATIC_COPY();
    g_k = k;
    for (i = 0; i < 32; i++) secrand_zero &= (secrand_mg[i] == 0);

    ret = secp256k1_musig_nonce_gen(&sctx, p_secnonce, p_pubnonce, p_secrand_mg, p_seckey_mg, p_pubkey, p_msg32_mg, p_cache, p_extra_mg);
    __CPROVER_assert(g_error == 0, "C20 gates musig_nonce_gen: no error callback");
    __CPROVER_assert(g_illegal >= 1 || (ret == 0 && has_secnonce && has_secrand_mg && secrand_zero), "C20 gates musig_nonce_gen: static context is reported as illegal use, unless the call was already refused (returns 0) for an all-zero session_secrand32");
    KEEP(secrand_mg, "C20 gates musig_nonce_gen: session_secrand32 is not consumed when no nonce was made");
    if (has_secnonce && has_pubnonce && has_secrand_mg && has_pubkey && !secrand_zero) REACH("musig_nonce_gen stopped at the gate");
    if (has_secnonce && has_secrand_mg && secrand_zero) REACH("musig_nonce_gen refused zero secrand_mg without callback");

    secnonce = secnonce_0; pubnonce = pubnonce_0;
    AGAIN() ret = secp256k1_musig_nonce_gen_counter(&sctx, p_secnonce, p_pubnonce, cnt, p_keypair, p_msg32_mg, p_cache, p_extra_mg);
    GATE(ret, "C20 gates musig_nonce_gen_counter: static context is reported as illegal use, or the call returns 0 without needing the generator");
    KEEP(seckey_mg, "C20 gates musig: seckey_mg not written"); KEEP(pubkey, "C20 gates musig: pubkey not written"); KEEP(msg32_mg, "C20 gates musig: msg32_mg not written");
    KEEP(cache, "C20 gates musig: keyagg cache not written"); KEEP(extra_mg, "C20 gates musig: extra_mg input not written"); KEEP(keypair, "C20 gates musig: keypair not written");
    CTX_KEEP("C20 gates musig: the context object is not written");
}

static int stub_nonce_adaptor(unsigned char *nonce32, const unsigned char *msg32, const unsigned char *key32, const unsigned char *pk33, const unsigned char *algo, size_t algolen, void *data) {
    (void)nonce32; (void)msg32; (void)key32; (void)pk33; (void)algo; (void)algolen; (void)data;
    return 0;
}

void h_gate_zkp1(void) {
    INPUT(size_t, k);
    OBJ(secp256k1_ecdsa_signature, sig); OBJ(secp256k1_ecdsa_s2c_opening, opening); OBJ(secp256k1_pubkey, enckey);
    OBJ(secp256k1_generator, gen); OBJ(secp256k1_pedersen_commitment, commit);
    BUF(msg32_z1, 32); BUF(seckey_z1, 32); BUF(data32_z1, 32); BUF(asig162_z1, 162); BUF(deckey32_z1, 32); BUF(blind32_z1, 32);
    INPUT(uint64_t, value); INPUT(_Bool, use_fn);
    int ret;
    STATIC_COPY();
    g_k = k;

    ret = secp256k1_ecdsa_s2c_sign(&sctx, p_sig, p_opening, p_msg32_z1, p_seckey_z1, p_data32_z1);
    GATE(ret, "C20 gates ecdsa_s2c_sign: static context is reported as illegal use, or the call returns 0 without needing the generator");

    AGAIN() ret = secp256k1_ecdsa_anti_exfil_signer_commit(&sctx, p_opening, p_msg32_z1, p_seckey_z1, p_data32_z1);
    GATE(ret, "C20 gates anti_exfil_signer_commit: static context is reported as illegal use, or the call returns 0 without needing the generator");

    AGAIN() ret = secp256k1_ecdsa_adaptor_encrypt(&sctx, p_asig162_z1, p_seckey_z1, p_enckey, p_msg32_z1, use_fn ? stub_nonce_adaptor : NULL, NULL);
    GATE(ret, "C20 gates ecdsa_adaptor_encrypt: static context is reported as illegal use, or the call returns 0 without needing the generator");

    AGAIN() ret = secp256k1_ecdsa_adaptor_recover(&sctx, p_deckey32_z1, p_sig, p_asig162_z1, p_enckey);
    GATE(ret, "C20 gates ecdsa_adaptor_recover: static context is reported as illegal use, or the call returns 0 without needing the generator");

    AGAIN() ret = secp256k1_generator_generate_blinded(&sctx, p_gen, p_data32_z1, p_blind32_z1);
    GATE(ret, "C20 gates generator_generate_blinded: static context is reported as illegal use, or the call returns 0 without needing the generator");

    AGAIN() ret = secp256k1_pedersen_commit(&sctx, p_commit, p_blind32_z1, value, p_gen);
    GATE(ret, "C20 gates pedersen_commit: static context is reported as illegal use, or the call returns 0 without needing the generator");

    KEEP(msg32_z1, "C20 gates zkp1: msg32_z1 not written"); KEEP(seckey_z1, "C20 gates zkp1: seckey_z1 not written"); KEEP(data32_z1, "C20 gates zkp1: data32_z1 not written");
    KEEP(enckey, "C20 gates zkp1: enckey not written"); KEEP(blind32_z1, "C20 gates zkp1: blind32_z1 not written");
    CTX_KEEP("C20 gates zkp1: the context object is not written");
    if (has_sig && has_msg32_z1 && has_seckey_z1 && has_data32_z1) REACH("s2c sign stopped at the gate");
}

void h_gate_zkp2(void) {
    INPUT(size_t, k);
    OBJ(secp256k1_pedersen_commitment, commit); OBJ(secp256k1_generator, gen); OBJ(secp256k1_generator, tag_out);
    OBJ(secp256k1_pubkey, sub_pubkey); OBJ(secp256k1_xonly_pubkey, xpk);
    OBJ(uint64_t, value_out); OBJ(uint64_t, min_value); OBJ(uint64_t, max_value); OBJ(size_t, plen); OBJ(size_t, outlen);
    BUF(proof_z2, 64); BUF(blind_z2, 32); BUF(nonce_z2, 32); BUF(message_z2, 32); BUF(extra_z2, 32); BUF(blind_out_z2, 32); BUF(msg_out_z2, 32);
    BUF(key_a_z2, 32); BUF(key_b_z2, 32); BUF(aggsig_z2, 64);
    INPUT(uint64_t, value); INPUT(uint64_t, minv); INPUT(int, exp); INPUT(int, min_bits); INPUT(size_t, msg_len); INPUT(size_t, extra_len);
    INPUT(size_t, n); INPUT(size_t, idx); INPUT(size_t, alen); INPUT(_Bool, has_arrays);
    secp256k1_generator tags[2]; secp256k1_pubkey onl[2], offl[2];
    /* big objects: content arbitrary (uninitialised locals are nondeterministic), only the frame is asserted */
    secp256k1_surjectionproof sproof, sproof_0; secp256k1_whitelist_signature wsig, wsig_0;
    INPUT(_Bool, has_sproof); INPUT(_Bool, has_wsig);
    int ret;
    STATIC_COPY();
    g_k = k;
    sproof_0 = sproof; wsig_0 = wsig;
    __CPROVER_assume(msg_len <= 32 && extra_len <= 32);

    ret = secp256k1_rangeproof_sign(&sctx, p_proof_z2, p_plen, minv, p_commit, p_blind_z2, p_nonce_z2, exp, min_bits, value, p_message_z2, msg_len, p_extra_z2, extra_len, p_gen);
    GATE(ret, "C20 gates rangeproof_sign: static context is reported as illegal use, or the call returns 0 without needing the generator");

    AGAIN() ret = secp256k1_rangeproof_rewind(&sctx, p_blind_out_z2, p_value_out, p_msg_out_z2, p_outlen, p_nonce_z2, p_min_value, p_max_value, p_commit, p_proof_z2, 64, p_extra_z2, extra_len, p_gen);
    GATE(ret, "C20 gates rangeproof_rewind: static context is reported as illegal use, or the call returns 0 without needing the generator");

    AGAIN() ret = secp256k1_surjectionproof_generate(&sctx, has_sproof ? &sproof : NULL, has_arrays ? tags : NULL, n, p_tag_out, idx, p_key_a_z2, p_key_b_z2);
    GATE(ret, "C20 gates surjectionproof_generate: static context is reported as illegal use, or the call returns 0 without needing the generator");

    AGAIN() ret = secp256k1_whitelist_sign(&sctx, has_wsig ? &wsig : NULL, has_arrays ? onl : NULL, has_arrays ? offl : NULL, n, p_sub_pubkey, p_key_a_z2, p_key_b_z2, idx);
    GATE(ret, "C20 gates whitelist_sign: static context is reported as illegal use, or the call returns 0 without needing the generator");

    AGAIN() ret = secp256k1_schnorrsig_aggverify(&sctx, p_xpk, p_message_z2, n, p_aggsig_z2, alen);
    GATE(ret, "C20 gates schnorrsig_aggverify: static context is reported as illegal use, or the call returns 0 without needing the generator");

    KEEP(blind_z2, "C20 gates zkp2: blind_z2 not written");
    KEEP(nonce_z2, "C20 gates zkp2: nonce_z2 not written"); KEEP(message_z2, "C20 gates zkp2: message_z2 not written"); KEEP(extra_z2, "C20 gates zkp2: extra_z2 commit not written");
    KEEP(key_a_z2, "C20 gates zkp2: key a not written"); KEEP(key_b_z2, "C20 gates zkp2: key b not written"); KEEP(aggsig_z2, "C20 gates zkp2: aggsig_z2 not written");
    CTX_KEEP("C20 gates zkp2: the context object is not written");
    if (has_proof_z2 && has_plen && has_commit && has_blind_z2 && has_nonce_z2 && has_gen) REACH("rangeproof_sign stopped at the gate");
    if (has_sproof && has_arrays && has_tag_out && has_key_a_z2 && has_key_b_z2) REACH("surjectionproof_generate stopped at the gate");
}

/* C13 history lemma: a harness over CONTRACTS ONLY.  Every call below is replaced by the contract in
 * api_contracts.h (proved against the real bodies by C13.psign_contract / C13.nonce_gen_contract /
 * C13.nonce_gen_counter_contract); no library code is executed.  All arguments other than the one secnonce
 * object are unconstrained and may differ between the calls (different sessions, keys, caches, outputs).
 *
 *  (1) sign;sign on one secnonce object  => the second call returns 0 and produces no signature
 *  (2) the same when the first call failed (for any reason)
 *  (3) gen;sign;sign (either generator, succeeding or failing) => at most one of the two calls signs
 *  (4) failed gen;sign => no signature
 * Together with the frame (these three are the only API functions with a secnonce in their assigns clause,
 * every other unit's frame excludes it) induction over the call history gives: at most one signature per
 * generated secnonce. */
#include "assumed_musig.h"
#include "src/secp256k1.c"
#include "post.h"
#include "api_contracts.h"

void h_history(void) {
    secp256k1_context ctx;
    INPUT(secp256k1_musig_secnonce, sn);
    INPUT(secp256k1_musig_partial_sig, sig1); INPUT(secp256k1_musig_partial_sig, sig2);
    INPUT(secp256k1_keypair, kp1); INPUT(secp256k1_keypair, kp2);
    INPUT(secp256k1_musig_keyagg_cache, cache1); INPUT(secp256k1_musig_keyagg_cache, cache2);
    INPUT(secp256k1_musig_session, sess1); INPUT(secp256k1_musig_session, sess2);
    INPUT(secp256k1_musig_pubnonce, pn); INPUT(secp256k1_pubkey, pk);
    INPUT_ARR(unsigned char, secrand, 32); INPUT_ARR(unsigned char, seckey, 32); INPUT_ARR(unsigned char, msg, 32); INPUT_ARR(unsigned char, extra, 32);
    INPUT(uint64_t, cnt);
    INPUT(int, scenario); INPUT(size_t, ck); INPUT(size_t, cj);
    INPUT(_Bool, n1); INPUT(_Bool, n2); INPUT(_Bool, n3); INPUT(_Bool, n4); INPUT(_Bool, n5); INPUT(_Bool, n6); INPUT(_Bool, n7); INPUT(_Bool, n8);
    INPUT(_Bool, same_out);
    secp256k1_musig_partial_sig sig2_0;
    secp256k1_musig_partial_sig *out2;
    int g = -1, r1, r2;
    verif_ctx_init(&ctx);
    g_ck = ck; g_cj = cj; __CPROVER_assume(g_ck < 132 && g_cj < 36);
    out2 = same_out ? &sig1 : &sig2;           /* the second call may target the same or another output object */

    if (scenario == 1) {
        g = secp256k1_musig_nonce_gen(&ctx, &sn, n1 ? &pn : NULL, n2 ? secrand : NULL, n3 ? seckey : NULL, n4 ? &pk : NULL, n5 ? msg : NULL, n6 ? &cache1 : NULL, n7 ? extra : NULL);
    } else if (scenario == 2) {
        g = secp256k1_musig_nonce_gen_counter(&ctx, &sn, n1 ? &pn : NULL, cnt, n2 ? &kp1 : NULL, n5 ? msg : NULL, n6 ? &cache1 : NULL, n7 ? extra : NULL);
    }                                           /* otherwise: the secnonce bytes are arbitrary (any earlier history) */

    r1 = secp256k1_musig_partial_sign(&ctx, n8 ? &sig1 : NULL, &sn, &kp1, &cache1, &sess1);
    sig2_0 = *out2;
    r2 = secp256k1_musig_partial_sign(&ctx, out2, &sn, &kp2, &cache2, &sess2);

    __CPROVER_assert(r2 == 0, "C13 history: the second partial_sign on one secnonce object returns 0, whatever the first did");
    __CPROVER_assert(out2->data[g_cj] == sig2_0.data[g_cj] || !PSIG_INITIALISED(out2), "C13 history: the second partial_sign produces no signature (output unchanged or not an initialised signature object)");
    __CPROVER_assert(r1 + r2 <= 1, "C13 history: gen;sign;sign yields at most one signature");
    __CPROVER_assert(g_illegal >= 1, "C13 history: the reuse attempt is reported through the illegal callback");
    if (g == 0) __CPROVER_assert(r1 == 0 && r2 == 0, "C13 history: a secnonce left by a FAILED nonce generation never signs");
    __CPROVER_assert(sn.data[g_ck] == 0, "C13 history: the secnonce is all-zero after the history");
    if (g == 1 && r1 == 1) REACH("history gen ok; sign ok; sign refused");
    if (g == 0) REACH("history gen failed; sign refused");
    if (scenario == 2 && g == 1 && r1 == 0) REACH("history counter gen ok; sign failed; sign refused");
    if (g == -1 && r1 == 1) REACH("history arbitrary nonce; sign ok; sign refused");
    if (g == -1 && r1 == 0) REACH("history failed sign; sign refused");
}

/* C13: the contracts of secp256k1_musig_nonce_gen and secp256k1_musig_nonce_gen_counter in api_contracts.h,
 * ENFORCED on the real bodies: every failure leaves the secnonce zero, success wipes session_secrand32, and the
 * FRAME (writes only *secnonce, *pubnonce, the randomness buffer, the callback counter). */
#include "assumed_musig.h"
#include "src/secp256k1.c"
#include "post.h"
#include "api_contracts.h"
void h_nonce_gen_contract(void) {
    const secp256k1_context *ctx; secp256k1_musig_secnonce *sn; secp256k1_musig_pubnonce *pn; unsigned char *secrand; const unsigned char *seckey, *msg, *extra;
    const secp256k1_pubkey *pk; const secp256k1_musig_keyagg_cache *cache; int ret;
    { secp256k1_context dummy; verif_ctx_init(&dummy); }  /* takes the address of cb_illegal/cb_error so that they are call candidates */
    ret = secp256k1_musig_nonce_gen(ctx, sn, pn, secrand, seckey, pk, msg, cache, extra);
    if (ret == 1 && seckey != NULL && cache != NULL) REACH("nonce_gen_contract success");
    if (ret == 0 && sn != NULL && pn != NULL && secrand != NULL && pk != NULL) REACH("nonce_gen_contract failure with all required arguments");
}
void h_nonce_gen_counter_contract(void) {
    const secp256k1_context *ctx; secp256k1_musig_secnonce *sn; secp256k1_musig_pubnonce *pn; uint64_t cnt; const unsigned char *msg, *extra;
    const secp256k1_keypair *kp; const secp256k1_musig_keyagg_cache *cache; int ret;
    { secp256k1_context dummy; verif_ctx_init(&dummy); }
    ret = secp256k1_musig_nonce_gen_counter(ctx, sn, pn, cnt, kp, msg, cache, extra);
    if (ret == 1 && cache != NULL) REACH("nonce_gen_counter_contract success");
    if (ret == 0 && sn != NULL && pn != NULL && kp != NULL) REACH("nonce_gen_counter_contract failure with all required arguments");
}

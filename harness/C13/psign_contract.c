/* C13: the contract of secp256k1_musig_partial_sign in harness/C13/api_contracts.h, ENFORCED on the real body
 * (goto-instrument --enforce-contract): wipe on every return, no signature on failure, dead nonce never signs,
 * and the FRAME: the function writes nothing but *secnonce, *partial_sig (and the callback counter). */
#include "assumed_musig.h"
#include "src/secp256k1.c"
#include "post.h"
#include "api_contracts.h"
void h_psign_contract(void) {
    const secp256k1_context *ctx; secp256k1_musig_partial_sig *psig; secp256k1_musig_secnonce *sn; const secp256k1_keypair *kp;
    const secp256k1_musig_keyagg_cache *cache; const secp256k1_musig_session *sess; int ret;
    { secp256k1_context dummy; verif_ctx_init(&dummy); }  /* takes the address of cb_illegal/cb_error so that they are call candidates */
    ret = secp256k1_musig_partial_sign(ctx, psig, sn, kp, cache, sess);
    if (ret == 1) REACH("psign_contract success");
    if (ret == 0 && sn != NULL && psig != NULL && kp != NULL && cache != NULL && sess != NULL) REACH("psign_contract failure with all arguments");
}

/* C13: contracts of the three API functions that may write a secp256k1_musig_secnonce, in contract form.
 *
 *  - PROVED against the real bodies by the units C13.psign_contract / C13.nonce_gen_contract /
 *    C13.nonce_gen_counter_contract (goto-instrument --enforce-contract: requires assumed, ensures and the
 *    assigns frame checked on the real code, every pointer NULL or a fresh object with arbitrary bytes);
 *  - USED (calls replaced by them) by the history-lemma harness C13.history_lemma.
 *
 * They state, in ensures form, a subset of what the harness-enforced units C13.psign / C13.nonce_gen assert:
 * universal byte statements are instantiated at the ghost index g_ck (never assigned by any code) and,
 * because the lemma needs them, at bytes 0..3 (the magic). */
#ifndef VERIF_C13_API_CONTRACTS_H
#define VERIF_C13_API_CONTRACTS_H
/* include AFTER "src/secp256k1.c" and "post.h" (struct secp256k1_context_struct, g_illegal, cb_illegal are defined there);
 * "assumed_musig.h" goes before "src/secp256k1.c" as usual. */
size_t g_ck;                                           /* ghost byte index into a secnonce (< 132) */
size_t g_cj;                                           /* ghost byte index into a partial signature (< 36) */

#define CTX_REQ(ctx) (__CPROVER_is_fresh(ctx, sizeof(*ctx)) && (ctx)->illegal_callback.fn == cb_illegal && (ctx)->error_callback.fn == cb_error)
#define NULL_OR_FRESH(p) ((p) == NULL || __CPROVER_is_fresh(p, sizeof(*(p))))
#define NULL_OR_FRESH_N(p, n) ((p) == NULL || __CPROVER_is_fresh(p, n))
#define SN_ZERO_AT(sn) ((sn)->data[0] == 0 && (sn)->data[1] == 0 && (sn)->data[2] == 0 && (sn)->data[3] == 0 && (sn)->data[g_ck] == 0)
/* "carries the magic" is stated with the TU's own magic constants (what the *_load functions test), not with literal bytes */
#define SN_MAGIC_OLD(sn) (__CPROVER_old((sn)->data[0]) == secp256k1_musig_secnonce_magic[0] && __CPROVER_old((sn)->data[1]) == secp256k1_musig_secnonce_magic[1] && __CPROVER_old((sn)->data[2]) == secp256k1_musig_secnonce_magic[2] && __CPROVER_old((sn)->data[3]) == secp256k1_musig_secnonce_magic[3])
#define PSIG_INITIALISED(ps) ((ps)->data[0] == secp256k1_musig_partial_sig_magic[0] && (ps)->data[1] == secp256k1_musig_partial_sig_magic[1] && (ps)->data[2] == secp256k1_musig_partial_sig_magic[2] && (ps)->data[3] == secp256k1_musig_partial_sig_magic[3])

int secp256k1_musig_partial_sign(const secp256k1_context* ctx, secp256k1_musig_partial_sig *partial_sig, secp256k1_musig_secnonce *secnonce, const secp256k1_keypair *keypair, const secp256k1_musig_keyagg_cache *keyagg_cache, const secp256k1_musig_session *session)
__CPROVER_requires(CTX_REQ(ctx))
__CPROVER_requires(NULL_OR_FRESH(partial_sig) && NULL_OR_FRESH(secnonce) && NULL_OR_FRESH(keypair) && NULL_OR_FRESH(keyagg_cache) && NULL_OR_FRESH(session))
__CPROVER_requires(g_ck < 132 && g_cj < 36 && g_illegal >= 0 && g_illegal < 1000)
__CPROVER_assigns(secnonce != NULL: secnonce->data; partial_sig != NULL: partial_sig->data; g_illegal)
__CPROVER_ensures(__CPROVER_return_value == 0 || __CPROVER_return_value == 1)
/* wipe: whatever happens, the secnonce handed in is all-zero afterwards */
__CPROVER_ensures(secnonce != NULL ==> SN_ZERO_AT(secnonce))
/* a failed call produces no signature: the output object is what the caller had, or is not an initialised partial signature */
__CPROVER_ensures((__CPROVER_return_value == 0 && partial_sig != NULL) ==> (partial_sig->data[g_cj] == __CPROVER_old(partial_sig->data[g_cj]) || !PSIG_INITIALISED(partial_sig)))
/* a secnonce without the magic (in particular a zeroed = used one) never signs, and is reported */
__CPROVER_ensures((secnonce == NULL || !SN_MAGIC_OLD(secnonce)) ==> (__CPROVER_return_value == 0 && g_illegal == __CPROVER_old(g_illegal) + 1))
__CPROVER_ensures(g_illegal == __CPROVER_old(g_illegal) || g_illegal == __CPROVER_old(g_illegal) + 1)
;

int secp256k1_musig_nonce_gen(const secp256k1_context* ctx, secp256k1_musig_secnonce *secnonce, secp256k1_musig_pubnonce *pubnonce, unsigned char *session_secrand32, const unsigned char *seckey, const secp256k1_pubkey *pubkey, const unsigned char *msg32, const secp256k1_musig_keyagg_cache *keyagg_cache, const unsigned char *extra_input32)
__CPROVER_requires(CTX_REQ(ctx))
__CPROVER_requires(NULL_OR_FRESH(secnonce) && NULL_OR_FRESH(pubnonce) && NULL_OR_FRESH_N(session_secrand32, 32) && NULL_OR_FRESH_N(seckey, 32) && NULL_OR_FRESH(pubkey) && NULL_OR_FRESH_N(msg32, 32) && NULL_OR_FRESH(keyagg_cache) && NULL_OR_FRESH_N(extra_input32, 32))
__CPROVER_requires(g_ck < 132 && g_illegal >= 0 && g_illegal < 1000)
__CPROVER_assigns(secnonce != NULL: secnonce->data; pubnonce != NULL: pubnonce->data; session_secrand32 != NULL: __CPROVER_object_upto(session_secrand32, 32); g_illegal)
__CPROVER_ensures(__CPROVER_return_value == 0 || __CPROVER_return_value == 1)
/* every failure leaves the secnonce all-zero */
__CPROVER_ensures((__CPROVER_return_value == 0 && secnonce != NULL) ==> SN_ZERO_AT(secnonce))
/* success wipes the caller's randomness (instantiated at g_ck mod 32) */
__CPROVER_ensures(__CPROVER_return_value == 1 ==> (secnonce != NULL && pubnonce != NULL && session_secrand32 != NULL && pubkey != NULL && session_secrand32[g_ck & 31] == 0))
__CPROVER_ensures(g_illegal == __CPROVER_old(g_illegal) || g_illegal == __CPROVER_old(g_illegal) + 1)
;

int secp256k1_musig_nonce_gen_counter(const secp256k1_context* ctx, secp256k1_musig_secnonce *secnonce, secp256k1_musig_pubnonce *pubnonce, uint64_t nonrepeating_cnt, const secp256k1_keypair *keypair, const unsigned char *msg32, const secp256k1_musig_keyagg_cache *keyagg_cache, const unsigned char *extra_input32)
__CPROVER_requires(CTX_REQ(ctx))
__CPROVER_requires(NULL_OR_FRESH(secnonce) && NULL_OR_FRESH(pubnonce) && NULL_OR_FRESH(keypair) && NULL_OR_FRESH_N(msg32, 32) && NULL_OR_FRESH(keyagg_cache) && NULL_OR_FRESH_N(extra_input32, 32))
__CPROVER_requires(g_ck < 132 && g_illegal >= 0 && g_illegal < 1000)
__CPROVER_assigns(secnonce != NULL: secnonce->data; pubnonce != NULL: pubnonce->data; g_illegal)
__CPROVER_ensures(__CPROVER_return_value == 0 || __CPROVER_return_value == 1)
__CPROVER_ensures((__CPROVER_return_value == 0 && secnonce != NULL) ==> SN_ZERO_AT(secnonce))
__CPROVER_ensures(__CPROVER_return_value == 1 ==> (secnonce != NULL && pubnonce != NULL && keypair != NULL))
__CPROVER_ensures(g_illegal == __CPROVER_old(g_illegal) || g_illegal == __CPROVER_old(g_illegal) + 1)
;

#endif

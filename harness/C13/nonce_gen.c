/* C13 (nonce generation) + C12 (wiring of both entry points into the nonce derivation function).
 * secp256k1_musig_nonce_gen and secp256k1_musig_nonce_gen_counter on the real code, every pointer NULL or an
 * object with arbitrary bytes, context with or without a built ecmult_gen table.
 * Replaced: secp256k1_nonce_function_musig (summary + argument log; its hash stream is C12.nonce_function),
 * secp256k1_ecmult_gen, secp256k1_ge_set_all_gej (oracles: the public nonce points are not part of C13). */
#define LOG_NONCE_FN
#include "assumed_musig.h"
#include "src/secp256k1.c"
#include "post.h"

size_t g_k;   /* ghost byte index into the secnonce */

#ifndef VERIF_NATIVE
static int eqmodp(wide a, wide b) { wide p = P_(); return a == b || a == b + p || b == a + p; }
static wide le256(const unsigned char *b) { wide v = 0; int i; for (i = 31; i >= 0; i--) v = (v << 8) | W(b[i]); return v; }
static unsigned char be_byte(wide v, size_t i) { return (unsigned char)(v >> (8 * (31 - i))); }   /* byte i of the 32-byte big-endian encoding */
static wide modp(wide v) { wide p = P_(); return v >= p ? v - p : v; }
#endif
static const unsigned char sn_magic[4] = { 0x22, 0x0e, 0xdc, 0xf1 };

/* what both entry points promise about the secnonce and the derivation call, given the public key object that was supplied */
#define NONCE_GEN_COMMON(TAG, sn, pkbytes, p_cache, cache) \
    __CPROVER_assert(ret == 0 || ret == 1, "C13 " TAG ": return value is 0 or 1"); \
    __CPROVER_assert(g_error == 0, "C13 " TAG ": error callback never invoked"); \
    __CPROVER_assert(g_nf_n <= 1, "C13 " TAG ": the nonce derivation function runs at most once"); \
    if (ret == 0 && p_sn != NULL) __CPROVER_assert((sn).data[g_k] == 0, "C13 " TAG ": secnonce all-zero on every failure"); \
    if (ret == 1) { \
        __CPROVER_assert(g_illegal == 0 && g_nf_n == 1, "C13 " TAG ": success implies no illegal callback and one derivation"); \
        if (g_k < 4) __CPROVER_assert((sn).data[g_k] == sn_magic[g_k], "C13 " TAG ": secnonce starts with the magic"); \
        GHOST_ONLY( \
        else if (g_k < 36) __CPROVER_assert((sn).data[g_k] == be_byte(sval(&g_nf_k0), g_k - 4), "C13 " TAG ": secnonce bytes 4..35 are k1 as derived"); \
        else if (g_k < 68) __CPROVER_assert((sn).data[g_k] == be_byte(sval(&g_nf_k1), g_k - 36), "C13 " TAG ": secnonce bytes 36..67 are k2 as derived"); \
        __CPROVER_assert(le256(&(sn).data[68]) == modp(le256(&(pkbytes)[0])) && le256(&(sn).data[100]) == modp(le256(&(pkbytes)[32])), "C13 " TAG ": secnonce bytes 68..131 are the canonical bytes of the supplied public key (binding)"); \
        /* C12 wiring: the 33-byte key handed to the derivation is the compressed encoding of the same point, the aggregate key is x(cache.pk) */ \
        __CPROVER_assert(g_nf_pk0 == (2 | (unsigned char)(modp(le256(&(pkbytes)[32])) & 1)), "C12 " TAG ": pk33 parity byte is 2|odd(y) of the supplied public key"); \
        __CPROVER_assert(g_nf_pk_b == be_byte(modp(le256(&(pkbytes)[0])), g_nf_i), "C12 " TAG ": pk33 x bytes are the big-endian x of the supplied public key"); \
        __CPROVER_assert((g_nf_agg_p != NULL) == (p_cache != NULL), "C12 " TAG ": aggregate key passed exactly when a keyagg cache is given"); \
        /* (a cache written by the library holds canonical coordinates; for other byte patterns nothing is claimed) */ \
        if (p_cache != NULL && le256(&(cache).data[4]) < P_()) __CPROVER_assert(g_nf_agg_b == be_byte(le256(&(cache).data[4]), g_nf_i), "C12 " TAG ": aggregate key bytes are x of the cached aggregate key"); \
        ) \
    }

void h_nonce_gen(void) {
    secp256k1_context ctx;
    INPUT(secp256k1_musig_secnonce, sn); INPUT(secp256k1_musig_pubnonce, pn); INPUT(secp256k1_pubkey, pk); INPUT(secp256k1_musig_keyagg_cache, cache);
    INPUT_ARR(unsigned char, secrand, 32); INPUT_ARR(unsigned char, seckey, 32); INPUT_ARR(unsigned char, msg, 32); INPUT_ARR(unsigned char, extra, 32);
    INPUT(_Bool, use_sn); INPUT(_Bool, use_pn); INPUT(_Bool, use_secrand); INPUT(_Bool, use_seckey); INPUT(_Bool, use_pk); INPUT(_Bool, use_msg); INPUT(_Bool, use_cache); INPUT(_Bool, use_extra);
    INPUT(_Bool, built); INPUT(size_t, k); INPUT(size_t, ki);
    unsigned char secrand0[32]; int ret, rand_zero = 1; size_t i;
    secp256k1_musig_secnonce *p_sn = use_sn ? &sn : NULL;
    secp256k1_musig_keyagg_cache *p_cache = use_cache ? &cache : NULL;
    unsigned char *p_seckey = use_seckey ? seckey : NULL, *p_msg = use_msg ? msg : NULL, *p_extra = use_extra ? extra : NULL;
    verif_ctx_init(&ctx); ctx.ecmult_gen_ctx.built = built;
    g_k = k; g_nf_i = ki; g_nf_n = 0; __CPROVER_assume(g_k < sizeof(sn.data) && g_nf_i < 32);
    memcpy(secrand0, secrand, 32);
    for (i = 0; i < 32; i++) rand_zero &= (secrand0[i] == 0);

    ret = secp256k1_musig_nonce_gen(&ctx, p_sn, use_pn ? &pn : NULL, use_secrand ? secrand : NULL, p_seckey, use_pk ? &pk : NULL, p_msg, p_cache, p_extra);

    NONCE_GEN_COMMON("nonce_gen", sn, pk.data, p_cache, cache)
    if (use_sn && use_secrand && rand_zero) __CPROVER_assert(ret == 0 && g_illegal == 0 && g_nf_n == 0, "C13 nonce_gen: all-zero session randomness is rejected (no callback, nothing derived)");
    if (ret == 1) {
        __CPROVER_assert(use_sn && use_pn && use_secrand && use_pk && built, "C13 nonce_gen: success needs secnonce, pubnonce, randomness, public key and a built context");
        __CPROVER_assert(secrand[g_nf_i] == 0, "C13 nonce_gen: the caller's session_secrand32 buffer is zero after success");
        __CPROVER_assert(g_nf_rand_b == secrand0[g_nf_i], "C12 nonce_gen: the derivation receives the caller's 32 bytes of session randomness");
        __CPROVER_assert(g_nf_msg_p == p_msg && g_nf_sk_p == p_seckey && g_nf_extra_p == p_extra, "C12 nonce_gen: msg32, seckey and extra_input32 are passed through (NULL stays NULL)");
    }
    if (!use_sn || !use_secrand) __CPROVER_assert(ret == 0 && g_illegal == 1, "C13 nonce_gen: NULL secnonce or randomness is illegal");
    if (ret == 1 && use_seckey && use_cache && use_msg && use_extra) REACH("nonce_gen success with every optional argument");
    if (ret == 1 && !use_seckey && !use_cache && !use_msg && !use_extra) REACH("nonce_gen success without optional arguments");
    if (ret == 0 && use_sn && g_nf_n == 1) REACH("nonce_gen failure after derivation (invalid seckey)");
    if (ret == 0 && use_sn && use_secrand && !rand_zero && g_nf_n == 0 && use_pn && use_pk && built) REACH("nonce_gen failure on bad cache or public key");
    if (use_sn && use_secrand && rand_zero) REACH("nonce_gen zero randomness");
}

void h_nonce_gen_counter(void) {
    secp256k1_context ctx;
    INPUT(secp256k1_musig_secnonce, csn); INPUT(secp256k1_musig_pubnonce, cpn); INPUT(secp256k1_keypair, ckp); INPUT(secp256k1_musig_keyagg_cache, ccache);
    INPUT_ARR(unsigned char, cmsg, 32); INPUT_ARR(unsigned char, cextra, 32); INPUT(uint64_t, cnt);
    INPUT(_Bool, use_sn); INPUT(_Bool, use_pn); INPUT(_Bool, use_kp); INPUT(_Bool, use_msg); INPUT(_Bool, use_cache); INPUT(_Bool, use_extra);
    INPUT(_Bool, built); INPUT(size_t, k); INPUT(size_t, ki);
    int ret;
    secp256k1_musig_secnonce *p_sn = use_sn ? &csn : NULL;
    secp256k1_musig_keyagg_cache *p_cache = use_cache ? &ccache : NULL;
    unsigned char *p_msg = use_msg ? cmsg : NULL, *p_extra = use_extra ? cextra : NULL;
    verif_ctx_init(&ctx); ctx.ecmult_gen_ctx.built = built;
    g_k = k; g_nf_i = ki; g_nf_n = 0; __CPROVER_assume(g_k < sizeof(csn.data) && g_nf_i < 32);

    ret = secp256k1_musig_nonce_gen_counter(&ctx, p_sn, use_pn ? &cpn : NULL, cnt, use_kp ? &ckp : NULL, p_msg, p_cache, p_extra);

    NONCE_GEN_COMMON("nonce_gen_counter", csn, &ckp.data[32], p_cache, ccache)
    if (ret == 1) {
        __CPROVER_assert(use_sn && use_pn && use_kp && built, "C13 nonce_gen_counter: success needs secnonce, pubnonce, keypair and a built context");
        /* C12: the measured 'low 32 bits' mutant lives here */
        __CPROVER_assert(g_nf_rand_b == (g_nf_i < 8 ? (unsigned char)(cnt >> (8 * (7 - g_nf_i))) : 0), "C12 nonce_gen_counter: the 32-byte nonce input is be64(counter) || 0^24 - all 64 counter bits");
        __CPROVER_assert(g_nf_sk_p != NULL && g_nf_sk_b == ckp.data[g_nf_i], "C12 nonce_gen_counter: the secret key handed to the derivation is the keypair's");
        __CPROVER_assert(g_nf_msg_p == p_msg && g_nf_extra_p == p_extra, "C12 nonce_gen_counter: msg32 and extra_input32 are passed through (NULL stays NULL)");
    }
    if (!use_sn || !use_kp) __CPROVER_assert(ret == 0 && g_illegal == 1, "C13 nonce_gen_counter: NULL secnonce or keypair is illegal");
    if (ret == 1 && (cnt >> 32) != 0 && use_cache) REACH("nonce_gen_counter success with a counter above 2^32");
    if (ret == 0 && use_sn && g_nf_n == 1) REACH("nonce_gen_counter failure after derivation (invalid secret key in keypair)");
    if (ret == 0 && use_sn && use_kp && use_pn && built && g_nf_n == 0) REACH("nonce_gen_counter failure on bad cache or public key");
}

/* C13 (nonce generation) + C12 (wiring of both entry points into the nonce derivation function).
 * secp256k1_musig_nonce_gen and secp256k1_musig_nonce_gen_counter on the real code, every pointer NULL or an
 * object with arbitrary bytes, context with or without a built ecmult_gen table.
 * Replaced: secp256k1_nonce_function_musig (summary + log of the CONTENT it was handed; its hash stream is C12.nonce_function),
 * secp256k1_ecmult_gen, secp256k1_ge_set_all_gej (oracles: the public nonce points are not part of C13).
 * What is demanded is what the property states: every failure leaves the secnonce all-zero (all 132 bytes - this is the one
 * statement about raw bytes, it IS the property), success wipes the randomness, the secnonce holds the derived scalars and is
 * bound to the supplied public key.  Opaque objects are decoded with the TU's own load functions (audit #17), inputs of the
 * derivation are compared by content, not pointer identity (audit #7). */
#define LOG_NONCE_FN
#include "assumed_musig.h"
#include "src/secp256k1.c"
#include "post.h"
#include "../C12/decode.h"

size_t g_k;   /* ghost byte index into the secnonce */

/* what both entry points promise, given the decoded public key P (valid iff p_valid) that was supplied */
#ifndef VERIF_NATIVE
static void nonce_gen_common(int ret, const secp256k1_musig_secnonce *p_sn, const secp256k1_ge *P, int p_valid, const secp256k1_musig_keyagg_cache *p_cache) {
    __CPROVER_assert(ret == 0 || ret == 1, "C13 nonce generation: return value is 0 or 1");
    __CPROVER_assert(g_error == 0, "C13 nonce generation: error callback never invoked");
    if (ret == 0 && p_sn != NULL) __CPROVER_assert(p_sn->data[g_k] == 0, "C13 nonce generation: secnonce all-zero on every failure");
    if (ret == 1) {
        secp256k1_scalar k[2]; secp256k1_ge Pn; secp256k1_keyagg_cache_internal ci; unsigned char xb[32]; int live;
        __CPROVER_assert(g_illegal == 0 && g_nf_n >= 1 && p_sn != NULL && p_valid, "C13 nonce generation: success implies no illegal callback, a derivation, a secnonce and a valid public key");
        live = dec_secnonce(k, &Pn, p_sn);
        /* (the derivation oracle may hand out k1 = k2 = 0, which the library itself treats as a dead nonce; otherwise the nonce is live) */
        __CPROVER_assert(live || (sval(&g_nf_k0) == 0 && sval(&g_nf_k1) == 0), "C13 nonce generation: the secnonce produced is accepted by secnonce_load");
        if (live) {
            __CPROVER_assert(SC_EQ(k[0], g_nf_k0) && SC_EQ(k[1], g_nf_k1), "C13 nonce generation: the secnonce holds the two scalars as derived");
            __CPROVER_assert(!Pn.infinity && cval(&Pn.x) == cval(&P->x) && cval(&Pn.y) == cval(&P->y), "C13 nonce generation: the secnonce is bound to the supplied public key (x and y)");
        }
        /* C12 wiring: the 33-byte key handed to the derivation is the compressed encoding of the same point, the aggregate key is x(cache.pk) */
        be_bytes32(xb, cval(&P->x));
        __CPROVER_assert(g_nf_pk0 == (2 | (unsigned char)(cval(&P->y) & 1)) && g_nf_pk_b == xb[g_nf_i], "C12 nonce generation: the derivation receives the compressed encoding of the supplied public key");
        __CPROVER_assert(g_nf_has_agg == (p_cache != NULL), "C12 nonce generation: aggregate key passed exactly when a keyagg cache is given");
        if (p_cache != NULL && dec_cache(&ci, p_cache) && fval(&ci.pk.x) < P_()) {   /* a cache written by the library holds canonical coordinates */
            be_bytes32(xb, fval(&ci.pk.x));
            __CPROVER_assert(g_nf_agg_b == xb[g_nf_i], "C12 nonce generation: aggregate key bytes are x of the cached aggregate key");
        }
    }
}
#endif

void h_nonce_gen(void) {
    secp256k1_context ctx;
    INPUT(secp256k1_musig_secnonce, sn); INPUT(secp256k1_musig_pubnonce, pn); INPUT(secp256k1_pubkey, pk); INPUT(secp256k1_musig_keyagg_cache, cache);
    INPUT_ARR(unsigned char, secrand, 32); INPUT_ARR(unsigned char, seckey, 32); INPUT_ARR(unsigned char, msg, 32); INPUT_ARR(unsigned char, extra, 32);
    INPUT(_Bool, use_sn); INPUT(_Bool, use_pn); INPUT(_Bool, use_secrand); INPUT(_Bool, use_seckey); INPUT(_Bool, use_pk); INPUT(_Bool, use_msg); INPUT(_Bool, use_cache); INPUT(_Bool, use_extra);
    INPUT(_Bool, built); INPUT(size_t, k); INPUT(size_t, ki);
    unsigned char secrand0[32]; int ret, rand_zero = 1, p_valid; size_t i; secp256k1_ge P;
    secp256k1_musig_secnonce *p_sn = use_sn ? &sn : NULL;
    secp256k1_musig_keyagg_cache *p_cache = use_cache ? &cache : NULL;
    dec_init(); p_valid = dec_pubkey(&P, &pk);
    verif_ctx_init(&ctx); ctx.ecmult_gen_ctx.built = built;
    g_k = k; g_nf_i = ki; g_nf_n = 0; __CPROVER_assume(g_k < sizeof(sn.data) && g_nf_i < 32);
    memcpy(secrand0, secrand, 32);
    for (i = 0; i < 32; i++) rand_zero &= (secrand0[i] == 0);

    ret = secp256k1_musig_nonce_gen(&ctx, p_sn, use_pn ? &pn : NULL, use_secrand ? secrand : NULL, use_seckey ? seckey : NULL, use_pk ? &pk : NULL, use_msg ? msg : NULL, p_cache, use_extra ? extra : NULL);

#ifndef VERIF_NATIVE
    nonce_gen_common(ret, p_sn, &P, use_pk && p_valid, p_cache);
#endif
    if (use_secrand && rand_zero) __CPROVER_assert(ret == 0, "C13 nonce_gen: all-zero session randomness is rejected");
    if (ret == 1) {
        __CPROVER_assert(use_sn && use_pn && use_secrand && use_pk && built, "C13 nonce_gen: success needs secnonce, pubnonce, randomness, public key and a built context");
        __CPROVER_assert(secrand[g_nf_i] == 0, "C13 nonce_gen: the caller's session_secrand32 buffer is zero after success");
        __CPROVER_assert(g_nf_rand_b == secrand0[g_nf_i], "C12 nonce_gen: the derivation receives the caller's 32 bytes of session randomness");
        __CPROVER_assert(g_nf_has_msg == use_msg && g_nf_has_sk == use_seckey && g_nf_has_extra == use_extra, "C12 nonce_gen: msg32, seckey and extra_input32 reach the derivation exactly when given");
        __CPROVER_assert((!use_msg || g_nf_msg_b == msg[g_nf_i]) && (!use_seckey || g_nf_sk_b == seckey[g_nf_i]) && (!use_extra || g_nf_extra_b == extra[g_nf_i]), "C12 nonce_gen: ... with the caller's content");
    }
    if (!use_sn || !use_secrand) __CPROVER_assert(ret == 0 && g_illegal == 1, "C13 nonce_gen: NULL secnonce or randomness is illegal");
    if (ret == 1 && use_seckey && use_cache && use_msg && use_extra) REACH("nonce_gen success with every optional argument");
    if (ret == 1 && !use_seckey && !use_cache && !use_msg && !use_extra) REACH("nonce_gen success without optional arguments");
    if (ret == 0 && use_sn && g_nf_n == 1) REACH("nonce_gen failure after derivation (invalid seckey)");
    if (ret == 0 && use_sn && use_secrand && !rand_zero && g_nf_n == 0 && use_pn && use_pk && built) REACH("nonce_gen failure on bad cache or public key");
    if (use_sn && use_secrand && rand_zero) REACH("nonce_gen zero randomness");
}

void h_nonce_gen_counter(void) {
    secp256k1_context ctx;
    INPUT(secp256k1_musig_secnonce, csn); INPUT(secp256k1_musig_pubnonce, cpn); INPUT(secp256k1_keypair, ckp); INPUT(secp256k1_musig_keyagg_cache, ccache);
    INPUT_ARR(unsigned char, cmsg, 32); INPUT_ARR(unsigned char, cextra, 32); INPUT(uint64_t, cnt);
    INPUT(_Bool, use_sn); INPUT(_Bool, use_pn); INPUT(_Bool, use_kp); INPUT(_Bool, use_msg); INPUT(_Bool, use_cache); INPUT(_Bool, use_extra);
    INPUT(_Bool, built); INPUT(size_t, k); INPUT(size_t, ki);
    int ret, p_valid; secp256k1_ge P; unsigned char kp_sk[32];
    secp256k1_musig_secnonce *p_sn = use_sn ? &csn : NULL;
    secp256k1_musig_keyagg_cache *p_cache = use_cache ? &ccache : NULL;
    dec_init(); p_valid = dec_keypair(NULL, &P, &ckp); (void)secp256k1_keypair_sec(&g_dctx, kp_sk, &ckp);    /* the keypair's public key and secret key bytes, through the API */
    verif_ctx_init(&ctx); ctx.ecmult_gen_ctx.built = built;
    g_k = k; g_nf_i = ki; g_nf_n = 0; __CPROVER_assume(g_k < sizeof(csn.data) && g_nf_i < 32);

    ret = secp256k1_musig_nonce_gen_counter(&ctx, p_sn, use_pn ? &cpn : NULL, cnt, use_kp ? &ckp : NULL, use_msg ? cmsg : NULL, p_cache, use_extra ? cextra : NULL);

#ifndef VERIF_NATIVE
    nonce_gen_common(ret, p_sn, &P, use_kp && p_valid, p_cache);
#endif
    if (ret == 1) {
        __CPROVER_assert(use_sn && use_pn && use_kp && built, "C13 nonce_gen_counter: success needs secnonce, pubnonce, keypair and a built context");
        /* C12: the measured 'low 32 bits' mutant lives here */
        __CPROVER_assert(g_nf_rand_b == (g_nf_i < 8 ? (unsigned char)(cnt >> (8 * (7 - g_nf_i))) : 0), "C12 nonce_gen_counter: the 32-byte nonce input is be64(counter) || 0^24 - all 64 counter bits");
        __CPROVER_assert(g_nf_has_sk && g_nf_sk_b == kp_sk[g_nf_i], "C12 nonce_gen_counter: the secret key handed to the derivation is the keypair's");
        __CPROVER_assert(g_nf_has_msg == use_msg && g_nf_has_extra == use_extra && (!use_msg || g_nf_msg_b == cmsg[g_nf_i]) && (!use_extra || g_nf_extra_b == cextra[g_nf_i]), "C12 nonce_gen_counter: msg32 and extra_input32 reach the derivation exactly when given, with the caller's content");
    }
    if (!use_sn || !use_kp) __CPROVER_assert(ret == 0 && g_illegal == 1, "C13 nonce_gen_counter: NULL secnonce or keypair is illegal");
    if (ret == 1 && (cnt >> 32) != 0 && use_cache) REACH("nonce_gen_counter success with a counter above 2^32");
    if (ret == 0 && use_sn && g_nf_n == 1) REACH("nonce_gen_counter failure after derivation (invalid secret key in keypair)");
    if (ret == 0 && use_sn && use_kp && use_pn && built && g_nf_n == 0) REACH("nonce_gen_counter failure on bad cache or public key");
}

/* C13: secp256k1_musig_partial_sign - wipe on every return, no signature on failure, key binding.
 * Every pointer argument is NULL or an object with arbitrary bytes. */
#include "assumed.h"
#include "src/modules/musig/keyagg.h"
static void secp256k1_musig_keyaggcoef(const secp256k1_hash_ctx *hash_ctx, secp256k1_scalar *r, const secp256k1_keyagg_cache_internal *cache_i, secp256k1_ge *pk)
__CPROVER_requires(__CPROVER_w_ok(r, sizeof(*r)) && __CPROVER_r_ok(cache_i, sizeof(*cache_i)) && __CPROVER_rw_ok(pk, sizeof(*pk)))
__CPROVER_assigns(*r, *pk)
__CPROVER_ensures(scalar_ok(r))
;
#include "src/secp256k1.c"
#include "post.h"
#include "../C12/decode.h"

size_t g_k; /* ghost byte index: never assigned by the code, so an assertion on data[g_k] is a universal statement */

#ifndef VERIF_NATIVE
static int eqmodp(wide a, wide b) { wide p = P_(); return a == b || a == b + p || b == a + p; }
static wide le256(const unsigned char *b) { wide v = 0; int i; for (i = 31; i >= 0; i--) v = (v << 8) | W(b[i]); return v; }
#endif

void h_psign(void) {
    secp256k1_context ctx;
    INPUT(secp256k1_musig_partial_sig, psig);
    INPUT(secp256k1_musig_secnonce, sn);
    INPUT(secp256k1_keypair, kp);
    INPUT(secp256k1_musig_keyagg_cache, cache);
    INPUT(secp256k1_musig_session, sess);
    INPUT(_Bool, use_psig); INPUT(_Bool, use_sn); INPUT(_Bool, use_kp); INPUT(_Bool, use_cache); INPUT(_Bool, use_sess);
    INPUT(size_t, k);
    secp256k1_musig_partial_sig psig0 = psig;
    secp256k1_musig_secnonce sn0 = sn;
    int ret, live, kp_valid; secp256k1_scalar k0[2], s_after; secp256k1_ge Pn0, Pk0;
    secp256k1_musig_partial_sig *p_psig = use_psig ? &psig : NULL;
    secp256k1_musig_secnonce *p_sn = use_sn ? &sn : NULL;
    secp256k1_keypair *p_kp = use_kp ? &kp : NULL;
    secp256k1_musig_keyagg_cache *p_cache = use_cache ? &cache : NULL;
    secp256k1_musig_session *p_sess = use_sess ? &sess : NULL;
    verif_ctx_init(&ctx);
    g_k = k;
    __CPROVER_assume(g_k < sizeof(sn.data));
    /* abstract view of the secnonce on entry: LIVE = accepted by the TU's own secnonce_load (opaque object: no byte offsets, audit #17) */
    dec_init(); live = dec_secnonce(k0, &Pn0, &sn0); kp_valid = dec_keypair(NULL, &Pk0, &kp);

    ret = secp256k1_musig_partial_sign(&ctx, p_psig, p_sn, p_kp, p_cache, p_sess);

    __CPROVER_assert(ret == 0 || ret == 1, "C13 psign: return value is 0 or 1");
    __CPROVER_assert(g_error == 0, "C13 psign: error callback never invoked");
    if (p_sn != NULL) __CPROVER_assert(sn.data[g_k] == 0, "C13 psign.wipe: secnonce all-zero on every return");
    /* "produces no signature" (property): after a failed call the output object is either exactly what the caller had before or
     * not an initialised partial signature (header and property do not forbid clobbering it) */
    if (ret == 0 && p_psig != NULL && g_k < sizeof(psig.data)) __CPROVER_assert(psig.data[g_k] == psig0.data[g_k] || !dec_psig(&s_after, &psig), "C13 psign.nosig: a failed call produces no partial signature (output unchanged or not an initialised signature object)");
    if (ret == 1) __CPROVER_assert(g_illegal == 0, "C13 psign: success implies no illegal callback");
    if (ret == 1) __CPROVER_assert(p_sn != NULL && p_psig != NULL && p_kp != NULL && p_cache != NULL && p_sess != NULL, "C13 psign: success needs every argument");
    if (p_sn != NULL && !live) __CPROVER_assert(ret == 0 && g_illegal == 1, "C13 psign.nosig: zeroed/used/garbage secnonce yields no signature and reports illegal use");
    if (p_sn == NULL) __CPROVER_assert(ret == 0 && g_illegal == 1, "C13 psign: NULL secnonce is illegal");
#ifndef VERIF_NATIVE
    if (ret == 1) {
        __CPROVER_assert(live && kp_valid && cval(&Pn0.x) == cval(&Pk0.x), "C13 psign.binding: secnonce public key x equals keypair public key x");
        __CPROVER_assert(cval(&Pn0.y) == cval(&Pk0.y), "C13 psign.binding: secnonce public key y equals keypair public key y");
    }
#endif
    if (ret == 1) REACH("psign success");
    if (ret == 0 && p_sn != NULL && live) REACH("psign failure with live nonce");
    if (p_sn != NULL && !live) REACH("psign dead nonce");
}

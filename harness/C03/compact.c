/* C03: 64-byte compact ECDSA signature codec (plain and recoverable) and the "never verifies" promise of
 * include/secp256k1.h for signature objects left by a failed or out-of-range parse.
 *   h_compact_parse     secp256k1_ecdsa_signature_parse_compact / _serialize_compact (API, NULL or object)
 *   h_compact_ser_parse parse_compact(serialize_compact(r,s)) = (r,s)
 *   h_rec_compact       secp256k1_ecdsa_recoverable_signature_parse_compact / _serialize_compact
 *   h_never_compact     object left by a failed parse_compact: secp256k1_ecdsa_verify returns 0 for every
 *                       message and every public key object (curve arithmetic replaced by oracle contracts)
 *   h_never_der         same for parse_der: rejected input, or accepted with an out-of-range integer
 *                       (secp256k1_der_parse_integer replaced by its proved contract) */
#include "assumed.h"
#include "spec_der.h"
#include "der_contracts.h"
#include "src/secp256k1.c"
#include "post.h"

void h_compact_parse(void) {
    secp256k1_context ctx;
    INPUT_ARR(unsigned char, in64, 64); INPUT(secp256k1_ecdsa_signature, sig0); INPUT(_Bool, use_sig); INPUT(_Bool, use_in); INPUT(size_t, k);
    INPUT_ARR(unsigned char, out0, 64);
    secp256k1_ecdsa_signature sig = sig0; secp256k1_scalar r, s; unsigned char out[64]; int ret, ret2, ok;
    __CPROVER_assume(k < 64);
    memcpy(out, out0, 64);
    verif_ctx_init(&ctx);
    ret = secp256k1_ecdsa_signature_parse_compact(&ctx, use_sig ? &sig : NULL, use_in ? in64 : NULL);
    /* include/secp256k1.h: 32-byte big-endian R then S; outside [0..order-1] the encoding is invalid; zero allowed */
    ok = spec_lt_be32(in64, SPEC_N_BE) && spec_lt_be32(in64 + 32, SPEC_N_BE);
    __CPROVER_assert(ret == 0 || ret == 1, "C03 compact.parse: returns 0 or 1");
    __CPROVER_assert(g_error == 0, "C03 compact.parse: error callback never invoked");
    if (!use_sig || !use_in) {
        __CPROVER_assert(ret == 0 && g_illegal == 1, "C03 compact.parse: NULL argument reports illegal use and fails");
    } else {
        __CPROVER_assert(g_illegal == 0, "C03 compact.parse: no callback for non-NULL arguments");
        __CPROVER_assert(ret == ok, "C03 compact.parse: accepts exactly r < n and s < n");
        /* overflow: the header promises an initialized object that never verifies - unit C03.never_verifies.compact */
        if (ret) {
            secp256k1_ecdsa_signature_load(&ctx, &r, &s, &sig);
            __CPROVER_assert(spec_scalar_byte(&r, k % 32) == in64[k % 32] && spec_scalar_byte(&s, k % 32) == in64[32 + k % 32], "C03 compact.parse: the object holds r and s of the input");
            ret2 = secp256k1_ecdsa_signature_serialize_compact(&ctx, out, &sig);
            __CPROVER_assert(ret2 == 1 && out[k] == in64[k], "C03 compact.roundtrip: serialize_compact(parse_compact(b)) = b");
            __CPROVER_assert(g_illegal == 0, "C03 compact.roundtrip: no callback");
        }
    }
    if (use_sig && use_in && ret) REACH("compact parse accepts");
    if (use_sig && use_in && !ret && spec_lt_be32(in64, SPEC_N_BE)) REACH("compact parse rejects overflow in s only");
    if (!use_in) REACH("compact parse NULL input");
}

void h_compact_ser_parse(void) {
    secp256k1_context ctx;
    INPUT(secp256k1_scalar, r); INPUT(secp256k1_scalar, s); INPUT(_Bool, use_out); INPUT(_Bool, use_sig);
    secp256k1_ecdsa_signature sig, sig2; secp256k1_scalar r2, s2; unsigned char out[64]; int ret, ret2;
    __CPROVER_assume(scalar_ok(&r) && scalar_ok(&s));     /* an initialized signature object holds reduced scalars */
    verif_ctx_init(&ctx);
    secp256k1_ecdsa_signature_save(&sig, &r, &s);
    ret = secp256k1_ecdsa_signature_serialize_compact(&ctx, use_out ? out : NULL, use_sig ? &sig : NULL);
    if (!use_out || !use_sig) {
        __CPROVER_assert(ret == 0 && g_illegal == 1, "C03 compact.serialize: NULL argument reports illegal use and fails");
    } else {
        __CPROVER_assert(ret == 1 && g_illegal == 0, "C03 compact.serialize: returns 1 without callback");
        ret2 = secp256k1_ecdsa_signature_parse_compact(&ctx, &sig2, out);
        secp256k1_ecdsa_signature_load(&ctx, &r2, &s2, &sig2);
        __CPROVER_assert(ret2 == 1 && SC_EQ(r, r2) && SC_EQ(s, s2), "C03 compact.roundtrip: parse_compact(serialize_compact(r,s)) = (r,s)");
        REACH("compact serialize/parse roundtrip");
    }
}

void h_rec_compact(void) {
    secp256k1_context ctx;
    INPUT_ARR(unsigned char, rin64, 64); INPUT(secp256k1_ecdsa_recoverable_signature, rsig0); INPUT(int, recid); INPUT(size_t, k);
    INPUT(_Bool, use_sig); INPUT(_Bool, use_in);
    secp256k1_ecdsa_recoverable_signature sig = rsig0; unsigned char out[64]; int ret, ret2, ok, recid2 = -1;
    __CPROVER_assume(k < 65);
    verif_ctx_init(&ctx);
    ret = secp256k1_ecdsa_recoverable_signature_parse_compact(&ctx, use_sig ? &sig : NULL, use_in ? rin64 : NULL, recid);
    ok = spec_lt_be32(rin64, SPEC_N_BE) && spec_lt_be32(rin64 + 32, SPEC_N_BE);
    __CPROVER_assert(ret == 0 || ret == 1, "C03 compact.rec_parse: returns 0 or 1");
    __CPROVER_assert(g_error == 0, "C03 compact.rec_parse: error callback never invoked");
    if (!use_sig || !use_in || recid < 0 || recid > 3) {
        __CPROVER_assert(ret == 0 && g_illegal == 1, "C03 compact.rec_parse: NULL argument or recovery id outside 0..3 reports illegal use and fails");
    } else {
        __CPROVER_assert(g_illegal == 0, "C03 compact.rec_parse: no callback for valid arguments");
        __CPROVER_assert(ret == ok, "C03 compact.rec_parse: accepts exactly r < n and s < n");
        if (ret) {
            ret2 = secp256k1_ecdsa_recoverable_signature_serialize_compact(&ctx, out, &recid2, &sig);
            __CPROVER_assert(ret2 == 1 && recid2 == recid && out[k % 64] == rin64[k % 64] && g_illegal == 0, "C03 compact.rec_roundtrip: serialize_compact(parse_compact(b, recid)) = (b, recid)");
        }
    }
    if (use_sig && use_in && ret) REACH("recoverable compact parse accepts");
    if (use_sig && use_in && recid == 3 && !ret) REACH("recoverable compact parse rejects overflow");
    if (recid == 4) REACH("recoverable compact parse bad recid");
}

/* "If parsing failed or R or S are zero, the resulting sig value is guaranteed to fail verification for any
 *  message and public key" (include/secp256k1.h).  pk is ANY 64-byte object, msg any 32 bytes. */
void h_never_compact(void) {
    secp256k1_context ctx;
    INPUT_ARR(unsigned char, nin64, 64); INPUT(secp256k1_ecdsa_signature, sig); INPUT_ARR(unsigned char, nmsg, 32); INPUT(secp256k1_pubkey, pk);
    int ret, v;
    verif_ctx_init(&ctx);
    ret = secp256k1_ecdsa_signature_parse_compact(&ctx, &sig, nin64);
    if (!ret || spec_is_zero32(nin64) || spec_is_zero32(nin64 + 32)) {
        v = secp256k1_ecdsa_verify(&ctx, &sig, nmsg, &pk);
        __CPROVER_assert(v == 0, "C03 never-verifies: the object of a failed compact parse (or with r = 0 or s = 0) fails verification for every message and key");
        if (!ret) REACH("verify after failed compact parse");
        if (ret) REACH("verify with zero r or s");
    }
}

void h_never_der(void) {
    secp256k1_context ctx;
    INPUT(size_t, len); INPUT(secp256k1_ecdsa_signature, sig); INPUT_ARR(unsigned char, dmsg, 32); INPUT(secp256k1_pubkey, pk);
    unsigned char *buf; int ret, v;
    __CPROVER_assume(len <= 100000);
    g_pi_n = 0;
    INPUT_BUF(b, buf, len, 80);
    verif_ctx_init(&ctx);
    ret = secp256k1_ecdsa_signature_parse_der(&ctx, &sig, buf, len);
    if (!ret || !g_pi_I0.inrange || !g_pi_I1.inrange) {
        v = secp256k1_ecdsa_verify(&ctx, &sig, dmsg, &pk);
        __CPROVER_assert(v == 0, "C03 never-verifies: the object of a rejected DER parse, or of an accepted one with an out-of-range integer, fails verification for every message and key");
        if (!ret) REACH("verify after rejected DER parse");
        if (ret) REACH("verify after DER parse with out-of-range integer");
    }
}

/* C03 / C07: contrib/lax_der_parsing.c (ecdsa_signature_parse_der_lax) - memory safety for every input of
 * every length, and the promise of contrib/lax_der_parsing.h: "After the call, sig will always be initialized.
 * If parsing failed or the encoded numbers are out of range, signature validation with it is guaranteed to fail".
 * The six loops carry loop contracts supplied from the unit table (engine/units/C03.py, no /repo edit); the
 * input buffer is a heap object of exactly inputlen bytes, so any read outside it is a bounds violation. */
#include "assumed.h"
#include "spec_der.h"
#include "src/secp256k1.c"
#include "contrib/lax_der_parsing.c"
#include "post.h"

/* every length of the property's domain ("all lengths 0..~300 (DER)"); the loops are closed by loop contracts, so
 * this is not an unwinding bound - larger values only cost solver time (100000: no answer within 15 min) */
#ifndef MAXLEN
#define MAXLEN 300
#endif

void h_lax_der(void) {
    secp256k1_context ctx;
    INPUT(size_t, len); INPUT(secp256k1_ecdsa_signature, sig); INPUT(size_t, k);
    unsigned char *buf; int ret; secp256k1_scalar r, s;
    __CPROVER_assume(len <= MAXLEN && k < 64);
    INPUT_BUF(b, buf, len, 80);
    verif_ctx_init(&ctx);
    ret = ecdsa_signature_parse_der_lax(&ctx, &sig, buf, len);
    WITNESS_BUF(b, buf, len, 80);
    __CPROVER_assert(ret == 0 || ret == 1, "C03 lax_der: returns 0 or 1");
    __CPROVER_assert(g_illegal == 0 && g_error == 0, "C03 lax_der: no callback, whatever the bytes");
    secp256k1_ecdsa_signature_load(&ctx, &r, &s, &sig);
    __CPROVER_assert(scalar_ok(&r) && scalar_ok(&s), "C03 lax_der: the signature object is always initialized with reduced scalars");
    if (ret && len > 250) REACH("lax parser accepts a long input");
    if (ret && (r.d[0] | r.d[1] | r.d[2] | r.d[3]) != 0 && (s.d[0] | s.d[1] | s.d[2] | s.d[3]) != 0) REACH("lax parser yields non-zero r and s");
    if (!ret && len > 10) REACH("lax parser rejects");
}
